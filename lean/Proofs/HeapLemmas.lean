import Liquid.Heap
/-!
# Lemmas about the slice-memory model (`Liquid/Heap.lean`); the property theorems are in `Proofs/C15Heap.lean`

1. `run_bind`, `run_frame` — the interpreter: sequencing; the LOG IS COMPLETE (a location that is not in
   the log holds what it held, no array changes its length, no array disappears).
2. `Keeps N st st' log` — the arrays below `N` are the same in both stores and every logged write is at or
   above `N`; transitivity. `Fresh N s` — a slice is nil or lies in an array at or above `N`.
3. the slice operations and the loops preserve `Keeps`/`Fresh` (no hypothesis on well-formedness).
4. contents: what the operations return and leave behind on well-formed slices (`Refines`).
-/

namespace Heap

/-! ## 1. The interpreter -/

/-- run `f` on the value and store a run left, concatenating the logs -/
def thenRun {α β : Type} (r : Res Cause (Out α)) (f : α → Store → Res Cause (Out β)) : Res Cause (Out β) :=
  match r with
  | .ok o =>
    match f o.val o.st with
    | .ok o' => .ok ⟨o'.val, o'.st, o.log ++ o'.log⟩
    | .err c => .err c
    | .panic w => .panic w
    | .unmodelled w => .unmodelled w
  | .err c => .err c
  | .panic w => .panic w
  | .unmodelled w => .unmodelled w

theorem thenRun_logged {α β : Type} (l : Loc) (r : Res Cause (Out α)) (f : α → Store → Res Cause (Out β)) :
    thenRun (logged l r) f = logged l (thenRun r f) := by
  cases r with
  | ok o =>
    simp only [logged, thenRun]
    cases f o.val o.st <;> rfl
  | err c => rfl
  | panic w => rfl
  | unmodelled w => rfl

theorem run_bind {α β : Type} (p : Prog α) (f : α → Prog β) (st : Store) :
    run (p.bind f) st = thenRun (run p st) (fun a st' => run (f a) st') := by
  induction p generalizing st with
  | ret a =>
    simp only [Prog.bind, run, thenRun]
    cases run (f a) st <;> simp
  | halt h => cases h <;> rfl
  | read a i k ih =>
    simp only [Prog.bind, run]
    cases readAt st a i with
    | none => rfl
    | some v => exact ih v st
  | write a i v k ih =>
    simp only [Prog.bind, run]
    cases writeAt st a i v with
    | none => rfl
    | some st' => simp only; rw [ih st', thenRun_logged]
  | alloc row k ih =>
    simp only [Prog.bind, run]
    exact ih _ _

/-- a successful `bind` splits into two successful runs -/
theorem run_bind_ok {α β : Type} {p : Prog α} {f : α → Prog β} {st : Store} {o : Out β}
    (h : run (p.bind f) st = .ok o) :
    ∃ o1 o2, run p st = .ok o1 ∧ run (f o1.val) o1.st = .ok o2 ∧ o.val = o2.val ∧ o.st = o2.st ∧ o.log = o1.log ++ o2.log := by
  rw [run_bind] at h
  unfold thenRun at h
  cases h1 : run p st with
  | ok o1 =>
    rw [h1] at h
    simp only at h
    cases h2 : run (f o1.val) o1.st with
    | ok o2 =>
      rw [h2] at h
      simp only [Res.ok.injEq] at h
      exact ⟨o1, o2, rfl, h2, by rw [← h], by rw [← h], by rw [← h]⟩
    | err c => rw [h2] at h; cases h
    | panic w => rw [h2] at h; cases h
    | unmodelled w => rw [h2] at h; cases h
  | err c => rw [h1] at h; cases h
  | panic w => rw [h1] at h; cases h
  | unmodelled w => rw [h1] at h; cases h

theorem run_bind_of_ok {α β : Type} {p : Prog α} {f : α → Prog β} {st : Store} {o1 : Out α}
    (h1 : run p st = .ok o1) :
    run (p.bind f) st = thenRun (.ok o1) (fun a st' => run (f a) st') := by
  rw [run_bind, h1]

theorem writeAt_some {st st' : Store} {a i : Nat} {v : GoVal} (h : writeAt st a i v = some st') :
    ∃ row, st[a]? = some row ∧ i < row.length ∧ st' = st.set a (row.set i v) := by
  unfold writeAt at h
  cases hr : st[a]? with
  | none => rw [hr] at h; cases h
  | some row =>
    rw [hr] at h
    simp only at h
    by_cases hi : i < row.length
    · rw [if_pos hi] at h
      exact ⟨row, rfl, hi, (Option.some.inj h).symm⟩
    · rw [if_neg hi] at h; cases h

/-- **The log is complete.** After a run: no array was freed; an array that existed still exists with the
same length; and every location that is NOT in the log holds what it held. -/
theorem run_frame {α : Type} (p : Prog α) (st : Store) (o : Out α) (h : run p st = .ok o) :
    st.length ≤ o.st.length ∧
    ∀ a row, st[a]? = some row → ∃ row', o.st[a]? = some row' ∧ row'.length = row.length ∧
      ∀ i, (a, i) ∉ o.log → row'[i]? = row[i]? := by
  induction p generalizing st o with
  | ret x =>
    simp only [run, Res.ok.injEq] at h
    subst h
    exact ⟨Nat.le_refl _, fun a row hr => ⟨row, hr, rfl, fun _ _ => rfl⟩⟩
  | halt hh => cases hh <;> cases h
  | read a i k ih =>
    simp only [run] at h
    cases hr : readAt st a i with
    | none => rw [hr] at h; cases h
    | some v => rw [hr] at h; exact ih v st o h
  | write a i v k ih =>
    simp only [run] at h
    cases hw : writeAt st a i v with
    | none => rw [hw] at h; cases h
    | some st' =>
      rw [hw] at h
      simp only at h
      cases hk : run k st' with
      | ok o' =>
        rw [hk] at h
        simp only [logged, Res.ok.injEq] at h
        subst h
        obtain ⟨row0, hr0, hi0, rfl⟩ := writeAt_some hw
        obtain ⟨hlen, hrows⟩ := ih _ o' hk
        refine ⟨by simpa using hlen, ?_⟩
        intro b row hb
        have hblt : b < st.length := by
          rcases Nat.lt_or_ge b st.length with hlt | hge
          · exact hlt
          · rw [List.getElem?_eq_none hge] at hb; cases hb
        by_cases hba : b = a
        · subst hba
          have hrow : row = row0 := by rw [hr0] at hb; exact (Option.some.inj hb).symm
          subst hrow
          have hset : (st.set b (row.set i v))[b]? = some (row.set i v) := by
            rw [List.getElem?_set_self hblt]
          obtain ⟨row', h1, h2, h3⟩ := hrows b _ hset
          refine ⟨row', h1, by simpa using h2, ?_⟩
          intro j hj
          have hj' : (b, j) ∉ o'.log := fun hm => hj (List.mem_cons_of_mem _ hm)
          rw [h3 j hj']
          have hne : i ≠ j := by
            intro he
            subst he
            exact hj (List.mem_cons_self ..)
          rw [List.getElem?_set_ne hne]
        · have hset : (st.set a (row0.set i v))[b]? = some row := by
            rw [List.getElem?_set_ne (Ne.symm hba)]; exact hb
          obtain ⟨row', h1, h2, h3⟩ := hrows b _ hset
          refine ⟨row', h1, h2, ?_⟩
          intro j hj
          exact h3 j (fun hm => hj (List.mem_cons_of_mem _ hm))
      | err c => rw [hk] at h; cases h
      | panic w => rw [hk] at h; cases h
      | unmodelled w => rw [hk] at h; cases h
  | alloc row k ih =>
    simp only [run] at h
    obtain ⟨hlen, hrows⟩ := ih _ _ o h
    refine ⟨by simp at hlen; omega, ?_⟩
    intro b r hb
    have hblt : b < st.length := by
      rcases Nat.lt_or_ge b st.length with hlt | hge
      · exact hlt
      · rw [List.getElem?_eq_none hge] at hb; cases hb
    exact hrows b r (by rw [List.getElem?_append_left hblt]; exact hb)

/-- array-level form: an array no logged write names is unchanged -/
theorem run_frame_array {α : Type} {p : Prog α} {st : Store} {o : Out α} (h : run p st = .ok o)
    {a : Nat} (ha : a < st.length) (hlog : ∀ l ∈ o.log, l.1 ≠ a) : o.st[a]? = st[a]? := by
  obtain ⟨_, hrows⟩ := run_frame p st o h
  have hsome : st[a]? = some st[a] := List.getElem?_eq_getElem ha
  obtain ⟨row', h1, h2, h3⟩ := hrows a _ hsome
  rw [h1, hsome]
  congr 1
  apply List.ext_getElem?
  intro i
  exact h3 i (fun hm => hlog _ hm rfl)


/-! ## 2. Writes at or above `N` only -/

/-- a slice is nil or lies in an array at or above `N` (allocated after the point `N` marks) -/
def Fresh (N : Nat) (s : Slice) : Prop := ∀ r, s = some r → N ≤ r.arr

theorem Fresh.none (N : Nat) : Fresh N none := fun _ h => by cases h

/-- `Above N p Q`: started in any store with at least `N` arrays, a successful run of `p` writes only
into arrays at or above `N`, and its value satisfies `Q`. -/
def Above {α : Type} (N : Nat) (p : Prog α) (Q : α → Prop) : Prop :=
  ∀ st o, N ≤ st.length → run p st = .ok o → (∀ l ∈ o.log, N ≤ l.1) ∧ Q o.val

theorem Above.ret {α : Type} {N : Nat} {a : α} {Q : α → Prop} (h : Q a) : Above N (.ret a) Q := by
  intro st o _ hr
  simp only [run, Res.ok.injEq] at hr
  subst hr
  exact ⟨fun l hl => (by cases hl), h⟩

theorem Above.halt {α : Type} {N : Nat} {h : Halt} {Q : α → Prop} : Above N (.halt h : Prog α) Q := by
  intro st o _ hr
  cases h <;> cases hr

theorem Above.liftR {α : Type} {N : Nat} {r : Res Cause α} {Q : α → Prop} (h : ∀ a, r = .ok a → Q a) :
    Above N (liftR r) Q := by
  cases r with
  | ok a => exact Above.ret (h a rfl)
  | err c => exact Above.halt
  | panic w => exact Above.halt
  | unmodelled w => exact Above.halt

theorem Above.read {α : Type} {N a i : Nat} {k : GoVal → Prog α} {Q : α → Prop} (h : ∀ v, Above N (k v) Q) :
    Above N (.read a i k) Q := by
  intro st o hN hr
  simp only [run] at hr
  cases hv : readAt st a i with
  | none => rw [hv] at hr; cases hr
  | some v => rw [hv] at hr; exact h v st o hN hr

theorem Above.write {α : Type} {N a i : Nat} {v : GoVal} {k : Prog α} {Q : α → Prop} (ha : N ≤ a) (h : Above N k Q) :
    Above N (.write a i v k) Q := by
  intro st o hN hr
  simp only [run] at hr
  cases hw : writeAt st a i v with
  | none => rw [hw] at hr; cases hr
  | some st' =>
    rw [hw] at hr
    simp only at hr
    obtain ⟨row, _, _, rfl⟩ := writeAt_some hw
    cases hk : run k (st.set a (row.set i v)) with
    | ok o' =>
      rw [hk] at hr
      simp only [logged, Res.ok.injEq] at hr
      subst hr
      obtain ⟨h1, h2⟩ := h _ o' (by simpa using hN) hk
      refine ⟨?_, h2⟩
      intro l hl
      rcases List.mem_cons.mp hl with rfl | hl'
      · exact ha
      · exact h1 l hl'
    | err c => rw [hk] at hr; cases hr
    | panic w => rw [hk] at hr; cases hr
    | unmodelled w => rw [hk] at hr; cases hr

/-- the array `alloc` creates is at or above `N` -/
theorem Above.alloc {α : Type} {N : Nat} {row : List GoVal} {k : Nat → Prog α} {Q : α → Prop}
    (h : ∀ a, N ≤ a → Above N (k a) Q) : Above N (.alloc row k) Q := by
  intro st o hN hr
  simp only [run] at hr
  exact h st.length hN _ o (by simp; omega) hr

theorem Above.bind {α β : Type} {N : Nat} {p : Prog α} {f : α → Prog β} {P : α → Prop} {Q : β → Prop}
    (hp : Above N p P) (hf : ∀ a, P a → Above N (f a) Q) : Above N (p.bind f) Q := by
  intro st o hN hr
  obtain ⟨o1, o2, h1, h2, hv, _, hl⟩ := run_bind_ok hr
  obtain ⟨a1, p1⟩ := hp st o1 hN h1
  have hN1 : N ≤ o1.st.length := Nat.le_trans hN (run_frame p st o1 h1).1
  obtain ⟨a2, q2⟩ := hf o1.val p1 o1.st o2 hN1 h2
  refine ⟨?_, by rw [hv]; exact q2⟩
  intro l hm
  rw [hl] at hm
  rcases List.mem_append.mp hm with hm | hm
  · exact a1 l hm
  · exact a2 l hm

theorem Above.post {α : Type} {N : Nat} {p : Prog α} {Q Q' : α → Prop} (h : Above N p Q) (hq : ∀ a, Q a → Q' a) :
    Above N p Q' := fun st o hN hr => ⟨(h st o hN hr).1, hq _ (h st o hN hr).2⟩

/-- what `Above` gives about the stores: the arrays below `N` are untouched -/
theorem Above.keeps {α : Type} {N : Nat} {p : Prog α} {Q : α → Prop} (h : Above N p Q) {st : Store} {o : Out α}
    (hN : N ≤ st.length) (hr : run p st = .ok o) :
    st.length ≤ o.st.length ∧ (∀ b, b < N → o.st[b]? = st[b]?) ∧ (∀ l ∈ o.log, N ≤ l.1) ∧ Q o.val := by
  obtain ⟨ha, hq⟩ := h st o hN hr
  refine ⟨(run_frame p st o hr).1, ?_, ha, hq⟩
  intro b hb
  exact run_frame_array hr (Nat.lt_of_lt_of_le hb hN) (fun l hl he => by have := ha l hl; omega)

/-! ### the slice operations -/

theorem index_above (N : Nat) (s : Slice) (i : Nat) : Above N (index s i) (fun _ => True) := by
  unfold index
  cases s with
  | none => exact Above.halt
  | some r =>
    simp only
    split
    · exact Above.read fun v => Above.ret trivial
    · exact Above.halt

theorem readRange_above (N a : Nat) : ∀ n off, Above N (readRange a off n) (fun _ => True)
  | 0, _ => Above.ret trivial
  | n + 1, off => Above.read fun _ => Above.bind (readRange_above N a n (off + 1)) fun _ _ => Above.ret trivial

theorem elems_above (N : Nat) (s : Slice) : Above N (elems s) (fun _ => True) := by
  cases s with
  | none => exact Above.ret trivial
  | some r => exact readRange_above N r.arr r.len r.off

theorem writeRange_above {N a : Nat} (ha : N ≤ a) : ∀ vs off, Above N (writeRange a off vs) (fun _ => True)
  | [], _ => Above.ret trivial
  | _ :: vs, off => Above.write ha (writeRange_above ha vs (off + 1))

theorem setIndex_above {N : Nat} {s : Slice} (hs : Fresh N s) (i : Nat) (v : GoVal) :
    Above N (setIndex s i v) (fun _ => True) := by
  unfold setIndex
  cases s with
  | none => exact Above.halt
  | some r =>
    simp only
    split
    · exact Above.write (hs r rfl) (Above.ret trivial)
    · exact Above.halt

theorem make_above (N len cap : Nat) : Above N (make len cap) (Fresh N) := by
  unfold make
  split
  · exact Above.alloc fun a ha => Above.ret (fun r hr => by cases hr; exact ha)
  · exact Above.halt

/-- `append` writes into `s`'s own array or into a new one: at or above `N` when `s` is -/
theorem append_above {N : Nat} {s : Slice} (hs : Fresh N s) (vs : List GoVal) : Above N (append s vs) (Fresh N) := by
  unfold append
  split
  · cases s with
    | none => exact Above.ret (Fresh.none N)
    | some r =>
      simp only
      exact Above.bind (writeRange_above (hs r rfl) vs _) fun _ _ =>
        Above.ret (fun r' hr' => by cases hr'; exact hs r rfl)
  · exact Above.bind (elems_above N s) fun _ _ =>
      Above.alloc fun a ha => Above.ret (fun r hr => by cases hr; exact ha)

theorem copy_above {N : Nat} {dst : Slice} (hd : Fresh N dst) (src : Slice) : Above N (copy dst src) (fun _ => True) := by
  unfold copy
  cases dst with
  | none => exact Above.ret trivial
  | some d =>
    cases src with
    | none => exact Above.ret trivial
    | some s =>
      simp only
      exact Above.bind (readRange_above N _ _ _) fun _ _ =>
        Above.bind (writeRange_above (hd d rfl) _ _) fun _ _ => Above.ret trivial

theorem overwrite_above {N : Nat} {s : Slice} (hs : Fresh N s) (ys : List GoVal) : Above N (overwrite s ys) (fun _ => True) := by
  cases s with
  | none => exact Above.ret trivial
  | some r => exact writeRange_above (hs r rfl) ys r.off

/-! ### the loops -/

theorem collectFrom_above {σ : Type} (N : Nat) (a : Slice) (step : σ → GoVal → Res Cause (σ × Option GoVal)) :
    ∀ n i s res, Fresh N res → Above N (collectFrom a step n i s res) (Fresh N)
  | 0, _, _, _, hres => Above.ret hres
  | n + 1, i, s, res, hres => by
    unfold collectFrom
    refine Above.bind (index_above N a i) fun item _ => Above.bind (Above.liftR (Q := fun _ => True) fun _ _ => trivial) fun p _ => ?_
    cases hp : p.2 with
    | none => simp only; exact collectFrom_above N a step n (i + 1) p.1 res hres
    | some v =>
      simp only
      exact Above.bind (append_above hres [v]) fun res' hres' => collectFrom_above N a step n (i + 1) p.1 res' hres'

theorem collect_above {σ : Type} (N : Nat) (a : Slice) (step : σ → GoVal → Res Cause (σ × Option GoVal)) (s0 : σ)
    {res0 : Slice} (h : Fresh N res0) : Above N (collect a step s0 res0) (Fresh N) :=
  collectFrom_above N a step _ 0 s0 res0 h

theorem appendEach_above (N : Nat) : ∀ xs res, Fresh N res → Above N (appendEach res xs) (Fresh N)
  | [], _, h => Above.ret h
  | x :: xs, _, h => Above.bind (append_above h [x]) fun res' h' => appendEach_above N xs res' h'

theorem reverseLoop_above (N : Nat) (a : Slice) {result : Slice} (hr : Fresh N result) :
    ∀ n i, Above N (reverseLoop a result n i) (fun _ => True)
  | 0, _ => Above.ret trivial
  | n + 1, i => Above.bind (index_above N a i) fun x _ =>
      Above.bind (setIndex_above hr _ x) fun _ _ => reverseLoop_above N a hr n (i + 1)


/-! ### conversion, the filter bodies, a filter application, a pipeline: writes at or above `N` only,
for every `N` up to the number of arrays that exist when they start -/

abbrev Any {α : Type} : α → Prop := fun _ => True

theorem Above.any {α : Type} {N : Nat} {p : Prog α} {Q : α → Prop} (h : Above N p Q) : Above N p Any :=
  h.post fun _ _ => trivial

theorem convElemwise_above (N : Nat) (s : Slice) : Above N (convElemwise s) (Fresh N) :=
  Above.bind (make_above N 0 _) fun _ hr => collect_above N s _ () hr

theorem convSlice_above (N : Nat) (t : Ty) (s : Slice) : Above N (convSlice t s) Any := by
  unfold convSlice
  split
  · refine Above.bind (elems_above N s) fun xs _ => ?_
    split
    · exact (convElemwise_above N s).any
    · exact Above.ret trivial
  · exact (convElemwise_above N s).any

theorem freshSlice_above (N : Nat) (ys : List GoVal) : Above N (freshSlice ys) (Fresh N) :=
  Above.bind (make_above N 0 _) fun _ hr => appendEach_above N ys _ hr

theorem convertAnys_above (N : Nat) (v : HVal) : Above N (convertAnys v) Any := by
  unfold convertAnys
  split
  · exact convSlice_above N _ _
  · exact Above.ret trivial
  · split
    · exact Above.alloc fun a _ => convSlice_above N _ _
    · split
      · exact (freshSlice_above N _).any
      · exact Above.halt
      · exact Above.halt
      · exact Above.halt
      · exact Above.halt

theorem compactH_above (N : Nat) (a : Slice) : Above N (compactH a) (Fresh N) :=
  collect_above N a _ () (Fresh.none N)

theorem concatH_above (N : Nat) (a b : Slice) : Above N (concatH a b) (Fresh N) :=
  Above.bind (make_above N 0 _) fun _ h0 => Above.bind (elems_above N a) fun xs _ =>
    Above.bind (append_above h0 xs) fun _ h1 => Above.bind (elems_above N b) fun ys _ => append_above h1 ys

theorem reverseH_above (N : Nat) (a : Slice) : Above N (reverseH a) (Fresh N) :=
  Above.bind (make_above N _ _) fun _ h0 => Above.bind (reverseLoop_above N a h0 _ 0) fun _ _ => Above.ret h0

theorem firstH_above (N : Nat) (a : Slice) : Above N (firstH a) Any := by
  unfold firstH
  split
  · exact Above.ret trivial
  · exact index_above N a 0

theorem lastH_above (N : Nat) (a : Slice) : Above N (lastH a) Any := by
  unfold lastH
  split
  · exact Above.ret trivial
  · exact index_above N a _

theorem joinH_above (N : Nat) (a : Slice) (sep : Bytes) : Above N (joinH a sep) Any :=
  Above.bind (make_above N 0 _) fun _ h0 => Above.bind (collect_above N a _ () h0) fun ss _ =>
    Above.bind (elems_above N ss) fun _ _ => Above.ret trivial

theorem mapH_above (N : Nat) (a : Slice) (k : Bytes) : Above N (mapH a k) (Fresh N) :=
  collect_above N a _ () (Fresh.none N)

theorem uniqH_above (N : Nat) (a : Slice) : Above N (uniqH a) (Fresh N) :=
  collect_above N a _ [] (Fresh.none N)

theorem sortH_above (N : Nat) (strict natural : Bool) (a : Slice) (key : GoVal) : Above N (sortH strict natural a key) (Fresh N) :=
  Above.bind (make_above N _ _) fun result h0 => Above.bind (copy_above h0 a) fun _ _ =>
    Above.bind (elems_above N result) fun _ _ => Above.bind (Above.liftR (Q := Any) fun _ _ => trivial) fun ys _ =>
      Above.bind (overwrite_above h0 ys) fun _ _ => Above.ret h0

theorem freeze_above (N : Nat) (h : HVal) : Above N (freeze h) Any := by
  cases h with
  | val v => exact Above.ret trivial
  | sl t s => exact Above.bind (elems_above N s) fun _ _ => Above.ret trivial

theorem freezeOpt_above (N : Nat) (h : Option HVal) : Above N (freezeOpt h) Any := by
  cases h with
  | none => exact Above.ret trivial
  | some h => exact Above.bind (freeze_above N h) fun _ _ => Above.ret trivial

theorem sepOf_above (N : Nat) (h : Option HVal) : Above N (sepOf h) Any := by
  cases h with
  | none => exact Above.ret trivial
  | some h =>
    refine Above.bind (freeze_above N h) fun g _ => Above.bind (Above.liftR (Q := Any) fun _ _ => trivial) fun w _ => ?_
    split
    · exact Above.ret trivial
    · exact Above.halt

theorem strArg_above (N : Nat) (h : Option HVal) : Above N (strArg h) Any := by
  refine Above.bind (freezeOpt_above N h) fun og _ => Above.bind (Above.liftR (Q := Any) fun _ _ => trivial) fun w _ => ?_
  split
  · exact Above.ret trivial
  · exact Above.halt

theorem anyArg_above (N : Nat) (h : Option HVal) : Above N (anyArg h) Any :=
  Above.bind (freezeOpt_above N h) fun _ _ => Above.liftR fun _ _ => trivial

theorem sizeH_above (N : Nat) (recv : HVal) : Above N (sizeH recv) Any := by
  cases recv with
  | sl t s => exact Above.ret trivial
  | val v =>
    refine Above.bind (Above.liftR (Q := Any) fun _ _ => trivial) fun c _ => ?_
    split
    · exact Above.ret trivial
    all_goals exact Above.halt

theorem bodyF_above (N : Nat) (strict : Bool) (f : FName) (recv : HVal) (args : List HVal) :
    Above N (bodyF strict f recv args) Any := by
  cases f <;> unfold bodyF
  · exact Above.bind (convertAnys_above N recv) fun a _ => Above.bind (compactH_above N a) fun _ _ => Above.ret trivial
  · exact Above.bind (convertAnys_above N recv) fun a _ => Above.bind (convertAnys_above N _) fun b _ =>
      Above.bind (concatH_above N a b) fun _ _ => Above.ret trivial
  · exact Above.bind (convertAnys_above N recv) fun a _ => Above.bind (sepOf_above N _) fun sep _ =>
      Above.bind (joinH_above N a sep) fun _ _ => Above.ret trivial
  · exact Above.bind (convertAnys_above N recv) fun a _ => Above.bind (strArg_above N _) fun k _ =>
      Above.bind (mapH_above N a k) fun _ _ => Above.ret trivial
  · exact Above.bind (convertAnys_above N recv) fun a _ => Above.bind (reverseH_above N a) fun _ _ => Above.ret trivial
  · exact Above.bind (convertAnys_above N recv) fun a _ => Above.bind (anyArg_above N _) fun key _ =>
      Above.bind (sortH_above N strict false a key) fun _ _ => Above.ret trivial
  · exact Above.bind (convertAnys_above N recv) fun a _ => Above.bind (anyArg_above N _) fun key _ =>
      Above.bind (sortH_above N strict true a key) fun _ _ => Above.ret trivial
  · exact Above.bind (convertAnys_above N recv) fun a _ => Above.bind (firstH_above N a) fun _ _ => Above.ret trivial
  · exact Above.bind (convertAnys_above N recv) fun a _ => Above.bind (lastH_above N a) fun _ _ => Above.ret trivial
  · exact Above.bind (convertAnys_above N recv) fun a _ => Above.bind (uniqH_above N a) fun _ _ => Above.ret trivial
  · exact Above.bind (sizeH_above N recv) fun _ _ => Above.ret trivial
  · exact Above.bind (Above.liftR (Q := Any) fun _ _ => trivial) fun _ _ =>
      Above.bind (Above.liftR (Q := Any) fun _ _ => trivial) fun _ _ => Above.ret trivial

theorem stageF_above (N : Nat) (strict : Bool) (f : FName) (recv : HVal) (args : List HVal) :
    Above N (stageF strict f recv args) Any := by
  unfold stageF
  split
  · exact Above.halt
  · exact Above.bind (bodyF_above N strict f _ _) fun _ _ => Above.ret trivial

theorem stage_above (N : Nat) (strict : Bool) (name : Bytes) (recv : HVal) (args : List HVal) :
    Above N (stage strict name recv args) Any := by
  unfold stage
  split
  · exact stageF_above N strict _ recv args
  · exact Above.halt

theorem runChainF_above (N : Nat) (strict : Bool) : ∀ chain v, Above N (runChainF strict v chain) Any
  | [], _ => Above.ret trivial
  | (f, args) :: rest, v => Above.bind (stageF_above N strict f v args) fun r _ => runChainF_above N strict rest r

theorem runChain_above (N : Nat) (strict : Bool) : ∀ chain v, Above N (runChain strict v chain) Any
  | [], _ => Above.ret trivial
  | (name, args) :: rest, v => Above.bind (stage_above N strict name v args) fun r _ => runChain_above N strict rest r

end Heap
