import Liquid.Heap
/-!
# Lemmas about the slice-memory model (`Liquid/Heap.lean`); the property theorems are in `Proofs/C15Heap.lean`

1. `run_bind`, `run_frame` — the interpreter: sequencing; the LOG IS COMPLETE (a location that is not in
   the log holds what it held, no array changes its length, no array disappears).
2. `Keeps N st st' log` — the arrays below `N` are the same in both stores and every logged write is at or
   above `N`; transitivity. `Fresh N s` — a slice is nil or lies in an array at or above `N`.
3. the slice operations and the loops preserve `Keeps`/`Fresh` (no hypothesis on well-formedness).
4. contents: what the operations return and leave behind on well-formed slices (`Refines`).
-/

namespace Heap

/-! ## 1. The interpreter -/

/-- run `f` on the value and store a run left, concatenating the logs -/
def thenRun {α β : Type} (r : Res Cause (Out α)) (f : α → Store → Res Cause (Out β)) : Res Cause (Out β) :=
  match r with
  | .ok o =>
    match f o.val o.st with
    | .ok o' => .ok ⟨o'.val, o'.st, o.log ++ o'.log⟩
    | .err c => .err c
    | .panic w => .panic w
    | .unmodelled w => .unmodelled w
  | .err c => .err c
  | .panic w => .panic w
  | .unmodelled w => .unmodelled w

theorem thenRun_logged {α β : Type} (l : Loc) (r : Res Cause (Out α)) (f : α → Store → Res Cause (Out β)) :
    thenRun (logged l r) f = logged l (thenRun r f) := by
  cases r with
  | ok o =>
    simp only [logged, thenRun]
    cases f o.val o.st <;> rfl
  | err c => rfl
  | panic w => rfl
  | unmodelled w => rfl

theorem run_bind {α β : Type} (p : Prog α) (f : α → Prog β) (st : Store) :
    run (p.bind f) st = thenRun (run p st) (fun a st' => run (f a) st') := by
  induction p generalizing st with
  | ret a =>
    simp only [Prog.bind, run, thenRun]
    cases run (f a) st <;> simp
  | halt h => cases h <;> rfl
  | read a i k ih =>
    simp only [Prog.bind, run]
    cases readAt st a i with
    | none => rfl
    | some v => exact ih v st
  | write a i v k ih =>
    simp only [Prog.bind, run]
    cases writeAt st a i v with
    | none => rfl
    | some st' => simp only; rw [ih st', thenRun_logged]
  | alloc row k ih =>
    simp only [Prog.bind, run]
    exact ih _ _

/-- a successful `bind` splits into two successful runs -/
theorem run_bind_ok {α β : Type} {p : Prog α} {f : α → Prog β} {st : Store} {o : Out β}
    (h : run (p.bind f) st = .ok o) :
    ∃ o1 o2, run p st = .ok o1 ∧ run (f o1.val) o1.st = .ok o2 ∧ o.val = o2.val ∧ o.st = o2.st ∧ o.log = o1.log ++ o2.log := by
  rw [run_bind] at h
  unfold thenRun at h
  cases h1 : run p st with
  | ok o1 =>
    rw [h1] at h
    simp only at h
    cases h2 : run (f o1.val) o1.st with
    | ok o2 =>
      rw [h2] at h
      simp only [Res.ok.injEq] at h
      exact ⟨o1, o2, rfl, h2, by rw [← h], by rw [← h], by rw [← h]⟩
    | err c => rw [h2] at h; cases h
    | panic w => rw [h2] at h; cases h
    | unmodelled w => rw [h2] at h; cases h
  | err c => rw [h1] at h; cases h
  | panic w => rw [h1] at h; cases h
  | unmodelled w => rw [h1] at h; cases h

theorem run_bind_of_ok {α β : Type} {p : Prog α} {f : α → Prog β} {st : Store} {o1 : Out α}
    (h1 : run p st = .ok o1) :
    run (p.bind f) st = thenRun (.ok o1) (fun a st' => run (f a) st') := by
  rw [run_bind, h1]

theorem writeAt_some {st st' : Store} {a i : Nat} {v : GoVal} (h : writeAt st a i v = some st') :
    ∃ row, st[a]? = some row ∧ i < row.length ∧ st' = st.set a (row.set i v) := by
  unfold writeAt at h
  cases hr : st[a]? with
  | none => rw [hr] at h; cases h
  | some row =>
    rw [hr] at h
    simp only at h
    by_cases hi : i < row.length
    · rw [if_pos hi] at h
      exact ⟨row, rfl, hi, (Option.some.inj h).symm⟩
    · rw [if_neg hi] at h; cases h

/-- **The log is complete.** After a run: no array was freed; an array that existed still exists with the
same length; and every location that is NOT in the log holds what it held. -/
theorem run_frame {α : Type} (p : Prog α) (st : Store) (o : Out α) (h : run p st = .ok o) :
    st.length ≤ o.st.length ∧
    ∀ a row, st[a]? = some row → ∃ row', o.st[a]? = some row' ∧ row'.length = row.length ∧
      ∀ i, (a, i) ∉ o.log → row'[i]? = row[i]? := by
  induction p generalizing st o with
  | ret x =>
    simp only [run, Res.ok.injEq] at h
    subst h
    exact ⟨Nat.le_refl _, fun a row hr => ⟨row, hr, rfl, fun _ _ => rfl⟩⟩
  | halt hh => cases hh <;> cases h
  | read a i k ih =>
    simp only [run] at h
    cases hr : readAt st a i with
    | none => rw [hr] at h; cases h
    | some v => rw [hr] at h; exact ih v st o h
  | write a i v k ih =>
    simp only [run] at h
    cases hw : writeAt st a i v with
    | none => rw [hw] at h; cases h
    | some st' =>
      rw [hw] at h
      simp only at h
      cases hk : run k st' with
      | ok o' =>
        rw [hk] at h
        simp only [logged, Res.ok.injEq] at h
        subst h
        obtain ⟨row0, hr0, hi0, rfl⟩ := writeAt_some hw
        obtain ⟨hlen, hrows⟩ := ih _ o' hk
        refine ⟨by simpa using hlen, ?_⟩
        intro b row hb
        have hblt : b < st.length := by
          rcases Nat.lt_or_ge b st.length with hlt | hge
          · exact hlt
          · rw [List.getElem?_eq_none hge] at hb; cases hb
        by_cases hba : b = a
        · subst hba
          have hrow : row = row0 := by rw [hr0] at hb; exact (Option.some.inj hb).symm
          subst hrow
          have hset : (st.set b (row.set i v))[b]? = some (row.set i v) := by
            rw [List.getElem?_set_self hblt]
          obtain ⟨row', h1, h2, h3⟩ := hrows b _ hset
          refine ⟨row', h1, by simpa using h2, ?_⟩
          intro j hj
          have hj' : (b, j) ∉ o'.log := fun hm => hj (List.mem_cons_of_mem _ hm)
          rw [h3 j hj']
          have hne : i ≠ j := by
            intro he
            subst he
            exact hj (List.mem_cons_self ..)
          rw [List.getElem?_set_ne hne]
        · have hset : (st.set a (row0.set i v))[b]? = some row := by
            rw [List.getElem?_set_ne (Ne.symm hba)]; exact hb
          obtain ⟨row', h1, h2, h3⟩ := hrows b _ hset
          refine ⟨row', h1, h2, ?_⟩
          intro j hj
          exact h3 j (fun hm => hj (List.mem_cons_of_mem _ hm))
      | err c => rw [hk] at h; cases h
      | panic w => rw [hk] at h; cases h
      | unmodelled w => rw [hk] at h; cases h
  | alloc row k ih =>
    simp only [run] at h
    obtain ⟨hlen, hrows⟩ := ih _ _ o h
    refine ⟨by simp at hlen; omega, ?_⟩
    intro b r hb
    have hblt : b < st.length := by
      rcases Nat.lt_or_ge b st.length with hlt | hge
      · exact hlt
      · rw [List.getElem?_eq_none hge] at hb; cases hb
    exact hrows b r (by rw [List.getElem?_append_left hblt]; exact hb)

/-- array-level form: an array no logged write names is unchanged -/
theorem run_frame_array {α : Type} {p : Prog α} {st : Store} {o : Out α} (h : run p st = .ok o)
    {a : Nat} (ha : a < st.length) (hlog : ∀ l ∈ o.log, l.1 ≠ a) : o.st[a]? = st[a]? := by
  obtain ⟨_, hrows⟩ := run_frame p st o h
  have hsome : st[a]? = some st[a] := List.getElem?_eq_getElem ha
  obtain ⟨row', h1, h2, h3⟩ := hrows a _ hsome
  rw [h1, hsome]
  congr 1
  apply List.ext_getElem?
  intro i
  exact h3 i (fun hm => hlog _ hm rfl)


/-! ## 2. Writes at or above `N` only -/

/-- a slice is nil or lies in an array at or above `N` (allocated after the point `N` marks) -/
def Fresh (N : Nat) (s : Slice) : Prop := ∀ r, s = some r → N ≤ r.arr

theorem Fresh.none (N : Nat) : Fresh N none := fun _ h => by cases h

/-- `Above N p Q`: started in any store with at least `N` arrays, a successful run of `p` writes only
into arrays at or above `N`, and its value satisfies `Q`. -/
def Above {α : Type} (N : Nat) (p : Prog α) (Q : α → Prop) : Prop :=
  ∀ st o, N ≤ st.length → run p st = .ok o → (∀ l ∈ o.log, N ≤ l.1) ∧ Q o.val

theorem Above.ret {α : Type} {N : Nat} {a : α} {Q : α → Prop} (h : Q a) : Above N (.ret a) Q := by
  intro st o _ hr
  simp only [run, Res.ok.injEq] at hr
  subst hr
  exact ⟨fun l hl => (by cases hl), h⟩

theorem Above.halt {α : Type} {N : Nat} {h : Halt} {Q : α → Prop} : Above N (.halt h : Prog α) Q := by
  intro st o _ hr
  cases h <;> cases hr

theorem Above.liftR {α : Type} {N : Nat} {r : Res Cause α} {Q : α → Prop} (h : ∀ a, r = .ok a → Q a) :
    Above N (liftR r) Q := by
  cases r with
  | ok a => exact Above.ret (h a rfl)
  | err c => exact Above.halt
  | panic w => exact Above.halt
  | unmodelled w => exact Above.halt

theorem Above.read {α : Type} {N a i : Nat} {k : GoVal → Prog α} {Q : α → Prop} (h : ∀ v, Above N (k v) Q) :
    Above N (.read a i k) Q := by
  intro st o hN hr
  simp only [run] at hr
  cases hv : readAt st a i with
  | none => rw [hv] at hr; cases hr
  | some v => rw [hv] at hr; exact h v st o hN hr

theorem Above.write {α : Type} {N a i : Nat} {v : GoVal} {k : Prog α} {Q : α → Prop} (ha : N ≤ a) (h : Above N k Q) :
    Above N (.write a i v k) Q := by
  intro st o hN hr
  simp only [run] at hr
  cases hw : writeAt st a i v with
  | none => rw [hw] at hr; cases hr
  | some st' =>
    rw [hw] at hr
    simp only at hr
    obtain ⟨row, _, _, rfl⟩ := writeAt_some hw
    cases hk : run k (st.set a (row.set i v)) with
    | ok o' =>
      rw [hk] at hr
      simp only [logged, Res.ok.injEq] at hr
      subst hr
      obtain ⟨h1, h2⟩ := h _ o' (by simpa using hN) hk
      refine ⟨?_, h2⟩
      intro l hl
      rcases List.mem_cons.mp hl with rfl | hl'
      · exact ha
      · exact h1 l hl'
    | err c => rw [hk] at hr; cases hr
    | panic w => rw [hk] at hr; cases hr
    | unmodelled w => rw [hk] at hr; cases hr

/-- the array `alloc` creates is at or above `N` -/
theorem Above.alloc {α : Type} {N : Nat} {row : List GoVal} {k : Nat → Prog α} {Q : α → Prop}
    (h : ∀ a, N ≤ a → Above N (k a) Q) : Above N (.alloc row k) Q := by
  intro st o hN hr
  simp only [run] at hr
  exact h st.length hN _ o (by simp; omega) hr

theorem Above.bind {α β : Type} {N : Nat} {p : Prog α} {f : α → Prog β} {P : α → Prop} {Q : β → Prop}
    (hp : Above N p P) (hf : ∀ a, P a → Above N (f a) Q) : Above N (p.bind f) Q := by
  intro st o hN hr
  obtain ⟨o1, o2, h1, h2, hv, _, hl⟩ := run_bind_ok hr
  obtain ⟨a1, p1⟩ := hp st o1 hN h1
  have hN1 : N ≤ o1.st.length := Nat.le_trans hN (run_frame p st o1 h1).1
  obtain ⟨a2, q2⟩ := hf o1.val p1 o1.st o2 hN1 h2
  refine ⟨?_, by rw [hv]; exact q2⟩
  intro l hm
  rw [hl] at hm
  rcases List.mem_append.mp hm with hm | hm
  · exact a1 l hm
  · exact a2 l hm

theorem Above.post {α : Type} {N : Nat} {p : Prog α} {Q Q' : α → Prop} (h : Above N p Q) (hq : ∀ a, Q a → Q' a) :
    Above N p Q' := fun st o hN hr => ⟨(h st o hN hr).1, hq _ (h st o hN hr).2⟩

/-- what `Above` gives about the stores: the arrays below `N` are untouched -/
theorem Above.keeps {α : Type} {N : Nat} {p : Prog α} {Q : α → Prop} (h : Above N p Q) {st : Store} {o : Out α}
    (hN : N ≤ st.length) (hr : run p st = .ok o) :
    st.length ≤ o.st.length ∧ (∀ b, b < N → o.st[b]? = st[b]?) ∧ (∀ l ∈ o.log, N ≤ l.1) ∧ Q o.val := by
  obtain ⟨ha, hq⟩ := h st o hN hr
  refine ⟨(run_frame p st o hr).1, ?_, ha, hq⟩
  intro b hb
  exact run_frame_array hr (Nat.lt_of_lt_of_le hb hN) (fun l hl he => by have := ha l hl; omega)

/-! ### the slice operations -/

theorem index_above (N : Nat) (s : Slice) (i : Nat) : Above N (index s i) (fun _ => True) := by
  unfold index
  cases s with
  | none => exact Above.halt
  | some r =>
    simp only
    split
    · exact Above.read fun v => Above.ret trivial
    · exact Above.halt

theorem readRange_above (N a : Nat) : ∀ n off, Above N (readRange a off n) (fun _ => True)
  | 0, _ => Above.ret trivial
  | n + 1, off => Above.read fun _ => Above.bind (readRange_above N a n (off + 1)) fun _ _ => Above.ret trivial

theorem elems_above (N : Nat) (s : Slice) : Above N (elems s) (fun _ => True) := by
  cases s with
  | none => exact Above.ret trivial
  | some r => exact readRange_above N r.arr r.len r.off

theorem writeRange_above {N a : Nat} (ha : N ≤ a) : ∀ vs off, Above N (writeRange a off vs) (fun _ => True)
  | [], _ => Above.ret trivial
  | _ :: vs, off => Above.write ha (writeRange_above ha vs (off + 1))

theorem setIndex_above {N : Nat} {s : Slice} (hs : Fresh N s) (i : Nat) (v : GoVal) :
    Above N (setIndex s i v) (fun _ => True) := by
  unfold setIndex
  cases s with
  | none => exact Above.halt
  | some r =>
    simp only
    split
    · exact Above.write (hs r rfl) (Above.ret trivial)
    · exact Above.halt

theorem make_above (N len cap : Nat) : Above N (make len cap) (Fresh N) := by
  unfold make
  split
  · exact Above.alloc fun a ha => Above.ret (fun r hr => by cases hr; exact ha)
  · exact Above.halt

/-- `append` writes into `s`'s own array or into a new one: at or above `N` when `s` is -/
theorem append_above {N : Nat} {s : Slice} (hs : Fresh N s) (vs : List GoVal) : Above N (append s vs) (Fresh N) := by
  unfold append
  split
  · cases s with
    | none => exact Above.ret (Fresh.none N)
    | some r =>
      simp only
      exact Above.bind (writeRange_above (hs r rfl) vs _) fun _ _ =>
        Above.ret (fun r' hr' => by cases hr'; exact hs r rfl)
  · exact Above.bind (elems_above N s) fun _ _ =>
      Above.alloc fun a ha => Above.ret (fun r hr => by cases hr; exact ha)

theorem copy_above {N : Nat} {dst : Slice} (hd : Fresh N dst) (src : Slice) : Above N (copy dst src) (fun _ => True) := by
  unfold copy
  cases dst with
  | none => exact Above.ret trivial
  | some d =>
    cases src with
    | none => exact Above.ret trivial
    | some s =>
      simp only
      exact Above.bind (readRange_above N _ _ _) fun _ _ =>
        Above.bind (writeRange_above (hd d rfl) _ _) fun _ _ => Above.ret trivial

theorem overwrite_above {N : Nat} {s : Slice} (hs : Fresh N s) (ys : List GoVal) : Above N (overwrite s ys) (fun _ => True) := by
  cases s with
  | none => exact Above.ret trivial
  | some r => exact writeRange_above (hs r rfl) ys r.off

/-! ### the loops -/

theorem collectFrom_above {σ : Type} (N : Nat) (a : Slice) (step : σ → GoVal → Res Cause (σ × Option GoVal)) :
    ∀ n i s res, Fresh N res → Above N (collectFrom a step n i s res) (Fresh N)
  | 0, _, _, _, hres => Above.ret hres
  | n + 1, i, s, res, hres => by
    unfold collectFrom
    refine Above.bind (index_above N a i) fun item _ => Above.bind (Above.liftR (Q := fun _ => True) fun _ _ => trivial) fun p _ => ?_
    cases hp : p.2 with
    | none => simp only; exact collectFrom_above N a step n (i + 1) p.1 res hres
    | some v =>
      simp only
      exact Above.bind (append_above hres [v]) fun res' hres' => collectFrom_above N a step n (i + 1) p.1 res' hres'

theorem collect_above {σ : Type} (N : Nat) (a : Slice) (step : σ → GoVal → Res Cause (σ × Option GoVal)) (s0 : σ)
    {res0 : Slice} (h : Fresh N res0) : Above N (collect a step s0 res0) (Fresh N) :=
  collectFrom_above N a step _ 0 s0 res0 h

theorem appendEach_above (N : Nat) : ∀ xs res, Fresh N res → Above N (appendEach res xs) (Fresh N)
  | [], _, h => Above.ret h
  | x :: xs, _, h => Above.bind (append_above h [x]) fun res' h' => appendEach_above N xs res' h'

theorem reverseLoop_above (N : Nat) (a : Slice) {result : Slice} (hr : Fresh N result) :
    ∀ n i, Above N (reverseLoop a result n i) (fun _ => True)
  | 0, _ => Above.ret trivial
  | n + 1, i => Above.bind (index_above N a i) fun x _ =>
      Above.bind (setIndex_above hr _ x) fun _ _ => reverseLoop_above N a hr n (i + 1)


/-! ### conversion, the filter bodies, a filter application, a pipeline: writes at or above `N` only,
for every `N` up to the number of arrays that exist when they start -/

abbrev Any {α : Type} : α → Prop := fun _ => True

theorem Above.any {α : Type} {N : Nat} {p : Prog α} {Q : α → Prop} (h : Above N p Q) : Above N p Any :=
  h.post fun _ _ => trivial

theorem convElemwise_above (N : Nat) (s : Slice) : Above N (convElemwise s) (Fresh N) :=
  Above.bind (make_above N 0 _) fun _ hr => collect_above N s _ () hr

theorem convSlice_above (N : Nat) (t : Ty) (s : Slice) : Above N (convSlice t s) Any := by
  unfold convSlice
  split
  · refine Above.bind (elems_above N s) fun xs _ => ?_
    split
    · exact (convElemwise_above N s).any
    · exact Above.ret trivial
  · exact (convElemwise_above N s).any

theorem freshSlice_above (N : Nat) (ys : List GoVal) : Above N (freshSlice ys) (Fresh N) :=
  Above.bind (make_above N 0 _) fun _ hr => appendEach_above N ys _ hr

theorem convertAnys_above (N : Nat) (v : HVal) : Above N (convertAnys v) Any := by
  unfold convertAnys
  split
  · exact convSlice_above N _ _
  · exact Above.ret trivial
  · split
    · exact Above.alloc fun a _ => convSlice_above N _ _
    · split
      · exact (freshSlice_above N _).any
      · exact Above.halt
      · exact Above.halt
      · exact Above.halt
      · exact Above.halt

theorem compactH_above (N : Nat) (a : Slice) : Above N (compactH a) (Fresh N) :=
  collect_above N a _ () (Fresh.none N)

theorem concatH_above (N : Nat) (a b : Slice) : Above N (concatH a b) (Fresh N) :=
  Above.bind (make_above N 0 _) fun _ h0 => Above.bind (elems_above N a) fun xs _ =>
    Above.bind (append_above h0 xs) fun _ h1 => Above.bind (elems_above N b) fun ys _ => append_above h1 ys

theorem reverseH_above (N : Nat) (a : Slice) : Above N (reverseH a) (Fresh N) :=
  Above.bind (make_above N _ _) fun _ h0 => Above.bind (reverseLoop_above N a h0 _ 0) fun _ _ => Above.ret h0

theorem firstH_above (N : Nat) (a : Slice) : Above N (firstH a) Any := by
  unfold firstH
  split
  · exact Above.ret trivial
  · exact index_above N a 0

theorem lastH_above (N : Nat) (a : Slice) : Above N (lastH a) Any := by
  unfold lastH
  split
  · exact Above.ret trivial
  · exact index_above N a _

theorem joinH_above (N : Nat) (a : Slice) (sep : Bytes) : Above N (joinH a sep) Any :=
  Above.bind (make_above N 0 _) fun _ h0 => Above.bind (collect_above N a _ () h0) fun ss _ =>
    Above.bind (elems_above N ss) fun _ _ => Above.ret trivial

theorem mapH_above (N : Nat) (a : Slice) (k : Bytes) : Above N (mapH a k) (Fresh N) :=
  collect_above N a _ () (Fresh.none N)

theorem uniqH_above (N : Nat) (a : Slice) : Above N (uniqH a) (Fresh N) :=
  collect_above N a _ [] (Fresh.none N)

theorem sortH_above (N : Nat) (strict natural : Bool) (a : Slice) (key : GoVal) : Above N (sortH strict natural a key) (Fresh N) :=
  Above.bind (make_above N _ _) fun result h0 => Above.bind (copy_above h0 a) fun _ _ =>
    Above.bind (elems_above N result) fun _ _ => Above.bind (Above.liftR (Q := Any) fun _ _ => trivial) fun ys _ =>
      Above.bind (overwrite_above h0 ys) fun _ _ => Above.ret h0

theorem freeze_above (N : Nat) (h : HVal) : Above N (freeze h) Any := by
  cases h with
  | val v => exact Above.ret trivial
  | sl t s => exact Above.bind (elems_above N s) fun _ _ => Above.ret trivial

theorem freezeOpt_above (N : Nat) (h : Option HVal) : Above N (freezeOpt h) Any := by
  cases h with
  | none => exact Above.ret trivial
  | some h => exact Above.bind (freeze_above N h) fun _ _ => Above.ret trivial

theorem sepOf_above (N : Nat) (h : Option HVal) : Above N (sepOf h) Any := by
  cases h with
  | none => exact Above.ret trivial
  | some h =>
    refine Above.bind (freeze_above N h) fun g _ => Above.bind (Above.liftR (Q := Any) fun _ _ => trivial) fun w _ => ?_
    split
    · exact Above.ret trivial
    · exact Above.halt

theorem strArg_above (N : Nat) (h : Option HVal) : Above N (strArg h) Any := by
  refine Above.bind (freezeOpt_above N h) fun og _ => Above.bind (Above.liftR (Q := Any) fun _ _ => trivial) fun w _ => ?_
  split
  · exact Above.ret trivial
  · exact Above.halt

theorem anyArg_above (N : Nat) (h : Option HVal) : Above N (anyArg h) Any :=
  Above.bind (freezeOpt_above N h) fun _ _ => Above.liftR fun _ _ => trivial

theorem sizeH_above (N : Nat) (recv : HVal) : Above N (sizeH recv) Any := by
  cases recv with
  | sl t s => exact Above.ret trivial
  | val v =>
    refine Above.bind (Above.liftR (Q := Any) fun _ _ => trivial) fun c _ => ?_
    split
    · exact Above.ret trivial
    all_goals exact Above.halt

theorem bodyF_above (N : Nat) (strict : Bool) (f : FName) (recv : HVal) (args : List HVal) :
    Above N (bodyF strict f recv args) Any := by
  cases f <;> unfold bodyF
  · exact Above.bind (convertAnys_above N recv) fun a _ => Above.bind (compactH_above N a) fun _ _ => Above.ret trivial
  · exact Above.bind (convertAnys_above N recv) fun a _ => Above.bind (convertAnys_above N _) fun b _ =>
      Above.bind (concatH_above N a b) fun _ _ => Above.ret trivial
  · exact Above.bind (convertAnys_above N recv) fun a _ => Above.bind (sepOf_above N _) fun sep _ =>
      Above.bind (joinH_above N a sep) fun _ _ => Above.ret trivial
  · exact Above.bind (convertAnys_above N recv) fun a _ => Above.bind (strArg_above N _) fun k _ =>
      Above.bind (mapH_above N a k) fun _ _ => Above.ret trivial
  · exact Above.bind (convertAnys_above N recv) fun a _ => Above.bind (reverseH_above N a) fun _ _ => Above.ret trivial
  · exact Above.bind (convertAnys_above N recv) fun a _ => Above.bind (anyArg_above N _) fun key _ =>
      Above.bind (sortH_above N strict false a key) fun _ _ => Above.ret trivial
  · exact Above.bind (convertAnys_above N recv) fun a _ => Above.bind (anyArg_above N _) fun key _ =>
      Above.bind (sortH_above N strict true a key) fun _ _ => Above.ret trivial
  · exact Above.bind (convertAnys_above N recv) fun a _ => Above.bind (firstH_above N a) fun _ _ => Above.ret trivial
  · exact Above.bind (convertAnys_above N recv) fun a _ => Above.bind (lastH_above N a) fun _ _ => Above.ret trivial
  · exact Above.bind (convertAnys_above N recv) fun a _ => Above.bind (uniqH_above N a) fun _ _ => Above.ret trivial
  · exact Above.bind (sizeH_above N recv) fun _ _ => Above.ret trivial
  · exact Above.bind (Above.liftR (Q := Any) fun _ _ => trivial) fun _ _ =>
      Above.bind (Above.liftR (Q := Any) fun _ _ => trivial) fun _ _ => Above.ret trivial

theorem stageF_above (N : Nat) (strict : Bool) (f : FName) (recv : HVal) (args : List HVal) :
    Above N (stageF strict f recv args) Any := by
  unfold stageF
  split
  · exact Above.halt
  · exact Above.bind (bodyF_above N strict f _ _) fun _ _ => Above.ret trivial

theorem stage_above (N : Nat) (strict : Bool) (name : Bytes) (recv : HVal) (args : List HVal) :
    Above N (stage strict name recv args) Any := by
  unfold stage
  split
  · exact stageF_above N strict _ recv args
  · exact Above.halt

theorem runChainF_above (N : Nat) (strict : Bool) : ∀ chain v, Above N (runChainF strict v chain) Any
  | [], _ => Above.ret trivial
  | (f, args) :: rest, v => Above.bind (stageF_above N strict f v args) fun r _ => runChainF_above N strict rest r

theorem runChain_above (N : Nat) (strict : Bool) : ∀ chain v, Above N (runChain strict v chain) Any
  | [], _ => Above.ret trivial
  | (name, args) :: rest, v => Above.bind (stage_above N strict name v args) fun r _ => runChain_above N strict rest r


/-! ## 4. Contents: what the operations return and leave behind on well-formed slices -/

/-- `r` (a run on the memory) answers as the pure computation `p` does: the same error, panic or `unmodelled`,
and when `p` succeeds with `b` the run succeeds with a value and a store related to `b` by `Q` -/
def Refines {α β : Type} (r : Res Cause (Out α)) (p : Res Cause β) (Q : α → Store → β → Prop) : Prop :=
  match p with
  | .ok b => ∃ o, r = .ok o ∧ Q o.val o.st b
  | .err c => r = .err c
  | .panic w => r = .panic w
  | .unmodelled w => r = .unmodelled w

theorem Refines.bind_ok {α β γ : Type} {p : Prog α} {f : α → Prog β} {st : Store} {o1 : Out α} {pr : Res Cause γ}
    {Q : β → Store → γ → Prop} (h1 : run p st = .ok o1) (h2 : Refines (run (f o1.val) o1.st) pr Q) :
    Refines (run (p.bind f) st) pr Q := by
  rw [run_bind, h1]
  unfold thenRun
  cases pr with
  | ok b =>
    obtain ⟨o2, e2, q2⟩ := h2
    simp only [e2]
    exact ⟨_, rfl, q2⟩
  | err c => simp only [Refines] at h2 ⊢; rw [h2]
  | panic w => simp only [Refines] at h2 ⊢; rw [h2]
  | unmodelled w => simp only [Refines] at h2 ⊢; rw [h2]

theorem Refines.post {α β : Type} {r : Res Cause (Out α)} {p : Res Cause β} {Q Q' : α → Store → β → Prop}
    (h : Refines r p Q) (hq : ∀ a st b, Q a st b → Q' a st b) : Refines r p Q' := by
  cases p with
  | ok b => obtain ⟨o, e, q⟩ := h; exact ⟨o, e, hq _ _ _ q⟩
  | err c => exact h
  | panic w => exact h
  | unmodelled w => exact h

theorem lt_of_getElem?_some {α : Type} {l : List α} {i : Nat} {a : α} (h : l[i]? = some a) : i < l.length := by
  rcases Nat.lt_or_ge i l.length with hlt | hge
  · exact hlt
  · rw [List.getElem?_eq_none hge] at h; cases h

theorem view_some {st : Store} {r : SliceRef} {row : List GoVal} (h : st[r.arr]? = some row) :
    view st (some r) = (row.drop r.off).take r.len := by
  simp [view, h]

theorem view_getElem? {st : Store} {r : SliceRef} {row : List GoVal} (h : st[r.arr]? = some row) (j : Nat) :
    (view st (some r))[j]? = if j < r.len then row[r.off + j]? else none := by
  rw [view_some h, List.getElem?_take, List.getElem?_drop]

theorem view_length {st : Store} {r : SliceRef} {row : List GoVal} (h : st[r.arr]? = some row)
    (hb : r.off + r.len ≤ row.length) : (view st (some r)).length = r.len := by
  rw [view_some h, List.length_take, List.length_drop]
  omega

theorem view_length_wf {st : Store} {s : Slice} (h : Slice.wf st s) : (view st s).length = lenS s := by
  cases s with
  | none => rfl
  | some r =>
    obtain ⟨hlc, row, hr, hb⟩ := h
    exact view_length hr (by omega)

/-- a slice whose array is the same in two stores reads the same and stays well-formed -/
theorem view_congr {st st' : Store} {r : SliceRef} (h : st'[r.arr]? = st[r.arr]?) : view st' (some r) = view st (some r) := by
  simp [view, h]

theorem wf_congr {st st' : Store} {r : SliceRef} (h : st'[r.arr]? = st[r.arr]?) (hw : r.wf st) : r.wf st' := by
  obtain ⟨h1, row, hr, hb⟩ := hw
  exact ⟨h1, row, by rw [h, hr], hb⟩

/-- a slice below `N` in a store whose arrays below `N` were kept -/
theorem Slice.view_kept {st st' : Store} {N : Nat} {a : Slice} (hk : ∀ b, b < N → st'[b]? = st[b]?)
    (ha : ∀ r, a = some r → r.arr < N) : view st' a = view st a := by
  cases a with
  | none => rfl
  | some r => exact view_congr (hk _ (ha r rfl))

theorem Slice.wf_kept {st st' : Store} {N : Nat} {a : Slice} (hk : ∀ b, b < N → st'[b]? = st[b]?)
    (ha : ∀ r, a = some r → r.arr < N) (hw : Slice.wf st a) : Slice.wf st' a := by
  cases a with
  | none => trivial
  | some r => exact wf_congr (hk _ (ha r rfl)) hw

/-! ### loads -/

theorem run_readRange {st : Store} {a : Nat} {row : List GoVal} (hr : st[a]? = some row) :
    ∀ n off, off + n ≤ row.length → run (readRange a off n) st = .ok ⟨(row.drop off).take n, st, []⟩
  | 0, off, _ => by simp [readRange, run]
  | n + 1, off, hb => by
    have hlt : off < row.length := by omega
    have hread : readAt st a off = some row[off] := by
      simp [readAt, hr, List.getElem?_eq_getElem hlt]
    simp only [readRange, run, hread]
    rw [run_bind, run_readRange hr n (off + 1) (by omega)]
    simp only [thenRun, run, List.append_nil]
    rw [List.drop_eq_getElem_cons hlt, List.take_succ_cons]

theorem run_elems {st : Store} {s : Slice} (hw : Slice.wf st s) : run (elems s) st = .ok ⟨view st s, st, []⟩ := by
  cases s with
  | none => rfl
  | some r =>
    obtain ⟨hlc, row, hr, hb⟩ := hw
    simp only [elems]
    rw [run_readRange hr r.len r.off (by omega), view_some hr]

theorem run_index {st : Store} {r : SliceRef} (hw : r.wf st) {i : Nat} (hi : i < r.len) :
    ∃ v, (view st (some r))[i]? = some v ∧ run (index (some r) i) st = .ok ⟨v, st, []⟩ := by
  obtain ⟨hlc, row, hr, hb⟩ := hw
  have hlt : r.off + i < row.length := by omega
  refine ⟨row[r.off + i], ?_, ?_⟩
  · rw [view_getElem? hr, if_pos hi, List.getElem?_eq_getElem hlt]
  · simp [index, hi, run, readAt, hr, List.getElem?_eq_getElem hlt]

/-! ### stores -/

/-- a row after consecutive stores -/
def writeRow : List GoVal → Nat → List GoVal → List GoVal
  | row, _, [] => row
  | row, p, v :: vs => writeRow (row.set p v) (p + 1) vs

theorem writeRow_length : ∀ (vs : List GoVal) (row : List GoVal) (p : Nat), (writeRow row p vs).length = row.length
  | [], _, _ => rfl
  | v :: vs, row, p => by simp [writeRow, writeRow_length vs]

theorem writeRow_getElem? : ∀ (vs : List GoVal) (row : List GoVal) (p : Nat), p + vs.length ≤ row.length → ∀ i,
    (writeRow row p vs)[i]? = if p ≤ i ∧ i < p + vs.length then vs[i - p]? else row[i]?
  | [], row, p, _, i => by
    have : ¬ (p ≤ i ∧ i < p + ([] : List GoVal).length) := by simp only [List.length_nil]; omega
    simp only [writeRow, if_neg this]
  | v :: vs, row, p, hb, i => by
    simp only [List.length_cons] at hb
    simp only [writeRow]
    rw [writeRow_getElem? vs (row.set p v) (p + 1) (by simp; omega) i]
    by_cases h1 : p + 1 ≤ i ∧ i < p + 1 + vs.length
    · have h2 : p ≤ i ∧ i < p + (v :: vs).length := by simp only [List.length_cons]; omega
      rw [if_pos h1, if_pos h2]
      have : i - p = (i - (p + 1)) + 1 := by omega
      rw [this, List.getElem?_cons_succ]
    · rw [if_neg h1]
      by_cases h3 : i = p
      · subst h3
        have h2 : i ≤ i ∧ i < i + (v :: vs).length := by simp only [List.length_cons]; omega
        rw [if_pos h2, List.getElem?_set]
        simp
        omega
      · have h2 : ¬ (p ≤ i ∧ i < p + (v :: vs).length) := by simp only [List.length_cons]; omega
        rw [if_neg h2, List.getElem?_set, if_neg (Ne.symm h3)]

theorem run_writeRange : ∀ (vs : List GoVal) {st : Store} {a : Nat} {row : List GoVal} (off : Nat), st[a]? = some row →
    off + vs.length ≤ row.length → ∃ log, run (writeRange a off vs) st = .ok ⟨(), st.set a (writeRow row off vs), log⟩
  | [], st, a, row, off, hr, _ => by
    refine ⟨[], ?_⟩
    simp only [writeRange, run, writeRow]
    have ha := lt_of_getElem?_some hr
    have : st.set a row = st := by
      apply List.ext_getElem?
      intro i
      rw [List.getElem?_set]
      by_cases h : a = i
      · subst h; rw [if_pos rfl, if_pos ha, hr]
      · rw [if_neg h]
    rw [this]
  | v :: vs, st, a, row, off, hr, hb => by
    simp only [List.length_cons] at hb
    have ha := lt_of_getElem?_some hr
    have hlt : off < row.length := by omega
    have hw : writeAt st a off v = some (st.set a (row.set off v)) := by simp [writeAt, hr, hlt]
    have hr1 : (st.set a (row.set off v))[a]? = some (row.set off v) := by rw [List.getElem?_set_self ha]
    obtain ⟨log, hrun⟩ := run_writeRange vs (off + 1) hr1 (by simp; omega)
    refine ⟨(a, off) :: log, ?_⟩
    simp only [writeRange, run, hw, hrun, logged, writeRow, List.set_set]

/-- the slice `r` read after a block of stores into its array -/
theorem view_after_writeRow {st : Store} {r : SliceRef} {row : List GoVal} (hr : st[r.arr]? = some row)
    {q : Nat} {vs : List GoVal} (hq : q + vs.length ≤ row.length) (j : Nat) :
    (view (st.set r.arr (writeRow row q vs)) (some r))[j]? =
      if j < r.len then (if q ≤ r.off + j ∧ r.off + j < q + vs.length then vs[r.off + j - q]? else row[r.off + j]?) else none := by
  have ha := lt_of_getElem?_some hr
  have hr' : (st.set r.arr (writeRow row q vs))[r.arr]? = some (writeRow row q vs) := by rw [List.getElem?_set_self ha]
  rw [view_getElem? hr', writeRow_getElem? vs row q hq]

theorem run_make {st : Store} {len cap : Nat} (h : len ≤ cap) :
    run (make len cap) st = .ok ⟨some ⟨st.length, 0, len, cap⟩, st ++ [List.replicate cap .nil], []⟩ := by
  simp [make, h, run]


/-! ### `append`, `copy`, `overwrite`, `setIndex` on well-formed slices -/

theorem growCap_ge (old need : Nat) : need ≤ growCap old need := Nat.le_max_left _ _

/-- `append` on a well-formed slice never panics; the result reads as the old elements followed by the new ones -/
theorem run_append {st : Store} {s : Slice} (hw : Slice.wf st s) (vs : List GoVal) :
    ∃ o, run (append s vs) st = .ok o ∧ view o.st o.val = view st s ++ vs ∧ Slice.wf o.st o.val ∧
      lenS o.val = lenS s + vs.length := by
  unfold append
  by_cases hfit : lenS s + vs.length ≤ capS s
  · rw [if_pos hfit]
    cases s with
    | none =>
      have : vs = [] := by
        cases vs with
        | nil => rfl
        | cons v vs => simp [lenS, capS] at hfit
      subst this
      exact ⟨⟨none, st, []⟩, rfl, rfl, trivial, rfl⟩
    | some r =>
      obtain ⟨hlc, row, hr, hb⟩ := hw
      simp only [lenS, capS] at hfit
      obtain ⟨log, hrun⟩ := run_writeRange vs (r.off + r.len) hr (by omega)
      have ha := lt_of_getElem?_some hr
      refine ⟨_, by simp only; rw [run_bind, hrun]; rfl, ?_, ?_, rfl⟩
      · simp only
        apply List.ext_getElem?
        intro j
        have hview := view_after_writeRow (r := { r with len := r.len + vs.length }) hr (q := r.off + r.len) (vs := vs) (by omega) j
        simp only at hview
        rw [hview, List.getElem?_append, view_length hr (by omega), view_getElem? hr]
        by_cases h1 : j < r.len
        · have h2 : j < r.len + vs.length := by omega
          have h3 : ¬ (r.off + r.len ≤ r.off + j ∧ r.off + j < r.off + r.len + vs.length) := by omega
          rw [if_pos h1, if_pos h2, if_neg h3, if_pos h1]
        · rw [if_neg h1]
          by_cases h2 : j < r.len + vs.length
          · have h3 : r.off + r.len ≤ r.off + j ∧ r.off + j < r.off + r.len + vs.length := by omega
            rw [if_pos h2, if_pos h3]
            congr 1
            omega
          · rw [if_neg h2]
            symm
            apply List.getElem?_eq_none
            omega
      · refine ⟨by simp only; omega, writeRow row (r.off + r.len) vs, ?_, ?_⟩
        · simp only; rw [List.getElem?_set_self ha]
        · rw [writeRow_length]; exact hb
  · rw [if_neg hfit]
    rw [run_bind, run_elems hw]
    simp only [thenRun, run, List.nil_append]
    have hlen := view_length_wf hw
    have hge := growCap_ge (capS s) (lenS s + vs.length)
    generalize view st s = old at hlen ⊢
    generalize growCap (capS s) (lenS s + vs.length) = c at hge ⊢
    have hrow : (st ++ [old ++ vs ++ List.replicate (c - (lenS s + vs.length)) GoVal.nil])[st.length]? =
        some (old ++ vs ++ List.replicate (c - (lenS s + vs.length)) GoVal.nil) := List.getElem?_concat_length
    refine ⟨_, rfl, ?_, ?_, rfl⟩
    · simp only
      rw [view_some (r := ⟨st.length, 0, lenS s + vs.length, c⟩) hrow]
      simp only [List.drop_zero]
      apply List.take_left'
      rw [List.length_append, hlen]
    · refine ⟨hge, _, hrow, ?_⟩
      simp only [List.length_append, List.length_replicate, hlen]
      omega

/-- `copy(dst, src)` of two slices of the same length: `dst` reads as `src` did -/
theorem run_copy_full {st : Store} {d s : SliceRef} (hd : d.wf st) (hs : s.wf st) (hl : d.len = s.len) :
    ∃ o, run (copy (some d) (some s)) st = .ok o ∧ view o.st (some d) = view st (some s) ∧ d.wf o.st := by
  obtain ⟨hdc, drow, hdr, hdb⟩ := hd
  obtain ⟨hsc, srow, hsr, hsb⟩ := hs
  have hmin : min d.len s.len = s.len := by omega
  simp only [copy, hmin]
  rw [run_bind, run_readRange hsr s.len s.off (by omega)]
  simp only [thenRun]
  have hvl : ((srow.drop s.off).take s.len).length = s.len := by
    rw [List.length_take, List.length_drop]; omega
  obtain ⟨log, hrun⟩ := run_writeRange ((srow.drop s.off).take s.len) d.off hdr (by rw [hvl]; omega)
  have ha := lt_of_getElem?_some hdr
  rw [run_bind, hrun]
  simp only [thenRun, run]
  refine ⟨_, rfl, ?_, ?_⟩
  · simp only
    apply List.ext_getElem?
    intro j
    rw [view_after_writeRow hdr (by rw [hvl]; omega), view_some hsr, hvl]
    by_cases h1 : j < d.len
    · have h3 : d.off ≤ d.off + j ∧ d.off + j < d.off + s.len := by omega
      rw [if_pos h1, if_pos h3]
      congr 1
      omega
    · rw [if_neg h1]
      symm
      apply List.getElem?_eq_none
      rw [hvl]; omega
  · refine ⟨hdc, writeRow drow d.off ((srow.drop s.off).take s.len), ?_, ?_⟩
    · simp only; rw [List.getElem?_set_self ha]
    · rw [writeRow_length]; exact hdb

/-- every index stored anew: the slice reads as the list written -/
theorem run_overwrite {st : Store} {r : SliceRef} (hw : r.wf st) {ys : List GoVal} (hl : ys.length = r.len) :
    ∃ o, run (overwrite (some r) ys) st = .ok o ∧ view o.st (some r) = ys ∧ r.wf o.st := by
  obtain ⟨hc, row, hr, hb⟩ := hw
  obtain ⟨log, hrun⟩ := run_writeRange ys r.off hr (by omega)
  have ha := lt_of_getElem?_some hr
  refine ⟨_, hrun, ?_, ?_⟩
  · simp only
    apply List.ext_getElem?
    intro j
    rw [view_after_writeRow hr (by omega)]
    by_cases h1 : j < r.len
    · have h3 : r.off ≤ r.off + j ∧ r.off + j < r.off + ys.length := by omega
      rw [if_pos h1, if_pos h3]
      congr 1
      omega
    · rw [if_neg h1]
      symm
      apply List.getElem?_eq_none
      omega
  · refine ⟨hc, writeRow row r.off ys, ?_, ?_⟩
    · simp only; rw [List.getElem?_set_self ha]
    · rw [writeRow_length]; exact hb

/-- `s[i] = v` on a well-formed slice: the slice reads as before with position `i` replaced -/
theorem run_setIndex {st : Store} {r : SliceRef} (hw : r.wf st) {i : Nat} (hi : i < r.len) (v : GoVal) :
    ∃ o, run (setIndex (some r) i v) st = .ok o ∧ view o.st (some r) = (view st (some r)).set i v ∧ r.wf o.st := by
  obtain ⟨hc, row, hr, hb⟩ := hw
  have ha := lt_of_getElem?_some hr
  have hlt : r.off + i < row.length := by omega
  have hwr : writeAt st r.arr (r.off + i) v = some (st.set r.arr (row.set (r.off + i) v)) := by simp [writeAt, hr, hlt]
  have hr' : (st.set r.arr (row.set (r.off + i) v))[r.arr]? = some (row.set (r.off + i) v) := by
    rw [List.getElem?_set_self ha]
  refine ⟨⟨(), st.set r.arr (row.set (r.off + i) v), [(r.arr, r.off + i)]⟩, ?_, ?_, ?_⟩
  · simp [setIndex, hi, run, hwr, logged]
  · simp only
    apply List.ext_getElem?
    intro j
    rw [view_getElem? hr', List.getElem?_set, List.getElem?_set, view_getElem? hr, view_length hr (by omega)]
    by_cases h1 : j < r.len
    · rw [if_pos h1]
      by_cases h2 : i = j
      · subst h2
        rw [if_pos rfl, if_pos rfl, if_pos hlt, if_pos hi]
      · have h3 : ¬ (r.off + i = r.off + j) := by omega
        rw [if_neg h3, if_neg h2, if_pos h1]
    · rw [if_neg h1]
      have h2 : ¬ (i = j) := by omega
      rw [if_neg h2, if_neg h1]
  · exact ⟨hc, _, hr', by simpa using hb⟩


/-! ### the `range … append` loop -/

theorem Refines.bind_pure {α β γ : Type} {r : Res Cause (Out α)} {x : Res Cause β} {g : β → γ}
    {Q : α → Store → β → Prop} {Q' : α → Store → γ → Prop}
    (h : Refines r x Q) (hq : ∀ v st b, Q v st b → Q' v st (g b)) : Refines r (x.bind fun b => .ok (g b)) Q' := by
  cases x with
  | ok b => obtain ⟨o, e, q⟩ := h; exact ⟨o, e, hq _ _ _ q⟩
  | err c => exact h
  | panic w => exact h
  | unmodelled w => exact h

theorem drop_of_getElem? {l : List GoVal} {i : Nat} {v : GoVal} (h : l[i]? = some v) : l.drop i = v :: l.drop (i + 1) := by
  obtain ⟨hlt, rfl⟩ := List.getElem?_eq_some_iff.mp h
  exact List.drop_eq_getElem_cons hlt

/-- what the loop leaves: `res` extended by what the pure loop collects, in an array at or above `N`;
the arrays below `N` — the one `a` lies in among them — as they were -/
def CollectPost (N : Nat) (st : Store) (res : Slice) (v : Slice) (st' : Store) (ys : List GoVal) : Prop :=
  view st' v = view st res ++ ys ∧ Slice.wf st' v ∧ Fresh N v ∧ (∀ b, b < N → st'[b]? = st[b]?) ∧ st.length ≤ st'.length

theorem collectFrom_refines {σ : Type} (step : σ → GoVal → Res Cause (σ × Option GoVal)) (N : Nat) (a : Slice)
    (ha : ∀ r, a = some r → r.arr < N) :
    ∀ n i s res st, N ≤ st.length → Slice.wf st a → Slice.wf st res → Fresh N res → i + n = lenS a →
      Refines (run (collectFrom a step n i s res) st) (collectP step s ((view st a).drop i)) (CollectPost N st res)
  | 0, i, s, res, st, _, hwa, hwr, hfr, hin => by
    have hd : (view st a).drop i = [] := by
      apply List.drop_eq_nil_of_le
      rw [view_length_wf hwa]; omega
    rw [hd]
    exact ⟨⟨res, st, []⟩, rfl, by simp, hwr, hfr, fun _ _ => rfl, Nat.le_refl _⟩
  | n + 1, i, s, res, st, hN, hwa, hwr, hfr, hin => by
    cases a with
    | none => simp [lenS] at hin
    | some r =>
      simp only [lenS] at hin
      obtain ⟨v, hv, hidx⟩ := run_index hwa (show i < r.len by omega)
      rw [drop_of_getElem? hv]
      unfold collectFrom
      refine Refines.bind_ok hidx ?_
      simp only [collectP]
      cases hstep : step s v with
      | err c => exact rfl
      | panic w => exact rfl
      | unmodelled w => exact rfl
      | ok p =>
        simp only [liftR, Prog.bind, Res.bind]
        cases hp2 : p.2 with
        | none =>
          simp only
          have ih := collectFrom_refines step N (some r) ha n (i + 1) p.1 res st hN hwa hwr hfr (by simp only [lenS]; omega)
          exact Refines.bind_pure ih (fun _ _ _ q => q)
        | some w =>
          simp only
          obtain ⟨o1, hrun1, hview1, hwf1, _⟩ := run_append hwr [w]
          obtain ⟨hlen1, hkept1, _, hfresh1⟩ := (append_above hfr [w]).keeps hN hrun1
          refine Refines.bind_ok hrun1 ?_
          have hwa1 : Slice.wf o1.st (some r) := Slice.wf_kept hkept1 ha hwa
          have hva1 : view o1.st (some r) = view st (some r) := Slice.view_kept hkept1 ha
          have ih := collectFrom_refines step N (some r) ha n (i + 1) p.1 o1.val o1.st (Nat.le_trans hN hlen1) hwa1 hwf1 hfresh1
            (by simp only [lenS]; omega)
          rw [hva1] at ih
          refine Refines.bind_pure ih ?_
          intro v' st' ys ⟨q1, q2, q3, q4, q5⟩
          refine ⟨?_, q2, q3, fun b hb => by rw [q4 b hb, hkept1 b hb], Nat.le_trans hlen1 q5⟩
          rw [q1, hview1, List.append_assoc]
          rfl

theorem collect_refines {σ : Type} (step : σ → GoVal → Res Cause (σ × Option GoVal)) {N : Nat} {a : Slice}
    (ha : ∀ r, a = some r → r.arr < N) (s0 : σ) {res : Slice} {st : Store} (hN : N ≤ st.length) (hwa : Slice.wf st a)
    (hwr : Slice.wf st res) (hfr : Fresh N res) :
    Refines (run (collect a step s0 res) st) (collectP step s0 (view st a)) (CollectPost N st res) := by
  have := collectFrom_refines step N a ha (lenS a) 0 s0 res st hN hwa hwr hfr (by omega)
  simpa [collect] using this

end Heap
