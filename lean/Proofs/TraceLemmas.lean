import Proofs.ProgLemmas
import Proofs.PostLemmas
/-!
# Where an error is located: interaction-tree lemmas (used by C20 located, C07 firstFailure, C14)

`Site` is the location an error carries (`none`: the error is not yet a SourceError). `relocate` is what
`parser.WrapError` does to a location. A *trace* `Tr` says, for a program, who is named by the error of
every single-fault run (`calls`, one entry per `Write` call of the fault-free run) and who is named when the
fault-free run itself fails or hands a `break`/`continue` upwards (`fin`). `Sp p t` is the specification
that ties a program to a trace; it composes along `bind` and `mapFail` the way the renderer is built.
-/

/-- the location an error carries; `none` = a plain `error`, not (yet) a `parser.Error` -/
abbrev Site := Option Loc

def RawErr.site : RawErr → Site
  | .plain _ => none
  | .located e => some ⟨e.line, e.pathSet⟩

/-- the location carried by a `break`/`continue` sentinel -/
def Status.site : Status → Site
  | .done => none
  | .brk e => some ⟨e.line, e.pathSet⟩
  | .cont e => some ⟨e.line, e.pathSet⟩

/-- `parser.WrapError` on locations: an error that is not located takes the wrapping node's location; one
    that carries a path or a line keeps its own; one that carries neither (line 0 of a template without a
    path, or the invalid location of a raw block, a trim marker or a flush) takes the wrapping node's,
    unless that is empty as well -/
def relocate (path : Bytes) (inner : Site) (outer : Loc) : Loc :=
  match inner with
  | none => outer
  | some l => if (l.pathSet && !path.isEmpty) || l.line != 0 || outer.isZero path then l else outer

theorem wrapError_site (path : Bytes) (e : RawErr) (loc : Loc) :
    (RawErr.located (wrapError path e loc)).site = some (relocate path e.site loc) := by
  cases e with
  | plain c => rfl
  | located se =>
    simp only [wrapError, relocate, RawErr.site]
    split <;> rfl

theorem relocate_self (path : Bytes) (loc : Loc) : relocate path (some loc) loc = loc := by
  simp only [relocate]; split <;> rfl

/-- an error that has a line, or a path, keeps its location under every wrapping (`wrap_keeps_located`) -/
theorem relocate_keeps (path : Bytes) (l outer : Loc) (h : l.line ≠ 0 ∨ (l.pathSet = true ∧ path ≠ [])) :
    relocate path (some l) outer = l := by
  simp only [relocate]
  rcases h with h | ⟨h1, h2⟩
  · simp [h]
  · have : path.isEmpty = false := by cases path <;> simp_all
    simp [h1, this]

/-- the writer's error as it appears at a site -/
def ioErr : Site → RawErr
  | none => .plain .io
  | some l => .located ⟨l.line, l.pathSet, .io, .byCause⟩

theorem wrapError_ioErr (path : Bytes) (s : Site) (loc : Loc) :
    RawErr.located (wrapError path (ioErr s) loc) = ioErr (some (relocate path s loc)) := by
  cases s with
  | none => rfl
  | some l =>
    simp only [ioErr, wrapError, relocate]
    split
    · rfl
    · have : (Cause.io == Cause.none) = false := by decide
      simp [this]

theorem ioErr_isIo (s : Site) : IsIo (ioErr s) := by cases s <;> simp [ioErr, IsIo]

/-! ## The fault-free run of a program -/

namespace Prog
/-- what the program returns when no write fails -/
def pureRet {α} : Prog α → Option α
  | .ret a => some a
  | .call _ k => pureRet (k .ok)
  | _ => none

/-- the error the program ends with when no write fails -/
def pureFail {α} : Prog α → Option RawErr
  | .fail e => some e
  | .call _ k => pureFail (k .ok)
  | _ => none

theorem pureRet_bind {α β} (p : Prog α) (f : α → Prog β) :
    (p.bind f).pureRet = p.pureRet.bind (fun a => (f a).pureRet) := by
  induction p with
  | ret a => rfl
  | fail e => rfl
  | panic w => rfl
  | unmodelled w => rfl
  | call b k ih => exact ih .ok

theorem pureFail_bind {α β} (p : Prog α) (f : α → Prog β) :
    (p.bind f).pureFail = match p.pureRet with | some a => (f a).pureFail | none => p.pureFail := by
  induction p with
  | ret a => rfl
  | fail e => rfl
  | panic w => rfl
  | unmodelled w => rfl
  | call b k ih => exact ih .ok

theorem calls_bind {α β} (p : Prog α) (f : α → Prog β) :
    (p.bind f).calls = p.calls ++ (match p.pureRet with | some a => (f a).calls | none => []) := by
  induction p with
  | ret a => rfl
  | fail e => rfl
  | panic w => rfl
  | unmodelled w => rfl
  | call b k ih => simp only [Prog.bind, calls, pureRet, ih .ok, List.cons_append]

theorem pureRet_mapFail {α} (g : RawErr → RawErr) (p : Prog α) : (p.mapFail g).pureRet = p.pureRet := by
  induction p with
  | ret a => rfl
  | fail e => rfl
  | panic w => rfl
  | unmodelled w => rfl
  | call b k ih => exact ih .ok

theorem pureFail_mapFail {α} (g : RawErr → RawErr) (p : Prog α) : (p.mapFail g).pureFail = p.pureFail.map g := by
  induction p with
  | ret a => rfl
  | fail e => rfl
  | panic w => rfl
  | unmodelled w => rfl
  | call b k ih => exact ih .ok

theorem calls_mapFail {α} (g : RawErr → RawErr) (p : Prog α) : (p.mapFail g).calls = p.calls := by
  induction p with
  | ret a => rfl
  | fail e => rfl
  | panic w => rfl
  | unmodelled w => rfl
  | call b k ih => simp only [Prog.mapFail, calls, ih .ok]

theorem mapFail_bind {α β} (g : RawErr → RawErr) (p : Prog α) (f : α → Prog β) :
    (p.bind f).mapFail g = (p.mapFail g).bind (fun a => (f a).mapFail g) := by
  induction p with
  | ret a => rfl
  | fail e => rfl
  | panic w => rfl
  | unmodelled w => rfl
  | call b k ih => simp only [Prog.bind, Prog.mapFail]; congr 1; funext r; exact ih r

theorem pureRet_of_runPure {α} (p : Prog α) (out : Bytes) (a : α) (h : p.runPure = (out, .ok a)) :
    p.pureRet = some a := by
  induction p generalizing out with
  | ret a' => simp only [runPure, Prod.mk.injEq, Outcome.ok.injEq] at h; simp [pureRet, h.2]
  | fail e => simp [runPure] at h
  | panic w => simp [runPure] at h
  | unmodelled w => simp [runPure] at h
  | call b k ih =>
    simp only [runPure] at h
    cases hk : (k .ok).runPure with
    | mk o1 o2 => rw [hk] at h; simp only [Prod.mk.injEq] at h; exact ih .ok o1 (by rw [hk, h.2])

theorem pureFail_of_runPure {α} (p : Prog α) (out : Bytes) (e : RawErr) (h : p.runPure = (out, .err e)) :
    p.pureFail = some e := by
  induction p generalizing out with
  | ret a' => simp [runPure] at h
  | fail e' => simp only [runPure, Prod.mk.injEq, Outcome.err.injEq] at h; simp [pureFail, h.2]
  | panic w => simp [runPure] at h
  | unmodelled w => simp [runPure] at h
  | call b k ih =>
    simp only [runPure] at h
    cases hk : (k .ok).runPure with
    | mk o1 o2 => rw [hk] at h; simp only [Prod.mk.injEq] at h; exact ih .ok o1 (by rw [hk, h.2])

theorem runPure_of_pureRet {α} (p : Prog α) (a : α) (h : p.pureRet = some a) : p.runPure = (p.calls.flatten, .ok a) := by
  induction p with
  | ret a' => simp only [pureRet, Option.some.injEq] at h; simp [runPure, calls, h]
  | fail e => simp [pureRet] at h
  | panic w => simp [pureRet] at h
  | unmodelled w => simp [pureRet] at h
  | call b k ih => simp only [runPure, ih .ok h, calls, List.flatten_cons]

theorem runPure_of_pureFail {α} (p : Prog α) (e : RawErr) (h : p.pureFail = some e) : p.runPure = (p.calls.flatten, .err e) := by
  induction p with
  | ret a' => simp [pureFail] at h
  | fail e' => simp only [pureFail, Option.some.injEq] at h; simp [runPure, calls, h]
  | panic w => simp [pureFail] at h
  | unmodelled w => simp [pureFail] at h
  | call b k ih => simp only [runPure, ih .ok h, calls, List.flatten_cons]

theorem pureRet_none_of_pureFail {α} (p : Prog α) (e : RawErr) (h : p.pureFail = some e) : p.pureRet = none := by
  induction p with
  | ret a' => simp [pureFail] at h
  | fail e' => rfl
  | panic w => rfl
  | unmodelled w => rfl
  | call b k ih => exact ih .ok h
end Prog

theorem NoCalls.calls {α} {p : Prog α} (h : NoCalls p) : p.calls = [] := by
  cases p <;> first | rfl | exact absurd h (by simp [NoCalls])

/-! ## Who is named when a write fails -/

/-- `IoAt p ls`: the fault-free run of `p` makes `ls.length` calls, and when the `k`-th of them fails —
    whatever part of it the writer accepted — `p` ends at once with the writer's error at site `ls[k]` -/
inductive IoAt {α : Type} : Prog α → List Site → Prop where
  | ret (a) : IoAt (.ret a) []
  | fail (e) : IoAt (.fail e) []
  | panic (w) : IoAt (.panic w) []
  | unmodelled (w) : IoAt (.unmodelled w) []
  | call (b k l ls) : (∀ n, k (.failed n) = .fail (ioErr l)) → IoAt (k .ok) ls → IoAt (.call b k) (l :: ls)

theorem IoAt.length {α} {p : Prog α} {ls : List Site} (h : IoAt p ls) : ls.length = p.calls.length := by
  induction h with
  | ret a => rfl
  | fail e => rfl
  | panic w => rfl
  | unmodelled w => rfl
  | call b k l ls _ _ ih => simp [Prog.calls, ih]

theorem IoAt.ofNoCalls {α} {p : Prog α} (h : NoCalls p) : IoAt p [] := by
  cases p with
  | ret a => exact .ret a
  | fail e => exact .fail e
  | panic w => exact .panic w
  | unmodelled w => exact .unmodelled w
  | call b k => exact absurd h (by simp [NoCalls])

theorem IoAt.bind {α β} {p : Prog α} {f : α → Prog β} {l1 : List Site} (l2 : α → List Site)
    (hp : IoAt p l1) (hf : ∀ a, p.pureRet = some a → IoAt (f a) (l2 a)) :
    IoAt (p.bind f) (l1 ++ (match p.pureRet with | some a => l2 a | none => [])) := by
  induction hp with
  | ret a => exact hf a rfl
  | fail e => exact .fail e
  | panic w => exact .panic w
  | unmodelled w => exact .unmodelled w
  | call b k l ls hk _ ih =>
    refine .call _ _ l _ (fun n => ?_) (ih hf)
    simp only [hk n, Prog.bind]

theorem IoAt.mapFail {α} {p : Prog α} {ls : List Site} (g : RawErr → RawErr) (h : Site → Site)
    (hg : ∀ l, g (ioErr l) = ioErr (h l)) (hp : IoAt p ls) : IoAt (p.mapFail g) (ls.map h) := by
  induction hp with
  | ret a => exact .ret a
  | fail e => exact .fail _
  | panic w => exact .panic w
  | unmodelled w => exact .unmodelled w
  | call b k l ls hk _ ih =>
    refine .call _ _ (h l) _ (fun n => ?_) ih
    simp only [hk n, Prog.mapFail, hg]

/-- the faulty run: a writer failing at call `k` ends the program with the writer's error at `ls[k]` -/
theorem IoAt.faulty {α} {p : Prog α} {ls : List Site} (hp : IoAt p ls) :
    ∀ (k acc : Nat) (l : Site), ls[k]? = some l → (runFaulty p (some k) acc).1 = .err (ioErr l) := by
  induction hp with
  | ret a => intro k acc l h; simp at h
  | fail e => intro k acc l h; simp at h
  | panic w => intro k acc l h; simp at h
  | unmodelled w => intro k acc l h; simp at h
  | call b kont l0 ls hk _ ih =>
    intro k acc l h
    cases k with
    | zero =>
      simp only [List.getElem?_cons_zero, Option.some.injEq] at h
      simp only [runFaulty, hk acc, h]
    | succ k =>
      simp only [List.getElem?_cons_succ] at h
      simp only [runFaulty, ih k acc l h]

/-- such a program stops on failure in the sense of C20 -/
theorem IoAt.stops {α} {p : Prog α} {ls : List Site} (hp : IoAt p ls) : Stops p := by
  induction hp with
  | ret a => exact .ret a
  | fail e => exact .fail e
  | panic w => exact .panic w
  | unmodelled w => exact .unmodelled w
  | call b k l ls hk _ ih => exact .call _ _ (fun n => ⟨_, hk n, ioErr_isIo l⟩) ih

/-! ## Traces -/

structure Tr where
  /-- for every `Write` call of the fault-free run: where the error is located when that call fails -/
  calls : List Site := []
  /-- where the error (or the `break`/`continue`) is located that the fault-free run ends with -/
  fin : Option Site := none

/-- sequencing: `t2` continues after `t1` when the first part returned `a` -/
def Tr.bind {α} (t1 : Tr) (r : Option α) (t2 : α → Tr) : Tr :=
  match r with
  | some a => ⟨t1.calls ++ (t2 a).calls, (t2 a).fin⟩
  | none => t1

/-- a node that wraps what it runs (`wrapAt`): every site below it is relocated -/
def Tr.wrap (path : Bytes) (loc : Loc) (t : Tr) : Tr :=
  ⟨t.calls.map (fun l => some (relocate path l loc)), t.fin.map (fun l => some (relocate path l loc))⟩

/-- a node's own work: every write it issues, and its own failure, is located at the node -/
def ownTr {α} (loc : Loc) (p : Prog α) : Tr :=
  ⟨List.replicate p.calls.length (some loc), p.pureFail.map (fun _ => some loc)⟩

/-- work that is not wrapped by itself (the cell tags of a tablerow): the writer's error is still plain -/
def pieceTr {α} (p : Prog α) : Tr :=
  ⟨List.replicate p.calls.length none, p.pureFail.map RawErr.site⟩

/-- `Sp p t`: the trace `t` is right about `p` -/
structure Sp {α : Type} (p : Prog α) (t : Tr) : Prop where
  io : IoAt p t.calls
  fin : ∀ e, p.pureFail = some e → t.fin = some e.site

/-- the same for a program that returns a status: a sentinel it hands upwards is located at `t.fin` too -/
structure SpS (p : Prog (Status × RS)) (t : Tr) : Prop extends Sp p t where
  sent : ∀ st s, p.pureRet = some (st, s) → st ≠ .done → t.fin = some st.site

theorem Sp.bind {α β} {p : Prog α} {f : α → Prog β} {t1 : Tr} {t2 : α → Tr}
    (hp : Sp p t1) (hf : ∀ a, p.pureRet = some a → Sp (f a) (t2 a)) : Sp (p.bind f) (t1.bind p.pureRet t2) := by
  have hio := IoAt.bind (fun a => (t2 a).calls) hp.io (fun a ha => (hf a ha).io)
  cases h : p.pureRet with
  | some a =>
    rw [h] at hio
    refine ⟨hio, fun e he => ?_⟩
    rw [Prog.pureFail_bind, h] at he
    exact (hf a h).fin e he
  | none =>
    rw [h] at hio
    refine ⟨by simpa [Tr.bind] using hio, fun e he => ?_⟩
    rw [Prog.pureFail_bind, h] at he
    exact hp.fin e he

theorem SpS.bind {α} {p : Prog α} {f : α → Prog (Status × RS)} {t1 : Tr} {t2 : α → Tr}
    (hp : Sp p t1) (hf : ∀ a, p.pureRet = some a → SpS (f a) (t2 a)) : SpS (p.bind f) (t1.bind p.pureRet t2) := by
  refine ⟨Sp.bind hp (fun a ha => (hf a ha).toSp), fun st s hr hne => ?_⟩
  rw [Prog.pureRet_bind] at hr
  cases h : p.pureRet with
  | none => rw [h] at hr; simp at hr
  | some a =>
    rw [h] at hr
    exact (hf a h).sent st s hr hne

/-- the trace may be replaced by one that agrees on the calls, and on the end whenever the run does not
    return `done` -/
theorem SpS.congr {p : Prog (Status × RS)} {t t' : Tr} (h : SpS p t') (hc : t'.calls = t.calls)
    (hf : (∀ s, p.pureRet ≠ some (.done, s)) → t'.fin = t.fin) : SpS p t := by
  refine ⟨⟨hc ▸ h.io, fun e he => ?_⟩, fun st s hr hne => ?_⟩
  · rw [← hf (fun s hs => by rw [Prog.pureRet_none_of_pureFail p e he] at hs; cases hs)]
    exact h.fin e he
  · rw [← hf (fun s' hs => by rw [hr] at hs; simp only [Option.some.injEq, Prod.mk.injEq] at hs; exact hne hs.1)]
    exact h.sent st s hr hne

/-- a program that makes no call and cannot fail leaves every trace -/
theorem Sp.ret {α} (a : α) (t : Option Site) : Sp (.ret a) ⟨[], t⟩ := ⟨.ret a, fun e he => by simp [Prog.pureFail] at he⟩

theorem SpS.retDone (s : RS) (t : Option Site) : SpS (.ret (.done, s)) ⟨[], t⟩ :=
  ⟨Sp.ret _ t, fun st s' hr hne => by simp only [Prog.pureRet, Option.some.injEq, Prod.mk.injEq] at hr; exact absurd hr.1.symm hne⟩

/-- handing a status on: the sentinel's site is the end of the trace -/
theorem SpS.retStatus (st : Status) (s : RS) : SpS (.ret (st, s)) ⟨[], some st.site⟩ :=
  ⟨Sp.ret _ _, fun st' s' hr _ => by simp only [Prog.pureRet, Option.some.injEq, Prod.mk.injEq] at hr; rw [hr.1]⟩

/-! ## Wrapping -/

theorem Sp.wrapFail {α} {p : Prog α} {t : Tr} (path : Bytes) (loc : Loc) (h : Sp p t) :
    Sp (p.mapFail (fun e => .located (wrapError path e loc))) (t.wrap path loc) := by
  refine ⟨IoAt.mapFail _ _ (fun l => wrapError_ioErr path l loc) h.io, fun e he => ?_⟩
  rw [Prog.pureFail_mapFail] at he
  cases hp : p.pureFail with
  | none => rw [hp] at he; simp at he
  | some e0 =>
    rw [hp] at he
    simp only [Option.map_some, Option.some.injEq] at he
    subst he
    simp only [Tr.wrap, h.fin e0 hp, Option.map_some, wrapError_site]

theorem Status.wrap_site (path : Bytes) (loc : Loc) (st : Status) (h : st ≠ .done) :
    (st.wrap path loc).site = some (relocate path st.site loc) := by
  cases st with
  | done => exact absurd rfl h
  | brk e => exact wrapError_site path (.located e) loc
  | cont e => exact wrapError_site path (.located e) loc

/-- `wrapAt`: failures, writer errors and sentinels of what a node runs are relocated at the node -/
theorem SpS.wrapped {m : M Status} {s : RS} {t : Tr} (path : Bytes) (loc : Loc) (h : SpS (m s) t) :
    SpS (wrapAt path loc m s) (t.wrap path loc) := by
  unfold wrapAt
  have h1 := Sp.wrapFail path loc h.toSp
  have h2 : SpS (((m s).mapFail (fun e => .located (wrapError path e loc))).bind
      (fun (x : Status × RS) => .ret (x.1.wrap path loc, x.2)))
      ((t.wrap path loc).bind ((m s).mapFail (fun e => .located (wrapError path e loc))).pureRet
        (fun x => ⟨[], some (x.1.wrap path loc).site⟩)) :=
    SpS.bind h1 (fun x _ => SpS.retStatus _ _)
  refine SpS.congr h2 ?_ ?_
  · cases hr : ((m s).mapFail (fun e => .located (wrapError path e loc))).pureRet <;> simp [Tr.bind]
  · intro hnd
    rw [Prog.pureRet_bind] at hnd
    cases hr : ((m s).mapFail (fun e => .located (wrapError path e loc))).pureRet with
    | none => rfl
    | some x =>
      obtain ⟨st, s'⟩ := x
      have hst : st ≠ .done := by
        intro hd
        subst hd
        exact hnd s' (by rw [hr]; rfl)
      rw [Prog.pureRet_mapFail] at hr
      simp only [Tr.bind, Tr.wrap, h.sent st s' hr hst, Option.map_some, Status.wrap_site path loc st hst]

/-! ## A node's own work -/

/-- `Own loc p`: a failed write ends `p` with the plain writer error, and an error of `p`'s own is plain or
    located at `loc` already — so that after the node's wrapping everything is located at `loc` -/
inductive Own (loc : Loc) {α : Type} : Prog α → Prop where
  | ret (a) : Own loc (.ret a)
  | fail (e) : (e.site = none ∨ e.site = some loc) → Own loc (.fail e)
  | panic (w) : Own loc (.panic w)
  | unmodelled (w) : Own loc (.unmodelled w)
  | call (b k) : (∀ n, k (.failed n) = .fail (.plain .io)) → Own loc (k .ok) → Own loc (.call b k)

theorem Own.bind {loc : Loc} {α β} {p : Prog α} {f : α → Prog β} (hp : Own loc p) (hf : ∀ a, Own loc (f a)) :
    Own loc (p.bind f) := by
  induction hp with
  | ret a => exact hf a
  | fail e he => exact .fail e he
  | panic w => exact .panic w
  | unmodelled w => exact .unmodelled w
  | call b k hk _ ih => exact .call _ _ (fun n => by simp only [hk n, Prog.bind]) ih

theorem Own.ofNoCalls_ret {loc : Loc} {α} (a : α) : Own loc (Prog.ret a) := .ret a

/-- after the node's wrapping, its own work is located at the node -/
theorem Own.sp_wrap {loc : Loc} {α} {p : Prog α} (path : Bytes) (h : Own loc p) :
    Sp (p.mapFail (fun e => .located (wrapError path e loc))) (ownTr loc p) := by
  refine ⟨?_, fun e he => ?_⟩
  · simp only [ownTr]
    induction h with
    | ret a => exact .ret a
    | fail e _ => exact .fail _
    | panic w => exact .panic w
    | unmodelled w => exact .unmodelled w
    | call b k hk _ ih =>
      simp only [Prog.calls, List.length_cons, List.replicate_succ]
      exact .call _ _ _ _ (fun n => by simp only [hk n, Prog.mapFail]; rfl) ih
  · rw [Prog.pureFail_mapFail] at he
    cases hp : p.pureFail with
    | none => rw [hp] at he; simp at he
    | some e0 =>
      rw [hp] at he
      simp only [Option.map_some, Option.some.injEq] at he
      subst he
      simp only [ownTr, hp, Option.map_some, wrapError_site]
      have : e0.site = none ∨ e0.site = some loc := by
        induction h with
        | ret a => simp [Prog.pureFail] at hp
        | fail e he' => simp only [Prog.pureFail, Option.some.injEq] at hp; exact hp ▸ he'
        | panic w => simp [Prog.pureFail] at hp
        | unmodelled w => simp [Prog.pureFail] at hp
        | call b k _ _ ih => exact ih hp
      rcases this with h0 | h0 <;> rw [h0]
      · rfl
      · rw [relocate_self]

/-- unwrapped, the same work leaves the writer's error plain -/
theorem Own.sp_piece {loc : Loc} {α} {p : Prog α} (h : Own loc p) : Sp p (pieceTr p) := by
  refine ⟨?_, fun e he => by simp [pieceTr, he]⟩
  simp only [pieceTr]
  induction h with
  | ret a => exact .ret a
  | fail e _ => exact .fail _
  | panic w => exact .panic w
  | unmodelled w => exact .unmodelled w
  | call b k hk _ ih =>
    simp only [Prog.calls, List.length_cons, List.replicate_succ]
    exact .call _ _ _ _ (fun n => by simp only [hk n]; rfl) ih

/-- …and the enclosing node's wrapping puts it at that node -/
theorem Own.piece_wrap {loc : Loc} {α} {p : Prog α} (path : Bytes) (h : Own loc p) :
    (pieceTr p).wrap path loc = ownTr loc p := by
  have hs : ∀ e, p.pureFail = some e → e.site = none ∨ e.site = some loc := by
    induction h with
    | ret a => intro e he; simp [Prog.pureFail] at he
    | fail e he' => intro e' he; simp only [Prog.pureFail, Option.some.injEq] at he; exact he ▸ he'
    | panic w => intro e he; simp [Prog.pureFail] at he
    | unmodelled w => intro e he; simp [Prog.pureFail] at he
    | call b k _ _ ih => exact ih
  have h1 : relocate path none loc = loc := rfl
  simp only [pieceTr, Tr.wrap, ownTr, List.map_replicate, h1, Tr.mk.injEq, true_and]
  cases hp : p.pureFail with
  | none => rfl
  | some e =>
    simp only [Option.map_some, Option.some.injEq]
    rcases hs e hp with h0 | h0 <;> rw [h0]
    · rfl
    · exact relocate_self path loc

/-! ## The render monad -/

theorem M.bind_apply {α β} (m : M α) (f : α → M β) (s : RS) :
    (m >>= f) s = (m s).bind (fun x => f x.1 x.2) := rfl

theorem wrapFailAt_apply {α} (path : Bytes) (loc : Loc) (m : M α) (s : RS) :
    wrapFailAt path loc m s = (m s).mapFail (fun e => .located (wrapError path e loc)) := rfl

/-- a node that wraps a sequence wraps the failures of its first part and then the rest -/
theorem wrapAt_bind {α} (path : Bytes) (loc : Loc) (m : M α) (f : α → M Status) (s : RS) :
    wrapAt path loc (m >>= f) s = (wrapFailAt path loc m s).bind (fun x => wrapAt path loc (f x.1) x.2) := by
  simp only [wrapAt, M.bind_apply, wrapFailAt_apply, Prog.mapFail_bind, Prog.bind_assoc]

def OwnM (loc : Loc) {α} (m : M α) : Prop := ∀ s, Own loc (m s)

theorem ownM_pure {loc : Loc} {α} (a : α) : OwnM loc (pure a : M α) := fun _ => .ret _
theorem ownM_bind {loc : Loc} {α β} {m : M α} {f : α → M β} (hm : OwnM loc m) (hf : ∀ a, OwnM loc (f a)) :
    OwnM loc (m >>= f) := fun s => Own.bind (hm s) (fun x => hf x.1 x.2)
theorem ownM_failPlain {loc : Loc} {α} (c : Cause) : OwnM loc (M.fail (.plain c) : M α) := fun _ => .fail _ (Or.inl rfl)
theorem ownM_failAt {loc : Loc} {α} (m : Msg) : OwnM loc (M.fail (.located (errorfAt loc m)) : M α) :=
  fun _ => .fail _ (Or.inr rfl)
theorem ownM_getEnv {loc : Loc} : OwnM loc M.getEnv := fun _ => .ret _
theorem ownM_setVar {loc : Loc} (x : Bytes) (v : GoVal) : OwnM loc (M.setVar x v) := fun _ => .ret _
theorem ownM_getVar {loc : Loc} (x : Bytes) : OwnM loc (M.getVar x) := fun _ => .ret _
theorem ownM_ofRes {loc : Loc} {α} (r : Res Cause α) : OwnM loc (M.ofRes r) := by
  intro s
  cases r with
  | ok a => exact .ret _
  | err c => exact .fail _ (Or.inl rfl)
  | panic w => exact .panic _
  | unmodelled w => exact .unmodelled _

theorem ownM_flush {loc : Loc} : OwnM loc flushM := by
  intro s
  unfold flushM
  split
  · exact .ret _
  · exact .call _ _ (fun n => rfl) (.ret _)

theorem ownM_write {loc : Loc} (b : Bytes) : OwnM loc (writeM b) := by
  intro s
  unfold writeM
  simp only
  split
  · exact .ret _
  · exact .call _ _ (fun n => rfl) (.ret _)

theorem ownM_trimLeft {loc : Loc} : OwnM loc trimLeftM := fun _ => .call _ _ (fun _ => rfl) (.ret _)
theorem ownM_trimRight {loc : Loc} : OwnM loc trimRightM := fun _ => .ret _

theorem ownM_writeVerbatim {loc : Loc} (b : Bytes) : OwnM loc (writeVerbatimM b) := by
  unfold writeVerbatimM
  exact ownM_bind (ownM_write []) (fun _ => ownM_bind (ownM_write b) (fun _ => ownM_flush))

theorem ownM_writeAll {loc : Loc} : ∀ cs, OwnM loc (writeAllM cs)
  | [] => ownM_pure ()
  | c :: cs => by
    unfold writeAllM
    exact ownM_bind (ownM_writeVerbatim c) (fun _ => ownM_writeAll cs)

theorem ownM_tablerowBefore {loc : Loc} (cols i : Nat) : OwnM loc (tablerowBefore cols i) := by
  unfold tablerowBefore
  simp only
  split
  · exact ownM_bind (ownM_write _) (fun _ => ownM_write _)
  · exact ownM_write _

theorem ownM_tablerowAfter {loc : Loc} (cols i l : Nat) : OwnM loc (tablerowAfter cols i l) := by
  unfold tablerowAfter
  refine ownM_bind (ownM_write _) (fun _ => ?_)
  split
  · exact ownM_write _
  · exact ownM_pure _

theorem ownM_intModifier {loc : Loc} (P : Prims) (e : Option Expr) : OwnM loc (intModifier P e loc) := by
  unfold intModifier
  cases e with
  | none => exact ownM_pure _
  | some ex =>
    refine ownM_bind ownM_getEnv (fun env => ownM_bind (ownM_ofRes _) (fun v => ?_))
    split
    · exact ownM_pure _
    · exact ownM_failAt _

theorem ownM_tablerowCols {loc : Loc} (P : Prims) (tr : Bool) (cols : Option Expr) : OwnM loc (tablerowCols P tr cols loc) := by
  unfold tablerowCols
  split
  · refine ownM_bind (ownM_intModifier _ _) (fun cv => ?_)
    cases cv <;> exact ownM_pure _
  · exact ownM_pure _
