import Liquid.Utf8
/-!
# Lemmas about the UTF-8 codec model (`Liquid/Utf8.lean`)
-/

/-- Unicode scalar value -/
def isScalar (r : Rune) : Bool := r < 0xD800 || (0xDFFF < r && r ≤ 0x10FFFF)
/-- `s` is the UTF-8 encoding of a list of scalar values -/
def ValidUtf8 (s : Bytes) : Prop := ∃ rs : List Rune, (∀ r ∈ rs, isScalar r = true) ∧ s = encodeRunes rs
/-- number of runes Go counts in `s` (`utf8.RuneCountInString`): every invalid byte counts 1 -/
def runeLen (s : Bytes) : Nat := (decodeRunes s).length

/-! ## Nat-level view of the two codec functions -/

theorem isScalar_iff (r : Nat) : isScalar r = true ↔ (r < 0xD800 ∨ (0xDFFF < r ∧ r ≤ 0x10FFFF)) := by
  simp [isScalar]

theorem isScalar_eq_false_iff (r : Nat) : isScalar r = false ↔ ((0xD800 ≤ r ∧ r ≤ 0xDFFF) ∨ 0x10FFFF < r) := by
  rw [← Bool.not_eq_true, isScalar_iff]; omega

theorem u8_beq_nat (a b : UInt8) : (a == b) = decide (a.toNat = b.toNat) := by
  simp only [UInt8.toNat_inj]; rfl

theorem isCont_nat (b : UInt8) : isCont b = (decide (128 ≤ b.toNat) && decide (b.toNat ≤ 191)) := by
  simp [isCont, UInt8.le_iff_toNat_le]

theorem toNat_toUInt8 (n : Nat) : n.toUInt8.toNat = n % 256 := by
  simp only [Nat.toUInt8_eq, UInt8.toNat_ofNat']

theorem toUInt8_eq_of (n : Nat) (b : UInt8) (h : n = b.toNat) : n.toUInt8 = b := by
  apply UInt8.toNat.inj
  have := b.toNat_lt
  rw [toNat_toUInt8]; omega

theorem lo_iff (a b x y : Nat) (k : Nat) : (if a = k then x else y) ≤ b ↔ ((a = k → x ≤ b) ∧ (a ≠ k → y ≤ b)) := by
  split <;> simp [*]

theorem hi_iff (a b x y : Nat) (k : Nat) : b ≤ (if a = k then x else y) ↔ ((a = k → b ≤ x) ∧ (a ≠ k → b ≤ y)) := by
  split <;> simp [*]

theorem decodeRune_nat (b0 : UInt8) (rest : Bytes) : decodeRune (b0 :: rest) =
    if b0.toNat < 128 then (b0.toNat, 1)
    else if b0.toNat < 194 then (runeError, 1)
    else if b0.toNat < 224 then
      match rest with
      | b1 :: _ => if 128 ≤ b1.toNat ∧ b1.toNat ≤ 191 then
          ((b0.toNat - 192) * 64 + (b1.toNat - 128), 2) else (runeError, 1)
      | _ => (runeError, 1)
    else if b0.toNat < 240 then
      match rest with
      | b1 :: b2 :: _ =>
        if (if b0.toNat = 224 then 160 else 128) ≤ b1.toNat ∧
           b1.toNat ≤ (if b0.toNat = 237 then 159 else 191) ∧ 128 ≤ b2.toNat ∧ b2.toNat ≤ 191 then
          ((b0.toNat - 224) * 4096 + (b1.toNat - 128) * 64 + (b2.toNat - 128), 3)
        else (runeError, 1)
      | _ => (runeError, 1)
    else if b0.toNat < 245 then
      match rest with
      | b1 :: b2 :: b3 :: _ =>
        if (if b0.toNat = 240 then 144 else 128) ≤ b1.toNat ∧
           b1.toNat ≤ (if b0.toNat = 244 then 143 else 191) ∧ 128 ≤ b2.toNat ∧ b2.toNat ≤ 191
           ∧ 128 ≤ b3.toNat ∧ b3.toNat ≤ 191 then
          ((b0.toNat - 240) * 262144 + (b1.toNat - 128) * 4096 + (b2.toNat - 128) * 64 + (b3.toNat - 128), 4)
        else (runeError, 1)
      | _ => (runeError, 1)
    else (runeError, 1) := by
  simp only [decodeRune, isCont_nat, UInt8.lt_iff_toNat_lt, UInt8.le_iff_toNat_le, u8_beq_nat,
    apply_ite UInt8.toNat, Bool.and_eq_true, decide_eq_true_eq, and_assoc]
  rfl

theorem encodeRune_nat (r : Nat) : encodeRune r =
    if r < 0x80 then [r.toUInt8]
    else if r < 0x800 then [(0xC0 + r / 64).toUInt8, (0x80 + r % 64).toUInt8]
    else if (0xD800 ≤ r ∧ r ≤ 0xDFFF) ∨ r > 0x10FFFF then [0xEF, 0xBF, 0xBD]
    else if r < 0x10000 then [(0xE0 + r / 4096).toUInt8, (0x80 + r / 64 % 64).toUInt8, (0x80 + r % 64).toUInt8]
    else [(0xF0 + r / 262144).toUInt8, (0x80 + r / 4096 % 64).toUInt8, (0x80 + r / 64 % 64).toUInt8, (0x80 + r % 64).toUInt8] := by
  simp only [encodeRune, Bool.or_eq_true, Bool.and_eq_true, decide_eq_true_eq]

/-- `Good s r w`: `s` starts with a well-formed `w`-byte UTF-8 sequence encoding `r`. -/
inductive Good : Bytes → Nat → Nat → Prop
  | one (b0 : UInt8) (t : Bytes) : b0.toNat < 128 → Good (b0 :: t) b0.toNat 1
  | two (b0 b1 : UInt8) (t : Bytes) : 194 ≤ b0.toNat → b0.toNat < 224 → 128 ≤ b1.toNat → b1.toNat ≤ 191 →
      Good (b0 :: b1 :: t) ((b0.toNat - 192) * 64 + (b1.toNat - 128)) 2
  | three (b0 b1 b2 : UInt8) (t : Bytes) : 224 ≤ b0.toNat → b0.toNat < 240 → 128 ≤ b1.toNat → b1.toNat ≤ 191 →
      (b0.toNat = 224 → 160 ≤ b1.toNat) → (b0.toNat = 237 → b1.toNat ≤ 159) →
      128 ≤ b2.toNat → b2.toNat ≤ 191 →
      Good (b0 :: b1 :: b2 :: t) ((b0.toNat - 224) * 4096 + (b1.toNat - 128) * 64 + (b2.toNat - 128)) 3
  | four (b0 b1 b2 b3 : UInt8) (t : Bytes) : 240 ≤ b0.toNat → b0.toNat < 245 → 128 ≤ b1.toNat → b1.toNat ≤ 191 →
      (b0.toNat = 240 → 144 ≤ b1.toNat) → (b0.toNat = 244 → b1.toNat ≤ 143) →
      128 ≤ b2.toNat → b2.toNat ≤ 191 → 128 ≤ b3.toNat → b3.toNat ≤ 191 →
      Good (b0 :: b1 :: b2 :: b3 :: t)
        ((b0.toNat - 240) * 262144 + (b1.toNat - 128) * 4096 + (b2.toNat - 128) * 64 + (b3.toNat - 128)) 4

theorem Good.decode {s : Bytes} {r w : Nat} (h : Good s r w) : decodeRune s = (r, w) := by
  cases h with
  | one b0 t h0 => rw [decodeRune_nat, if_pos h0]
  | two b0 b1 t h0 h0' h1 h1' =>
    rw [decodeRune_nat, if_neg (by omega), if_neg (by omega), if_pos (by omega)]
    simp only
    rw [if_pos ⟨h1, h1'⟩]
  | three b0 b1 b2 t h0 h0' h1 h1' hl hh h2 h2' =>
    rw [decodeRune_nat, if_neg (by omega), if_neg (by omega), if_neg (by omega), if_pos (by omega)]
    simp only
    rw [if_pos]
    rw [lo_iff, hi_iff]; omega
  | four b0 b1 b2 b3 t h0 h0' h1 h1' hl hh h2 h2' h3 h3' =>
    rw [decodeRune_nat, if_neg (by omega), if_neg (by omega), if_neg (by omega), if_neg (by omega),
      if_pos (by omega)]
    simp only
    rw [if_pos]
    rw [lo_iff, hi_iff]; omega

/-- complete case analysis of `decodeRune` -/
theorem decodeRune_spec (s : Bytes) :
    (s = [] ∧ decodeRune s = (runeError, 0)) ∨ (s ≠ [] ∧ decodeRune s = (runeError, 1)) ∨
    Good s (decodeRune s).1 (decodeRune s).2 := by
  cases s with
  | nil => left; exact ⟨rfl, rfl⟩
  | cons b0 rest =>
    right
    have hne : b0 :: rest ≠ [] := by simp
    by_cases h1 : b0.toNat < 128
    · right; have g := Good.one b0 rest h1; rw [g.decode]; exact g
    by_cases h2 : b0.toNat < 194
    · left; refine ⟨hne, ?_⟩; rw [decodeRune_nat, if_neg h1, if_pos h2]
    by_cases h3 : b0.toNat < 224
    · have e := decodeRune_nat b0 rest
      rw [if_neg h1, if_neg h2, if_pos h3] at e
      match rest, e with
      | [], e => left; exact ⟨hne, e⟩
      | b1 :: t, e =>
        simp only at e
        by_cases hc : 128 ≤ b1.toNat ∧ b1.toNat ≤ 191
        · right; have g := Good.two b0 b1 t (by omega) h3 hc.1 hc.2; rw [g.decode]; exact g
        · left; rw [if_neg hc] at e; exact ⟨hne, e⟩
    by_cases h4 : b0.toNat < 240
    · have e := decodeRune_nat b0 rest
      rw [if_neg h1, if_neg h2, if_neg h3, if_pos h4] at e
      match rest, e with
      | [], e => left; exact ⟨hne, e⟩
      | [_], e => left; exact ⟨hne, e⟩
      | b1 :: b2 :: t, e =>
        simp only [lo_iff, hi_iff] at e
        split at e
        · rename_i hc
          right
          have g := Good.three b0 b1 b2 t (by omega) h4 (by omega) (by omega) (by omega) (by omega)
            (by omega) (by omega)
          rw [g.decode]; exact g
        · left; exact ⟨hne, e⟩
    by_cases h5 : b0.toNat < 245
    · have e := decodeRune_nat b0 rest
      rw [if_neg h1, if_neg h2, if_neg h3, if_neg h4, if_pos h5] at e
      match rest, e with
      | [], e => left; exact ⟨hne, e⟩
      | [_], e => left; exact ⟨hne, e⟩
      | [_, _], e => left; exact ⟨hne, e⟩
      | b1 :: b2 :: b3 :: t, e =>
        simp only [lo_iff, hi_iff] at e
        split at e
        · rename_i hc
          right
          have g := Good.four b0 b1 b2 b3 t (by omega) h5 (by omega) (by omega) (by omega) (by omega)
            (by omega) (by omega) (by omega) (by omega)
          rw [g.decode]; exact g
        · left; exact ⟨hne, e⟩
    · left; refine ⟨hne, ?_⟩
      rw [decodeRune_nat, if_neg h1, if_neg h2, if_neg h3, if_neg h4, if_neg h5]

theorem Good.width {s : Bytes} {r w : Nat} (h : Good s r w) : 1 ≤ w ∧ w ≤ s.length := by
  cases h <;> simp

theorem Good.scalar {s : Bytes} {r w : Nat} (h : Good s r w) : isScalar r = true := by
  rw [isScalar_iff]
  cases h <;> omega

theorem Good.not_bad {s : Bytes} {r w : Nat} (h : Good s r w) : ¬ (r = runeError ∧ w ≤ 1) := by
  unfold runeError
  cases h <;> omega

theorem Good.encode {s : Bytes} {r w : Nat} (h : Good s r w) : encodeRune r = s.take w := by
  rw [encodeRune_nat]
  cases h with
  | one b0 t h0 =>
    rw [if_pos h0]
    simp only [List.take_succ_cons, List.take_zero]
    rw [toUInt8_eq_of _ b0 rfl]
  | two b0 b1 t h0 h0' h1 h1' =>
    rw [if_neg (by omega), if_pos (by omega)]
    simp only [List.take_succ_cons, List.take_zero]
    rw [toUInt8_eq_of _ b0 (by omega), toUInt8_eq_of _ b1 (by omega)]
  | three b0 b1 b2 t h0 h0' h1 h1' hl hh h2 h2' =>
    rw [if_neg (by omega), if_neg (by omega), if_neg (by omega), if_pos (by omega)]
    simp only [List.take_succ_cons, List.take_zero]
    rw [toUInt8_eq_of _ b0 (by omega), toUInt8_eq_of _ b1 (by omega), toUInt8_eq_of _ b2 (by omega)]
  | four b0 b1 b2 b3 t h0 h0' h1 h1' hl hh h2 h2' h3 h3' =>
    rw [if_neg (by omega), if_neg (by omega), if_neg (by omega), if_neg (by omega)]
    simp only [List.take_succ_cons, List.take_zero]
    rw [toUInt8_eq_of _ b0 (by omega), toUInt8_eq_of _ b1 (by omega), toUInt8_eq_of _ b2 (by omega),
      toUInt8_eq_of _ b3 (by omega)]

theorem Good.encode_length {s : Bytes} {r w : Nat} (h : Good s r w) : (encodeRune r).length = w := by
  rw [h.encode, List.length_take]; have := h.width; omega

theorem good_encodeRune (r : Nat) (h : isScalar r = true) (t : Bytes) :
    Good (encodeRune r ++ t) r (encodeRune r).length := by
  rw [isScalar_iff] at h
  rw [encodeRune_nat]
  by_cases h1 : r < 0x80
  · rw [if_pos h1]
    have g := Good.one r.toUInt8 t (by rw [toNat_toUInt8]; omega)
    have e : r.toUInt8.toNat = r := by rw [toNat_toUInt8]; omega
    rw [e] at g; exact g
  by_cases h2 : r < 0x800
  · rw [if_neg h1, if_pos h2]
    have g := Good.two (0xC0 + r / 64).toUInt8 (0x80 + r % 64).toUInt8 t
      (by rw [toNat_toUInt8]; omega) (by rw [toNat_toUInt8]; omega)
      (by rw [toNat_toUInt8]; omega) (by rw [toNat_toUInt8]; omega)
    have e : ((0xC0 + r / 64).toUInt8.toNat - 192) * 64 + ((0x80 + r % 64).toUInt8.toNat - 128) = r := by
      simp only [toNat_toUInt8]; omega
    rw [e] at g; exact g
  by_cases h3 : r < 0x10000
  · rw [if_neg h1, if_neg h2, if_neg (by omega), if_pos h3]
    have g := Good.three (0xE0 + r / 4096).toUInt8 (0x80 + r / 64 % 64).toUInt8 (0x80 + r % 64).toUInt8 t
      (by rw [toNat_toUInt8]; omega) (by rw [toNat_toUInt8]; omega)
      (by rw [toNat_toUInt8]; omega) (by rw [toNat_toUInt8]; omega)
      (by simp only [toNat_toUInt8]; omega) (by simp only [toNat_toUInt8]; omega)
      (by rw [toNat_toUInt8]; omega) (by rw [toNat_toUInt8]; omega)
    have e : ((0xE0 + r / 4096).toUInt8.toNat - 224) * 4096 + ((0x80 + r / 64 % 64).toUInt8.toNat - 128) * 64
        + ((0x80 + r % 64).toUInt8.toNat - 128) = r := by
      simp only [toNat_toUInt8]; omega
    rw [e] at g; exact g
  · rw [if_neg h1, if_neg h2, if_neg (by omega), if_neg h3]
    have g := Good.four (0xF0 + r / 262144).toUInt8 (0x80 + r / 4096 % 64).toUInt8
      (0x80 + r / 64 % 64).toUInt8 (0x80 + r % 64).toUInt8 t
      (by rw [toNat_toUInt8]; omega) (by rw [toNat_toUInt8]; omega)
      (by rw [toNat_toUInt8]; omega) (by rw [toNat_toUInt8]; omega)
      (by simp only [toNat_toUInt8]; omega) (by simp only [toNat_toUInt8]; omega)
      (by rw [toNat_toUInt8]; omega) (by rw [toNat_toUInt8]; omega)
      (by rw [toNat_toUInt8]; omega) (by rw [toNat_toUInt8]; omega)
    have e : ((0xF0 + r / 262144).toUInt8.toNat - 240) * 262144
        + ((0x80 + r / 4096 % 64).toUInt8.toNat - 128) * 4096
        + ((0x80 + r / 64 % 64).toUInt8.toNat - 128) * 64
        + ((0x80 + r % 64).toUInt8.toNat - 128) = r := by
      simp only [toNat_toUInt8]; omega
    rw [e] at g; exact g

/-! ## 1. length of an encoded rune -/

theorem encodeRune_length_pos (r : Rune) : 0 < (encodeRune r).length := by
  rw [encodeRune_nat]; repeat' split
  all_goals simp

theorem encodeRune_length_le (r : Rune) : (encodeRune r).length ≤ 4 := by
  rw [encodeRune_nat]; repeat' split
  all_goals simp

theorem encodeRune_ne_nil (r : Rune) : encodeRune r ≠ [] := by
  intro h; have := encodeRune_length_pos r; rw [h] at this; exact Nat.lt_irrefl _ this

/-! ## 2. decode ∘ encode on one rune -/

theorem decodeRune_encodeRune_append (r : Rune) (h : isScalar r = true) (t : Bytes) :
    decodeRune (encodeRune r ++ t) = (r, (encodeRune r).length) :=
  (good_encodeRune r h t).decode

/-! ## 5./6. the decoded rune is a scalar value; widths -/

theorem isScalar_runeError : isScalar runeError = true := by decide

theorem decodeRune_isScalar (s : Bytes) : isScalar (decodeRune s).1 = true := by
  rcases decodeRune_spec s with ⟨_, e⟩ | ⟨_, e⟩ | g
  · rw [e]; exact isScalar_runeError
  · rw [e]; exact isScalar_runeError
  · exact g.scalar

theorem decodeRune_width_le (s : Bytes) : (decodeRune s).2 ≤ s.length := by
  rcases decodeRune_spec s with ⟨_, e⟩ | ⟨hne, e⟩ | g
  · rw [e]; exact Nat.zero_le _
  · rw [e]; cases s with
    | nil => exact absurd rfl hne
    | cons b t => simp
  · exact g.width.2

theorem decodeRune_width_pos (s : Bytes) (h : s ≠ []) : 0 < (decodeRune s).2 := by
  rcases decodeRune_spec s with ⟨e, _⟩ | ⟨_, e⟩ | g
  · exact absurd e h
  · rw [e]; exact Nat.one_pos
  · exact g.width.1

theorem decodeRune_width_le_four (s : Bytes) : (decodeRune s).2 ≤ 4 := by
  rcases decodeRune_spec s with ⟨_, e⟩ | ⟨_, e⟩ | g
  · rw [e]; simp
  · rw [e]; simp
  · rw [← g.encode_length]; exact encodeRune_length_le _

/-- a decode that is not the error result `(runeError, ≤1)` is a well-formed sequence -/
theorem good_of_decodeRune (s : Bytes) (r w : Nat) (h : decodeRune s = (r, w))
    (hv : ¬ (r = runeError ∧ w ≤ 1)) : Good s r w := by
  rcases decodeRune_spec s with ⟨_, e⟩ | ⟨_, e⟩ | g
  · rw [e] at h; cases h; exact absurd ⟨rfl, Nat.zero_le _⟩ hv
  · rw [e] at h; cases h; exact absurd ⟨rfl, Nat.le_refl _⟩ hv
  · rw [h] at g; exact g

theorem good_of_not_bad (s : Bytes) (hv : ¬ ((decodeRune s).1 = runeError ∧ (decodeRune s).2 ≤ 1)) :
    Good s (decodeRune s).1 (decodeRune s).2 :=
  good_of_decodeRune s (decodeRune s).1 (decodeRune s).2 rfl hv

/-! ## 7. a successful decode re-encodes to exactly the bytes consumed -/

theorem encodeRune_decodeRune (s : Bytes) (r : Rune) (w : Nat) (h : decodeRune s = (r, w))
    (hv : ¬ (r = runeError ∧ w ≤ 1)) : s.take w = encodeRune r :=
  (good_of_decodeRune s r w h hv).encode.symm

theorem encodeRune_length_of_decodeRune (s : Bytes) (r : Rune) (w : Nat) (h : decodeRune s = (r, w))
    (hv : ¬ (r = runeError ∧ w ≤ 1)) : (encodeRune r).length = w :=
  (good_of_decodeRune s r w h hv).encode_length

/-! ## 3. unfolding `decodeRunes` -/

theorem decodeRunesAux_fuel : ∀ (n m : Nat) (s : Bytes), s.length ≤ n → s.length ≤ m →
    decodeRunesAux n s = decodeRunesAux m s := by
  intro n
  induction n with
  | zero =>
    intro m s hn hm
    have : s = [] := List.eq_nil_of_length_eq_zero (Nat.le_zero.mp hn)
    subst this
    cases m <;> rfl
  | succ n ih =>
    intro m s hn hm
    cases s with
    | nil => cases m <;> rfl
    | cons b t =>
      cases m with
      | zero => simp at hm
      | succ m =>
        simp only [decodeRunesAux]
        congr 1
        apply ih
        · simp only [List.length_drop, List.length_cons] at *; omega
        · simp only [List.length_drop, List.length_cons] at *; omega

theorem decodeRunesAux_eq (n : Nat) (s : Bytes) (h : s.length ≤ n) :
    decodeRunesAux n s = decodeRunes s :=
  decodeRunesAux_fuel n s.length s h (Nat.le_refl _)

theorem decodeRunes_nil : decodeRunes [] = [] := rfl

theorem decodeRunes_cons (s : Bytes) (h : s ≠ []) :
    decodeRunes s = (decodeRune s).1 :: decodeRunes (s.drop (max (decodeRune s).2 1)) := by
  cases s with
  | nil => exact absurd rfl h
  | cons b t =>
    show decodeRunesAux (t.length + 1) (b :: t) = _
    simp only [decodeRunesAux]
    congr 1
    apply decodeRunesAux_eq
    simp only [List.length_drop, List.length_cons]; omega

/-! ## 4. decode ∘ encode on rune lists -/

@[simp] theorem encodeRunes_nil : encodeRunes [] = [] := rfl

@[simp] theorem encodeRunes_cons (r : Rune) (rs : List Rune) :
    encodeRunes (r :: rs) = encodeRune r ++ encodeRunes rs := by
  simp [encodeRunes]

theorem encodeRunes_append (a b : List Rune) : encodeRunes (a ++ b) = encodeRunes a ++ encodeRunes b := by
  simp [encodeRunes]

theorem encodeRunes_singleton (r : Rune) : encodeRunes [r] = encodeRune r := by
  simp

theorem decodeRunes_encodeRune_append (r : Rune) (h : isScalar r = true) (t : Bytes) :
    decodeRunes (encodeRune r ++ t) = r :: decodeRunes t := by
  have hne : encodeRune r ++ t ≠ [] := by
    intro e; exact encodeRune_ne_nil r (List.append_eq_nil_iff.mp e).1
  rw [decodeRunes_cons _ hne, decodeRune_encodeRune_append r h t]
  have := encodeRune_length_pos r
  simp only [Nat.max_eq_left this, List.drop_left]

theorem decodeRunes_encodeRunes_append (rs : List Rune) (h : ∀ r ∈ rs, isScalar r = true) (t : Bytes) :
    decodeRunes (encodeRunes rs ++ t) = rs ++ decodeRunes t := by
  induction rs with
  | nil => rfl
  | cons r rs ih =>
    rw [encodeRunes_cons, List.append_assoc,
      decodeRunes_encodeRune_append r (h r (List.mem_cons_self ..)),
      ih (fun x hx => h x (List.mem_cons_of_mem _ hx))]
    rfl

theorem decode_encode (rs : List Rune) (h : ∀ r ∈ rs, isScalar r = true) :
    decodeRunes (encodeRunes rs) = rs := by
  have := decodeRunes_encodeRunes_append rs h []
  rwa [List.append_nil, decodeRunes_nil, List.append_nil] at this

/-! ## 5b. all decoded runes are scalar -/

theorem decodeRunesAux_all_scalar (n : Nat) : ∀ (s : Bytes), ∀ r ∈ decodeRunesAux n s, isScalar r = true := by
  induction n with
  | zero => intro s r hr; simp [decodeRunesAux] at hr
  | succ n ih =>
    intro s r hr
    cases s with
    | nil => simp [decodeRunesAux] at hr
    | cons b t =>
      simp only [decodeRunesAux, List.mem_cons] at hr
      rcases hr with rfl | hr
      · exact decodeRune_isScalar _
      · exact ih _ r hr

theorem decodeRunes_all_scalar (s : Bytes) : ∀ r ∈ decodeRunes s, isScalar r = true :=
  decodeRunesAux_all_scalar _ s

/-! ## 8. validity of encodings -/

theorem encodeRune_runeError : encodeRune runeError = [0xEF, 0xBF, 0xBD] := by decide

theorem encodeRune_nonscalar (r : Rune) (h : isScalar r = false) : encodeRune r = encodeRune runeError := by
  unfold Rune at r
  rw [isScalar_eq_false_iff] at h
  rw [encodeRune_runeError, encodeRune_nat, if_neg (by omega), if_neg (by omega), if_pos (by omega)]

/-- replace non-scalar values by U+FFFD -/
def sanitizeRune (r : Rune) : Rune := if isScalar r then r else runeError

theorem isScalar_sanitizeRune (r : Rune) : isScalar (sanitizeRune r) = true := by
  unfold sanitizeRune; split
  · assumption
  · exact isScalar_runeError

theorem encodeRune_sanitizeRune (r : Rune) : encodeRune (sanitizeRune r) = encodeRune r := by
  unfold sanitizeRune; split
  · rfl
  · rename_i h; exact (encodeRune_nonscalar r (by simpa using h)).symm

theorem encodeRunes_map_sanitizeRune (rs : List Rune) : encodeRunes (rs.map sanitizeRune) = encodeRunes rs := by
  induction rs with
  | nil => rfl
  | cons r rs ih => rw [List.map_cons, encodeRunes_cons, encodeRunes_cons, ih, encodeRune_sanitizeRune]

theorem validUtf8_encodeRunes (rs : List Rune) : ValidUtf8 (encodeRunes rs) := by
  refine ⟨rs.map sanitizeRune, ?_, (encodeRunes_map_sanitizeRune rs).symm⟩
  intro r hr
  rcases List.mem_map.mp hr with ⟨x, _, rfl⟩
  exact isScalar_sanitizeRune x

theorem validUtf8_encodeRune (r : Rune) : ValidUtf8 (encodeRune r) := by
  rw [← encodeRunes_singleton]; exact validUtf8_encodeRunes _

theorem validUtf8_nil : ValidUtf8 [] := ⟨[], by simp, rfl⟩

theorem validUtf8_append {a b : Bytes} : ValidUtf8 a → ValidUtf8 b → ValidUtf8 (a ++ b) := by
  rintro ⟨ra, ha, rfl⟩ ⟨rb, hb, rfl⟩
  rw [← encodeRunes_append]; exact validUtf8_encodeRunes _

/-! ## 9. encode ∘ decode on valid input -/

theorem encodeRunes_decodeRunes_of_valid (s : Bytes) (h : ValidUtf8 s) : encodeRunes (decodeRunes s) = s := by
  rcases h with ⟨rs, hrs, rfl⟩
  rw [decode_encode rs hrs]

/-! ## 10. rune counts -/

theorem decodeRunes_append_of_valid (a b : Bytes) (h : ValidUtf8 a) :
    decodeRunes (a ++ b) = decodeRunes a ++ decodeRunes b := by
  rcases h with ⟨rs, hrs, rfl⟩
  rw [decodeRunes_encodeRunes_append rs hrs, decode_encode rs hrs]

theorem runeLen_append_of_valid (a b : Bytes) (h : ValidUtf8 a) : runeLen (a ++ b) = runeLen a + runeLen b := by
  unfold runeLen; rw [decodeRunes_append_of_valid a b h, List.length_append]

theorem runeLen_encodeRunes_append (rs : List Rune) (t : Bytes) :
    runeLen (encodeRunes rs ++ t) = rs.length + runeLen t := by
  rw [← encodeRunes_map_sanitizeRune]
  unfold runeLen
  rw [decodeRunes_encodeRunes_append]
  · simp
  · intro r hr
    rcases List.mem_map.mp hr with ⟨x, _, rfl⟩
    exact isScalar_sanitizeRune x

theorem runeLen_encodeRunes (rs : List Rune) : runeLen (encodeRunes rs) = rs.length := by
  have := runeLen_encodeRunes_append rs []
  rw [List.append_nil] at this
  rw [this]; rfl

theorem runeLen_nil : runeLen [] = 0 := rfl

theorem decodeRunesAux_length_le (n : Nat) : ∀ s : Bytes, (decodeRunesAux n s).length ≤ s.length := by
  induction n with
  | zero => intro s; simp [decodeRunesAux]
  | succ n ih =>
    intro s
    cases s with
    | nil => simp [decodeRunesAux]
    | cons b t =>
      simp only [decodeRunesAux, List.length_cons]
      have := ih (List.drop (max (decodeRune (b :: t)).2 1) (b :: t))
      simp only [List.length_drop, List.length_cons] at this
      omega

theorem runeLen_le_length (s : Bytes) : runeLen s ≤ s.length := decodeRunesAux_length_le _ s

/-! ## one-step characterisation of validity -/

theorem validUtf8_step (s : Bytes) : ValidUtf8 s ↔
    s = [] ∨ (¬ ((decodeRune s).1 = runeError ∧ (decodeRune s).2 ≤ 1) ∧
      ValidUtf8 (s.drop (decodeRune s).2)) := by
  constructor
  · rintro ⟨rs, hrs, rfl⟩
    cases rs with
    | nil => left; rfl
    | cons r rs =>
      right
      have hr := hrs r (List.mem_cons_self ..)
      rw [encodeRunes_cons, decodeRune_encodeRune_append r hr]
      refine ⟨(good_encodeRune r hr (encodeRunes rs)).not_bad, ?_⟩
      simp only [List.drop_left]
      exact ⟨rs, fun x hx => hrs x (List.mem_cons_of_mem _ hx), rfl⟩
  · rintro (rfl | ⟨hv, hd⟩)
    · exact validUtf8_nil
    · have g := good_of_not_bad s hv
      rw [← List.take_append_drop (decodeRune s).2 s, ← g.encode]
      exact validUtf8_append (validUtf8_encodeRune _) hd

/-! ## 12. cutting at a rune boundary -/

theorem validUtf8_drop_rune (s : Bytes) (h : ValidUtf8 s) : ValidUtf8 (s.drop (decodeRune s).2) := by
  rcases (validUtf8_step s).mp h with rfl | ⟨_, hd⟩
  · exact validUtf8_nil
  · exact hd

theorem validUtf8_take_rune (s : Bytes) (h : ValidUtf8 s) : ValidUtf8 (s.take (decodeRune s).2) := by
  rcases (validUtf8_step s).mp h with rfl | ⟨hv, _⟩
  · exact validUtf8_nil
  · rw [← (good_of_not_bad s hv).encode]; exact validUtf8_encodeRune _

/-! ## 11. cutting at an ASCII byte -/

/-- every byte of an encoded rune after the first is ≥ 0x80 -/
theorem encodeRune_shape (r : Nat) : ∃ x tl, encodeRune r = x :: tl ∧ ∀ y ∈ tl, 128 ≤ y.toNat := by
  rw [encodeRune_nat]
  by_cases h1 : r < 0x80
  · rw [if_pos h1]; exact ⟨_, _, rfl, by simp⟩
  by_cases h2 : r < 0x800
  · rw [if_neg h1, if_pos h2]; refine ⟨_, _, rfl, ?_⟩
    intro y hy
    simp only [List.mem_cons, List.not_mem_nil, or_false] at hy
    subst hy; rw [toNat_toUInt8]; omega
  by_cases h3 : (0xD800 ≤ r ∧ r ≤ 0xDFFF) ∨ r > 0x10FFFF
  · rw [if_neg h1, if_neg h2, if_pos h3]; refine ⟨_, _, rfl, ?_⟩
    intro y hy
    simp only [List.mem_cons, List.not_mem_nil, or_false] at hy
    rcases hy with rfl | rfl <;> decide
  by_cases h4 : r < 0x10000
  · rw [if_neg h1, if_neg h2, if_neg h3, if_pos h4]; refine ⟨_, _, rfl, ?_⟩
    intro y hy
    simp only [List.mem_cons, List.not_mem_nil, or_false] at hy
    rcases hy with rfl | rfl <;> rw [toNat_toUInt8] <;> omega
  · rw [if_neg h1, if_neg h2, if_neg h3, if_neg h4]; refine ⟨_, _, rfl, ?_⟩
    intro y hy
    simp only [List.mem_cons, List.not_mem_nil, or_false] at hy
    rcases hy with rfl | rfl | rfl <;> rw [toNat_toUInt8] <;> omega

theorem append_cut {P : UInt8 → Prop} : ∀ (tl rest a : Bytes) (b : UInt8) (t : Bytes),
    (∀ y ∈ tl, P y) → ¬ P b → tl ++ rest = a ++ b :: t → ∃ a', a = tl ++ a' ∧ rest = a' ++ b :: t := by
  intro tl
  induction tl with
  | nil => intro rest a b t _ _ e; exact ⟨a, rfl, e⟩
  | cons y tl ih =>
    intro rest a b t hP hb e
    cases a with
    | nil =>
      simp only [List.cons_append, List.nil_append, List.cons.injEq] at e
      exact absurd (e.1 ▸ hP y (List.mem_cons_self ..)) hb
    | cons z a =>
      simp only [List.cons_append, List.cons.injEq] at e
      obtain ⟨a', rfl, h2⟩ := ih rest a b t (fun x hx => hP x (List.mem_cons_of_mem _ hx)) hb e.2
      exact ⟨a', by rw [e.1]; rfl, h2⟩

theorem validUtf8_of_append_ascii (a : Bytes) (b : UInt8) (t : Bytes) (hb : b < 0x80)
    (h : ValidUtf8 (a ++ b :: t)) : ValidUtf8 a ∧ ValidUtf8 (b :: t) := by
  have hb' : ¬ 128 ≤ b.toNat := by
    rw [UInt8.lt_iff_toNat_lt] at hb
    have : (0x80 : UInt8).toNat = 128 := by decide
    omega
  rcases h with ⟨rs, hrs, e⟩
  induction rs generalizing a with
  | nil =>
    exact absurd (congrArg List.length e) (by simp)
  | cons r rs ih =>
    cases a with
    | nil => exact ⟨validUtf8_nil, ⟨r :: rs, hrs, e⟩⟩
    | cons a0 a =>
      obtain ⟨x, tl, hx, htl⟩ := encodeRune_shape r
      rw [encodeRunes_cons, hx] at e
      simp only [List.cons_append, List.cons.injEq] at e
      obtain ⟨a', rfl, h2⟩ := append_cut (P := fun y => 128 ≤ y.toNat) tl (encodeRunes rs) a b t htl hb' e.2.symm
      have := ih a' (fun y hy => hrs y (List.mem_cons_of_mem _ hy)) h2.symm
      refine ⟨?_, this.2⟩
      have e2 : a0 :: (tl ++ a') = encodeRune r ++ a' := by rw [hx, e.1]; rfl
      rw [e2]
      exact validUtf8_append (validUtf8_encodeRune r) this.1

theorem encodeRune_ascii (b : UInt8) (hb : b < 0x80) : encodeRune b.toNat = [b] := by
  have hb' : b.toNat < 128 := by
    rw [UInt8.lt_iff_toNat_lt] at hb
    have : (0x80 : UInt8).toNat = 128 := by decide
    omega
  exact (Good.one b [] hb').encode

theorem decodeRune_ascii (b : UInt8) (t : Bytes) (hb : b < 0x80) : decodeRune (b :: t) = (b.toNat, 1) := by
  have hb' : b.toNat < 128 := by
    rw [UInt8.lt_iff_toNat_lt] at hb
    have : (0x80 : UInt8).toNat = 128 := by decide
    omega
  exact (Good.one b t hb').decode

theorem validUtf8_cons_ascii (b : UInt8) (t : Bytes) (hb : b < 0x80) : ValidUtf8 (b :: t) ↔ ValidUtf8 t := by
  constructor
  · intro h
    have := validUtf8_drop_rune _ h
    rwa [decodeRune_ascii b t hb] at this
  · intro h
    have := validUtf8_append (validUtf8_encodeRune b.toNat) h
    rwa [encodeRune_ascii b hb] at this

theorem validUtf8_of_all_ascii (s : Bytes) (h : ∀ b ∈ s, b < 0x80) : ValidUtf8 s := by
  induction s with
  | nil => exact validUtf8_nil
  | cons b t ih =>
    exact (validUtf8_cons_ascii b t (h b (List.mem_cons_self ..))).mpr
      (ih (fun x hx => h x (List.mem_cons_of_mem _ hx)))

/-! ## 13. boolean validity checker -/

def validUtf8BAux : Nat → Bytes → Bool
  | _, [] => true
  | 0, _ :: _ => false
  | n+1, s@(_ :: _) =>
    let (r, w) := decodeRune s
    if r == runeError && decide (w ≤ 1) then false else validUtf8BAux n (s.drop w)

def validUtf8B (s : Bytes) : Bool := validUtf8BAux s.length s

theorem validUtf8BAux_iff (n : Nat) : ∀ s : Bytes, s.length ≤ n → (validUtf8BAux n s = true ↔ ValidUtf8 s) := by
  induction n with
  | zero =>
    intro s hs
    have : s = [] := List.eq_nil_of_length_eq_zero (Nat.le_zero.mp hs)
    subst this
    simp [validUtf8BAux, validUtf8_nil]
  | succ n ih =>
    intro s hs
    cases s with
    | nil => simp [validUtf8BAux, validUtf8_nil]
    | cons b t =>
      rw [validUtf8_step (b :: t)]
      simp only [validUtf8BAux]
      by_cases hv : (decodeRune (b :: t)).1 = runeError ∧ (decodeRune (b :: t)).2 ≤ 1
      · simp [hv]
      · have hw := decodeRune_width_pos (b :: t) (by simp)
        have hlen : ((b :: t).drop (decodeRune (b :: t)).2).length ≤ n := by
          simp only [List.length_drop, List.length_cons] at *; omega
        have hc : ((decodeRune (b :: t)).1 == runeError && decide ((decodeRune (b :: t)).2 ≤ 1)) = false := by
          rw [Bool.eq_false_iff]; intro hc
          simp only [Bool.and_eq_true, beq_iff_eq, decide_eq_true_eq] at hc
          exact hv hc
        rw [hc]
        simp only [Bool.false_eq_true, if_false, ih _ hlen]
        simp [hv]

theorem validUtf8B_iff (s : Bytes) : validUtf8B s = true ↔ ValidUtf8 s :=
  validUtf8BAux_iff s.length s (Nat.le_refl _)

instance (s : Bytes) : Decidable (ValidUtf8 s) := decidable_of_iff _ (validUtf8B_iff s)
