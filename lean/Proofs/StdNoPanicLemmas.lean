import Proofs.NoPanic
import Proofs.CompareLemmas
import Proofs.NumLemmas
import Liquid.Std
/-!
# The standard value layer never panics: helper lemmas for `Proofs/StdNoPanic.lean`

`NoPanicRes r` (from `Proofs/NoPanic.lean`) says that `r` is not `Res.panic _`.  This file proves it
for `fmt.Sprint`, `writeObject`, `values.Convert`, the argument conversion of `values.Call` and the
individual filter bodies of `Filters/Num.lean` and `Filters/Str.lean`.
-/

theorem NoPanicRes.of_isPanic {ε α} {r : Res ε α} (h : r.isPanic = false) : NoPanicRes r := by
  cases r <;> first | trivial | simp [Res.isPanic] at h

theorem NoPanicRes.ok {ε α} (a : α) : NoPanicRes (Res.ok a : Res ε α) := trivial
theorem NoPanicRes.err {ε α} (e : ε) : NoPanicRes (Res.err e : Res ε α) := trivial
theorem NoPanicRes.unmodelled {ε α} (w : String) : NoPanicRes (Res.unmodelled w : Res ε α) := trivial

/-- `NoPanicRes.bind` where the continuation only matters on the value actually produced -/
theorem NoPanicRes.bind' {ε α β} {x : Res ε α} {f : α → Res ε β} (hx : NoPanicRes x)
    (hf : ∀ a, x = .ok a → NoPanicRes (f a)) : NoPanicRes (x.bind f) := by
  cases x with
  | ok a => exact hf a rfl
  | err e => trivial
  | panic w => exact hx
  | unmodelled w => trivial

/-! ## `fmt.Sprint` -/

theorem fmtFloatG_noPanic (k : FltKind) (q : Rat) : NoPanicRes (fmtFloatG k q) := by
  unfold fmtFloatG; split <;> trivial

theorem fmtFloatF_noPanic (k : FltKind) (q : Rat) : NoPanicRes (fmtFloatF k q) := by
  unfold fmtFloatF; split <;> trivial

theorem timeString_noPanic (u : Int) : NoPanicRes (timeString u) := by
  unfold timeString; split <;> trivial

theorem timeObjectText_noPanic (u : Int) : NoPanicRes (timeObjectText u) := by
  unfold timeObjectText; split <;> trivial

theorem mapText_noPanic (es : List (GoVal × Bytes)) : NoPanicRes (mapText es) := by
  unfold mapText; split <;> trivial

mutual
theorem sprint_noPanic : ∀ v : GoVal, NoPanicRes (sprint v)
  | .nil => by rw [sprint]; trivial
  | .bool b => by cases b <;> (rw [sprint]; trivial)
  | .int _ _ => by rw [sprint]; trivial
  | .flt k q => by rw [sprint]; exact fmtFloatG_noPanic k q
  | .str _ => by rw [sprint]; trivial
  | .bytes _ => by rw [sprint]; trivial
  | .slice _ xs => by rw [sprint]; exact NoPanicRes.bind (sprintAll_noPanic xs) (fun _ => trivial)
  | .array _ xs => by rw [sprint]; exact NoPanicRes.bind (sprintAll_noPanic xs) (fun _ => trivial)
  | .map _ _ kvs => by rw [sprint]; exact NoPanicRes.bind (sprintKVs_noPanic kvs) (fun _ => mapText_noPanic _)
  | .mapSlice kvs => by rw [sprint]; exact NoPanicRes.bind (sprintItems_noPanic kvs) (fun _ => trivial)
  | .keyedMap kvs => by rw [sprint]; exact NoPanicRes.bind (sprintFields_noPanic kvs) (fun _ => mapText_noPanic _)
  | .range _ _ => by rw [sprint]; trivial
  | .ptr _ => by rw [sprint]; trivial
  | .nilPtr => by rw [sprint]; trivial
  | .drop v => by
    rw [sprint]; split
    · trivial
    · exact NoPanicRes.bind (sprint_noPanic v) (fun _ => trivial)
  | .struct fs => by rw [sprint]; exact NoPanicRes.bind (sprintFields_noPanic fs) (fun _ => trivial)
  | .time u => by rw [sprint]; exact timeString_noPanic u
theorem sprintAll_noPanic : ∀ xs : List GoVal, NoPanicRes (sprintAll xs)
  | [] => by rw [sprintAll]; trivial
  | x :: xs => by
    rw [sprintAll]
    exact NoPanicRes.bind (sprint_noPanic x) (fun _ => NoPanicRes.bind (sprintAll_noPanic xs) (fun _ => trivial))
theorem sprintKVs_noPanic : ∀ kvs : List (GoVal × GoVal), NoPanicRes (sprintKVs kvs)
  | [] => by rw [sprintKVs]; trivial
  | (k, v) :: r => by
    rw [sprintKVs]
    exact NoPanicRes.bind (sprint_noPanic k) (fun _ => NoPanicRes.bind (sprint_noPanic v) (fun _ =>
      NoPanicRes.bind (sprintKVs_noPanic r) (fun _ => trivial)))
theorem sprintItems_noPanic : ∀ kvs : List (GoVal × GoVal), NoPanicRes (sprintItems kvs)
  | [] => by rw [sprintItems]; trivial
  | (k, v) :: r => by
    rw [sprintItems]
    exact NoPanicRes.bind (sprint_noPanic k) (fun _ => NoPanicRes.bind (sprint_noPanic v) (fun _ =>
      NoPanicRes.bind (sprintItems_noPanic r) (fun _ => trivial)))
theorem sprintFields_noPanic : ∀ fs : List (Bytes × GoVal), NoPanicRes (sprintFields fs)
  | [] => by rw [sprintFields]; trivial
  | (k, v) :: r => by
    rw [sprintFields]
    exact NoPanicRes.bind (sprint_noPanic v) (fun _ => NoPanicRes.bind (sprintFields_noPanic r) (fun _ => trivial))
end

/-! ## `render.writeObject` and the chunks of `stdOut` -/

/-- the element step of `writeObjects` is `writeObject` (`ToLiquid`, one level, then `writeObjectL`) -/
theorem writeObjects_cons (x : GoVal) (xs : List GoVal) :
    writeObjects (x :: xs) = (writeObjectL x.toLiquid).bind fun a => (writeObjects xs).bind fun b => .ok (a ++ b) := by
  rw [writeObjectL_toLiquid]
  cases x with
  | ptr w => cases w <;> simp only [writeObjects, writeObjectL_ptr_drop]
  | _ => simp only [writeObjects, writeObjectL_drop]

theorem writeChunksList_cons (x : GoVal) (xs : List GoVal) :
    writeChunksList (x :: xs) = (writeChunksL x.toLiquid).bind fun a => (writeChunksList xs).bind fun b => .ok (a ++ b) := by
  rw [writeChunksL_toLiquid]
  cases x with
  | ptr w => cases w <;> simp only [writeChunksList, writeChunksL_ptr_drop]
  | _ => simp only [writeChunksList, writeChunksL_drop]

mutual
theorem writeObjectL_noPanic : ∀ v : GoVal, NoPanicRes (writeObjectL v)
  | .nil => by rw [writeObjectL]; trivial
  | .bool _ => by simp only [writeObjectL]; exact sprint_noPanic _
  | .int _ _ => by simp only [writeObjectL]; exact sprint_noPanic _
  | .flt k q => by rw [writeObjectL]; split; exact fmtFloatF_noPanic k q; exact fmtFloatG_noPanic k q
  | .str _ => by simp only [writeObjectL]; exact sprint_noPanic _
  | .bytes _ => by rw [writeObjectL]; trivial
  | .slice _ xs => by rw [writeObjectL]; exact writeObjects_noPanic xs
  | .array _ xs => by rw [writeObjectL]; exact writeObjects_noPanic xs
  | .map _ _ _ => by simp only [writeObjectL]; exact sprint_noPanic _
  | .mapSlice kvs => by rw [writeObjectL]; exact NoPanicRes.bind (sprintItems_noPanic _) (fun _ => trivial)
  | .keyedMap _ => by simp only [writeObjectL]; exact sprint_noPanic _
  | .range _ _ => by simp only [writeObjectL]; exact sprint_noPanic _
  | .ptr (.drop w) => by rw [writeObjectL_ptr_drop]; exact writeObjectL_noPanic w
  | .ptr .nil | .ptr (.bool _) | .ptr (.int _ _) | .ptr (.flt _ _) | .ptr (.str _) | .ptr (.bytes _)
  | .ptr (.slice _ _) | .ptr (.array _ _) | .ptr (.map _ _ _) | .ptr (.mapSlice _) | .ptr (.keyedMap _)
  | .ptr (.range _ _) | .ptr (.ptr _) | .ptr .nilPtr | .ptr (.struct _) | .ptr (.time _) => by
    simp only [writeObjectL] <;> first | trivial | exact sprint_noPanic _
  | .nilPtr => by rw [writeObjectL]; trivial
  | .drop w => by rw [writeObjectL_drop]; exact writeObjectL_noPanic w
  | .struct _ => by simp only [writeObjectL]; exact sprint_noPanic _
  | .time u => by rw [writeObjectL]; exact timeObjectText_noPanic u
termination_by v => sizeOf v
decreasing_by all_goals (simp_wf; try omega)
theorem writeObjects_noPanic : ∀ xs : List GoVal, NoPanicRes (writeObjects xs)
  | [] => by rw [writeObjects]; trivial
  | x :: xs => by
    rw [writeObjects_cons]
    have := sizeOf_toLiquid_le x
    exact NoPanicRes.bind (writeObjectL_noPanic x.toLiquid) (fun _ =>
      NoPanicRes.bind (writeObjects_noPanic xs) (fun _ => trivial))
termination_by xs => sizeOf xs
decreasing_by all_goals simp_wf; omega
end

/-- `render/render.go:writeObject` never panics -/
theorem writeObject_noPanic (v : GoVal) : NoPanicRes (writeObject v) := writeObjectL_noPanic _

mutual
theorem writeChunksL_noPanic : ∀ v : GoVal, NoPanicRes (writeChunksL v)
  | .slice _ xs => by rw [writeChunksL]; exact writeChunksList_noPanic xs
  | .array _ xs => by rw [writeChunksL]; exact writeChunksList_noPanic xs
  | .nil => by rw [writeChunksL]; trivial
  | .mapSlice kvs => by rw [writeChunksL]; exact sprintItems_noPanic _
  | .drop w => by rw [writeChunksL_drop]; exact writeChunksL_noPanic w
  | .ptr (.drop w) => by rw [writeChunksL_ptr_drop]; exact writeChunksL_noPanic w
  | .ptr .nil | .ptr (.bool _) | .ptr (.int _ _) | .ptr (.flt _ _) | .ptr (.str _) | .ptr (.bytes _)
  | .ptr (.slice _ _) | .ptr (.array _ _) | .ptr (.map _ _ _) | .ptr (.mapSlice _) | .ptr (.keyedMap _)
  | .ptr (.range _ _) | .ptr (.ptr _) | .ptr .nilPtr | .ptr (.struct _) | .ptr (.time _)
  | .bool _ | .int _ _ | .flt _ _ | .str _ | .bytes _ | .map _ _ _ | .keyedMap _ | .range _ _
  | .nilPtr | .struct _ | .time _ => by
    simp only [writeChunksL]; exact NoPanicRes.bind (writeObjectL_noPanic _) (fun _ => trivial)
termination_by v => sizeOf v
decreasing_by all_goals (simp_wf; try omega)
theorem writeChunksList_noPanic : ∀ xs : List GoVal, NoPanicRes (writeChunksList xs)
  | [] => by rw [writeChunksList]; trivial
  | x :: xs => by
    rw [writeChunksList_cons]
    have := sizeOf_toLiquid_le x
    exact NoPanicRes.bind (writeChunksL_noPanic x.toLiquid) (fun _ =>
      NoPanicRes.bind (writeChunksList_noPanic xs) (fun _ => trivial))
termination_by xs => sizeOf xs
decreasing_by all_goals simp_wf; omega
end

/-! ## `values.Convert` -/

theorem f64Round_noPanic (q : Rat) (nz : Bool) : NoPanicRes (f64Round q nz) := by
  unfold f64Round; split
  · trivial
  · split <;> trivial

theorem floatToInt64_noPanic (q : Rat) : NoPanicRes (floatToInt64 q) := by
  unfold floatToInt64; simp only []; split <;> trivial

theorem parseFloatStr_noPanic (s : Bytes) : NoPanicRes (parseFloatStr s) := by
  unfold parseFloatStr; split
  · trivial
  · trivial
  · split
    · trivial
    · split <;> trivial

theorem convAny_noPanic (v : GoVal) : NoPanicRes (convAny v) := by
  unfold convAny; split <;> trivial

/-- `values.Convert` never panics (a failed conversion is the *error* `TypeError`; the panic of
`MustConvert` is the recovered `err typeErr` of the call layer) -/
theorem convert_noPanic (v : GoVal) (t : ParamTy) : NoPanicRes (convert v t) := by
  unfold convert
  cases t <;> simp only []
  · exact convAny_noPanic v
  · split <;> trivial
  · split
    · trivial
    · exact NoPanicRes.bind (floatToInt64_noPanic _) (fun _ => trivial)
    · trivial
    · split <;> trivial
    · trivial
  · split
    · exact NoPanicRes.bind (f64Round_noPanic _ _) (fun _ => trivial)
    · trivial
    · exact NoPanicRes.bind (parseFloatStr_noPanic _) (fun _ => trivial)
    · trivial
  · split
    · trivial
    · exact NoPanicRes.bind (timeString_noPanic _) (fun _ => trivial)
    · refine NoPanicRes.bind ?_ (fun _ => trivial)
      split
      · exact fmtFloatF_noPanic _ _
      · exact fmtFloatG_noPanic _ _
    · exact NoPanicRes.bind (sprint_noPanic _) (fun _ => trivial)
  · split
    · trivial
    · split
      · trivial
      · split <;> trivial
    all_goals first
      | trivial
      | exact NoPanicRes.bind (NoPanicRes.of_isPanic (MapOrder.sortedMapEntries_isPanic _)) (fun _ => trivial)
  · split
    · trivial
    · split <;> trivial
    · trivial

/-! ### the result of a successful conversion has the target type -/

/-- `v` is a Go value of the parameter type `t` (`any` admits everything, `nil` included) -/
def HasTy : ParamTy → GoVal → Prop
  | .any, _ => True
  | .bool, v => ∃ b, v = .bool b
  | .int, v => ∃ n, v = .int .int n
  | .f64, v => ∃ q, v = .flt .f64 q
  | .str, v => ∃ s, v = .str s
  | .anys, v => ∃ xs, v = .slice .any xs
  | .time, v => ∃ u, v = .time u

theorem hasTy_zero (t : ParamTy) : HasTy t t.zero := by
  cases t <;> simp [HasTy, ParamTy.zero]

theorem Res.bind_eq_ok {ε α β} {x : Res ε α} {f : α → Res ε β} {b : β} (h : x.bind f = .ok b) :
    ∃ a, x = .ok a ∧ f a = .ok b := by
  cases x <;> simp [Res.bind] at h
  exact ⟨_, rfl, h⟩

theorem convert_hasTy {v : GoVal} {t : ParamTy} {c : GoVal} (h : convert v t = .ok c) : HasTy t c := by
  unfold convert at h
  cases t <;> simp only [] at h
  · trivial
  · split at h <;> cases h <;> exact ⟨_, rfl⟩
  · split at h
    · cases h; exact ⟨_, rfl⟩
    · obtain ⟨n, _, h⟩ := Res.bind_eq_ok h; cases h; exact ⟨_, rfl⟩
    · cases h; exact ⟨_, rfl⟩
    · split at h <;> cases h; exact ⟨_, rfl⟩
    · cases h
  · split at h
    · obtain ⟨n, _, h⟩ := Res.bind_eq_ok h; cases h; exact ⟨_, rfl⟩
    · cases h; exact ⟨_, rfl⟩
    · obtain ⟨n, _, h⟩ := Res.bind_eq_ok h; cases h; exact ⟨_, rfl⟩
    · cases h
  · split at h
    · cases h; exact ⟨_, rfl⟩
    · obtain ⟨n, _, h⟩ := Res.bind_eq_ok h; cases h; exact ⟨_, rfl⟩
    · obtain ⟨n, _, h⟩ := Res.bind_eq_ok h; cases h; exact ⟨_, rfl⟩
    · obtain ⟨n, _, h⟩ := Res.bind_eq_ok h; cases h; exact ⟨_, rfl⟩
  · split at h
    · cases h; exact ⟨_, rfl⟩
    · split at h
      · cases h
      · split at h <;> cases h; exact ⟨_, rfl⟩
    all_goals first
      | (cases h; done)
      | (cases h; exact ⟨_, rfl⟩)
      | (obtain ⟨n, _, h⟩ := Res.bind_eq_ok h; cases h; exact ⟨_, rfl⟩)
  · split at h
    · cases h; exact ⟨_, rfl⟩
    · split at h <;> cases h; exact ⟨_, rfl⟩
    · cases h

/-! ## `values.Call`: the converted arguments are well typed -/

/-- a converted argument that cannot make a filter body panic when it calls it -/
def ArgNP : Arg → Prop
  | .fn (some r) => NoPanicRes r
  | _ => True

/-- a converted argument matches its parameter: a plain parameter holds a value of the parameter's
type; the constant of a default-function parameter does not panic and yields that type -/
def ArgOK : Param → Arg → Prop
  | .val t, .val v => HasTy t v
  | .fn _, .fn none => True
  | .fn t, .fn (some r) => NoPanicRes r ∧ ∀ v, r = .ok v → HasTy t v
  | _, _ => False

/-- one well-typed argument per parameter: what `values.Call` hands to the Go function -/
inductive ArgsOK : List Param → List Arg → Prop where
  | nil : ArgsOK [] []
  | cons {p a ps as} : ArgOK p a → ArgsOK ps as → ArgsOK (p :: ps) (a :: as)

theorem convertArgs_val_nil (t : ParamTy) (ps : List Param) (as : List GoVal) :
    convertArgs (.val t :: ps) (.nil :: as) = (convertArgs ps as).bind fun r => .ok (.val t.zero :: r) := by
  simp [convertArgs]

theorem ArgOK.np {p : Param} {a : Arg} (h : ArgOK p a) : ArgNP a := by
  cases p <;> cases a with
  | val v => first | trivial | exact h.elim
  | fn c => cases c <;> first | trivial | exact h.1 | exact h.elim

theorem ArgsOK.np {ps : List Param} {args : List Arg} (h : ArgsOK ps args) : ∀ a ∈ args, ArgNP a := by
  induction h with
  | nil => intro a ha; cases ha
  | cons h1 _ ih =>
    intro a ha
    rcases List.mem_cons.mp ha with rfl | ha
    · exact h1.np
    · exact ih a ha

theorem convertArgs_noPanic : ∀ (ps : List Param) (as : List GoVal), NoPanicRes (convertArgs ps as)
  | [], _ => by rw [convertArgs]; trivial
  | .fn _ :: ps, [] => by
    rw [convertArgs]; exact NoPanicRes.bind (convertArgs_noPanic ps []) (fun _ => trivial)
  | .val _ :: ps, [] => by
    rw [convertArgs]; exact NoPanicRes.bind (convertArgs_noPanic ps []) (fun _ => trivial)
  | .fn _ :: ps, a :: as => by
    rw [convertArgs]; exact NoPanicRes.bind (convertArgs_noPanic ps as) (fun _ => trivial)
  | .val t :: ps, a :: as => by
    by_cases ha : a = .nil
    · rw [ha, convertArgs_val_nil]
      exact NoPanicRes.bind (convertArgs_noPanic ps as) (fun _ => trivial)
    · rw [convertArgs_val_cons ha]
      exact NoPanicRes.bind (convert_noPanic a t) (fun _ => NoPanicRes.bind (convertArgs_noPanic ps as) (fun _ => trivial))

theorem convertArgs_ok : ∀ (ps : List Param) (as : List GoVal) (cargs : List Arg),
    convertArgs ps as = .ok cargs → ArgsOK ps cargs
  | [], _, cargs, h => by rw [convertArgs] at h; cases h; exact .nil
  | .fn _ :: ps, [], cargs, h => by
    rw [convertArgs] at h
    obtain ⟨r, hr, h⟩ := Res.bind_eq_ok h
    cases h
    exact .cons trivial (convertArgs_ok ps [] r hr)
  | .val t :: ps, [], cargs, h => by
    rw [convertArgs] at h
    obtain ⟨r, hr, h⟩ := Res.bind_eq_ok h
    cases h
    exact .cons (hasTy_zero t) (convertArgs_ok ps [] r hr)
  | .fn t :: ps, a :: as, cargs, h => by
    rw [convertArgs] at h
    obtain ⟨r, hr, h⟩ := Res.bind_eq_ok h
    cases h
    exact .cons ⟨convert_noPanic a t, fun v hv => convert_hasTy hv⟩ (convertArgs_ok ps as r hr)
  | .val t :: ps, a :: as, cargs, h => by
    by_cases ha : a = .nil
    · rw [ha, convertArgs_val_nil] at h
      obtain ⟨r, hr, h⟩ := Res.bind_eq_ok h
      cases h
      exact .cons (hasTy_zero t) (convertArgs_ok ps as r hr)
    · rw [convertArgs_val_cons ha] at h
      obtain ⟨c, hc, h⟩ := Res.bind_eq_ok h
      obtain ⟨r, hr, h⟩ := Res.bind_eq_ok h
      cases h
      exact .cons (convert_hasTy hc) (convertArgs_ok ps as r hr)

/-! ## Filter tables -/

/-- Every body of the table, called the way `values.Call` calls it — with one well-typed converted
argument per parameter of the signature registered under its name — does not panic. -/
def ImplsNoPanic (table : List (Bytes × FilterImpl)) : Prop :=
  ∀ name f, (name, f) ∈ table → ∀ sg, lookupSig name = some sg →
    ∀ args, ArgsOK sg.params args → NoPanicRes (f args)

theorem ImplsNoPanic.nil : ImplsNoPanic [] := fun _ _ h => by cases h

theorem ImplsNoPanic.append {t₁ t₂ : List (Bytes × FilterImpl)} (h₁ : ImplsNoPanic t₁) (h₂ : ImplsNoPanic t₂) :
    ImplsNoPanic (t₁ ++ t₂) := by
  intro name f hm
  rcases List.mem_append.mp hm with hm | hm
  · exact h₁ name f hm
  · exact h₂ name f hm

theorem ImplsNoPanic.cons {name : Bytes} {f : FilterImpl} {t : List (Bytes × FilterImpl)}
    (h : ∀ sg, lookupSig name = some sg → ∀ args, ArgsOK sg.params args → NoPanicRes (f args))
    (ht : ImplsNoPanic t) : ImplsNoPanic ((name, f) :: t) := by
  intro n g hm
  rcases List.mem_cons.mp hm with heq | hm
  · cases heq; exact h
  · exact ht n g hm

theorem lookupImpl_mem {table : List (Bytes × FilterImpl)} {name : Bytes} {f : FilterImpl}
    (h : lookupImpl table name = some f) : (name, f) ∈ table := by
  unfold lookupImpl at h
  cases hf : table.find? (·.1 == name) with
  | none => simp [hf] at h
  | some p =>
    simp [hf] at h
    have hm := List.mem_of_find?_eq_some hf
    have hp := List.find?_some hf
    simp at hp
    subst h
    rw [← hp]
    exact hm

/-- `expressions.ApplyFilter` + `values.Call` never panic when the bodies of the table do not -/
theorem applyFilter_noPanic {table : List (Bytes × FilterImpl)} (ht : ImplsNoPanic table)
    (name : Bytes) (recv : GoVal) (args : List GoVal) :
    NoPanicRes (applyFilter (lookupImpl table) name recv args) := by
  unfold applyFilter
  split
  · trivial
  · next sg hs =>
    split
    · trivial
    · cases hc : convertArgs sg.params (recv :: args) with
      | ok cargs =>
        simp only [Res.bind]
        split
        · trivial
        · next f hf =>
          refine NoPanicRes.bind (ht name f (lookupImpl_mem hf) sg hs cargs (convertArgs_ok _ _ _ hc)) (fun r => ?_)
          cases r <;> trivial
      | err e => trivial
      | unmodelled w => trivial
      | panic w =>
        have := convertArgs_noPanic sg.params (recv :: args)
        rw [hc] at this
        exact this.elim

theorem ArgsOK.nil_inv {args : List Arg} (h : ArgsOK [] args) : args = [] := by cases h; rfl

theorem ArgsOK.cons_inv {p : Param} {ps : List Param} {args : List Arg} (h : ArgsOK (p :: ps) args) :
    ∃ a as, args = a :: as ∧ ArgOK p a ∧ ArgsOK ps as := by
  cases h with
  | cons h1 h2 => exact ⟨_, _, rfl, h1, h2⟩

theorem ArgOK.val_inv {t : ParamTy} {a : Arg} (h : ArgOK (.val t) a) : ∃ v, a = .val v ∧ HasTy t v := by
  cases a with
  | val v => exact ⟨v, rfl, h⟩
  | fn c => exact h.elim

theorem ArgOK.fn_inv {t : ParamTy} {a : Arg} (h : ArgOK (.fn t) a) :
    a = .fn none ∨ ∃ r, a = .fn (some r) ∧ NoPanicRes r ∧ ∀ v, r = .ok v → HasTy t v := by
  cases a with
  | val v => exact h.elim
  | fn c =>
    cases c with
    | none => exact Or.inl rfl
    | some r => exact Or.inr ⟨r, rfl, h.1, h.2⟩

/-- the Go call `f(dflt)` of a well-typed default-function argument does not panic and returns the
parameter's type -/
theorem ArgOK.call {t : ParamTy} {a : Arg} (h : ArgOK (.fn t) a) {dflt : GoVal} (hd : HasTy t dflt) :
    NoPanicRes (a.call dflt) ∧ ∀ v, a.call dflt = .ok v → HasTy t v := by
  rcases h.fn_inv with rfl | ⟨r, rfl, h1, h2⟩
  · exact ⟨trivial, fun v hv => by cases hv; exact hd⟩
  · exact ⟨h1, h2⟩

/-- a body is panic-free under the registered signature when it is under the signature's parameter list -/
theorem implNP_of_sig {name : Bytes} {f : FilterImpl} {ps : List Param}
    (hs : (lookupSig name).map (·.params) = some ps) (h : ∀ args, ArgsOK ps args → NoPanicRes (f args)) :
    ∀ sg, lookupSig name = some sg → ∀ args, ArgsOK sg.params args → NoPanicRes (f args) := by
  intro sg hsg args ha
  rw [hsg] at hs
  simp at hs
  rw [hs] at ha
  exact h args ha

/-- the adapter for bodies over plain values only propagates the body's result and the lazily
converted constants -/
theorem ofEager_noPanic {returnsErr : Bool} {f : List GoVal → Res Cause GoVal} {args : List Arg}
    (ha : ∀ a ∈ args, ArgNP a)
    (hf : ∀ vs, FilterImpl.ofEager.collect args = .ok vs → NoPanicRes (f vs)) :
    NoPanicRes (FilterImpl.ofEager returnsErr f args) := by
  have hc : ∀ as : List Arg, (∀ a ∈ as, ArgNP a) → NoPanicRes (FilterImpl.ofEager.collect as) := by
    intro as
    induction as with
    | nil => intro _; trivial
    | cons a as ih =>
      intro h
      have ih' := ih (fun a ha => h a (List.mem_cons_of_mem _ ha))
      cases a with
      | val v => rw [FilterImpl.ofEager.collect]; exact NoPanicRes.bind ih' (fun _ => trivial)
      | fn c =>
        cases c with
        | none => rw [FilterImpl.ofEager.collect]; exact ih'
        | some r =>
          rw [FilterImpl.ofEager.collect]
          have hr : NoPanicRes r := h (.fn (some r)) List.mem_cons_self
          exact NoPanicRes.bind hr (fun _ => NoPanicRes.bind ih' (fun _ => trivial))
  unfold FilterImpl.ofEager
  cases hcol : FilterImpl.ofEager.collect args with
  | ok vs =>
    simp only [Res.bind]
    have := hf vs hcol
    cases hr : f vs with
    | ok v => trivial
    | err c => simp only []; split <;> trivial
    | unmodelled w => trivial
    | panic w => rw [hr] at this; exact this.elim
  | err e => trivial
  | unmodelled w => trivial
  | panic w => have := hc args ha; rw [hcol] at this; exact this.elim

/-! ## The bodies of `Filters/Num.lean`

`Num.badArgs` (a call with arguments of the wrong Go type: `reflect.Value.Call` panics) is the only
`.panic` of the file; it is unreachable from `values.Call`, which converts every argument to the
parameter type first. -/

namespace Num

theorem fltResult_noPanic (q : Rat) (nz : Bool) : NoPanicRes (fltResult q nz) :=
  NoPanicRes.bind (f64Round_noPanic q nz) (fun _ => trivial)

theorem intResult_noPanic (n : Int) : NoPanicRes (intResult n) := by
  unfold intResult; split <;> trivial

theorem divInt_noPanic (a : Rat) (q : Int) : NoPanicRes (divInt a q) := by
  unfold divInt; split
  · trivial
  · exact NoPanicRes.bind (floatToInt64_noPanic a) (fun _ => trivial)

theorem divFloat_noPanic (a q : Rat) : NoPanicRes (divFloat a q) := by
  unfold divFloat; split
  · trivial
  · exact fltResult_noPanic _ _

theorem pow10Go_noPanic (n : Int) : NoPanicRes (pow10Go n) := by
  unfold pow10Go
  simp only []
  split
  · trivial
  · split
    · split
      · exact f64Round_noPanic _ _
      · trivial
    · split
      · split
        · exact f64Round_noPanic _ _
        · trivial
      · trivial

theorem roundTo_noPanic (n : Rat) (p : Int) : NoPanicRes (roundTo n p) := by
  unfold roundTo
  refine NoPanicRes.bind (pow10Go_noPanic p) (fun e => ?_)
  split
  · trivial
  · exact NoPanicRes.bind (f64Round_noPanic _ _) (fun _ => NoPanicRes.bind (f64Round_noPanic _ _) (fun _ =>
      fltResult_noPanic _ _))

/-- the shape of the arguments of a unary `float64` filter -/
theorem args_f64 {args : List Arg} (h : ArgsOK [.val .f64] args) : ∃ a, args = [.val (.flt .f64 a)] := by
  obtain ⟨x, xs, rfl, h1, h2⟩ := h.cons_inv
  cases h2.nil_inv
  obtain ⟨v, rfl, q, rfl⟩ := h1.val_inv
  exact ⟨q, rfl⟩

theorem args_f64_f64 {args : List Arg} (h : ArgsOK [.val .f64, .val .f64] args) :
    ∃ a b, args = [.val (.flt .f64 a), .val (.flt .f64 b)] := by
  obtain ⟨x, xs, rfl, h1, h2⟩ := h.cons_inv
  obtain ⟨b, rfl⟩ := args_f64 h2
  obtain ⟨v, rfl, q, rfl⟩ := h1.val_inv
  exact ⟨q, b, rfl⟩

theorem abs_noPanic (args : List Arg) (h : ArgsOK [.val .f64] args) : NoPanicRes (abs args) := by
  obtain ⟨a, rfl⟩ := args_f64 h; rw [abs]; trivial
theorem ceil_noPanic (args : List Arg) (h : ArgsOK [.val .f64] args) : NoPanicRes (ceil args) := by
  obtain ⟨a, rfl⟩ := args_f64 h; rw [ceil]; exact intResult_noPanic _
theorem floor_noPanic (args : List Arg) (h : ArgsOK [.val .f64] args) : NoPanicRes (floor args) := by
  obtain ⟨a, rfl⟩ := args_f64 h; rw [floor]; exact intResult_noPanic _
theorem plus_noPanic (args : List Arg) (h : ArgsOK [.val .f64, .val .f64] args) : NoPanicRes (plus args) := by
  obtain ⟨a, b, rfl⟩ := args_f64_f64 h; rw [plus]; exact fltResult_noPanic _ _
theorem minus_noPanic (args : List Arg) (h : ArgsOK [.val .f64, .val .f64] args) : NoPanicRes (minus args) := by
  obtain ⟨a, b, rfl⟩ := args_f64_f64 h; rw [minus]; exact fltResult_noPanic _ _
theorem times_noPanic (args : List Arg) (h : ArgsOK [.val .f64, .val .f64] args) : NoPanicRes (times args) := by
  obtain ⟨a, b, rfl⟩ := args_f64_f64 h; rw [times]; exact fltResult_noPanic _ _
theorem modulo_noPanic (args : List Arg) (h : ArgsOK [.val .f64, .val .f64] args) : NoPanicRes (modulo args) := by
  obtain ⟨a, b, rfl⟩ := args_f64_f64 h
  rw [modulo]
  split
  · trivial
  · simp only []
    split
    · trivial
    · split <;> trivial

theorem dividedBy_noPanic (args : List Arg) (h : ArgsOK [.val .f64, .val .any] args) : NoPanicRes (dividedBy args) := by
  obtain ⟨x, xs, rfl, h1, h2⟩ := h.cons_inv
  obtain ⟨y, ys, rfl, h3, h4⟩ := h2.cons_inv
  cases h4.nil_inv
  obtain ⟨v, rfl, q, rfl⟩ := h1.val_inv
  obtain ⟨b, rfl, _⟩ := h3.val_inv
  simp only [dividedBy]
  split
  · exact divInt_noPanic _ _
  · exact divFloat_noPanic _ _
  · trivial

theorem round_noPanic (args : List Arg) (h : ArgsOK [.val .f64, .fn .int] args) : NoPanicRes (round args) := by
  obtain ⟨x, xs, rfl, h1, h2⟩ := h.cons_inv
  obtain ⟨pl, ys, rfl, h3, h4⟩ := h2.cons_inv
  cases h4.nil_inv
  obtain ⟨v, rfl, q, rfl⟩ := h1.val_inv
  rw [round]
  have hc := h3.call (dflt := .int .int 0) ⟨0, rfl⟩
  cases hr : pl.call (.int .int 0) with
  | ok v =>
    obtain ⟨p, rfl⟩ := hc.2 v hr
    exact roundTo_noPanic _ _
  | err e => trivial
  | unmodelled w => trivial
  | panic w => rw [hr] at hc; exact hc.1.elim

theorem default_noPanic (args : List Arg) (h : ArgsOK [.val .any, .val .any] args) : NoPanicRes (default args) := by
  obtain ⟨x, xs, rfl, h1, h2⟩ := h.cons_inv
  obtain ⟨y, ys, rfl, h3, h4⟩ := h2.cons_inv
  cases h4.nil_inv
  obtain ⟨v, rfl, _⟩ := h1.val_inv
  obtain ⟨d, rfl, _⟩ := h3.val_inv
  simp only [Num.default]; trivial

theorem size_noPanic (args : List Arg) (h : ArgsOK [.val .any] args) : NoPanicRes (size args) := by
  obtain ⟨x, xs, rfl, h1, h2⟩ := h.cons_inv
  cases h2.nil_inv
  obtain ⟨v, rfl, _⟩ := h1.val_inv
  rw [size]
  split <;> trivial

end Num

/-! ## The bodies of `Filters/Str.lean` (no `.panic` occurs in that file) and the glue of `StrGlue.lean` -/

theorem List.lookup_mem {α β} [BEq α] {l : List (α × β)} {k : α} {v : β} (h : l.lookup k = some v) :
    ∃ k', (k', v) ∈ l := by
  induction l with
  | nil => simp [List.lookup] at h
  | cons p l ih =>
    obtain ⟨k', v'⟩ := p
    simp only [List.lookup] at h
    split at h
    · cases h; exact ⟨k', List.mem_cons_self⟩
    · obtain ⟨k'', hk⟩ := ih h
      exact ⟨k'', List.mem_cons_of_mem _ hk⟩

namespace StrF

theorem optToRes_noPanic (w : String) (o : Option Bytes) : NoPanicRes (optToRes w o) := by
  cases o <;> trivial

theorem str1_noPanic (f : Bytes → Bytes → Bytes) (vs : List GoVal) : NoPanicRes (str1 f vs) := by
  unfold str1; split <;> trivial

theorem str0_noPanic {f : Bytes → Res Cause GoVal} (hf : ∀ s, NoPanicRes (f s)) (vs : List GoVal) :
    NoPanicRes (str0 f vs) := by
  unfold str0; split
  · exact hf _
  · trivial
  · trivial

theorem str0u_noPanic {f : Bytes → Res Cause GoVal} (hf : ∀ s, NoPanicRes (f s)) (vs : List GoVal) :
    NoPanicRes (str0u f vs) := by
  unfold str0u; split
  · exact hf _
  · exact hf _
  · trivial
  · trivial

theorem replaceWith_noPanic (f : Bytes → Bytes → Bytes → Bytes) (vs : List GoVal) : NoPanicRes (replaceWith f vs) := by
  unfold replaceWith; split <;> trivial

theorem sliceF_noPanic (vs : List GoVal) : NoPanicRes (sliceF vs) := by
  unfold sliceF; split <;> trivial

theorem splitF_noPanic (vs : List GoVal) : NoPanicRes (splitF vs) := by
  unfold splitF; split <;> trivial

theorem truncWith_noPanic (f : Bytes → Int → Bytes → Bytes) (d : Int) (vs : List GoVal) :
    NoPanicRes (truncWith f d vs) := by
  unfold truncWith; split <;> trivial

theorem sizeF_noPanic (vs : List GoVal) : NoPanicRes (sizeF vs) := by
  unfold sizeF; split <;> trivial

theorem urlDecodeF_noPanic (vs : List GoVal) : NoPanicRes (urlDecodeF vs) := by
  apply str0_noPanic; intro s; split <;> trivial

/-- every entry of the table of string filter bodies is panic-free, on arguments of any shape -/
theorem table_noPanic : ∀ p ∈ table, ∀ vs, NoPanicRes (p.2 vs) := by
  intro p hp vs
  simp only [table, List.mem_cons, List.not_mem_nil, or_false] at hp
  rcases hp with rfl | rfl | rfl | rfl | rfl | rfl | rfl | rfl | rfl | rfl | rfl | rfl | rfl | rfl | rfl | rfl |
    rfl | rfl | rfl | rfl | rfl | rfl | rfl | rfl
  · exact str1_noPanic _ vs
  · exact str1_noPanic _ vs
  · apply str0u_noPanic; intro _; exact optToRes_noPanic _ _
  · apply str0u_noPanic; intro _; exact optToRes_noPanic _ _
  · apply str0u_noPanic; intro _; exact optToRes_noPanic _ _
  · apply str0_noPanic; intro _; trivial
  · apply str0u_noPanic; intro _; exact optToRes_noPanic _ _
  · apply str0_noPanic; intro _; trivial
  · exact str1_noPanic _ vs
  · exact str1_noPanic _ vs
  · exact replaceWith_noPanic _ vs
  · exact replaceWith_noPanic _ vs
  · exact sliceF_noPanic vs
  · exact splitF_noPanic vs
  · apply str0_noPanic; intro _; trivial
  · apply str0_noPanic; intro _; trivial
  · apply str0_noPanic; intro _; trivial
  · apply str0_noPanic; intro _; trivial
  · apply str0_noPanic; intro _; trivial
  · exact truncWith_noPanic _ _ vs
  · exact truncWith_noPanic _ _ vs
  · apply str0_noPanic; intro _; trivial
  · exact urlDecodeF_noPanic vs
  · exact sizeF_noPanic vs

/-- the string filters by name: no body panics, whatever the arguments -/
theorem apply_noPanic (name : String) (vs : List GoVal) : NoPanicRes (apply name vs) := by
  unfold apply
  split
  · next f hf =>
    obtain ⟨k, hk⟩ := List.lookup_mem hf
    exact table_noPanic (k, f) hk vs
  · trivial

end StrF

namespace StrGlue

theorem collect_noPanic : ∀ args : List Arg, (∀ a ∈ args, ArgNP a) → NoPanicRes (collect args)
  | [], _ => trivial
  | .val v :: rest, h => by
    rw [collect]
    exact NoPanicRes.bind (collect_noPanic rest (fun a ha => h a (List.mem_cons_of_mem _ ha))) (fun _ => trivial)
  | .fn (some r) :: rest, h => by
    rw [collect]
    have hr : NoPanicRes r := h (.fn (some r)) List.mem_cons_self
    exact NoPanicRes.bind hr (fun _ =>
      NoPanicRes.bind (collect_noPanic rest (fun a ha => h a (List.mem_cons_of_mem _ ha))) (fun _ => trivial))
  | .fn none :: rest, _ => by
    rw [collect]; split <;> trivial

/-- a string filter called through the glue: panic-free as soon as the (lazily converted) constants
of its default-function arguments are -/
theorem impl_noPanic (name : String) (args : List Arg) (h : ∀ a ∈ args, ArgNP a) : NoPanicRes (impl name args) := by
  unfold impl
  split
  · trivial
  refine NoPanicRes.bind (collect_noPanic args h) (fun o => ?_)
  cases o with
  | none => trivial
  | some vs =>
    simp only []
    have := StrF.apply_noPanic name vs
    cases hr : StrF.apply name vs with
    | ok v => trivial
    | err c => trivial
    | unmodelled w => trivial
    | panic w => rw [hr] at this; exact this.elim

end StrGlue
