import Proofs.E2EEquiv
/-!
# Raw and comment blocks whose body is arbitrary bytes: the item lists and their cleanliness
-/

/-- a text item for `b`, none when `b` is empty -/
def optText (b : Bytes) : List Item := if b = [] then [] else [.text b]

theorem spell_optText (d : Delims) (b : Bytes) : spell d (optText b) = b := by
  unfold optText; split
  · next h => rw [h]; rfl
  · simp [spell, Item.spell]

theorem tokensOf_optText_srcs (d : Delims) (b : Bytes) (l : Nat) : srcs (tokensOf d (optText b) l) = b := by
  rw [tokensOf_srcs, spell_optText]

theorem spell_block (d : Delims) (o c : Item) (b : Bytes) (post : List Item) :
    spell d (o :: (optText b ++ c :: post)) = o.spell d ++ (b ++ (c.spell d ++ spell d post)) := by
  simp only [spell, spell_append, spell_optText]

/-- the spelling of a clean argument-less tag named `n` begins with an end tag `n` -/
theorem endTag_item_at (d : Delims) (hg : GoodDelims d) (n : Bytes) (hn : GoodName n) (hl hr : Bool) (wl wm wr rest : Bytes)
    (hci : CleanItem d (.tag n [] hl hr wl wm wr)) :
    endTagAtB d n ((Item.tag n [] hl hr wl wm wr).spell d ++ rest) = true := by
  rw [endTagAtB_iff d hg n hn]
  obtain ⟨hwl, _, hwr, _, _, _, _⟩ := hci
  refine ⟨hl, hr, wl, wr, rest, ?_, hwl, hwr⟩
  simp [Item.spell, tagArgPart, List.append_assoc]

theorem lexEnd_block_tag (nm : Bytes) (h : nm = nameRaw ∨ nm = nameComment) (hl hr : Bool) (wl wm wr : Bytes) :
    (Item.tag nm [] hl hr wl wm wr).lexEnd = some (nameEnd ++ nm) := by
  rcases h with rfl | rfl <;> rfl

/-- a raw/comment block whose body is ANY bytes in which no end tag begins is clean; what follows the end tag is
    any clean remainder -/
theorem clean_lex_block (d : Delims) (hg : GoodDelims d) (nm : Bytes) (hnm : nm = nameRaw ∨ nm = nameComment)
    (body : Bytes) (hl1 hr1 hl2 hr2 : Bool) (wl1 wm1 wr1 wl2 wm2 wr2 : Bytes) (post : List Item)
    (ho : CleanItem d (.tag nm [] hl1 hr1 wl1 wm1 wr1))
    (hpost : Clean d (.tag (nameEnd ++ nm) [] hl2 hr2 wl2 wm2 wr2 :: post))
    (hin : ∀ i, i < body.length →
      endTagAtB d (nameEnd ++ nm) ((body ++ spell d (.tag (nameEnd ++ nm) [] hl2 hr2 wl2 wm2 wr2 :: post)).drop i) = false) :
    Clean d (.tag nm [] hl1 hr1 wl1 wm1 wr1 :: (optText body ++ .tag (nameEnd ++ nm) [] hl2 hr2 wl2 wm2 wr2 :: post)) := by
  have hat : endTagAtB d (nameEnd ++ nm) (spell d (.tag (nameEnd ++ nm) [] hl2 hr2 wl2 wm2 wr2 :: post)) = true :=
    endTag_item_at d hg _ (goodName_end nm) hl2 hr2 wl2 wm2 wr2 _ hpost.1
  refine ⟨ho, fun h => absurd rfl h, trivial, ?_⟩
  rw [lexEnd_block_tag nm hnm]
  unfold optText
  split
  · rw [List.nil_append]
    exact ⟨hpost.1, hpost.2.1, .inl hat, hpost.2.2.2⟩
  · next hb =>
    refine ⟨hb, trivial, .inl ⟨hin, ?_⟩, hpost⟩
    rw [List.drop_left' rfl]
    exact hat

theorem objsModelled_optText (b : Bytes) :
    firstUnmodelledObj ((optText b).filterMap (fun it => (match it with | .obj a _ _ _ _ => some a | _ => none : Option Bytes).map
      (fun a => ({ ty := .obj, args := a } : Token)))) = none := by
  unfold optText; split <;> rfl
