import Proofs.HeapStage
/-!
# `stageP` is the expression `x | f: args` of the pure model (`Call.evalFilter` with the standard table)

`bodyP` was written by hand next to `bodyF`; this file shows that it is what `applyFilter` computes with the
registry `stdFilters` and the bodies of `Filters/Arr.lean` / `Filters/Num.lean` (`applyFilter_eq_bodyP`), so that the
memory-level run refines `evalFilter` itself (`stageP_eq_evalFilter`) and every theorem of `Proofs/C15.lean` about
`applyFilter` / the bodies speaks about what the memory-level run returns.
-/

namespace Heap

open ArrF

theorem sigF (f : FName) : lookupSig f.name = some ⟨f.name, (match f with
    | .compact | .reverse | .first | .last | .uniq => [.val .anys]
    | .concat => [.val .anys, .val .anys]
    | .join => [.val .anys, .fn .str]
    | .map => [.val .anys, .val .str]
    | .sort | .sortNatural => [.val .anys, .val .any]
    | .size => [.val .any]
    | .default => [.val .any, .val .any]), false⟩ := by
  cases f <;> decide +kernel

theorem implF_compact : lookupImpl stdFilterImpls FName.compact.name = some (eager ArrF.compact) := by with_unfolding_all rfl
theorem implF_concat : lookupImpl stdFilterImpls FName.concat.name = some (eager ArrF.concat) := by with_unfolding_all rfl
theorem implF_join : lookupImpl stdFilterImpls FName.join.name = some (eager ArrF.join) := by with_unfolding_all rfl
theorem implF_map : lookupImpl stdFilterImpls FName.map.name = some (eager ArrF.map) := by with_unfolding_all rfl
theorem implF_reverse : lookupImpl stdFilterImpls FName.reverse.name = some (eager ArrF.reverse) := by with_unfolding_all rfl
theorem implF_sort : lookupImpl stdFilterImpls FName.sort.name = some (eager ArrF.sort) := by with_unfolding_all rfl
theorem implF_sortNatural : lookupImpl stdFilterImpls FName.sortNatural.name = some (eager ArrF.sortNatural) := by with_unfolding_all rfl
theorem implF_first : lookupImpl stdFilterImpls FName.first.name = some (eager ArrF.first) := by with_unfolding_all rfl
theorem implF_last : lookupImpl stdFilterImpls FName.last.name = some (eager ArrF.last) := by with_unfolding_all rfl
theorem implF_uniq : lookupImpl stdFilterImpls FName.uniq.name = some (eager ArrF.uniq) := by with_unfolding_all rfl
theorem implF_size : lookupImpl stdFilterImpls FName.size.name = some Num.size := by with_unfolding_all rfl
theorem implF_default : lookupImpl stdFilterImpls FName.default.name = some Num.default := by with_unfolding_all rfl

/-- what `ApplyFilter` does with the result of the Go function -/
def finish (name : Bytes) (r : Res Cause (Except Cause GoVal)) : Res Cause GoVal :=
  r.bind fun
    | .error c => .err (.filterErr name c)
    | .ok v => .ok (bytesToString v)

theorem applyFilter_of {name name' : Bytes} {params : List Param} {hasErr : Bool} {impl : FilterImpl}
    (hs : lookupSig name = some ⟨name', params, hasErr⟩) (hi : lookupImpl stdFilterImpls name = some impl)
    (g : GoVal) (args : List GoVal) (hl : ¬ (g :: args).length > params.length) :
    applyFilter (lookupImpl stdFilterImpls) name g args =
      (convertArgs params (g :: args)).bind fun cargs => finish name (impl cargs) := by
  unfold applyFilter
  simp only [hs, hi, if_neg hl, finish]
  rfl

/-! ### `convertCallArguments`, parameter by parameter -/

theorem convertArgs_val (t : ParamTy) (ps : List Param) (rest : List GoVal) :
    convertArgs (.val t :: ps) rest =
      (convArgVal t rest.head?).bind fun c => (convertArgs ps rest.tail).bind fun r => .ok (.val c :: r) := by
  cases rest with
  | nil => rfl
  | cons a as => cases a <;> rfl

theorem convertArgs_fn (t : ParamTy) (ps : List Param) (rest : List GoVal) :
    convertArgs (.fn t :: ps) rest =
      (convertArgs ps rest.tail).bind fun r => .ok (.fn (rest.head?.map (convert · t)) :: r) := by
  cases rest <;> rfl

theorem convertArgs_nil (rest : List GoVal) : convertArgs [] rest = .ok [] := by
  cases rest <;> rfl

theorem convArgVal_anys (og : Option GoVal) :
    convArgVal .anys og = (convAnysP (og.getD .nil)).bind fun xs => .ok (.slice .any xs) := by
  cases og with
  | none => rfl
  | some g =>
    by_cases hn : g = .nil
    · subst hn; rfl
    · have h1 : convArgVal .anys (some g) = convert g .anys := by
        cases g <;> first | exact absurd rfl hn | rfl
      rw [h1, Option.getD_some, convAnysP_val hn]
      cases hc : convert g .anys with
      | ok w => obtain ⟨ys, rfl⟩ := convert_anys_shape hc; rfl
      | err c => rfl
      | panic w => rfl
      | unmodelled w => rfl

/-! ### eager bodies -/

theorem collect_vals (ws : List GoVal) : FilterImpl.ofEager.collect (ws.map Arg.val) = .ok ws := by
  induction ws with
  | nil => rfl
  | cons w ws ih => simp [FilterImpl.ofEager.collect, ih, Res.bind]

/-- an eager body (`returnsErr = false`) on converted values -/
def eagerRes (r : Res Cause GoVal) : Res Cause (Except Cause GoVal) :=
  match r with
  | .ok v => .ok (.ok v)
  | .err c => .err c
  | .panic w => .panic w
  | .unmodelled w => .unmodelled w

theorem eager_vals (f : List GoVal → R GoVal) (vs : List GoVal) : eager f (vs.map Arg.val) = eagerRes (f vs) := by
  simp only [eager, FilterImpl.ofEager, collect_vals, Res.bind, eagerRes]
  cases f vs <;> simp [ret]

theorem finish_eager (name : Bytes) (r : Res Cause GoVal) :
    finish name (eagerRes r) = r.bind fun v => .ok (bytesToString v) := by
  cases r <;> rfl

/-- a bind whose continuation does not fail re-associates into the final wrapping -/
theorem bind_assoc' {α β γ : Type} (x : Res Cause α) (f : α → Res Cause β) (g : β → Res Cause γ) :
    (x.bind f).bind g = x.bind fun a => (f a).bind g := by
  cases x <;> rfl

theorem sliceOf_bts (r : Res Cause (List GoVal)) :
    (sliceOf r).bind (fun w => Res.ok (bytesToString w)) = sliceOf r := by
  cases r <;> rfl

/-! ### the twelve filters -/

theorem length_le_one {args : List GoVal} {g : GoVal} (h : ¬ (g :: args).length > 1) : args = [] := by
  cases args with
  | nil => rfl
  | cons a as => simp at h

theorem length_le_two {args : List GoVal} {g : GoVal} (h : ¬ (g :: args).length > 2) : args = [] ∨ ∃ a, args = [a] := by
  cases args with
  | nil => exact Or.inl rfl
  | cons a as =>
    cases as with
    | nil => exact Or.inr ⟨a, rfl⟩
    | cons b bs => simp at h

/-- a one-parameter array filter -/
theorem applyFilter_unary_eq {f : FName} {X : List GoVal → R GoVal}
    (hs : lookupSig f.name = some ⟨f.name, [.val .anys], false⟩) (hi : lookupImpl stdFilterImpls f.name = some (eager X))
    (g : GoVal) :
    applyFilter (lookupImpl stdFilterImpls) f.name g [] =
      (convAnysP g).bind fun xs => (X [.slice .any xs]).bind fun v => .ok (bytesToString v) := by
  rw [applyFilter_of hs hi g [] (by simp)]
  rw [convertArgs_val, convertArgs_nil, convArgVal_anys]
  simp only [List.head?_cons, Option.getD_some]
  cases convAnysP g with
  | ok xs =>
    simp only [Res.bind]
    have := eager_vals X [.slice .any xs]
    simp only [List.map] at this
    rw [this, finish_eager]
    rfl
  | err c => rfl
  | panic w => rfl
  | unmodelled w => rfl


theorem applyFilter_compact (g : GoVal) : applyFilter (lookupImpl stdFilterImpls) FName.compact.name g [] =
    (bodyP true .compact g []).bind fun w => .ok (bytesToString w) := by
  rw [applyFilter_unary_eq (sigF .compact) implF_compact, bodyP, bind_assoc']
  rfl

theorem applyFilter_reverse (g : GoVal) : applyFilter (lookupImpl stdFilterImpls) FName.reverse.name g [] =
    (bodyP true .reverse g []).bind fun w => .ok (bytesToString w) := by
  rw [applyFilter_unary_eq (sigF .reverse) implF_reverse, bodyP, bind_assoc']
  rfl

theorem applyFilter_first (g : GoVal) : applyFilter (lookupImpl stdFilterImpls) FName.first.name g [] =
    (bodyP true .first g []).bind fun w => .ok (bytesToString w) := by
  rw [applyFilter_unary_eq (sigF .first) implF_first, bodyP, bind_assoc']
  rfl

theorem applyFilter_last (g : GoVal) : applyFilter (lookupImpl stdFilterImpls) FName.last.name g [] =
    (bodyP true .last g []).bind fun w => .ok (bytesToString w) := by
  rw [applyFilter_unary_eq (sigF .last) implF_last, bodyP, bind_assoc']
  rfl

theorem applyFilter_uniq (g : GoVal) : applyFilter (lookupImpl stdFilterImpls) FName.uniq.name g [] =
    (bodyP true .uniq g []).bind fun w => .ok (bytesToString w) := by
  rw [applyFilter_unary_eq (sigF .uniq) implF_uniq, bodyP, bind_assoc']
  congr 1
  funext xs
  rw [uniq_eq_uniqP]
  cases uniqP xs <;> rfl


theorem applyFilter_concat (g : GoVal) (args : List GoVal) (hl : ¬ (g :: args).length > 2) :
    applyFilter (lookupImpl stdFilterImpls) FName.concat.name g args =
      (bodyP true .concat g args).bind fun w => .ok (bytesToString w) := by
  rw [applyFilter_of (sigF .concat) implF_concat g args hl]
  simp only [convertArgs_val, convertArgs_nil, convArgVal_anys, List.head?_cons, List.tail_cons, Option.getD_some, bodyP]
  have hd : (args.head?.getD .nil) = args.headD .nil := by cases args <;> rfl
  rw [hd]
  cases convAnysP g with
  | ok xs =>
    simp only [Res.bind]
    cases convAnysP (args.headD .nil) with
    | ok ys =>
      simp only
      have := eager_vals ArrF.concat [.slice .any xs, .slice .any ys]
      simp only [List.map] at this
      rw [this, finish_eager]
      rfl
    | err c => rfl
    | panic w => rfl
    | unmodelled w => rfl
  | err c => rfl
  | panic w => rfl
  | unmodelled w => rfl

theorem applyFilter_map (g : GoVal) (args : List GoVal) (hl : ¬ (g :: args).length > 2) :
    applyFilter (lookupImpl stdFilterImpls) FName.map.name g args =
      (bodyP true .map g args).bind fun w => .ok (bytesToString w) := by
  rw [applyFilter_of (sigF .map) implF_map g args hl]
  simp only [convertArgs_val, convertArgs_nil, convArgVal_anys, List.head?_cons, List.tail_cons, Option.getD_some, bodyP, strArgP]
  cases convAnysP g with
  | ok xs =>
    simp only [Res.bind]
    cases hk : convArgVal .str args.head? with
    | ok k =>
      simp only
      have := eager_vals ArrF.map [.slice .any xs, k]
      simp only [List.map] at this
      rw [this, finish_eager]
      cases k <;> first | rfl | (simp only [ArrF.map, sliceOf]; cases mapF _ xs <;> rfl)
    | err c => rfl
    | panic w => rfl
    | unmodelled w => rfl
  | err c => rfl
  | panic w => rfl
  | unmodelled w => rfl

theorem sortWith_sliceOf (strict : Bool) (xs : List GoVal) (key : GoVal) :
    sortWith strict [.slice .any xs, key] = sliceOf (sortedList strict false xs key) := by
  unfold sortedList sliceOf
  simp only [Bool.false_eq_true, if_false]
  cases h : sortWith strict [.slice .any xs, key] with
  | ok w => obtain ⟨ys, rfl, _⟩ := sortWith_ok_length h; rfl
  | err c => rfl
  | panic w => rfl
  | unmodelled w => rfl

theorem sortNaturalWith_sliceOf (strict : Bool) (xs : List GoVal) (key : GoVal) :
    sortNaturalWith strict [.slice .any xs, key] = sliceOf (sortedList strict true xs key) := by
  unfold sortedList sliceOf
  simp only [if_true]
  cases h : sortNaturalWith strict [.slice .any xs, key] with
  | ok w => obtain ⟨ys, rfl, _⟩ := sortNaturalWith_ok_length h; rfl
  | err c => rfl
  | panic w => rfl
  | unmodelled w => rfl

theorem applyFilter_sort (g : GoVal) (args : List GoVal) (hl : ¬ (g :: args).length > 2) :
    applyFilter (lookupImpl stdFilterImpls) FName.sort.name g args =
      (bodyP true .sort g args).bind fun w => .ok (bytesToString w) := by
  rw [applyFilter_of (sigF .sort) implF_sort g args hl]
  simp only [convertArgs_val, convertArgs_nil, convArgVal_anys, List.head?_cons, List.tail_cons, Option.getD_some, bodyP]
  cases convAnysP g with
  | ok xs =>
    simp only [Res.bind]
    cases convArgVal .any args.head? with
    | ok k =>
      simp only
      have := eager_vals ArrF.sort [.slice .any xs, k]
      simp only [List.map] at this
      rw [this, finish_eager, ← sortWith_sliceOf]
      rfl
    | err c => rfl
    | panic w => rfl
    | unmodelled w => rfl
  | err c => rfl
  | panic w => rfl
  | unmodelled w => rfl


theorem applyFilter_sortNatural (g : GoVal) (args : List GoVal) (hl : ¬ (g :: args).length > 2) :
    applyFilter (lookupImpl stdFilterImpls) FName.sortNatural.name g args =
      (bodyP true .sortNatural g args).bind fun w => .ok (bytesToString w) := by
  rw [applyFilter_of (sigF .sortNatural) implF_sortNatural g args hl]
  simp only [convertArgs_val, convertArgs_nil, convArgVal_anys, List.head?_cons, List.tail_cons, Option.getD_some, bodyP]
  cases convAnysP g with
  | ok xs =>
    simp only [Res.bind]
    cases convArgVal .any args.head? with
    | ok k =>
      simp only
      have := eager_vals ArrF.sortNatural [.slice .any xs, k]
      simp only [List.map] at this
      rw [this, finish_eager, ← sortNaturalWith_sliceOf]
      rfl
    | err c => rfl
    | panic w => rfl
    | unmodelled w => rfl
  | err c => rfl
  | panic w => rfl
  | unmodelled w => rfl

theorem collect_val_fn (v : GoVal) (oc : Option (Res Cause GoVal)) :
    FilterImpl.ofEager.collect [.val v, .fn oc] =
      match oc with
      | none => .ok [v]
      | some c => c.bind fun w => .ok [v, w] := by
  cases oc with
  | none => rfl
  | some c => cases c <;> rfl

theorem applyFilter_join (g : GoVal) (args : List GoVal) (hl : ¬ (g :: args).length > 2) :
    applyFilter (lookupImpl stdFilterImpls) FName.join.name g args =
      (bodyP true .join g args).bind fun w => .ok (bytesToString w) := by
  rw [applyFilter_of (sigF .join) implF_join g args hl]
  simp only [convertArgs_val, convertArgs_fn, convertArgs_nil, convArgVal_anys, List.head?_cons, List.tail_cons, Option.getD_some, bodyP]
  cases convAnysP g with
  | ok xs =>
    simp only [Res.bind, eager, FilterImpl.ofEager, collect_val_fn]
    cases args.head? with
    | none =>
      simp only [Option.map, sepP, Res.bind, ArrF.join, finish]
      cases joinF xs [32] <;> rfl
    | some a =>
      simp only [Option.map, sepP]
      cases convert a .str with
      | ok w =>
        simp only [Res.bind, finish]
        cases w <;> first | rfl | (simp only [ArrF.join]; cases joinF xs _ <;> rfl)
      | err c => rfl
      | panic w => rfl
      | unmodelled w => rfl
  | err c => rfl
  | panic w => rfl
  | unmodelled w => rfl

theorem applyFilter_size (g : GoVal) : applyFilter (lookupImpl stdFilterImpls) FName.size.name g [] =
    (bodyP true .size g []).bind fun w => .ok (bytesToString w) := by
  rw [applyFilter_of (sigF .size) implF_size g [] (by simp)]
  simp only [convertArgs_val, convertArgs_nil, List.head?_cons, List.tail_cons, bodyP, sizeP]
  cases convArgVal .any (some g) with
  | ok c =>
    simp only [Res.bind, finish]
    cases Num.size [.val c] with
    | ok e => cases e <;> rfl
    | err c => rfl
    | panic w => rfl
    | unmodelled w => rfl
  | err c => rfl
  | panic w => rfl
  | unmodelled w => rfl

theorem convArgVal_any (og : Option GoVal) : convArgVal .any og = convAnyP og := by
  cases og with
  | none => rfl
  | some g => cases g <;> rfl

theorem applyFilter_default (g : GoVal) (args : List GoVal) (hl : ¬ (g :: args).length > 2) :
    applyFilter (lookupImpl stdFilterImpls) FName.default.name g args =
      (bodyP true .default g args).bind fun w => .ok (bytesToString w) := by
  rw [applyFilter_of (sigF .default) implF_default g args hl]
  simp only [convertArgs_val, convertArgs_nil, convArgVal_any, List.head?_cons, List.tail_cons, bodyP]
  cases convAnyP (some g) with
  | ok v =>
    simp only [Res.bind]
    cases convAnyP args.head? with
    | ok d => rfl
    | err c => rfl
    | panic w => rfl
    | unmodelled w => rfl
  | err c => rfl
  | panic w => rfl
  | unmodelled w => rfl


theorem sig_arity (f : FName) : ∃ ps, lookupSig f.name = some ⟨f.name, ps, false⟩ ∧ ps.length = f.arity := by
  refine ⟨_, sigF f, ?_⟩
  cases f <;> rfl

/-- **`bodyP` is what the call layer computes**: `ApplyFilter` + `Call` with the registry `stdFilters` and the
bodies of `Filters/Arr.lean` (`size`, `default`: `Filters/Num.lean`), for every receiver and argument list. -/
theorem applyFilter_eq_bodyP (f : FName) (g : GoVal) (args : List GoVal) :
    applyFilter (lookupImpl stdFilterImpls) f.name g args =
      if (g :: args).length > f.arity then .err (.filterErr f.name .parity)
      else (bodyP true f g args).bind fun w => .ok (bytesToString w) := by
  by_cases hl : (g :: args).length > f.arity
  · rw [if_pos hl]
    obtain ⟨ps, hs, hp⟩ := sig_arity f
    unfold applyFilter
    simp only [hs]
    rw [if_pos (by rw [hp]; exact hl)]
  · rw [if_neg hl]
    cases f with
    | compact => obtain rfl := length_le_one hl; exact applyFilter_compact g
    | reverse => obtain rfl := length_le_one hl; exact applyFilter_reverse g
    | first => obtain rfl := length_le_one hl; exact applyFilter_first g
    | last => obtain rfl := length_le_one hl; exact applyFilter_last g
    | uniq => obtain rfl := length_le_one hl; exact applyFilter_uniq g
    | size => obtain rfl := length_le_one hl; exact applyFilter_size g
    | concat => exact applyFilter_concat g args hl
    | join => exact applyFilter_join g args hl
    | map => exact applyFilter_map g args hl
    | sort => exact applyFilter_sort g args hl
    | sortNatural => exact applyFilter_sortNatural g args hl
    | default => exact applyFilter_default g args hl

/-- `stageP` is the pure model's meaning of the expression `x | f: args` -/
theorem stageP_eq_evalFilter (f : FName) (g : GoVal) (args : List GoVal) :
    stageP true f g args = evalFilter (lookupImpl stdFilterImpls) f.name g args := by
  unfold stageP evalFilter
  rw [applyFilter_eq_bodyP]
  simp only [List.length_cons, List.length_map]
  by_cases hl : args.length + 1 > f.arity
  · rw [if_pos hl, if_pos hl]; rfl
  · rw [if_neg hl, if_neg hl, bind_assoc']
    rfl

/-- a pipeline in the pure model (`Driver.runPipeline` with decoded steps) -/
def evalChain : GoVal → List (FName × List GoVal) → Res Cause GoVal
  | g, [] => .ok g
  | g, (f, args) :: rest => (evalFilter (lookupImpl stdFilterImpls) f.name g args).bind fun w => evalChain w rest

theorem chainP_eq_evalChain : ∀ (chain : List (FName × List GoVal)) (g : GoVal), chainP true g chain = evalChain g chain
  | [], _ => rfl
  | (f, args) :: rest, g => by
    simp only [chainP, evalChain, stageP_eq_evalFilter]
    congr 1
    funext w
    exact chainP_eq_evalChain rest w

end Heap
