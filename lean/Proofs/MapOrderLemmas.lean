import Liquid.MapOrder
import Proofs.InsertionSort
/-!
# Basic facts about `MapOrder.sortedMapEntries` (helper lemmas: the sorted list is a permutation of
the entries, an iteration site answers or is outside the model — it never panics or fails)
-/

namespace MapOrder

theorem sortedEntries_perm_self (kvs : List (GoVal × GoVal)) : (sortedEntries kvs).Perm kvs :=
  insertionSort_perm' entryLess kvs

theorem sortedEntries_length (kvs : List (GoVal × GoVal)) : (sortedEntries kvs).length = kvs.length :=
  (sortedEntries_perm_self kvs).length_eq

theorem mem_sortedEntries {kvs : List (GoVal × GoVal)} {e : GoVal × GoVal} : e ∈ sortedEntries kvs ↔ e ∈ kvs :=
  (sortedEntries_perm_self kvs).mem_iff

theorem sortedFields_perm_self (fs : List (Bytes × GoVal)) : (sortedFields fs).Perm fs :=
  insertionSort_perm' _ fs

theorem sortedFields_length (fs : List (Bytes × GoVal)) : (sortedFields fs).length = fs.length :=
  (sortedFields_perm_self fs).length_eq

/-- an iteration site sees the sorted entries, or the map is outside the model -/
theorem sortedMapEntries_cases {ε : Type} (kvs : List (GoVal × GoVal)) :
    (manyClass4 kvs = false ∧ (sortedMapEntries kvs : Res ε _) = .ok (sortedEntries kvs)) ∨
    (manyClass4 kvs = true ∧ ∃ w, (sortedMapEntries kvs : Res ε _) = .unmodelled w) := by
  unfold sortedMapEntries
  cases h : manyClass4 kvs
  · exact .inl ⟨rfl, by simp⟩
  · exact .inr ⟨rfl, _, by simp only [if_true]; rfl⟩

theorem sortedMapEntries_ok {ε : Type} {kvs es : List (GoVal × GoVal)}
    (h : (sortedMapEntries kvs : Res ε _) = .ok es) : es = sortedEntries kvs ∧ manyClass4 kvs = false := by
  rcases sortedMapEntries_cases (ε := ε) kvs with ⟨h1, h2⟩ | ⟨_, w, h2⟩
  · rw [h2] at h; injection h with h; exact ⟨h.symm, h1⟩
  · rw [h2] at h; cases h

theorem sortedMapEntries_isPanic {ε : Type} (kvs : List (GoVal × GoVal)) :
    (sortedMapEntries kvs : Res ε _).isPanic = false := by
  unfold sortedMapEntries
  split <;> rfl

/-- keys of classes 1–3 only: every iteration site answers -/
theorem sortedMapEntries_of_noClass4 {ε : Type} {kvs : List (GoVal × GoVal)}
    (h : ∀ kv ∈ kvs, keyClass kv.1 ≠ 4) : (sortedMapEntries kvs : Res ε _) = .ok (sortedEntries kvs) := by
  unfold sortedMapEntries manyClass4
  have : kvs.filter (fun kv => keyClass kv.1 == 4) = [] := by
    rw [List.filter_eq_nil_iff]
    intro kv hkv
    simpa using h kv hkv
  simp [this]

/-! ## The order looks at the keys only -/

/-- sorting commutes with every map of the entries that keeps the keys -/
theorem sortedEntries_map_keep (f : GoVal × GoVal → GoVal × GoVal) (hf : ∀ kv, (f kv).1 = kv.1)
    (kvs : List (GoVal × GoVal)) : sortedEntries (kvs.map f) = (sortedEntries kvs).map f := by
  unfold sortedEntries
  rw [← insertionSort_map f entryLess kvs]
  congr 2
  funext a b
  simp [entryLess, hf]

theorem manyClass4_map_keep (f : GoVal × GoVal → GoVal × GoVal) (hf : ∀ kv, (f kv).1 = kv.1)
    (kvs : List (GoVal × GoVal)) : manyClass4 (kvs.map f) = manyClass4 kvs := by
  unfold manyClass4
  rw [List.filter_map, List.length_map]
  have : ((fun kv : GoVal × GoVal => keyClass kv.1 == 4) ∘ f) = fun kv => keyClass kv.1 == 4 := by
    funext kv
    simp [hf]
  rw [this]

theorem sortedMapEntries_map_keep {ε : Type} (f : GoVal × GoVal → GoVal × GoVal) (hf : ∀ kv, (f kv).1 = kv.1)
    (kvs : List (GoVal × GoVal)) :
    (sortedMapEntries (kvs.map f) : Res ε _) = (sortedMapEntries kvs).bind fun es => .ok (es.map f) := by
  unfold sortedMapEntries
  rw [manyClass4_map_keep f hf, sortedEntries_map_keep f hf]
  split <;> rfl

theorem sortedFields_map_keep (f : Bytes × GoVal → Bytes × GoVal) (hf : ∀ kv, (f kv).1 = kv.1)
    (fs : List (Bytes × GoVal)) : sortedFields (fs.map f) = (sortedFields fs).map f := by
  unfold sortedFields
  rw [← insertionSort_map f (fun a b => decide (a.1 < b.1)) fs]
  congr 2
  funext a b
  simp [hf]

end MapOrder
