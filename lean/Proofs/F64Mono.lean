import Proofs.F64Lemmas
/-!
# `roundFloat` is faithful: monotone against the values of the format (helper lemmas for `Proofs/C17.lean`)

`roundFloat_le_of_rep`: a positive rational below a value of the format rounds (without overflow) to at most that
value; `roundFloat_ge_of_rep`: one above a value of the format rounds to at least that value. With
`roundFloat_rep` / `roundFloat_of_rep` (`Proofs/F64Lemmas.lean`): the result of rounding is a value of the
format and no value of the format lies strictly between the argument and its rounding.
`roundFloat_neg`: rounding is odd.
-/

theorem div_pow2_le {q x : Rat} {e : Int} (h : q ≤ x * pow2 e) : q / pow2 e ≤ x := by
  have hp := pow2_pos e
  apply Rat.not_lt.1
  intro hlt
  have := Rat.mul_lt_mul_of_pos_right hlt hp
  rw [Rat.div_mul_cancel (pow2_ne_zero e)] at this
  exact absurd h (Rat.not_le.2 this)

theorem le_div_pow2 {q x : Rat} {e : Int} (h : x * pow2 e ≤ q) : x ≤ q / pow2 e := by
  have hp := pow2_pos e
  apply Rat.not_lt.1
  intro hlt
  have := Rat.mul_lt_mul_of_pos_right hlt hp
  rw [Rat.div_mul_cancel (pow2_ne_zero e)] at this
  exact absurd h (Rat.not_le.2 this)

theorem mul_pow2_le_of_le_div {q x : Rat} {e : Int} (h : x ≤ q / pow2 e) : x * pow2 e ≤ q := by
  have := Rat.mul_le_mul_of_nonneg_right h (Rat.le_of_lt (pow2_pos e))
  rwa [Rat.div_mul_cancel (pow2_ne_zero e)] at this

theorem lt_mul_pow2_of_div_lt {q x : Rat} {e : Int} (h : q / pow2 e < x) : q < x * pow2 e :=
  (Rat.div_lt_iff (pow2_pos e)).1 h

theorem div_pow2_lt {q x : Rat} {e : Int} (h : q < x * pow2 e) : q / pow2 e < x :=
  (Rat.div_lt_iff (pow2_pos e)).2 h

theorem roundHalfEven_le_of_le (q : Rat) (hi : Int) (h : q ≤ (hi : Rat)) : roundHalfEven q ≤ hi := by
  by_cases he : q = (hi : Rat)
  · rw [he, roundHalfEven_intCast]; exact Int.le_refl _
  · exact roundHalfEven_le q hi (Rat.lt_of_le_of_ne h he)

/-- the exponent `roundFloat` uses -/
def fexpC (p : Nat) (emin : Int) (q : Rat) : Int := if fexp1 p q < emin then emin else fexp1 p q

theorem roundFloat_pos' (p : Nat) (emin emax : Int) (q : Rat) (hq : 0 < q) :
    roundFloat p emin emax q =
      (if (roundHalfEven (q / pow2 (fexpC p emin q)) : Rat) * pow2 (fexpC p emin q) ≥ pow2 emax then none
       else some ((roundHalfEven (q / pow2 (fexpC p emin q)) : Rat) * pow2 (fexpC p emin q))) :=
  roundFloat_pos p emin emax q hq

theorem roundFloat_neg (p : Nat) (emin emax : Int) (q : Rat) (hq : q < 0) :
    roundFloat p emin emax q = (roundFloat p emin emax (-q)).map (fun r => -r) := by
  have hpos : 0 < -q := by grind
  have h0 : (q == 0) = false := by
    simp only [beq_eq_false_iff_ne, ne_eq]; exact Rat.ne_of_lt hq
  rw [roundFloat_pos' p emin emax (-q) hpos]
  unfold roundFloat
  simp only [h0, Bool.false_eq_true, if_false, hq, if_true]
  show (if (roundHalfEven ((-q) / pow2 (fexpC p emin (-q))) : Rat) * pow2 (fexpC p emin (-q)) ≥ pow2 emax then none
       else some (-((roundHalfEven ((-q) / pow2 (fexpC p emin (-q))) : Rat) * pow2 (fexpC p emin (-q))))) = _
  split <;> rfl

theorem fexpC_ge (p : Nat) (emin : Int) (q : Rat) :
    emin ≤ fexpC p emin q ∧ fexp1 p q ≤ fexpC p emin q ∧ (fexpC p emin q = emin ∨ fexpC p emin q = fexp1 p q) := by
  unfold fexpC; split <;> omega

/-- with the clamped exponent the scaled argument is still below `2^p` -/
theorem div_fexpC_lt (p : Nat) (hp : 1 ≤ p) (emin : Int) (q : Rat) (hq : 0 < q) :
    q / pow2 (fexpC p emin q) < pow2 (p : Int) := by
  obtain ⟨_, s2⟩ := fexp1_spec p hp q hq
  have ⟨_, h2, _⟩ := fexpC_ge p emin q
  have hle := pow2_le h2
  apply div_pow2_lt
  have h3 := lt_mul_pow2_of_div_lt s2
  have h4 := Rat.mul_le_mul_of_nonneg_left hle (Rat.le_of_lt (pow2_pos (p : Int)))
  exact Std.lt_of_lt_of_le h3 h4

/-- a positive rational below a value of the format rounds, without overflow, to at most that value -/
theorem roundFloat_le_of_rep (p : Nat) (hp : 1 ≤ p) (emin emax : Int) (q r : Rat) (m e : Int) (hq : 0 < q)
    (hqr : q ≤ r) (h : IsFloatRep p emin emax r m e) :
    ∃ r', roundFloat p emin emax q = some r' ∧ r' ≤ r := by
  rw [roundFloat_pos' p emin emax q hq]
  obtain ⟨s1, s2⟩ := fexp1_spec p hp q hq
  obtain ⟨g1, g2, g3⟩ := fexpC_ge p emin q
  have s3 := div_fexpC_lt p hp emin q hq
  generalize hE : fexpC p emin q = E at *
  have key : (roundHalfEven (q / pow2 E) : Rat) * pow2 E ≤ r := by
    rcases Int.lt_trichotomy E e with hlt | heq | hgt
    · have hM : roundHalfEven (q / pow2 E) ≤ ((2 ^ p : Nat) : Int) :=
        roundHalfEven_le _ _ (by rw [← pow2_natCast_int]; exact s3)
      have hnorm : pow2 ((p : Int) - 1) ≤ (m : Rat) := by
        rcases h.norm with h1 | h1
        · exact h1
        · omega
      have a1 : (roundHalfEven (q / pow2 E) : Rat) ≤ pow2 (p : Int) := by
        rw [pow2_natCast_int]; exact Rat.intCast_le_intCast.2 hM
      have a2 := Rat.mul_le_mul_of_nonneg_right a1 (Rat.le_of_lt (pow2_pos E))
      rw [← pow2_add] at a2
      have a3 : pow2 ((p : Int) + E) ≤ pow2 ((p : Int) - 1 + e) := pow2_le (by omega)
      rw [pow2_add ((p : Int) - 1) e] at a3
      have a4 := Rat.mul_le_mul_of_nonneg_right hnorm (Rat.le_of_lt (pow2_pos e))
      rw [h.eq]
      exact Rat.le_trans a2 (Rat.le_trans a3 a4)
    · subst heq
      have : q / pow2 E ≤ (m : Rat) := div_pow2_le (by rw [← h.eq]; exact hqr)
      have hM := roundHalfEven_le_of_le _ _ this
      rw [h.eq]
      exact Rat.mul_le_mul_of_nonneg_right (Rat.intCast_le_intCast.2 hM) (Rat.le_of_lt (pow2_pos E))
    · exfalso
      have hEF : E = fexp1 p q := by have := h.he; omega
      rw [← hEF] at s1
      have b1 := mul_pow2_le_of_le_div s1
      rw [← pow2_add] at b1
      have b2 : q < pow2 (p : Int) * pow2 e := by
        have := Rat.mul_lt_mul_of_pos_right h.mlt (pow2_pos e)
        rw [← h.eq] at this
        exact Std.lt_of_le_of_lt hqr this
      rw [← pow2_add] at b2
      have := pow2_lt_iff.1 (Std.lt_of_le_of_lt b1 b2)
      omega
  have hlt : ¬ ((roundHalfEven (q / pow2 E) : Rat) * pow2 E ≥ pow2 emax) :=
    Rat.not_le.2 (Std.lt_of_le_of_lt key h.lt)
  simp only [hlt, if_false]
  exact ⟨_, rfl, key⟩

/-- a positive rational above a value of the format rounds to at least that value -/
theorem roundFloat_ge_of_rep (p : Nat) (hp : 1 ≤ p) (emin emax : Int) (q r r' : Rat) (m e : Int) (hq : 0 < q)
    (hrq : r ≤ q) (h : IsFloatRep p emin emax r m e) (hr' : roundFloat p emin emax q = some r') : r ≤ r' := by
  rw [roundFloat_pos' p emin emax q hq] at hr'
  obtain ⟨s1, s2⟩ := fexp1_spec p hp q hq
  obtain ⟨g1, g2, g3⟩ := fexpC_ge p emin q
  generalize hE : fexpC p emin q = E at *
  split at hr'
  · cases hr'
  simp only [Option.some.injEq] at hr'
  rw [← hr', h.eq]
  have heE : e ≤ E := by
    rcases h.norm with h1 | h1
    · have c1 := Rat.mul_le_mul_of_nonneg_right h1 (Rat.le_of_lt (pow2_pos e))
      rw [← pow2_add, ← h.eq] at c1
      have c2 := lt_mul_pow2_of_div_lt s2
      rw [← pow2_add] at c2
      have := pow2_lt_iff.1 (Std.lt_of_le_of_lt (Rat.le_trans c1 hrq) c2)
      omega
    · omega
  rcases Int.lt_or_eq_of_le heE with hlt | heq
  · have hEF : E = fexp1 p q := by have := h.he; omega
    rw [← hEF] at s1
    have hM : ((2 ^ (p - 1) : Nat) : Int) ≤ roundHalfEven (q / pow2 E) :=
      roundHalfEven_ge _ _ (by rw [← pow2_pred_int p hp]; exact s1)
    have a1 : pow2 ((p : Int) - 1) ≤ (roundHalfEven (q / pow2 E) : Rat) := by
      rw [pow2_pred_int p hp]; exact Rat.intCast_le_intCast.2 hM
    have a2 := Rat.mul_le_mul_of_nonneg_right a1 (Rat.le_of_lt (pow2_pos E))
    rw [← pow2_add] at a2
    have a3 : pow2 ((p : Int) + e) ≤ pow2 ((p : Int) - 1 + E) := pow2_le (by omega)
    have a4 := Rat.mul_lt_mul_of_pos_right h.mlt (pow2_pos e)
    rw [← pow2_add] at a4
    exact Rat.le_of_lt (Std.lt_of_lt_of_le a4 (Rat.le_trans a3 a2))
  · subst heq
    have : (m : Rat) ≤ q / pow2 e := le_div_pow2 (by rw [← h.eq]; exact hrq)
    have hM := roundHalfEven_ge _ _ this
    exact Rat.mul_le_mul_of_nonneg_right (Rat.intCast_le_intCast.2 hM) (Rat.le_of_lt (pow2_pos e))

/-! ## float64 -/

theorem rat_trichotomy (a b : Rat) : a < b ∨ a = b ∨ b < a := by
  by_cases h1 : a < b
  · exact Or.inl h1
  · by_cases h2 : a = b
    · exact Or.inr (Or.inl h2)
    · exact Or.inr (Or.inr (Rat.lt_of_le_of_ne (Rat.not_lt.1 h1) (Ne.symm h2)))

/-- `math.MaxFloat64 = (2^53 - 1) · 2^971` -/
def maxF64 : Rat := ((2 ^ 53 - 1 : Int) : Rat) * pow2 971

/-- the overflow threshold of round-to-nearest: `2^1024 - 2^970`, half a unit above `maxF64` -/
def overflowF64 : Rat := ((2 ^ 54 - 1 : Int) : Rat) * pow2 970

theorem maxF64_rep : IsFloatRep 53 (-1074) 1024 maxF64 (2 ^ 53 - 1) 971 :=
  ⟨rfl, by decide, by decide, by decide +kernel, Or.inl (by decide +kernel), by decide +kernel⟩

theorem two64_rep : IsFloatRep 53 (-1074) 1024 (((2 ^ 64 : Nat) : Int) : Rat) (2 ^ 52) 12 :=
  ⟨by decide +kernel, by decide, by decide, by decide +kernel, Or.inl (by decide +kernel), by decide +kernel⟩

theorem two63_rep : IsFloatRep 53 (-1074) 1024 (((2 ^ 63 : Nat) : Int) : Rat) (2 ^ 52) 11 :=
  ⟨by decide +kernel, by decide, by decide, by decide +kernel, Or.inl (by decide +kernel), by decide +kernel⟩

theorem roundF64_neg (q : Rat) (hq : q < 0) : roundF64 q = (roundF64 (-q)).map (fun r => -r) :=
  roundFloat_neg 53 (-1074) 1024 q hq

theorem isFloatRep_pos {p : Nat} {emin emax : Int} {r : Rat} {m e : Int} (h : IsFloatRep p emin emax r m e) : 0 < r := by
  rw [h.eq]; exact Rat.mul_pos (Rat.intCast_pos.2 h.mpos) (pow2_pos e)

/-- a rational between `-r` and `r`, `r` a float64, rounds without overflow to a value in that interval -/
theorem roundF64_some_of_abs_le (q r : Rat) (m e : Int) (h : IsFloatRep 53 (-1074) 1024 r m e)
    (h1 : -r ≤ q) (h2 : q ≤ r) : ∃ r', roundF64 q = some r' ∧ -r ≤ r' ∧ r' ≤ r := by
  have hr := isFloatRep_pos h
  rcases rat_trichotomy q 0 with hq | hq | hq
  · have hpos : 0 < -q := by grind
    obtain ⟨r', e1, e2⟩ := roundFloat_le_of_rep 53 (by decide) (-1074) 1024 (-q) r m e hpos (by grind) h
    have hnn : 0 ≤ r' := by
      rcases roundFloat_rep 53 (by decide) (-1074) 1024 (-q) r' hpos e1 with h0 | ⟨m', e', h'⟩
      · rw [h0]; exact Rat.le_refl
      · exact Rat.le_of_lt (isFloatRep_pos h')
    refine ⟨-r', ?_, by grind, by grind⟩
    rw [roundF64_neg q hq]
    show Option.map _ (roundFloat 53 (-1074) 1024 (-q)) = _
    rw [e1]; rfl
  · subst hq
    exact ⟨0, by simp [roundF64, roundFloat], by grind, by grind⟩
  · obtain ⟨r', e1, e2⟩ := roundFloat_le_of_rep 53 (by decide) (-1074) 1024 q r m e hq h2 h
    have hnn : 0 ≤ r' := by
      rcases roundFloat_rep 53 (by decide) (-1074) 1024 q r' hq e1 with h0 | ⟨m', e', h'⟩
      · rw [h0]; exact Rat.le_refl
      · exact Rat.le_of_lt (isFloatRep_pos h')
    exact ⟨r', e1, by grind, e2⟩

/-- no overflow up to `math.MaxFloat64` -/
theorem roundF64_no_overflow (q : Rat) (h1 : -maxF64 ≤ q) (h2 : q ≤ maxF64) :
    ∃ r, roundF64 q = some r ∧ -maxF64 ≤ r ∧ r ≤ maxF64 :=
  roundF64_some_of_abs_le q maxF64 _ _ maxF64_rep h1 h2

/-- the result of rounding is a float64: it rounds to itself -/
theorem roundF64_idem (q r : Rat) (h : roundF64 q = some r) : roundF64 r = some r := by
  have pos : ∀ q r : Rat, 0 < q → roundF64 q = some r → roundF64 r = some r := by
    intro q r hq h
    rcases roundFloat_rep 53 (by decide) (-1074) 1024 q r hq h with h0 | ⟨m', e', h'⟩
    · rw [h0]; simp [roundF64, roundFloat]
    · exact roundFloat_of_rep 53 (by decide) (-1074) 1024 r m' e' h'
  rcases rat_trichotomy q 0 with hq | hq | hq
  · rw [roundF64_neg q hq] at h
    cases h2 : roundF64 (-q) with
    | none => rw [h2] at h; cases h
    | some r2 =>
      rw [h2] at h
      simp only [Option.map_some, Option.some.injEq] at h
      have h3 := pos (-q) r2 (by grind) h2
      by_cases hz : r2 = 0
      · subst hz; rw [← h]; simpa using h3
      · have hr2 : 0 < r2 := by
          rcases roundFloat_rep 53 (by decide) (-1074) 1024 (-q) r2 (by grind) h2 with h0 | ⟨m', e', h'⟩
          · exact absurd h0 hz
          · exact isFloatRep_pos h'
        have hrn : r < 0 := by grind
        rw [roundF64_neg r hrn, ← h, Rat.neg_neg, h3]; rfl
  · subst hq
    have : roundF64 0 = some 0 := by simp [roundF64, roundFloat]
    rw [this] at h; cases h; exact this
  · exact pos q r hq h

theorem roundHalfEven_ge_half (q : Rat) (N : Int) (hN : N % 2 = 0) (h : (N : Rat) - 1 / 2 ≤ q) :
    N ≤ roundHalfEven q := by
  have hf : N - 1 ≤ q.floor := by
    apply Rat.le_floor_iff.2
    rw [Rat.intCast_sub]
    have : ((1 : Int) : Rat) = 1 := rfl
    grind
  unfold roundHalfEven
  simp only
  split
  · rename_i hr
    have : ((N - 1 : Int) : Rat) < (q.floor : Rat) := by
      rw [Rat.intCast_sub]
      have : ((1 : Int) : Rat) = 1 := rfl
      grind
    have := Rat.intCast_lt_intCast.1 this
    omega
  · split
    · omega
    · split
      · rename_i h2
        have : q.floor % 2 = 0 := by simpa using h2
        omega
      · omega

/-- overflow from `2^1024 - 2^970` on (the tie rounds to the even significand `2^53`, i.e. to `2^1024`) -/
theorem roundF64_overflow_pos (q : Rat) (h : overflowF64 ≤ q) : roundF64 q = none := by
  have hq : 0 < q := Std.lt_of_lt_of_le (by decide +kernel : (0 : Rat) < overflowF64) h
  unfold roundF64
  rw [roundFloat_pos' 53 (-1074) 1024 q hq]
  obtain ⟨s1, s2⟩ := fexp1_spec 53 (by decide) q hq
  obtain ⟨g1, g2, g3⟩ := fexpC_ge 53 (-1074) q
  have h1023 : pow2 1023 ≤ q := Rat.le_trans (by decide +kernel : pow2 1023 ≤ overflowF64) h
  have hF : 971 ≤ fexp1 53 q := by
    have c2 := lt_mul_pow2_of_div_lt s2
    rw [← pow2_add] at c2
    have := pow2_lt_iff.1 (Std.lt_of_le_of_lt h1023 c2)
    omega
  have hEF : fexpC 53 (-1074) q = fexp1 53 q := by omega
  rw [hEF]
  generalize fexp1 53 q = F at *
  have key : pow2 1024 ≤ (roundHalfEven (q / pow2 F) : Rat) * pow2 F := by
    by_cases hF2 : F = 971
    · subst hF2
      have hz : (((2 ^ 53 : Nat) : Int) : Rat) - 1 / 2 ≤ q / pow2 971 :=
        le_div_pow2 (Rat.le_trans (by decide +kernel) h)
      have hM := roundHalfEven_ge_half _ _ (by decide) hz
      have := Rat.mul_le_mul_of_nonneg_right (Rat.intCast_le_intCast.2 hM) (Rat.le_of_lt (pow2_pos 971))
      exact Rat.le_trans (by decide +kernel) this
    · have hM : ((2 ^ (53 - 1) : Nat) : Int) ≤ roundHalfEven (q / pow2 F) :=
        roundHalfEven_ge _ _ (by rw [← pow2_pred_int 53 (by decide)]; exact s1)
      have a1 : pow2 ((53 : Nat) - 1 : Int) ≤ (roundHalfEven (q / pow2 F) : Rat) := by
        rw [pow2_pred_int 53 (by decide)]; exact Rat.intCast_le_intCast.2 hM
      have a2 := Rat.mul_le_mul_of_nonneg_right a1 (Rat.le_of_lt (pow2_pos F))
      rw [← pow2_add] at a2
      exact Rat.le_trans (pow2_le (by omega)) a2
  simp only [ge_iff_le, key, if_true]

theorem roundF64_overflow (q : Rat) (h : overflowF64 ≤ q ∨ q ≤ -overflowF64) : roundF64 q = none := by
  rcases h with h | h
  · exact roundF64_overflow_pos q h
  · have hq : q < 0 := by
      have : (0 : Rat) < overflowF64 := by decide +kernel
      grind
    rw [roundF64_neg q hq, roundF64_overflow_pos (-q) (by grind)]; rfl

theorem roundF64_zero' : roundF64 0 = some 0 := by simp [roundF64, roundFloat]

/-- rounding is odd -/
theorem roundF64_neg_some (q r : Rat) (h : roundF64 q = some r) : roundF64 (-q) = some (-r) := by
  rcases rat_trichotomy q 0 with hq | hq | hq
  · rw [roundF64_neg q hq] at h
    cases h2 : roundF64 (-q) with
    | none => rw [h2] at h; cases h
    | some r2 =>
      rw [h2] at h
      simp only [Option.map_some, Option.some.injEq] at h
      rw [← h, Rat.neg_neg]
  · subst hq
    rw [roundF64_zero'] at h; cases h
    simpa using roundF64_zero'
  · have hn : -q < 0 := by grind
    rw [roundF64_neg (-q) hn, Rat.neg_neg, h]; rfl

/-- a float64 is `0`, a positive value of the format, or the negative of one -/
theorem representable_cases (r : Rat) (h : roundF64 r = some r) :
    r = 0 ∨ (∃ m e, IsFloatRep 53 (-1074) 1024 r m e) ∨ (∃ m e, IsFloatRep 53 (-1074) 1024 (-r) m e) := by
  rcases rat_trichotomy r 0 with hq | hq | hq
  · right; right
    have h2 := roundF64_neg_some r r h
    rcases roundFloat_rep 53 (by decide) (-1074) 1024 (-r) (-r) (by grind) h2 with h0 | h'
    · grind
    · exact h'
  · exact Or.inl hq
  · right; left
    rcases roundFloat_rep 53 (by decide) (-1074) 1024 r r hq h with h0 | h'
    · grind
    · exact h'

theorem roundF64_nonneg (q r : Rat) (hq : 0 ≤ q) (h : roundF64 q = some r) : 0 ≤ r := by
  rcases rat_trichotomy q 0 with h1 | h1 | h1
  · grind
  · subst h1; rw [roundF64_zero'] at h; cases h; exact Rat.le_refl
  · rcases roundFloat_rep 53 (by decide) (-1074) 1024 q r h1 h with h0 | ⟨m', e', h'⟩
    · rw [h0]; exact Rat.le_refl
    · exact Rat.le_of_lt (isFloatRep_pos h')

/-- faithful rounding, lower half: a float64 `r'` below `q` is below the rounding of `q` -/
theorem roundF64_ge_of_representable (q r r' : Rat) (h : roundF64 q = some r) (hr' : roundF64 r' = some r')
    (hle : r' ≤ q) : r' ≤ r := by
  rcases rat_trichotomy q 0 with hq | hq | hq
  · -- q < 0: -q ≤ -r', both positive
    have hn := roundF64_neg_some q r h
    rcases representable_cases r' hr' with h0 | ⟨m, e, hp⟩ | ⟨m, e, hp⟩
    · grind
    · have := isFloatRep_pos hp; grind
    · obtain ⟨r2, e1, e2⟩ := roundFloat_le_of_rep 53 (by decide) (-1074) 1024 (-q) (-r') m e (by grind) (by grind) hp
      have : roundF64 (-q) = some r2 := e1
      rw [hn] at this
      cases this
      grind
  · subst hq
    rw [roundF64_zero'] at h; cases h; exact hle
  · rcases representable_cases r' hr' with h0 | ⟨m, e, hp⟩ | ⟨m, e, hp⟩
    · have := roundF64_nonneg q r (Rat.le_of_lt hq) h; grind
    · exact roundFloat_ge_of_rep 53 (by decide) (-1074) 1024 q r' r m e hq hle hp h
    · have := roundF64_nonneg q r (Rat.le_of_lt hq) h
      have := isFloatRep_pos hp
      grind

/-- faithful rounding, upper half -/
theorem roundF64_le_of_representable (q r r' : Rat) (h : roundF64 q = some r) (hr' : roundF64 r' = some r')
    (hle : q ≤ r') : r ≤ r' := by
  have := roundF64_ge_of_representable (-q) (-r) (-r') (roundF64_neg_some q r h) (roundF64_neg_some r' r' hr') (by grind)
  grind

theorem roundHalfEven_below_half (q : Rat) (N : Int) (h1 : (N : Rat) ≤ q) (h2 : q < (N : Rat) + 1 / 2) :
    roundHalfEven q = N := by
  have hf : q.floor = N := by
    have a1 : N ≤ q.floor := Rat.le_floor_iff.2 h1
    have a2 : q.floor < N + 1 := Rat.floor_lt_iff.2 (by
      rw [Rat.intCast_add]
      have : ((1 : Int) : Rat) = 1 := rfl
      grind)
    omega
  unfold roundHalfEven
  simp only [hf]
  have : q - (N : Rat) < 1 / 2 := by grind
  simp only [this, if_true]

/-- between `math.MaxFloat64` and the overflow threshold everything rounds down to `math.MaxFloat64` -/
theorem roundF64_gap_pos (q : Rat) (h1 : maxF64 ≤ q) (h2 : q < overflowF64) : roundF64 q = some maxF64 := by
  have hq : 0 < q := Std.lt_of_lt_of_le (by decide +kernel : (0 : Rat) < maxF64) h1
  unfold roundF64
  rw [roundFloat_pos' 53 (-1074) 1024 q hq]
  obtain ⟨s1, s2⟩ := fexp1_spec 53 (by decide) q hq
  obtain ⟨g1, g2, g3⟩ := fexpC_ge 53 (-1074) q
  have h1023 : pow2 1023 ≤ q := Rat.le_trans (by decide +kernel : pow2 1023 ≤ maxF64) h1
  have hF : 971 ≤ fexp1 53 q := by
    have c2 := lt_mul_pow2_of_div_lt s2
    rw [← pow2_add] at c2
    have := pow2_lt_iff.1 (Std.lt_of_le_of_lt h1023 c2)
    omega
  have hF2 : fexp1 53 q ≤ 971 := by
    have c1 := mul_pow2_le_of_le_div s1
    rw [← pow2_add] at c1
    have c3 : q < pow2 1024 := Std.lt_trans h2 (by decide +kernel)
    have := pow2_lt_iff.1 (Std.lt_of_le_of_lt c1 c3)
    omega
  have hEF : fexpC 53 (-1074) q = 971 := by omega
  rw [hEF]
  have hz1 : ((2 ^ 53 - 1 : Int) : Rat) ≤ q / pow2 971 := le_div_pow2 h1
  have hz2 : q / pow2 971 < ((2 ^ 53 - 1 : Int) : Rat) + 1 / 2 :=
    div_pow2_lt (Std.lt_of_lt_of_le h2 (by decide +kernel))
  rw [roundHalfEven_below_half _ _ hz1 hz2]
  have : ¬ (((2 ^ 53 - 1 : Int) : Rat) * pow2 971 ≥ pow2 1024) := by decide +kernel
  simp only [this, if_false]
  rfl

/-- `roundF64` overflows exactly from `2^1024 - 2^970` on -/
theorem roundF64_none_iff (q : Rat) : roundF64 q = none ↔ (overflowF64 ≤ q ∨ q ≤ -overflowF64) := by
  constructor
  · intro h
    apply Classical.byContradiction
    intro hn
    have hlt : q < overflowF64 := Rat.not_le.1 (fun h' => hn (Or.inl h'))
    have hgt : -overflowF64 < q := Rat.not_le.1 (fun h' => hn (Or.inr h'))
    by_cases c1 : maxF64 ≤ q
    · rw [roundF64_gap_pos q c1 hlt] at h; cases h
    · by_cases c2 : q ≤ -maxF64
      · have := roundF64_neg_some _ _ (roundF64_gap_pos (-q) (by grind) (by grind))
        rw [Rat.neg_neg, h] at this; cases this
      · obtain ⟨r, hr, _⟩ := roundF64_no_overflow q (by grind) (by grind)
        rw [h] at hr; cases hr
  · exact roundF64_overflow q
