import Proofs.SrcTags
/-!
# C12, from source bytes — capture-and-print renders what the body renders; assign binds for what follows

Lifts `capture_equiv_root_iff` and `assign_seq` (`Proofs/C12.lean`, statements about compiled trees)
through the tokenizer, the block parser and the compiler to statements about `run` on template source text
(`spell d items`, any good delimiter set).
-/

/-- `{% capture v %}F{% endcapture %}{{ v }}` -/
def captureSrc (v : Bytes) (F : List Item) (w1 w2 w3 : Ws) : List Item :=
  tg nmCapture v w1 :: (F ++ [tg nmEndcapture [] w2, ob v w3])

/-- **C12 (capture equivalence), from source bytes.** Let `F` be any self-contained template piece
    (`Compiles`: well nested on its own, …) and `v` a variable name (`hv`: the bytes `v` parse to the
    variable `v`). The source

    `{% capture v %}F{% endcapture %}{{ v }}`

    renders normally exactly when `F` — as a template of its own, starting at the line where it stands —
    renders normally, and then to exactly the same bytes. For every value layer `P`, every output layer
    that prints a string as its bytes (`hO`; the standard one does, `stdOut_str`), every configuration with
    good delimiters, file system, include fuel and environment. No side condition on trim markers: at the
    start of a render nothing is pending (`capture_equiv_root`). -/
theorem capture_source (P : Prims) (O : OutPrims) (cfg : Cfg) (fs : FS) (fuel : Nat) (line : Nat) (env : Env)
    (hO : ∀ b, O.chunks (.str b) = .ok [b]) (v : Bytes) (F : List Item) (w1 w2 w3 : Ws)
    (hg : GoodDelims (Delims.ofList cfg.delims))
    (hc : Clean (Delims.ofList cfg.delims) (captureSrc v F w1 w2 w3)) (hcF : Clean (Delims.ofList cfg.delims) F)
    (hv : parseExprSource v = .ok (.var v))
    (hF : Compiles (Delims.ofList cfg.delims) F (line + countNL ((tg nmCapture v w1).spell (Delims.ofList cfg.delims))))
    (out : Bytes) :
    run P O cfg fs fuel (spell (Delims.ofList cfg.delims) (captureSrc v F w1 w2 w3)) line env = .ok out ↔
    run P O cfg fs fuel (spell (Delims.ofList cfg.delims) F)
      (line + countNL ((tg nmCapture v w1).spell (Delims.ofList cfg.delims))) env = .ok out := by
  obtain ⟨nF, hnF⟩ := hF.nodes
  unfold captureSrc at hc ⊢
  rw [run_spell P O cfg fs fuel F _ env hg hcF, hnF, run_spell P O cfg fs fuel _ line env hg hc, tokensOf_block0,
    tokensOf_ob, tokensOf_nil]
  have hcomp : ∀ l2 l3, compileTokens (tgTok (Delims.ofList cfg.delims) nmCapture v w1 line ::
      (tokensOf (Delims.ofList cfg.delims) F (line + countNL ((tg nmCapture v w1).spell (Delims.ofList cfg.delims))) ++
        (tgTok (Delims.ofList cfg.delims) nmEndcapture [] w2 l2 :: [obTok (Delims.ofList cfg.delims) v w3 l3]))) =
      .ok [.capture line v nF, .obj l3 (.var v)] := by
    intro l2 l3
    have := compiles_append (compile_capture (Delims.ofList cfg.delims) v w1 w2 _ line l2 nF hnF)
      (compile_ob (Delims.ofList cfg.delims) v w3 l3 (.var v) hv)
    simpa using this
  rw [hcomp]
  show runRoot P O cfg fs fuel _ env = .ok out ↔ runRoot P O cfg fs fuel nF env = .ok out
  rw [runRoot_ok_iff, runRoot_ok_iff]
  exact capture_equiv_root_iff (mkCtx P O cfg fs fuel) (incQuiet_mkCtx P O cfg fs fuel) hO _ _ v nF env out

/-- the same for the standard output layer -/
theorem capture_source_std (P : Prims) (cfg : Cfg) (fs : FS) (fuel : Nat) (line : Nat) (env : Env)
    (v : Bytes) (F : List Item) (w1 w2 w3 : Ws)
    (hg : GoodDelims (Delims.ofList cfg.delims))
    (hc : Clean (Delims.ofList cfg.delims) (captureSrc v F w1 w2 w3)) (hcF : Clean (Delims.ofList cfg.delims) F)
    (hv : parseExprSource v = .ok (.var v))
    (hF : Compiles (Delims.ofList cfg.delims) F (line + countNL ((tg nmCapture v w1).spell (Delims.ofList cfg.delims))))
    (out : Bytes) :
    run P stdOut cfg fs fuel (spell (Delims.ofList cfg.delims) (captureSrc v F w1 w2 w3)) line env = .ok out ↔
    run P stdOut cfg fs fuel (spell (Delims.ofList cfg.delims) F)
      (line + countNL ((tg nmCapture v w1).spell (Delims.ofList cfg.delims))) env = .ok out :=
  capture_source P stdOut cfg fs fuel line env stdOut_str v F w1 w2 w3 hg hc hcF hv hF out

/-- **C12 (assign binds for the rest of the render), from source bytes.** If the arguments of
    `{% assign … %}` parse to the assignment `x = ex` and `ex` evaluates (in the environment of the render)
    to `v`, then the source `{% assign … %}R` gives exactly the result of `R` — any self-contained item
    list, at any nesting depth inside it — run as a template of its own with `x` bound to `v`: same output
    or same located error. If `ex` fails to evaluate with cause `c`, the render fails with `c`, located at the
    line of the assign tag (the start line), and nothing is rendered. -/
theorem assign_source (P : Prims) (O : OutPrims) (cfg : Cfg) (fs : FS) (fuel : Nat) (line : Nat) (env : Env)
    (args x : Bytes) (ex : Expr) (R : List Item) (w : Ws)
    (hg : GoodDelims (Delims.ofList cfg.delims))
    (hc : Clean (Delims.ofList cfg.delims) (tg nmAssign args w :: R))
    (hR : Compiles (Delims.ofList cfg.delims) R (line + countNL ((tg nmAssign args w).spell (Delims.ofList cfg.delims))))
    (hp : parseStatement kwAssign args = .ok (.assign x ex)) :
    (∀ v, evaluate P env ex = .ok v →
      run P O cfg fs fuel (spell (Delims.ofList cfg.delims) (tg nmAssign args w :: R)) line env =
      run P O cfg fs fuel (spell (Delims.ofList cfg.delims) R)
        (line + countNL ((tg nmAssign args w).spell (Delims.ofList cfg.delims))) (env.set x v)) ∧
    (∀ c, evaluate P env ex = .err c →
      run P O cfg fs fuel (spell (Delims.ofList cfg.delims) (tg nmAssign args w :: R)) line env =
        .err ⟨line, true, c, .byCause⟩) := by
  obtain ⟨nR, hnR⟩ := hR.nodes
  have hcR : Clean (Delims.ofList cfg.delims) R := hc.2.2.2
  have hcomp := compiles_append (compile_assign (Delims.ofList cfg.delims) args w line x ex hp) hnR
  have hrun : run P O cfg fs fuel (spell (Delims.ofList cfg.delims) (tg nmAssign args w :: R)) line env =
      runRoot P O cfg fs fuel (.assign line x ex :: nR) env := by
    rw [run_spell P O cfg fs fuel _ line env hg hc, tokensOf_tg]
    simp only [List.cons_append, List.nil_append] at hcomp
    rw [hcomp]
    rfl
  constructor
  · intro v hv
    rw [hrun, run_spell P O cfg fs fuel R _ _ hg hcR, hnR]
    exact runRoot_assign P O cfg fs fuel line x ex nR env v hv
  · intro c hv
    rw [hrun]
    exact runRoot_assign_err P O cfg fs fuel line x ex nR env c hv

/-! ## Non-vacuity, on concrete bytes (default delimiters) -/

/-- `a {{- y }}{% if y %}b{% endif %}`: a body with a trim marker and a nested block -/
def c12F : List Item := [.text [97, 32], .obj [121] true false [32] [32], tg nmIf [121], .text [98], tg (endPrefix ++ nmIf) []]

example : spell Delims.default (captureSrc [118] c12F Ws.std Ws.std Ws.std) =
    [123, 37, 32, 99, 97, 112, 116, 117, 114, 101, 32, 118, 32, 37, 125,
     97, 32, 123, 123, 45, 32, 121, 32, 125, 125, 123, 37, 32, 105, 102, 32, 121, 32, 37, 125, 98, 123, 37, 32, 101, 110, 100, 105, 102, 32, 37, 125,
     123, 37, 32, 101, 110, 100, 99, 97, 112, 116, 117, 114, 101, 32, 37, 125, 123, 123, 32, 118, 32, 125, 125] := by decide

/-- `{% capture v %}a {{- y }}{% if y %}b{% endif %}{% endcapture %}{{ v }}` renders what the body renders,
    for every value layer and environment -/
example (P : Prims) (fs : FS) (env : Env) (out : Bytes) :
    run P stdOut {} fs 1 (spell Delims.default (captureSrc [118] c12F Ws.std Ws.std Ws.std)) 1 env = .ok out ↔
    run P stdOut {} fs 1 (spell Delims.default c12F) 1 env = .ok out :=
  capture_source_std P {} fs 1 1 env [118] c12F Ws.std Ws.std Ws.std (by decide) (by decide) (by decide) rfl (by decide) out

/-- `{% assign x = 1 %}{{ x }}⏎{% if x %}{{ x }}{% endif %}` is `{{ x }}⏎{% if x %}{{ x }}{% endif %}` run with `x` = 1 -/
def c12R : List Item := [ob [120], .text [10], tg nmIf [120], ob [120], tg (endPrefix ++ nmIf) []]

example (P : Prims) (O : OutPrims) (fs : FS) (env : Env) :
    run P O {} fs 1 (spell Delims.default (tg nmAssign [120, 32, 61, 32, 49] :: c12R)) 1 env =
    run P O {} fs 1 (spell Delims.default c12R) 1 (env.set [120] (.int .int 1)) :=
  (assign_source P O {} fs 1 1 env [120, 32, 61, 32, 49] [120] (.lit (.int .int 1)) c12R Ws.std (by decide) (by decide) (by decide)
    rfl).1 (.int .int 1) rfl
