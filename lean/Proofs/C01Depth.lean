import Proofs.C01
import Proofs.C14Depth
/-!
# C01 — rendering ends for EVERY file layout, cyclic ones included

`{% include %}` is the only unbounded recursion of the renderer. Since the repair `fixes/include-depth-limit.patch`
the Go code bounds it: `RenderFile` refuses at `depth >= maxIncludeDepth`. The model's include fuel is that bound
(`fuel = maxIncludeDepth - depth`), so the statements below quantify over all layouts `fs` with no acyclicity
hypothesis, and "out of fuel" is not one of the results: at fuel 0 the handler is the depth ERROR.
-/

/-- **C01 (every layout).** For EVERY file layout `fs` — a file that includes itself, cycles through several
    files, chains of any length — every configuration, source, start line, environment and fuel (`fuel` include
    levels left; the standard engine starts with `maxIncludeDepth` = 100, `runStd`):
    1. the render ends in output, in a located error, or in an explicit `unmodelled` marker: never a panic
       (`run_std_noPanic`), and the function is total (Lean's termination check: the recursion through
       `include` is a structural recursion on the fuel, `incFuel`);
    2. with no level left the include handler is the depth error of `RenderFile`, whatever the file system
       holds — the base of the recursion is a result of the real code, not a gap of the model;
    3. an `unmodelled` answer of the handler never stands for "include too deep": it is the `unmodelled` of
       compiling or of rendering (one level further in) a file that was found. -/
theorem run_terminates_all_layouts (cfg : Cfg) (fs : FS) (fuel : Nat) (src : Bytes) (line : Nat) (env : Env) :
    ((∃ out, run stdPrims stdOut cfg fs fuel src line env = .ok out) ∨
     (∃ e, run stdPrims stdOut cfg fs fuel src line env = .err e) ∨
     (∃ w, run stdPrims stdOut cfg fs fuel src line env = .unmodelled w)) ∧
    (∀ (l : Nat) (f : Bytes) (env' : Env), incFuel stdPrims stdOut cfg fs 0 l f env' = .fail (.plain .includeDepth)) ∧
    (∀ (n l : Nat) (f : Bytes) (env' : Env) (w : String), incFuel stdPrims stdOut cfg fs n l f env' = .unmodelled w →
      ∃ m src', n = m + 1 ∧ fileSource fs f = some src' ∧
        (compileSource cfg.delims src' l = .unmodelled w ∨
         ∃ root, compileSource cfg.delims src' l = .ok root ∧
           ((renderRoot (mkCtx stdPrims stdOut cfg fs m) root env').runPure).2 = .unmodelled w)) :=
  ⟨run_result stdPrims stdOut std_noPanic cfg fs fuel src line env, fun _ _ _ => rfl,
   fun n l f env' w h => incFuel_unmodelled_origin stdPrims stdOut cfg fs n l f env' w h⟩

/-- **C01 (the defect's input on the standard engine).** `runStd` (fuel `maxIncludeDepth` = 100) on the layout
    `a ↦ T{% include "a" %}` with the template `{% include "a" %}`: a located error, raised by the 100th nested copy of
    the file (`self_include_depth_error` at `n = 100`) — where the unrepaired code overflowed the stack. -/
theorem self_include_fails_at_100 (cfg : Cfg) (fs : FS) (line : Nat) (env : Env)
    (q : UInt8) (a : Bytes) (w w' : Ws) (T : Bytes) (hq : q = 34 ∨ q = 39) (hn : q ∉ a)
    (hg : GoodDelims (Delims.ofList cfg.delims)) (hc : Clean (Delims.ofList cfg.delims) [includeItem q a w])
    (hcf : Clean (Delims.ofList cfg.delims) [.text T, includeItem q a w'])
    (hfile : fileSource fs (joinPath (dirPath cfg.path) a) = some (spell (Delims.ofList cfg.delims) [.text T, includeItem q a w'])) :
    runStd cfg fs (spell (Delims.ofList cfg.delims) [includeItem q a w]) line env =
      .err ⟨line + 100 * countNL T, true, .includeDepth, .byCause⟩ :=
  self_include_depth_error stdPrims stdOut cfg fs maxIncludeDepth line env q a w w' T hq hn hg hc hcf hfile


/-! ## Non-vacuity, on concrete bytes (`selfFs`: `a ↦ x⏎{% include "a" %}`) -/

/-- a cyclic layout satisfies the theorem like any other -/
example (env : Env) :
    (∃ out, run stdPrims stdOut {} selfFs 100 [123, 37, 32, 105, 110, 99, 108, 117, 100, 101, 32, 34, 97, 34, 32, 37, 125] 1 env = .ok out) ∨
    (∃ e, run stdPrims stdOut {} selfFs 100 [123, 37, 32, 105, 110, 99, 108, 117, 100, 101, 32, 34, 97, 34, 32, 37, 125] 1 env = .err e) ∨
    (∃ w, run stdPrims stdOut {} selfFs 100 [123, 37, 32, 105, 110, 99, 108, 117, 100, 101, 32, 34, 97, 34, 32, 37, 125] 1 env = .unmodelled w) :=
  (run_terminates_all_layouts {} selfFs 100 _ 1 env).1

/-- the standard engine: line 101 -/
example (env : Env) :
    runStd {} selfFs [123, 37, 32, 105, 110, 99, 108, 117, 100, 101, 32, 34, 97, 34, 32, 37, 125] 1 env =
      .err ⟨101, true, .includeDepth, .byCause⟩ :=
  self_include_fails_at_100 {} selfFs 1 env 34 [97] Ws.std Ws.std [120, 10] (.inl rfl) (by decide) (by decide) (by decide)
    (by decide) rfl

