import Proofs.SrcCompile
import Proofs.LoopLemmas
/-!
# Source-level helpers: writing templates as item lists, and running them

`tg name args w` is the tag `{% name args %}` written with the white space `w = (wl, wm, wr)` and no
trim hyphens; `ob args w` the object `{{ args }}`. `run_spell` is the common first step of every
source-level theorem: `run` on the bytes `spell d items` is the rest of the pipeline on `tokensOf d items`
(by `scan_spell`).
-/

abbrev Ws := Bytes × Bytes × Bytes

/-- one blank in every position -/
def Ws.std : Ws := ([32], [32], [32])

/-- `{% name args %}` with white space `w` and no trim hyphens -/
def tg (name args : Bytes) (w : Ws := Ws.std) : Item := .tag name args false false w.1 w.2.1 w.2.2

/-- `{{ args }}` with white space `(w.1, w.2.2)` and no trim hyphens -/
def ob (args : Bytes) (w : Ws := Ws.std) : Item := .obj args false false w.1 w.2.2

/-- the token of `tg name args w` at `line` -/
def tgTok (d : Delims) (name args : Bytes) (w : Ws) (line : Nat) : Token :=
  { ty := .tag, line := line, name := name, args := args, source := (tg name args w).spell d }

def obTok (d : Delims) (args : Bytes) (w : Ws) (line : Nat) : Token :=
  { ty := .obj, line := line, args := args, source := (ob args w).spell d }

theorem tokensOf_tg (d : Delims) (name args : Bytes) (w : Ws) (r : List Item) (line : Nat) :
    tokensOf d (tg name args w :: r) line =
      tgTok d name args w line :: tokensOf d r (line + countNL ((tg name args w).spell d)) := by
  simp [tokensOf, tg, tgTok, Item.tokens]

theorem tokensOf_ob (d : Delims) (args : Bytes) (w : Ws) (r : List Item) (line : Nat) :
    tokensOf d (ob args w :: r) line =
      obTok d args w line :: tokensOf d r (line + countNL ((ob args w).spell d)) := by
  simp [tokensOf, ob, obTok, Item.tokens]

theorem spell_cons (d : Delims) (it : Item) (r : List Item) : spell d (it :: r) = it.spell d ++ spell d r := rfl

theorem spell_single (d : Delims) (it : Item) : spell d [it] = it.spell d := by simp [spell]

/-- a piece of a template, placed at `line`, is a self-contained template: well nested on its own, every
    object an expression, every tag compiles (decidable; `compiles_nodes` extracts the node list) -/
def Compiles (d : Delims) (items : List Item) (line : Nat) : Prop :=
  (compileTokens (tokensOf d items line)).isOk = true

instance (d : Delims) (items : List Item) (line : Nat) : Decidable (Compiles d items line) := by
  unfold Compiles; infer_instance

theorem Compiles.nodes {d : Delims} {items : List Item} {line : Nat} (h : Compiles d items line) :
    ∃ ns, compileTokens (tokensOf d items line) = .ok ns := by
  unfold Compiles at h
  cases hc : compileTokens (tokensOf d items line) with
  | ok ns => exact ⟨ns, rfl⟩
  | err e => rw [hc] at h; cases h
  | panic w => rw [hc] at h; cases h
  | unmodelled w => rw [hc] at h; cases h

/-- **the first step of every source-level theorem**: the tokenizer reads the spelling back -/
theorem run_spell (P : Prims) (O : OutPrims) (cfg : Cfg) (fs : FS) (fuel : Nat) (items : List Item) (line : Nat) (env : Env)
    (hg : GoodDelims (Delims.ofList cfg.delims)) (hc : Clean (Delims.ofList cfg.delims) items) :
    run P O cfg fs fuel (spell (Delims.ofList cfg.delims) items) line env =
      runCompiled P O cfg fs fuel (compileTokens (tokensOf (Delims.ofList cfg.delims) items line)) env := by
  rw [run_eq_runTokens, scan_spell cfg.delims items line hg hc]
  rfl

theorem compileSource_spell (delims : List Bytes) (items : List Item) (line : Nat)
    (hg : GoodDelims (Delims.ofList delims)) (hc : Clean (Delims.ofList delims) items) :
    compileSource delims (spell (Delims.ofList delims) items) line = compileTokens (tokensOf (Delims.ofList delims) items line) := by
  rw [compileSource_eq_compileTokens, scan_spell delims items line hg hc]

/-! ## Rendering: a block body at the root -/

theorem flush_done_buf (s : RS) (o : Bytes) (s' : RS) (path : Bytes) (loc : Loc)
    (h : (wrapFailAt path loc flushM s).runPure = (o, .ok ((), s'))) : s'.tw.buf = [] ∧ s'.tw.trim = s.tw.trim ∧ s'.env = s.env ∧ o = s.tw.buf := by
  unfold wrapFailAt M.mapFail flushM at h
  simp only at h
  split at h
  · next hb =>
    simp only [Prog.mapFail, Prog.runPure, Prod.mk.injEq, Prog.Outcome.ok.injEq] at h
    obtain ⟨rfl, -, rfl⟩ := h
    have : s.tw.buf = [] := by simpa using hb
    exact ⟨this, rfl, rfl, this.symm⟩
  · simp only [Prog.mapFail, Prog.runPure, List.append_nil, Prod.mk.injEq, Prog.Outcome.ok.injEq] at h
    obtain ⟨rfl, -, rfl⟩ := h
    exact ⟨rfl, rfl, rfl, rfl⟩

/-- after a block body that ended normally nothing is pending in the trim writer -/
theorem blockBody_done_buf (c : RCtx) (body : List Node) (s : RS) (o : Bytes) (s' : RS)
    (h : (renderBlockBody c body s).runPure = (o, .ok (.done, s'))) : s'.tw.buf = [] := by
  unfold renderBlockBody at h
  simp only [bind, M.bind] at h
  rw [Prog.runPure_bind] at h
  rcases hl : (renderList c body s).runPure with ⟨o1, r1⟩
  rw [hl] at h
  cases r1 with
  | ok r =>
    obtain ⟨st, s1⟩ := r
    cases st with
    | done =>
      simp only [M.bind] at h
      rw [Prog.runPure_bind] at h
      rcases hf : (wrapFailAt c.cfg.path invalidLoc flushM s1).runPure with ⟨o2, r2⟩
      rw [hf] at h
      cases r2 with
      | ok r2 =>
        obtain ⟨u, s2⟩ := r2
        simp only [pure, M.pure, Prog.runPure, List.append_nil, Prod.mk.injEq, Prog.Outcome.ok.injEq] at h
        obtain ⟨-, -, rfl⟩ := h
        exact (flush_done_buf s1 o2 s2 _ _ hf).1
      | err e => simp at h
      | panic w => simp at h
      | unmodelled w => simp at h
    | brk e => simp [pure, M.pure, Prog.runPure] at h
    | cont e => simp [pure, M.pure, Prog.runPure] at h
  | err e => simp at h
  | panic w => simp at h
  | unmodelled w => simp at h

/-- the result of rendering a root, from the run of its block body -/
theorem runRoot_eq_blockBody (P : Prims) (O : OutPrims) (cfg : Cfg) (fs : FS) (fuel : Nat) (root : List Node) (env : Env) :
    runRoot P O cfg fs fuel root env =
      match (renderBlockBody (mkCtx P O cfg fs fuel) root ⟨env, {}⟩).runPure with
      | (o, .ok (.done, _)) => .ok o
      | (_, .ok (.brk e, _)) => .err e
      | (_, .ok (.cont e, _)) => .err e
      | (_, .err (.located e)) => .err e
      | (_, .err (.plain c)) => .err ⟨0, false, c, .byCause⟩
      | (_, .panic w) => .panic w
      | (_, .unmodelled w) => .unmodelled w := by
  unfold runRoot frender
  rw [renderRoot_eq_blockBody, Prog.bind_assoc, Prog.runPure_bind]
  rcases (renderBlockBody (mkCtx P O cfg fs fuel) root ⟨env, {}⟩).runPure with ⟨o, r⟩
  cases r with
  | ok r =>
    obtain ⟨st, s'⟩ := r
    cases st <;> simp [Prog.bind, statusToProg, Prog.runPure]
  | err e => cases e <;> rfl
  | panic w => rfl
  | unmodelled w => rfl

/-- a root that is one node behaving like `wrapAt … (renderBlockBody body)` (a conditional whose selected
    branch is `body`, a loop clause…) succeeds exactly when `body` as a template of its own succeeds, with
    the same output -/
theorem runRoot_wrapped_body_ok (P : Prims) (O : OutPrims) (cfg : Cfg) (fs : FS) (fuel : Nat) (n : Node) (body : List Node)
    (env : Env) (loc : Loc)
    (h : renderNode (mkCtx P O cfg fs fuel) n ⟨env, {}⟩ =
         wrapAt cfg.path loc (renderBlockBody (mkCtx P O cfg fs fuel) body) ⟨env, {}⟩) (out : Bytes) :
    runRoot P O cfg fs fuel [n] env = .ok out ↔ runRoot P O cfg fs fuel body env = .ok out := by
  rw [runRoot_eq_blockBody P O cfg fs fuel body]
  unfold runRoot
  rw [frender_single, h, Prog.runPure_bind, runPure_wrapAt]
  rcases hb : (renderBlockBody (mkCtx P O cfg fs fuel) body ⟨env, {}⟩).runPure with ⟨o, r⟩
  cases r with
  | ok r =>
    obtain ⟨st, s'⟩ := r
    cases st with
    | done =>
      have hbuf := blockBody_done_buf _ _ _ _ _ hb
      simp only [Status.wrap]
      have hf : (wrapFailAt cfg.path invalidLoc flushM s').runPure = ([], .ok ((), s')) := by
        unfold wrapFailAt M.mapFail flushM
        simp [hbuf, Prog.mapFail, Prog.runPure]
      rw [Prog.runPure_bind, hf]
      simp [Prog.runPure]
    | brk e => simp [Status.wrap, Prog.runPure]
    | cont e => simp [Status.wrap, Prog.runPure]
  | err e => cases e <;> simp
  | panic w => simp
  | unmodelled w => simp

/-- a root that is one node rendering nothing and ending normally -/
theorem runRoot_silent (P : Prims) (O : OutPrims) (cfg : Cfg) (fs : FS) (fuel : Nat) (n : Node) (env : Env)
    (h : renderNode (mkCtx P O cfg fs fuel) n ⟨env, {}⟩ = .ret (.done, ⟨env, {}⟩)) :
    runRoot P O cfg fs fuel [n] env = .ok [] := by
  unfold runRoot
  rw [frender_single, h]
  simp [Prog.bind, wrapFailAt, M.mapFail, flushM, Prog.mapFail, Prog.runPure]

/-! ## From a token of a spelled template back to its item -/

theorem mem_tokensOf_item (d : Delims) : ∀ (items : List Item) (line : Nat) (t : Token), t ∈ tokensOf d items line →
    (t.ty = .tag ∨ t.ty = .obj) →
    ∃ pre it post, items = pre ++ it :: post ∧ it.isText = false ∧ t = it.mainTok d (line + countNL (spell d pre))
  | [], _, t, ht, _ => by simp [tokensOf] at ht
  | it :: r, line, t, ht, hty => by
    simp only [tokensOf, List.mem_append] at ht
    rcases ht with ht | ht
    · rcases Item.tokens_mem d line it t ht with rfl | rfl | rfl
      · rcases hty with h | h <;> cases h
      · rcases hty with h | h <;> cases h
      · refine ⟨[], it, r, rfl, ?_, by simp [spell, countNL]⟩
        cases it with
        | text s => rcases hty with h | h <;> cases h
        | obj args hl hr wl wr => rfl
        | tag name args hl hr wl wm wr => rfl
    · obtain ⟨pre, it', post, h1, h2, h3⟩ := mem_tokensOf_item d r _ t ht hty
      refine ⟨it :: pre, it', post, by rw [h1]; rfl, h2, ?_⟩
      rw [h3, spell_cons, countNL_append, Nat.add_assoc]

theorem Item.mainTok_line (d : Delims) (l : Nat) (it : Item) : (it.mainTok d l).line = l := by
  cases it <;> rfl

/-- strict variables: an unbound variable is an error -/
def strictCfg : Cfg := { strict := true }
