import Proofs.ParseLemmas
import Liquid.Generated.Grammar
/-!
# C06 — a template is accepted iff its block tags are properly nested and closed

All theorems are about `parseTokens g chk` (the model of `parser.Config.parseTokens`) for ANY
grammar table `g` with `g.OK` (the side conditions of the `AddBlock`/`Clause` builder) and ANY
expression checker `chk`; they are instantiated to `stdGrammar`, which translator T1 ties to
`tags/standard_tags.go` (`grammar_is_standard`).

The specification (`Liquid/Nest.lean`) never mentions a stack: `WellNested g` is the declarative
grammar over token lists, `Derives g chk toks ast` additionally names the tree, `unparse` prints a
tree, `canon g` erases from a token list what the tree does not keep (comment blocks; token
boundaries and kinds inside raw blocks; the line/args/source fields of raw/endraw/end tags and of
trim markers).
-/

/-! ## The table -/

/-- T1: the table extracted from `AddStandardTags` is the table the model uses -/
theorem grammar_is_standard : genGrammar = stdGrammar ∧ genTags = stdTags := by decide

/-- the standard table satisfies the builder's side conditions -/
theorem stdGrammar_ok : stdGrammar.OK = true := by decide

/-! ## Example tokens (byte literals): `{% if x %}`, `{% else %}`, `{% endif %}`, `{% for %}`,
    `{% comment %}`, `{% endcomment %}`, `{% raw %}`, `{% endraw %}`, text, objects -/

def exIf : Token := { ty := .tag, line := 1, name := [105, 102], args := [120] }
def exElse : Token := { ty := .tag, line := 2, name := [101, 108, 115, 101] }
def exEndif : Token := { ty := .tag, line := 3, name := [101, 110, 100, 105, 102] }
def exFor : Token := { ty := .tag, line := 2, name := [102, 111, 114] }
def exWhen : Token := { ty := .tag, line := 2, name := [119, 104, 101, 110] }
def exComment : Token := { ty := .tag, line := 4, name := commentName }
def exEndcomment : Token := { ty := .tag, line := 5, name := endcommentName }
def exRaw : Token := { ty := .tag, line := 6, name := rawName }
def exEndraw : Token := { ty := .tag, line := 7, name := endrawName }
def exText : Token := { ty := .text, line := 1, source := [97] }
def exObj : Token := { ty := .obj, line := 2, args := [120], source := [123, 123, 120, 125, 125] }
def exBadObj : Token := { ty := .obj, line := 9, args := [124], source := [123, 123, 124, 125, 125] }
/-- a checker that rejects exactly the expression `|` -/
def exChk : Bytes → Option Cause := fun a => if a = [124] then some .syntax else none

/-! ## Acceptance is derivability -/

/-- The parser accepts `toks` with tree `ast` exactly when the declarative grammar derives `ast`
    from `toks`: the tree mirrors the textual nesting. -/
theorem parse_ok_iff_derives (g : Grammar) (ok : g.OK = true) (chk : Bytes → Option Cause)
    (toks : List Token) (ast : List AST) :
    parseTokens g chk toks = .ok ast ↔ Derives g chk toks ast :=
  ⟨derives_of_parse, parse_of_derives ok⟩

/-- the tree of `{% if x %}a{% else %}{{x}}{% endif %}` is derived, hence returned -/
example : parseTokens stdGrammar exChk [exIf, exText, exElse, exObj, exEndif] =
    .ok [.block exIf [.text exText] [(exElse, [.obj exObj])]] := by
  apply (parse_ok_iff_derives stdGrammar stdGrammar_ok exChk _ _).mpr
  exact Derives.block exIf exEndif [exText] [.text exText] [(exElse, [exObj], [.obj exObj])] [] []
    (by decide) (.text _ _ _ rfl .nil) (by decide)
    (by intro sg h; simp only [List.mem_singleton] at h; subst h; exact .obj _ _ _ rfl rfl .nil)
    (by decide) .nil

/-- `(⇒)` holds for every table, even one that is not `OK` -/
theorem parse_derives (g : Grammar) (chk : Bytes → Option Cause) (toks : List Token) (ast : List AST)
    (h : parseTokens g chk toks = .ok ast) : Derives g chk toks ast := derives_of_parse h

example : Derives stdGrammar exChk [exRaw, exObj, exEndraw] [.raw [[123, 123, 120, 125, 125]]] :=
  parse_derives stdGrammar exChk _ _ (by rfl)

/-- **C06, main statement.** A template parses successfully exactly when its tokens are well
    nested and the expression parser accepts every object outside comment/raw interiors. -/
theorem parse_ok_iff (g : Grammar) (ok : g.OK = true) (chk : Bytes → Option Cause) (toks : List Token) :
    (parseTokens g chk toks).isOk = true ↔ WellNested g toks ∧ ObjsOk g chk toks := by
  constructor
  · intro h
    cases hp : parseTokens g chk toks with
    | ok ast => have hd := derives_of_parse hp; exact ⟨hd.wellNested, hd.objsOk⟩
    | err e => rw [hp] at h; cases h
    | panic w => rw [hp] at h; cases h
    | unmodelled w => rw [hp] at h; cases h
  · intro ⟨hw, ho⟩
    obtain ⟨ns, hns⟩ := hw.derives ho
    rw [parse_of_derives ok hns]; rfl

theorem parse_ok_iff_std (chk : Bytes → Option Cause) (toks : List Token) :
    (parseTokens stdGrammar chk toks).isOk = true ↔ WellNested stdGrammar toks ∧ ObjsOk stdGrammar chk toks :=
  parse_ok_iff stdGrammar stdGrammar_ok chk toks

/-- the same, for the table as extracted from `tags/standard_tags.go` by T1 -/
theorem parse_ok_iff_generated (chk : Bytes → Option Cause) (toks : List Token) :
    (parseTokens genGrammar chk toks).isOk = true ↔ WellNested genGrammar toks ∧ ObjsOk genGrammar chk toks := by
  rw [grammar_is_standard.1]; exact parse_ok_iff_std chk toks

theorem parse_ok_iff_derives_std (chk : Bytes → Option Cause) (toks : List Token) (ast : List AST) :
    parseTokens stdGrammar chk toks = .ok ast ↔ Derives stdGrammar chk toks ast :=
  parse_ok_iff_derives stdGrammar stdGrammar_ok chk toks ast

/-- both sides hold: `{% if x %}{% comment %}{% endif %}{{|}}{% endcomment %}{% endif %}` is accepted —
    the stray `endif` and the bad object are inside the comment -/
example : (parseTokens stdGrammar exChk [exIf, exComment, exEndif, exBadObj, exEndcomment, exEndif]).isOk = true := by rfl
example : WellNested stdGrammar [exIf, exComment, exEndif, exBadObj, exEndcomment, exEndif] ∧
    ObjsOk stdGrammar exChk [exIf, exComment, exEndif, exBadObj, exEndcomment, exEndif] :=
  (parse_ok_iff_std exChk _).mp (by rfl)
/-- both sides fail: `{% if x %}{% for %}{% endif %}` is not well nested -/
example : ¬ WellNested stdGrammar [exIf, exFor, exEndif] := by
  intro h
  have := (parse_ok_iff_std (fun _ => none) _).mpr ⟨h, fun t _ _ => rfl⟩
  exact absurd this (by decide)
/-- well nested, but an object does not parse: rejected -/
example : WellNested stdGrammar [exIf, exBadObj, exEndif] ∧ ¬ ObjsOk stdGrammar exChk [exIf, exBadObj, exEndif] := by
  refine ⟨((parse_ok_iff_std (fun _ => none) _).mp (by rfl)).1, ?_⟩
  intro h
  have := h exBadObj (by decide) rfl
  exact absurd this (by decide)

/-! ## Round trips -/

/-- printing a well-formed tree and parsing it again gives the tree back -/
theorem parse_unparse (g : Grammar) (ok : g.OK = true) (chk : Bytes → Option Cause) (ast : List AST)
    (h : wfList g chk ast = true) : parseTokens g chk (unparse ast) = .ok ast :=
  parse_of_derives ok (derives_unparse_list ast h)

theorem parse_unparse_std (chk : Bytes → Option Cause) (ast : List AST) (h : wfList stdGrammar chk ast = true) :
    parseTokens stdGrammar chk (unparse ast) = .ok ast := parse_unparse stdGrammar stdGrammar_ok chk ast h

example : wfList stdGrammar exChk [.block exIf [.raw [[97], [98]], .trim true] [(exElse, [.obj exObj])], .text exText] = true := by
  simp [wfList, AST.wf, wfClauses]; decide

/-- the accepted tree is well formed: every clause is admitted by its block, every leaf carries a
    token of its kind, every object passed `chk` -/
theorem parse_wf (g : Grammar) (chk : Bytes → Option Cause) (toks : List Token) (ast : List AST)
    (h : parseTokens g chk toks = .ok ast) : wfList g chk ast = true := (derives_of_parse h).wf

example : wfList stdGrammar exChk [.block exIf [.text exText] [(exElse, [.obj exObj])]] = true :=
  parse_wf stdGrammar exChk [exIf, exText, exElse, exObj, exEndif] _ (by rfl)

/-- in particular (`WFList g` = `wfList g` with the accept-all checker): every clause of the accepted
    tree is admitted by its block -/
theorem parse_WF (g : Grammar) (chk : Bytes → Option Cause) (toks : List Token) (ast : List AST)
    (h : parseTokens g chk toks = .ok ast) : WFList g ast = true := (derives_of_parse h).weaken.wf

example : WFList stdGrammar [.block exIf [.text exText] [(exElse, [.obj exObj])]] = true :=
  parse_WF stdGrammar exChk [exIf, exText, exElse, exObj, exEndif] _ (by rfl)

/-- **The tree mirrors the textual nesting**: printing the accepted tree gives back the token list,
    up to what the tree does not keep (`canon`: comment blocks dropped, raw interiors as text tokens
    of the same sources, end tags and trim markers reduced to their name/direction). -/
theorem unparse_parse (g : Grammar) (ok : g.OK = true) (chk : Bytes → Option Cause) (toks : List Token)
    (ast : List AST) (h : parseTokens g chk toks = .ok ast) : unparse ast = canon g toks :=
  (derives_of_parse h).unparse_canon ok

theorem unparse_parse_std (chk : Bytes → Option Cause) (toks : List Token) (ast : List AST)
    (h : parseTokens stdGrammar chk toks = .ok ast) : unparse ast = canon stdGrammar toks :=
  unparse_parse stdGrammar stdGrammar_ok chk toks ast h

/-- `{% if x %}a{% comment %}{{|}}{% endcomment %}{% else %}{{x}}{% endif %}`: the comment block is the
    only thing that disappears; `endif` loses its line -/
example : canon stdGrammar [exIf, exText, exComment, exBadObj, exEndcomment, exElse, exObj, exEndif] =
    [exIf, exText, exElse, exObj, bareTag [101, 110, 100, 105, 102]] := by decide

/-- for token lists without comment, raw, end-tag fields or trim fields, `canon` is the identity, so
    the round trip is exact -/
theorem canon_id_example : canon stdGrammar [exIf, exText, exElse, exObj, bareTag [101, 110, 100, 105, 102]] =
    [exIf, exText, exElse, exObj, bareTag [101, 110, 100, 105, 102]] := by decide

/-! ## No panic; the errors -/

/-- the pop of the block stack is always guarded (for every table and checker) -/
theorem parseTokens_no_panic (g : Grammar) (chk : Bytes → Option Cause) (toks : List Token) :
    (parseTokens g chk toks).isPanic = false := by
  unfold parseTokens
  have := loop_good (g := g) (chk := chk) toks {}
  cases h : parseLoop g chk {} toks with
  | ok s =>
    simp only
    cases s.mode with
    | comment o => rfl
    | raw o sl => rfl
    | normal => simp only; cases s.stack <;> rfl
  | err e => rfl
  | panic w => rw [h] at this; cases this
  | unmodelled w => rfl

example : (parseTokens stdGrammar exChk [exEndif, exElse, exEndraw, exEndcomment]).isPanic = false :=
  parseTokens_no_panic _ _ _

/-- the result is a tree, or one of exactly three errors (never `panic`, never `unmodelled`, never a
    compile-phase error): when parsing fails, no tree exists and nothing can be rendered -/
theorem parse_result_cases (g : Grammar) (chk : Bytes → Option Cause) (toks : List Token) :
    (∃ ast, parseTokens g chk toks = .ok ast) ∨
    (∃ c l, parseTokens g chk toks = .err ⟨.objSyntax c, l⟩) ∨
    (∃ l, parseTokens g chk toks = .err ⟨.notInside, l⟩) ∨
    (∃ l, parseTokens g chk toks = .err ⟨.unterminated, l⟩) := by
  unfold parseTokens
  have := loop_good (g := g) (chk := chk) toks {}
  cases h : parseLoop g chk {} toks with
  | ok s =>
    simp only
    cases s.mode with
    | comment o => exact .inr (.inr (.inr ⟨_, rfl⟩))
    | raw o sl => exact .inr (.inr (.inr ⟨_, rfl⟩))
    | normal =>
      simp only
      cases s.stack with
      | nil => exact .inl ⟨_, rfl⟩
      | cons f fs => exact .inr (.inr (.inr ⟨_, rfl⟩))
  | err e =>
    rw [h] at this
    obtain ⟨k, l⟩ := e
    cases k with
    | objSyntax c => exact .inr (.inl ⟨c, l, rfl⟩)
    | notInside => exact .inr (.inr (.inl ⟨l, rfl⟩))
    | unterminated => cases this
    | tagSyntax c => cases this
    | undefinedTag => cases this
  | panic w => rw [h] at this; cases this
  | unmodelled w => rw [h] at this; cases this

/-- **first error, object**: after a viable prefix, an object that `chk` rejects is the error,
    located at the object -/
theorem first_error_obj (g : Grammar) (chk : Bytes → Option Cause) (pre rest : List Token) (t : Token) (c : Cause)
    (hv : Viable g chk pre) (ht : t.ty = .obj) (hc : chk t.args = some c) :
    parseTokens g chk (pre ++ t :: rest) = .err ⟨.objSyntax c, t.line⟩ := by
  obtain ⟨⟨cur, st, mode⟩, hs, hm⟩ := hv
  simp only at hm; subst hm
  unfold parseTokens
  rw [loop_append _ hs]
  simp only [parseLoop, step_obj_err ht hc]

example : parseTokens stdGrammar exChk [exIf, exText, exBadObj, exEndif] = .err ⟨.objSyntax .syntax, 9⟩ :=
  first_error_obj stdGrammar exChk [exIf, exText] [exEndif] exBadObj .syntax ⟨_, rfl, rfl⟩ rfl rfl

/-- **first error, nesting**: after a viable prefix, a clause or end tag that the innermost open
    block does not admit (or that stands alone) is the error, located at that tag -/
theorem first_error_notInside (g : Grammar) (chk : Bytes → Option Cause) (pre rest : List Token) (t : Token) (s : PState)
    (hs : parseLoop g chk {} pre = .ok s) (hm : s.mode = .normal)
    (ht : t.ty = .tag) (hk : g.known t.name = true) (hb : g.isBlock t.name = false)
    (hc : t.name ≠ commentName) (hr : t.name ≠ rawName)
    (htop : ∀ f ∈ s.stack.head?, g.isClauseOf f.tok t = false ∧ isEndOf f.tok t = false) :
    parseTokens g chk (pre ++ t :: rest) = .err ⟨.notInside, t.line⟩ := by
  obtain ⟨cur, st, mode⟩ := s
  simp only at hm htop; subst hm
  obtain ⟨cs, hsyn⟩ := syntaxOf_known hk
  have hc' : (t.name == commentName) = false := by simpa using hc
  have hr' : (t.name == rawName) = false := by simpa using hr
  have hp : parentOk cs st.head? = false := by
    cases cs with
    | start n => have := (syntaxOf_some hsyn).2; simp only at this; rw [this] at hb; cases hb
    | clause n ps =>
      cases st with
      | nil => rfl
      | cons f fs =>
        simp only [parentOk, List.head?_cons]
        cases hh : ps.contains f.tok.name with
        | false => rfl
        | true =>
          have := (syntaxOf_some hsyn).2
          simp only at this
          have h1 := (htop f (by simp)).1
          simp [Grammar.isClauseOf, ht, this _ hh, hc, hr] at h1
    | end_ n sn =>
      cases st with
      | nil => rfl
      | cons f fs =>
        simp only [parentOk, List.head?_cons]
        cases hh : f.tok.name == sn with
        | false => rfl
        | true =>
          have := (syntaxOf_some hsyn).2
          simp only at this
          have h2 := (htop f (by simp)).2
          rw [beq_iff_eq] at hh
          simp [isEndOf, ht, this, hh] at h2
  unfold parseTokens
  rw [loop_append _ hs]
  simp only [parseLoop, parseStep, ht, hsyn, hc', hr', hp, Bool.not_false, if_true, Bool.false_eq_true, if_false]

/-- `{% if x %}{% for %}{% endif %}`: `endif` directly inside `for` -/
example : parseTokens stdGrammar exChk [exIf, exFor, exEndif] = .err ⟨.notInside, 3⟩ :=
  first_error_notInside stdGrammar exChk [exIf, exFor] [] exEndif _ rfl rfl rfl (by decide) (by decide) (by decide) (by decide)
    (by intro f hf; cases hf; decide)
/-- a clause tag standing alone -/
example : parseTokens stdGrammar exChk [exText, exWhen] = .err ⟨.notInside, 2⟩ := by rfl

/-! ## End of input inside a block / comment / raw -/

/-- end of input inside a comment: `unterminated`, at the `comment` tag -/
theorem unterminated_comment (g : Grammar) (chk : Bytes → Option Cause) (pre interior : List Token) (o : Token)
    (hv : Viable g chk pre) (ho : g.isCommentOpen o = true) (hi : ∀ t ∈ interior, isEndComment t = false) :
    parseTokens g chk (pre ++ o :: interior) = .err ⟨.unterminated, o.line⟩ := by
  obtain ⟨⟨cur, st, mode⟩, hs, hm⟩ := hv
  simp only at hm; subst hm
  unfold parseTokens
  rw [loop_append _ hs, loop_cons_ok (step_commentOpen ho)]
  have := loop_comment_interior (g := g) (chk := chk) (cur := cur) (st := st) (o := o) [] interior hi
  simp only [List.append_nil] at this
  rw [this]; rfl

example : parseTokens stdGrammar exChk [exIf, exComment, exEndif, exEndraw] = .err ⟨.unterminated, 4⟩ :=
  unterminated_comment stdGrammar exChk [exIf] [exEndif, exEndraw] exComment ⟨_, rfl, rfl⟩ (by decide) (by decide)

/-- end of input inside raw: `unterminated`, at the `raw` tag -/
theorem unterminated_raw (g : Grammar) (chk : Bytes → Option Cause) (pre interior : List Token) (o : Token)
    (hv : Viable g chk pre) (ho : g.isRawOpen o = true) (hi : ∀ t ∈ interior, isEndRaw t = false) :
    parseTokens g chk (pre ++ o :: interior) = .err ⟨.unterminated, o.line⟩ := by
  obtain ⟨⟨cur, st, mode⟩, hs, hm⟩ := hv
  simp only at hm; subst hm
  unfold parseTokens
  rw [loop_append _ hs, loop_cons_ok (step_rawOpen ho)]
  have := loop_raw_interior (g := g) (chk := chk) (cur := cur) (st := st) (o := o) [] interior [] hi
  simp only [List.append_nil] at this
  rw [this]; rfl

example : parseTokens stdGrammar exChk [exText, exRaw, exEndcomment, exEndif] = .err ⟨.unterminated, 6⟩ :=
  unterminated_raw stdGrammar exChk [exText] [exEndcomment, exEndif] exRaw ⟨_, rfl, rfl⟩ (by decide) (by decide)

/-- end of input inside a block whose interior (body and clauses) is itself well nested:
    `unterminated`, at the line of that — innermost — open tag -/
theorem unterminated_block (g : Grammar) (ok : g.OK = true) (chk : Bytes → Option Cause) (pre inner : List Token) (o : Token)
    (hv : Viable g chk pre) (ho : g.isOpen o = true) (hin : BlockInterior g chk o inner) :
    parseTokens g chk (pre ++ o :: inner) = .err ⟨.unterminated, o.line⟩ := by
  obtain ⟨⟨cur, st, mode⟩, hs, hm⟩ := hv
  simp only at hm; subst hm
  obtain ⟨body, bns, segs, hb, hc, hd, rfl⟩ := hin
  unfold parseTokens
  rw [loop_append _ hs, loop_cons_ok (step_open ho), loop_derives ok hb]
  obtain ⟨f', cur', hf', hl⟩ := loop_open_clauses (chk := chk) ok st segs hc hd
    { tok := o, outer := cur, body := none, clauses := [], cur := none } (bns.reverse ++ []) rfl
  rw [hl]
  simp only [hf']

/-- `{% if x %}{% for %}a{% else %}{{x}}`: the innermost open block is the `for` (line 2) -/
example : parseTokens stdGrammar exChk [exIf, exFor, exText, exElse, exObj] = .err ⟨.unterminated, 2⟩ :=
  unterminated_block stdGrammar stdGrammar_ok exChk [exIf] [exText, exElse, exObj] exFor ⟨_, rfl, rfl⟩ (by decide)
    ⟨[exText], [.text exText], [(exElse, [exObj], [.obj exObj])], .text _ _ _ rfl .nil, by decide,
      by intro sg h; simp only [List.mem_singleton] at h; subst h; exact .obj _ _ _ rfl rfl .nil, rfl⟩

/-- Conversely, an `unterminated` error at line `l` means the token list ends inside a comment, a
    raw block or a block whose open tag `o` is on line `l`: the parser reaches `o` without error
    (`Viable pre`), and what follows `o` is comment/raw interior, respectively a well-nested block
    interior (so `o` is the innermost open tag). -/
theorem unterminated_decompose (g : Grammar) (chk : Bytes → Option Cause) (toks : List Token) (l : Nat)
    (h : parseTokens g chk toks = .err ⟨.unterminated, l⟩) :
    ∃ pre o rest, toks = pre ++ o :: rest ∧ l = o.line ∧ Viable g chk pre ∧
      ((g.isCommentOpen o = true ∧ ∀ t ∈ rest, isEndComment t = false) ∨
       (g.isRawOpen o = true ∧ ∀ t ∈ rest, isEndRaw t = false) ∨
       (g.isOpen o = true ∧ BlockInterior g chk o rest)) := by
  unfold parseTokens at h
  have hg := loop_good (g := g) (chk := chk) toks {}
  cases hl : parseLoop g chk {} toks with
  | err e => rw [hl] at h hg; simp only at h; cases h; cases hg
  | panic w => rw [hl] at h; cases h
  | unmodelled w => rw [hl] at h; cases h
  | ok s =>
    rw [hl] at h
    obtain ⟨t1, t2, t3, heq, hs, hd, hm, hrun⟩ := inv_of_loop hl
    obtain ⟨cur, st, mode⟩ := s
    cases mode with
    | comment o =>
      simp only at h; cases h
      obtain ⟨interior, rfl, ho, hi⟩ := hm
      exact ⟨t1 ++ t2, o, interior, by simp [heq], rfl, ⟨_, hrun (by simp), rfl⟩, .inl ⟨ho, hi⟩⟩
    | raw o sl =>
      simp only at h; cases h
      obtain ⟨interior, rfl, ho, hi, _⟩ := hm
      exact ⟨t1 ++ t2, o, interior, by simp [heq], rfl, ⟨_, hrun (by simp), rfl⟩, .inr (.inl ⟨ho, hi⟩)⟩
    | normal =>
      simp only [ModeInv] at hm; subst hm
      cases st with
      | nil => cases h
      | cons f fs =>
        simp only at h; cases h
        obtain ⟨u1, outerT, u2, rfl, _, ⟨hof, _, hf⟩, hfr⟩ := hs
        cases hfc : f.cur with
        | none =>
          rw [hfc] at hf
          simp only at hf
          obtain ⟨rfl, _⟩ := hf
          exact ⟨u1 ++ outerT, f.tok, t2, by simp [heq], rfl, ⟨_, hfr, rfl⟩,
            .inr (.inr ⟨hof, t2, _, [], hd, by simp, by simp, by simp [segToks]⟩)⟩
        | some c =>
          rw [hfc] at hf
          simp only at hf
          obtain ⟨hc0, bodyT, body, segs, _, hbd, hsc, hsd, _, rfl⟩ := hf
          refine ⟨u1 ++ outerT, f.tok, bodyT ++ segToks (segs ++ [(c, t2, cur.reverse)]), by simp [heq, segToks_append, segToks],
            rfl, ⟨_, hfr, rfl⟩, .inr (.inr ⟨hof, bodyT, body, segs ++ [(c, t2, cur.reverse)], hbd, ?_, ?_, rfl⟩)⟩
          · intro sg hsg
            rcases List.mem_append.mp hsg with hsg | hsg
            · exact hsc sg hsg
            · simp only [List.mem_singleton] at hsg; rw [hsg]; exact hc0
          · intro sg hsg
            rcases List.mem_append.mp hsg with hsg | hsg
            · exact hsd sg hsg
            · simp only [List.mem_singleton] at hsg; rw [hsg]; exact hd

example : ∃ pre o rest, [exIf, exFor, exText, exElse, exObj] = pre ++ o :: rest ∧ 2 = o.line ∧ Viable stdGrammar exChk pre ∧
    ((stdGrammar.isCommentOpen o = true ∧ ∀ t ∈ rest, isEndComment t = false) ∨
     (stdGrammar.isRawOpen o = true ∧ ∀ t ∈ rest, isEndRaw t = false) ∨
     (stdGrammar.isOpen o = true ∧ BlockInterior stdGrammar exChk o rest)) :=
  unterminated_decompose stdGrammar exChk _ 2 (by rfl)

/-- **End of input inside a block / comment / raw, both directions.** The parser reports
    `unterminated` at line `l` exactly when the token list is a prefix the parser consumes without
    error, followed by an open tag on line `l` (of a comment, a raw block or a block) that is never
    closed: the rest is comment/raw interior, respectively a well-nested block interior — so that
    tag is the innermost open one. -/
theorem unterminated_iff (g : Grammar) (ok : g.OK = true) (chk : Bytes → Option Cause) (toks : List Token) (l : Nat) :
    parseTokens g chk toks = .err ⟨.unterminated, l⟩ ↔
    ∃ pre o rest, toks = pre ++ o :: rest ∧ l = o.line ∧ Viable g chk pre ∧
      ((g.isCommentOpen o = true ∧ ∀ t ∈ rest, isEndComment t = false) ∨
       (g.isRawOpen o = true ∧ ∀ t ∈ rest, isEndRaw t = false) ∨
       (g.isOpen o = true ∧ BlockInterior g chk o rest)) := by
  constructor
  · exact unterminated_decompose g chk toks l
  · rintro ⟨pre, o, rest, rfl, rfl, hv, h | h | h⟩
    · exact unterminated_comment g chk pre rest o hv h.1 h.2
    · exact unterminated_raw g chk pre rest o hv h.1 h.2
    · exact unterminated_block g ok chk pre rest o hv h.1 h.2

theorem unterminated_iff_std (chk : Bytes → Option Cause) (toks : List Token) (l : Nat) :
    parseTokens stdGrammar chk toks = .err ⟨.unterminated, l⟩ ↔
    ∃ pre o rest, toks = pre ++ o :: rest ∧ l = o.line ∧ Viable stdGrammar chk pre ∧
      ((stdGrammar.isCommentOpen o = true ∧ ∀ t ∈ rest, isEndComment t = false) ∨
       (stdGrammar.isRawOpen o = true ∧ ∀ t ∈ rest, isEndRaw t = false) ∨
       (stdGrammar.isOpen o = true ∧ BlockInterior stdGrammar chk o rest)) :=
  unterminated_iff stdGrammar stdGrammar_ok chk toks l

example : parseTokens stdGrammar exChk [exIf, exRaw, exEndif] = .err ⟨.unterminated, 6⟩ :=
  (unterminated_iff_std exChk _ 6).mpr ⟨[exIf], exRaw, [exEndif], rfl, rfl, ⟨_, rfl, rfl⟩, .inr (.inl ⟨by decide, by decide⟩)⟩

/-- **Every other error is the first offending token.** If parsing fails with an error that is not
    `unterminated`, the token list splits into a prefix the parser consumes without error (ending
    outside comment/raw), and a token `t` at whose line the error is located: an object whose
    expression `chk` rejects (`objSyntax` with that cause), or a tag (`notInside`). With
    `first_error_obj` / `first_error_notInside` this determines the error of every rejected list. -/
theorem error_at_first_bad_token (g : Grammar) (chk : Bytes → Option Cause) (toks : List Token) (e : PErr)
    (h : parseTokens g chk toks = .err e) :
    e.kind = .unterminated ∨
    ∃ pre t rest, toks = pre ++ t :: rest ∧ Viable g chk pre ∧ e.line = t.line ∧
      ((t.ty = .obj ∧ ∃ c, chk t.args = some c ∧ e.kind = .objSyntax c) ∨ (t.ty = .tag ∧ e.kind = .notInside)) := by
  unfold parseTokens at h
  cases hl : parseLoop g chk {} toks with
  | err e' =>
    rw [hl] at h; simp only at h; cases h
    obtain ⟨pre, t, rest, s1, h1, h2, h3⟩ := loop_err_split toks {} e hl
    obtain ⟨hm, hline, hk⟩ := step_err_cases h3
    exact .inr ⟨pre, t, rest, h1, ⟨s1, h2, hm⟩, hline, hk⟩
  | panic w => rw [hl] at h; cases h
  | unmodelled w => rw [hl] at h; cases h
  | ok s =>
    rw [hl] at h
    obtain ⟨cur, st, mode⟩ := s
    cases mode with
    | comment o => simp only at h; cases h; exact .inl rfl
    | raw o sl => simp only at h; cases h; exact .inl rfl
    | normal =>
      cases st with
      | nil => cases h
      | cons f fs => simp only at h; cases h; exact .inl rfl

example : ∃ pre t rest, [exIf, exFor, exEndif] = pre ++ t :: rest ∧ Viable stdGrammar exChk pre ∧ 3 = t.line ∧
    ((t.ty = .obj ∧ ∃ c, exChk t.args = some c ∧ PErrKind.notInside = .objSyntax c) ∨ (t.ty = .tag ∧ PErrKind.notInside = .notInside)) := by
  have := error_at_first_bad_token stdGrammar exChk [exIf, exFor, exEndif] ⟨.notInside, 3⟩ (by rfl)
  rcases this with h | h
  · cases h
  · exact h
