import Proofs.NumLemmas
import Proofs.F64Mono
/-!
# Helper lemmas for C17: the receiver conversion of the numeric filters, zero divisors for every receiver
-/

/-- `Convert(v, float64)`, whenever it succeeds, yields a `float64` -/
theorem convert_f64_shape (v c : GoVal) (h : convert v .f64 = .ok c) : ∃ r, c = .flt .f64 r := by
  simp only [convert] at h
  generalize v.toLiquid = w at h
  cases w <;> simp only [reduceCtorEq] at h
  case int k n =>
    cases hf : f64Round (n : Rat) <;> simp only [hf, Res.bind, reduceCtorEq, Res.ok.injEq] at h
    exact ⟨_, h.symm⟩
  case flt k q =>
    simp only [Res.ok.injEq] at h
    exact ⟨_, h.symm⟩
  case str s =>
    cases hf : parseFloatStr s <;> simp only [hf, Res.bind, reduceCtorEq, Res.ok.injEq] at h
    exact ⟨_, h.symm⟩

/-- an integer of any Go kind converts to the nearest float64 (no overflow: `|n| ≤ 2^64`) -/
theorem convert_int_f64 (k : IntKind) (n : Int) (hk : k.inRange n = true) :
    ∃ r, roundF64 (n : Rat) = some r ∧ convert (.int k n) .f64 = .ok (.flt .f64 r) := by
  have hb : -(2 ^ 64 : Int) ≤ n ∧ n ≤ (2 ^ 64 : Int) := by
    simp only [IntKind.inRange, IntKind.minVal, IntKind.maxVal, Bool.and_eq_true] at hk
    cases k <;> simp [IntKind.isSigned, IntKind.bits] at hk <;> omega
  have h1 : -((((2 ^ 64 : Nat) : Int) : Rat)) ≤ (n : Rat) := by
    rw [← Rat.intCast_neg]; exact Rat.intCast_le_intCast.2 (by simpa using hb.1)
  have h2 : (n : Rat) ≤ (((2 ^ 64 : Nat) : Int) : Rat) := Rat.intCast_le_intCast.2 (by simpa using hb.2)
  obtain ⟨r, e1, _, _⟩ := roundF64_some_of_abs_le (n : Rat) _ _ _ two64_rep h1 h2
  refine ⟨r, e1, ?_⟩
  simp [convert, GoVal.toLiquid, f64Round, e1, Res.bind]
