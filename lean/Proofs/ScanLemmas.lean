import Liquid.Scan
/-! Helper lemmas about the tokenizer model (used by C05, C07, C13, C19). -/

def Token.isTrim (t : Token) : Bool := t.ty == .trimL || t.ty == .trimR

def srcs (ts : List Token) : Bytes := (ts.map Token.source).flatten

@[simp] theorem srcs_nil : srcs [] = [] := rfl
@[simp] theorem srcs_cons (t : Token) (ts : List Token) : srcs (t :: ts) = t.source ++ srcs ts := by
  simp [srcs]
@[simp] theorem srcs_append (a b : List Token) : srcs (a ++ b) = srcs a ++ srcs b := by
  simp [srcs]

/-- running-line check: every located token carries the start line plus the newlines of the
    sources before it -/
def linesOk : Nat → List Token → Bool
  | _, [] => true
  | l, t :: ts => (t.isTrim || t.line == l) && linesOk (l + countNL t.source) ts

theorem countNL_append (a b : Bytes) : countNL (a ++ b) = countNL a + countNL b := by
  simp [countNL]

theorem linesOk_append (l : Nat) (a b : List Token) :
    linesOk l (a ++ b) = (linesOk l a && linesOk (l + countNL (srcs a)) b) := by
  induction a generalizing l with
  | nil => simp [linesOk, countNL]
  | cons t ts ih =>
    simp only [List.cons_append, linesOk, ih, srcs_cons, countNL_append, Bool.and_assoc, Nat.add_assoc]

/-- a regexp whose every match begins with one of the two opening delimiters -/
def StartsWithDelim (re : Re) (d : Delims) : Prop :=
  ∀ fuel s p e c, re.matchAt fuel s p = some (e, c) →
    (d.ol <+: s ∧ p + d.ol.length ≤ e) ∨ (d.tl <+: s ∧ p + d.tl.length ≤ e)

theorem lit_m {R} (fuel : Nat) : ∀ (l : Bytes) (s : Bytes) (p : Nat) (c : Caps) (k : K R) (r : R),
    (Re.lit l).m fuel s p c k = some r → ∃ t, s = l ++ t ∧ k t (p + l.length) c = some r := by
  intro l
  induction l with
  | nil => intro s p c k r h; exact ⟨s, rfl, by simpa [Re.lit, Re.m] using h⟩
  | cons x xs ih =>
    intro s p c k r h
    simp only [Re.lit, List.foldr_cons] at h
    unfold Re.m at h
    unfold Re.m at h
    split at h
    · cases h
    · next y ys =>
      split at h
      · next hy =>
        have hxy : y = x := by simpa [Pred.test] using hy
        obtain ⟨t, ht, hk⟩ := ih ys (p+1) c k r h
        refine ⟨t, by rw [ht, hxy]; rfl, ?_⟩
        simpa [Nat.add_assoc, Nat.add_comm 1] using hk
      · cases h

theorem seq_lit_matchAt (fuel : Nat) (l : Bytes) (x : Re) (s : Bytes) (p e : Nat) (c : Caps)
    (h : (Re.seq (Re.lit l) x).matchAt fuel s p = some (e, c)) : l <+: s ∧ p + l.length ≤ e := by
  unfold Re.matchAt at h
  unfold Re.m at h
  obtain ⟨t, ht, hk⟩ := lit_m fuel l s p [] _ _ h
  obtain ⟨n, c', _, hk'⟩ := Re.m_bounds fuel x t (p + l.length) [] _ _ hk
  simp only [Option.some.injEq, Prod.mk.injEq] at hk'
  exact ⟨⟨t, ht.symm⟩, by omega⟩

theorem tokenRe_startsWithDelim (d : Delims) : StartsWithDelim (tokenRe d) d := by
  intro fuel s p e c h
  unfold tokenRe at h
  simp only at h
  unfold Re.matchAt at h
  unfold Re.m at h
  split at h
  · next r hr =>
    cases h
    exact Or.inl (seq_lit_matchAt fuel _ _ s p e c hr)
  · exact Or.inr (seq_lit_matchAt fuel _ _ s p e c h)

/-- a successful search: the skipped part is a prefix that does not reach the match, and
    the match is found at the head of what remains -/
theorem Re.search_spec (fuel : Nat) (re : Re) : ∀ (s : Bytes) (p sk n e : Nat) (c : Caps),
    re.search fuel s p sk = some (n, e, c) →
      sk ≤ n ∧ n - sk < s.length ∧ re.matchAt fuel (s.drop (n - sk)) (p + (n - sk)) = some (e, c) := by
  intro s
  induction s with
  | nil => intro p sk n e c h; simp [Re.search] at h
  | cons x xs ih =>
    intro p sk n e c h
    unfold Re.search at h
    split at h
    · next e' c' hm =>
      simp only [Option.some.injEq, Prod.mk.injEq] at h
      obtain ⟨rfl, rfl, rfl⟩ := h
      simp [hm]
    · obtain ⟨h1, h2, h3⟩ := ih _ _ _ _ _ h
      have : n - sk = (n - (sk + 1)) + 1 := by omega
      refine ⟨by omega, by simp only [List.length_cons]; omega, ?_⟩
      rw [this, List.drop_succ_cons]
      simpa [Nat.add_assoc, Nat.add_comm 1] using h3

theorem Re.search_none (fuel : Nat) (re : Re) : ∀ (s : Bytes) (p sk : Nat),
    re.search fuel s p sk = none → ∀ i, i < s.length → re.matchAt fuel (s.drop i) (p + i) = none := by
  intro s
  induction s with
  | nil => intro p sk _ i hi; simp at hi
  | cons x xs ih =>
    intro p sk h i hi
    unfold Re.search at h
    split at h
    · cases h
    · next hm =>
      cases i with
      | zero => simpa using hm
      | succ i =>
        have := ih (p+1) (sk+1) h i (by simpa using hi)
        simpa [Nat.add_assoc, Nat.add_comm 1] using this
