import Proofs.RunLemmas
/-!
# Traces with the underlying write calls (helpers for C13 at template level)

`TracedAt` (`Proofs/RunLemmas.lean`) describes a run on a fault-free writer by the BYTES it
writes. Here the same is done for the list of underlying `Write` CALLS (`Prog.runLog`), which is
what `TW.run` returns: from given variables a render performs a fixed list of trim-writer
operations, issues exactly the calls of those operations, and ends with a fixed result, whatever
the state of the trim writer (`TracedAtL`). The calls of a render without hyphens are the chunks it
writes, one call per non-empty chunk (`calls_of_trimFree`), which makes "every chunk written is
valid UTF-8" a statement about the observable calls.
-/

/-- run against a writer that never fails: the list of calls, and the outcome -/
def Prog.runLog {α} : Prog α → List Bytes × Prog.Outcome α
  | .ret a => ([], .ok a)
  | .fail e => ([], .err e)
  | .panic w => ([], .panic w)
  | .unmodelled w => ([], .unmodelled w)
  | .call b k => let (cs, o) := runLog (k .ok); (b :: cs, o)

theorem Prog.runLog_fst {α} (p : Prog α) : p.runLog.1 = p.calls := by
  induction p with
  | call b k ih => simp only [Prog.runLog, Prog.calls, ← ih]
  | _ => rfl

theorem Prog.runPure_eq_runLog {α} (p : Prog α) : p.runPure = (p.runLog.1.flatten, p.runLog.2) := by
  induction p with
  | call b k ih => simp only [Prog.runLog, Prog.runPure, ih, List.flatten_cons]
  | _ => rfl

theorem Prog.runLog_bind {α β} (p : Prog α) (f : α → Prog β) :
    (p.bind f).runLog =
      match p.runLog with
      | (cs, .ok a) => (cs ++ (f a).runLog.1, (f a).runLog.2)
      | (cs, .err e) => (cs, .err e)
      | (cs, .panic w) => (cs, .panic w)
      | (cs, .unmodelled w) => (cs, .unmodelled w) := by
  induction p with
  | ret a => simp [Prog.bind, Prog.runLog]
  | fail e => rfl
  | panic w => rfl
  | unmodelled w => rfl
  | call b k ih =>
    simp only [Prog.bind, Prog.runLog, ih]
    rcases h : (k .ok).runLog with ⟨cs, o⟩
    cases o <;> simp

theorem Prog.runLog_mapFail {α} (g : RawErr → RawErr) (p : Prog α) :
    (p.mapFail g).runLog =
      match p.runLog with
      | (cs, .err e) => (cs, .err (g e))
      | r => r := by
  induction p with
  | ret a => rfl
  | fail e => rfl
  | panic w => rfl
  | unmodelled w => rfl
  | call b k ih =>
    simp only [Prog.mapFail, Prog.runLog, ih]
    rcases h : (k .ok).runLog with ⟨cs, o⟩
    cases o <;> rfl

/-- from the variables `env`, `m` performs exactly the trim-writer operations `ops`, issuing
    exactly their underlying calls, and ends with `o` — whatever the state of the trim writer -/
def TracedAtL {α} (m : M α) (env : Env) (ops : List WOp) (o : EOut α) : Prop :=
  ∀ tw, (m ⟨env, tw⟩).runLog = ((TW.run tw ops).2, o.withTw (TW.run tw ops).1)

theorem TracedAtL.toTracedAt {α} {m : M α} {env : Env} {ops : List WOp} {o : EOut α} (h : TracedAtL m env ops o) :
    TracedAt m env ops o := by
  intro tw
  rw [Prog.runPure_eq_runLog, h tw]

theorem tracedAtL_bind_ok {α β} {m : M α} {f : α → M β} {env env1 : Env} {ops1 ops2 : List WOp} {a : α} {o : EOut β}
    (h1 : TracedAtL m env ops1 (.ok a env1)) (h2 : TracedAtL (f a) env1 ops2 o) :
    TracedAtL (m >>= f) env (ops1 ++ ops2) o := by
  intro tw
  show ((m ⟨env, tw⟩).bind (fun (a, s') => f a s')).runLog = _
  rw [Prog.runLog_bind, h1 tw]
  simp only [EOut.withTw]
  rw [h2 (TW.run tw ops1).1, tw_run_append]
  simp
  cases o <;> rfl

theorem tracedAtL_bind_err {α β} {m : M α} {f : α → M β} {env : Env} {ops : List WOp} {e : RawErr}
    (h : TracedAtL m env ops (.err e)) : TracedAtL (m >>= f) env ops (.err e) := by
  intro tw
  show ((m ⟨env, tw⟩).bind (fun (a, s') => f a s')).runLog = _
  rw [Prog.runLog_bind, h tw]; rfl

theorem tracedAtL_bind_panic {α β} {m : M α} {f : α → M β} {env : Env} {ops : List WOp} {w : String}
    (h : TracedAtL m env ops (.panic w)) : TracedAtL (m >>= f) env ops (.panic w) := by
  intro tw
  show ((m ⟨env, tw⟩).bind (fun (a, s') => f a s')).runLog = _
  rw [Prog.runLog_bind, h tw]; rfl

theorem tracedAtL_bind_unmodelled {α β} {m : M α} {f : α → M β} {env : Env} {ops : List WOp} {w : String}
    (h : TracedAtL m env ops (.unmodelled w)) : TracedAtL (m >>= f) env ops (.unmodelled w) := by
  intro tw
  show ((m ⟨env, tw⟩).bind (fun (a, s') => f a s')).runLog = _
  rw [Prog.runLog_bind, h tw]; rfl

theorem tracedAtL_mapFail {α} {m : M α} {env : Env} {ops : List WOp} {o : EOut α} (g : RawErr → RawErr)
    (h : TracedAtL m env ops o) : TracedAtL (M.mapFail g m) env ops (o.mapErr g) := by
  intro tw
  show ((m ⟨env, tw⟩).mapFail g).runLog = _
  rw [Prog.runLog_mapFail, h tw]
  cases o <;> rfl

theorem tracedAtL_flush (env : Env) : TracedAtL flushM env [.flush] (.ok () env) := by
  intro tw
  unfold flushM
  by_cases hb : tw.buf.isEmpty
  · simp [hb, Prog.runLog, TW.run, TW.step, EOut.withTw]
    have : tw.buf = [] := by simpa using hb
    cases tw; simp_all
  · simp [hb, Prog.runLog, TW.run, TW.step, EOut.withTw]

theorem tracedAtL_write (b : Bytes) (env : Env) : TracedAtL (writeM b) env [.write b] (.ok () env) := by
  intro tw
  unfold writeM
  by_cases hb : tw.buf.isEmpty
  · simp [hb, Prog.runLog, TW.run, TW.step, EOut.withTw]
  · simp [hb, Prog.runLog, TW.run, TW.step, EOut.withTw]

theorem tracedAtL_trimLeft (env : Env) : TracedAtL trimLeftM env [.trimLeft] (.ok () env) := by
  intro tw
  simp [trimLeftM, Prog.runLog, TW.run, TW.step, EOut.withTw]

theorem tracedAtL_trimRight (env : Env) : TracedAtL trimRightM env [.trimRight] (.ok () env) := by
  intro tw
  simp [trimRightM, Prog.runLog, TW.run, TW.step, EOut.withTw]

/-! ## The calls of an operation list without trims are its non-empty chunks -/

/-- the chunks an operation list writes -/
def wopChunks : List WOp → List Bytes
  | [] => []
  | .write b :: ops => b :: wopChunks ops
  | _ :: ops => wopChunks ops

theorem mem_wopChunks {ops : List WOp} {b : Bytes} : b ∈ wopChunks ops ↔ WOp.write b ∈ ops := by
  induction ops with
  | nil => simp [wopChunks]
  | cons op ops ih => cases op <;> simp [wopChunks, ih]

/-- without trim operations and with the flag clear, the calls (final flush included) are the
    pending text and the chunks written, empty ones left out -/
theorem calls_of_trimFree (ops : List WOp) : ∀ buf : Bytes,
    (TW.run { buf := buf, trim := false } (eraseTrims ops ++ [.flush])).2 =
      (buf :: wopChunks ops).filter (fun b => !b.isEmpty) := by
  induction ops with
  | nil => intro buf; cases buf <;> simp [eraseTrims, TW.run, TW.step, wopChunks]
  | cons op ops ih =>
    intro buf
    cases op with
    | write u =>
      have : eraseTrims (.write u :: ops) = .write u :: eraseTrims ops := by simp [eraseTrims]
      rw [this]
      simp only [List.cons_append, TW.run, TW.step, Bool.false_eq_true, if_false, ih, wopChunks]
      cases buf <;> simp
    | trimLeft =>
      have : eraseTrims (.trimLeft :: ops) = eraseTrims ops := by simp [eraseTrims]
      rw [this, ih]; rfl
    | trimRight =>
      have : eraseTrims (.trimRight :: ops) = eraseTrims ops := by simp [eraseTrims]
      rw [this, ih]; rfl
    | flush =>
      have : eraseTrims (.flush :: ops) = .flush :: eraseTrims ops := by simp [eraseTrims]
      rw [this]
      simp only [List.cons_append, TW.run, TW.step, ih, wopChunks]
      cases buf <;> simp

/-- if every call of the run without trims is valid UTF-8, every chunk written is -/
theorem validOps_of_calls (ops : List WOp)
    (h : ∀ b ∈ (TW.run {} (eraseTrims ops ++ [.flush])).2, ValidUtf8 b) : ValidOps ops := by
  intro b hb
  by_cases he : b = []
  · subst he; exact validUtf8_nil
  · apply h
    have := calls_of_trimFree ops []
    have e0 : ({ buf := [], trim := false } : TW) = {} := rfl
    rw [e0] at this
    rw [this, List.mem_filter]
    refine ⟨List.mem_cons_of_mem _ (mem_wopChunks.2 hb), ?_⟩
    cases b with
    | nil => exact absurd rfl he
    | cons _ _ => rfl
