import Proofs.HeapCall
/-!
# C15 / C03 — the array filters do not write into the caller's backing arrays

The clause "… and leave the array they were applied to unchanged" (C15), "neither the top-level map nor
any slice … reachable from it" (C03) is about WRITES through Go slices, which the value model of
`Filters/Arr.lean` cannot express. `Liquid/Heap.lean` models Go's slice memory (`Store`, `SliceRef`,
`index setIndex reslice make append copy`, every run with the LOG of the locations written) and, line by
line from the Go source, what `values.Convert(·, []any)` and every array filter do on it. Tied to the code by
the `alias` stream (`harness/stream_alias.go`): real `[]any` receivers that are sub-slices of larger backing
arrays filled with a sentinel; result, whether the result lies in the receiver's backing array, and which
locations of the caller's arrays changed must agree with the model on every case.

Vocabulary. `run p st = .ok o`: program `p` started in store `st` ends with value `o.val`, store `o.st`, and
wrote exactly the locations `o.log` (`heap_log_complete`). `st.length` is the number of backing arrays that
exist when a call starts: an array index `≥ st.length` was ALLOCATED BY THE CALL. `view st s`: the elements
of slice `s` as `st` holds them. `HVal.abs st v`: the pure value (`GoVal`) that `v` — a slice header or an
immutable value — stands for. `Refines r p Q`: the run `r` answers as the pure computation `p` (same error /
panic / unmodelled), and when `p = ok b` the run succeeds with a value and store related to `b` by `Q`.
-/

open Heap

/-! ## the log is complete -/

/-- **The write log is complete**, for every program over the memory: nothing is freed, and a location
that is not in the log holds afterwards what it held before. (So "the log has no entry below `st.length`"
means "no array of `st` changed".) -/
theorem heap_log_complete {α : Type} (p : Heap.Prog α) (st : Store) (o : Out α) (h : Heap.run p st = .ok o) :
    st.length ≤ o.st.length ∧ ∀ a i, a < st.length → (a, i) ∉ o.log → readAt o.st a i = readAt st a i := by
  obtain ⟨hlen, hrows⟩ := run_frame p st o h
  refine ⟨hlen, ?_⟩
  intro a i ha hlog
  obtain ⟨row', h1, _, h3⟩ := hrows a _ (List.getElem?_eq_getElem ha)
  simp only [readAt, h1, List.getElem?_eq_getElem ha]
  exact h3 i hlog

/-- a program that, whatever store it starts in, writes only into arrays it allocated itself: every logged
location is at or above `st.length`, hence every array of `st` — the elements of the caller's slices AND the
spare capacity behind them — is unchanged, i.e. the initial store is a prefix of the final one -/
def WritesOnlyFresh {α : Type} (p : Heap.Prog α) : Prop :=
  ∀ st o, Heap.run p st = .ok o →
    (∀ l ∈ o.log, st.length ≤ l.1) ∧ (∀ a, a < st.length → o.st[a]? = st[a]?) ∧ st <+: o.st

theorem prefix_of_kept {st st' : Store} (h : ∀ a, a < st.length → st'[a]? = st[a]?) :
    st <+: st' := by
  rw [List.prefix_iff_eq_take]
  apply List.ext_getElem?
  intro i
  rw [List.getElem?_take]
  by_cases hi : i < st.length
  · rw [if_pos hi, h i hi]
  · rw [if_neg hi, List.getElem?_eq_none (by omega)]

theorem writesOnlyFresh_of_above {α : Type} {p : Heap.Prog α} {Q : Nat → α → Prop} (h : ∀ N, Above N p (Q N)) : WritesOnlyFresh p := by
  intro st o hr
  obtain ⟨_, hk, hl, _⟩ := (h st.length).keeps (Nat.le_refl _) hr
  exact ⟨hl, hk, prefix_of_kept hk⟩

/-! ## (a) no filter writes into its input -/

/-- **C15/C03, one filter application.** `x | f: args` — argument conversion (`values.Convert`, which passes a
`[]any` through UNCOPIED) followed by the filter body — for each of compact concat join map reverse sort
sort_natural first last uniq size default, every receiver and arguments, every store: all writes go to arrays
the call allocated; the caller's backing arrays, spare capacity included, are unchanged. No hypothesis: it
holds for ill-formed headers too (a run that would leave its array ends in `panic`, not in a write). -/
theorem array_filters_do_not_write_inputs (strict : Bool) (f : FName) (recv : HVal) (args : List HVal) :
    WritesOnlyFresh (stageF strict f recv args) :=
  writesOnlyFresh_of_above fun N => stageF_above N strict f recv args

/-- the conversion step alone (it allocates, or hands the caller's own slice on) -/
theorem convert_does_not_write_inputs (v : HVal) : WritesOnlyFresh (convertAnys v) :=
  writesOnlyFresh_of_above fun N => convertAnys_above N v

/-- each filter body alone, on ANY slices `a`, `b` — in particular on the caller's own (`Convert` passes them
through): `append` only ever extends `result`, which starts nil or from `make`; `reverse` and the sorts write
only into the slice `make` returned -/
theorem filter_bodies_do_not_write_inputs (a b : Slice) (k sep : Bytes) (key : GoVal) (strict natural : Bool) :
    WritesOnlyFresh (compactH a) ∧ WritesOnlyFresh (concatH a b) ∧ WritesOnlyFresh (reverseH a) ∧
    WritesOnlyFresh (uniqH a) ∧ WritesOnlyFresh (mapH a k) ∧ WritesOnlyFresh (joinH a sep) ∧
    WritesOnlyFresh (firstH a) ∧ WritesOnlyFresh (lastH a) ∧ WritesOnlyFresh (sortH strict natural a key) :=
  ⟨writesOnlyFresh_of_above fun N => compactH_above N a, writesOnlyFresh_of_above fun N => concatH_above N a b,
   writesOnlyFresh_of_above fun N => reverseH_above N a, writesOnlyFresh_of_above fun N => uniqH_above N a,
   writesOnlyFresh_of_above fun N => mapH_above N a k, writesOnlyFresh_of_above fun N => joinH_above N a sep,
   writesOnlyFresh_of_above fun N => firstH_above N a, writesOnlyFresh_of_above fun N => lastH_above N a,
   writesOnlyFresh_of_above fun N => sortH_above N strict natural a key⟩

/-- **Pipelines.** For any chain `x | f1: a1 | f2: a2 | …` of these filters — where a later filter may receive
the caller's own slice from an earlier one (`default` returns its input uncopied; `first`/`last` return an
element that may itself be a slice of the caller) — no location of the initial store is written. Induction
over the chain. -/
theorem pipeline_no_write (strict : Bool) (chain : List (FName × List HVal)) (v : HVal) :
    WritesOnlyFresh (runChainF strict v chain) :=
  writesOnlyFresh_of_above fun N => runChainF_above N strict chain v

/-- the same for the pipeline the `alias` driver op runs (filters by name) -/
theorem pipeline_no_write_by_name (strict : Bool) (chain : List (Bytes × List HVal)) (v : HVal) :
    WritesOnlyFresh (runChain strict v chain) :=
  writesOnlyFresh_of_above fun N => runChain_above N strict chain v

/-! ### the statements are not vacuous: the model CAN write into a caller's array -/

/-- the caller's memory of the examples: `x = backing0[0:3]` with two spare elements, `a0 = backing1[0:1]` -/
def exampleStore : Store :=
  [[.int .int 3, .nil, .int .int 1, sentinel, sentinel], [.int .int 9, sentinel, sentinel]]
def exampleRecv : SliceRef := ⟨0, 0, 3, 5⟩
def exampleArg : SliceRef := ⟨1, 0, 1, 3⟩

/-- `append(a, b...)` — what a `concat` written without `make` would do — writes the caller's array 0 at
index 3, its first spare element: the hazard is expressible, and the log shows it -/
example : (match Heap.run ((elems (some exampleArg)).bind fun ys => append (some exampleRecv) ys) exampleStore with
    | .ok o => o.log
    | _ => []) = [(0, 3)] := by decide +kernel

/-- the modelled `concat` on the same memory: four writes, all into the new array 2 -/
example : (match Heap.run (stageF true .concat (.sl .any (some exampleRecv)) [.sl .any (some exampleArg)]) exampleStore with
    | .ok o => (o.log, o.st.length, (o.val.abs o.st).enc)
    | _ => ([], 0, "")) = ([(2, 0), (2, 1), (2, 2), (2, 3)], 3, "La[i0:3;ni0:1;i0:9;]") := by decide +kernel

/-- `sort` on `x[0:1]` of the same memory: only the copy (array 2) is written — once by `copy`, once by the sort -/
example : (match Heap.run (stageF true .sort (.sl .any (some ⟨0, 0, 1, 5⟩)) []) exampleStore with
    | .ok o => (o.log, (o.val.abs o.st).enc)
    | _ => ([], "")) = ([(2, 0), (2, 0)], "La[i0:3;]") := by decide +kernel

/-- the hypotheses of the refinement theorems hold for the example -/
example : Slice.wf exampleStore (some exampleRecv) ∧ Slice.wf exampleStore (some exampleArg) :=
  ⟨⟨by decide, _, rfl, by decide⟩, ⟨by decide, _, rfl, by decide⟩⟩

/-! ## (b) what the filters return, read through the final store, is the pure model's result -/

/-- **Refinement, one filter application**: on well-formed slices the memory-level run of `x | f: args`
answers exactly as the pure model's `evalFilter` (standard registry, bodies of `Filters/Arr.lean`) on the
values the slices hold — the same error, `unmodelled` or panic, and on success a well-formed result that
READS, in the final store, as the pure result; every array of `st` is as it was. All twelve filters, every
receiver (`[]any`, typed slice, any value) and argument. Hence every theorem of `Proofs/C15.lean` about the
bodies and about `applyFilter` (`sort_perm`, `sort_sorted`, `uniq_spec`, `compact_spec`, `unary_filters`, …)
is a statement about what the memory-level filters return. -/
theorem heap_refines_pure (f : FName) {st : Store} {recv : HVal} {args : List HVal}
    (hr : HVal.wf st recv) (ha : ∀ h ∈ args, HVal.wf st h) :
    Refines (Heap.run (stageF true f recv args) st)
      (evalFilter (lookupImpl stdFilterImpls) f.name (recv.abs st) (args.map (·.abs st))) (StageResult st) := by
  rw [← stageP_eq_evalFilter]
  exact stageF_refines true f hr ha

/-- **Refinement, pipelines**: a chain on the memory answers as the chain of `evalFilter`s on values -/
theorem heap_pipeline_refines_pure (chain : List (FName × List HVal)) {st : Store} {v : HVal}
    (hv : HVal.wf st v) (ha : ∀ p ∈ chain, ∀ h ∈ p.2, HVal.wf st h) :
    Refines (Heap.run (runChainF true v chain) st) (evalChain (v.abs st) (absChain st chain)) (StageResult st) := by
  rw [← chainP_eq_evalChain]
  exact runChainF_refines true chain st v hv ha

/-- **Refinement, the bodies**: each body on a well-formed slice returns a slice that reads as the body of
`Filters/Arr.lean` applied to the elements (`Result st`: …, is well-formed, lies in an array the run allocated
or is nil, and no array of `st` was touched); `first`/`last` return the element. -/
theorem heap_bodies_refine_pure {st : Store} {a b : Slice} (ha : Slice.wf st a) (hb : Slice.wf st b) (k sep : Bytes)
    (key : GoVal) (strict natural : Bool) :
    Refines (Heap.run (compactH a) st) (.ok (ArrF.compactF (view st a))) (Result st) ∧
    Refines (Heap.run (concatH a b) st) (.ok (ArrF.concatF (view st a) (view st b))) (Result st) ∧
    Refines (Heap.run (reverseH a) st) (.ok (ArrF.reverseF (view st a))) (Result st) ∧
    Refines (Heap.run (uniqH a) st) (uniqP (view st a)) (Result st) ∧
    Refines (Heap.run (mapH a k) st) (ArrF.mapF k (view st a)) (Result st) ∧
    Refines (Heap.run (joinH a sep) st) (ArrF.joinF (view st a) sep) (ValResult st) ∧
    Heap.run (firstH a) st = .ok ⟨ArrF.firstF (view st a), st, []⟩ ∧
    Heap.run (lastH a) st = .ok ⟨ArrF.lastF (view st a), st, []⟩ ∧
    Refines (Heap.run (sortH strict natural a key) st) (sortedList strict natural (view st a) key) (Result st) :=
  ⟨compactH_refines ha, concatH_refines ha hb, reverseH_refines ha, uniqH_refines ha, mapH_refines ha k,
   joinH_refines ha sep, firstH_run ha, lastH_run ha, sortH_refines ha strict natural key⟩

/-- the conversion: the slice it returns reads as `Convert.convert · .anys` of the value -/
theorem heap_convert_refines_pure {st : Store} {v : HVal} (hw : HVal.wf st v) :
    Refines (Heap.run (convertAnys v) st) (convAnysP (v.abs st)) (ConvResult st) :=
  convertAnys_refines hw

/-- `sort` / `sort_natural` in particular: whenever the memory-level filter returns, what it returns is a
permutation of the receiver's elements (on every array, whatever `Less` does on it), and the receiver still
reads as before -/
theorem heap_sort_permutation {st : Store} {a : Slice} (hw : Slice.wf st a) (strict natural : Bool) (key : GoVal)
    (o : Out Slice) (h : Heap.run (sortH strict natural a key) st = .ok o) :
    (view o.st o.val).Perm (view st a) ∧ view o.st a = view st a := by
  have hr := sortH_refines hw strict natural key
  cases hs : sortedList strict natural (view st a) key with
  | ok ys =>
    rw [hs] at hr
    obtain ⟨o', e', q1, _, _, q4, _⟩ := hr
    rw [h] at e'
    cases e'
    exact ⟨by rw [q1]; exact sortedList_perm hs, Slice.view_kept q4 (Slice.below_of_wf hw)⟩
  | err c => rw [hs] at hr; simp only [Refines] at hr; rw [h] at hr; cases hr
  | panic w => rw [hs] at hr; simp only [Refines] at hr; rw [h] at hr; cases hr
  | unmodelled w => rw [hs] at hr; simp only [Refines] at hr; rw [h] at hr; cases hr

/-! ## (c) which results share memory with their input -/

/-- **THE alias**: `Convert` hands a `[]any` without drops to the filter body AS IS — the same backing array,
offset, length and capacity, nothing allocated, nothing written. Whatever the body then writes through it, it
writes into the caller's array (`filter_bodies_do_not_write_inputs`: the bodies write nothing through it). -/
theorem convert_passes_generic_slice_through {st : Store} {s : Slice} (hw : Slice.wf st s)
    (hd : (view st s).any isDropTok = false) : Heap.run (convertAnys (.sl .any s)) st = .ok ⟨s, st, []⟩ := by
  simp only [convertAnys, convSlice]
  rw [run_bind, run_elems hw]
  simp [thenRun, hd, Heap.run]

/-- every other conversion ALLOCATES: a typed slice, a `[]any` holding a drop (converted element by element),
and every value that is not a slice (fixed array, range, `MapSlice`, map, `[]byte`; nil is the nil slice) give
a slice in an array the conversion allocated, or nil -/
theorem convert_allocates_otherwise {st : Store} :
    (∀ t s o, t ≠ .any → Heap.run (convertAnys (.sl t s)) st = .ok o → Fresh st.length o.val) ∧
    (∀ s o, Slice.wf st s → (view st s).any isDropTok = true → Heap.run (convertAnys (.sl .any s)) st = .ok o → Fresh st.length o.val) ∧
    (∀ v o, (∀ t xs, v.toLiquid ≠ .slice t xs) → Heap.run (convertAnys (.val v)) st = .ok o → Fresh st.length o.val) := by
  refine ⟨?_, ?_, ?_⟩
  · intro t s o ht h
    have : convertAnys (.sl t s) = convElemwise s := by
      cases t <;> first | exact absurd rfl ht | rfl
    rw [this] at h
    exact ((convElemwise_above st.length s) st o (Nat.le_refl _) h).2
  · intro s o hw hd h
    simp only [convertAnys, convSlice] at h
    rw [run_bind, run_elems hw] at h
    simp only [thenRun, hd, if_true] at h
    cases h2 : Heap.run (convElemwise s) st with
    | ok o2 =>
      rw [h2] at h
      simp only [Res.ok.injEq] at h
      subst h
      exact ((convElemwise_above st.length s) st o2 (Nat.le_refl _) h2).2
    | err c => rw [h2] at h; cases h
    | panic w => rw [h2] at h; cases h
    | unmodelled w => rw [h2] at h; cases h
  · intro v o hv h
    by_cases hn : v = .nil
    · subst hn
      simp only [convertAnys, Heap.run, Res.ok.injEq] at h
      subst h
      exact Fresh.none _
    · rw [convertAnys_val hn] at h
      split at h
      · rename_i t xs heq; exact absurd heq (hv t xs)
      · split at h
        · exact ((freshSlice_above st.length _) st o (Nat.le_refl _) h).2
        all_goals cases h

/-- **No array-returning filter returns an alias of anything that existed**: the result of compact, concat,
map, reverse, sort, sort_natural, uniq is the nil slice or a slice in an array allocated by the call
(`result.arr ≥ st.length`), for every receiver and argument — also `concat` with an empty argument, `compact`
without nils, `reverse`/`sort` of zero or one element, `uniq` without duplicates: none of them returns its
input when nothing is to be done. -/
theorem array_results_never_alias (strict : Bool) (f : FName) (hf : f.returnsArray = true) (recv : HVal)
    (args : List HVal) (st : Store) (o : Out HVal) (h : Heap.run (stageF strict f recv args) st = .ok o) :
    ∃ r, o.val = .sl .any r ∧ ∀ r', r = some r' → st.length ≤ r'.arr :=
  (stageF_fresh st.length strict f hf recv args st o (Nat.le_refl _) h).2

/-- **`default` returns its receiver, or its argument, UNCOPIED** — a slice result is the caller's own slice
(same array, offset, length, capacity), no allocation, no write. The next filter of a pipeline then works on
the caller's array; `pipeline_no_write` shows that none of them writes into it. -/
theorem default_returns_its_input_uncopied (strict : Bool) (t t' : Ty) (s s' : Slice) (st : Store) :
    Heap.run (stageF strict .default (.sl t s) [.sl t' s']) st =
      .ok ⟨if lenS s == 0 then .sl t' s' else .sl t s, st, []⟩ := by
  unfold stageF
  rw [if_neg (by simp [FName.arity])]
  simp only [bodyF, HVal.via, List.map, List.head?, convAnyH, liftR, Heap.Prog.bind, Heap.run, defaultH]
  by_cases hc : (lenS s == 0) = true
  · rw [if_pos hc]; rfl
  · rw [if_neg hc]; rfl

/-- the other results are VALUES, not slices into the store: `first`, `last` return an element (which in Go
may itself be a slice or map of the caller — an element is passed on as it is, never copied: results are
shallow), `join` a string, `size` an integer -/
theorem scalar_results_are_values (strict : Bool) (f : FName) (hf : f = .first ∨ f = .last ∨ f = .join ∨ f = .size)
    (recv : HVal) (args : List HVal) (st : Store) (o : Out HVal) (h : Heap.run (stageF strict f recv args) st = .ok o) :
    ∃ w, o.val = .val w := by
  have key : ∀ (p : Heap.Prog GoVal) (st1 : Store) (o1 : Out HVal),
      Heap.run ((p.bind fun r => Heap.Prog.ret (HVal.val r)).bind fun r => Heap.Prog.ret r.post) st1 = .ok o1 → ∃ w, o1.val = .val w := by
    intro p st1 o1 h1
    obtain ⟨oa, ob, ha, hb, hv, _, _⟩ := run_bind_ok h1
    obtain ⟨oc, od, _, hd, hv2, _, _⟩ := run_bind_ok ha
    simp only [Heap.run, Res.ok.injEq] at hd hb
    subst hd hb
    exact ⟨_, by rw [hv, hv2]; rfl⟩
  unfold stageF at h
  split at h
  · cases h
  · rcases hf with rfl | rfl | rfl | rfl
    · simp only [bodyF] at h
      obtain ⟨oa, ob, ha, hb, hv, _, _⟩ := run_bind_ok h
      obtain ⟨oc, od, _, hd, hv2, _, _⟩ := run_bind_ok ha
      obtain ⟨oe, og, _, hg, hv3, _, _⟩ := run_bind_ok hd
      simp only [Heap.run, Res.ok.injEq] at hg hb
      subst hg hb
      exact ⟨_, by rw [hv, hv2, hv3]; rfl⟩
    · simp only [bodyF] at h
      obtain ⟨oa, ob, ha, hb, hv, _, _⟩ := run_bind_ok h
      obtain ⟨oc, od, _, hd, hv2, _, _⟩ := run_bind_ok ha
      obtain ⟨oe, og, _, hg, hv3, _, _⟩ := run_bind_ok hd
      simp only [Heap.run, Res.ok.injEq] at hg hb
      subst hg hb
      exact ⟨_, by rw [hv, hv2, hv3]; rfl⟩
    · simp only [bodyF] at h
      obtain ⟨oa, ob, ha, hb, hv, _, _⟩ := run_bind_ok h
      obtain ⟨oc, od, _, hd, hv2, _, _⟩ := run_bind_ok ha
      obtain ⟨oe, og, _, hg, hv3, _, _⟩ := run_bind_ok hd
      obtain ⟨oi, oj, _, hj, hv4, _, _⟩ := run_bind_ok hg
      simp only [Heap.run, Res.ok.injEq] at hj hb
      subst hj hb
      exact ⟨_, by rw [hv, hv2, hv3, hv4]; rfl⟩
    · simp only [bodyF] at h
      exact key _ _ _ h
