import Proofs.SrcTags
import Proofs.C14
/-!
# Source-level helpers: roots made of nodes that each put given bytes through the trim writer
(texts, `include` tags whose file renders normally, objects printing a value)
-/

/-- in environment `env`, with no right trim pending, the node does exactly one thing: it puts the
    bytes `b` through the trim writer after the text `B` that was pending — a text or an `include`
    writes them (`B` goes out, `b` is pending), an object writes them verbatim (`B ++ b` goes out,
    nothing is pending) -/
def WritesAt (c : RCtx) (n : Node) (env : Env) (b : Bytes) : Prop :=
  ∀ B : Bytes, ∃ o p, (renderNode c n ⟨env, ⟨B, false⟩⟩).runPure = (o, .ok (.done, ⟨env, ⟨p, false⟩⟩)) ∧ o ++ p = B ++ b

theorem write_done_run (path : Bytes) (loc : Loc) (b : Bytes) (s : RS) :
    (wrapFailAt path loc (do writeM b; pure Status.done) s).runPure =
      (s.tw.buf, .ok (.done, ⟨s.env, ⟨if s.tw.trim then trimLeftSpace b else b, false⟩⟩)) := by
  simp only [wrapFailAt, M.mapFail, bind, M.bind, pure, M.pure]
  unfold writeM
  simp only
  split
  · next hb =>
    have : s.tw.buf = [] := by simpa using hb
    simp only [Prog.bind, Prog.mapFail, Prog.runPure, this]
  · simp only [Prog.bind, Prog.mapFail, Prog.runPure, List.append_nil]

theorem writesAt_text (c : RCtx) (line : Nat) (b : Bytes) (env : Env) : WritesAt c (.text line b) env b := by
  intro B
  rw [renderNode]
  exact ⟨B, b, write_done_run _ _ b ⟨env, ⟨B, false⟩⟩, rfl⟩

theorem renderBlockBody_cons (c : RCtx) (n : Node) (ns : List Node) (s : RS) :
    renderBlockBody c (n :: ns) s = (renderNode c n s).bind fun r =>
      match r.1 with
      | .done => renderBlockBody c ns r.2
      | st => .ret (st, r.2) := by
  simp only [renderBlockBody, renderList, bind, M.bind, Prog.bind_assoc]
  congr 1
  funext r
  obtain ⟨st, s'⟩ := r
  cases st <;> simp [Prog.bind, pure, M.pure]

/-- a sequence of nodes that each write once, started with `B` pending and no trim armed, then the flush:
    everything arrives in order -/
theorem renderBlockBody_writes (c : RCtx) (env : Env) : ∀ (nbs : List (Node × Bytes)) (B : Bytes),
    (∀ p ∈ nbs, WritesAt c p.1 env p.2) →
    (renderBlockBody c (nbs.map (·.1)) ⟨env, ⟨B, false⟩⟩).runPure =
      (B ++ (nbs.map (·.2)).flatten, .ok (.done, ⟨env, ⟨[], false⟩⟩))
  | [], B, _ => by
    simp only [List.map_nil, renderBlockBody, renderList, bind, M.bind, pure, M.pure, Prog.bind, wrapFailAt, M.mapFail, flushM,
      List.flatten_nil, List.append_nil]
    cases B <;> simp [Prog.mapFail, Prog.bind, Prog.runPure]
  | (n, b) :: r, B, h => by
    obtain ⟨o, p, hn, hop⟩ := h (n, b) (List.mem_cons_self ..) B
    have ih := renderBlockBody_writes c env r p (fun p hp => h p (List.mem_cons_of_mem _ hp))
    simp only at hn hop
    simp only [List.map_cons, renderBlockBody_cons, Prog.runPure_bind, hn, ih, List.flatten_cons]
    rw [← List.append_assoc, hop, List.append_assoc]

theorem runRoot_writes (P : Prims) (O : OutPrims) (cfg : Cfg) (fs : FS) (fuel : Nat) (env : Env) (nbs : List (Node × Bytes))
    (h : ∀ p ∈ nbs, WritesAt (mkCtx P O cfg fs fuel) p.1 env p.2) :
    runRoot P O cfg fs fuel (nbs.map (·.1)) env = .ok (nbs.map (·.2)).flatten := by
  rw [runRoot_eq_blockBody]
  have := renderBlockBody_writes (mkCtx P O cfg fs fuel) env nbs [] h
  rw [show (⟨env, {}⟩ : RS) = ⟨env, ⟨[], false⟩⟩ from rfl, this]
  simp

/-- `run` succeeds exactly when the source compiles and its root renders normally -/
theorem run_ok_iff (P : Prims) (O : OutPrims) (cfg : Cfg) (fs : FS) (fuel : Nat) (src : Bytes) (line : Nat) (env : Env) (out : Bytes) :
    run P O cfg fs fuel src line env = .ok out ↔
      ∃ root, compileSource cfg.delims src line = .ok root ∧
        (renderRoot (mkCtx P O cfg fs fuel) root env).runPure = (out, .ok .done) := by
  rw [run_eq_runCompiled]
  cases hc : compileSource cfg.delims src line with
  | ok root =>
    show runRoot P O cfg fs fuel root env = .ok out ↔ _
    rw [runRoot_ok_iff]
    constructor
    · intro h; exact ⟨root, rfl, h⟩
    · rintro ⟨r, hr, h⟩; cases hr; exact h
  | err e => simp [runCompiled]
  | panic w => simp [runCompiled]
  | unmodelled w => simp [runCompiled]

/-- an `include` tag whose argument is a string literal naming a file that renders normally (as a template
    of its own, with the includer's variables, at fuel one less) is one verbatim write of that output -/
theorem writesAt_include (P : Prims) (O : OutPrims) (cfg : Cfg) (fs : FS) (fuel : Nat) (line : Nat) (args name : Bytes) (env : Env)
    (body out : Bytes) (he : parseExprSource args = .ok (.lit (.str name)))
    (hfile : fileSource fs (joinPath (dirPath cfg.path) name) = some body)
    (hbody : run P O cfg fs fuel body line env = .ok out) :
    WritesAt (mkCtx P O cfg fs (fuel + 1)) (.incl line args) env out := by
  obtain ⟨root, hc, hr⟩ := (run_ok_iff P O cfg fs fuel body line env out).mp hbody
  intro B
  rw [include_denotation_mk P O cfg fs fuel line args ⟨env, ⟨B, false⟩⟩ (.lit (.str name)) name body root out he rfl hfile hc hr]
  refine ⟨B ++ out, [], ?_, by simp⟩
  simp only [wrapFailAt, M.mapFail, bind, M.bind, pure, M.pure]
  rw [Prog.runPure_mapFail, Prog.runPure_bind, writeVerbatim_runPure]
  simp [Prog.runPure]
