import Proofs.SrcItems
/-!
# Source-level helpers: the token lists and compiled nodes of block-shaped templates
-/

/-- `{% n1 a1 %} A {% n2 a2 %} B {% n3 a3 %}`: the tokens, with the line of every piece -/
theorem tokensOf_block1 (d : Delims) (n1 a1 : Bytes) (w1 : Ws) (A : List Item) (n2 a2 : Bytes) (w2 : Ws) (B : List Item)
    (n3 a3 : Bytes) (w3 : Ws) (post : List Item) (line : Nat) :
    tokensOf d (tg n1 a1 w1 :: (A ++ tg n2 a2 w2 :: (B ++ tg n3 a3 w3 :: post))) line =
      tgTok d n1 a1 w1 line ::
        (tokensOf d A (line + countNL ((tg n1 a1 w1).spell d)) ++
          (tgTok d n2 a2 w2 (line + countNL ((tg n1 a1 w1).spell d) + countNL (spell d A)) ::
            (tokensOf d B (line + countNL ((tg n1 a1 w1).spell d) + countNL (spell d A) + countNL ((tg n2 a2 w2).spell d)) ++
              (tgTok d n3 a3 w3 (line + countNL ((tg n1 a1 w1).spell d) + countNL (spell d A) + countNL ((tg n2 a2 w2).spell d)
                  + countNL (spell d B)) ::
                tokensOf d post (line + countNL ((tg n1 a1 w1).spell d) + countNL (spell d A) + countNL ((tg n2 a2 w2).spell d)
                  + countNL (spell d B) + countNL ((tg n3 a3 w3).spell d)))))) := by
  simp only [tokensOf_tg, tokensOf_append]

/-- `{% n1 a1 %} A {% n3 a3 %}` -/
theorem tokensOf_block0 (d : Delims) (n1 a1 : Bytes) (w1 : Ws) (A : List Item) (n3 a3 : Bytes) (w3 : Ws) (post : List Item)
    (line : Nat) :
    tokensOf d (tg n1 a1 w1 :: (A ++ tg n3 a3 w3 :: post)) line =
      tgTok d n1 a1 w1 line ::
        (tokensOf d A (line + countNL ((tg n1 a1 w1).spell d)) ++
          (tgTok d n3 a3 w3 (line + countNL ((tg n1 a1 w1).spell d) + countNL (spell d A)) ::
            tokensOf d post (line + countNL ((tg n1 a1 w1).spell d) + countNL (spell d A) + countNL ((tg n3 a3 w3).spell d)))) := by
  simp only [tokensOf_tg, tokensOf_append]

theorem isOpen_tgTok (d : Delims) (n a : Bytes) (w : Ws) (l : Nat) (hb : stdGrammar.isBlock n = true)
    (h1 : n ≠ commentName) (h2 : n ≠ rawName) : stdGrammar.isOpen (tgTok d n a w l) = true :=
  isOpen_of_name rfl hb h1 h2

theorem tokensOf_nil (d : Delims) (line : Nat) : tokensOf d [] line = [] := rfl

/-- the compiled node of `{% if c %}A{% else %}B{% endif %}` / `{% unless c %}…{% endunless %}` -/
theorem compile_ifElse (d : Delims) (nm : Bytes) (hn : nm = nmIf ∨ nm = nmUnless) (c : Bytes) (w1 w2 w3 : Ws)
    (TA TB : List Token) (line l2 l4 : Nat) (nA nB : List Node)
    (hA : compileTokens TA = .ok nA) (hB : compileTokens TB = .ok nB) :
    compileTokens (tgTok d nm c w1 line :: (TA ++ (tgTok d nmElse [] w2 l2 :: (TB ++ [tgTok d (endPrefix ++ nm) [] w3 l4])))) =
      (liftParse line true (parseExprSource c)).bind fun ex =>
        .ok [.ifB line [(if nm == nmIf then .expr line ex else .notExpr line ex, nA), (.always, nB)]] := by
  have ho : stdGrammar.isOpen (tgTok d nm c w1 line) = true := by
    rcases hn with rfl | rfl <;> exact isOpen_tgTok _ _ _ _ _ (by decide) (by decide) (by decide)
  have hc : stdGrammar.isClauseOf (tgTok d nm c w1 line) (tgTok d nmElse [] w2 l2) = true := by
    rcases hn with rfl | rfl <;> simp only [Grammar.isClauseOf, tgTok] <;> decide
  obtain ⟨ast, cast, h1, h2, h3⟩ := compileTokens_block1 (tgTok d nm c w1 line) (tgTok d nmElse [] w2 l2)
    (tgTok d (endPrefix ++ nm) [] w3 l4) TA TB nA nB ho hc (isEndOf_of_name rfl rfl) rfl rfl rfl hA hB
  rw [h3, compileNode_if1 _ _ ast cast nA nB hn rfl h1 h2]
  rfl

/-- the compiled node of `{% if c %}A{% endif %}` / `{% unless c %}A{% endunless %}` -/
theorem compile_if (d : Delims) (nm : Bytes) (hn : nm = nmIf ∨ nm = nmUnless) (c : Bytes) (w1 w3 : Ws)
    (TA : List Token) (line l4 : Nat) (nA : List Node) (hA : compileTokens TA = .ok nA) :
    compileTokens (tgTok d nm c w1 line :: (TA ++ [tgTok d (endPrefix ++ nm) [] w3 l4])) =
      (liftParse line true (parseExprSource c)).bind fun ex =>
        .ok [.ifB line [(if nm == nmIf then .expr line ex else .notExpr line ex, nA)]] := by
  have ho : stdGrammar.isOpen (tgTok d nm c w1 line) = true := by
    rcases hn with rfl | rfl <;> exact isOpen_tgTok _ _ _ _ _ (by decide) (by decide) (by decide)
  obtain ⟨ast, h1, h3⟩ := compileTokens_block0 (tgTok d nm c w1 line) (tgTok d (endPrefix ++ nm) [] w3 l4) TA nA ho
    (isEndOf_of_name rfl rfl) rfl rfl hA
  rw [h3, compileNode_if0 _ ast nA hn h1]
  rfl

/-! ## `run` on the sources of conditionals -/

/-- what `run` returns once the condition source `c` and the two bodies are compiled -/
theorem run_ifElse_shape (P : Prims) (O : OutPrims) (cfg : Cfg) (fs : FS) (fuel : Nat) (env : Env)
    (nm : Bytes) (hn : nm = nmIf ∨ nm = nmUnless) (c : Bytes) (A B : List Item) (w1 w2 w3 : Ws) (line : Nat)
    (hg : GoodDelims (Delims.ofList cfg.delims))
    (hc : Clean (Delims.ofList cfg.delims) (tg nm c w1 :: (A ++ tg nmElse [] w2 :: (B ++ [tg (endPrefix ++ nm) [] w3]))))
    (nA nB : List Node)
    (hA : compileTokens (tokensOf (Delims.ofList cfg.delims) A (line + countNL ((tg nm c w1).spell (Delims.ofList cfg.delims)))) = .ok nA)
    (hB : compileTokens (tokensOf (Delims.ofList cfg.delims) B
      (line + countNL ((tg nm c w1).spell (Delims.ofList cfg.delims)) + countNL (spell (Delims.ofList cfg.delims) A)
        + countNL ((tg nmElse [] w2).spell (Delims.ofList cfg.delims)))) = .ok nB) :
    run P O cfg fs fuel (spell (Delims.ofList cfg.delims) (tg nm c w1 :: (A ++ tg nmElse [] w2 :: (B ++ [tg (endPrefix ++ nm) [] w3])))) line env =
      runCompiled P O cfg fs fuel ((liftParse line true (parseExprSource c)).bind fun ex =>
        .ok [.ifB line [(if nm == nmIf then .expr line ex else .notExpr line ex, nA), (.always, nB)]]) env := by
  rw [run_spell P O cfg fs fuel _ line env hg hc, tokensOf_block1, tokensOf_nil,
    compile_ifElse _ nm hn c w1 w2 w3 _ _ line _ _ nA nB hA hB]

/-- the same without an `else` clause -/
theorem run_if_shape (P : Prims) (O : OutPrims) (cfg : Cfg) (fs : FS) (fuel : Nat) (env : Env)
    (nm : Bytes) (hn : nm = nmIf ∨ nm = nmUnless) (c : Bytes) (A : List Item) (w1 w3 : Ws) (line : Nat)
    (hg : GoodDelims (Delims.ofList cfg.delims))
    (hc : Clean (Delims.ofList cfg.delims) (tg nm c w1 :: (A ++ [tg (endPrefix ++ nm) [] w3])))
    (nA : List Node)
    (hA : compileTokens (tokensOf (Delims.ofList cfg.delims) A (line + countNL ((tg nm c w1).spell (Delims.ofList cfg.delims)))) = .ok nA) :
    run P O cfg fs fuel (spell (Delims.ofList cfg.delims) (tg nm c w1 :: (A ++ [tg (endPrefix ++ nm) [] w3]))) line env =
      runCompiled P O cfg fs fuel ((liftParse line true (parseExprSource c)).bind fun ex =>
        .ok [.ifB line [(if nm == nmIf then .expr line ex else .notExpr line ex, nA)]]) env := by
  rw [run_spell P O cfg fs fuel _ line env hg hc, tokensOf_block0, tokensOf_nil, compile_if _ nm hn c w1 w3 _ line _ nA hA]

