import Proofs.MapPermJson
/-!
# `uniq` and the order of map entries (helper lemmas for C02)

`uniq` identifies elements by `MapOrder.canonEnc`, the encoding of the value with every map in the
codec's canonical order: related elements have the same canonical form (`canonOrder_mp`).
-/

open GoVal MapOrder ArrF

/-! ## Does the value hold a pointer? -/

theorem hasPtrKVs_eq_any (kvs : List (GoVal × GoVal)) :
    hasPtr.hasPtrKVs kvs = kvs.any (fun kv => hasPtr kv.1 || hasPtr kv.2) := by
  induction kvs with
  | nil => rfl
  | cons kv r ih => obtain ⟨k, v⟩ := kv; simp only [hasPtr.hasPtrKVs, ih, List.any_cons]

mutual
theorem hasPtr_mp : ∀ {a b : GoVal}, MP a b → hasPtr a = hasPtr b
  | _, _, .refl _ => rfl
  | _, _, .slice _ hl => by simp only [hasPtr, hasPtrList_mp hl]
  | _, _, .array _ hl => by simp only [hasPtr, hasPtrList_mp hl]
  | _, _, .map _ _ _ _ _ hm hp _ => by
    simp only [hasPtr, hasPtrKVs_mpv hm]
    rw [hasPtrKVs_eq_any, hasPtrKVs_eq_any, hp.any_eq]
  | _, _, .mapVals _ _ _ _ hm => by simp only [hasPtr, hasPtrKVs_mpv hm]
  | _, _, .mapSlice hm => by simp only [hasPtr, hasPtrKVs_mpv hm]
  | _, _, .keyedMap _ hf => by simp only [hasPtr, hasPtrFields_mpf hf]
  | _, _, .struct hf => by simp only [hasPtr, hasPtrFields_mpf hf]
  | _, _, .ptr _ => rfl
  | _, _, .drop h => by simp only [hasPtr, hasPtr_mp h]
theorem hasPtrList_mp : ∀ {xs ys : List GoVal}, MPL xs ys → hasPtr.hasPtrList xs = hasPtr.hasPtrList ys
  | _, _, .nil => rfl
  | _, _, .cons hx h => by simp only [hasPtr.hasPtrList, hasPtr_mp hx, hasPtrList_mp h]
theorem hasPtrKVs_mpv : ∀ {xs ys : List (GoVal × GoVal)}, MPV xs ys → hasPtr.hasPtrKVs xs = hasPtr.hasPtrKVs ys
  | _, _, .nil => rfl
  | _, _, .cons k hv h => by simp only [hasPtr.hasPtrKVs, hasPtr_mp hv, hasPtrKVs_mpv h]
theorem hasPtrFields_mpf : ∀ {xs ys : List (Bytes × GoVal)}, MPF xs ys → hasPtr.hasPtrFields xs = hasPtr.hasPtrFields ys
  | _, _, .nil => rfl
  | _, _, .cons k hv h => by simp only [hasPtr.hasPtrFields, hasPtr_mp hv, hasPtrFields_mpf h]
end

theorem any_hasPtr_mp : ∀ {xs ys : List GoVal}, MPL xs ys → xs.any hasPtr = ys.any hasPtr
  | _, _, .nil => rfl
  | _, _, .cons hx h => by simp only [List.any_cons, hasPtr_mp hx, any_hasPtr_mp h]

/-! ## The canonical form -/

/-- the insertion sort looks at the comparator on the elements of the list only -/
theorem insertRev_congr {α : Type} {lt lt' : α → α → Bool} (x : α) :
    ∀ (rev : List α), (∀ y ∈ rev, lt x y = lt' x y) → insertRev lt x rev = insertRev lt' x rev
  | [], _ => rfl
  | y :: r, h => by
    simp only [insertRev, h y List.mem_cons_self]
    split
    · rw [insertRev_congr x r (fun z hz => h z (List.mem_cons_of_mem _ hz))]
    · rfl

theorem insertionLoop_congr {α : Type} {lt lt' : α → α → Bool} (S : α → Prop) (hS : ∀ a b, S a → S b → lt a b = lt' a b) :
    ∀ (rest rev : List α), (∀ y ∈ rev, S y) → (∀ y ∈ rest, S y) → insertionLoop lt rev rest = insertionLoop lt' rev rest
  | [], _, _, _ => rfl
  | x :: rest, rev, hr, hrest => by
    have hx := hrest x List.mem_cons_self
    simp only [insertionLoop]
    rw [insertRev_congr x rev (fun y hy => hS x y hx (hr y hy))]
    refine insertionLoop_congr S hS rest _ ?_ (fun y hy => hrest y (List.mem_cons_of_mem _ hy))
    intro y hy
    rcases mem_insertRev.mp hy with rfl | hy
    · exact hx
    · exact hr y hy

theorem insertionSort_congr {α : Type} {lt lt' : α → α → Bool} (l : List α) (h : ∀ a ∈ l, ∀ b ∈ l, lt a b = lt' a b) :
    insertionSort lt l = insertionSort lt' l :=
  insertionLoop_congr (· ∈ l) (fun a b ha hb => h a ha b hb) l [] (by simp) (fun _ h => h)

/-- on booleans, numbers and strings the codec's order is the order of `SortedMapKeys` -/
theorem codecLess_eq_keyLess {a b : GoVal} (ha : GoodKey a) (hb : GoodKey b) : codecLess a b = keyLess a b := by
  have ra : codecRank a = keyClass a := by cases a <;> simp [GoodKey, goodKey] at ha <;> rfl
  have rb : codecRank b = keyClass b := by cases b <;> simp [GoodKey, goodKey] at hb <;> rfl
  have ca : keyClass a = 1 ∨ keyClass a = 2 ∨ keyClass a = 3 := by cases a <;> simp [GoodKey, goodKey] at ha <;> simp [keyClass]
  unfold codecLess keyLess
  simp only [ra, rb]
  by_cases hc : keyClass a = keyClass b
  · simp only [hc, bne_self_eq_false, Bool.false_eq_true, if_false]
    rcases ca with h | h | h <;> rw [hc] at h <;> simp [h] <;> simp only [← hc, keyLess, bne_self_eq_false, Bool.false_eq_true, if_false]
  · have : (keyClass a != keyClass b) = true := by simp [hc]
    simp only [this, if_true]

theorem canonOrder_goodKey {k : GoVal} (h : GoodKey k) : canonOrder k = k := by
  cases k <;> simp [GoodKey, goodKey] at h <;> rfl

theorem canonOrderKVs_eq_map (kvs : List (GoVal × GoVal)) : canonOrderKVs kvs = kvs.map fun kv => (canonOrder kv.1, canonOrder kv.2) := by
  induction kvs with
  | nil => rfl
  | cons kv r ih => obtain ⟨k, v⟩ := kv; simp [canonOrderKVs, ih]

mutual
theorem canonOrder_mp : ∀ {a b : GoVal}, MP a b → canonOrder a = canonOrder b
  | _, _, .refl _ => rfl
  | _, _, .slice _ hl => by simp only [canonOrder, canonOrderList_mp hl]
  | _, _, .array _ hl => by simp only [canonOrder, canonOrderList_mp hl]
  | _, _, @MP.map kt vt kvs mid kvs' _ hk _ hm hp _ => by
    simp only [canonOrder, canonOrderKVs_mpv hm]
    congr 1
    -- the entries of `mid` and of `kvs'`, canonical inside, are permutations of each other with good, distinct keys
    have hkm : KeysOK mid := keysOK_of_keys_eq hm.keys_eq hk
    have hkeys : (canonOrderKVs mid).map (·.1) = mid.map (·.1) := by
      rw [canonOrderKVs_eq_map, List.map_map]
      exact List.map_congr_left (fun kv hkv => canonOrder_goodKey (hkm.1 kv hkv))
    have hkc : KeysOK (canonOrderKVs mid) := keysOK_of_keys_eq hkeys.symm hkm
    have hpc : (canonOrderKVs kvs').Perm (canonOrderKVs mid) := by
      rw [canonOrderKVs_eq_map, canonOrderKVs_eq_map]; exact (hp.map _).symm
    have e1 : ∀ l : List (GoVal × GoVal), KeysOK l →
        insertionSort (fun a b : GoVal × GoVal => codecLess a.1 b.1) l = sortedEntries l := by
      intro l hl
      exact insertionSort_congr l (fun a ha b hb => codecLess_eq_keyLess (hl.1 a ha) (hl.1 b hb))
    rw [e1 _ hkc, e1 _ (hkc.perm hpc)]
    exact (sortedEntries_perm hpc hkc).symm
  | _, _, .mapVals _ _ _ _ hm => by simp only [canonOrder, canonOrderKVs_mpv hm]
  | _, _, .mapSlice hm => by simp only [canonOrder, canonOrderKVs_mpv hm]
  | _, _, .keyedMap _ hf => by simp only [canonOrder, canonOrderFields_mpf hf]
  | _, _, .struct hf => by simp only [canonOrder, canonOrderFields_mpf hf]
  | _, _, .ptr h => by simp only [canonOrder, canonOrder_mp h]
  | _, _, .drop h => by simp only [canonOrder, canonOrder_mp h]
theorem canonOrderList_mp : ∀ {xs ys : List GoVal}, MPL xs ys → canonOrderList xs = canonOrderList ys
  | _, _, .nil => rfl
  | _, _, .cons hx h => by simp only [canonOrderList, canonOrder_mp hx, canonOrderList_mp h]
theorem canonOrderKVs_mpv : ∀ {xs ys : List (GoVal × GoVal)}, MPV xs ys → canonOrderKVs xs = canonOrderKVs ys
  | _, _, .nil => rfl
  | _, _, .cons k hv h => by simp only [canonOrderKVs, canonOrder_mp hv, canonOrderKVs_mpv h]
theorem canonOrderFields_mpf : ∀ {xs ys : List (Bytes × GoVal)}, MPF xs ys → canonOrderFields xs = canonOrderFields ys
  | _, _, .nil => rfl
  | _, _, .cons k hv h => by simp only [canonOrderFields, canonOrder_mp hv, canonOrderFields_mpf h]
end

/-- related values have the same canonical encoding -/
theorem canonEnc_mp {a b : GoVal} (h : MP a b) : canonEnc a = canonEnc b := by
  unfold canonEnc; rw [canonOrder_mp h]

/-! ## `uniq` -/

theorem uniqFormVals_eq_map (kvs : List (GoVal × GoVal)) :
    uniqFormVals kvs = kvs.map fun kv => (kv.1, uniqForm kv.2) := by
  induction kvs with
  | nil => rfl
  | cons kv r ih => obtain ⟨k, v⟩ := kv; simp [uniqFormVals, ih]

theorem uniqFormFields_eq_map (fs : List (Bytes × GoVal)) :
    uniqFormFields fs = fs.map fun kv => (GoVal.str kv.1, uniqForm kv.2) := by
  induction fs with
  | nil => rfl
  | cons kv r ih => obtain ⟨k, v⟩ := kv; simp [uniqFormFields, ih]

/-- what `uniq` compares is never the renderer's counter map: every map has become a `map[K]any` -/
theorem isPrivMap_uniqForm : ∀ v : GoVal, isPrivMap (uniqForm v) = false
  | .drop v => by simp only [ArrF.uniqForm]; exact isPrivMap_uniqForm v
  | .ptr (.drop v) => by simp only [ArrF.uniqForm]; exact isPrivMap_uniqForm v
  | .ptr .nil | .ptr (.bool _) | .ptr (.int _ _) | .ptr (.flt _ _) | .ptr (.str _) | .ptr (.bytes _)
  | .ptr (.slice _ _) | .ptr (.array _ _) | .ptr (.map _ _ _) | .ptr (.mapSlice _) | .ptr (.keyedMap _)
  | .ptr (.range _ _) | .ptr (.ptr _) | .ptr .nilPtr | .ptr (.struct _) | .ptr (.time _) => by
    simp [ArrF.uniqForm, isPrivMap]
  | .nil | .bool _ | .int _ _ | .flt _ _ | .str _ | .bytes _ | .slice _ _ | .array _ _ | .map _ _ _
  | .mapSlice _ | .keyedMap _ | .range _ _ | .nilPtr | .struct _ | .time _ => by simp [ArrF.uniqForm, isPrivMap]

theorem noPriv_uniqFormVals (kvs : List (GoVal × GoVal)) : NoPriv (uniqFormVals kvs) := by
  rw [uniqFormVals_eq_map]
  intro kv hkv
  obtain ⟨kv', _, rfl⟩ := List.mem_map.mp hkv
  exact isPrivMap_uniqForm _

theorem noPriv_uniqFormFields (fs : List (Bytes × GoVal)) : NoPriv (uniqFormFields fs) := by
  rw [uniqFormFields_eq_map]
  intro kv hkv
  obtain ⟨kv', _, rfl⟩ := List.mem_map.mp hkv
  exact isPrivMap_uniqForm _

theorem keysOK_uniqFormVals {kvs : List (GoVal × GoVal)} (hk : KeysOK kvs) : KeysOK (uniqFormVals kvs) := by
  rw [uniqFormVals_eq_map]
  refine ⟨?_, ?_⟩
  · intro kv hkv
    obtain ⟨kv', hkv', rfl⟩ := List.mem_map.mp hkv
    exact hk.1 kv' hkv'
  · rw [List.pairwise_map]; exact hk.2

theorem keysTyped_uniqFormVals {kt : Ty} {kvs : List (GoVal × GoVal)} (hk : KeysTyped kt kvs) :
    KeysTyped kt (uniqFormVals kvs) := by
  rw [uniqFormVals_eq_map]
  intro kv hkv
  obtain ⟨kv', hkv', rfl⟩ := List.mem_map.mp hkv
  exact hk kv' hkv'

/-- the items of two related ordered maps, as the `MapItem` structs `uniq` compares -/
theorem mapItems_mpv : ∀ {kvs kvs' : List (GoVal × GoVal)}, MPV kvs kvs' →
    MPL (kvs.map fun kv => GoVal.struct [([], kv.1), ([], kv.2)]) (kvs'.map fun kv => GoVal.struct [([], kv.1), ([], kv.2)])
  | _, _, .nil => .nil
  | _, _, .cons k hv h => .cons (.struct (.cons [] (.refl k) (.cons [] hv .nil))) (mapItems_mpv h)

mutual
/-- what `uniq` compares of related elements is related -/
theorem MP.uniqForm : ∀ {a b : GoVal}, MP a b → MP (uniqForm a) (uniqForm b)
  | _, _, .refl _ => .refl _
  | _, _, .slice _ hl => by simp only [ArrF.uniqForm]; exact .slice _ (MPL.uniqForm hl)
  | _, _, .array _ hl => by simp only [ArrF.uniqForm]; exact .slice _ (MPL.uniqForm hl)
  | _, _, .map kt _ _ hk _ hm hp ht => by
    simp only [ArrF.uniqForm]
    refine .map kt .any (by decide) (keysOK_uniqFormVals hk) (noPriv_uniqFormVals _) (MPV.uniqForm hm) ?_ (keysTyped_uniqFormVals ht)
    rw [uniqFormVals_eq_map, uniqFormVals_eq_map]; exact hp.map _
  | _, _, .mapVals kt _ _ _ hm => by
    simp only [ArrF.uniqForm]
    exact .mapVals kt .any (by decide) (noPriv_uniqFormVals _) (MPV.uniqForm hm)
  | _, _, .mapSlice hm => by simp only [ArrF.uniqForm]; exact .slice _ (mapItems_mpv hm)
  | _, _, .keyedMap _ hf => by
    simp only [ArrF.uniqForm]
    exact .mapVals .str .any (by decide) (noPriv_uniqFormFields _) (MPF.uniqForm hf)
  | _, _, .struct hf => by simp only [ArrF.uniqForm]; exact .struct hf
  | _, _, .drop h => by simp only [ArrF.uniqForm]; exact MP.uniqForm h
  | _, _, .ptr (.refl _) => .refl _
  | _, _, .ptr (.drop h) => by simp only [ArrF.uniqForm]; exact MP.uniqForm h
  | _, _, .ptr (.slice t h) => by simp only [ArrF.uniqForm]; exact .ptr (.slice t h)
  | _, _, .ptr (.array t h) => by simp only [ArrF.uniqForm]; exact .ptr (.array t h)
  | _, _, .ptr (.map kt vt h1 h2 h3 h4 h5 h6) => by simp only [ArrF.uniqForm]; exact .ptr (.map kt vt h1 h2 h3 h4 h5 h6)
  | _, _, .ptr (.mapVals kt vt h1 h2 h3) => by simp only [ArrF.uniqForm]; exact .ptr (.mapVals kt vt h1 h2 h3)
  | _, _, .ptr (.mapSlice h) => by simp only [ArrF.uniqForm]; exact .ptr (.mapSlice h)
  | _, _, .ptr (.keyedMap h1 h2) => by simp only [ArrF.uniqForm]; exact .ptr (.keyedMap h1 h2)
  | _, _, .ptr (.struct h) => by simp only [ArrF.uniqForm]; exact .ptr (.struct h)
  | _, _, .ptr (.ptr h) => by simp only [ArrF.uniqForm]; exact .ptr (.ptr h)
theorem MPL.uniqForm : ∀ {xs ys : List GoVal}, MPL xs ys → MPL (uniqFormList xs) (uniqFormList ys)
  | _, _, .nil => .nil
  | _, _, .cons hx h => by simp only [uniqFormList]; exact .cons (MP.uniqForm hx) (MPL.uniqForm h)
theorem MPV.uniqForm : ∀ {xs ys : List (GoVal × GoVal)}, MPV xs ys → MPV (uniqFormVals xs) (uniqFormVals ys)
  | _, _, .nil => .nil
  | _, _, .cons k hv h => by simp only [uniqFormVals]; exact .cons k (MP.uniqForm hv) (MPV.uniqForm h)
theorem MPF.uniqForm : ∀ {xs ys : List (Bytes × GoVal)}, MPF xs ys → MPV (uniqFormFields xs) (uniqFormFields ys)
  | _, _, .nil => .nil
  | _, _, .cons k hv h => by simp only [uniqFormFields]; exact .cons (.str k) (MP.uniqForm hv) (MPF.uniqForm h)
end

/-- related elements have the same key in `uniq` -/
theorem uniqKey_mp {a b : GoVal} (h : MP a b) : uniqKey a = uniqKey b := canonEnc_mp h.uniqForm

theorem uniqOn_mp : ∀ {xs ys : List GoVal}, MPL xs ys → ∀ seen : List String,
    MPL (uniqOn uniqKey seen xs) (uniqOn uniqKey seen ys)
  | _, _, .nil, _ => .nil
  | _, _, .cons hx h, seen => by
    simp only [uniqOn, uniqKey_mp hx]
    split
    · exact uniqOn_mp h seen
    · exact .cons hx (uniqOn_mp h _)

theorem uniq_respectsM : ImplRespectsM [.val .anys] (eager uniq) := by
  intro cs cs' h
  obtain ⟨ys, ys', rfl, rfl, hn⟩ := argsRelM_anys1 h
  simp only [eager, FilterImpl.ofEager, FilterImpl.ofEager.collect, Res.bind, uniq, any_hasPtr_mp hn]
  cases ys'.any hasPtr with
  | true => exact exrelM_refl _
  | false =>
    simp only [Bool.false_eq_true, if_false, ret, uniqF]
    exact exrelM_ok (MP.slice _ (uniqOn_mp hn []))
