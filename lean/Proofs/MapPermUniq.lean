import Proofs.MapPermJson
/-!
# `uniq` and the order of map entries (helper lemmas for C02)

`uniq` identifies elements by `MapOrder.canonEnc`, the encoding of the value with every map in the
codec's canonical order: related elements have the same canonical form (`canonOrder_mp`).
-/

open GoVal MapOrder ArrF

/-! ## Does the value hold a pointer? -/

theorem hasPtrKVs_eq_any (kvs : List (GoVal × GoVal)) :
    hasPtr.hasPtrKVs kvs = kvs.any (fun kv => hasPtr kv.1 || hasPtr kv.2) := by
  induction kvs with
  | nil => rfl
  | cons kv r ih => obtain ⟨k, v⟩ := kv; simp only [hasPtr.hasPtrKVs, ih, List.any_cons]

mutual
theorem hasPtr_mp : ∀ {a b : GoVal}, MP a b → hasPtr a = hasPtr b
  | _, _, .refl _ => rfl
  | _, _, .slice _ hl => by simp only [hasPtr, hasPtrList_mp hl]
  | _, _, .array _ hl => by simp only [hasPtr, hasPtrList_mp hl]
  | _, _, .map _ _ _ _ _ hm hp _ => by
    simp only [hasPtr, hasPtrKVs_mpv hm]
    rw [hasPtrKVs_eq_any, hasPtrKVs_eq_any, hp.any_eq]
  | _, _, .mapVals _ _ _ _ hm => by simp only [hasPtr, hasPtrKVs_mpv hm]
  | _, _, .mapSlice hm => by simp only [hasPtr, hasPtrKVs_mpv hm]
  | _, _, .keyedMap _ hf => by simp only [hasPtr, hasPtrFields_mpf hf]
  | _, _, .struct hf => by simp only [hasPtr, hasPtrFields_mpf hf]
  | _, _, .ptr _ => rfl
  | _, _, .drop h => by simp only [hasPtr, hasPtr_mp h]
theorem hasPtrList_mp : ∀ {xs ys : List GoVal}, MPL xs ys → hasPtr.hasPtrList xs = hasPtr.hasPtrList ys
  | _, _, .nil => rfl
  | _, _, .cons hx h => by simp only [hasPtr.hasPtrList, hasPtr_mp hx, hasPtrList_mp h]
theorem hasPtrKVs_mpv : ∀ {xs ys : List (GoVal × GoVal)}, MPV xs ys → hasPtr.hasPtrKVs xs = hasPtr.hasPtrKVs ys
  | _, _, .nil => rfl
  | _, _, .cons k hv h => by simp only [hasPtr.hasPtrKVs, hasPtr_mp hv, hasPtrKVs_mpv h]
theorem hasPtrFields_mpf : ∀ {xs ys : List (Bytes × GoVal)}, MPF xs ys → hasPtr.hasPtrFields xs = hasPtr.hasPtrFields ys
  | _, _, .nil => rfl
  | _, _, .cons k hv h => by simp only [hasPtr.hasPtrFields, hasPtr_mp hv, hasPtrFields_mpf h]
end

theorem any_hasPtr_mp : ∀ {xs ys : List GoVal}, MPL xs ys → xs.any hasPtr = ys.any hasPtr
  | _, _, .nil => rfl
  | _, _, .cons hx h => by simp only [List.any_cons, hasPtr_mp hx, any_hasPtr_mp h]

/-! ## The canonical form -/

/-- the insertion sort looks at the comparator on the elements of the list only -/
theorem insertRev_congr {α : Type} {lt lt' : α → α → Bool} (x : α) :
    ∀ (rev : List α), (∀ y ∈ rev, lt x y = lt' x y) → insertRev lt x rev = insertRev lt' x rev
  | [], _ => rfl
  | y :: r, h => by
    simp only [insertRev, h y List.mem_cons_self]
    split
    · rw [insertRev_congr x r (fun z hz => h z (List.mem_cons_of_mem _ hz))]
    · rfl

theorem insertionLoop_congr {α : Type} {lt lt' : α → α → Bool} (S : α → Prop) (hS : ∀ a b, S a → S b → lt a b = lt' a b) :
    ∀ (rest rev : List α), (∀ y ∈ rev, S y) → (∀ y ∈ rest, S y) → insertionLoop lt rev rest = insertionLoop lt' rev rest
  | [], _, _, _ => rfl
  | x :: rest, rev, hr, hrest => by
    have hx := hrest x List.mem_cons_self
    simp only [insertionLoop]
    rw [insertRev_congr x rev (fun y hy => hS x y hx (hr y hy))]
    refine insertionLoop_congr S hS rest _ ?_ (fun y hy => hrest y (List.mem_cons_of_mem _ hy))
    intro y hy
    rcases mem_insertRev.mp hy with rfl | hy
    · exact hx
    · exact hr y hy

theorem insertionSort_congr {α : Type} {lt lt' : α → α → Bool} (l : List α) (h : ∀ a ∈ l, ∀ b ∈ l, lt a b = lt' a b) :
    insertionSort lt l = insertionSort lt' l :=
  insertionLoop_congr (· ∈ l) (fun a b ha hb => h a ha b hb) l [] (by simp) (fun _ h => h)

/-- on booleans, numbers and strings the codec's order is the order of `SortedMapKeys` -/
theorem codecLess_eq_keyLess {a b : GoVal} (ha : GoodKey a) (hb : GoodKey b) : codecLess a b = keyLess a b := by
  have ra : codecRank a = keyClass a := by cases a <;> simp [GoodKey, goodKey] at ha <;> rfl
  have rb : codecRank b = keyClass b := by cases b <;> simp [GoodKey, goodKey] at hb <;> rfl
  have ca : keyClass a = 1 ∨ keyClass a = 2 ∨ keyClass a = 3 := by cases a <;> simp [GoodKey, goodKey] at ha <;> simp [keyClass]
  unfold codecLess keyLess
  simp only [ra, rb]
  by_cases hc : keyClass a = keyClass b
  · simp only [hc, bne_self_eq_false, Bool.false_eq_true, if_false]
    rcases ca with h | h | h <;> rw [hc] at h <;> simp [h] <;> simp only [← hc, keyLess, bne_self_eq_false, Bool.false_eq_true, if_false]
  · have : (keyClass a != keyClass b) = true := by simp [hc]
    simp only [this, if_true]

theorem canonOrder_goodKey {k : GoVal} (h : GoodKey k) : canonOrder k = k := by
  cases k <;> simp [GoodKey, goodKey] at h <;> rfl

theorem canonOrderKVs_eq_map (kvs : List (GoVal × GoVal)) : canonOrderKVs kvs = kvs.map fun kv => (canonOrder kv.1, canonOrder kv.2) := by
  induction kvs with
  | nil => rfl
  | cons kv r ih => obtain ⟨k, v⟩ := kv; simp [canonOrderKVs, ih]

mutual
theorem canonOrder_mp : ∀ {a b : GoVal}, MP a b → canonOrder a = canonOrder b
  | _, _, .refl _ => rfl
  | _, _, .slice _ hl => by simp only [canonOrder, canonOrderList_mp hl]
  | _, _, .array _ hl => by simp only [canonOrder, canonOrderList_mp hl]
  | _, _, @MP.map kt vt kvs mid kvs' _ hk _ hm hp _ => by
    simp only [canonOrder, canonOrderKVs_mpv hm]
    congr 1
    -- the entries of `mid` and of `kvs'`, canonical inside, are permutations of each other with good, distinct keys
    have hkm : KeysOK mid := keysOK_of_keys_eq hm.keys_eq hk
    have hkeys : (canonOrderKVs mid).map (·.1) = mid.map (·.1) := by
      rw [canonOrderKVs_eq_map, List.map_map]
      exact List.map_congr_left (fun kv hkv => canonOrder_goodKey (hkm.1 kv hkv))
    have hkc : KeysOK (canonOrderKVs mid) := keysOK_of_keys_eq hkeys.symm hkm
    have hpc : (canonOrderKVs kvs').Perm (canonOrderKVs mid) := by
      rw [canonOrderKVs_eq_map, canonOrderKVs_eq_map]; exact (hp.map _).symm
    have e1 : ∀ l : List (GoVal × GoVal), KeysOK l →
        insertionSort (fun a b : GoVal × GoVal => codecLess a.1 b.1) l = sortedEntries l := by
      intro l hl
      exact insertionSort_congr l (fun a ha b hb => codecLess_eq_keyLess (hl.1 a ha) (hl.1 b hb))
    rw [e1 _ hkc, e1 _ (hkc.perm hpc)]
    exact (sortedEntries_perm hpc hkc).symm
  | _, _, .mapVals _ _ _ _ hm => by simp only [canonOrder, canonOrderKVs_mpv hm]
  | _, _, .mapSlice hm => by simp only [canonOrder, canonOrderKVs_mpv hm]
  | _, _, .keyedMap _ hf => by simp only [canonOrder, canonOrderFields_mpf hf]
  | _, _, .struct hf => by simp only [canonOrder, canonOrderFields_mpf hf]
  | _, _, .ptr h => by simp only [canonOrder, canonOrder_mp h]
  | _, _, .drop h => by simp only [canonOrder, canonOrder_mp h]
theorem canonOrderList_mp : ∀ {xs ys : List GoVal}, MPL xs ys → canonOrderList xs = canonOrderList ys
  | _, _, .nil => rfl
  | _, _, .cons hx h => by simp only [canonOrderList, canonOrder_mp hx, canonOrderList_mp h]
theorem canonOrderKVs_mpv : ∀ {xs ys : List (GoVal × GoVal)}, MPV xs ys → canonOrderKVs xs = canonOrderKVs ys
  | _, _, .nil => rfl
  | _, _, .cons k hv h => by simp only [canonOrderKVs, canonOrder_mp hv, canonOrderKVs_mpv h]
theorem canonOrderFields_mpf : ∀ {xs ys : List (Bytes × GoVal)}, MPF xs ys → canonOrderFields xs = canonOrderFields ys
  | _, _, .nil => rfl
  | _, _, .cons k hv h => by simp only [canonOrderFields, canonOrder_mp hv, canonOrderFields_mpf h]
end

/-- related values have the same canonical encoding -/
theorem canonEnc_mp {a b : GoVal} (h : MP a b) : canonEnc a = canonEnc b := by
  unfold canonEnc; rw [canonOrder_mp h]

/-! ## `uniq` -/

theorem uniqOn_mp : ∀ {xs ys : List GoVal}, MPL xs ys → ∀ seen : List String,
    MPL (uniqOn canonEnc seen xs) (uniqOn canonEnc seen ys)
  | _, _, .nil, _ => .nil
  | _, _, .cons hx h, seen => by
    simp only [uniqOn, canonEnc_mp hx]
    split
    · exact uniqOn_mp h seen
    · exact .cons hx (uniqOn_mp h _)

theorem uniq_respectsM : ImplRespectsM [.val .anys] (eager uniq) := by
  intro cs cs' h
  obtain ⟨ys, ys', rfl, rfl, hn⟩ := argsRelM_anys1 h
  simp only [eager, FilterImpl.ofEager, FilterImpl.ofEager.collect, Res.bind, uniq, any_hasPtr_mp hn]
  cases ys'.any hasPtr with
  | true => exact exrelM_refl _
  | false =>
    simp only [Bool.false_eq_true, if_false, ret, uniqF]
    exact exrelM_ok (MP.slice _ (uniqOn_mp hn []))
