import Proofs.ExprLitLemmas
import Liquid.Render
/-!
# C08 — expressions from their source text: literals, whitespace between the parts

The theorems of `Proofs/C08.lean` are about evaluation; the ones here are about the SOURCE BYTES of an
expression (`parseExprSource`, the model of `expressions.Parse`; `parseStatement` for the tags):

* literals denote themselves (`int_literal_denotes`, `string_literal_denotes`, `float_literal_denotes`,
  `true_false_nil_denote`, `literal_round_trip`);
* whitespace between the lexemes never changes the parse (`whitespace_between_lexemes`,
  `well_spaced_tokens`, `same_lexemes_same_parse`), with the exact conditions under which two lexemes
  may touch (`fits`), and the places where a space does matter recorded as counterexamples.

Helper lemmas: `Proofs/ExprLexLemmas.lean` (the scanner one step at a time), `Proofs/ExprLexemes.lean`
(the grammar `Lexeme` of lexemes, `fits`, `step_lexeme`), `Proofs/ExprSpacing.lean` (pieces),
`Proofs/ExprLitLemmas.lean` (values of literal lexemes).
-/

/-! ## G1. Literals denote themselves -/

/-- **Integer literals.** A string of decimal digits with an optional `-` denotes its value in base ten —
    leading zeros allowed, never octal — as a Go `int`; outside the int64 range it is a syntax error. -/
theorem int_literal_denotes (neg : Bool) (ds : Bytes) (hne : ds ≠ []) (hd : ds.all isDigit = true) :
    parseExprSource ((if neg then [45] else []) ++ ds) =
      (if IntKind.i64.inRange (if neg then -(decVal ds : Int) else (decVal ds : Int))
       then .ok (.lit (.int .int (if neg then -(decVal ds : Int) else (decVal ds : Int))))
       else .err .syntax) := by
  have hl : Lexeme .rInt ((if neg then [45] else []) ++ ds) :=
    Lexeme.int _ ds (by cases neg <;> simp [isSign]) hne hd
  cases neg with
  | false =>
    simp only [Bool.false_eq_true, if_false, List.nil_append] at hl ⊢
    by_cases hr : IntKind.i64.inRange (decVal ds : Int) = true
    · rw [if_pos hr]
      exact parseExprSource_lit _ _ _ hl (by simp only [mkTok, intLitValue_pos ds hne hd, hr, if_true])
    · rw [if_neg hr]
      exact parseExprSource_lit_err _ _ hl (by simp [mkTok, intLitValue_pos ds hne hd, hr])
  | true =>
    simp only [if_true, List.cons_append, List.nil_append] at hl ⊢
    by_cases hr : IntKind.i64.inRange (-(decVal ds : Int)) = true
    · rw [if_pos hr]
      exact parseExprSource_lit _ _ _ hl (by simp only [mkTok, intLitValue_neg ds, hr, if_true])
    · rw [if_neg hr]
      exact parseExprSource_lit_err _ _ hl (by simp [mkTok, intLitValue_neg ds, hr])

/-- every `int64` is denoted by its decimal text (`strconv.Itoa`, `intDec`), also with `k` leading zeros -/
theorem int_literal_round_trip (n : Int) (k : Nat) (h : IntKind.i64.inRange n = true) :
    parseExprSource (intDec n) = .ok (.lit (.int .int n)) ∧
    parseExprSource ((if n < 0 then [45] else []) ++ zeros k ++ natDec n.natAbs) = .ok (.lit (.int .int n)) := by
  have hz : (zeros k ++ natDec n.natAbs).all isDigit = true := by
    rw [List.all_append, zeros_all_digits, natDec_all_digits]; rfl
  have hzne : zeros k ++ natDec n.natAbs ≠ [] := by
    intro h0; exact natDec_ne_nil _ (List.append_eq_nil_iff.1 h0).2
  by_cases hn : n < 0
  · have hv : -(n.natAbs : Int) = n := by omega
    have h1 := int_literal_denotes true (natDec n.natAbs) (natDec_ne_nil _) (natDec_all_digits _)
    have h2 := int_literal_denotes true (zeros k ++ natDec n.natAbs) hzne hz
    rw [decVal_zeros_append] at h2
    simp only [if_true, decVal_natDec, hv, h] at h1 h2
    simp only [intDec, hn, if_true, List.append_assoc]
    exact ⟨h1, h2⟩
  · have hv : (n.natAbs : Int) = n := by omega
    have h1 := int_literal_denotes false (natDec n.natAbs) (natDec_ne_nil _) (natDec_all_digits _)
    have h2 := int_literal_denotes false (zeros k ++ natDec n.natAbs) hzne hz
    rw [decVal_zeros_append] at h2
    simp only [Bool.false_eq_true, if_false, decVal_natDec, hv, h, if_true, List.nil_append] at h1 h2
    simp only [intDec, hn, if_false, List.nil_append]
    exact ⟨h1, h2⟩

/-- **String literals.** Between two `"` (or two `'`) any bytes except that quote denote themselves:
    no escape processing, any other byte (newlines, the other quote, `\`, non-UTF-8) included. -/
theorem string_literal_denotes (q : UInt8) (s : Bytes) (hq : q = 34 ∨ q = 39) (hs : q ∉ s) :
    parseExprSource (q :: s ++ [q]) = .ok (.lit (.str s)) := by
  have hq' : (q == 34 || q == 39) = true := by rcases hq with rfl | rfl <;> rfl
  have hb : s.all (fun b => b != q) = true := by
    rw [List.all_eq_true]
    intro b hb
    simp only [bne_iff_ne, ne_eq]
    intro h; subst h; exact hs hb
  refine parseExprSource_lit .rString _ _ (Lexeme.string q s hq' hb) ?_
  simp only [mkTok, List.cons_append, List.drop_succ_cons, List.drop_zero, List.length_cons, List.length_append,
    List.length_nil]
  have : s.length + 0 + 1 + 1 - 2 = s.length := by omega
  rw [this, List.take_left' rfl]

/-- `true`, `false` and `nil` -/
theorem true_false_nil_denote :
    parseExprSource kwTrue = .ok (.lit (.bool true)) ∧ parseExprSource kwFalse = .ok (.lit (.bool false)) ∧
    parseExprSource kwNil = .ok (.lit .nil) := ⟨rfl, rfl, rfl⟩

/-- **Float literals** `d+.d+` with an optional `-` denote the exact decimal rounded to the nearest
    `float64` (ties to even; `floatOfDigits`); a literal beyond the `float64` range is a syntax error.
    A literal that denotes −0 (`-0.0`) is outside the model. -/
theorem float_literal_denotes (neg : Bool) (ds fs : Bytes) (hne : ds ≠ []) (hd : ds.all isDigit = true)
    (hfne : fs ≠ []) (hfd : fs.all isDigit = true) :
    parseExprSource ((if neg then [45] else []) ++ ds ++ 46 :: fs) =
      (match floatOfDigits ds fs with
       | none => .err .syntax
       | some r =>
         if neg && r == 0 then .unmodelled "negative zero literal"
         else .ok (.lit (.flt .f64 (if neg then -r else r)))) := by
  have hl : Lexeme .rFloat ((if neg then [45] else []) ++ ds ++ 46 :: fs) :=
    Lexeme.float _ ds fs (by cases neg <;> simp [isSign]) hne hd hfne hfd
  have hsingle := lexRun_single _ _ hl
  unfold parseExprSource
  rw [parseSource_eq, hsingle]
  cases neg with
  | false =>
    simp only [Bool.false_eq_true, if_false, List.nil_append, mkTok, floatLitValue_pos ds fs hne hd, Bool.false_and]
    cases floatOfDigits ds fs with
    | none => rfl
    | some r => rfl
  | true =>
    simp only [if_true, List.cons_append, List.nil_append, mkTok, floatLitValue_neg ds fs hd, Bool.true_and]
    cases floatOfDigits ds fs with
    | none => rfl
    | some r =>
      simp only
      by_cases h0 : (r == 0) = true
      · simp only [h0, if_true]; rfl
      · simp only [h0, Bool.false_eq_true, if_false]; rfl

/-- the printer of the literal kinds that have a canonical text: `nil`, `true`, `false`, a Go `int`
    in decimal, a string between double quotes -/
def showLit : GoVal → Option Bytes
  | .nil => some kwNil
  | .bool true => some kwTrue
  | .bool false => some kwFalse
  | .int .int n => some (intDec n)
  | .str s => some (34 :: s ++ [34])
  | _ => none

/-- the guard of the round trip: an `int` fits `int64`, a string has no `"` (there is no escape syntax) -/
def litOK : GoVal → Bool
  | .int .int n => IntKind.i64.inRange n
  | .str s => !s.contains 34
  | _ => true

/-- **C08 (literals denote themselves).** Printing a literal and parsing the text gives the literal back. -/
theorem literal_round_trip (v : GoVal) (src : Bytes) (h : showLit v = some src) (hg : litOK v = true) :
    parseExprSource src = .ok (.lit v) := by
  cases v with
  | nil => cases h; rfl
  | bool b => cases b <;> cases h <;> rfl
  | int k n =>
    cases k <;> simp only [showLit, Option.some.injEq] at h <;> try cases h
    exact (int_literal_round_trip n 0 hg).1
  | str s =>
    simp only [showLit, Option.some.injEq] at h
    subst h
    refine string_literal_denotes 34 s (Or.inl rfl) ?_
    simp only [litOK, Bool.not_eq_true', List.contains_eq_mem, decide_eq_false_iff_not] at hg
    exact hg
  | flt => cases h
  | bytes => cases h
  | slice => cases h
  | array => cases h
  | map => cases h
  | mapSlice => cases h
  | keyedMap => cases h
  | range => cases h
  | ptr => cases h
  | nilPtr => cases h
  | drop => cases h
  | struct => cases h
  | time => cases h

/-! Non-vacuity of G1 on concrete bytes -/

/-- `007` is seven (decimal, not octal) and `-12` is minus twelve -/
example : parseExprSource [48, 48, 55] = .ok (.lit (.int .int 7)) := by
  simpa [decVal, IntKind.inRange, IntKind.minVal, IntKind.maxVal, IntKind.isSigned, IntKind.bits]
    using int_literal_denotes false [48, 48, 55] (by decide) (by decide)
example : parseExprSource [45, 49, 50] = .ok (.lit (.int .int (-12))) := rfl
/-- `9223372036854775808` = 2^63 is out of range: a syntax error (after the repair of D1, not a panic) -/
example : parseExprSource [57, 50, 50, 51, 51, 55, 50, 48, 51, 54, 56, 53, 52, 55, 55, 53, 56, 48, 56] = .err .syntax := rfl
/-- `"a'\n"`: the other quote and a newline inside a string -/
example : parseExprSource [34, 97, 39, 10, 34] = .ok (.lit (.str [97, 39, 10])) :=
  string_literal_denotes 34 [97, 39, 10] (Or.inl rfl) (by decide)
/-- `1.5` and `-2.25` -/
example : parseExprSource [49, 46, 53] = .ok (.lit (.flt .f64 (3/2))) := by
  have h : floatOfDigits [49] [53] = some (3/2) := by decide +kernel
  have := float_literal_denotes false [49] [53] (by decide) (by decide) (by decide) (by decide)
  rw [h] at this; exact this
example : parseExprSource [45, 50, 46, 50, 53] = .ok (.lit (.flt .f64 (-(9/4)))) := by
  have h : floatOfDigits [50] [50, 53] = some (9/4) := by decide +kernel
  have h0 : ((9/4 : Rat) == 0) = false := by decide +kernel
  have := float_literal_denotes true [50] [50, 53] (by decide) (by decide) (by decide) (by decide)
  rw [h] at this; simpa [h0] using this
/-- `0.1` denotes the nearest `float64`, 3602879701896397 / 2^55 -/
example : parseExprSource [48, 46, 49] = .ok (.lit (.flt .f64 (mkRat 3602879701896397 36028797018963968))) := by
  have h : floatOfDigits [48] [49] = some (mkRat 3602879701896397 36028797018963968) := by decide +kernel
  have := float_literal_denotes false [48] [49] (by decide) (by decide) (by decide) (by decide)
  rw [h] at this; exact this
/-- `-0.0` is the one literal the model does not answer -/
example : parseExprSource [45, 48, 46, 48] = .unmodelled "negative zero literal" := by
  have h : floatOfDigits [48] [48] = some 0 := by decide +kernel
  have := float_literal_denotes true [48] [48] (by decide) (by decide) (by decide) (by decide)
  rw [h] at this; simpa using this
example : showLit (.int .int (-12)) = some [45, 49, 50] := rfl
example : parseExprSource [45, 49, 50] = .ok (.lit (.int .int (-12))) :=
  literal_round_trip (.int .int (-12)) _ rfl (by decide)

/-! ## G2. Whitespace between the lexemes never changes the meaning

The parts of an expression are its lexemes (`Lexeme`, `Proofs/ExprLexemes.lean`): numbers `-?d+`, `-?d+.d+`,
strings, words (identifiers and `true false nil and or contains in`), keywords `name:`, properties `.name`,
`== != >= <= ..`, and every other non-blank byte on its own (`| , ( ) [ ] < > = : - .` …). A source text is a
list of `Piece`s — a lexeme and the whitespace (`space+` of the scanner: space, `\t \n \v \f \r`) written in
front of it. `fits r l rest` (the merge conditions, spelled out in `fitsInt`, `fitsIdent`, `fitsWord`,
`fitsPunct`) says exactly when the lexeme `l` may be followed directly by `rest`; it always holds when `rest`
starts with whitespace or any other break byte (`fits_break`), so a non-empty separator is always enough. -/

/-- **C08 (whitespace, tokens).** On well-spaced pieces the scanner returns the tokens of the lexemes
    followed by the closing `;` — the separators, the trailing whitespace `w` included, do not appear. -/
theorem well_spaced_tokens (ps : List Piece) (w : Bytes) (h : WellSpaced (ps ++ [semiPiece w])) :
    lex (Piece.src ps ++ w) = tokensOf (ps.map Piece.lexeme ++ [(.rAny, [59])]) := by
  rw [lex_eq_lexRun]
  have : Piece.src ps ++ w ++ [59] = Piece.src (ps ++ [semiPiece w]) := by
    rw [src_append]; simp [Piece.src, semiPiece]
  rw [this, lexRun_pieces _ h]
  simp [Piece.lexeme, semiPiece]

/-- **C08 (whitespace, parse).** Two well-spaced texts of the same lexemes have the same parse: as an
    expression (objects, `if`/`unless`/`elsif`/`case`, `include`) and as the statement of a tag
    (`parseStatement sel`, the selector being the first lexeme). -/
theorem same_lexemes_same_parse (ps qs : List Piece) (w w' : Bytes)
    (hsame : ps.map Piece.lexeme = qs.map Piece.lexeme)
    (hp : WellSpaced (ps ++ [semiPiece w])) (hq : WellSpaced (qs ++ [semiPiece w'])) :
    parseSource (Piece.src ps ++ w) = parseSource (Piece.src qs ++ w') ∧
    parseExprSource (Piece.src ps ++ w) = parseExprSource (Piece.src qs ++ w') := by
  have h : parseSource (Piece.src ps ++ w) = parseSource (Piece.src qs ++ w') := by
    rw [parseSource_pieces ps w hp, parseSource_pieces qs w' hq, hsame]
  exact ⟨h, by unfold parseExprSource; rw [h]⟩

/-- **C08 (whitespace never changes the meaning).** Any lexemes, written with any whitespace — spaces,
    tabs, newlines, CR, VT, FF, in any amount — between them, before the first and after the last, have
    one and the same parse: as an expression, and as the arguments of `assign`, `for`/`tablerow`, `cycle`
    and `when` (`parseStatement` with the tag's selector). -/
theorem whitespace_between_lexemes (ls : List (Rule × Bytes)) (hl : ∀ x ∈ ls, Lexeme x.1 x.2)
    (f g : Nat → Bytes) (wf wg : Bytes) (hf : Separators f) (hg : Separators g)
    (hwf : isSpaces wf = true) (hwg : isSpaces wg = true) :
    parseExprSource (spacedText f ls ++ wf) = parseExprSource (spacedText g ls ++ wg) ∧
    ∀ sel ∈ [kwAssign, kwLoop, kwCycle, kwWhen],
      parseStatement sel (spacedText f ls ++ wf) = parseStatement sel (spacedText g ls ++ wg) := by
  have hpf := wellSpaced_spacedText f ls wf hl hf hwf
  have hpg := wellSpaced_spacedText g ls wg hl hg hwg
  have hlex : (layoutFrom f 0 ls).map Piece.lexeme = (layoutFrom g 0 ls).map Piece.lexeme := by
    rw [layoutFrom_lexemes, layoutFrom_lexemes]
  refine ⟨(same_lexemes_same_parse _ _ wf wg hlex hpf hpg).2, ?_⟩
  intro sel hsel
  obtain ⟨r, hr, hfit⟩ : ∃ r, Lexeme r sel ∧ ∀ rest, fits r sel rest = true := by
    simp only [List.mem_cons, List.mem_nil_iff, or_false] at hsel
    rcases hsel with rfl | rfl | rfl | rfl
    · exact ⟨_, Lexeme.selAssign, fun _ => rfl⟩
    · exact ⟨_, Lexeme.selLoop, fun _ => rfl⟩
    · exact ⟨_, Lexeme.selCycle, fun _ => rfl⟩
    · exact ⟨_, Lexeme.selWhen, fun _ => rfl⟩
  have h := (same_lexemes_same_parse (⟨[], r, sel⟩ :: layoutFrom f 0 ls) (⟨[], r, sel⟩ :: layoutFrom g 0 ls) wf wg
    (by simp only [List.map_cons, hlex])
    ⟨rfl, hr, hfit _, hpf⟩ ⟨rfl, hr, hfit _, hpg⟩).1
  simpa [parseStatement, Piece.src, spacedText] using h

/-- the compiled node of an object `{{ … }}` and of an `assign` tag does not depend on the whitespace
    between the lexemes of its arguments -/
theorem whitespace_compile (ls : List (Rule × Bytes)) (hl : ∀ x ∈ ls, Lexeme x.1 x.2)
    (f g : Nat → Bytes) (wf wg : Bytes) (hf : Separators f) (hg : Separators g)
    (hwf : isSpaces wf = true) (hwg : isSpaces wg = true) (t t' : Token)
    (hline : t.line = t'.line) (hname : t.name = t'.name)
    (ha : t.args = spacedText f ls ++ wf) (ha' : t'.args = spacedText g ls ++ wg) :
    compileNode (.obj t) = compileNode (.obj t') ∧
    (t.name = nmAssign → compileNode (.tag t) = compileNode (.tag t')) := by
  obtain ⟨he, hs⟩ := whitespace_between_lexemes ls hl f g wf wg hf hg hwf hwg
  constructor
  · simp only [compileNode, ha, ha', he, hline]
  · intro hn
    have hn' : t'.name = nmAssign := hname ▸ hn
    simp only [compileNode, hn, hn', beq_self_eq_true, if_true, ha, ha', hs kwAssign (by simp), hline]

/-! Non-vacuity of G2 on concrete bytes -/

section Examples
private theorem lxX : Lexeme .rIdent [120] := Lexeme.word 120 [] [] (by decide) (by decide) (Or.inl rfl)
private theorem lxG : Lexeme .rIdent [103] := Lexeme.word 103 [] [] (by decide) (by decide) (Or.inl rfl)
private theorem lxBar : Lexeme .rAny [124] := Lexeme.punct 124 (by decide)
private theorem lxComma : Lexeme .rAny [44] := Lexeme.punct 44 (by decide)
private theorem lxF : Lexeme .rKeyword [102, 58] := Lexeme.keyword 102 [] [] (by decide) (by decide) (Or.inl rfl)
private theorem lx1 : Lexeme .rInt [49] := Lexeme.int [] [49] (Or.inl rfl) (by decide) (by decide)
private theorem lx2 : Lexeme .rInt [50] := Lexeme.int [] [50] (Or.inl rfl) (by decide) (by decide)

/-- the lexemes of `x | f: 1, 2 | g` -/
private def exLexemes : List (Rule × Bytes) :=
  [(.rIdent, [120]), (.rAny, [124]), (.rKeyword, [102, 58]), (.rInt, [49]), (.rAny, [44]), (.rInt, [50]),
   (.rAny, [124]), (.rIdent, [103])]

private theorem exLexemes_ok : ∀ x ∈ exLexemes, Lexeme x.1 x.2 := by
  intro x hx
  simp only [exLexemes, List.mem_cons, List.mem_nil_iff, or_false] at hx
  rcases hx with rfl | rfl | rfl | rfl | rfl | rfl | rfl | rfl
  · exact lxX
  · exact lxBar
  · exact lxF
  · exact lx1
  · exact lxComma
  · exact lx2
  · exact lxBar
  · exact lxG

private theorem exSepF : Separators (fun i => if i = 0 then [] else [32]) :=
  ⟨fun i => by dsimp only; split <;> rfl, fun i hi => by simp [Nat.ne_of_gt hi]⟩

private theorem exSepG : Separators (fun i => [[9], [10], [13, 10], [32, 32], [32], [32], [11], [12]].getD i [32]) :=
  ⟨fun i => by rcases i with _|_|_|_|_|_|_|_|i <;> rfl, fun i _ => by rcases i with _|_|_|_|_|_|_|_|i <;> simp⟩

/-- `x | f: 1 , 2 | g` and `\tx\n|\r\nf:  1 , 2\v|\fg \n` (every blank byte of the scanner) parse alike -/
example : parseExprSource [120, 32, 124, 32, 102, 58, 32, 49, 32, 44, 32, 50, 32, 124, 32, 103] =
    parseExprSource [9, 120, 10, 124, 13, 10, 102, 58, 32, 32, 49, 32, 44, 32, 50, 11, 124, 12, 103, 32, 10] :=
  (whitespace_between_lexemes exLexemes exLexemes_ok _ _ [] [32, 10] exSepF exSepG rfl rfl).1

/-- lexemes may touch where they `fit`: `x|f:1,2|g` is well spaced without any whitespace … -/
private def exTight : List Piece :=
  [⟨[], .rIdent, [120]⟩, ⟨[], .rAny, [124]⟩, ⟨[], .rKeyword, [102, 58]⟩, ⟨[], .rInt, [49]⟩, ⟨[], .rAny, [44]⟩,
   ⟨[], .rInt, [50]⟩, ⟨[], .rAny, [124]⟩, ⟨[], .rIdent, [103]⟩]

private theorem exTight_ok : WellSpaced (exTight ++ [semiPiece []]) :=
  ⟨rfl, lxX, rfl, rfl, lxBar, rfl, rfl, lxF, rfl, rfl, lx1, rfl, rfl, lxComma, rfl, rfl, lx2, rfl, rfl, lxBar, rfl,
   rfl, lxG, rfl, rfl, lexeme_semi, rfl, trivial⟩

/-- … and parses like the spaced text -/
example : parseExprSource [120, 124, 102, 58, 49, 44, 50, 124, 103] =
    parseExprSource [120, 32, 124, 32, 102, 58, 32, 49, 32, 44, 32, 50, 32, 124, 32, 103] :=
  (same_lexemes_same_parse exTight (layoutFrom (fun i => if i = 0 then [] else [32]) 0 exLexemes) [] [] rfl exTight_ok
    (wellSpaced_spacedText _ exLexemes [] exLexemes_ok exSepF rfl)).2

example : parseExprSource [120, 124, 102, 58, 49, 44, 50, 124, 103] =
    .ok (.filter (.filter (.var [120]) [102] [.lit (.int .int 1), .lit (.int .int 2)]) [103] []) := rfl

/-- `{% assign x = 1 %}` with a newline and a tab around `=` -/
example : parseStatement kwAssign [120, 32, 61, 32, 49] = parseStatement kwAssign [120, 10, 61, 9, 49] :=
  (whitespace_between_lexemes [(.rIdent, [120]), (.rAny, [61]), (.rInt, [49])]
    (by
      intro x hx
      simp only [List.mem_cons, List.mem_nil_iff, or_false] at hx
      rcases hx with rfl | rfl | rfl
      · exact lxX
      · exact Lexeme.punct 61 (by decide)
      · exact lx1)
    (fun i => if i = 0 then [] else [32]) (fun i => [[], [10], [9]].getD i [32]) [] [] exSepF
    ⟨fun i => by rcases i with _|_|_|i <;> rfl, fun i hi => by rcases i with _|_|_|i <;> simp at hi ⊢⟩ rfl rfl).2
    kwAssign (by simp)

/-! ### Where a space does change the result: inside a lexeme, or between two lexemes that do not `fit`

Each of these is a pair of texts that differ by one space. In (a)–(b) the space separates two parts the
property's sentence arguably counts as separate (the filter name and its `:`, the `.` and the property
name); they are the behaviour of the scanner's rules `identifier ':'` ⇒ KEYWORD and `'.' identifier` ⇒
PROPERTY (`expressions/scanner.rl`), which the model mirrors. -/

/-- (a) `x | f: a` is a filter with an argument, `x | f : a` is a syntax error: the `:` must touch the name -/
example : parseExprSource [120, 32, 124, 32, 102, 58, 32, 97] = .ok (.filter (.var [120]) [102] [.var [97]]) ∧
    parseExprSource [120, 32, 124, 32, 102, 32, 58, 32, 97] = .err .syntax := ⟨rfl, rfl⟩
/-- the same for the loop modifiers: `limit: 2` against `limit : 2` -/
example : (∃ s, parseStatement kwLoop [105, 32, 105, 110, 32, 97, 32, 108, 105, 109, 105, 116, 58, 32, 50] = .ok s) ∧
    parseStatement kwLoop [105, 32, 105, 110, 32, 97, 32, 108, 105, 109, 105, 116, 32, 58, 32, 50] = .err .syntax :=
  ⟨⟨_, rfl⟩, rfl⟩
/-- (b) `a.b` and `a .b` read the property, `a. b` and `a . b` are syntax errors: the name must touch the `.` -/
example : parseExprSource [97, 46, 98] = .ok (.prop (.var [97]) [98]) ∧
    parseExprSource [97, 32, 46, 98] = .ok (.prop (.var [97]) [98]) ∧
    parseExprSource [97, 46, 32, 98] = .err .syntax ∧ parseExprSource [97, 32, 46, 32, 98] = .err .syntax :=
  ⟨rfl, rfl, rfl, rfl⟩
/-- the pieces `f` `:` are lexemes but `f` does not fit `:` (that is the keyword `f:`), nor `.` an identifier -/
example : fits .rIdent [102] [58, 32, 97] = false ∧ fits .rAny [46] [98] = false := ⟨rfl, rfl⟩
/-- (c) inside one lexeme a space always matters: `-1` / `- 1`, `1.5` / `1. 5`, `==` / `= =`, `ab` / `a b`,
    `a-b` (one identifier) / `a -b` -/
example : parseExprSource [45, 49] = .ok (.lit (.int .int (-1))) ∧ parseExprSource [45, 32, 49] = .err .syntax ∧
    parseExprSource [49, 46, 32, 53] = .err .syntax ∧
    parseExprSource [97, 61, 61, 98] = .ok (.rel .eq (.var [97]) (.var [98])) ∧
    parseExprSource [97, 61, 32, 61, 98] = .err .syntax ∧
    parseExprSource [97, 45, 98] = .ok (.var [97, 45, 98]) ∧ parseExprSource [97, 32, 45, 98] = .err .syntax :=
  ⟨rfl, rfl, rfl, rfl, rfl, rfl, rfl⟩
/-- (d) ranges: `(1..5)` needs no space (`1.` is not a float without a digit after the point), and
    `(1 .. 5)`, `(a..b)` are the same ranges -/
example : fits .rInt [49] [46, 46, 53, 41] = true ∧ fits .rInt [49] [46, 53] = false ∧
    parseExprSource [40, 49, 46, 46, 53, 41] = .ok (.range (.lit (.int .int 1)) (.lit (.int .int 5))) ∧
    parseExprSource [40, 49, 32, 46, 46, 32, 53, 41] = .ok (.range (.lit (.int .int 1)) (.lit (.int .int 5))) :=
  ⟨rfl, rfl, rfl, rfl⟩
end Examples
