import Proofs.ExprLitLemmas
import Proofs.PipeAssignLemmas
import Proofs.ExprE2ELemmas
import Proofs.ExprFitsExact
import Proofs.C12
import Proofs.C07
import Proofs.FilterSigs
import Liquid.Std
/-!
# C08 — expressions from their source text: literals, whitespace between the parts

The theorems of `Proofs/C08.lean` are about evaluation; the ones here are about the SOURCE BYTES of an
expression (`parseExprSource`, the model of `expressions.Parse`; `parseStatement` for the tags):

* literals denote themselves (`int_literal_denotes`, `string_literal_denotes`, `float_literal_denotes`,
  `true_false_nil_denote`, `literal_round_trip`);
* whitespace between the lexemes never changes the parse (`whitespace_between_lexemes`,
  `well_spaced_tokens`, `same_lexemes_same_parse`), with the exact conditions under which two lexemes
  may touch (`fits`), and the places where a space does matter recorded as counterexamples.

Helper lemmas: `Proofs/ExprLexLemmas.lean` (the scanner one step at a time), `Proofs/ExprLexemes.lean`
(the grammar `Lexeme` of lexemes, `fits`, `lexStep_lexeme`), `Proofs/ExprSpacing.lean` (pieces),
`Proofs/ExprLitLemmas.lean` (values of literal lexemes).
-/

/-! ## G1. Literals denote themselves -/

/-- **Integer literals.** A string of decimal digits with an optional `-` denotes its value in base ten —
    leading zeros allowed, never octal — as a Go `int`; outside the int64 range it is a syntax error. -/
theorem int_literal_denotes (neg : Bool) (ds : Bytes) (hne : ds ≠ []) (hd : ds.all isDigit = true) :
    parseExprSource ((if neg then [45] else []) ++ ds) =
      (if IntKind.i64.inRange (if neg then -(decVal ds : Int) else (decVal ds : Int))
       then .ok (.lit (.int .int (if neg then -(decVal ds : Int) else (decVal ds : Int))))
       else .err .syntax) := by
  have hl : Lexeme .rInt ((if neg then [45] else []) ++ ds) :=
    Lexeme.int _ ds (by cases neg <;> simp [isSign]) hne hd
  cases neg with
  | false =>
    simp only [Bool.false_eq_true, if_false, List.nil_append] at hl ⊢
    by_cases hr : IntKind.i64.inRange (decVal ds : Int) = true
    · rw [if_pos hr]
      exact parseExprSource_lit _ _ _ hl (by simp only [mkTok, intLitValue_pos ds hne hd, hr, if_true])
    · rw [if_neg hr]
      exact parseExprSource_lit_err _ _ hl (by simp [mkTok, intLitValue_pos ds hne hd, hr])
  | true =>
    simp only [if_true, List.cons_append, List.nil_append] at hl ⊢
    by_cases hr : IntKind.i64.inRange (-(decVal ds : Int)) = true
    · rw [if_pos hr]
      exact parseExprSource_lit _ _ _ hl (by simp only [mkTok, intLitValue_neg ds, hr, if_true])
    · rw [if_neg hr]
      exact parseExprSource_lit_err _ _ hl (by simp [mkTok, intLitValue_neg ds, hr])

/-- every `int64` is denoted by its decimal text (`strconv.Itoa`, `intDec`), also with `k` leading zeros -/
theorem int_literal_round_trip (n : Int) (k : Nat) (h : IntKind.i64.inRange n = true) :
    parseExprSource (intDec n) = .ok (.lit (.int .int n)) ∧
    parseExprSource ((if n < 0 then [45] else []) ++ zeros k ++ natDec n.natAbs) = .ok (.lit (.int .int n)) := by
  have hz : (zeros k ++ natDec n.natAbs).all isDigit = true := by
    rw [List.all_append, zeros_all_digits, natDec_all_digits]; rfl
  have hzne : zeros k ++ natDec n.natAbs ≠ [] := by
    intro h0; exact natDec_ne_nil _ (List.append_eq_nil_iff.1 h0).2
  by_cases hn : n < 0
  · have hv : -(n.natAbs : Int) = n := by omega
    have h1 := int_literal_denotes true (natDec n.natAbs) (natDec_ne_nil _) (natDec_all_digits _)
    have h2 := int_literal_denotes true (zeros k ++ natDec n.natAbs) hzne hz
    rw [decVal_zeros_append] at h2
    simp only [if_true, decVal_natDec, hv, h] at h1 h2
    simp only [intDec, hn, if_true, List.append_assoc]
    exact ⟨h1, h2⟩
  · have hv : (n.natAbs : Int) = n := by omega
    have h1 := int_literal_denotes false (natDec n.natAbs) (natDec_ne_nil _) (natDec_all_digits _)
    have h2 := int_literal_denotes false (zeros k ++ natDec n.natAbs) hzne hz
    rw [decVal_zeros_append] at h2
    simp only [Bool.false_eq_true, if_false, decVal_natDec, hv, h, if_true, List.nil_append] at h1 h2
    simp only [intDec, hn, if_false, List.nil_append]
    exact ⟨h1, h2⟩

/-- **String literals.** Between two `"` (or two `'`) any bytes except that quote denote themselves:
    no escape processing, any other byte (newlines, the other quote, `\`, non-UTF-8) included. -/
theorem string_literal_denotes (q : UInt8) (s : Bytes) (hq : q = 34 ∨ q = 39) (hs : q ∉ s) :
    parseExprSource (q :: s ++ [q]) = .ok (.lit (.str s)) := by
  have hq' : (q == 34 || q == 39) = true := by rcases hq with rfl | rfl <;> rfl
  have hb : s.all (fun b => b != q) = true := by
    rw [List.all_eq_true]
    intro b hb
    simp only [bne_iff_ne, ne_eq]
    intro h; subst h; exact hs hb
  refine parseExprSource_lit .rString _ _ (Lexeme.string q s hq' hb) ?_
  simp only [mkTok, List.cons_append, List.drop_succ_cons, List.drop_zero, List.length_cons, List.length_append,
    List.length_nil]
  have : s.length + 0 + 1 + 1 - 2 = s.length := by omega
  rw [this, List.take_left' rfl]

/-- `true`, `false` and `nil` -/
theorem true_false_nil_denote :
    parseExprSource kwTrue = .ok (.lit (.bool true)) ∧ parseExprSource kwFalse = .ok (.lit (.bool false)) ∧
    parseExprSource kwNil = .ok (.lit .nil) := ⟨rfl, rfl, rfl⟩

/-- **Float literals** `d+.d+` with an optional `-` denote the exact decimal rounded to the nearest
    `float64` (ties to even; `floatOfDigits`); a literal beyond the `float64` range is a syntax error.
    A literal that denotes −0 (`-0.0`) is outside the model. -/
theorem float_literal_denotes (neg : Bool) (ds fs : Bytes) (hne : ds ≠ []) (hd : ds.all isDigit = true)
    (hfne : fs ≠ []) (hfd : fs.all isDigit = true) :
    parseExprSource ((if neg then [45] else []) ++ ds ++ 46 :: fs) =
      (match floatOfDigits ds fs with
       | none => .err .syntax
       | some r =>
         if neg && r == 0 then .unmodelled "negative zero literal"
         else .ok (.lit (.flt .f64 (if neg then -r else r)))) := by
  have hl : Lexeme .rFloat ((if neg then [45] else []) ++ ds ++ 46 :: fs) :=
    Lexeme.float _ ds fs (by cases neg <;> simp [isSign]) hne hd hfne hfd
  have hsingle := lexRun_single _ _ hl
  unfold parseExprSource
  rw [parseSource_eq, hsingle]
  cases neg with
  | false =>
    simp only [Bool.false_eq_true, if_false, List.nil_append, mkTok, floatLitValue_pos ds fs hne hd, Bool.false_and]
    cases floatOfDigits ds fs with
    | none => rfl
    | some r => rfl
  | true =>
    simp only [if_true, List.cons_append, List.nil_append, mkTok, floatLitValue_neg ds fs hd, Bool.true_and]
    cases floatOfDigits ds fs with
    | none => rfl
    | some r =>
      simp only
      by_cases h0 : (r == 0) = true
      · simp only [h0, if_true]; rfl
      · simp only [h0, Bool.false_eq_true, if_false]; rfl

/-- the printer of the literal kinds that have a canonical text: `nil`, `true`, `false`, a Go `int`
    in decimal, a string between double quotes -/
def showLit : GoVal → Option Bytes
  | .nil => some kwNil
  | .bool true => some kwTrue
  | .bool false => some kwFalse
  | .int .int n => some (intDec n)
  | .str s => some (34 :: s ++ [34])
  | _ => none

/-- the guard of the round trip: an `int` fits `int64`, a string has no `"` (there is no escape syntax) -/
def litOK : GoVal → Bool
  | .int .int n => IntKind.i64.inRange n
  | .str s => !s.contains 34
  | _ => true

/-- **C08 (literals denote themselves).** Printing a literal and parsing the text gives the literal back. -/
theorem literal_round_trip (v : GoVal) (src : Bytes) (h : showLit v = some src) (hg : litOK v = true) :
    parseExprSource src = .ok (.lit v) := by
  cases v with
  | nil => cases h; rfl
  | bool b => cases b <;> cases h <;> rfl
  | int k n =>
    cases k <;> simp only [showLit, Option.some.injEq] at h <;> try cases h
    exact (int_literal_round_trip n 0 hg).1
  | str s =>
    simp only [showLit, Option.some.injEq] at h
    subst h
    refine string_literal_denotes 34 s (Or.inl rfl) ?_
    simp only [litOK, Bool.not_eq_true', List.contains_eq_mem, decide_eq_false_iff_not] at hg
    exact hg
  | flt => cases h
  | bytes => cases h
  | slice => cases h
  | array => cases h
  | map => cases h
  | mapSlice => cases h
  | keyedMap => cases h
  | range => cases h
  | ptr => cases h
  | nilPtr => cases h
  | drop => cases h
  | struct => cases h
  | time => cases h

/-! Non-vacuity of G1 on concrete bytes -/

/-- `007` is seven (decimal, not octal) and `-12` is minus twelve -/
example : parseExprSource [48, 48, 55] = .ok (.lit (.int .int 7)) := by
  simpa [decVal, IntKind.inRange, IntKind.minVal, IntKind.maxVal, IntKind.isSigned, IntKind.bits]
    using int_literal_denotes false [48, 48, 55] (by decide) (by decide)
example : parseExprSource [45, 49, 50] = .ok (.lit (.int .int (-12))) := rfl
/-- `9223372036854775808` = 2^63 is out of range: a syntax error (after the repair of D1, not a panic) -/
example : parseExprSource [57, 50, 50, 51, 51, 55, 50, 48, 51, 54, 56, 53, 52, 55, 55, 53, 56, 48, 56] = .err .syntax := rfl
/-- `"a'\n"`: the other quote and a newline inside a string -/
example : parseExprSource [34, 97, 39, 10, 34] = .ok (.lit (.str [97, 39, 10])) :=
  string_literal_denotes 34 [97, 39, 10] (Or.inl rfl) (by decide)
/-- `1.5` and `-2.25` -/
example : parseExprSource [49, 46, 53] = .ok (.lit (.flt .f64 (3/2))) := by
  have h : floatOfDigits [49] [53] = some (3/2) := by decide +kernel
  have := float_literal_denotes false [49] [53] (by decide) (by decide) (by decide) (by decide)
  rw [h] at this; exact this
example : parseExprSource [45, 50, 46, 50, 53] = .ok (.lit (.flt .f64 (-(9/4)))) := by
  have h : floatOfDigits [50] [50, 53] = some (9/4) := by decide +kernel
  have h0 : ((9/4 : Rat) == 0) = false := by decide +kernel
  have := float_literal_denotes true [50] [50, 53] (by decide) (by decide) (by decide) (by decide)
  rw [h] at this; simpa [h0] using this
/-- `0.1` denotes the nearest `float64`, 3602879701896397 / 2^55 -/
example : parseExprSource [48, 46, 49] = .ok (.lit (.flt .f64 (mkRat 3602879701896397 36028797018963968))) := by
  have h : floatOfDigits [48] [49] = some (mkRat 3602879701896397 36028797018963968) := by decide +kernel
  have := float_literal_denotes false [48] [49] (by decide) (by decide) (by decide) (by decide)
  rw [h] at this; exact this
/-- `-0.0` is the one literal the model does not answer -/
example : parseExprSource [45, 48, 46, 48] = .unmodelled "negative zero literal" := by
  have h : floatOfDigits [48] [48] = some 0 := by decide +kernel
  have := float_literal_denotes true [48] [48] (by decide) (by decide) (by decide) (by decide)
  rw [h] at this; simpa using this
example : showLit (.int .int (-12)) = some [45, 49, 50] := rfl
example : parseExprSource [45, 49, 50] = .ok (.lit (.int .int (-12))) :=
  literal_round_trip (.int .int (-12)) _ rfl (by decide)

/-! ## G2. Whitespace between the lexemes never changes the meaning

The parts of an expression are its lexemes (`Lexeme`, `Proofs/ExprLexemes.lean`): numbers `-?d+`, `-?d+.d+`,
strings, words (identifiers and `true false nil and or contains in`), keywords `name:`, properties `.name`,
`== != >= <= ..`, and every other non-blank byte on its own (`| , ( ) [ ] < > = : - .` …). A source text is a
list of `Piece`s — a lexeme and the whitespace (`space+` of the scanner: space, `\t \n \v \f \r`) written in
front of it. `fits r l rest` (the merge conditions, spelled out in `fitsInt`, `fitsIdent`, `fitsWord`,
`fitsPunct`) says exactly when the lexeme `l` may be followed directly by `rest`; it always holds when `rest`
starts with whitespace or any other break byte (`fits_break`), so a non-empty separator is always enough. -/

/-- **C08 (the merge conditions are exact).** For a lexeme `l` of rule `r` followed directly by `rest`: the
    longest-match scanner cuts exactly `l` off (as a token of rule `r`; equivalently, as a token of any rule)
    if and only if `fits r l rest`. So `fits` lists precisely the places where two lexemes must be kept apart
    by whitespace: a digit after a number, `.` and a digit after an integer, an identifier byte
    (letter, digit, `_`, `-`) or `?` after a word that does not end in `?`, `:` after a word, a digit after
    `-`, `.` or an identifier start after `.`, `=` after `= ! < >`, and the selector texts after `%` and `{`. -/
theorem fits_exact (r : Rule) (l rest : Bytes) (hl : Lexeme r l) :
    (lexStep (l ++ rest) = some (r, l.length) ↔ fits r l rest = true) ∧
    ((∃ r', lexStep (l ++ rest) = some (r', l.length)) ↔ fits r l rest = true) :=
  ⟨⟨fun h => fits_of_lexStep r l rest hl r h, fun h => lexStep_lexeme r l rest hl h⟩,
   ⟨fun ⟨r', h⟩ => fits_of_lexStep r l rest hl r' h, fun h => ⟨r, lexStep_lexeme r l rest hl h⟩⟩⟩

/-- `a` directly before `b` is the one identifier `ab` (the scanner takes 2 bytes), before `|` it is cut off -/
example : lexStep ([97] ++ [98]) = some (.rIdent, 2) ∧ fits .rIdent [97] [98] = false ∧
    lexStep ([97] ++ [124]) = some (.rIdent, 1) ∧ fits .rIdent [97] [124] = true := by
  refine ⟨by decide, rfl, by decide, rfl⟩

/-- **C08 (whitespace, tokens).** On well-spaced pieces the scanner returns the tokens of the lexemes
    followed by the closing `;` — the separators, the trailing whitespace `w` included, do not appear. -/
theorem well_spaced_tokens (ps : List Piece) (w : Bytes) (h : WellSpaced (ps ++ [semiPiece w])) :
    lex (Piece.src ps ++ w) = lexemeToks (ps.map Piece.lexeme ++ [(.rAny, [59])]) := by
  rw [lex_eq_lexRun]
  have : Piece.src ps ++ w ++ [59] = Piece.src (ps ++ [semiPiece w]) := by
    rw [src_append]; simp [Piece.src, semiPiece]
  rw [this, lexRun_pieces _ h]
  simp [Piece.lexeme, semiPiece]

/-- **C08 (whitespace, parse).** Two well-spaced texts of the same lexemes have the same parse: as an
    expression (objects, `if`/`unless`/`elsif`/`case`, `include`) and as the statement of a tag
    (`parseStatement sel`, the selector being the first lexeme). -/
theorem same_lexemes_same_parse (ps qs : List Piece) (w w' : Bytes)
    (hsame : ps.map Piece.lexeme = qs.map Piece.lexeme)
    (hp : WellSpaced (ps ++ [semiPiece w])) (hq : WellSpaced (qs ++ [semiPiece w'])) :
    parseSource (Piece.src ps ++ w) = parseSource (Piece.src qs ++ w') ∧
    parseExprSource (Piece.src ps ++ w) = parseExprSource (Piece.src qs ++ w') := by
  have h : parseSource (Piece.src ps ++ w) = parseSource (Piece.src qs ++ w') := by
    rw [parseSource_pieces ps w hp, parseSource_pieces qs w' hq, hsame]
  exact ⟨h, by unfold parseExprSource; rw [h]⟩

/-- **C08 (whitespace never changes the meaning).** Any lexemes, written with any whitespace — spaces,
    tabs, newlines, CR, VT, FF, in any amount — between them, before the first and after the last, have
    one and the same parse: as an expression, and as the arguments of `assign`, `for`/`tablerow`, `cycle`
    and `when` (`parseStatement` with the tag's selector). -/
theorem whitespace_between_lexemes (ls : List (Rule × Bytes)) (hl : ∀ x ∈ ls, Lexeme x.1 x.2)
    (f g : Nat → Bytes) (wf wg : Bytes) (hf : Separators f) (hg : Separators g)
    (hwf : isSpaces wf = true) (hwg : isSpaces wg = true) :
    parseExprSource (spacedText f ls ++ wf) = parseExprSource (spacedText g ls ++ wg) ∧
    ∀ sel ∈ [kwAssign, kwLoop, kwCycle, kwWhen],
      parseStatement sel (spacedText f ls ++ wf) = parseStatement sel (spacedText g ls ++ wg) := by
  have hpf := wellSpaced_spacedText f ls wf hl hf hwf
  have hpg := wellSpaced_spacedText g ls wg hl hg hwg
  have hlex : (layoutFrom f 0 ls).map Piece.lexeme = (layoutFrom g 0 ls).map Piece.lexeme := by
    rw [layoutFrom_lexemes, layoutFrom_lexemes]
  refine ⟨(same_lexemes_same_parse _ _ wf wg hlex hpf hpg).2, ?_⟩
  intro sel hsel
  obtain ⟨r, hr, hfit⟩ : ∃ r, Lexeme r sel ∧ ∀ rest, fits r sel rest = true := by
    simp only [List.mem_cons, List.mem_nil_iff, or_false] at hsel
    rcases hsel with rfl | rfl | rfl | rfl
    · exact ⟨_, Lexeme.selAssign, fun _ => rfl⟩
    · exact ⟨_, Lexeme.selLoop, fun _ => rfl⟩
    · exact ⟨_, Lexeme.selCycle, fun _ => rfl⟩
    · exact ⟨_, Lexeme.selWhen, fun _ => rfl⟩
  have h := (same_lexemes_same_parse (⟨[], r, sel⟩ :: layoutFrom f 0 ls) (⟨[], r, sel⟩ :: layoutFrom g 0 ls) wf wg
    (by simp only [List.map_cons, hlex])
    ⟨rfl, hr, hfit _, hpf⟩ ⟨rfl, hr, hfit _, hpg⟩).1
  simpa [parseStatement, Piece.src, spacedText] using h

/-- the compiled node of an object `{{ … }}` and of an `assign` tag does not depend on the whitespace
    between the lexemes of its arguments -/
theorem whitespace_compile (ls : List (Rule × Bytes)) (hl : ∀ x ∈ ls, Lexeme x.1 x.2)
    (f g : Nat → Bytes) (wf wg : Bytes) (hf : Separators f) (hg : Separators g)
    (hwf : isSpaces wf = true) (hwg : isSpaces wg = true) (t t' : Token)
    (hline : t.line = t'.line) (hname : t.name = t'.name)
    (ha : t.args = spacedText f ls ++ wf) (ha' : t'.args = spacedText g ls ++ wg) :
    compileNode (.obj t) = compileNode (.obj t') ∧
    (t.name = nmAssign → compileNode (.tag t) = compileNode (.tag t')) := by
  obtain ⟨he, hs⟩ := whitespace_between_lexemes ls hl f g wf wg hf hg hwf hwg
  constructor
  · simp only [compileNode, ha, ha', he, hline]
  · intro hn
    have hn' : t'.name = nmAssign := hname ▸ hn
    simp only [compileNode, hn, hn', beq_self_eq_true, if_true, ha, ha', hs kwAssign (by simp), hline]

/-! Non-vacuity of G2 on concrete bytes -/

/-- `x | f: 1 , 2 | g` and `\tx\n|\r\nf:  1 , 2\v|\fg \n` (every blank byte of the scanner) parse alike -/
example : parseExprSource [120, 32, 124, 32, 102, 58, 32, 49, 32, 44, 32, 50, 32, 124, 32, 103] =
    parseExprSource [9, 120, 10, 124, 13, 10, 102, 58, 32, 32, 49, 32, 44, 32, 50, 11, 124, 12, 103, 32, 10] :=
  (whitespace_between_lexemes exLexemes exLexemes_ok _ _ [] [32, 10] exSepF exSepG rfl rfl).1

/-- lexemes may touch where they `fit`: `x|f:1,2|g` is well spaced without any whitespace (`exTight_ok`) …
    … and parses like the spaced text -/
example : parseExprSource [120, 124, 102, 58, 49, 44, 50, 124, 103] =
    parseExprSource [120, 32, 124, 32, 102, 58, 32, 49, 32, 44, 32, 50, 32, 124, 32, 103] :=
  (same_lexemes_same_parse exTight (layoutFrom (fun i => if i = 0 then [] else [32]) 0 exLexemes) [] [] rfl exTight_ok
    (wellSpaced_spacedText _ exLexemes [] exLexemes_ok exSepF rfl)).2

example : parseExprSource [120, 124, 102, 58, 49, 44, 50, 124, 103] =
    .ok (.filter (.filter (.var [120]) [102] [.lit (.int .int 1), .lit (.int .int 2)]) [103] []) := rfl

/-- `{% assign x = 1 %}` with a newline and a tab around `=` -/
example : parseStatement kwAssign [120, 32, 61, 32, 49] = parseStatement kwAssign [120, 10, 61, 9, 49] :=
  (whitespace_between_lexemes [(.rIdent, [120]), (.rAny, [61]), (.rInt, [49])]
    (by
      intro x hx
      simp only [List.mem_cons, List.mem_nil_iff, or_false] at hx
      rcases hx with rfl | rfl | rfl
      · exact lxX
      · exact Lexeme.punct 61 (by decide)
      · exact lx1)
    (fun i => if i = 0 then [] else [32]) (fun i => [[], [10], [9]].getD i [32]) [] [] exSepF
    ⟨fun i => by rcases i with _|_|_|i <;> rfl, fun i hi => by rcases i with _|_|_|i <;> simp at hi ⊢⟩ rfl rfl).2
    kwAssign (by simp)

/-- **C08 (whitespace, from the template source to the result).** A template that is one object
    `{{ … }}` (with or without trim hyphens, any blanks `wl`, `wr` inside the delimiters, any good delimiter
    set), whose arguments are the lexemes `ls` laid out with any whitespace — newlines included — between
    them, is tokenised (`scan`, the regular-expression tokenizer), compiled and rendered to the same result
    whatever that whitespace is: the same output or the same located error, for every value layer, file
    system and environment. `Clean` (Proofs/E2ESpell.lean, decidable) says the arguments are non-empty, do
    not start or end with a blank or end with `-`, and do not contain the closing delimiter. -/
theorem object_whitespace_end_to_end (P : Prims) (O : OutPrims) (cfg : Cfg) (fs : FS) (fuel : Nat)
    (ls : List (Rule × Bytes)) (hls : ∀ x ∈ ls, Lexeme x.1 x.2) (f g : Nat → Bytes) (hf : Separators f) (hg : Separators g)
    (hl hr : Bool) (wl wr wl' wr' : Bytes) (line : Nat) (env : Env)
    (hgd : GoodDelims (Delims.ofList cfg.delims))
    (hc : Clean (Delims.ofList cfg.delims) [.obj (spacedText f ls) hl hr wl wr])
    (hc' : Clean (Delims.ofList cfg.delims) [.obj (spacedText g ls) hl hr wl' wr']) :
    run P O cfg fs fuel (spell (Delims.ofList cfg.delims) [.obj (spacedText f ls) hl hr wl wr]) line env =
      run P O cfg fs fuel (spell (Delims.ofList cfg.delims) [.obj (spacedText g ls) hl hr wl' wr']) line env := by
  have hp := (whitespace_between_lexemes ls hls f g [] [] hf hg rfl rfl).1
  simp only [List.append_nil] at hp
  rw [run_eq_runCompiled, run_eq_runCompiled, compileSource_eq_compileTokens, compileSource_eq_compileTokens,
    scan_spell cfg.delims _ line hgd hc, scan_spell cfg.delims _ line hgd hc',
    compileTokens_single_obj _ _ _ hl hr wl wr wl' wr' line hp]

/-- `{{ x | f: 1 , 2 | g }}` and `{{-x⏎|␍⏎f:  1 ,⇥2␋|␌g -}}`… with the same hyphens: here without -/
example (P : Prims) (O : OutPrims) (fs : FS) (env : Env) :
    run P O {} fs 1 [123, 123, 32, 120, 32, 124, 32, 102, 58, 32, 49, 32, 44, 32, 50, 32, 124, 32, 103, 32, 125, 125] 1 env =
    run P O {} fs 1 [123, 123, 120, 10, 124, 13, 10, 102, 58, 32, 32, 49, 32, 44, 9, 50, 11, 124, 12, 103, 125, 125] 1 env :=
  object_whitespace_end_to_end P O {} fs 1 exLexemes exLexemes_ok _ _ exSepF exSepH false false [32] [32] [] [] 1 env
    (by decide) (by decide) (by decide)

/-! ### Where a space does change the result: inside a lexeme, or between two lexemes that do not `fit`

Each of these is a pair of texts that differ by one space. In (a)–(b) the space separates two parts the
property's sentence arguably counts as separate (the filter name and its `:`, the `.` and the property
name); they are the behaviour of the scanner's rules `identifier ':'` ⇒ KEYWORD and `'.' identifier` ⇒
PROPERTY (`expressions/scanner.rl`), which the model mirrors. -/

/-- (a) `x | f: a` is a filter with an argument, `x | f : a` is a syntax error: the `:` must touch the name -/
example : parseExprSource [120, 32, 124, 32, 102, 58, 32, 97] = .ok (.filter (.var [120]) [102] [.var [97]]) ∧
    parseExprSource [120, 32, 124, 32, 102, 32, 58, 32, 97] = .err .syntax := ⟨rfl, rfl⟩
/-- the same for the loop modifiers: `limit: 2` against `limit : 2` -/
example : (∃ s, parseStatement kwLoop [105, 32, 105, 110, 32, 97, 32, 108, 105, 109, 105, 116, 58, 32, 50] = .ok s) ∧
    parseStatement kwLoop [105, 32, 105, 110, 32, 97, 32, 108, 105, 109, 105, 116, 32, 58, 32, 50] = .err .syntax :=
  ⟨⟨_, rfl⟩, rfl⟩
/-- (b) `a.b` and `a .b` read the property, `a. b` and `a . b` are syntax errors: the name must touch the `.` -/
example : parseExprSource [97, 46, 98] = .ok (.prop (.var [97]) [98]) ∧
    parseExprSource [97, 32, 46, 98] = .ok (.prop (.var [97]) [98]) ∧
    parseExprSource [97, 46, 32, 98] = .err .syntax ∧ parseExprSource [97, 32, 46, 32, 98] = .err .syntax :=
  ⟨rfl, rfl, rfl, rfl⟩
/-- the pieces `f` `:` are lexemes but `f` does not fit `:` (that is the keyword `f:`), nor `.` an identifier -/
example : fits .rIdent [102] [58, 32, 97] = false ∧ fits .rAny [46] [98] = false := ⟨rfl, rfl⟩
/-- (c) inside one lexeme a space always matters: `-1` / `- 1`, `1.5` / `1. 5`, `==` / `= =`, `ab` / `a b`,
    `a-b` (one identifier) / `a -b` -/
example : parseExprSource [45, 49] = .ok (.lit (.int .int (-1))) ∧ parseExprSource [45, 32, 49] = .err .syntax ∧
    parseExprSource [49, 46, 32, 53] = .err .syntax ∧
    parseExprSource [97, 61, 61, 98] = .ok (.rel .eq (.var [97]) (.var [98])) ∧
    parseExprSource [97, 61, 32, 61, 98] = .err .syntax ∧
    parseExprSource [97, 45, 98] = .ok (.var [97, 45, 98]) ∧ parseExprSource [97, 32, 45, 98] = .err .syntax :=
  ⟨rfl, rfl, rfl, rfl, rfl, rfl, rfl⟩
/-- (d) ranges: `(1..5)` needs no space (`1.` is not a float without a digit after the point), and
    `(1 .. 5)`, `(a..b)` are the same ranges -/
example : fits .rInt [49] [46, 46, 53, 41] = true ∧ fits .rInt [49] [46, 53] = false ∧
    parseExprSource [40, 49, 46, 46, 53, 41] = .ok (.range (.lit (.int .int 1)) (.lit (.int .int 5))) ∧
    parseExprSource [40, 49, 32, 46, 46, 32, 53, 41] = .ok (.range (.lit (.int .int 1)) (.lit (.int .int 5))) :=
  ⟨rfl, rfl, rfl, rfl⟩

/-! ## G3. A pipeline is its steps, one at a time through `assign` — at render level

`withEnv env p` is the program `p` with the variables of its final state replaced by `env`; an object
node never changes the variables, so `withEnv (s.env.set t v) (… s)` reads: the same writes, the same
failure or status, the same trim-writer state, and finally the variables of `s` with `t` bound to `v`. -/

/-- **C08 (split a pipeline at any point).** `{% assign t = E %}{{ t | g₁: b₁ | … | gₙ: bₙ }}` does exactly
    what `{{ E | g₁: b₁ | … | gₙ: bₙ }}` does — the same writer calls, the same error if a later step fails,
    also in strict-variables mode — and leaves `t` bound to the value of `E`, provided `t` does not occur
    in the arguments `bᵢ` and `E` evaluates without error. (`E` is any expression, e.g. `x | f: a`.) What
    `assign` stores (`Evaluate`: the wrapper's `Interface()`) and what the variable reference hands to the
    next filter (`ToLiquid`, then `Interface()`) is the same value for every value: `unwrap_toLiquid_unwrap`. -/
theorem pipeline_split_assign (c : RCtx) (line line' : Nat) (t : Bytes) (e1 : Expr) (rest : List (Bytes × List Expr))
    (s : RS) (v1 : GoVal) (hfresh : FreshFor t rest) (h1 : evaluate c.P s.env e1 = .ok v1) :
    renderList c [.assign line t e1, .obj line' (pipeline (.var t) rest)] s =
      withEnv (s.env.set t v1) (renderList c [.obj line' (pipeline e1 rest)] s) := by
  rw [assign_seq c line t e1 _ s v1 h1]
  obtain ⟨env, tw⟩ := s
  refine renderList_obj_env c line' _ _ env (env.set t v1) tw ?_
  refine evaluate_pipeline_congr c.P env t v1 rest hfresh _ _ ?_
  have hv := evaluate_unwrapped c.P env e1 v1 h1
  rw [hv, evaluate_var_set, ← hv]
  exact h1.symm

/-- the steps `{% assign t = x %}{% assign t = t | f₁: a₁ %}…{% assign t = t | fₙ: aₙ %}` -/
def stepwise (line : Nat) (t : Bytes) (x : Expr) (fs : List (Bytes × List Expr)) : List Node :=
  .assign line t x :: fs.map fun fa => .assign line t (.filter (.var t) fa.1 fa.2)

/-- **C08 (pipeline = steps through assign).** `{{ x | f₁: a₁ | … | fₙ: aₙ }}` and the same steps done one at
    a time, `{% assign t = x %}{% assign t = t | f₁: a₁ %}…{% assign t = t | fₙ: aₙ %}{{ t }}`, make the same
    writer calls and end in the same state up to `t`, which holds the value of the pipeline — for a fresh
    `t` (not occurring in the arguments), whenever the pipeline evaluates without error. By induction on
    the number of steps. -/
theorem pipeline_stepwise (c : RCtx) (line line' : Nat) (t : Bytes) (fs : List (Bytes × List Expr)) :
    ∀ (x : Expr) (s : RS) (v : GoVal), FreshFor t fs → evaluate c.P s.env (pipeline x fs) = .ok v →
    renderList c (stepwise line t x fs ++ [.obj line' (.var t)]) s =
      withEnv (s.env.set t v) (renderList c [.obj line' (pipeline x fs)] s) := by
  induction fs with
  | nil =>
    intro x s v hfresh hv
    exact pipeline_split_assign c line line' t x [] s v hfresh hv
  | cons fa rest ih =>
    intro x s v hfresh hv
    obtain ⟨f, a⟩ := fa
    obtain ⟨v0, hx⟩ := evaluate_pipeline_ok_head c.P s.env _ x v hv
    have hrest : FreshFor t rest := fun fa hfa => hfresh fa (List.mem_cons_of_mem _ hfa)
    have ha : mentionsList t a = false := hfresh (f, a) (List.mem_cons_self ..)
    simp only [stepwise, List.map_cons, List.cons_append]
    rw [assign_seq c line t x _ s v0 hx]
    obtain ⟨env, tw⟩ := s
    have hstep := evaluate_step_var c.P env t x v0 f a hx ha
    have hv' : evaluate c.P (env.set t v0) (pipeline (.filter (.var t) f a) rest) = .ok v := by
      rw [evaluate_pipeline_congr c.P env t v0 rest hrest _ _ hstep]; exact hv
    have := ih (.filter (.var t) f a) ⟨env.set t v0, tw⟩ v hrest hv'
    simp only [stepwise, List.cons_append] at this
    simp only [] at this ⊢
    rw [this, Env.set_set]
    rw [renderList_obj_env c line' (pipeline (.filter x f a) rest) _ env (env.set t v0) tw
      (evaluate_pipeline_congr c.P env t v0 rest hrest _ _ hstep), withEnv_withEnv]
    rfl

/-- **C08 (when the first part fails, both fail).** If `E` fails with `cause`, the `assign` fails with that
    cause at its own line, and the single object fails at its line: with the same cause, or — a filter
    being looked up before its receiver is evaluated — with the undefined-filter error of the outermost
    unknown filter among the later steps (`pipeErr`). -/
theorem pipeline_split_assign_fails (c : RCtx) (line line' : Nat) (t : Bytes) (e1 : Expr)
    (rest : List (Bytes × List Expr)) (s : RS) (cause : Cause) (h1 : evaluate c.P s.env e1 = .err cause) :
    renderList c [.assign line t e1, .obj line' (pipeline (.var t) rest)] s =
      .fail (.located ⟨line, true, cause, .byCause⟩) ∧
    renderList c [.obj line' (pipeline e1 rest)] s =
      .fail (.located ⟨line', true, pipeErr c.P cause rest, .byCause⟩) := by
  constructor
  · rw [assign_err c line t e1 _ s cause h1]; rfl
  · rw [renderList_single, Prog.bind_ret,
      obj_error_located c line' _ s _ (evaluate_pipeline_err c.P s.env rest e1 cause h1)]

/-! Non-vacuity of G3: `{% assign t = "a" | append: "b" %}{{ t | upcase }}` against `{{ "a" | append: "b" | upcase }}`
    with the standard filters -/
example (c : RCtx) (hP : c.P = stdPrims) (s : RS) :
    renderList c [.assign 1 [116] (.filter (.lit (.str [97])) [97, 112, 112, 101, 110, 100] [.lit (.str [98])]),
                  .obj 2 (.filter (.var [116]) [117, 112, 99, 97, 115, 101] [])] s =
    withEnv (s.env.set [116] (.str [97, 98]))
      (renderList c [.obj 2 (.filter (.filter (.lit (.str [97])) [97, 112, 112, 101, 110, 100] [.lit (.str [98])])
        [117, 112, 99, 97, 115, 101] [])] s) :=
  pipeline_split_assign c 1 2 [116] _ [([117, 112, 99, 97, 115, 101], [])] s _
    (by intro fa hfa; simp only [List.mem_cons, List.mem_nil_iff, or_false] at hfa; subst hfa; rfl)
    (by rw [hP]; with_unfolding_all rfl)

example : evaluate stdPrims [] (pipeline (.lit (.str [97])) [([97, 112, 112, 101, 110, 100], [.lit (.str [98])]),
    ([117, 112, 99, 97, 115, 101], [])]) = .ok (.str [65, 66]) := by with_unfolding_all rfl

/-- the order of the checks is visible when the first part fails: `{{ 1 | nope | alsonope }}` reports `alsonope` -/
example : pipeErr stdPrims (.undefinedFilter [110]) [([109], [])] = .undefinedFilter [109] := by with_unfolding_all rfl

/-! ## G4. More arguments than the filter takes is an error; missing arguments are defaulted -/

/-- **C08 (too many arguments).** A filter whose Go function has `k` parameters after the receiver
    (`lookupSig`, the registry extracted from `AddStandardFilters`) applied to more than `k` arguments is the
    parity error wrapped in a `FilterError` — before any argument is converted, whatever the values and
    whatever the filter body is. -/
theorem too_many_arguments_err (impls : Bytes → Option FilterImpl) (name : Bytes) (sg : FilterSig)
    (recv : GoVal) (args : List GoVal) (hs : lookupSig name = some sg) (h : sg.params.length < args.length + 1) :
    applyFilter impls name recv args = .err (.filterErr name .parity) := by
  unfold applyFilter
  simp only [hs, List.length_cons]
  rw [if_pos (by omega)]

/-- the same at the level of the expression `e | name: a₁, …, aₙ` with the standard filters: receiver and
    argument expressions are evaluated first (their errors come first), then the call fails -/
theorem filter_too_many_arguments (env : Env) (e : Expr) (name : Bytes) (args : List Expr) (sg : FilterSig)
    (recv : GoVal) (as : List GoVal) (hs : lookupSig name = some sg) (h : sg.params.length < args.length + 1)
    (he : eval stdPrims env e = .ok recv) (ha : evalList stdPrims env args = .ok as) :
    eval stdPrims env (.filter e name args) = .err (.filterErr name .parity) := by
  have hhas : stdPrims.hasFilter name = true := by simp [stdPrims, hs]
  rw [eval_filter_step stdPrims env e name args hhas, he, ha]
  have hl := evalList_length stdPrims env args as ha
  exact too_many_arguments_err _ name sg _ _ hs (by simp only [List.length_map]; omega)

/-- every registered filter has a signature with the receiver as first parameter, and is looked up by its name -/
theorem registered_filter_sig : ∀ sg ∈ stdFilters, lookupSig sg.name = some sg ∧ 1 ≤ sg.params.length := by
  decide +kernel

/-- **C08 (fewer arguments).** Parameters without an argument receive the zero value of their type
    (`""`, `0`, `nil`, an empty array) or, for a default-function parameter, the identity function
    (`defaultArg`); the arguments that are present are converted as usual. -/
theorem missing_arguments_default (impls : Bytes → Option FilterImpl) (name : Bytes) (ps qs : List Param) (hasErr : Bool)
    (recv : GoVal) (args : List GoVal) (hs : lookupSig name = some ⟨name, ps ++ qs, hasErr⟩)
    (hlen : args.length + 1 = ps.length) :
    applyFilter impls name recv args =
      (convertArgs ps (recv :: args)).bind fun cargs =>
        match impls name with
        | none => .unmodelled "filter body not modelled"
        | some f => (f (cargs ++ qs.map defaultArg)).bind fun
            | .error c => .err (.filterErr name c)
            | .ok v => .ok (bytesToString v) := by
  unfold applyFilter
  simp only [hs, List.length_cons, List.length_append]
  rw [if_neg (by omega), convertArgs_append ps qs (recv :: args) (by simpa using hlen)]
  cases convertArgs ps (recv :: args) <;> rfl

/-! Non-vacuity of G4 -/
/-- `"a" | append: "b", "c"`: `append` takes one argument -/
example : eval stdPrims [] (.filter (.lit (.str [97])) [97, 112, 112, 101, 110, 100] [.lit (.str [98]), .lit (.str [99])])
    = .err (.filterErr [97, 112, 112, 101, 110, 100] .parity) :=
  filter_too_many_arguments [] _ _ _ ⟨[97, 112, 112, 101, 110, 100], [.val .str, .val .str], false⟩ (.str [97])
    [.str [98], .str [99]] (by rw [lookupSig_is_source]; decide +kernel) (by decide) (by rw [eval]) (by simp [evalList, eval])
/-- `"a" | append`: the missing argument is the empty string; `"abcdef" | truncate`: the defaults 50 and `...` -/
example : evaluate stdPrims [] (.filter (.lit (.str [97])) [97, 112, 112, 101, 110, 100] []) = .ok (.str [97]) := by
  with_unfolding_all rfl
example : evaluate stdPrims [] (.filter (.lit (.str [97, 98, 99, 100, 101, 102])) [116, 114, 117, 110, 99, 97, 116, 101] [])
    = .ok (.str [97, 98, 99, 100, 101, 102]) := by with_unfolding_all rfl

/-! ## G5. Strict variables look at the final value only -/

/-- **C08 (nil prints nothing).** Without strict variables an object whose value is nil writes nothing and
    changes nothing — for the standard output function, and for any that writes no chunk for nil. -/
theorem obj_nil_prints_nothing (c : RCtx) (line : Nat) (e : Expr) (s : RS)
    (h : evaluate c.P s.env e = .ok .nil) (hs : c.cfg.strict = false) (ho : c.O.chunks .nil = .ok []) :
    renderNode c (.obj line e) s = .ret (.done, s) := by
  unfold renderNode
  simp [wrapFailAt, M.mapFail, bind, M.bind, M.getEnv, M.ofRes, h, pure, M.pure, Prog.bind, GoVal.isNil, hs, ho,
    writeAllM, writeVerbatimM, Prog.mapFail]

/-- **C08 (strict variables: only the final value).** In strict-variables mode an object fails with the
    undefined-variable error exactly when its FINAL value is nil (`strict_undefined`, Proofs/C07.lean); when
    the final value is not nil the mode changes nothing — a nil in the middle of a pipeline
    (`{{ nope | default: 1 }}`) is not an error. -/
theorem strict_only_final_value (c : RCtx) (line : Nat) (e : Expr) (s : RS) (v : GoVal)
    (h : evaluate c.P s.env e = .ok v) (hv : v.isNil = false) :
    renderNode c (.obj line e) s =
      renderNode { c with cfg := { c.cfg with strict := false } } (.obj line e) s := by
  unfold renderNode
  simp only [wrapFailAt, M.mapFail, bind, M.bind, M.getEnv, M.ofRes, h, pure, M.pure, Prog.bind, hv, Bool.false_and,
    Bool.false_eq_true, if_false]

/-- an evaluation error is reported in either mode, and a nil final value only in strict mode -/
theorem strict_final_nil_fails (c : RCtx) (line : Nat) (e : Expr) (s : RS) (h : evaluate c.P s.env e = .ok .nil) :
    (c.cfg.strict = true → renderNode c (.obj line e) s = .fail (.located ⟨line, true, .other "undefinedVariable", .byCause⟩)) ∧
    (c.cfg.strict = false → c.O.chunks .nil = .ok [] → renderNode c (.obj line e) s = .ret (.done, s)) :=
  ⟨fun hs => strict_undefined c line e s h hs, fun hs ho => obj_nil_prints_nothing c line e s h hs ho⟩

/-! Non-vacuity of G5: with no bindings, `{{ nope }}` is nil, `{{ nope | default: 1 }}` is 1 -/
example : evaluate stdPrims [] (.var [110, 111, 112, 101]) = .ok .nil := rfl
example : evaluate stdPrims [] (.filter (.var [110, 111, 112, 101]) [100, 101, 102, 97, 117, 108, 116] [.lit (.int .int 1)])
    = .ok (.int .int 1) := by with_unfolding_all rfl
/-- … so in strict mode the first object fails and the second renders as without it -/
example (c : RCtx) (hP : c.P = stdPrims) (hs : c.cfg.strict = true) (s : RS) (h : s.env = []) :
    renderNode c (.obj 1 (.var [110, 111, 112, 101])) s = .fail (.located ⟨1, true, .other "undefinedVariable", .byCause⟩) ∧
    renderNode c (.obj 1 (.filter (.var [110, 111, 112, 101]) [100, 101, 102, 97, 117, 108, 116] [.lit (.int .int 1)])) s =
      renderNode { c with cfg := { c.cfg with strict := false } }
        (.obj 1 (.filter (.var [110, 111, 112, 101]) [100, 101, 102, 97, 117, 108, 116] [.lit (.int .int 1)])) s :=
  ⟨strict_undefined c 1 _ s (by rw [hP, h]; rfl) hs,
   strict_only_final_value c 1 _ s (.int .int 1) (by rw [hP, h]; with_unfolding_all rfl) rfl⟩
