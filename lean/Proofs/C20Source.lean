import Proofs.C20
import Proofs.SrcItems
/-!
# C20, from source bytes — what a failing writer accepted is a prefix of what `run` returns

`Template.FRender(w, vars)` on the template compiled from a source is the interaction tree
`frender … root env` with `compileSource cfg.delims src line = .ok root`; `run` is that tree against a writer
that never fails. The theorems compose `frender_faulty`/`frender_faulty_prefix` (`Proofs/C20.lean`) with
`run_eq_runCompiled`.
-/

/-- **C20 (prefix), for every source that compiles.** Take any source text that compiles (`root`), any
    value layer, configuration, file system, fuel and environment, and a writer that fails at its `k`-th call
    (`k` < the number of calls the fault-free render makes), accepting `acc` bytes of it: the render ends with
    an error whose cause is the writer's failure (never success, never a panic), no call follows, and the
    bytes the writer accepted are a prefix of the bytes the fault-free render writes. -/
theorem source_faulty_prefix (P : Prims) (O : OutPrims) (cfg : Cfg) (fs : FS) (fuel : Nat) (src : Bytes) (line : Nat) (env : Env) :
    ∀ root, compileSource cfg.delims src line = .ok root →
    ∀ k acc, k < (frender P O cfg fs fuel root env).calls.length →
    (∃ e, (runFaulty (frender P O cfg fs fuel root env) (some k) acc).1 = .err e ∧ IsIo e) ∧
    (runFaulty (frender P O cfg fs fuel root env) (some k) acc).2.2 = 0 ∧
    (runFaulty (frender P O cfg fs fuel root env) (some k) acc).2.1 <+: (frender P O cfg fs fuel root env).runPure.1 := by
  intro root _ k acc hk
  have h := frender_faulty P O cfg fs fuel root env k acc hk
  exact ⟨h.1, h.2.2, frender_faulty_prefix P O cfg fs fuel root env k acc hk⟩

/-- **C20 (prefix of the output of `run`), from source bytes.** If the whole pipeline returns the output `out`
    for a source, then the template compiled from that source, rendered to a writer that fails at any call
    `k` (accepting any `acc` bytes of it), ends with the writer's failure as its error, makes no further call,
    and what the writer accepted is a prefix of `out`. -/
theorem run_faulty_prefix (P : Prims) (O : OutPrims) (cfg : Cfg) (fs : FS) (fuel : Nat) (src : Bytes) (line : Nat) (env : Env)
    (out : Bytes) (h : run P O cfg fs fuel src line env = .ok out) :
    ∃ root, compileSource cfg.delims src line = .ok root ∧
      ∀ k acc, k < (frender P O cfg fs fuel root env).calls.length →
        (∃ e, (runFaulty (frender P O cfg fs fuel root env) (some k) acc).1 = .err e ∧ IsIo e) ∧
        (runFaulty (frender P O cfg fs fuel root env) (some k) acc).2.2 = 0 ∧
        (runFaulty (frender P O cfg fs fuel root env) (some k) acc).2.1 <+: out := by
  rw [run_eq_runCompiled] at h
  cases hc : compileSource cfg.delims src line with
  | ok root =>
    rw [hc] at h
    refine ⟨root, rfl, fun k acc hk => ?_⟩
    have hout : (frender P O cfg fs fuel root env).runPure.1 = out := by
      simp only [runCompiled, runRoot] at h
      split at h <;> simp_all
    obtain ⟨h1, h2, h3⟩ := source_faulty_prefix P O cfg fs fuel src line env root hc k acc hk
    exact ⟨h1, h2, hout ▸ h3⟩
  | err e => rw [hc] at h; cases h
  | panic w => rw [hc] at h; cases h
  | unmodelled w => rw [hc] at h; cases h

/-- the same for a spelled template: the source text of any clean item list under any good delimiters -/
theorem run_spell_faulty_prefix (P : Prims) (O : OutPrims) (cfg : Cfg) (fs : FS) (fuel : Nat) (items : List Item) (line : Nat)
    (env : Env) (out : Bytes)
    (h : run P O cfg fs fuel (spell (Delims.ofList cfg.delims) items) line env = .ok out) :
    ∃ root, compileSource cfg.delims (spell (Delims.ofList cfg.delims) items) line = .ok root ∧
      ∀ k acc, k < (frender P O cfg fs fuel root env).calls.length →
        (runFaulty (frender P O cfg fs fuel root env) (some k) acc).2.1 <+: out := by
  obtain ⟨root, hc, hall⟩ := run_faulty_prefix P O cfg fs fuel _ line env out h
  exact ⟨root, hc, fun k acc hk => (hall k acc hk).2.2⟩

/-! ## Non-vacuity, on concrete bytes: `a {{- x }}b` (text, trim-left, object, text) with `x` unbound -/

def c20Src : Bytes := [97, 32, 123, 123, 45, 32, 120, 32, 125, 125, 98]

theorem c20_compiles : compileSource [] c20Src 1 = .ok [.text 1 [97, 32], .trim true, .obj 1 (.var [120]), .text 1 [98]] := by rfl

/-- the fault-free render makes two calls on the writer: `a` (trimmed) and `b` -/
theorem c20_calls (P : Prims) (fs : FS) :
    (frender P stdOut {} fs 1 [.text 1 [97, 32], .trim true, .obj 1 (.var [120]), .text 1 [98]] []).calls = [[97], [98]] := by
  simp [frender, renderRoot, renderList, renderNode, wrapFailAt, M.mapFail, M.bind, M.pure, M.getEnv, M.ofRes, writeM, trimLeftM,
    flushM, Prog.bind, Prog.mapFail, Prog.calls, statusToProg, bind, pure, mkCtx, evaluate, eval, Env.get, GoVal.toLiquid,
    GoVal.unwrap, GoVal.isNil, stdOut, stdChunks, writeChunksL, writeAllM, writeVerbatimM]
  rfl

/-- a writer failing at the second call after accepting nothing has accepted `a`, a prefix of `ab` -/
example (P : Prims) (fs : FS) :
    (runFaulty (frender P stdOut {} fs 1 [.text 1 [97, 32], .trim true, .obj 1 (.var [120]), .text 1 [98]] []) (some 1) 0).2.1 <+:
      (frender P stdOut {} fs 1 [.text 1 [97, 32], .trim true, .obj 1 (.var [120]), .text 1 [98]] []).runPure.1 :=
  (source_faulty_prefix P stdOut {} fs 1 c20Src 1 [] _ c20_compiles 1 0 (by rw [c20_calls]; decide)).2.2
