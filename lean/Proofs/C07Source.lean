import Proofs.SrcCompileLines
import Proofs.SrcItems
import Proofs.E2EParse
/-!
# C07, from source bytes — every error of `run` is located at a tag or object of the source

`run P O cfg fs fuel src line env` is the whole pipeline: tokenizer, block parser, compiler, renderer into a
buffer. The theorems below say where the error it returns points, for EVERY source text, delimiter set,
value layer, file system and environment — compile-time errors (nesting, syntax of objects, tags and
clauses, unknown tags) and render-time errors (evaluation, filters, strict variables, `break` outside a
loop, …) alike.
-/

/-- **C07 (every error is located at a tag or object of the source), from source bytes.** Whenever the
    pipeline returns an error `e` for a source none of whose tags is named `include`, there is a token `t`
    of the source — `scan cfg.delims src line = pre ++ t :: rest` — that is a TAG or an OBJECT (never a
    text, never 0 or an invented line), such that
    * `e.line = t.line`,
    * `t.line = line + countNL (srcs pre)`: the start line plus the number of newline bytes of the source
      text before `t`, where `src = srcs pre ++ t.source ++ srcs rest` (the token sources partition `src`),
    * `e.pathSet = true`: the error names the configured template path.
    (`run` returns either an output or an error, never both: `run_output_xor_error`.) -/
theorem run_error_at_tag_or_object (P : Prims) (O : OutPrims) (cfg : Cfg) (fs : FS) (fuel : Nat) (src : Bytes) (line : Nat)
    (env : Env) (e : SErr) (hni : NoIncludeTag (scan cfg.delims src line))
    (h : run P O cfg fs fuel src line env = .err e) :
    ∃ pre t rest, scan cfg.delims src line = pre ++ t :: rest ∧ (t.ty = .tag ∨ t.ty = .obj) ∧
      e.line = t.line ∧ t.line = line + countNL (srcs pre) ∧ src = srcs pre ++ (t.source ++ srcs rest) ∧
      e.pathSet = true := by
  -- it is enough to find the token
  have fin : ∀ pre t rest, scan cfg.delims src line = pre ++ t :: rest → (t.ty = .tag ∨ t.ty = .obj) → e.line = t.line →
      e.pathSet = true → ∃ pre t rest, scan cfg.delims src line = pre ++ t :: rest ∧ (t.ty = .tag ∨ t.ty = .obj) ∧
      e.line = t.line ∧ t.line = line + countNL (srcs pre) ∧ src = srcs pre ++ (t.source ++ srcs rest) ∧ e.pathSet = true := by
    intro pre t rest h1 h2 h3 h4
    have ht : t.isTrim = false := by rcases h2 with h2 | h2 <;> simp [Token.isTrim, h2]
    obtain ⟨h5, h6⟩ := scan_split_located cfg.delims src line pre rest t h1 ht
    exact ⟨pre, t, rest, h1, h2, h3, h5, h6, h4⟩
  have fin' : TagObjLine (scan cfg.delims src line) e.line → e.pathSet = true →
      ∃ pre t rest, scan cfg.delims src line = pre ++ t :: rest ∧ (t.ty = .tag ∨ t.ty = .obj) ∧
      e.line = t.line ∧ t.line = line + countNL (srcs pre) ∧ src = srcs pre ++ (t.source ++ srcs rest) ∧ e.pathSet = true := by
    rintro ⟨t, ht, hl, hty⟩ hp
    obtain ⟨pre, rest, hs⟩ := List.append_of_mem ht
    exact fin pre t rest hs hty hl.symm hp
  rw [run_eq_runTokens] at h
  unfold runTokens runCompiled compileTokens at h
  split at h
  · next hc =>
    -- a compile-time error
    split at hc
    · cases hc
    · cases hp : parseTokens stdGrammar objChk (scan cfg.delims src line) with
      | err pe =>
        rw [hp] at hc
        simp only [liftPErr, bind, Res.bind] at hc
        obtain ⟨pre, t, rest, h1, h2, h3⟩ := parse_error_token stdGrammar objChk _ pe hp
        cases h
        cases hk : pe.kind <;> rw [hk] at hc <;> cases hc <;> exact fin pre t rest h1 h3 h2 rfl
      | ok ast =>
        rw [hp] at hc
        simp only [liftPErr, bind, Res.bind] at hc
        cases h
        have hd := derives_of_parse hp
        have := epost_compileList (etokLinesList ast) ast (fun _ hx => hx) (hd.noInc hni)
        rw [hc] at this
        exact fin' (hd.etokLines _ this.1) this.2
      | panic w => rw [hp] at hc; simp [liftPErr, bind, Res.bind] at hc
      | unmodelled w => rw [hp] at hc; simp [liftPErr, bind, Res.bind] at hc
  · cases h
  · cases h
  · next root hc =>
    -- a render-time error
    split at hc
    · cases hc
    · cases hp : parseTokens stdGrammar objChk (scan cfg.delims src line) with
      | ok ast =>
        rw [hp] at hc
        simp only [liftPErr, bind, Res.bind] at hc
        have hd := derives_of_parse hp
        have hgood := epost_compileList (etokLinesList ast) ast (fun _ hx => hx) (hd.noInc hni)
        rw [hc] at hgood
        unfold runRoot at h
        split at h
        · cases h
        · next out e' hr =>
          cases h
          obtain ⟨se, hse, hl, hps⟩ := frender_error_eline P O cfg fs fuel root hgood.2 env _ _ hr
          cases hse
          exact fin' (hd.etokLines _ (hgood.1 _ hl)) hps
        · next out c hr =>
          obtain ⟨se, hse, _⟩ := frender_error_eline P O cfg fs fuel root hgood.2 env _ _ hr
          cases hse
        · cases h
        · cases h
      | err pe => rw [hp] at hc; simp [liftPErr, bind, Res.bind] at hc
      | panic w => rw [hp] at hc; simp [liftPErr, bind, Res.bind] at hc
      | unmodelled w => rw [hp] at hc; simp [liftPErr, bind, Res.bind] at hc

/-! ## The same for spelled templates: the error points at an item that is a tag or an object -/

/-- **C07 on spelled templates.** For a template `items` (clean, any good delimiters) without an `include`
    tag: an error of `run` on its source text points at an item that is a tag or an object; its line is the
    start line plus the newlines of the text spelled before that item; it names the template's path. -/
theorem run_spell_error_at_item (P : Prims) (O : OutPrims) (cfg : Cfg) (fs : FS) (fuel : Nat) (items : List Item) (line : Nat)
    (env : Env) (e : SErr)
    (hg : GoodDelims (Delims.ofList cfg.delims)) (hc : Clean (Delims.ofList cfg.delims) items) (hni : NoIncludeItem items)
    (h : run P O cfg fs fuel (spell (Delims.ofList cfg.delims) items) line env = .err e) :
    ∃ pre it post, items = pre ++ it :: post ∧ it.isText = false ∧
      e.line = line + countNL (spell (Delims.ofList cfg.delims) pre) ∧ e.pathSet = true := by
  have hs := scan_spell cfg.delims items line hg hc
  have hni' : NoIncludeTag (scan cfg.delims (spell (Delims.ofList cfg.delims) items) line) := by
    rw [hs]
    refine tokensOf_forall _ (fun t => ¬ (t.ty = .tag ∧ t.name = nmInclude)) (by intro h; cases h.1) (by intro h; cases h.1) items line ?_
    intro it hit l hh
    cases it with
    | text s => cases hh.1
    | obj args hl hr wl wr => cases hh.1
    | tag name args hl hr wl wm wr => exact hni _ hit (by simp only [Item.mainTok] at hh; simp [Item.tagName, hh.2])
  obtain ⟨pre, t, rest, h1, h2, h3, _, _, h6⟩ := run_error_at_tag_or_object P O cfg fs fuel _ line env e hni' h
  rw [hs] at h1
  obtain ⟨ipre, it, ipost, g1, g2, g3⟩ := mem_tokensOf_item _ items line t (by rw [h1]; simp) h2
  exact ⟨ipre, it, ipost, g1, g2, by rw [h3, g3, Item.mainTok_line], h6⟩

/-! ## Non-vacuity, on concrete bytes -/

/-- `a⏎{{ y }}` (strict variables, `y` unbound, start line 1): the render fails at line 2 … -/
theorem c07_ex_render (P : Prims) (O : OutPrims) (fs : FS) :
    run P O strictCfg fs 1 [97, 10, 123, 123, 32, 121, 32, 125, 125] 1 [] =
      .err ⟨2, true, .other "undefinedVariable", .byCause⟩ := by
  have h := run_spell P O strictCfg fs 1 [.text [97, 10], ob [121]] 1 [] (by decide) (by decide)
  have e : spell (Delims.ofList strictCfg.delims) [.text [97, 10], ob [121]] = [97, 10, 123, 123, 32, 121, 32, 125, 125] := by decide
  rw [e] at h
  rw [h]
  show runRoot P O strictCfg fs 1 [.text 1 [97, 10], .obj 2 (.var [121])] [] = _
  simp [runRoot, frender, renderRoot, renderList, renderNode, wrapFailAt, M.mapFail, M.bind, M.pure, M.getEnv, M.ofRes, M.fail,
    writeM, Prog.bind, Prog.mapFail, Prog.runPure, bind, pure, mkCtx, evaluate, eval, Env.get, GoVal.unwrap, GoVal.isNil,
    GoVal.toLiquid, wrapError, strictCfg]

/-- … and the theorem finds the object token `{{ y }}`, whose line is 1 + the one newline before it -/
example (P : Prims) (O : OutPrims) (fs : FS) :
    ∃ pre t rest, scan strictCfg.delims [97, 10, 123, 123, 32, 121, 32, 125, 125] 1 = pre ++ t :: rest ∧
      (t.ty = .tag ∨ t.ty = .obj) ∧ (2 : Nat) = t.line ∧ t.line = 1 + countNL (srcs pre) ∧
      [97, 10, 123, 123, 32, 121, 32, 125, 125] = srcs pre ++ (t.source ++ srcs rest) ∧ true = true :=
  run_error_at_tag_or_object P O strictCfg fs 1 _ 1 [] _ (by decide) (c07_ex_render P O fs)

/-- `{% if x %}⏎{% assign %}{% endif %}`: a compile-time error (the `assign` has no arguments) at line 2, whatever the
    value layer and environment -/
theorem c07_ex_compile (P : Prims) (O : OutPrims) (fs : FS) (env : Env) :
    run P O {} fs 1 (spell Delims.default [tg nmIf [120], .text [10], tg nmAssign [], tg (endPrefix ++ nmIf) []]) 1 env =
      .err ⟨2, true, .none, .tagSyntax⟩ := by
  rw [show Delims.default = Delims.ofList ({} : Cfg).delims from rfl, run_spell P O {} fs 1 _ 1 env (by decide) (by decide)]
  rfl

example (P : Prims) (O : OutPrims) (fs : FS) (env : Env) :
    ∃ pre it post, [tg nmIf [120], .text [10], tg nmAssign [], tg (endPrefix ++ nmIf) []] = pre ++ it :: post ∧ it.isText = false ∧
      (2 : Nat) = 1 + countNL (spell Delims.default pre) ∧ true = true :=
  run_spell_error_at_item P O {} fs 1 _ 1 env _ (by decide) (by decide) (by decide) (c07_ex_compile P O fs env)

/-! ## The side condition "no `include` tag" is needed

`{% include "f" %}` where the file `f` is `⏎⏎{{ y }}` (strict variables, `y` unbound): the error comes from the
included file and carries ITS line — the include tag's line 1 plus the two newlines before the object — while
the only token of the including source stands at line 1. -/
def c07IncFs : FS := ⟨fun p => if p = [102] then .content [10, 10, 123, 123, 32, 121, 32, 125, 125] else .notExist, fun _ => none⟩

theorem c07_inner : compileSource [] [10, 10, 123, 123, 32, 121, 32, 125, 125] 1 = .ok [.text 1 [10, 10], .obj 3 (.var [121])] := by rfl

/-- **C07 (counterexample with an `include` tag).** The error's line is a line of the included file, not of a token of the source. -/
theorem include_error_line (P : Prims) (O : OutPrims) :
    run P O strictCfg c07IncFs 1 (spell Delims.default [tg nmInclude [34, 102, 34]]) 1 [] =
      .err ⟨3, true, .other "undefinedVariable", .byCause⟩ ∧
    ∀ t ∈ scan strictCfg.delims (spell Delims.default [tg nmInclude [34, 102, 34]]) 1, t.line ≠ 3 := by
  refine ⟨?_, by decide⟩
  rw [show Delims.default = Delims.ofList strictCfg.delims from rfl, run_spell P O strictCfg c07IncFs 1 _ 1 [] (by decide) (by decide)]
  show runRoot P O strictCfg c07IncFs 1 [.incl 1 [34, 102, 34]] [] = _
  have hp : parseExprSource [34, 102, 34] = .ok (.lit (.str [102])) := rfl
  have hj : joinPath (dirPath []) [102] = [102] := by decide
  simp [runRoot, frender, renderRoot, renderList, renderNode, wrapAt, wrapFailAt, M.mapFail, M.bind, M.pure, M.getEnv, M.ofRes, M.fail,
    Prog.bind, Prog.mapFail, Prog.runPure, bind, pure, mkCtx, evaluate, eval, GoVal.unwrap, hp, Res.mapErr, incFuel, renderFileWith,
    c07IncFs, hj, strictCfg, c07_inner, writeM, Env.get, GoVal.isNil, GoVal.toLiquid, wrapError]
