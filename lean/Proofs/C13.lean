import Liquid.TrimWriter
