import Liquid.TrimWriter
import Liquid.TrimGeneric
import Proofs.TwLemmas
import Proofs.TwBridge
/-!
# C13 — whitespace-control hyphens strip exactly the adjacent literal whitespace

Level of this file: **operation lists of the trim writer** (`render/trimwriter.go`). A template
with hyphens issues the operation list of the same template without hyphens plus `TrimLeft` /
`TrimRight` operations (`eraseTrims` removes them again).

The machine is the repaired one (/repo 2593661): `Write` always flushes the previous buffer and
then buffers the new text (left-stripped when a `TrimRight` is pending), so a write always
consumes the flag and a `TrimLeft` only ever sees the text written last.

* Part A: the laws on a generic alphabet with a whitespace predicate, for EVERY operation list:
  erasure (`trim_subseq`, `trim_only_ws`, `trim_sublist`, `no_trim_identity`), the "faces text"
  laws for EVERY text and position (`trimLeft_adjacent_all`, `trimRight_adjacent_all`) with their
  special cases, and the statement of the repair (`trimLeft_sees_last_write_only`,
  `write_commits_previous`, `buffer_is_last_write`).
* Part B: the bridge to the byte-level model `TW.step` (which the `tw` stream compares with the
  real `trimWriter` call by call): for writes that are valid UTF-8 the byte machine is the image of
  the generic machine under `encodeRunes`; byte-level corollaries; `tw_trimLeft_sees_last_write_only`
  for ALL byte strings; the counterexample that shows the validity hypothesis cannot be dropped
  from the erasure law.
* Part C: facts about the underlying write calls (used by C20).

Helper lemmas: `Proofs/TwLemmas.lean` (generic machine), `Proofs/TwBridge.lean` (UTF-8 bridge),
`Proofs/Utf8Lemmas.lean` (codec).
-/

open Gen

/-! ## Part A — generic alphabet -/

section generic
variable {α : Type} (sp : α → Bool)

/-- hyphens never remove anything but whitespace: the output with the trim operations is obtained
    from the output without them by deleting whitespace characters only -/
theorem trim_subseq (ops : List (GOp α)) : WsDeletion sp (out sp (eraseTrims ops)) (out sp ops) := by
  rw [out_eraseTrims]; exact out_wsDeletion sp ops

/-- deleting every whitespace character from the outputs with and without the trim operations
    gives the same string -/
theorem trim_only_ws (ops : List (GOp α)) : stripWS sp (out sp ops) = stripWS sp (out sp (eraseTrims ops)) :=
  ((trim_subseq sp ops).stripWS_eq sp).symm

/-- the trimmed output is a subsequence of the untrimmed one (in particular never longer) -/
theorem trim_sublist (ops : List (GOp α)) : (out sp ops).Sublist (out sp (eraseTrims ops)) :=
  (trim_subseq sp ops).sublist sp

/-- an operation list without trim operations outputs the concatenation of its writes -/
theorem erased_output_is_concat (ops : List (GOp α)) : out sp (eraseTrims ops) = writes ops :=
  out_eraseTrims sp ops

/-- a template without hyphens loses nothing -/
theorem no_trim_identity (ops : List (GOp α)) (h : eraseTrims ops = ops) : out sp ops = writes ops := by
  rw [← h, out_eraseTrims, h]

/-- **the "faces text" law, left side, for EVERY text and EVERY position**: a `TrimLeft` directly
    after a write acts as the write of the right-stripped text. No exception for whitespace-only
    or empty text, no condition on a pending `TrimRight` (then the text is stripped on both sides). -/
theorem trimLeft_adjacent_all (pre post : List (GOp α)) (u : List α) :
    out sp (pre ++ .write u :: .trimLeft :: post) = out sp (pre ++ .write (rstrip sp u) :: post) := by
  rw [out_append, out_append, outFrom_write_trimLeft sp _ u post]

/-- **the "faces text" law, right side, for EVERY text and EVERY position**: a `TrimRight` directly
    before a write acts as the write of the left-stripped text. -/
theorem trimRight_adjacent_all (pre post : List (GOp α)) (u : List α) :
    out sp (pre ++ .trimRight :: .write u :: post) = out sp (pre ++ .write (lstrip sp u) :: post) := by
  rw [out_append, out_append, outFrom_trimRight_write sp _ u post]

/-- the pending-flag case of `trimLeft_adjacent_all` spelled out: text between a `TrimRight` and a
    `TrimLeft` is stripped on both sides, and nothing else happens -/
theorem trim_both_adjacent (pre post : List (GOp α)) (u : List α) :
    out sp (pre ++ .trimRight :: .write u :: .trimLeft :: post) =
      out sp (pre ++ .write (rstrip sp (lstrip sp u)) :: post) := by
  rw [trimRight_adjacent_all, trimLeft_adjacent_all]

/-- a `TrimLeft` directly after the write of a text with ink acts as the write of the
    right-stripped text — wherever it stands -/
theorem trimLeft_adjacent (pre post : List (GOp α)) (u : List α) (_hu : hasInk sp u = true) :
    out sp (pre ++ .write u :: .trimLeft :: post) = out sp (pre ++ .write (rstrip sp u) :: post) :=
  trimLeft_adjacent_all sp pre post u

/-- the same for any text (whitespace-only or empty included: it is deleted entirely) when no
    `TrimRight` is pending -/
theorem trimLeft_adjacent_noflag (pre post : List (GOp α)) (u : List α) (_hf : flagAfter sp pre = false) :
    out sp (pre ++ .write u :: .trimLeft :: post) = out sp (pre ++ .write (rstrip sp u) :: post) :=
  trimLeft_adjacent_all sp pre post u

/-- whitespace-only (or empty) text before a `TrimLeft` is deleted entirely and NOTHING ELSE is:
    what remains is an empty write (it flushes the earlier text unchanged and clears the flag).
    Holds with or without a pending `TrimRight`. (The machine before repair 2593661 acted as
    `[trimLeft, write []]` here when a `TrimRight` was pending: the `TrimLeft` reached the text
    before the whitespace.) -/
theorem trimLeft_adjacent_ws (pre post : List (GOp α)) (u : List α) (hu : hasInk sp u = false) :
    out sp (pre ++ .write u :: .trimLeft :: post) = out sp (pre ++ .write [] :: post) := by
  rw [trimLeft_adjacent_all, rstrip_of_no_ink sp u hu]

/-- a `TrimRight` directly before the write of a text with ink acts as the write of the
    left-stripped text -/
theorem trimRight_adjacent (pre post : List (GOp α)) (u : List α) (_hu : hasInk sp u = true) :
    out sp (pre ++ .trimRight :: .write u :: post) = out sp (pre ++ .write (lstrip sp u) :: post) :=
  trimRight_adjacent_all sp pre post u

/-- the same for any text when a `TrimRight` was already pending -/
theorem trimRight_adjacent_flag (pre post : List (GOp α)) (u : List α) (_hf : flagAfter sp pre = true) :
    out sp (pre ++ .trimRight :: .write u :: post) = out sp (pre ++ .write (lstrip sp u) :: post) :=
  trimRight_adjacent_all sp pre post u

/-- whitespace-only (or empty) text after a `TrimRight` is deleted entirely and NOTHING ELSE is:
    what remains is an empty write, which is the same as `write (lstrip u)` (before the repair it
    was not: the earlier text stayed buffered and a later `TrimLeft` reached it) -/
theorem trimRight_adjacent_ws (pre post : List (GOp α)) (u : List α) (hu : hasInk sp u = false) :
    out sp (pre ++ .trimRight :: .write u :: post) = out sp (pre ++ .write [] :: post) := by
  rw [trimRight_adjacent_all, lstrip_of_no_ink sp u hu]

/-- an empty write flushes and clears the flag; with no flag pending it is exactly a `Flush` -/
theorem empty_write_is_flush (pre post : List (GOp α)) (hf : flagAfter sp pre = false) :
    out sp (pre ++ .write [] :: post) = out sp (pre ++ .flush :: post) := by
  rw [out_append, out_append, outFrom_write_nil_noflag sp _ post hf]

/-- an EMPTY write consumes the trim flag and flushes: `TrimRight` followed by an empty write
    acts as a `Flush` (before the repair it was a no-op: the earlier text stayed within reach of a
    later `TrimLeft`) -/
theorem trimRight_empty_write (pre post : List (GOp α)) (hf : flagAfter sp pre = false) :
    out sp (pre ++ .trimRight :: .write [] :: post) = out sp (pre ++ .flush :: post) := by
  rw [out_append, out_append, outFrom_trimRight_empty_write sp _ post hf]

/-- a `TrimRight` persists across a `TrimLeft` (`{{ a -}}{{- b }} text`: the text is still stripped) -/
theorem trimRight_persists_trimLeft (pre post : List (GOp α)) :
    out sp (pre ++ .trimRight :: .trimLeft :: post) = out sp (pre ++ .trimLeft :: .trimRight :: post) := by
  rw [out_append, out_append, outFrom_trimRight_trimLeft]

/-- ... and across a `Flush` -/
theorem trimRight_persists_flush (pre post : List (GOp α)) :
    out sp (pre ++ .trimRight :: .flush :: post) = out sp (pre ++ .flush :: .trimRight :: post) := by
  rw [out_append, out_append, outFrom_trimRight_flush]

/-- after a write the buffer holds that write only (left-stripped when a `TrimRight` was
    pending), whatever came before, and the flag is clear -/
theorem buffer_is_last_write (pre : List (GOp α)) (b : List α) :
    (GTW.run sp {} (pre ++ [.write b])).1 =
      { buf := if flagAfter sp pre then lstrip sp b else b, trim := false } :=
  run_snoc_write sp {} pre b

/-- a write commits everything before it: the output splits into the complete output of the list
    that ends with the earlier write and a part that does not depend on that list -/
theorem write_commits_previous (pre rest : List (GOp α)) (a b : List α) :
    out sp (pre ++ .write a :: .write b :: rest) = out sp (pre ++ [.write a]) ++ out sp (.write b :: rest) ∧
    out sp (pre ++ .write a :: .trimRight :: .write b :: rest) =
      out sp (pre ++ [.write a]) ++ out sp (.trimRight :: .write b :: rest) :=
  ⟨out_split_write_write sp pre rest a b, out_split_write_trimRight_write sp pre rest a b⟩

/-- **the repair (2593661)**: a `TrimLeft` sees the last write only. Whatever `b` is (whitespace-only
    and empty included), everything up to and including the earlier write `a` is output exactly as
    if the operation list ended there; then comes the right-stripped `b`; then the output of `post`
    from a fresh machine. -/
theorem trimLeft_sees_last_write_only (pre post : List (GOp α)) (a b : List α) :
    out sp (pre ++ .write a :: .write b :: .trimLeft :: post) =
      out sp (pre ++ [.write a]) ++ rstrip sp b ++ out sp post := by
  rw [out_split_write_write, out_write_trimLeft, List.append_assoc]

/-- the same with a `TrimRight` pending before `write b` (`a -}} b {{-`): `b` is stripped on both
    sides — it vanishes when it is whitespace-only — and `a` is still output in full. This is the
    situation in which the machine before the repair also stripped the end of `a`. -/
theorem trimLeft_sees_last_write_only_flag (pre post : List (GOp α)) (a b : List α) :
    out sp (pre ++ .write a :: .trimRight :: .write b :: .trimLeft :: post) =
      out sp (pre ++ [.write a]) ++ rstrip sp (lstrip sp b) ++ out sp post := by
  rw [out_split_write_trimRight_write, out_trimRight_write_trimLeft, List.append_assoc]

/-- in particular whitespace-only text between two hyphens costs the earlier write nothing -/
theorem trimLeft_keeps_earlier_write (pre post : List (GOp α)) (a b : List α) (hb : hasInk sp b = false) :
    out sp (pre ++ .write a :: .trimRight :: .write b :: .trimLeft :: post) =
      out sp (pre ++ [.write a]) ++ out sp post := by
  rw [trimLeft_sees_last_write_only_flag, lstrip_of_no_ink sp b hb, rstrip_nil, List.append_nil]

end generic

/-! ### non-vacuity (alphabet `Nat`, whitespace = `0`) -/

section examples_generic
private def sp0 : Nat → Bool := fun c => c == 0

-- `x ␠ {{- … -}} ␠ y ␠ {{- … }} z`
private def opsA : List (GOp Nat) :=
  [.write [1, 0], .trimLeft, .trimRight, .write [0, 2, 0], .trimLeft, .write [3]]

example : out sp0 opsA = [1, 2, 3] := by decide
example : out sp0 (eraseTrims opsA) = [1, 0, 0, 2, 0, 3] := by decide
example : stripWS sp0 (out sp0 opsA) = [1, 2, 3] ∧ stripWS sp0 (out sp0 (eraseTrims opsA)) = [1, 2, 3] := by decide
example : WsDeletion sp0 (out sp0 (eraseTrims opsA)) (out sp0 opsA) := trim_subseq sp0 opsA
example : out sp0 opsA ≠ out sp0 (eraseTrims opsA) := by decide
-- no_trim_identity: hypothesis holds on a list with writes and a flush, whitespace is kept
example : eraseTrims [GOp.write [0, 1, 0], .flush, .write [0], .write [2]] = [.write [0, 1, 0], .flush, .write [0], .write [2]]
    ∧ out sp0 [GOp.write [0, 1, 0], .flush, .write [0], .write [2]] = [0, 1, 0, 0, 2] := by decide
-- trimLeft_adjacent(_all): `hasInk`, also with a pending TrimRight in front
example : hasInk sp0 [0, 1, 0] = true ∧
    out sp0 ([GOp.write [7, 0], .trimRight] ++ .write [0, 1, 0] :: .trimLeft :: [.write [2]]) = [7, 0, 1, 2] ∧
    rstrip sp0 [0, 1, 0] = [0, 1] := by decide
-- trimLeft_adjacent_noflag / _ws with whitespace-only text: the text disappears, the earlier text keeps its blank
example : flagAfter sp0 [GOp.write [7, 0]] = false ∧ hasInk sp0 [0, 0] = false ∧
    out sp0 ([GOp.write [7, 0]] ++ .write [0, 0] :: .trimLeft :: [.write [2]]) = [7, 0, 2] := by decide
-- trimLeft_adjacent_ws / trimLeft_keeps_earlier_write with a pending TrimRight: the whitespace-only
-- text disappears and the earlier text STILL keeps its blank (the machine before the repair gave [7, 2])
example : flagAfter sp0 [GOp.write [7, 0], .trimRight] = true ∧ hasInk sp0 [0, 0] = false ∧
    out sp0 ([GOp.write [7, 0], .trimRight] ++ .write [0, 0] :: .trimLeft :: [.write [2]]) = [7, 0, 2] ∧
    out sp0 ([GOp.write [7, 0]] ++ .write [] :: [.write [2]]) = [7, 0, 2] := by decide
-- trimRight_adjacent(_all)
example : hasInk sp0 [0, 1, 0] = true ∧
    out sp0 ([GOp.write [7, 0]] ++ .trimRight :: .write [0, 1, 0] :: [.write [2]]) = [7, 0, 1, 0, 2] ∧
    lstrip sp0 [0, 1, 0] = [1, 0] := by decide
-- trimRight_adjacent_flag
example : flagAfter sp0 [GOp.write [7], .trimRight, .trimLeft] = true := by decide
-- trimRight_adjacent_ws now agrees with `write (lstrip u)` also when a TrimLeft follows
example : hasInk sp0 [0, 0] = false ∧
    out sp0 ([GOp.write [7, 0]] ++ .trimRight :: .write [0, 0] :: [.trimLeft, .write [2]]) = [7, 0, 2] ∧
    out sp0 ([GOp.write [7, 0]] ++ .write (lstrip sp0 [0, 0]) :: [.trimLeft, .write [2]]) = [7, 0, 2] := by decide
-- trimRight_empty_write / empty_write_is_flush: the empty write consumed the flag (`[0, 2]` keeps its
-- blank) and flushed (`[7, 0]` is out of reach of the TrimLeft); it is NOT a no-op
example : flagAfter sp0 [GOp.write [7, 0]] = false ∧
    out sp0 ([GOp.write [7, 0]] ++ .trimRight :: .write [] :: [.trimLeft, .write [0, 2]]) = [7, 0, 0, 2] ∧
    out sp0 ([GOp.write [7, 0]] ++ .flush :: [.trimLeft, .write [0, 2]]) = [7, 0, 0, 2] ∧
    out sp0 ([GOp.write [7, 0]] ++ [.trimLeft, .write [0, 2]]) = [7, 0, 2] := by decide
-- trimRight_persists_trimLeft
example : out sp0 ([GOp.write [7, 0]] ++ .trimRight :: .trimLeft :: [.write [0, 2]]) = [7, 2] := by decide
example : out sp0 ([GOp.write [7, 0]] ++ .trimRight :: .flush :: [.write [0, 2]]) = [7, 0, 2] := by decide
-- trimLeft_sees_last_write_only(_flag): `6 ␠ -}} ␠ 7 ␠ | ␠ 1 ␠ {{- 2`, the blank after 7 survives
example : out sp0 ([GOp.write [6, 0], .trimRight] ++ .write [0, 7, 0] :: .write [0, 1, 0] :: .trimLeft :: [.write [2]])
      = [6, 0, 7, 0, 0, 1, 2] ∧
    out sp0 ([GOp.write [6, 0], .trimRight] ++ [.write [0, 7, 0]]) = [6, 0, 7, 0] ∧ rstrip sp0 [0, 1, 0] = [0, 1] ∧
    out sp0 [GOp.write [2]] = [2] := by decide
example : out sp0 ([GOp.write [6, 0]] ++ .write [7, 0] :: .trimRight :: .write [0, 0] :: .trimLeft :: [.write [2]])
      = [6, 0, 7, 0, 2] ∧ rstrip sp0 (lstrip sp0 [0, 0]) = [] := by decide
-- buffer_is_last_write
example : (GTW.run sp0 {} ([GOp.write [6, 0], .trimRight] ++ [.write [0, 7, 0]])).1 = { buf := [7, 0], trim := false } := by
  decide
end examples_generic

/-! ## Part B — the bridge to the byte-level model -/

/-- decoding the encoding of scalar values gives them back -/
theorem tw_decode_encode (rs : List Rune) (h : ∀ r ∈ rs, ValidScalar r) : decodeRunes (encodeRunes rs) = rs :=
  decode_encode rs h

/-- `bytes.TrimLeftFunc(·, unicode.IsSpace)` on valid UTF-8 drops the leading whitespace runes -/
theorem tw_trimLeftSpace_encode (rs : List Rune) (h : ∀ r ∈ rs, ValidScalar r) :
    trimLeftSpace (encodeRunes rs) = encodeRunes (rs.dropWhile isSpaceRune) :=
  trimLeftSpace_encode rs h

/-- `bytes.TrimRightFunc(·, unicode.IsSpace)` on valid UTF-8 drops the trailing whitespace runes -/
theorem tw_trimRightSpace_encode (rs : List Rune) (h : ∀ r ∈ rs, ValidScalar r) :
    trimRightSpace (encodeRunes rs) = encodeRunes ((rs.reverse.dropWhile isSpaceRune).reverse) :=
  trimRightSpace_encode rs h

/-- one step of the byte machine on an encoded state and operation is the encoding of one step of
    the generic machine, underlying write calls included -/
theorem tw_step_encode (t : GTW Rune) (ht : ∀ r ∈ t.buf, ValidScalar r) (op : GOp Rune) (hop : ScalarOp op) :
    TW.step (encTW t) (encOp op) =
      (encTW (t.step isSpaceRune op).1, (t.step isSpaceRune op).2.map encodeRunes) :=
  (step_enc t ht op hop).1

/-- the bridge: the bytes written for an operation list with valid UTF-8 writes are the encoding
    of the generic machine's output (alphabet = runes, whitespace = `unicode.IsSpace`) -/
theorem tw_runOps_encode (ops : List (GOp Rune)) (h : ∀ op ∈ ops, ScalarOp op) :
    runOps (ops.map encOp) = encodeRunes (out isSpaceRune ops) :=
  runOps_enc ops h

/-- every byte-level operation list with valid UTF-8 writes is such an image -/
theorem tw_valid_is_encoded (ops : List WOp) (h : ValidOps ops) :
    ∃ g : List (GOp Rune), g.map encOp = ops ∧ ∀ op ∈ g, ScalarOp op :=
  validOps_lift ops h

/-- byte level, valid UTF-8: trimming deletes whitespace runes only -/
theorem tw_trim_subseq (ops : List WOp) (h : ValidOps ops) :
    WsDeletion isSpaceRune (decodeRunes (runOps (eraseTrims ops))) (decodeRunes (runOps ops)) := by
  obtain ⟨g, rfl, hs⟩ := validOps_lift ops h
  rw [eraseTrims_map_encOp, decodeRunes_runOps g hs, decodeRunes_runOps _ (scalar_eraseTrims g hs)]
  exact trim_subseq isSpaceRune g

/-- byte level, valid UTF-8: deleting every whitespace rune from the outputs with and without the
    trim operations gives the same bytes -/
theorem tw_trim_only_ws (ops : List WOp) (h : ValidOps ops) :
    stripSpaceBytes (runOps ops) = stripSpaceBytes (runOps (eraseTrims ops)) := by
  obtain ⟨g, rfl, hs⟩ := validOps_lift ops h
  unfold stripSpaceBytes
  rw [eraseTrims_map_encOp, decodeRunes_runOps g hs, decodeRunes_runOps _ (scalar_eraseTrims g hs)]
  exact congrArg encodeRunes (trim_only_ws isSpaceRune g)

/-- byte level, valid UTF-8: the output stays valid UTF-8 and is a subsequence of the untrimmed bytes -/
theorem tw_trim_valid_sublist (ops : List WOp) (h : ValidOps ops) :
    ValidUtf8 (runOps ops) ∧ (runOps ops).Sublist (runOps (eraseTrims ops)) := by
  refine ⟨runOps_valid ops h, ?_⟩
  obtain ⟨g, rfl, hs⟩ := validOps_lift ops h
  rw [eraseTrims_map_encOp, runOps_enc g hs, runOps_enc _ (scalar_eraseTrims g hs)]
  exact encodeRunes_sublist (trim_sublist isSpaceRune g)

/-- byte level, ALL byte strings (valid UTF-8 or not): without trim operations the output is the
    concatenation of the writes -/
theorem tw_erased_output_is_concat (ops : List WOp) : runOps (eraseTrims ops) = wopWrites ops := by
  have := tw_run_eraseTrims ops []
  simpa [runOps] using this

/-- byte level, ALL byte strings: a template without hyphens loses nothing -/
theorem tw_no_trim_identity (ops : List WOp) (h : eraseTrims ops = ops) : runOps ops = wopWrites ops := by
  rw [← h, tw_erased_output_is_concat, h]

/-- byte level, valid UTF-8: a `TrimLeft` directly after the write of ANY text acts as the write of
    `bytes.TrimRightFunc(text, unicode.IsSpace)`, with or without a pending `TrimRight` -/
theorem tw_trimLeft_adjacent_all (pre post : List WOp) (u : Bytes) (hpre : ValidOps pre) (hpost : ValidOps post)
    (hv : ValidUtf8 u) :
    runOps (pre ++ .write u :: .trimLeft :: post) = runOps (pre ++ .write (trimRightSpace u) :: post) := by
  have e := encodeRunes_decodeRunes_of_valid u hv
  have hsc := decodeRunes_all_scalar u
  have hsr : ∀ r ∈ rstrip isSpaceRune (decodeRunes u), ValidScalar r := fun r hr =>
    hsc r (((wsDeletion_rstrip isSpaceRune _).sublist isSpaceRune).subset hr)
  have := runOps_congr_middle pre post hpre hpost
    [.write (decodeRunes u), .trimLeft] [.write (rstrip isSpaceRune (decodeRunes u))]
    (by intro op hop; simp at hop; rcases hop with rfl | rfl; exact hsc; trivial)
    (by intro op hop; simp at hop; subst hop; exact hsr)
    (by intro gpre gpost _ _
        have := trimLeft_adjacent_all isSpaceRune gpre gpost (decodeRunes u)
        simpa using this)
  simp only [List.map_cons, List.map_nil, encOp, e, ← trimRightSpace_encode _ hsc] at this
  simpa using this

/-- byte level, valid UTF-8: a `TrimRight` directly before the write of ANY text acts as the write
    of `bytes.TrimLeftFunc(text, unicode.IsSpace)` -/
theorem tw_trimRight_adjacent_all (pre post : List WOp) (u : Bytes) (hpre : ValidOps pre) (hpost : ValidOps post)
    (hv : ValidUtf8 u) :
    runOps (pre ++ .trimRight :: .write u :: post) = runOps (pre ++ .write (trimLeftSpace u) :: post) := by
  have e := encodeRunes_decodeRunes_of_valid u hv
  have hsc := decodeRunes_all_scalar u
  have hsl : ∀ r ∈ lstrip isSpaceRune (decodeRunes u), ValidScalar r := scalar_dropWhile hsc _
  have := runOps_congr_middle pre post hpre hpost
    [.trimRight, .write (decodeRunes u)] [.write (lstrip isSpaceRune (decodeRunes u))]
    (by intro op hop; simp at hop; rcases hop with rfl | rfl; trivial; exact hsc)
    (by intro op hop; simp at hop; subst hop; exact hsl)
    (by intro gpre gpost _ _
        have := trimRight_adjacent_all isSpaceRune gpre gpost (decodeRunes u)
        simpa using this)
  simp only [List.map_cons, List.map_nil, encOp, e, lstrip, ← trimLeftSpace_encode _ hsc] at this
  simpa using this

/-- blank valid UTF-8 is deleted entirely by either trim -/
theorem tw_trimSpace_blank (u : Bytes) (hv : ValidUtf8 u) (hu : hasInkBytes u = false) :
    trimRightSpace u = [] ∧ trimLeftSpace u = [] := by
  have e := encodeRunes_decodeRunes_of_valid u hv
  have hsc := decodeRunes_all_scalar u
  constructor
  · rw [← e, trimRightSpace_encode _ hsc, rstrip_of_no_ink isSpaceRune _ hu]; rfl
  · have := lstrip_of_no_ink isSpaceRune _ hu
    rw [← e, trimLeftSpace_encode _ hsc]
    unfold lstrip at this
    rw [this]; rfl

/-- byte level, valid UTF-8: a `TrimLeft` directly after the write of a text with ink acts as the
    write of `bytes.TrimRightFunc(text, unicode.IsSpace)` -/
theorem tw_trimLeft_adjacent (pre post : List WOp) (u : Bytes) (hpre : ValidOps pre) (hpost : ValidOps post)
    (hv : ValidUtf8 u) (_hu : hasInkBytes u = true) :
    runOps (pre ++ .write u :: .trimLeft :: post) = runOps (pre ++ .write (trimRightSpace u) :: post) :=
  tw_trimLeft_adjacent_all pre post u hpre hpost hv

/-- byte level, valid UTF-8: a `TrimRight` directly before the write of a text with ink acts as
    the write of `bytes.TrimLeftFunc(text, unicode.IsSpace)` -/
theorem tw_trimRight_adjacent (pre post : List WOp) (u : Bytes) (hpre : ValidOps pre) (hpost : ValidOps post)
    (hv : ValidUtf8 u) (_hu : hasInkBytes u = true) :
    runOps (pre ++ .trimRight :: .write u :: post) = runOps (pre ++ .write (trimLeftSpace u) :: post) :=
  tw_trimRight_adjacent_all pre post u hpre hpost hv

/-- byte level, valid UTF-8: the same for any text (blank or empty included) when no `TrimRight` is pending -/
theorem tw_trimLeft_adjacent_noflag (pre post : List WOp) (u : Bytes) (hpre : ValidOps pre) (hpost : ValidOps post)
    (hv : ValidUtf8 u) (_hf : twFlagAfter pre = false) :
    runOps (pre ++ .write u :: .trimLeft :: post) = runOps (pre ++ .write (trimRightSpace u) :: post) :=
  tw_trimLeft_adjacent_all pre post u hpre hpost hv

/-- byte level, valid UTF-8: blank text before a `TrimLeft` is deleted and nothing else is (an
    empty write remains), with or without a pending `TrimRight` -/
theorem tw_trimLeft_adjacent_ws (pre post : List WOp) (u : Bytes) (hpre : ValidOps pre) (hpost : ValidOps post)
    (hv : ValidUtf8 u) (hu : hasInkBytes u = false) :
    runOps (pre ++ .write u :: .trimLeft :: post) = runOps (pre ++ .write [] :: post) := by
  rw [tw_trimLeft_adjacent_all pre post u hpre hpost hv, (tw_trimSpace_blank u hv hu).1]

/-- byte level, valid UTF-8: `TrimRight` before any text when a `TrimRight` was already pending -/
theorem tw_trimRight_adjacent_flag (pre post : List WOp) (u : Bytes) (hpre : ValidOps pre) (hpost : ValidOps post)
    (hv : ValidUtf8 u) (_hf : twFlagAfter pre = true) :
    runOps (pre ++ .trimRight :: .write u :: post) = runOps (pre ++ .write (trimLeftSpace u) :: post) :=
  tw_trimRight_adjacent_all pre post u hpre hpost hv

/-- byte level, valid UTF-8: blank text after a `TrimRight` is deleted and nothing else is; an empty write remains -/
theorem tw_trimRight_adjacent_ws (pre post : List WOp) (u : Bytes) (hpre : ValidOps pre) (hpost : ValidOps post)
    (hv : ValidUtf8 u) (hu : hasInkBytes u = false) :
    runOps (pre ++ .trimRight :: .write u :: post) = runOps (pre ++ .write [] :: post) := by
  rw [tw_trimRight_adjacent_all pre post u hpre hpost hv, (tw_trimSpace_blank u hv hu).2]

/-- byte level, ALL byte strings: `TrimRight` followed by an empty write acts as a `Flush` when no
    flag was pending (the empty write consumes the flag and flushes) -/
theorem tw_trimRight_empty_write (pre post : List WOp) (hf : twFlagAfter pre = false) :
    runOps (pre ++ .trimRight :: .write [] :: post) = runOps (pre ++ .flush :: post) := by
  rw [runOps_append, runOps_append, twOutFrom_trimRight, twOutFrom_write, twOutFrom_flush]
  generalize hT : TW.run {} pre = T at hf ⊢
  obtain ⟨⟨buf, trim⟩, calls⟩ := T
  have : trim = false := by simpa [twFlagAfter, hT] using hf
  subst this
  rfl

/-- byte level, ALL byte strings: a `TrimRight` persists across `TrimLeft` and `Flush` -/
theorem tw_trimRight_persists (pre post : List WOp) :
    runOps (pre ++ .trimRight :: .trimLeft :: post) = runOps (pre ++ .trimLeft :: .trimRight :: post) ∧
    runOps (pre ++ .trimRight :: .flush :: post) = runOps (pre ++ .flush :: .trimRight :: post) := by
  unfold runOps
  simp only [List.append_assoc, List.cons_append]
  rw [tw_run_append, tw_run_append {} pre, tw_run_append {} pre, tw_run_append {} pre]
  simp [TW.run, TW.step]

/-- byte level, ALL byte strings: after a write the buffer holds that write only -/
theorem tw_buffer_is_last_write (pre : List WOp) (b : Bytes) :
    (TW.run {} (pre ++ [.write b])).1 =
      { buf := if twFlagAfter pre then trimLeftSpace b else b, trim := false } := by
  rw [tw_run_append]; rfl

/-- byte level, ALL byte strings (valid UTF-8 or not) — **the repair (2593661)**: a `TrimLeft` sees
    the last write only; everything up to and including the earlier write `a` is output as if the
    list ended there, then `bytes.TrimRightFunc(b, unicode.IsSpace)`, then the output of `post` -/
theorem tw_trimLeft_sees_last_write_only (pre post : List WOp) (a b : Bytes) :
    runOps (pre ++ .write a :: .write b :: .trimLeft :: post) =
      runOps (pre ++ [.write a]) ++ trimRightSpace b ++ runOps post := by
  rw [runOps_append, runOps_append, twOutFrom_write, twOutFrom_write, twOutFrom_trimLeft, twOutFrom_write,
    twOutFrom_nil, runOps_eq_twOutFrom]
  simp only [List.append_assoc, Bool.false_eq_true, if_false]

/-- byte level, ALL byte strings: the same with a `TrimRight` pending before `write b`; `b` is
    stripped on both sides, `a` is output in full -/
theorem tw_trimLeft_sees_last_write_only_flag (pre post : List WOp) (a b : Bytes) :
    runOps (pre ++ .write a :: .trimRight :: .write b :: .trimLeft :: post) =
      runOps (pre ++ [.write a]) ++ trimRightSpace (trimLeftSpace b) ++ runOps post := by
  rw [runOps_append, runOps_append, twOutFrom_write, twOutFrom_trimRight, twOutFrom_write, twOutFrom_trimLeft,
    twOutFrom_write, twOutFrom_nil, runOps_eq_twOutFrom]
  simp only [List.append_assoc, if_true]

/-- byte level: blank valid UTF-8 between two hyphens costs the earlier write nothing -/
theorem tw_trimLeft_keeps_earlier_write (pre post : List WOp) (a b : Bytes) (hv : ValidUtf8 b)
    (hb : hasInkBytes b = false) :
    runOps (pre ++ .write a :: .trimRight :: .write b :: .trimLeft :: post) =
      runOps (pre ++ [.write a]) ++ runOps post := by
  rw [tw_trimLeft_sees_last_write_only_flag, (tw_trimSpace_blank b hv hb).2]
  simp [trimRightSpace, trimRightSpaceRevAux]

/-- the operation list of the counterexample: `x 0xC2`, TrimRight, `␠ 0xA0 y` -/
def twBadOps : List WOp := [.write [0x78, 0xC2], .trimRight, .write [0x20, 0xA0, 0x79]]

/-- On INVALID UTF-8 the byte-level erasure law is false, on the repaired machine too (the
    join happens in the OUTPUT, not in the buffer: `x 0xC2` is flushed, then `0xA0 y` follows it):
    stripping the ASCII space joins `0xC2` and `0xA0` into U+00A0, a whitespace rune that neither
    write contained; with the trim the stripped output is `xy`, without it `x U+FFFD U+FFFD y`. So
    `ValidOps` cannot be dropped from `tw_trim_only_ws` / `tw_trim_subseq`. -/
theorem tw_erasure_fails_on_invalid_utf8 :
    runOps twBadOps = [0x78, 0xC2, 0xA0, 0x79] ∧
    runOps (eraseTrims twBadOps) = [0x78, 0xC2, 0x20, 0xA0, 0x79] ∧
    stripSpaceBytes (runOps twBadOps) = [0x78, 0x79] ∧
    stripSpaceBytes (runOps (eraseTrims twBadOps)) = [0x78, 0xEF, 0xBF, 0xBD, 0xEF, 0xBF, 0xBD, 0x79] ∧
    stripSpaceBytes (runOps twBadOps) ≠ stripSpaceBytes (runOps (eraseTrims twBadOps)) ∧
    ¬ ValidOps twBadOps := by
  refine ⟨by decide, by decide, by decide, by decide, by decide, ?_⟩
  intro h
  have hv := h [0x78, 0xC2] (by simp [twBadOps])
  rw [← validUtf8B_iff] at hv
  revert hv; decide

/-! ### non-vacuity (bytes) -/

section examples_bytes
-- `é␠` TrimLeft TrimRight `␠U+00A0 x ␠` (NBSP = C2 A0 is whitespace for Go)
private def opsB : List WOp :=
  [.write [0xC3, 0xA9, 0x20], .trimLeft, .trimRight, .write [0x20, 0xC2, 0xA0, 0x78, 0x20]]

private theorem opsB_valid : ValidOps opsB := by
  intro b hb
  rw [← validUtf8B_iff]
  simp only [opsB, List.mem_cons, WOp.write.injEq, List.not_mem_nil, or_false, reduceCtorEq, false_or] at hb
  rcases hb with rfl | rfl <;> decide

example : runOps opsB = [0xC3, 0xA9, 0x78, 0x20] := by decide
example : runOps (eraseTrims opsB) = [0xC3, 0xA9, 0x20, 0x20, 0xC2, 0xA0, 0x78, 0x20] := by decide
example : stripSpaceBytes (runOps opsB) = [0xC3, 0xA9, 0x78] := by decide
example : stripSpaceBytes (runOps opsB) = stripSpaceBytes (runOps (eraseTrims opsB)) := tw_trim_only_ws opsB opsB_valid
example : WsDeletion isSpaceRune (decodeRunes (runOps (eraseTrims opsB))) (decodeRunes (runOps opsB)) :=
  tw_trim_subseq opsB opsB_valid
-- the bridge on a concrete rune-level list: U+00E9, space | TrimLeft | U+3000 (ideographic space), U+1F600
example : runOps ([GOp.write [0xE9, 0x20], .trimLeft, .trimRight, .write [0x3000, 0x1F600]].map encOp)
    = [0xC3, 0xA9, 0xF0, 0x9F, 0x98, 0x80] := by decide
example : ScalarOp (GOp.write [0xE9, 0x20, 0x3000, 0x1F600]) := by
  intro r hr; simp at hr; rcases hr with rfl | rfl | rfl | rfl <;> decide
-- no_trim_identity holds for invalid bytes too
example : eraseTrims [WOp.write [0xC2], .flush, .write [0x20, 0xA0]] = [WOp.write [0xC2], .flush, .write [0x20, 0xA0]]
    ∧ runOps [WOp.write [0xC2], .flush, .write [0x20, 0xA0]] = [0xC2, 0x20, 0xA0] := by decide
-- adjacency at byte level
example : hasInkBytes [0x20, 0xC2, 0xA0, 0x78, 0x20] = true ∧
    trimRightSpace [0x20, 0xC2, 0xA0, 0x78, 0x20] = [0x20, 0xC2, 0xA0, 0x78] ∧
    trimLeftSpace [0x20, 0xC2, 0xA0, 0x78, 0x20] = [0x78, 0x20] := by decide
-- blank text (space, NBSP) between a pending TrimRight and a TrimLeft: deleted, and `x␠` KEEPS its blank
-- (tw_trimLeft_adjacent_ws, tw_trimLeft_keeps_earlier_write; before the repair the result was `xy`)
example : twFlagAfter [.write [0x78, 0x20], .trimRight] = true ∧ hasInkBytes [0x20, 0xC2, 0xA0] = false ∧
    runOps ([.write [0x78, 0x20], .trimRight] ++ .write [0x20, 0xC2, 0xA0] :: .trimLeft :: [.write [0x79]])
      = [0x78, 0x20, 0x79] ∧
    runOps ([.write [0x78, 0x20], .trimRight] ++ .write [] :: [.write [0x79]]) = [0x78, 0x20, 0x79] := by decide
-- no pending flag: the blank text is deleted, `x␠` keeps its blank
example : twFlagAfter [.write [0x78, 0x20]] = false ∧
    runOps ([.write [0x78, 0x20]] ++ .write [0x20, 0xC2, 0xA0] :: .trimLeft :: [.write [0x79]])
      = [0x78, 0x20, 0x79] := by decide
-- the empty write consumed the flag (`␠y` keeps its blank) and flushed (`x␠` is out of reach of the
-- TrimLeft, as after a Flush); and a TrimRight survives a TrimLeft
example : runOps ([.write [0x78]] ++ .trimRight :: .write [] :: [.write [0x20, 0x79]]) = [0x78, 0x20, 0x79] ∧
    runOps ([.write [0x78, 0x20]] ++ .trimRight :: .write [] :: [.trimLeft, .write [0x79]]) = [0x78, 0x20, 0x79] ∧
    runOps ([.write [0x78, 0x20]] ++ .flush :: [.trimLeft, .write [0x79]]) = [0x78, 0x20, 0x79] ∧
    runOps ([.write [0x78, 0x20]] ++ .trimRight :: .trimLeft :: [.write [0x20, 0x79]]) = [0x78, 0x79] := by decide
-- tw_trimLeft_sees_last_write_only on INVALID bytes: `C2 ␠` | `A0 ␠` TrimLeft `y`
example : runOps ([] ++ .write [0xC2, 0x20] :: .write [0xA0, 0x20] :: .trimLeft :: [.write [0x79]])
      = [0xC2, 0x20, 0xA0, 0x79] ∧
    runOps ([] ++ [.write [0xC2, 0x20]]) = [0xC2, 0x20] ∧ trimRightSpace [0xA0, 0x20] = [0xA0] := by decide
-- tw_trimLeft_sees_last_write_only_flag: `é␠` -}} `␠U+00A0` {{- `y`
example : runOps ([] ++ .write [0xC3, 0xA9, 0x20] :: .trimRight :: .write [0x20, 0xC2, 0xA0] :: .trimLeft :: [.write [0x79]])
      = [0xC3, 0xA9, 0x20, 0x79] ∧ trimRightSpace (trimLeftSpace [0x20, 0xC2, 0xA0]) = [] := by decide
end examples_bytes

/-! ## Part C — the underlying write calls (for C20) -/

/-- the bytes written are the concatenation of the underlying write calls -/
theorem writeCalls_flatten (ops : List WOp) : (writeCalls ops).flatten = runOps ops := rfl

/-- every trim-writer operation issues at most one call of the underlying writer -/
theorem tw_step_at_most_one_call (t : TW) (op : WOp) : (t.step op).2.length ≤ 1 :=
  tw_step_calls_le_one t op

/-- hence an operation list (with the final flush) issues at most one call per operation -/
theorem writeCalls_length_le (ops : List WOp) : (writeCalls ops).length ≤ ops.length + 1 := by
  have := tw_run_calls_le (ops ++ [.flush]) {}
  simpa [writeCalls] using this

/-- only `TrimLeft` can issue an empty write: the calls of `Write` and `Flush` are non-empty -/
theorem tw_step_calls_nonempty (t : TW) (op : WOp) (h : op ≠ .trimLeft) : ∀ c ∈ (t.step op).2, c ≠ [] := by
  cases op with
  | trimLeft => exact absurd rfl h
  | trimRight => simp [TW.step]
  | write b =>
    simp only [TW.step]
    cases ht : t.trim <;> cases hb : t.buf <;> simp
  | flush =>
    simp only [TW.step]
    cases hb : t.buf <;> simp

/-- the calls of a whole run are the calls of its operations in order -/
theorem writeCalls_append (xs ys : List WOp) :
    (TW.run {} (xs ++ ys)).2 = (TW.run {} xs).2 ++ (TW.run (TW.run {} xs).1 ys).2 := by
  rw [tw_run_append]

section examples_calls
example : writeCalls [.write [0x78, 0x20], .trimLeft, .write [0x79], .flush, .trimLeft]
    = [[0x78], [0x79], []] := by decide
example : (TW.step { buf := [0x78], trim := false } (.write [0x79])).2 = [[0x78]] := by decide
end examples_calls
