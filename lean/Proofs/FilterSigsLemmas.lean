import Liquid.Call
/-!
# Registries of filter signatures: when two tables define the same name → signature map
(definitions and lemmas for `Proofs/FilterSigs.lean`, the obligation of translator T2)
-/

/-- no two entries have the same name -/
def namesDistinct : List FilterSig → Bool
  | [] => true
  | x :: xs => xs.all (fun y => !(y.name == x.name)) && namesDistinct xs

/-- two tables define the same registry -/
def sameRegistry (a b : List FilterSig) : Bool :=
  namesDistinct a && namesDistinct b && a.all (fun x => b.contains x) && b.all (fun x => a.contains x)

/-- lookup by name, as `lookupSig` does on `stdFilters` -/
def findSig (l : List FilterSig) (name : Bytes) : Option FilterSig := l.find? (·.name == name)

theorem namesDistinct_unique : ∀ (l : List FilterSig), namesDistinct l = true →
    ∀ x y, x ∈ l → y ∈ l → x.name = y.name → x = y := by
  intro l
  induction l with
  | nil => intro _ x y hx; cases hx
  | cons z zs ih =>
    intro h x y hx hy hn
    simp only [namesDistinct, Bool.and_eq_true, List.all_eq_true, Bool.not_eq_eq_eq_not, Bool.not_true,
      beq_eq_false_iff_ne, ne_eq] at h
    rcases List.mem_cons.1 hx with hxz | hx
    · rcases List.mem_cons.1 hy with hyz | hy
      · rw [hxz, hyz]
      · exact absurd (hxz ▸ hn.symm) (h.1 y hy)
    · rcases List.mem_cons.1 hy with hyz | hy
      · exact absurd (hyz ▸ hn) (h.1 x hx)
      · exact ih h.2 x y hx hy hn

theorem findSig_some_iff (l : List FilterSig) (hd : namesDistinct l = true) (name : Bytes) (x : FilterSig) :
    findSig l name = some x ↔ x ∈ l ∧ x.name = name := by
  constructor
  · intro h
    exact ⟨List.mem_of_find?_eq_some h, by simpa using List.find?_some h⟩
  · rintro ⟨hx, hn⟩
    cases hf : findSig l name with
    | none =>
      have := List.find?_eq_none.1 hf x hx
      simp [hn] at this
    | some y =>
      have hy := List.mem_of_find?_eq_some hf
      have hyn : y.name = name := by simpa using List.find?_some hf
      rw [namesDistinct_unique l hd y x hy hx (hyn.trans hn.symm)]

/-- tables that define the same registry answer every lookup alike -/
theorem sameRegistry_findSig (a b : List FilterSig) (h : sameRegistry a b = true) (name : Bytes) :
    findSig a name = findSig b name := by
  simp only [sameRegistry, Bool.and_eq_true, List.all_eq_true, List.contains_iff_mem] at h
  obtain ⟨⟨⟨ha, hb⟩, hab⟩, hba⟩ := h
  cases hf : findSig a name with
  | some x =>
    obtain ⟨hx, hn⟩ := (findSig_some_iff a ha name x).1 hf
    exact ((findSig_some_iff b hb name x).2 ⟨hab x hx, hn⟩).symm
  | none =>
    cases hg : findSig b name with
    | none => rfl
    | some y =>
      obtain ⟨hy, hn⟩ := (findSig_some_iff b hb name y).1 hg
      rw [(findSig_some_iff a ha name y).2 ⟨hba y hy, hn⟩] at hf
      cases hf

