import Proofs.ScanLemmas
/-!
# C05 — literal text, raw blocks and string values pass through byte-for-byte

Tokenizer part (this file, first section): for every delimiter set, every source and every
start line, the token sources concatenated in order equal the input, each located token
carries the start line plus the number of newlines before it, and a source in which no
delimiter opens is a single text token.
-/

theorem tokensOfMatch_srcs (d : Delims) (src : Bytes) (ts : Nat) (caps : Caps) (line : Nat)
    (h : d.ol <+: src ∨ d.tl <+: src ∨ src = []) :
    srcs (tokensOfMatch d src ts caps line) = src := by
  unfold tokensOfMatch
  split
  · simp only [srcs_append, srcs_cons, srcs_nil]
    split <;> split <;> simp
  · next h1 =>
    split
    · simp only [srcs_append, srcs_cons, srcs_nil]
      split <;> split <;> simp
    · next h2 =>
      rcases h with h | h | h
      · exact absurd ((isPrefixOfB_iff _ _).mpr h) h1
      · exact absurd ((isPrefixOfB_iff _ _).mpr h) h2
      · simp [h]

theorem linesOk_optTrim (l : Nat) (c : Bool) (ty : TokTy) (h : ty = .trimL ∨ ty = .trimR) :
    linesOk l (if c = true then [({ ty := ty } : Token)] else []) = true := by
  rcases h with rfl | rfl <;> cases c <;> simp [linesOk, Token.isTrim]

theorem srcs_optTrim (c : Bool) (ty : TokTy) :
    srcs (if c = true then [({ ty := ty } : Token)] else []) = [] := by
  cases c <;> simp

theorem tokensOfMatch_lines (d : Delims) (src : Bytes) (ts : Nat) (caps : Caps) (line : Nat) :
    linesOk line (tokensOfMatch d src ts caps line) = true := by
  unfold tokensOfMatch
  split
  · simp only [linesOk_append, srcs_optTrim, srcs_append, linesOk_optTrim _ _ _ (Or.inl rfl),
      linesOk_optTrim _ _ _ (Or.inr rfl), linesOk, Token.isTrim]
    simp [countNL]
  · split
    · simp only [linesOk_append, srcs_optTrim, srcs_append, linesOk_optTrim _ _ _ (Or.inl rfl),
        linesOk_optTrim _ _ _ (Or.inr rfl), linesOk, Token.isTrim]
      simp [countNL]
    · simp [linesOk]

theorem prefix_take_of_le {l s : Bytes} (h : l <+: s) (n : Nat) (hn : l.length ≤ n) : l <+: s.take n :=
  List.prefix_take_iff.mpr ⟨h, hn⟩

/-- a text token for the first `a` bytes of `rest` (none when there are none), then tokens that
    account for the remainder -/
theorem lexTail_spec (toks : List Token) (rest : Bytes) (a l : Nat)
    (hrec : srcs toks = rest.drop a ∧ linesOk (l + countNL (rest.take a)) toks = true) :
    srcs ((if (rest.take a).isEmpty then [] else [({ ty := .text, line := l, source := rest.take a } : Token)]) ++ toks) = rest ∧
    linesOk l ((if (rest.take a).isEmpty then [] else [({ ty := .text, line := l, source := rest.take a } : Token)]) ++ toks) = true := by
  split
  · next h =>
    have h0 : rest.take a = [] := List.isEmpty_iff.mp h
    rw [h0] at hrec
    have hr : rest.drop a = rest := by
      have := List.take_append_drop a rest
      rw [h0, List.nil_append] at this; exact this
    simp only [List.nil_append]
    exact ⟨by rw [hrec.1, hr], by simpa [countNL] using hrec.2⟩
  · constructor
    · simp only [srcs_append, srcs_cons, srcs_nil, List.append_nil, hrec.1, List.take_append_drop]
    · rw [linesOk_append]
      simp only [linesOk, Token.isTrim, srcs_cons, srcs_nil, List.append_nil, hrec.2]
      simp

/-- the invariant of the match loop, for any regexp all of whose matches begin with an
    opening delimiter -/
theorem scanLoop_spec (mfuel : Nat) (re : Re) (d : Delims) (hre : StartsWithDelim re d) :
    ∀ (n : Nat) (s : Bytes) (p line : Nat),
      srcs (scanLoop mfuel re d n s p line) = s ∧ linesOk line (scanLoop mfuel re d n s p line) = true := by
  intro n
  induction n with
  | zero =>
    intro s p line
    unfold scanLoop
    split <;> simp_all [linesOk, Token.isTrim]
  | succ n ih =>
    intro s p line
    unfold scanLoop
    split
    · split <;> simp_all [linesOk, Token.isTrim]
    · next skip e caps hs =>
      obtain ⟨_, hlt, hm⟩ := Re.search_spec mfuel re s p 0 skip e caps hs
      simp only [Nat.sub_zero] at hlt hm
      have hsplit : s.take skip ++ ((s.drop skip).take (e - (p + skip)) ++ s.drop (skip + (e - (p + skip)))) = s := by
        rw [← List.drop_drop, List.take_append_drop, List.take_append_drop]
      have hpre : d.ol <+: (s.drop skip).take (e - (p + skip)) ∨ d.tl <+: (s.drop skip).take (e - (p + skip))
          ∨ (s.drop skip).take (e - (p + skip)) = [] := by
        rcases hre mfuel _ _ _ _ hm with ⟨h1, h2⟩ | ⟨h1, h2⟩
        · exact Or.inl (prefix_take_of_le h1 _ (by omega))
        · exact Or.inr (Or.inl (prefix_take_of_le h1 _ (by omega)))
      have hsrc := tokensOfMatch_srcs d _ (p + skip) caps (line + countNL (s.take skip)) hpre
      have hlin := tokensOfMatch_lines d ((s.drop skip).take (e - (p + skip))) (p + skip) caps (line + countNL (s.take skip))
      simp only
      generalize lexSkip mfuel d (tagNameOfMatch d ((s.drop skip).take (e - (p + skip))) (p + skip) caps)
        (s.drop (skip + (e - (p + skip)))) e = a
      have htail := lexTail_spec _ (s.drop (skip + (e - (p + skip)))) a
        (line + countNL (s.take skip) + countNL ((s.drop skip).take (e - (p + skip))))
        (ih ((s.drop (skip + (e - (p + skip)))).drop a) (e + a)
          (line + countNL (s.take skip) + countNL ((s.drop skip).take (e - (p + skip))) +
            countNL ((s.drop (skip + (e - (p + skip)))).take a)))
      have hpresrc : srcs (if (s.take skip).isEmpty = true then []
          else [({ ty := .text, line := line, source := s.take skip } : Token)]) = s.take skip := by
        split
        · next h => simp [List.isEmpty_iff.mp h]
        · simp
      constructor
      · simp only [srcs_append, hsrc]
        rw [hpresrc]
        split
        · split
          · next h => rw [List.isEmpty_iff.mp h] at hsplit; simpa using hsplit
          · simpa using hsplit
        · rw [htail.1]; simpa [List.append_assoc] using hsplit
      · rw [linesOk_append, linesOk_append, srcs_append, hsrc]
        rw [hpresrc, hlin, countNL_append, ← Nat.add_assoc]
        simp only [Bool.and_eq_true, Bool.and_true]
        constructor
        · split <;> simp [linesOk, Token.isTrim]
        · split
          · split <;> simp [linesOk, Token.isTrim]
          · exact htail.2

/-- **C05 (tokenising loses nothing).** For every delimiter list, source and start line the
    token sources concatenated in order equal the input. -/
theorem scan_partition (delims : List Bytes) (src : Bytes) (line : Nat) :
    ((scan delims src line).map Token.source).flatten = src :=
  (scanLoop_spec _ _ _ (tokenRe_startsWithDelim _) _ src 0 line).1

/-- **C05 (line numbers).** Each located token's line is the starting line plus the newlines
    in the sources of the tokens before it. -/
theorem scan_lines (delims : List Bytes) (src : Bytes) (line : Nat) :
    linesOk line (scan delims src line) = true :=
  (scanLoop_spec _ _ _ (tokenRe_startsWithDelim _) _ src 0 line).2

/-- the indexed reading of `linesOk` -/
theorem linesOk_get (l : Nat) (ts : List Token) (h : linesOk l ts = true) (i : Nat) (t : Token)
    (hi : ts[i]? = some t) (ht : t.isTrim = false) : t.line = l + countNL (srcs (ts.take i)) := by
  induction ts generalizing l i with
  | nil => simp at hi
  | cons x xs ih =>
    simp only [linesOk, Bool.and_eq_true, Bool.or_eq_true, beq_iff_eq] at h
    cases i with
    | zero =>
      simp only [List.getElem?_cons_zero, Option.some.injEq] at hi
      subst hi
      rcases h.1 with h1 | h1
      · simp [ht] at h1
      · simp [h1, countNL]
    | succ i =>
      simp only [List.getElem?_cons_succ] at hi
      have := ih _ h.2 i hi
      simp only [List.take_succ_cons, srcs_cons, countNL_append, this, Nat.add_assoc]

theorem scan_line_at (delims : List Bytes) (src : Bytes) (line i : Nat) (t : Token)
    (hi : (scan delims src line)[i]? = some t) (ht : t.isTrim = false) :
    t.line = line + countNL (srcs ((scan delims src line).take i)) :=
  linesOk_get line _ (scan_lines delims src line) i t hi ht

/-- a source in which the regexp finds nothing is a single text token (none when empty) -/
theorem scanLoop_text_only (mfuel : Nat) (re : Re) (d : Delims) (n : Nat) (s : Bytes) (p line : Nat)
    (h : re.search mfuel s p 0 = none) :
    scanLoop mfuel re d n s p line = if s.isEmpty then [] else [{ ty := .text, line := line, source := s }] := by
  cases n with
  | zero => rfl
  | succ n => unfold scanLoop; rw [h]

theorem not_infix_of_no_prefix_drop (l s : Bytes) (h : ¬ l <:+: s) (i : Nat) : ¬ l <+: s.drop i := by
  intro hp
  apply h
  obtain ⟨t, ht⟩ := hp
  exact ⟨s.take i, t, by rw [List.append_assoc, ht, List.take_append_drop]⟩

/-- **C05 (no delimiter opens ⇒ one text token).** -/
theorem scan_no_open_delim (delims : List Bytes) (src : Bytes) (line : Nat)
    (hol : ¬ (Delims.ofList delims).ol <:+: src) (htl : ¬ (Delims.ofList delims).tl <:+: src) :
    scan delims src line = if src.isEmpty then [] else [{ ty := .text, line := line, source := src }] := by
  unfold scan scanWith
  apply scanLoop_text_only
  -- no position admits a match, because a match begins with an opening delimiter
  generalize hd : Delims.ofList delims = d at hol htl
  have hnone : ∀ i, i < src.length → (tokenRe d).matchAt (src.length + 1) (src.drop i) (0 + i) = none := by
    intro i _
    cases hm : (tokenRe d).matchAt (src.length + 1) (src.drop i) (0 + i) with
    | none => rfl
    | some r =>
      obtain ⟨e, c⟩ := r
      rcases tokenRe_startsWithDelim d _ _ _ _ _ hm with ⟨h1, _⟩ | ⟨h1, _⟩
      · exact absurd h1 (not_infix_of_no_prefix_drop _ _ hol i)
      · exact absurd h1 (not_infix_of_no_prefix_drop _ _ htl i)
  cases hs : (tokenRe d).search (src.length + 1) src 0 0 with
  | none => rfl
  | some r =>
    obtain ⟨n, e, c⟩ := r
    obtain ⟨_, hlt, hm⟩ := Re.search_spec _ _ _ _ _ _ _ _ hs
    simp only [Nat.sub_zero] at hlt hm
    rw [hnone n hlt] at hm
    cases hm

/-! Non-vacuity: concrete sources on which the statements speak about several tokens. -/
-- "a\n{{- x }}\n{% if y -%} b" scans to 7 tokens (text, trimL, obj, text, tag, trimR, text)
example : (scan [] [97, 10, 123, 123, 45, 32, 120, 32, 125, 125, 10, 123, 37, 32, 105, 102, 32, 121, 32, 45, 37, 125, 32, 98] 1).length = 7 := by decide
-- "plain } % text" contains no opening delimiter
example : ¬ (Delims.ofList []).ol <:+: ([112, 108, 97, 105, 110, 32, 125, 32, 37, 32, 116, 101, 120, 116] : Bytes) := by decide
