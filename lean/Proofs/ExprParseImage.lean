import Proofs.ExprScanImage
/-!
# The trees the parser returns (helper lemmas for `Proofs/C08.lean`)

Every leaf of the tree the parser builds (a literal, a variable, a property name, a filter name) is the content of
one of the tokens it was given (`parse_lvAll`: a predicate that holds for all the tokens holds for all the leaves,
`Expr.lvAll`). The scanner's tokens are well formed (`lex_scanOK`), so the parser's image lies inside
`Expr.printable` as soon as the values of the float literals are printable (`printable_of_parse`), which they
always are (`lex_floatOK`, `printable_of_parse_all`).
-/

set_option linter.unusedSimpArgs false

mutual
/-- `P` holds for every leaf of the tree, presented as the token it is printed as -/
def Expr.lvAll (P : ETok → Bool) : Expr → Bool
  | .lit v => P (.lit v)
  | .var x => P (.ident x)
  | .prop e n => e.lvAll P && P (.property n)
  | .index e i => e.lvAll P && i.lvAll P
  | .range a b => a.lvAll P && b.lvAll P
  | .rel _ a b => a.lvAll P && b.lvAll P
  | .and_ a b => a.lvAll P && b.lvAll P
  | .or_ a b => a.lvAll P && b.lvAll P
  | .filter e n args => e.lvAll P && (if args.isEmpty then P (.ident n) else P (.keyword n)) && Expr.lvAllL P args
def Expr.lvAllL (P : ETok → Bool) : List Expr → Bool
  | [] => true
  | a :: as => a.lvAll P && Expr.lvAllL P as
end

/-- the statements about the nine parser functions, at one fuel -/
structure PI (P : ETok → Bool) (f : Nat) : Prop where
  ex : ∀ toks e r, parseExpr f toks = some (e, r) → toks.all P = true → e.lvAll P = true ∧ r.all P = true
  pr : ∀ toks e r, parsePrimary f toks = some (e, r) → toks.all P = true → e.lvAll P = true ∧ r.all P = true
  po : ∀ e0 toks e r, parsePostfix f e0 toks = some (e, r) → e0.lvAll P = true → toks.all P = true →
    e.lvAll P = true ∧ r.all P = true
  fi : ∀ e0 toks e r, parseFilters f e0 toks = some (e, r) → e0.lvAll P = true → toks.all P = true →
    e.lvAll P = true ∧ r.all P = true
  pa : ∀ toks as r, parseParams f toks = some (as, r) → toks.all P = true →
    Expr.lvAllL P as = true ∧ r.all P = true ∧ as.isEmpty = false
  rf : ∀ e0 toks e r, parseRelFrom f e0 toks = some (e, r) → e0.lvAll P = true → toks.all P = true →
    e.lvAll P = true ∧ r.all P = true
  cf : ∀ e0 toks e r, parseCondFrom f e0 toks = some (e, r) → e0.lvAll P = true → toks.all P = true →
    e.lvAll P = true ∧ r.all P = true
  ct : ∀ e0 toks e r, parseCondTail f e0 toks = some (e, r) → e0.lvAll P = true → toks.all P = true →
    e.lvAll P = true ∧ r.all P = true
  rl : ∀ toks e r, parseRel f toks = some (e, r) → toks.all P = true → e.lvAll P = true ∧ r.all P = true

theorem pi_zero (P : ETok → Bool) : PI P 0 where
  ex := by intro _ _ _ h; simp [parseExpr] at h
  pr := by intro _ _ _ h; simp [parsePrimary] at h
  po := by intro _ _ _ _ h; simp [parsePostfix] at h
  fi := by intro _ _ _ _ h; simp [parseFilters] at h
  pa := by intro _ _ _ h; simp [parseParams] at h
  rf := by intro _ _ _ _ h; simp [parseRelFrom] at h
  cf := by intro _ _ _ _ h; simp [parseCondFrom] at h
  ct := by intro _ _ _ _ h; simp [parseCondTail] at h
  rl := by intro _ _ _ h; simp [parseRel] at h

theorem some_pair_inj {α β : Type} {a a' : α} {b b' : β} (h : some (a, b) = some (a', b')) : a = a' ∧ b = b' := by
  cases h; exact ⟨rfl, rfl⟩

theorem pi_succ (P : ETok → Bool) (f : Nat) (ih : PI P f) : PI P (f + 1) where
  ex := by
    intro toks e r h ht
    rw [parseExpr] at h
    split at h
    · rename_i e1 r1 h1
      obtain ⟨a, b⟩ := ih.pr _ _ _ h1 ht
      exact ih.po _ _ _ _ h a b
    · cases h
  pr := by
    intro toks e r h ht
    rw [parsePrimary.eq_def] at h
    simp only at h
    split at h
    · obtain ⟨rfl, rfl⟩ := some_pair_inj h
      simp only [List.all_cons, Bool.and_eq_true] at ht
      exact ⟨by rw [Expr.lvAll]; exact ht.1, ht.2⟩
    · obtain ⟨rfl, rfl⟩ := some_pair_inj h
      simp only [List.all_cons, Bool.and_eq_true] at ht
      exact ⟨by rw [Expr.lvAll]; exact ht.1, ht.2⟩
    · simp only [List.all_cons, Bool.and_eq_true] at ht
      split at h
      · rename_i a r1 h1
        obtain ⟨ha, hr1⟩ := ih.ex _ _ _ h1 ht.2
        simp only [List.all_cons, Bool.and_eq_true] at hr1
        split at h
        · rename_i b r2 h2
          obtain ⟨hb, hr2⟩ := ih.ex _ _ _ h2 hr1.2
          simp only [List.all_cons, Bool.and_eq_true] at hr2
          obtain ⟨rfl, rfl⟩ := some_pair_inj h
          exact ⟨by rw [Expr.lvAll, ha, hb]; rfl, hr2.2⟩
        · cases h
      · rename_i a r1 _ h1
        obtain ⟨ha, hr1⟩ := ih.ex _ _ _ h1 ht.2
        split at h
        · rename_i c r2 h2
          obtain ⟨hc, hr2⟩ := ih.cf _ _ _ _ h2 ha hr1
          simp only [List.all_cons, Bool.and_eq_true] at hr2
          obtain ⟨rfl, rfl⟩ := some_pair_inj h
          exact ⟨hc, hr2.2⟩
        · cases h
      · cases h
    · cases h
  po := by
    intro e0 toks e r h he ht
    rw [parsePostfix.eq_def] at h
    simp only at h
    split at h
    · simp only [List.all_cons, Bool.and_eq_true] at ht
      exact ih.po _ _ _ _ h (by rw [Expr.lvAll, he, ht.1]; rfl) ht.2
    · simp only [List.all_cons, Bool.and_eq_true] at ht
      split at h
      · rename_i i r1 h1
        obtain ⟨hi, hr1⟩ := ih.ex _ _ _ h1 ht.2
        simp only [List.all_cons, Bool.and_eq_true] at hr1
        exact ih.po _ _ _ _ h (by rw [Expr.lvAll, he, hi]; rfl) hr1.2
      · cases h
    · obtain ⟨rfl, rfl⟩ := some_pair_inj h
      exact ⟨he, ht⟩
  fi := by
    intro e0 toks e r h he ht
    rw [parseFilters.eq_def] at h
    simp only at h
    split at h
    · simp only [List.all_cons, Bool.and_eq_true] at ht
      exact ih.fi _ _ _ _ h (by rw [Expr.lvAll, he]; simp [ht.2.1, Expr.lvAllL]) ht.2.2
    · simp only [List.all_cons, Bool.and_eq_true] at ht
      split at h
      · rename_i args r1 h1
        obtain ⟨ha, hr1, hne⟩ := ih.pa _ _ _ h1 ht.2.2
        exact ih.fi _ _ _ _ h (by rw [Expr.lvAll, he, ha, hne]; simp [ht.2.1]) hr1
      · cases h
    · cases h
    · obtain ⟨rfl, rfl⟩ := some_pair_inj h
      exact ⟨he, ht⟩
  pa := by
    intro toks as r h ht
    rw [parseParams.eq_def] at h
    simp only at h
    split at h
    · rename_i a r0 h1
      obtain ⟨ha, hr0⟩ := ih.ex _ _ _ h1 ht
      simp only [List.all_cons, Bool.and_eq_true] at hr0
      split at h
      · rename_i as' r1 h2
        obtain ⟨has, hr1, _⟩ := ih.pa _ _ _ h2 hr0.2
        obtain ⟨rfl, rfl⟩ := some_pair_inj h
        exact ⟨by rw [Expr.lvAllL, ha, has]; rfl, hr1, rfl⟩
      · cases h
    · rename_i a r0 _ h1
      obtain ⟨ha, hr0⟩ := ih.ex _ _ _ h1 ht
      obtain ⟨rfl, rfl⟩ := some_pair_inj h
      exact ⟨by rw [Expr.lvAllL, ha]; rfl, hr0, rfl⟩
    · cases h
  rf := by
    intro e0 toks e r h he ht
    rw [parseRelFrom.eq_def] at h
    simp only at h
    split at h
    · rename_i t r0
      split at h
      · rename_i op _
        simp only [List.all_cons, Bool.and_eq_true] at ht
        split at h
        · rename_i b r1 h1
          obtain ⟨hb, hr1⟩ := ih.ex _ _ _ h1 ht.2
          obtain ⟨rfl, rfl⟩ := some_pair_inj h
          exact ⟨by rw [Expr.lvAll, he, hb]; rfl, hr1⟩
        · cases h
      · exact ih.fi _ _ _ _ h he ht
    · obtain ⟨rfl, rfl⟩ := some_pair_inj h
      exact ⟨he, ht⟩
  cf := by
    intro e0 toks e r h he ht
    rw [parseCondFrom] at h
    split at h
    · rename_i c r1 h1
      obtain ⟨hc, hr1⟩ := ih.rf _ _ _ _ h1 he ht
      exact ih.ct _ _ _ _ h hc hr1
    · cases h
  ct := by
    intro e0 toks e r h he ht
    rw [parseCondTail.eq_def] at h
    simp only at h
    split at h
    · simp only [List.all_cons, Bool.and_eq_true] at ht
      split at h
      · rename_i d r1 h1
        obtain ⟨hd, hr1⟩ := ih.rl _ _ _ h1 ht.2
        exact ih.ct _ _ _ _ h (by rw [Expr.lvAll, he, hd]; rfl) hr1
      · cases h
    · simp only [List.all_cons, Bool.and_eq_true] at ht
      split at h
      · rename_i d r1 h1
        obtain ⟨hd, hr1⟩ := ih.rl _ _ _ h1 ht.2
        exact ih.ct _ _ _ _ h (by rw [Expr.lvAll, he, hd]; rfl) hr1
      · cases h
    · obtain ⟨rfl, rfl⟩ := some_pair_inj h
      exact ⟨he, ht⟩
  rl := by
    intro toks e r h ht
    rw [parseRel] at h
    split at h
    · rename_i a r1 h1
      obtain ⟨ha, hr1⟩ := ih.ex _ _ _ h1 ht
      exact ih.rf _ _ _ _ h ha hr1
    · cases h

theorem pi (P : ETok → Bool) : ∀ f, PI P f
  | 0 => pi_zero P
  | f + 1 => pi_succ P f (pi P f)

theorem parseCond_lvAll (P : ETok → Bool) (f : Nat) (toks : List ETok) (e : Expr) (r : List ETok)
    (h : parseCond f toks = some (e, r)) (ht : toks.all P = true) : e.lvAll P = true := by
  unfold parseCond at h
  split at h
  · rename_i a r1 h1
    obtain ⟨ha, hr1⟩ := (pi P f).ex _ _ _ h1 ht
    exact ((pi P f).cf _ _ _ _ h ha hr1).1
  · cases h

/-- **the leaves of a parsed expression come from the tokens** -/
theorem parse_lvAll (P : ETok → Bool) (toks : List ETok) (e : Expr) (h : parseTokensE toks = some (.expr e))
    (ht : toks.all P = true) : e.lvAll P = true := by
  simp only [parseTokensE] at h
  split at h
  all_goals try (repeat' split at h)
  all_goals try (cases h; done)
  all_goals (cases h; exact parseCond_lvAll P _ _ _ _ (by assumption) ht)

/-! ## from the leaves to the canonical tokens -/

theorem ok40 : (ETok.ch 40).ok = true := rfl
theorem ok41 : (ETok.ch 41).ok = true := rfl
theorem ok91 : (ETok.ch 91).ok = true := rfl
theorem ok93 : (ETok.ch 93).ok = true := rfl
theorem ok124 : (ETok.ch 124).ok = true := rfl
theorem ok44 : (ETok.ch 44).ok = true := rfl
theorem okDD : ETok.dotdot.ok = true := rfl
theorem okAnd : ETok.and_.ok = true := rfl
theorem okOr : ETok.or_.ok = true := rfl

mutual
theorem toks_ok_of_lvAll (P : ETok → Bool) (h1 : ∀ v, P (.lit v) = true → (ETok.lit v).ok = true)
    (h2 : ∀ x, P (.ident x) = true → (ETok.ident x).ok = true)
    (h3 : ∀ x, P (.keyword x) = true → (ETok.keyword x).ok = true)
    (h4 : ∀ x, P (.property x) = true → (ETok.property x).ok = true) :
    (e : Expr) → (lvl : Nat) → e.lvAll P = true → (e.toks lvl).all ETok.ok = true
  | .lit v, lvl, h => by
    rw [Expr.lvAll] at h; rw [Expr.toks]; simp [h1 v h]
  | .var x, lvl, h => by
    rw [Expr.lvAll] at h; rw [Expr.toks]; simp [h2 x h]
  | .prop e n, lvl, h => by
    rw [Expr.lvAll, Bool.and_eq_true] at h; rw [Expr.toks]
    simp [toks_ok_of_lvAll P h1 h2 h3 h4 e 3 h.1, h4 n h.2]
  | .index e i, lvl, h => by
    rw [Expr.lvAll, Bool.and_eq_true] at h; rw [Expr.toks]
    simp [toks_ok_of_lvAll P h1 h2 h3 h4 e 3 h.1, toks_ok_of_lvAll P h1 h2 h3 h4 i 3 h.2, ok40, ok41, ok91, ok93, ok124, ok44, okDD, okAnd, okOr]
  | .range a b, lvl, h => by
    rw [Expr.lvAll, Bool.and_eq_true] at h; rw [Expr.toks]
    simp [toks_ok_of_lvAll P h1 h2 h3 h4 a 3 h.1, toks_ok_of_lvAll P h1 h2 h3 h4 b 3 h.2, ok40, ok41, ok91, ok93, ok124, ok44, okDD, okAnd, okOr]
  | .rel op a b, lvl, h => by
    rw [Expr.lvAll, Bool.and_eq_true] at h; rw [Expr.toks]
    have hop : (relOpTok op).ok = true := by cases op <;> rfl
    unfold parenIf
    split <;>
      simp [toks_ok_of_lvAll P h1 h2 h3 h4 a 3 h.1, toks_ok_of_lvAll P h1 h2 h3 h4 b 3 h.2, ok40, ok41, ok91, ok93, ok124, ok44, okDD, okAnd, okOr, hop]
  | .and_ a b, lvl, h => by
    rw [Expr.lvAll, Bool.and_eq_true] at h; rw [Expr.toks]
    unfold parenIf
    split <;>
      simp [toks_ok_of_lvAll P h1 h2 h3 h4 a 0 h.1, toks_ok_of_lvAll P h1 h2 h3 h4 b 1 h.2, ok40, ok41, ok91, ok93, ok124, ok44, okDD, okAnd, okOr]
  | .or_ a b, lvl, h => by
    rw [Expr.lvAll, Bool.and_eq_true] at h; rw [Expr.toks]
    unfold parenIf
    split <;>
      simp [toks_ok_of_lvAll P h1 h2 h3 h4 a 0 h.1, toks_ok_of_lvAll P h1 h2 h3 h4 b 1 h.2, ok40, ok41, ok91, ok93, ok124, ok44, okDD, okAnd, okOr]
  | .filter e n args, lvl, h => by
    rw [Expr.lvAll, Bool.and_eq_true, Bool.and_eq_true] at h; rw [Expr.toks]
    have he := toks_ok_of_lvAll P h1 h2 h3 h4 e 2 h.1.1
    have ha := argsToks_ok_of_lvAll P h1 h2 h3 h4 args h.2
    have hargs : (if args.isEmpty then [ETok.ident n] else .keyword n :: (Expr.argsToks args).drop 1).all ETok.ok = true := by
      cases args with
      | nil =>
        have := h.1.2
        simp only [List.isEmpty_nil, if_true] at this
        simp [h2 n this]
      | cons a as =>
        have := h.1.2
        simp only [List.isEmpty_cons, Bool.false_eq_true, if_false] at this
        rw [Expr.argsToks] at ha ⊢
        simp only [List.all_cons, List.all_append, Bool.and_eq_true] at ha
        simp [h3 n this, ha.2.1, ha.2.2]
    unfold parenIf
    split <;> simp only [List.all_cons, List.all_append, List.all_nil, he, hargs, ok40, ok41, ok124, Bool.and_self,
      Bool.and_true, Bool.true_and]
theorem argsToks_ok_of_lvAll (P : ETok → Bool) (h1 : ∀ v, P (.lit v) = true → (ETok.lit v).ok = true)
    (h2 : ∀ x, P (.ident x) = true → (ETok.ident x).ok = true)
    (h3 : ∀ x, P (.keyword x) = true → (ETok.keyword x).ok = true)
    (h4 : ∀ x, P (.property x) = true → (ETok.property x).ok = true) :
    (as : List Expr) → Expr.lvAllL P as = true → (Expr.argsToks as).all ETok.ok = true
  | [], _ => by rw [Expr.argsToks]; rfl
  | a :: as, h => by
    rw [Expr.lvAllL, Bool.and_eq_true] at h; rw [Expr.argsToks]
    simp [toks_ok_of_lvAll P h1 h2 h3 h4 a 3 h.1, argsToks_ok_of_lvAll P h1 h2 h3 h4 as h.2, ok40, ok41, ok91, ok93, ok124, ok44, okDD, okAnd, okOr]
end

/-! ## the parser's image -/

/-- what the round trip needs of a token: a leaf token has a spelling (nothing is asked of the other tokens) -/
def leafOK : ETok → Bool
  | .lit v => (ETok.lit v).ok
  | .ident x => (ETok.ident x).ok
  | .keyword x => (ETok.keyword x).ok
  | .property x => (ETok.property x).ok
  | _ => true

theorem leafOK_of_scan (t : ETok) (h1 : scanOK t = true) (h2 : floatOK t = true) : leafOK t = true := by
  cases t with
  | lit v =>
    cases v with
    | flt k q => cases k with
      | f64 => exact h2
      | f32 => exact h1
    | _ => exact h1
  | ident => exact h1
  | keyword => exact h1
  | property => exact h1
  | _ => rfl

/-- **the parser's image lies inside `Expr.printable`**, up to the values of the float literals of the source -/
theorem printable_of_parse (s : Bytes) (e : Expr) (h : parseExprSource s = .ok e)
    (hf : (lex s).1.all floatOK = true) : e.printable = true := by
  unfold parseExprSource parseSource at h
  have hscan := lex_scanOK s
  generalize lex s = lx at h hf hscan
  obtain ⟨toks, err⟩ := lx
  have hleaf : toks.all leafOK = true := by
    rw [List.all_eq_true] at hf hscan ⊢
    intro t ht
    exact leafOK_of_scan t (hscan t ht) (hf t ht)
  cases err with
  | some x => cases x <;> simp at h
  | none =>
    simp only at h
    cases hp : parseTokensE toks with
    | none => rw [hp] at h; simp at h
    | some st =>
      rw [hp] at h
      cases st with
      | expr e' =>
        simp only [Res.ok.injEq] at h
        subst h
        have := parse_lvAll leafOK toks e' hp hleaf
        exact toks_ok_of_lvAll leafOK (fun _ h => h) (fun _ h => h) (fun _ h => h) (fun _ h => h) e' 0 this
      | _ => simp at h

/-- **the parser's image lies inside `Expr.printable`**: the float hypothesis holds for every source (`lex_floatOK`) -/
theorem printable_of_parse_all (s : Bytes) (e : Expr) (h : parseExprSource s = .ok e) : e.printable = true :=
  printable_of_parse s e h (lex_floatOK s)
