import Liquid.Generated.Writes
/-!
# Obligation over the call facts of translator T3 (C02, C03, C04)
-/

/-- No package-level variable other than the
five audited read-only ones (`auditedGlobalCalls`) is handed, outside `init`, to a call that may write through
it: the library keeps no package-level cache, pool or registry that a render could fill. A `sync.Map`, a
`sync.Pool` or a hand-rolled memo table added to the source breaks this obligation. -/
theorem global_calls_audited : (sharedWrites.filter WriteFact.unauditedGlobalCall) = [] := by
  decide


/-- the five audited variables are really found by the translator (the rule is exercised on the current source) -/
theorem global_calls_found : 1 ≤ (sharedWrites.filter (fun w => w.cls = .globalCall)).length := by decide
