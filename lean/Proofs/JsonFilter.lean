import Proofs.JsonLemmas
import Proofs.C02
import Proofs.StdNoPanic
/-!
# The value filters `json`, `inspect`, `type` (`Liquid/Filters/Json.lean`)

Property-level statements about the model of `encoding/json` marshalling that the filters `json` and
`inspect` print (the no-panic part is `jsonImpls_noPanic` in `Proofs/StdNoPanic.lean`, an input of
C01's `run_std_noPanic`):

* **map order** (C02): the JSON text of a Go map does not depend on the order in which the runtime
  hands the entries out — `jsonObject_perm` on the (key text, value text) entries,
  `json_map_order_independent` / `json_keyedMap_order_independent` on `json.Marshal` itself;
* **string escaping**: what stands between the quotes is valid UTF-8 (whatever the input bytes), has
  no control character and no raw `<`, `>`, `&`, and the string scanner of RFC 8259 — a backslash
  takes the next byte with it — reaches its first free quote exactly at the closing quote;
* **`inspect` = `json`** through `ApplyFilter`/`Call`, whenever either prints a (non-empty) text.
-/

open JsonF

/-! ## Map order -/

/-- **json of a map is independent of the order of the entry list.** Any two permutations of the
    same entries (key text, value JSON) with distinct keys give the same object text. -/
theorem jsonObject_perm (es es' : List (Bytes × Bytes)) (hperm : es.Perm es')
    (hdistinct : ∀ a b, a ∈ es → b ∈ es → a.1 = b.1 → a = b) :
    jsonObject es = jsonObject es' := by
  unfold jsonObject
  congr 1
  apply sort_perm_invariant JsonF.entryLe
  · intro a b c hab hbc
    simp only [JsonF.entryLe, decide_eq_true_eq] at *
    exact List.le_trans hab hbc
  · intro a b
    simp only [JsonF.entryLe, Bool.or_eq_true, decide_eq_true_eq]
    exact List.le_total a.1 b.1
  · exact hperm
  · intro a b ha hb hab hba
    simp only [JsonF.entryLe, decide_eq_true_eq] at hab hba
    exact hdistinct a b ha hb (List.le_antisymm hab hba)

/-- **`json.Marshal` of a Go map does not depend on the map's iteration order.** `kvs'` is any
    permutation of the entries `kvs` (keys with distinct texts, as in every Go map with string or
    integer keys): whenever the one marshals to a text, the other marshals to the same text. -/
theorem json_map_order_independent (k v : Ty) (kvs kvs' : List (GoVal × GoVal)) (hperm : kvs.Perm kvs')
    (hkeys : ∀ a b, a ∈ kvs → b ∈ kvs → keyText a.1 = keyText b.1 → a = b)
    (out : Bytes) (h : marshal (.map k v kvs) = .ok out) : marshal (.map k v kvs') = .ok out := by
  rw [marshal] at h ⊢
  split at h
  · next hk =>
    rw [if_pos hk]
    obtain ⟨es, hes, h⟩ := Res.bind_eq_ok h
    cases h
    have hp := (marshalKVs_ok_iff v kvs es).mp hes
    obtain ⟨es', hp', hperm'⟩ := forall₂_perm hperm hp
    rw [(marshalKVs_ok_iff v kvs' es').mpr hp']
    simp only [Res.bind]
    congr 1
    refine (jsonObject_perm es es' hperm' ?_).symm
    intro a b ha hb hab
    obtain ⟨kva, hka, ea⟩ := forall₂_mem_right hp a ha
    obtain ⟨kvb, hkb, eb⟩ := forall₂_mem_right hp b hb
    have : kva = kvb := hkeys kva kvb hka hkb (by rw [entryOf_key ea, entryOf_key eb, hab])
    subst this
    rw [ea] at eb
    cases eb
    rfl
  · cases h

/-- the same for a `tags.IterationKeyedMap` (a `map[string]any`) -/
theorem json_keyedMap_order_independent (kvs kvs' : List (Bytes × GoVal)) (hperm : kvs.Perm kvs')
    (hkeys : ∀ a b, a ∈ kvs → b ∈ kvs → a.1 = b.1 → a = b)
    (out : Bytes) (h : marshal (.keyedMap kvs) = .ok out) : marshal (.keyedMap kvs') = .ok out := by
  rw [marshal] at h ⊢
  obtain ⟨es, hes, h⟩ := Res.bind_eq_ok h
  cases h
  have hp := (marshalNamed_ok_iff kvs es).mp hes
  obtain ⟨es', hp', hperm'⟩ := forall₂_perm hperm hp
  rw [(marshalNamed_ok_iff kvs' es').mpr hp']
  simp only [Res.bind]
  congr 1
  refine (jsonObject_perm es es' hperm' ?_).symm
  intro a b ha hb hab
  obtain ⟨kva, hka, ea⟩ := forall₂_mem_right hp a ha
  obtain ⟨kvb, hkb, eb⟩ := forall₂_mem_right hp b hb
  have : kva = kvb := hkeys kva kvb hka hkb (by rw [namedOf_key ea, namedOf_key eb, hab])
  subst this
  rw [ea] at eb
  cases eb
  rfl

/-! Non-vacuity: `{"b":null,"a":true}` built in two orders -/
example : jsonObject [([98], nullB), ([97], [116, 114, 117, 101])] = jsonObject [([97], [116, 114, 117, 101]), ([98], nullB)] :=
  jsonObject_perm _ _ (List.Perm.swap _ _ _) (by
    intro a b ha hb h
    simp only [List.mem_cons, List.mem_nil_iff, or_false] at ha hb
    rcases ha with rfl | rfl <;> rcases hb with rfl | rfl <;> simp_all)

example : (marshal (.map .str .any [(.str [98], .nil)])).isOk = true := by decide +kernel

/-! ## String escaping -/

/-- a JSON string literal of the model is the escaped body between two quotes -/
theorem jsonString_eq (s : Bytes) : jsonString s = 34 :: (escBody s ++ [34]) := rfl

/-- **No control character and no raw `<`, `>`, `&` inside a string body**, for every byte string. -/
theorem jsonString_body_bytes (s : Bytes) : ∀ b ∈ escBody s, 32 ≤ b ∧ b ≠ 60 ∧ b ≠ 62 ∧ b ≠ 38 := by
  unfold escBody
  refine escAux_ind (fun out => ∀ b ∈ out, 32 ≤ b ∧ b ≠ 60 ∧ b ≠ 62 ∧ b ≠ 38) ?_ ?_ ?_ ?_ _ s
  · intro b hb; cases hb
  · intro b t hb ht y hy
    rcases List.mem_append.mp hy with hy | hy
    · have := escByte_bytes b hb y hy
      exact ⟨this.1, this.2.2.1, this.2.2.2.1, this.2.2.2.2⟩
    · exact ht y hy
  · intro c t hc ht y hy
    rcases List.mem_append.mp hy with hy | hy
    · have := (fixedEsc_bytes hc).1 y hy
      exact ⟨this.1, this.2.2.1, this.2.2.2.1, this.2.2.2.2⟩
    · exact ht y hy
  · intro c t _ hc ht y hy
    rcases List.mem_append.mp hy with hy | hy
    · have h128 := hc y hy
      refine ⟨?_, ?_, ?_, ?_⟩
      · rw [UInt8.le_iff_toNat_le]; exact Nat.le_trans (by decide) h128
      · intro h; subst h; exact absurd h128 (by decide)
      · intro h; subst h; exact absurd h128 (by decide)
      · intro h; subst h; exact absurd h128 (by decide)
    · exact ht y hy

set_option maxRecDepth 4096 in
/-- **The output is valid UTF-8 whatever the input bytes are** (an invalid byte is written as the
    ASCII escape `�`). -/
theorem jsonString_valid_utf8 (s : Bytes) : ValidUtf8 (jsonString s) := by
  rw [jsonString_eq]
  refine (validUtf8_cons_ascii 34 _ (by decide)).mpr (validUtf8_append ?_ (validUtf8_of_all_ascii [34] (by decide)))
  unfold escBody
  refine escAux_ind ValidUtf8 validUtf8_nil ?_ ?_ ?_ _ s
  · intro b t hb ht
    exact validUtf8_append (validUtf8_of_all_ascii _ (fun y hy => (escByte_bytes b hb y hy).2.1)) ht
  · intro c t hc ht
    exact validUtf8_append (validUtf8_of_all_ascii _ (fun y hy => ((fixedEsc_bytes hc).1 y hy).2.1)) ht
  · intro c t hv _ ht
    exact validUtf8_append hv ht

/-- **No unescaped quote inside the string body.** Scanning from just after the opening quote, the
    first quote that is not taken by a backslash is the closing one: the scanner returns exactly what
    follows the literal, whatever that is. -/
theorem jsonString_closes (s t : Bytes) : strEnd ((jsonString s).tail ++ t) = some t := by
  rw [jsonString_eq, List.tail_cons, List.append_assoc]
  show strEnd (escBody s ++ 34 :: t) = some t
  unfold escBody
  refine escAux_ind (fun out => ∀ t, strEnd (out ++ 34 :: t) = some t) ?_ ?_ ?_ ?_ _ s t
  · intro t; rw [List.nil_append, strEnd_cons]; rfl
  · intro b out hb ih t
    rw [List.append_assoc, strEnd_escByte b hb]
    exact ih t
  · intro c out hc ih t
    rw [List.append_assoc, (fixedEsc_bytes hc).2]
    exact ih t
  · intro c out _ hc ih t
    rw [List.append_assoc, strEnd_plain c _ (fun y hy => ?_)]
    · exact ih t
    · have h128 := hc y hy
      constructor <;> (intro h; subst h; exact absurd h128 (by decide))

/-! Non-vacuity: `a"<\n` followed by an invalid byte prints as `"a\"<\n�"` -/
example : jsonString [97, 34, 60, 10, 255] =
    [34, 97, 92, 34, 92, 117, 48, 48, 51, 99, 92, 110, 92, 117, 102, 102, 102, 100, 34] := by decide +kernel

/-! ## `inspect` = `json` -/

theorem impl_json : lookupImpl stdFilterImpls (bn "json") = some JsonF.json := by with_unfolding_all rfl
theorem impl_inspect : lookupImpl stdFilterImpls (bn "inspect") = some JsonF.inspect := by with_unfolding_all rfl

/-- `x | json` and `x | inspect` through `ApplyFilter` + `values.Call`, in terms of `json.Marshal` of the
    converted receiver -/
theorem applyFilter_json_inspect (recv : GoVal) :
    applyFilter (lookupImpl stdFilterImpls) (bn "json") recv [] =
      (convertArgs [.val .any] [recv]).bind (fun cargs => (JsonF.json cargs).bind fun
        | .error c => .err (.filterErr (bn "json") c)
        | .ok v => .ok (bytesToString v)) ∧
    applyFilter (lookupImpl stdFilterImpls) (bn "inspect") recv [] =
      (convertArgs [.val .any] [recv]).bind (fun cargs => (JsonF.inspect cargs).bind fun
        | .error c => .err (.filterErr (bn "inspect") c)
        | .ok v => .ok (bytesToString v)) := by
  have hs1 : lookupSig (bn "json") = some ⟨bn "json", [.val .any], false⟩ := by decide +kernel
  have hs2 : lookupSig (bn "inspect") = some ⟨bn "inspect", [.val .any], false⟩ := by decide +kernel
  constructor
  · unfold applyFilter
    simp only [hs1, impl_json, List.length_cons, List.length_nil]
    rfl
  · unfold applyFilter
    simp only [hs2, impl_inspect, List.length_cons, List.length_nil]
    rfl

/-- **`inspect` prints what `json` prints.** Whenever `x | inspect` yields a text, `x | json` yields the
    same text; and whenever `x | json` yields a non-empty text (the empty text is what `json` returns
    when `json.Marshal` fails; `inspect` then prints Go syntax instead), so does `x | inspect`. -/
theorem inspect_eq_json (recv : GoVal) (b : Bytes) :
    (applyFilter (lookupImpl stdFilterImpls) (bn "inspect") recv [] = .ok (.str b) →
      applyFilter (lookupImpl stdFilterImpls) (bn "json") recv [] = .ok (.str b)) ∧
    (b ≠ [] → applyFilter (lookupImpl stdFilterImpls) (bn "json") recv [] = .ok (.str b) →
      applyFilter (lookupImpl stdFilterImpls) (bn "inspect") recv [] = .ok (.str b)) := by
  obtain ⟨hj, hi⟩ := applyFilter_json_inspect recv
  rw [hj, hi]
  cases hc : convertArgs [.val .any] [recv] with
  | err e => simp [Res.bind]
  | panic w => simp [Res.bind]
  | unmodelled w => simp [Res.bind]
  | ok cargs =>
    obtain ⟨v, rfl⟩ := args_any (convertArgs_ok _ _ _ hc)
    simp only [Res.bind, JsonF.json, JsonF.inspect]
    cases hm : marshalTop v with
    | ok out =>
      simp only [ret, bytesToString]
      constructor
      · intro h; cases h; rfl
      · intro _ h; cases h; rfl
    | err e =>
      simp only [ret, bytesToString]
      constructor
      · intro h; cases h
      · intro hne h; cases h; exact absurd rfl hne
    | panic w => simp
    | unmodelled w => simp

/-! Non-vacuity: `[1,"<"] | inspect` and `[1,"<"] | json` both print `[1,"<"]` -/
example : (match applyFilter (lookupImpl stdFilterImpls) (bn "inspect") (.slice .any [.int .int 1, .str [60]]) [] with
    | .ok (.str s) => s == [91, 49, 44, 34, 92, 117, 48, 48, 51, 99, 34, 93]
    | _ => false) = true := by decide +kernel
