import Proofs.SrcReline
import Proofs.SrcBlocks
import Proofs.C10
/-!
# Source-level helpers: `{% case s %}{% when vs %}A{% else %}E{% endcase %}`
-/

def nmEndcase : Bytes := endPrefix ++ nmCase

/-- `{% case s %}{% when vs %}A{% else %}E{% endcase %}` -/
def caseSrc (s vs : Bytes) (A E : List Item) (w1 w2 w3 w4 : Ws) : List Item :=
  tg nmCase s w1 :: tg nmWhen vs w2 :: (A ++ tg nmElse [] w3 :: (E ++ [tg nmEndcase [] w4]))

/-- the compiled node of the `case` block -/
theorem case_compile (d : Delims) (s vs : Bytes) (A E : List Item) (w1 w2 w3 w4 : Ws) (line : Nat) (subj : Expr) (es : List Expr)
    (hps : parseExprSource s = .ok subj) (hpw : parseStatement kwWhen vs = .ok (.when es))
    (hA : Compiles d A 0) (hE : Compiles d E 0) :
    ∃ nA nE lw,
      compileTokens (tokensOf d A (line + countNL ((tg nmCase s w1).spell d) + countNL ((tg nmWhen vs w2).spell d))) = .ok nA ∧
      compileTokens (tokensOf d E (line + countNL ((tg nmCase s w1).spell d) + countNL ((tg nmWhen vs w2).spell d)
        + countNL (spell d A) + countNL ((tg nmElse [] w3).spell d))) = .ok nE ∧
      compileTokens (tokensOf d (caseSrc s vs A E w1 w2 w3 w4) line) = .ok [.caseB line subj [(some (lw, es), nA), (none, nE)]] := by
  obtain ⟨nA0, hnA0⟩ := hA.nodes
  obtain ⟨nE0, hnE0⟩ := hE.nodes
  have hnA := compiles_any_line d A (line + countNL ((tg nmCase s w1).spell d) + countNL ((tg nmWhen vs w2).spell d)) hnA0
  have hnE := compiles_any_line d E (line + countNL ((tg nmCase s w1).spell d) + countNL ((tg nmWhen vs w2).spell d)
        + countNL (spell d A) + countNL ((tg nmElse [] w3).spell d)) hnE0
  obtain ⟨hUA, astA, hdA, hcA⟩ := compileTokens_ok hnA
  obtain ⟨hUE, astE, hdE, hcE⟩ := compileTokens_ok hnE
  refine ⟨_, _, line + countNL ((tg nmCase s w1).spell d), hnA, hnE, ?_⟩
  have htoks : tokensOf d (caseSrc s vs A E w1 w2 w3 w4) line =
      tgTok d nmCase s w1 line :: ([] ++ (segToks
        [(tgTok d nmWhen vs w2 (line + countNL ((tg nmCase s w1).spell d)),
            tokensOf d A (line + countNL ((tg nmCase s w1).spell d) + countNL ((tg nmWhen vs w2).spell d)), astA),
         (tgTok d nmElse [] w3 (line + countNL ((tg nmCase s w1).spell d) + countNL ((tg nmWhen vs w2).spell d) + countNL (spell d A)),
            tokensOf d E (line + countNL ((tg nmCase s w1).spell d) + countNL ((tg nmWhen vs w2).spell d)
              + countNL (spell d A) + countNL ((tg nmElse [] w3).spell d)), astE)] ++
        tgTok d nmEndcase [] w4 (line + countNL ((tg nmCase s w1).spell d) + countNL ((tg nmWhen vs w2).spell d)
              + countNL (spell d A) + countNL ((tg nmElse [] w3).spell d) + countNL (spell d E)) :: [])) := by
    unfold caseSrc
    rw [tokensOf_tg, tokensOf_block1, tokensOf_nil]
    simp [segToks]
  have hU : firstUnmodelledObj (tokensOf d (caseSrc s vs A E w1 w2 w3 w4) line) = none := by
    rw [htoks]
    simp only [segToks, List.nil_append, List.append_nil, List.cons_append, List.append_assoc]
    rw [firstUnmodelledObj_tag _ _ rfl, firstUnmodelledObj_tag _ _ rfl, firstUnmodelledObj_append, hUA]
    simp only
    rw [firstUnmodelledObj_tag _ _ rfl, firstUnmodelledObj_append, hUE]
    rfl
  have ho : stdGrammar.isOpen (tgTok d nmCase s w1 line) = true := isOpen_tgTok _ _ _ _ _ (by decide) (by decide) (by decide)
  have hder := Derives.block (g := stdGrammar) (chk := objChk) (tgTok d nmCase s w1 line)
    (tgTok d nmEndcase [] w4 (line + countNL ((tg nmCase s w1).spell d) + countNL ((tg nmWhen vs w2).spell d)
              + countNL (spell d A) + countNL ((tg nmElse [] w3).spell d) + countNL (spell d E)))
    [] []
    [(tgTok d nmWhen vs w2 (line + countNL ((tg nmCase s w1).spell d)),
        tokensOf d A (line + countNL ((tg nmCase s w1).spell d) + countNL ((tg nmWhen vs w2).spell d)), astA),
     (tgTok d nmElse [] w3 (line + countNL ((tg nmCase s w1).spell d) + countNL ((tg nmWhen vs w2).spell d) + countNL (spell d A)),
        tokensOf d E (line + countNL ((tg nmCase s w1).spell d) + countNL ((tg nmWhen vs w2).spell d)
          + countNL (spell d A) + countNL ((tg nmElse [] w3).spell d)), astE)]
    [] [] ho .nil
    (by
      intro sg hsg
      simp only [List.mem_cons, List.mem_nil_iff, or_false] at hsg
      rcases hsg with rfl | rfl <;> simp only [Grammar.isClauseOf, tgTok] <;> decide)
    (by
      intro sg hsg
      simp only [List.mem_cons, List.mem_nil_iff, or_false] at hsg
      rcases hsg with rfl | rfl
      · exact hdA
      · exact hdE)
    (isEndOf_of_name rfl rfl) .nil
  rw [← htoks] at hder
  rw [compileTokens_of_derives hU hder, compileList_single]
  have h1 : ((tgTok d nmCase s w1 line).name == nmIf || (tgTok d nmCase s w1 line).name == nmUnless) = false := by
    show (nmCase == nmIf || nmCase == nmUnless) = false
    decide
  have h2 : ((tgTok d nmCase s w1 line).name == nmCase) = true := by
    show (nmCase == nmCase) = true
    decide
  have hw : ∀ l, ((tgTok d nmWhen vs w2 l).name == nmWhen) = true := fun l => by
    show (nmWhen == nmWhen) = true
    decide
  have he : ∀ l, ((tgTok d nmElse [] w3 l).name == nmWhen) = false := fun l => by
    show (nmElse == nmWhen) = false
    decide
  have ha : ∀ l, (tgTok d nmWhen vs w2 l).args = vs := fun _ => rfl
  have hargs : (tgTok d nmCase s w1 line).args = s := rfl
  have hline : (tgTok d nmCase s w1 line).line = line := rfl
  simp only [compileNode, compileList, segASTs, compileClauses, hcA, hcE, bind, Res.bind, pure, h1, h2, Bool.false_eq_true, if_false,
    if_true, hargs, hps, liftParse, compileCaseClauses, hw, he, ha, hpw, hline]
  rfl
