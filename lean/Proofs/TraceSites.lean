import Proofs.RenderTrace
import Proofs.C07Lines
/-!
# The sites of single-fault errors are locations of the tree (helper lemmas for C20 located)

Every entry of `(traceNode c n s).calls` is the location `⟨x, true⟩` of a node of `n` (`x ∈ n.lines`) or the
invalid location `⟨0, false⟩`; and the invalid location only comes from a raw block, a left trim marker or a
flush that no block encloses: below a block whose tag has a line (or in a template with a path) it is replaced
by the block tag's location.
-/

/-- a site before the enclosing node has wrapped it: not located yet, invalid, or a location of the tree -/
def SiteIn (L : List Nat) (l : Site) : Prop := l = none ∨ l = some invalidLoc ∨ ∃ x ∈ L, l = some ⟨x, true⟩

/-- a site that is a location of the tree -/
def SiteAt (L : List Nat) (l : Site) : Prop := ∃ x ∈ L, l = some ⟨x, true⟩

def Tr.CallsIn (L : List Nat) (t : Tr) : Prop := ∀ l ∈ t.calls, SiteIn L l
def Tr.CallsAt (L : List Nat) (t : Tr) : Prop := ∀ l ∈ t.calls, SiteAt L l

theorem Tr.CallsAt.callsIn {L : List Nat} {t : Tr} (h : t.CallsAt L) : t.CallsIn L :=
  fun l hl => Or.inr (Or.inr (h l hl))

theorem Tr.CallsIn.mono {L L' : List Nat} {t : Tr} (h : t.CallsIn L) (hs : ∀ x, x ∈ L → x ∈ L') : t.CallsIn L' := by
  intro l hl
  rcases h l hl with h | h | ⟨x, hx, h⟩
  · exact Or.inl h
  · exact Or.inr (Or.inl h)
  · exact Or.inr (Or.inr ⟨x, hs x hx, h⟩)

theorem Tr.CallsAt.mono {L L' : List Nat} {t : Tr} (h : t.CallsAt L) (hs : ∀ x, x ∈ L → x ∈ L') : t.CallsAt L' := by
  intro l hl
  obtain ⟨x, hx, h⟩ := h l hl
  exact ⟨x, hs x hx, h⟩

theorem callsAt_ownTr {α} (L : List Nat) (x : Nat) (hx : x ∈ L) (p : Prog α) : (ownTr ⟨x, true⟩ p).CallsAt L := by
  intro l hl
  simp only [ownTr, List.mem_replicate] at hl
  exact ⟨x, hx, hl.2⟩

theorem callsIn_ownTr_invalid {α} (L : List Nat) (p : Prog α) : (ownTr invalidLoc p).CallsIn L := by
  intro l hl
  simp only [ownTr, List.mem_replicate] at hl
  exact Or.inr (Or.inl hl.2)

theorem callsIn_pieceTr {α} (L : List Nat) (p : Prog α) : (pieceTr p).CallsIn L := by
  intro l hl
  simp only [pieceTr, List.mem_replicate] at hl
  exact Or.inl hl.2

theorem callsIn_nil (L : List Nat) (f : Option Site) : (⟨[], f⟩ : Tr).CallsIn L := fun _ h => by simp at h
theorem callsAt_nil (L : List Nat) (f : Option Site) : (⟨[], f⟩ : Tr).CallsAt L := fun _ h => by simp at h

theorem callsIn_bind {α} {L : List Nat} {t1 : Tr} (r : Option α) {t2 : α → Tr} (h1 : t1.CallsIn L) (h2 : ∀ a, (t2 a).CallsIn L) :
    (t1.bind r t2).CallsIn L := by
  cases r with
  | none => exact h1
  | some a =>
    intro l hl
    simp only [Tr.bind, List.mem_append] at hl
    rcases hl with hl | hl
    · exact h1 l hl
    · exact h2 a l hl

theorem callsAt_bind {α} {L : List Nat} {t1 : Tr} (r : Option α) {t2 : α → Tr} (h1 : t1.CallsAt L) (h2 : ∀ a, (t2 a).CallsAt L) :
    (t1.bind r t2).CallsAt L := by
  cases r with
  | none => exact h1
  | some a =>
    intro l hl
    simp only [Tr.bind, List.mem_append] at hl
    rcases hl with hl | hl
    · exact h1 l hl
    · exact h2 a l hl

/-- a block whose tag has a line, or whose template has a path, locates every site below it at a location of
    the tree: its own for what was not located or invalid, the site's own otherwise -/
theorem callsAt_wrap (path : Bytes) (L : List Nat) (line : Nat) (hl : line ∈ L) (hpos : line ≠ 0 ∨ path ≠ [])
    {t : Tr} (h : t.CallsIn L) : (t.wrap path ⟨line, true⟩).CallsAt L := by
  intro l hmem
  simp only [Tr.wrap, List.mem_map] at hmem
  obtain ⟨a, ha, rfl⟩ := hmem
  rcases h a ha with h | h | ⟨x, hx, h⟩
  · subst h; exact ⟨line, hl, rfl⟩
  · subst h
    refine ⟨line, hl, ?_⟩
    have : relocate path (some invalidLoc) ⟨line, true⟩ = ⟨line, true⟩ := by
      simp only [relocate, invalidLoc, Loc.isZero]
      rcases hpos with h | h
      · simp [h]
      · have : path.isEmpty = false := by cases path <;> simp_all
        simp [this]
    rw [this]
  · subst h
    simp only [relocate]
    split
    · exact ⟨x, hx, rfl⟩
    · exact ⟨line, hl, rfl⟩

theorem callsIn_iterTrace (L : List Nat) (var : Bytes) (cols : Option Nat) (bodyM : M Status) (bodyT : RS → Tr)
    (hb : ∀ s, (bodyT s).CallsIn L) (n : Nat) :
    ∀ xs i cyc s, (iterTrace var cols bodyM bodyT n xs i cyc s).CallsIn L := by
  intro xs
  induction xs with
  | nil => intro i cyc s; unfold iterTrace; exact callsIn_nil L _
  | cons x xs ih =>
    intro i cyc s
    unfold iterTrace
    refine callsIn_bind _ (callsIn_pieceTr L _) (fun a => callsIn_bind _ (hb _) (fun b => callsIn_bind _ (callsIn_pieceTr L _) (fun d => ?_)))
    split
    · exact callsIn_nil L _
    · exact ih _ _ _

theorem callsAt_loopTrace {budget : Int} (P : Prims) (path : Bytes) (L : List Nat) (line : Nat) (hl : line ∈ L) (hpos : line ≠ 0 ∨ path ≠ [])
    (tablerow : Bool) (var : Bytes) (e : Expr) (mods : LoopMods) (bodyM : M Status) (bodyT : RS → Tr)
    (hb : ∀ s, (bodyT s).CallsIn L) (tooMany : Bool) (elseT : Option (RS → Tr)) (he : ∀ t, elseT = some t → ∀ s, (t s).CallsIn L) (s : RS) :
    (loopTrace budget P path ⟨line, true⟩ tablerow var e mods bodyM bodyT tooMany elseT s).CallsAt L := by
  unfold loopTrace
  refine callsAt_bind _ (callsAt_ownTr L line hl _) (fun a => ?_)
  split
  · next t _ => exact callsAt_wrap path L line hl hpos (he t rfl _)
  · exact callsAt_bind _ (callsAt_ownTr L line hl _) (fun b =>
      callsAt_wrap path L line hl hpos (callsIn_iterTrace L var _ bodyM bodyT hb _ _ _ _ _))

theorem evalCond_calls (P : Prims) (path : Bytes) (t : CondT) (s : RS) : (evalCond P path t s).calls = [] := by
  cases t with
  | always => rfl
  | expr line e =>
    show (wrapFailAt path ⟨line, true⟩ (do let v ← M.ofRes (evaluate P s.env e); pure v.test) s).calls = []
    rw [wrapFailAt_apply, Prog.calls_mapFail, M.bind_apply, Prog.calls_bind]
    cases evaluate P s.env e <;> rfl
  | notExpr line e =>
    show (wrapFailAt path ⟨line, true⟩ (do let v ← M.ofRes (evaluate P s.env e); pure !v.test) s).calls = []
    rw [wrapFailAt_apply, Prog.calls_mapFail, M.bind_apply, Prog.calls_bind]
    cases evaluate P s.env e <;> rfl

/-- `n` has a location of its own (it is not a raw block or a trim marker) -/
def Node.hasLoc : Node → Bool
  | .raw _ => false
  | .trim _ => false
  | _ => true

mutual
theorem sites_traceNode (c : RCtx) (L : List Nat) (hpos : c.cfg.path ≠ [] ∨ ∀ x ∈ L, x ≠ 0) :
    ∀ (n : Node) (s : RS), (∀ x, x ∈ n.lines → x ∈ L) →
      (traceNode c n s).CallsIn L ∧ (n.hasLoc = true → (traceNode c n s).CallsAt L)
  | .text line src, s, hL => by
    unfold traceNode
    have := callsAt_ownTr L line (hL _ (by simp [Node.lines])) (renderNode c (.text line src) s)
    exact ⟨this.callsIn, fun _ => this⟩
  | .obj line e, s, hL => by
    unfold traceNode
    have := callsAt_ownTr L line (hL _ (by simp [Node.lines])) (renderNode c (.obj line e) s)
    exact ⟨this.callsIn, fun _ => this⟩
  | .raw slices, s, _ => by
    unfold traceNode
    exact ⟨callsIn_ownTr_invalid L _, fun h => by simp [Node.hasLoc] at h⟩
  | .trim l, s, _ => by
    unfold traceNode
    exact ⟨callsIn_ownTr_invalid L _, fun h => by simp [Node.hasLoc] at h⟩
  | .assign line x e, s, hL => by
    unfold traceNode
    have := callsAt_ownTr L line (hL _ (by simp [Node.lines])) (renderNode c (.assign line x e) s)
    exact ⟨this.callsIn, fun _ => this⟩
  | .cycle line g v0 rest, s, hL => by
    unfold traceNode
    have := callsAt_ownTr L line (hL _ (by simp [Node.lines])) (renderNode c (.cycle line g v0 rest) s)
    exact ⟨this.callsIn, fun _ => this⟩
  | .brk line, s, _ => by
    unfold traceNode
    exact ⟨callsIn_nil L _, fun _ => callsAt_nil L _⟩
  | .cont line, s, _ => by
    unfold traceNode
    exact ⟨callsIn_nil L _, fun _ => callsAt_nil L _⟩
  | .capture line x body, s, hL => by
    unfold traceNode
    have hl : line ∈ L := hL _ (by simp [Node.lines])
    have hp : line ≠ 0 ∨ c.cfg.path ≠ [] := hpos.elim Or.inr (fun h => Or.inl (h _ hl))
    have key : (Tr.wrap c.cfg.path ⟨line, true⟩
        ((⟨[], (traceList c body { env := s.env, tw := {} }).fin⟩ : Tr).bind (captureM (renderList c body) s).pureRet fun a =>
          match a.1.1 with
          | .done => {}
          | _ => ⟨[], (traceList c body { env := s.env, tw := {} }).fin⟩)).CallsAt L := by
      refine callsAt_wrap c.cfg.path L line hl hp (callsIn_bind _ (callsIn_nil L _) (fun a => ?_))
      split <;> exact callsIn_nil L _
    exact ⟨key.callsIn, fun _ => key⟩
  | .ifB line bs, s, hL => by
    unfold traceNode
    have hl : line ∈ L := hL _ (by simp [Node.lines])
    have hp : line ≠ 0 ∨ c.cfg.path ≠ [] := hpos.elim Or.inr (fun h => Or.inl (h _ hl))
    have := callsAt_wrap c.cfg.path L line hl hp (sites_traceBranches c L hpos bs s (fun y hy => hL y (by simp [Node.lines, hy])))
    exact ⟨this.callsIn, fun _ => this⟩
  | .caseB line subject cases, s, hL => by
    unfold traceNode
    have hl : line ∈ L := hL _ (by simp [Node.lines])
    have hp : line ≠ 0 ∨ c.cfg.path ≠ [] := hpos.elim Or.inr (fun h => Or.inl (h _ hl))
    have hin : (match evaluate c.P s.env subject with
        | .ok sel => traceCases c sel cases s
        | .err _ => ⟨[], some none⟩
        | _ => {}).CallsIn L := by
      split
      · exact sites_traceCases c L hpos _ cases s (fun y hy => hL y (by simp [Node.lines, hy]))
      · exact callsIn_nil L _
      · exact callsIn_nil L _
    have := callsAt_wrap c.cfg.path L line hl hp hin
    exact ⟨this.callsIn, fun _ => this⟩
  | .loop line tablerow var e mods body clauses, s, hL => by
    have hl : line ∈ L := hL _ (by simp [Node.lines])
    have hp : line ≠ 0 ∨ c.cfg.path ≠ [] := hpos.elim Or.inr (fun h => Or.inl (h _ hl))
    have hb : ∀ s, (traceBlockBody c body s).CallsIn L := fun s =>
      sites_traceBlockBody c L hpos body s (fun y hy => hL y (by simp [Node.lines, hy]))
    have key : (traceNode c (.loop line tablerow var e mods body clauses) s).CallsAt L := by
      unfold traceNode
      split
      · exact callsAt_loopTrace c.P c.cfg.path L line hl hp tablerow var e mods _ _ hb false none (fun _ h => by cases h) s
      · next els =>
        refine callsAt_loopTrace c.P c.cfg.path L line hl hp tablerow var e mods _ _ hb false (some _) (fun t h => ?_) s
        cases h
        exact fun s => sites_traceBlockBody c L hpos els s (fun y hy => hL y (by simp [Node.lines, linesClauses, hy]))
      · exact callsAt_loopTrace c.P c.cfg.path L line hl hp tablerow var e mods _ _ hb true none (fun _ h => by cases h) s
    exact ⟨key.callsIn, fun _ => key⟩
  | .incl line args, s, hL => by
    unfold traceNode
    have hl : line ∈ L := hL _ (by simp [Node.lines])
    have hp : line ≠ 0 ∨ c.cfg.path ≠ [] := hpos.elim Or.inr (fun h => Or.inl (h _ hl))
    have hin : (inclInner c line args s).CallsIn L := by
      unfold inclInner
      split
      · split
        · refine callsIn_bind _ (callsIn_nil L _) (fun r => ?_)
          split
          · exact callsIn_pieceTr L _
          · exact callsIn_nil L _
        · exact callsIn_nil L _
        · exact callsIn_nil L _
        · exact callsIn_nil L _
      · exact callsIn_nil L _
      · exact callsIn_nil L _
    have := callsAt_wrap c.cfg.path L line hl hp hin
    exact ⟨this.callsIn, fun _ => this⟩
theorem sites_traceList (c : RCtx) (L : List Nat) (hpos : c.cfg.path ≠ [] ∨ ∀ x ∈ L, x ≠ 0) :
    ∀ (ns : List Node) (s : RS), (∀ x, x ∈ linesList ns → x ∈ L) → (traceList c ns s).CallsIn L
  | [], s, _ => by unfold traceList; exact callsIn_nil L _
  | n :: ns, s, hL => by
    unfold traceList
    refine callsIn_bind _ (sites_traceNode c L hpos n s (fun y hy => hL y (by simp [linesList, hy]))).1 (fun a => ?_)
    split
    · exact sites_traceList c L hpos ns a.2 (fun y hy => hL y (by simp [linesList, hy]))
    · exact callsIn_nil L _
theorem sites_traceBlockBody (c : RCtx) (L : List Nat) (hpos : c.cfg.path ≠ [] ∨ ∀ x ∈ L, x ≠ 0) (body : List Node) (s : RS)
    (hL : ∀ x, x ∈ linesList body → x ∈ L) : (traceBlockBody c body s).CallsIn L := by
  unfold traceBlockBody
  refine callsIn_bind _ (sites_traceList c L hpos body s hL) (fun a => ?_)
  split
  · exact callsIn_ownTr_invalid L _
  · exact callsIn_nil L _
theorem sites_traceBranches (c : RCtx) (L : List Nat) (hpos : c.cfg.path ≠ [] ∨ ∀ x ∈ L, x ≠ 0) :
    ∀ (bs : List (CondT × List Node)) (s : RS), (∀ x, x ∈ linesBranches bs → x ∈ L) → (traceBranches c bs s).CallsIn L
  | [], s, _ => by unfold traceBranches; exact callsIn_nil L _
  | (t, body) :: rest, s, hL => by
    unfold traceBranches
    have h0 : (ownTr ⟨t.tagLine, true⟩ (evalCond c.P c.cfg.path t s)).CallsIn L := by
      intro l hl
      simp only [ownTr, List.mem_replicate] at hl
      have : (evalCond c.P c.cfg.path t s).calls = [] := evalCond_calls c.P c.cfg.path t s
      rw [this] at hl
      simp at hl
    refine callsIn_bind _ h0 (fun a => ?_)
    split
    · exact sites_traceBlockBody c L hpos body a.2 (fun y hy => hL y (by simp [linesBranches, hy]))
    · exact sites_traceBranches c L hpos rest a.2 (fun y hy => hL y (by simp [linesBranches, hy]))
theorem sites_traceCases (c : RCtx) (L : List Nat) (hpos : c.cfg.path ≠ [] ∨ ∀ x ∈ L, x ≠ 0) (sel : GoVal) :
    ∀ (cs : List (Option (Nat × List Expr) × List Node)) (s : RS), (∀ x, x ∈ linesCases cs → x ∈ L) → (traceCases c sel cs s).CallsIn L
  | [], s, _ => by unfold traceCases; exact callsIn_nil L _
  | (none, body) :: _, s, hL => by
    unfold traceCases
    exact sites_traceBlockBody c L hpos body s (fun y hy => hL y (by simp [linesCases, hy]))
  | (some (line, es), body) :: rest, s, hL => by
    unfold traceCases
    refine callsIn_bind _ (callsAt_ownTr L line (hL _ (by simp [linesCases])) _).callsIn (fun a => ?_)
    split
    · exact sites_traceBlockBody c L hpos body a.2 (fun y hy => hL y (by simp [linesCases, hy]))
    · exact sites_traceCases c L hpos sel rest a.2 (fun y hy => hL y (by simp [linesCases, hy]))
end
