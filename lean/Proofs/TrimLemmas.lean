import Liquid.Utf8
/-!
# `strings.TrimSpace` / `TrimLeftFunc` / `TrimRightFunc(unicode.IsSpace)` on byte strings
-/

/-- `l` is the UTF-8 encoding of a list of white-space runes (unicode.IsSpace) -/
def AllSpace (l : Bytes) : Prop := ∃ rs : List Rune, (∀ r ∈ rs, isSpaceRune r = true) ∧ l = encodeRunes rs
/-- strings.TrimSpace -/
def trimSpace (s : Bytes) : Bytes := trimRightSpace (trimLeftSpace s)

/-! ## UTF-8 decode / encode round trip -/

theorem toUInt8_eq (n : Nat) (b : UInt8) (h : n = b.toNat) : n.toUInt8 = b := by
  subst h; simp [Nat.toUInt8]

theorem isCont_iff (b : UInt8) : isCont b = true ↔ 128 ≤ b.toNat ∧ b.toNat ≤ 191 := by
  simp [isCont, UInt8.le_iff_toNat_le]

theorem encodeRune_1 (b0 : UInt8) (h : b0.toNat < 128) : encodeRune b0.toNat = [b0] := by
  simp [encodeRune, h]

theorem encodeRune_2 (b0 b1 : UInt8) (h0 : 194 ≤ b0.toNat) (h0' : b0.toNat < 224)
    (h1 : 128 ≤ b1.toNat) (h1' : b1.toNat ≤ 191) :
    encodeRune ((b0.toNat - 192) * 64 + (b1.toNat - 128)) = [b0, b1] := by
  generalize hr : (b0.toNat - 192) * 64 + (b1.toNat - 128) = r
  have e0 : (0xC0 + r / 64).toUInt8 = b0 := toUInt8_eq _ _ (by omega)
  have e1 : (0x80 + r % 64).toUInt8 = b1 := toUInt8_eq _ _ (by omega)
  have c1 : ¬ r < 0x80 := by omega
  have c2 : r < 0x800 := by omega
  simp only [encodeRune, if_neg c1, if_pos c2, e0, e1]

theorem encodeRune_3 (b0 b1 b2 : UInt8) (h0 : 224 ≤ b0.toNat) (h0' : b0.toNat < 240)
    (h1 : 128 ≤ b1.toNat) (h1' : b1.toNat ≤ 191) (h2 : 128 ≤ b2.toNat) (h2' : b2.toNat ≤ 191)
    (hE0 : b0.toNat = 224 → 160 ≤ b1.toNat) (hED : b0.toNat = 237 → b1.toNat ≤ 159) :
    encodeRune ((b0.toNat - 224) * 4096 + (b1.toNat - 128) * 64 + (b2.toNat - 128)) = [b0, b1, b2] := by
  generalize hr : (b0.toNat - 224) * 4096 + (b1.toNat - 128) * 64 + (b2.toNat - 128) = r
  have e0 : (0xE0 + r / 4096).toUInt8 = b0 := toUInt8_eq _ _ (by omega)
  have e1 : (0x80 + r / 64 % 64).toUInt8 = b1 := toUInt8_eq _ _ (by omega)
  have e2 : (0x80 + r % 64).toUInt8 = b2 := toUInt8_eq _ _ (by omega)
  have c1 : ¬ r < 0x80 := by omega
  have c2 : ¬ r < 0x800 := by omega
  have c3 : ¬ ((0xD800 ≤ r && r ≤ 0xDFFF) || r > 0x10FFFF) = true := by
    simp only [Bool.or_eq_true, Bool.and_eq_true, decide_eq_true_eq]; omega
  have c4 : r < 0x10000 := by omega
  simp only [encodeRune, if_neg c1, if_neg c2, if_neg c3, if_pos c4, e0, e1, e2]

theorem encodeRune_4 (b0 b1 b2 b3 : UInt8) (h0 : 240 ≤ b0.toNat) (h0' : b0.toNat < 245)
    (h1 : 128 ≤ b1.toNat) (h1' : b1.toNat ≤ 191) (h2 : 128 ≤ b2.toNat) (h2' : b2.toNat ≤ 191)
    (h3 : 128 ≤ b3.toNat) (h3' : b3.toNat ≤ 191)
    (hF0 : b0.toNat = 240 → 144 ≤ b1.toNat) (hF4 : b0.toNat = 244 → b1.toNat ≤ 143) :
    encodeRune ((b0.toNat - 240) * 262144 + (b1.toNat - 128) * 4096 + (b2.toNat - 128) * 64 + (b3.toNat - 128))
      = [b0, b1, b2, b3] := by
  generalize hr : (b0.toNat - 240) * 262144 + (b1.toNat - 128) * 4096 + (b2.toNat - 128) * 64 + (b3.toNat - 128) = r
  have e0 : (0xF0 + r / 262144).toUInt8 = b0 := toUInt8_eq _ _ (by omega)
  have e1 : (0x80 + r / 4096 % 64).toUInt8 = b1 := toUInt8_eq _ _ (by omega)
  have e2 : (0x80 + r / 64 % 64).toUInt8 = b2 := toUInt8_eq _ _ (by omega)
  have e3 : (0x80 + r % 64).toUInt8 = b3 := toUInt8_eq _ _ (by omega)
  have c1 : ¬ r < 0x80 := by omega
  have c2 : ¬ r < 0x800 := by omega
  have c3 : ¬ ((0xD800 ≤ r && r ≤ 0xDFFF) || r > 0x10FFFF) = true := by
    simp only [Bool.or_eq_true, Bool.and_eq_true, decide_eq_true_eq]; omega
  have c4 : ¬ r < 0x10000 := by omega
  simp only [encodeRune, if_neg c1, if_neg c2, if_neg c3, if_neg c4, e0, e1, e2, e3]
theorem decodeRune_cons (b0 : UInt8) (rest : Bytes) : decodeRune (b0 :: rest) =
    if b0 < 0x80 then (b0.toNat, 1)
    else if b0 < 0xC2 then (runeError, 1)
    else if b0 < 0xE0 then
      match rest with
      | b1 :: _ => if isCont b1 then ((b0.toNat - 0xC0) * 64 + (b1.toNat - 0x80), 2) else (runeError, 1)
      | _ => (runeError, 1)
    else if b0 < 0xF0 then
      match rest with
      | b1 :: b2 :: _ =>
        let lo : UInt8 := if b0 == 0xE0 then 0xA0 else 0x80
        let hi : UInt8 := if b0 == 0xED then 0x9F else 0xBF
        if lo ≤ b1 && b1 ≤ hi && isCont b2 then
          ((b0.toNat - 0xE0) * 4096 + (b1.toNat - 0x80) * 64 + (b2.toNat - 0x80), 3)
        else (runeError, 1)
      | _ => (runeError, 1)
    else if b0 < 0xF5 then
      match rest with
      | b1 :: b2 :: b3 :: _ =>
        let lo : UInt8 := if b0 == 0xF0 then 0x90 else 0x80
        let hi : UInt8 := if b0 == 0xF4 then 0x8F else 0xBF
        if lo ≤ b1 && b1 ≤ hi && isCont b2 && isCont b3 then
          ((b0.toNat - 0xF0) * 262144 + (b1.toNat - 0x80) * 4096 + (b2.toNat - 0x80) * 64 + (b3.toNat - 0x80), 4)
        else (runeError, 1)
      | _ => (runeError, 1)
    else (runeError, 1) := rfl

theorem decodeRune_nil : decodeRune [] = (runeError, 0) := rfl

theorem u8_ite_le (c : Prop) [Decidable c] (a b x : UInt8) :
    ((if c then a else b) ≤ x) ↔ ((c → a.toNat ≤ x.toNat) ∧ (¬ c → b.toNat ≤ x.toNat)) := by
  by_cases h : c <;> simp [h, UInt8.le_iff_toNat_le]

theorem u8_le_ite (c : Prop) [Decidable c] (a b x : UInt8) :
    (x ≤ (if c then a else b)) ↔ ((c → x.toNat ≤ a.toNat) ∧ (¬ c → x.toNat ≤ b.toNat)) := by
  by_cases h : c <;> simp [h, UInt8.le_iff_toNat_le]

theorem u8_beq_lit (b c : UInt8) : (b == c) = true ↔ b.toNat = c.toNat := by
  simp [UInt8.toNat_inj]

/-- a successful decode consumes exactly the canonical encoding of the rune -/
theorem decodeRune_encode (s : Bytes) (r : Rune) (w : Nat) (h : decodeRune s = (r, w))
    (hr : r ≠ runeError) : s = encodeRune r ++ s.drop w ∧ w = (encodeRune r).length := by
  cases s with
  | nil => simp [decodeRune] at h; exact absurd h.1.symm hr
  | cons b0 rest =>
    rw [decodeRune_cons] at h
    have hb0 := b0.toNat_lt
    simp only [UInt8.lt_iff_toNat_lt, u8_beq_lit, u8_ite_le, u8_le_ite, UInt8.reduceToNat, Bool.and_eq_true,
      decide_eq_true_eq, isCont_iff] at h
    split at h
    · next h0 =>
      simp only [Prod.mk.injEq] at h
      obtain ⟨rfl, rfl⟩ := h
      simp [encodeRune_1 _ h0]
    · split at h
      · simp only [Prod.mk.injEq] at h; exact absurd h.1.symm hr
      · split at h
        · split at h
          · next b1 tl =>
            split at h
            · next hc =>
              simp only [Prod.mk.injEq] at h
              obtain ⟨rfl, rfl⟩ := h
              simp [encodeRune_2 b0 b1 (by omega) (by omega) (by omega) (by omega)]
            · simp only [Prod.mk.injEq] at h; exact absurd h.1.symm hr
          · simp only [Prod.mk.injEq] at h; exact absurd h.1.symm hr
        · split at h
          · split at h
            · next b1 b2 tl =>
              split at h
              · next hc =>
                simp only [Prod.mk.injEq] at h
                obtain ⟨rfl, rfl⟩ := h
                simp [encodeRune_3 b0 b1 b2 (by omega) (by omega) (by omega) (by omega) (by omega) (by omega)
                  (by omega) (by omega)]
              · simp only [Prod.mk.injEq] at h; exact absurd h.1.symm hr
            · simp only [Prod.mk.injEq] at h; exact absurd h.1.symm hr
          · split at h
            · split at h
              · next b1 b2 b3 tl =>
                split at h
                · next hc =>
                  simp only [Prod.mk.injEq] at h
                  obtain ⟨rfl, rfl⟩ := h
                  simp [encodeRune_4 b0 b1 b2 b3 (by omega) (by omega) (by omega) (by omega) (by omega) (by omega)
                    (by omega) (by omega) (by omega) (by omega)]
                · simp only [Prod.mk.injEq] at h; exact absurd h.1.symm hr
              · simp only [Prod.mk.injEq] at h; exact absurd h.1.symm hr
            · simp only [Prod.mk.injEq] at h; exact absurd h.1.symm hr

theorem isSpaceRune_runeError : isSpaceRune runeError = false := by decide

theorem tl_encodeRune_length_pos (r : Rune) : 1 ≤ (encodeRune r).length := by
  unfold encodeRune
  repeat' split
  all_goals simp

/-! ## `AllSpace` -/

theorem tl_encodeRunes_nil : encodeRunes [] = [] := rfl

theorem tl_encodeRunes_cons (r : Rune) (rs : List Rune) :
    encodeRunes (r :: rs) = encodeRune r ++ encodeRunes rs := by
  simp [encodeRunes]

theorem tl_encodeRunes_append (a b : List Rune) :
    encodeRunes (a ++ b) = encodeRunes a ++ encodeRunes b := by
  simp [encodeRunes]

theorem AllSpace_nil : AllSpace [] := ⟨[], by simp, rfl⟩

theorem AllSpace_append {a b : Bytes} (ha : AllSpace a) (hb : AllSpace b) : AllSpace (a ++ b) := by
  obtain ⟨ra, ha1, rfl⟩ := ha
  obtain ⟨rb, hb1, rfl⟩ := hb
  refine ⟨ra ++ rb, ?_, (tl_encodeRunes_append ra rb).symm⟩
  intro r hr
  rcases List.mem_append.1 hr with h | h
  · exact ha1 r h
  · exact hb1 r h

theorem AllSpace_encodeRune {r : Rune} (h : isSpaceRune r = true) : AllSpace (encodeRune r) :=
  ⟨[r], by simpa using h, by simp [encodeRunes]⟩

/-- a decoded white-space rune consumes exactly its canonical encoding -/
theorem decodeRune_space (s : Bytes) (r : Rune) (w : Nat) (h : decodeRune s = (r, w))
    (hs : isSpaceRune r = true) :
    s = encodeRune r ++ s.drop (max w 1) ∧ 1 ≤ w ∧ w ≤ s.length ∧ s.take w = encodeRune r := by
  have hr : r ≠ runeError := by
    intro e; rw [e, isSpaceRune_runeError] at hs; cases hs
  obtain ⟨h1, h2⟩ := decodeRune_encode s r w h hr
  have hp := tl_encodeRune_length_pos r
  have hw : max w 1 = w := by omega
  have hl : s.length = (encodeRune r).length + (s.drop w).length := by
    conv => lhs; rw [h1]
    simp
  refine ⟨by rw [hw]; exact h1, by omega, by omega, ?_⟩
  conv => lhs; rw [h1]
  rw [h2]; simp

/-! ## left trim -/

theorem trimLeftSpaceAux_nil (n : Nat) : trimLeftSpaceAux n [] = [] := by
  cases n <;> rfl

theorem trimLeftSpaceAux_spec (n : Nat) : ∀ s : Bytes, s.length ≤ n →
    ∃ l, AllSpace l ∧ s = l ++ trimLeftSpaceAux n s ∧
      isSpaceRune (decodeRune (trimLeftSpaceAux n s)).1 = false := by
  induction n with
  | zero =>
    intro s hs
    have : s = [] := List.eq_nil_of_length_eq_zero (by omega)
    subst this
    exact ⟨[], AllSpace_nil, rfl, by decide⟩
  | succ n ih =>
    intro s hs
    cases s with
    | nil => exact ⟨[], AllSpace_nil, rfl, isSpaceRune_runeError⟩
    | cons b t =>
      rcases hd : decodeRune (b :: t) with ⟨r, w⟩
      simp only [trimLeftSpaceAux, hd]
      by_cases hsp : isSpaceRune r = true
      · rw [if_pos hsp]
        obtain ⟨e1, w1, w2, _⟩ := decodeRune_space _ r w hd hsp
        have hlen : ((b :: t).drop (max w 1)).length ≤ n := by
          simp only [List.length_drop, List.length_cons] at *; omega
        obtain ⟨l, hl, e2, hns⟩ := ih _ hlen
        refine ⟨encodeRune r ++ l, AllSpace_append (AllSpace_encodeRune hsp) hl, ?_, hns⟩
        rw [List.append_assoc, ← e2]; exact e1
      · rw [if_neg hsp]
        refine ⟨[], AllSpace_nil, rfl, ?_⟩
        rw [hd]; simpa using hsp

theorem trimLeftSpace_spec (s : Bytes) :
    ∃ l, AllSpace l ∧ s = l ++ trimLeftSpace s ∧ isSpaceRune (decodeRune (trimLeftSpace s)).1 = false :=
  trimLeftSpaceAux_spec s.length s (Nat.le_refl _)

/-! ## right trim -/

/-- a white-space rune decoded at the end of a string is preceded by... exactly its encoding -/
theorem decodeLastRuneRev_space (rev : Bytes) (r : Rune) (w : Nat)
    (h : decodeLastRuneRev rev = (r, w)) (hs : isSpaceRune r = true) :
    rev = (encodeRune r).reverse ++ rev.drop (max w 1) ∧ 1 ≤ w ∧ w ≤ rev.length ∧
      (rev.take w).reverse = encodeRune r := by
  have hr : r ≠ runeError := by
    intro e; rw [e, isSpaceRune_runeError] at hs; cases hs
  cases rev with
  | nil => simp [decodeLastRuneRev] at h; exact absurd h.1.symm hr
  | cons last t =>
    simp only [decodeLastRuneRev] at h
    split at h
    · next h0 =>
      simp only [Prod.mk.injEq] at h
      obtain ⟨rfl, rfl⟩ := h
      simp only [UInt8.lt_iff_toNat_lt, UInt8.reduceToNat] at h0
      simp [encodeRune_1 _ h0]
    · split at h
      · simp only [Prod.mk.injEq] at h; exact absurd h.1.symm hr
      · next i hi =>
        generalize hrev : last :: t = rev at *
        rcases hd : decodeRune (List.take (i + 1) rev).reverse with ⟨r', w'⟩
        rw [hd] at h
        simp only at h
        split at h
        · next hw =>
          simp only [Prod.mk.injEq] at h
          obtain ⟨rfl, rfl⟩ := h
          have hw' : w' = i + 1 := by simpa using hw
          obtain ⟨e1, w1, w2, e2⟩ := decodeRune_space _ r' w' hd hs
          have hp := tl_encodeRune_length_pos r'
          simp only [List.length_reverse, List.length_take] at w2
          have hlen : w' ≤ rev.length := by omega
          have hmax : max w' 1 = w' := by omega
          rw [hmax]
          have e3 : (List.take w' rev).reverse = encodeRune r' := by
            rw [← hw'] at e2
            rw [← e2]
            apply (List.take_of_length_le _).symm
            simp only [List.length_reverse, List.length_take]; omega
          refine ⟨?_, w1, hlen, e3⟩
          rw [← e3, List.reverse_reverse, List.take_append_drop]
        · simp only [Prod.mk.injEq] at h; exact absurd h.1.symm hr

theorem decodeLastRuneRev_nil : decodeLastRuneRev [] = (runeError, 0) := rfl

theorem trimRightSpaceRevAux_spec (n : Nat) : ∀ rev : Bytes, rev.length ≤ n →
    ∃ r, AllSpace r ∧ rev = r.reverse ++ trimRightSpaceRevAux n rev ∧
      isSpaceRune (decodeLastRuneRev (trimRightSpaceRevAux n rev)).1 = false := by
  induction n with
  | zero =>
    intro s hs
    have : s = [] := List.eq_nil_of_length_eq_zero (by omega)
    subst this
    exact ⟨[], AllSpace_nil, rfl, isSpaceRune_runeError⟩
  | succ n ih =>
    intro s hs
    cases s with
    | nil => exact ⟨[], AllSpace_nil, rfl, isSpaceRune_runeError⟩
    | cons b t =>
      rcases hd : decodeLastRuneRev (b :: t) with ⟨r, w⟩
      simp only [trimRightSpaceRevAux, hd]
      by_cases hsp : isSpaceRune r = true
      · rw [if_pos hsp]
        obtain ⟨e1, w1, w2, _⟩ := decodeLastRuneRev_space _ r w hd hsp
        have hlen : ((b :: t).drop (max w 1)).length ≤ n := by
          simp only [List.length_drop, List.length_cons] at *; omega
        obtain ⟨l, hl, e2, hns⟩ := ih _ hlen
        refine ⟨l ++ encodeRune r, AllSpace_append hl (AllSpace_encodeRune hsp), ?_, hns⟩
        rw [List.reverse_append, List.append_assoc, ← e2]; exact e1
      · rw [if_neg hsp]
        refine ⟨[], AllSpace_nil, rfl, ?_⟩
        rw [hd]; simpa using hsp

theorem trimRightSpace_spec (s : Bytes) :
    ∃ r, AllSpace r ∧ s = trimRightSpace s ++ r ∧
      isSpaceRune (decodeLastRuneRev (trimRightSpace s).reverse).1 = false := by
  obtain ⟨r, hr, e, hns⟩ := trimRightSpaceRevAux_spec s.length s.reverse (by simp)
  refine ⟨r, hr, ?_, ?_⟩
  · have := congrArg List.reverse e
    simpa [trimRightSpace] using this
  · simpa [trimRightSpace] using hns

/-! ## prefixes: a truncated sequence decodes to `RuneError` -/

set_option linter.unusedSimpArgs false in
/-- the first rune of a prefix is the first rune of the whole string, or `RuneError` -/
theorem decodeRune_prefix (p t : Bytes) (hp : p <+: t) :
    decodeRune p = decodeRune t ∨ (decodeRune p).1 = runeError := by
  obtain ⟨q, rfl⟩ := hp
  cases p with
  | nil => right; rfl
  | cons b0 p' =>
    rcases p' with _ | ⟨b1, _ | ⟨b2, _ | ⟨b3, p4⟩⟩⟩ <;>
    simp only [List.cons_append, List.nil_append, decodeRune_cons] <;>
    by_cases h1 : b0 < 0x80 <;> simp only [h1, if_true, if_false, true_or, or_true] <;>
    by_cases h2 : b0 < 0xC2 <;> simp only [h2, if_true, if_false, true_or, or_true] <;>
    by_cases h3 : b0 < 0xE0 <;> simp only [h3, if_true, if_false, true_or, or_true] <;>
    by_cases h4 : b0 < 0xF0 <;> simp only [h4, if_true, if_false, true_or, or_true] <;>
    by_cases h5 : b0 < 0xF5 <;> simp only [h5, if_true, if_false, true_or, or_true]

theorem decodeRune_prefix_not_space (p t : Bytes) (hp : p <+: t)
    (h : isSpaceRune (decodeRune t).1 = false) : isSpaceRune (decodeRune p).1 = false := by
  rcases decodeRune_prefix p t hp with e | e
  · rw [e]; exact h
  · rw [e]; exact isSpaceRune_runeError

theorem trimLeftSpace_suffix (s : Bytes) : trimLeftSpace s <:+ s := by
  obtain ⟨l, _, e, _⟩ := trimLeftSpace_spec s
  exact ⟨l, e.symm⟩

theorem trimRightSpace_prefix (s : Bytes) : trimRightSpace s <+: s := by
  obtain ⟨r, _, e, _⟩ := trimRightSpace_spec s
  exact ⟨r, e.symm⟩

/-! ## `strings.TrimSpace` -/

theorem trimSpace_spec (s : Bytes) :
    ∃ l r, AllSpace l ∧ AllSpace r ∧ s = l ++ trimSpace s ++ r ∧
      isSpaceRune (decodeRune (trimSpace s)).1 = false ∧
      isSpaceRune (decodeLastRuneRev (trimSpace s).reverse).1 = false := by
  obtain ⟨l, hl, e1, n1⟩ := trimLeftSpace_spec s
  obtain ⟨r, hr, e2, n2⟩ := trimRightSpace_spec (trimLeftSpace s)
  refine ⟨l, r, hl, hr, ?_, ?_, n2⟩
  · rw [List.append_assoc]; unfold trimSpace; rw [← e2]; exact e1
  · exact decodeRune_prefix_not_space _ _ (trimRightSpace_prefix _) n1

/-! ## fixed points and idempotence -/

theorem trimLeftSpace_of_not_space (s : Bytes) (h : isSpaceRune (decodeRune s).1 = false) :
    trimLeftSpace s = s := by
  unfold trimLeftSpace
  cases s with
  | nil => rfl
  | cons b t =>
    rcases hd : decodeRune (b :: t) with ⟨r, w⟩
    rw [hd] at h
    simp only [List.length_cons, trimLeftSpaceAux, hd]
    simp only at h
    simp [h]

theorem trimRightSpaceRevAux_of_not_space (rev : Bytes)
    (h : isSpaceRune (decodeLastRuneRev rev).1 = false) :
    trimRightSpaceRevAux rev.length rev = rev := by
  cases rev with
  | nil => rfl
  | cons b t =>
    rcases hd : decodeLastRuneRev (b :: t) with ⟨r, w⟩
    rw [hd] at h
    simp only [List.length_cons, trimRightSpaceRevAux, hd]
    simp only at h
    simp [h]

theorem trimRightSpace_of_not_space (s : Bytes)
    (h : isSpaceRune (decodeLastRuneRev s.reverse).1 = false) : trimRightSpace s = s := by
  have := trimRightSpaceRevAux_of_not_space s.reverse h
  rw [List.length_reverse] at this
  rw [trimRightSpace, this, List.reverse_reverse]

theorem trimLeftSpace_idem (s : Bytes) : trimLeftSpace (trimLeftSpace s) = trimLeftSpace s := by
  obtain ⟨_, _, _, h⟩ := trimLeftSpace_spec s
  exact trimLeftSpace_of_not_space _ h

theorem trimRightSpace_idem (s : Bytes) : trimRightSpace (trimRightSpace s) = trimRightSpace s := by
  obtain ⟨_, _, _, h⟩ := trimRightSpace_spec s
  exact trimRightSpace_of_not_space _ h

theorem trimSpace_idem (s : Bytes) : trimSpace (trimSpace s) = trimSpace s := by
  obtain ⟨_, _, _, _, _, h1, h2⟩ := trimSpace_spec s
  rw [trimSpace, trimLeftSpace_of_not_space _ h1, trimRightSpace_of_not_space _ h2]

/-- a string with no white space at either end is a fixed point of `TrimSpace` -/
theorem trimSpace_of_not_space (s : Bytes) (h1 : isSpaceRune (decodeRune s).1 = false)
    (h2 : isSpaceRune (decodeLastRuneRev s.reverse).1 = false) : trimSpace s = s := by
  rw [trimSpace, trimLeftSpace_of_not_space _ h1, trimRightSpace_of_not_space _ h2]

/-! ## lengths -/

theorem trimLeftSpace_length_le (s : Bytes) : (trimLeftSpace s).length ≤ s.length := by
  obtain ⟨l, _, e, _⟩ := trimLeftSpace_spec s
  have := congrArg List.length e
  simp only [List.length_append] at this
  omega

theorem trimRightSpace_length_le (s : Bytes) : (trimRightSpace s).length ≤ s.length := by
  obtain ⟨r, _, e, _⟩ := trimRightSpace_spec s
  have := congrArg List.length e
  simp only [List.length_append] at this
  omega

theorem trimSpace_length_le (s : Bytes) : (trimSpace s).length ≤ s.length :=
  Nat.le_trans (trimRightSpace_length_le _) (trimLeftSpace_length_le s)

/-- `TrimSpace` returns an infix (a sub-slice) of its argument -/
theorem trimSpace_infix (s : Bytes) : trimSpace s <:+: s := by
  obtain ⟨l, r, _, _, e, _⟩ := trimSpace_spec s
  exact ⟨l, r, e.symm⟩

/-! ## completeness: the decompositions are unique -/

def spaceRunes : List Nat := [0x09, 0x0A, 0x0B, 0x0C, 0x0D, 0x20, 0x85, 0xA0, 0x1680, 0x2000, 0x2001, 0x2002,
  0x2003, 0x2004, 0x2005, 0x2006, 0x2007, 0x2008, 0x2009, 0x200A, 0x2028, 0x2029, 0x202F, 0x205F, 0x3000]

theorem isSpaceRune_mem (r : Nat) (h : isSpaceRune r = true) : r ∈ spaceRunes := by
  simp only [isSpaceRune, Bool.or_eq_true, Bool.and_eq_true, beq_iff_eq, decide_eq_true_eq] at h
  rcases h with (((((((((h | h) | h) | h) | h) | h) | h) | h) | h) | h) | h
  · subst h; decide
  · have h' : (9:Nat) ≤ r ∧ r ≤ (13:Nat) := h
    have : r = 9 ∨ r = 10 ∨ r = 11 ∨ r = 12 ∨ r = 13 := by omega
    rcases this with h | h | h | h | h <;> subst h <;> decide
  · subst h; decide
  · subst h; decide
  · subst h; decide
  · have h' : (8192:Nat) ≤ r ∧ r ≤ (8202:Nat) := h
    have : r = 8192 ∨ r = 8193 ∨ r = 8194 ∨ r = 8195 ∨ r = 8196 ∨ r = 8197 ∨ r = 8198 ∨ r = 8199 ∨
      r = 8200 ∨ r = 8201 ∨ r = 8202 := by omega
    rcases this with h | h | h | h | h | h | h | h | h | h | h <;> subst h <;> decide
  · subst h; decide
  · subst h; decide
  · subst h; decide
  · subst h; decide
  · subst h; decide

theorem decodeRune_encode_space (r : Rune) (h : isSpaceRune r = true) (rest : Bytes) :
    decodeRune (encodeRune r ++ rest) = (r, (encodeRune r).length) := by
  have hm := isSpaceRune_mem r h
  simp only [spaceRunes, List.mem_cons, List.not_mem_nil, or_false] at hm
  rcases hm with h | h | h | h | h | h | h | h | h | h | h | h | h | h | h | h | h | h | h | h | h | h | h | h | h <;>
  subst h <;> rfl

theorem decodeLastRuneRev_encode_space (r : Rune) (h : isSpaceRune r = true) (rest : Bytes) :
    decodeLastRuneRev ((encodeRune r).reverse ++ rest) = (r, (encodeRune r).length) := by
  have hm := isSpaceRune_mem r h
  simp only [spaceRunes, List.mem_cons, List.not_mem_nil, or_false] at hm
  rcases hm with h | h | h | h | h | h | h | h | h | h | h | h | h | h | h | h | h | h | h | h | h | h | h | h | h <;>
  subst h <;> rfl

theorem trimLeftSpaceAux_fuel (n : Nat) : ∀ (m : Nat) (s : Bytes), s.length ≤ n → s.length ≤ m →
    trimLeftSpaceAux n s = trimLeftSpaceAux m s := by
  induction n with
  | zero =>
    intro m s hn _
    have : s = [] := List.eq_nil_of_length_eq_zero (by omega)
    subst this
    rw [trimLeftSpaceAux_nil, trimLeftSpaceAux_nil]
  | succ n ih =>
    intro m s hn hm
    cases s with
    | nil => rw [trimLeftSpaceAux_nil, trimLeftSpaceAux_nil]
    | cons b t =>
      cases m with
      | zero => simp at hm
      | succ m =>
        rcases hd : decodeRune (b :: t) with ⟨r, w⟩
        simp only [trimLeftSpaceAux, hd]
        by_cases hsp : isSpaceRune r = true
        · rw [if_pos hsp, if_pos hsp]
          apply ih <;> simp only [List.length_drop, List.length_cons] at * <;> omega
        · rw [if_neg hsp, if_neg hsp]

theorem trimLeftSpaceAux_eq (n : Nat) (s : Bytes) (h : s.length ≤ n) :
    trimLeftSpaceAux n s = trimLeftSpace s :=
  trimLeftSpaceAux_fuel n s.length s h (Nat.le_refl _)

theorem trimLeftSpace_encodeRune_append (r : Rune) (hs : isSpaceRune r = true) (t : Bytes) :
    trimLeftSpace (encodeRune r ++ t) = trimLeftSpace t := by
  have hp := tl_encodeRune_length_pos r
  have hd := decodeRune_encode_space r hs t
  generalize hs' : encodeRune r ++ t = s at hd
  cases s with
  | nil =>
    have := congrArg List.length hs'
    simp only [List.length_append, List.length_nil] at this; omega
  | cons b t' =>
    simp only [trimLeftSpace, List.length_cons, trimLeftSpaceAux, hd, hs, if_true]
    have hm : max (encodeRune r).length 1 = (encodeRune r).length := by omega
    rw [hm, ← hs', List.drop_left]
    apply trimLeftSpaceAux_eq
    have := congrArg List.length hs'
    simp only [List.length_append, List.length_cons] at this
    omega

theorem trimLeftSpace_AllSpace_append {l : Bytes} (hl : AllSpace l) (t : Bytes) :
    trimLeftSpace (l ++ t) = trimLeftSpace t := by
  obtain ⟨rs, hrs, rfl⟩ := hl
  induction rs with
  | nil => rfl
  | cons r rs ih =>
    rw [tl_encodeRunes_cons, List.append_assoc,
      trimLeftSpace_encodeRune_append r (hrs r (by simp))]
    exact ih (fun x hx => hrs x (by simp [hx]))

/-- uniqueness of the left-trim decomposition -/
theorem trimLeftSpace_unique {l t : Bytes} (hl : AllSpace l)
    (ht : isSpaceRune (decodeRune t).1 = false) : trimLeftSpace (l ++ t) = t := by
  rw [trimLeftSpace_AllSpace_append hl, trimLeftSpace_of_not_space t ht]

theorem trimLeftSpace_of_AllSpace {l : Bytes} (hl : AllSpace l) : trimLeftSpace l = [] := by
  have := trimLeftSpace_AllSpace_append hl []
  simpa [trimLeftSpace, trimLeftSpaceAux] using this

theorem trimRightSpaceRevAux_nil (n : Nat) : trimRightSpaceRevAux n [] = [] := by
  cases n <;> rfl

theorem trimRightSpaceRevAux_fuel (n : Nat) : ∀ (m : Nat) (s : Bytes), s.length ≤ n → s.length ≤ m →
    trimRightSpaceRevAux n s = trimRightSpaceRevAux m s := by
  induction n with
  | zero =>
    intro m s hn _
    have : s = [] := List.eq_nil_of_length_eq_zero (by omega)
    subst this
    rw [trimRightSpaceRevAux_nil, trimRightSpaceRevAux_nil]
  | succ n ih =>
    intro m s hn hm
    cases s with
    | nil => rw [trimRightSpaceRevAux_nil, trimRightSpaceRevAux_nil]
    | cons b t =>
      cases m with
      | zero => simp at hm
      | succ m =>
        rcases hd : decodeLastRuneRev (b :: t) with ⟨r, w⟩
        simp only [trimRightSpaceRevAux, hd]
        by_cases hsp : isSpaceRune r = true
        · rw [if_pos hsp, if_pos hsp]
          apply ih <;> simp only [List.length_drop, List.length_cons] at * <;> omega
        · rw [if_neg hsp, if_neg hsp]

theorem trimRightSpace_append_encodeRune (r : Rune) (hs : isSpaceRune r = true) (t : Bytes) :
    trimRightSpace (t ++ encodeRune r) = trimRightSpace t := by
  have hp := tl_encodeRune_length_pos r
  have hd := decodeLastRuneRev_encode_space r hs t.reverse
  unfold trimRightSpace
  congr 1
  rw [List.reverse_append]
  generalize hs' : (encodeRune r).reverse ++ t.reverse = s at hd
  have hlen := congrArg List.length hs'
  simp only [List.length_append, List.length_reverse] at hlen
  cases s with
  | nil => simp only [List.length_nil] at hlen; omega
  | cons b t' =>
    have hl : (t ++ encodeRune r).length = t'.length + 1 := by
      simp only [List.length_append, List.length_cons] at *; omega
    rw [hl]
    simp only [trimRightSpaceRevAux, hd, hs, if_true]
    have hm : max (encodeRune r).length 1 = (encodeRune r).length := by omega
    have hdrop : List.drop (encodeRune r).length (b :: t') = t.reverse := by
      rw [← hs', ← List.length_reverse, List.drop_left]
    rw [hm, hdrop]
    have := trimRightSpaceRevAux_fuel t'.length t.length t.reverse
      (by simp only [List.length_reverse, List.length_cons] at *; omega) (by simp)
    rw [this]

theorem trimRightSpace_append_AllSpace {r : Bytes} (hr : AllSpace r) (t : Bytes) :
    trimRightSpace (t ++ r) = trimRightSpace t := by
  obtain ⟨rs, hrs, rfl⟩ := hr
  induction rs generalizing t with
  | nil => simp [tl_encodeRunes_nil]
  | cons x rs ih =>
    rw [tl_encodeRunes_cons, ← List.append_assoc, ih _ (fun y hy => hrs y (by simp [hy]))]
    exact trimRightSpace_append_encodeRune x (hrs x (by simp)) t

/-- uniqueness of the right-trim decomposition -/
theorem trimRightSpace_unique {t r : Bytes} (hr : AllSpace r)
    (ht : isSpaceRune (decodeLastRuneRev t.reverse).1 = false) : trimRightSpace (t ++ r) = t := by
  rw [trimRightSpace_append_AllSpace hr, trimRightSpace_of_not_space t ht]

theorem trimRightSpace_of_AllSpace {r : Bytes} (hr : AllSpace r) : trimRightSpace r = [] := by
  have := trimRightSpace_append_AllSpace hr []
  simpa [trimRightSpace, trimRightSpaceRevAux] using this

theorem trimSpace_of_AllSpace {l : Bytes} (hl : AllSpace l) : trimSpace l = [] := by
  rw [trimSpace, trimLeftSpace_of_AllSpace hl]; rfl
theorem decodeRune_append_start (m : Bytes) (hm : m ≠ []) (b : UInt8) (hb : isCont b = false)
    (q : Bytes) : decodeRune (m ++ b :: q) = decodeRune m := by
  have hb' : ¬ (128 ≤ b.toNat ∧ b.toNat ≤ 191) := by
    rw [← isCont_iff, hb]; simp
  cases m with
  | nil => exact absurd rfl hm
  | cons b0 p' =>
    rcases p' with _ | ⟨b1, _ | ⟨b2, _ | ⟨b3, p4⟩⟩⟩ <;>
    rcases q with _ | ⟨c2, _ | ⟨c3, q'⟩⟩ <;>
    simp only [List.cons_append, List.nil_append, decodeRune_cons] <;>
    by_cases h1 : b0 < 0x80 <;> (try simp only [h1, if_true, if_false]) <;>
    by_cases h2 : b0 < 0xC2 <;> (try simp only [h2, if_true, if_false]) <;>
    by_cases h3 : b0 < 0xE0 <;> (try simp only [h3, if_true, if_false]) <;>
    by_cases h4 : b0 < 0xF0 <;> (try simp only [h4, if_true, if_false]) <;>
    by_cases h5 : b0 < 0xF5 <;> (try simp only [h5, if_true, if_false])
    all_goals first
      | with_reducible rfl
      | (rw [if_neg]
         intro hC
         simp only [hb, Bool.and_eq_true, decide_eq_true_eq, u8_beq_lit, u8_ite_le, u8_le_ite,
           UInt8.reduceToNat, isCont_iff, Bool.false_eq_true, and_false, false_and] at hC
         try omega)
  

theorem encodeRune_space_head (x : Rune) (h : isSpaceRune x = true) :
    ∃ b q, encodeRune x = b :: q ∧ isCont b = false := by
  have hm := isSpaceRune_mem x h
  simp only [spaceRunes, List.mem_cons, List.not_mem_nil, or_false] at hm
  rcases hm with h | h | h | h | h | h | h | h | h | h | h | h | h | h | h | h | h | h | h | h | h | h | h | h | h <;>
  subst h <;> exact ⟨_, _, rfl, rfl⟩

theorem AllSpace_head {r : Bytes} (hr : AllSpace r) :
    r = [] ∨ ∃ b q, r = b :: q ∧ isCont b = false := by
  obtain ⟨rs, hrs, rfl⟩ := hr
  cases rs with
  | nil => left; rfl
  | cons x rs =>
    right
    obtain ⟨b, q, e, hb⟩ := encodeRune_space_head x (hrs x (by simp))
    exact ⟨b, q ++ encodeRunes rs, by rw [tl_encodeRunes_cons, e]; rfl, hb⟩

/-- white space appended to a non-empty string does not change its first rune -/
theorem decodeRune_append_AllSpace (m : Bytes) (hm : m ≠ []) {r : Bytes} (hr : AllSpace r) :
    decodeRune (m ++ r) = decodeRune m := by
  rcases AllSpace_head hr with rfl | ⟨b, q, rfl, hb⟩
  · rw [List.append_nil]
  · exact decodeRune_append_start m hm b hb q

/-- uniqueness of the `TrimSpace` decomposition -/
theorem trimSpace_unique {l m r : Bytes} (hl : AllSpace l) (hr : AllSpace r)
    (h1 : isSpaceRune (decodeRune m).1 = false)
    (h2 : isSpaceRune (decodeLastRuneRev m.reverse).1 = false) :
    trimSpace (l ++ m ++ r) = m := by
  by_cases hm : m = []
  · subst hm
    rw [List.append_nil]
    exact trimSpace_of_AllSpace (AllSpace_append hl hr)
  · rw [trimSpace, List.append_assoc, trimLeftSpace_AllSpace_append hl,
      trimLeftSpace_of_not_space _ (by rw [decodeRune_append_AllSpace m hm hr]; exact h1)]
    exact trimRightSpace_unique hr h2

/-- characterisation of `TrimSpace` -/
theorem trimSpace_eq_iff (s m : Bytes) :
    trimSpace s = m ↔ ∃ l r, AllSpace l ∧ AllSpace r ∧ s = l ++ m ++ r ∧
      isSpaceRune (decodeRune m).1 = false ∧ isSpaceRune (decodeLastRuneRev m.reverse).1 = false := by
  constructor
  · rintro rfl; exact trimSpace_spec s
  · rintro ⟨l, r, hl, hr, rfl, h1, h2⟩; exact trimSpace_unique hl hr h1 h2

/-- characterisation of the left trim -/
theorem trimLeftSpace_eq_iff (s t : Bytes) :
    trimLeftSpace s = t ↔ ∃ l, AllSpace l ∧ s = l ++ t ∧ isSpaceRune (decodeRune t).1 = false := by
  constructor
  · rintro rfl; exact trimLeftSpace_spec s
  · rintro ⟨l, hl, rfl, h⟩; exact trimLeftSpace_unique hl h

/-- characterisation of the right trim -/
theorem trimRightSpace_eq_iff (s t : Bytes) :
    trimRightSpace s = t ↔
      ∃ r, AllSpace r ∧ s = t ++ r ∧ isSpaceRune (decodeLastRuneRev t.reverse).1 = false := by
  constructor
  · rintro rfl; exact trimRightSpace_spec s
  · rintro ⟨r, hr, rfl, h⟩; exact trimRightSpace_unique hr h
