import Proofs.E2ERun
/-!
# Block parser and compiler do not look at the source text of tag and object tokens

`unsrc` erases the `source` field of tag and object tokens. Outside raw blocks (whose bodies are the
token sources) the block parser commutes with `unsrc`, and the compiler ignores it altogether.
-/

def unsrc (t : Token) : Token :=
  match t.ty with
  | .tag => { t with source := [] }
  | .obj => { t with source := [] }
  | _ => t

@[simp] theorem unsrc_ty (t : Token) : (unsrc t).ty = t.ty := by unfold unsrc; split <;> simp_all
@[simp] theorem unsrc_name (t : Token) : (unsrc t).name = t.name := by unfold unsrc; split <;> rfl
@[simp] theorem unsrc_args (t : Token) : (unsrc t).args = t.args := by unfold unsrc; split <;> rfl
@[simp] theorem unsrc_line (t : Token) : (unsrc t).line = t.line := by unfold unsrc; split <;> rfl
theorem unsrc_of_text {t : Token} (h : t.ty = .text) : unsrc t = t := by unfold unsrc; simp [h]
theorem unsrc_source_text {t : Token} (h : t.ty = .text) : (unsrc t).source = t.source := by rw [unsrc_of_text h]

mutual
def AST.unsrc : AST → AST
  | .text t => .text t
  | .obj t => .obj (_root_.unsrc t)
  | .tag t => .tag (_root_.unsrc t)
  | .trim l => .trim l
  | .raw sl => .raw sl
  | .block t body cls => .block (_root_.unsrc t) (unsrcList body) (unsrcClauses cls)
def unsrcList : List AST → List AST
  | [] => []
  | n :: ns => n.unsrc :: unsrcList ns
def unsrcClauses : List (Token × List AST) → List (Token × List AST)
  | [] => []
  | (t, b) :: cs => (_root_.unsrc t, unsrcList b) :: unsrcClauses cs
end

theorem unsrcList_append : ∀ (a b : List AST), unsrcList (a ++ b) = unsrcList a ++ unsrcList b
  | [], _ => rfl
  | x :: a, b => by simp [unsrcList, unsrcList_append a b]

theorem unsrcList_reverse : ∀ (a : List AST), unsrcList a.reverse = (unsrcList a).reverse
  | [] => rfl
  | x :: a => by simp [unsrcList, unsrcList_append, unsrcList_reverse a]

theorem unsrcClauses_append : ∀ (a b : List (Token × List AST)), unsrcClauses (a ++ b) = unsrcClauses a ++ unsrcClauses b
  | [], _ => rfl
  | (t, x) :: a, b => by simp [unsrcClauses, unsrcClauses_append a b]

theorem unsrcClauses_reverse : ∀ (a : List (Token × List AST)), unsrcClauses a.reverse = (unsrcClauses a).reverse
  | [] => rfl
  | (t, x) :: a => by simp [unsrcClauses, unsrcClauses_append, unsrcClauses_reverse a]

def Frame.unsrc (f : Frame) : Frame :=
  { tok := _root_.unsrc f.tok, outer := unsrcList f.outer, body := f.body.map unsrcList,
    clauses := unsrcClauses f.clauses, cur := f.cur.map _root_.unsrc }

def PMode.unsrc : PMode → PMode
  | .normal => .normal
  | .comment o => .comment (_root_.unsrc o)
  | .raw o sl => .raw (_root_.unsrc o) sl

def PState.unsrc (s : PState) : PState :=
  { cur := unsrcList s.cur, stack := s.stack.map Frame.unsrc, mode := s.mode.unsrc }

def Res.mapOk {ε α β} (f : α → β) : Res ε α → Res ε β
  | .ok a => .ok (f a)
  | .err e => .err e
  | .panic w => .panic w
  | .unmodelled w => .unmodelled w

def PMode.isRaw : PMode → Bool
  | .raw _ _ => true
  | _ => false

theorem closeFrame_unsrc (f : Frame) (cur : List AST) :
    closeFrame f.unsrc (unsrcList cur) = (closeFrame f cur).unsrc := by
  obtain ⟨tok, outer, body, clauses, fc⟩ := f
  cases fc with
  | none => simp [closeFrame, Frame.unsrc, AST.unsrc, unsrcList_reverse, unsrcClauses]
  | some c =>
    cases body with
    | none => simp [closeFrame, Frame.unsrc, AST.unsrc, unsrcList_reverse, unsrcClauses, unsrcClauses_append, unsrcClauses_reverse, unsrcList]
    | some b => simp [closeFrame, Frame.unsrc, AST.unsrc, unsrcList_reverse, unsrcClauses, unsrcClauses_append, unsrcClauses_reverse]

theorem parentOk_unsrc (cs : Syn) (st : List Frame) :
    parentOk cs (st.map Frame.unsrc).head? = parentOk cs st.head? := by
  cases st with
  | nil => rfl
  | cons f fs => cases cs <;> simp [parentOk, Frame.unsrc]

/-- outside raw mode, on a token that does not open a raw block, one step of the block parser
    commutes with erasing the sources of tag and object tokens, and stays outside raw mode -/
theorem parseStep_unsrc (g : Grammar) (chk : Bytes → Option Cause) (s : PState) (t : Token)
    (hm : s.mode.isRaw = false) (ht : ¬ (t.ty = .tag ∧ t.name = rawName)) :
    parseStep g chk s.unsrc (unsrc t) = (parseStep g chk s t).mapOk PState.unsrc ∧
    (∀ s', parseStep g chk s t = .ok s' → s'.mode.isRaw = false) := by
  obtain ⟨cur, st, mode⟩ := s
  cases mode with
  | raw o sl => cases hm
  | comment o =>
    constructor
    · simp only [parseStep, PState.unsrc, PMode.unsrc, unsrc_ty, unsrc_name]
      split <;> rfl
    · intro s' h
      simp only [parseStep] at h
      split at h <;> (cases h; rfl)
  | normal =>
    cases hty : t.ty with
    | text =>
      constructor
      · rw [unsrc_of_text hty]
        simp [parseStep, hty, PState.unsrc, PMode.unsrc, Res.mapOk, unsrcList, AST.unsrc]
      · intro s' h; simp only [parseStep, hty] at h; cases h; rfl
    | trimL =>
      constructor
      · simp [parseStep, hty, PState.unsrc, PMode.unsrc, Res.mapOk, unsrcList, AST.unsrc]
      · intro s' h; simp only [parseStep, hty] at h; cases h; rfl
    | trimR =>
      constructor
      · simp [parseStep, hty, PState.unsrc, PMode.unsrc, Res.mapOk, unsrcList, AST.unsrc]
      · intro s' h; simp only [parseStep, hty] at h; cases h; rfl
    | obj =>
      constructor
      · simp only [parseStep, hty, PState.unsrc, PMode.unsrc, unsrc_ty, unsrc_args, unsrc_line]
        cases chk t.args <;> simp [Res.mapOk, PState.unsrc, PMode.unsrc, unsrcList, AST.unsrc]
      · intro s' h
        simp only [parseStep, hty] at h
        split at h
        · cases h
        · cases h; rfl
    | tag =>
      have hnr : (t.name == rawName) = false := by
        cases h : t.name == rawName with
        | false => rfl
        | true => exact absurd ⟨hty, by simpa using h⟩ ht
      constructor
      · simp only [parseStep, hty, PState.unsrc, PMode.unsrc, unsrc_ty, unsrc_name, unsrc_line, hnr]
        cases hsyn : g.syntaxOf t.name with
        | none => simp [Res.mapOk, PState.unsrc, PMode.unsrc, unsrcList, AST.unsrc]
        | some cs =>
          simp only
          split
          · simp [Res.mapOk, PState.unsrc, PMode.unsrc]
          · simp only [Bool.false_eq_true, if_false, parentOk_unsrc]
            split
            · rfl
            · cases cs with
              | start n => simp [Res.mapOk, PState.unsrc, PMode.unsrc, Frame.unsrc, unsrcList, unsrcClauses]
              | clause n ps =>
                cases st with
                | nil => rfl
                | cons f fs =>
                  obtain ⟨tok, outer, body, clauses, fc⟩ := f
                  cases fc <;>
                    simp [Res.mapOk, PState.unsrc, PMode.unsrc, Frame.unsrc, unsrcList, unsrcClauses, unsrcList_reverse]
              | end_ n sn =>
                cases st with
                | nil => rfl
                | cons f fs =>
                  simp only [List.map_cons, Res.mapOk, PState.unsrc, PMode.unsrc, unsrcList, ← closeFrame_unsrc]
                  rfl
      · intro s' h
        simp only [parseStep, hty, hnr] at h
        split at h
        · cases h; rfl
        · split at h
          · cases h; rfl
          · simp only [Bool.false_eq_true, if_false] at h
            split at h
            · cases h
            · split at h
              · cases h; rfl
              · split at h <;> (cases h; rfl)
              · cases h; rfl
              · cases h

theorem parseLoop_unsrc (g : Grammar) (chk : Bytes → Option Cause) : ∀ (toks : List Token) (s : PState),
    s.mode.isRaw = false → (∀ t ∈ toks, ¬ (t.ty = .tag ∧ t.name = rawName)) →
    parseLoop g chk s.unsrc (toks.map unsrc) = (parseLoop g chk s toks).mapOk PState.unsrc ∧
    (∀ s', parseLoop g chk s toks = .ok s' → s'.mode.isRaw = false)
  | [], s, hm, _ => ⟨rfl, fun s' h => by simp only [parseLoop] at h; cases h; exact hm⟩
  | t :: ts, s, hm, ht => by
    obtain ⟨h1, h2⟩ := parseStep_unsrc g chk s t hm (ht t (List.mem_cons_self ..))
    simp only [List.map_cons, parseLoop, h1]
    cases hst : parseStep g chk s t with
    | ok s1 =>
      have := parseLoop_unsrc g chk ts s1 (h2 s1 hst) (fun x hx => ht x (List.mem_cons_of_mem _ hx))
      simp only [Res.mapOk]
      exact this
    | err e => exact ⟨rfl, fun s' h => by cases h⟩
    | panic w => exact ⟨rfl, fun s' h => by cases h⟩
    | unmodelled w => exact ⟨rfl, fun s' h => by cases h⟩

/-- on token lists without a `raw` tag the block parser commutes with erasing tag/object sources -/
theorem parseTokens_unsrc (g : Grammar) (chk : Bytes → Option Cause) (toks : List Token)
    (ht : ∀ t ∈ toks, ¬ (t.ty = .tag ∧ t.name = rawName)) :
    parseTokens g chk (toks.map unsrc) = (parseTokens g chk toks).mapOk unsrcList := by
  obtain ⟨h1, h2⟩ := parseLoop_unsrc g chk toks {} rfl ht
  have hL : parseLoop g chk {} (toks.map unsrc) = (parseLoop g chk {} toks).mapOk PState.unsrc := h1
  unfold parseTokens
  rw [hL]
  cases hl : parseLoop g chk {} toks with
  | ok s =>
    have hm := h2 s hl
    obtain ⟨cur, st, mode⟩ := s
    cases mode with
    | raw o sl => cases hm
    | comment o => simp [Res.mapOk, PState.unsrc, PMode.unsrc]
    | normal =>
      cases st with
      | nil => simp [Res.mapOk, PState.unsrc, PMode.unsrc, unsrcList_reverse]
      | cons f fs => simp [Res.mapOk, PState.unsrc, PMode.unsrc, Frame.unsrc]
  | err e => rfl
  | panic w => rfl
  | unmodelled w => rfl

/-! ## The compiler -/

def unsrcCl (cs : List (Token × List Node)) : List (Token × List Node) := cs.map (fun p => (unsrc p.1, p.2))

theorem ifTests_unsrc : ∀ cs, compileIfClauseTests (unsrcCl cs) = compileIfClauseTests cs
  | [] => rfl
  | (t, body) :: cs => by
    simp only [unsrcCl, List.map_cons, compileIfClauseTests, unsrc_name, unsrc_args, unsrc_line]
    have := ifTests_unsrc cs
    simp only [unsrcCl] at this
    rw [this]

theorem caseClauses_unsrc : ∀ cs, compileCaseClauses (unsrcCl cs) = compileCaseClauses cs
  | [] => rfl
  | (t, body) :: cs => by
    simp only [unsrcCl, List.map_cons, compileCaseClauses, unsrc_name, unsrc_args, unsrc_line]
    have := caseClauses_unsrc cs
    simp only [unsrcCl] at this
    rw [this]

theorem unsrcCl_snd (cs : List (Token × List Node)) : (unsrcCl cs).map (·.2) = cs.map (·.2) := by
  simp [unsrcCl]

mutual
theorem compileNode_unsrc : ∀ a : AST, compileNode a.unsrc = compileNode a
  | .text t => rfl
  | .obj t => by simp only [AST.unsrc, compileNode, unsrc_args, unsrc_line]
  | .trim l => rfl
  | .raw sl => rfl
  | .tag t => by simp only [AST.unsrc, compileNode, unsrc_name, unsrc_args, unsrc_line]
  | .block t body cls => by
    rw [AST.unsrc, compileNode, compileNode, compileList_unsrc body, compileClauses_unsrc cls]
    cases compileList body with
    | ok b =>
      cases compileClauses cls with
      | ok cs =>
        simp only [Res.mapOk, bind, Res.bind, unsrc_name, unsrc_args, unsrc_line, ifTests_unsrc, caseClauses_unsrc, unsrcCl_snd]
      | err e => rfl
      | panic w => rfl
      | unmodelled w => rfl
    | err e => rfl
    | panic w => rfl
    | unmodelled w => rfl
theorem compileList_unsrc : ∀ as : List AST, compileList (unsrcList as) = compileList as
  | [] => rfl
  | a :: as => by
    rw [unsrcList, compileList, compileList, compileNode_unsrc a, compileList_unsrc as]
theorem compileClauses_unsrc : ∀ cs : List (Token × List AST), compileClauses (unsrcClauses cs) = (compileClauses cs).mapOk unsrcCl
  | [] => rfl
  | (t, body) :: cs => by
    rw [unsrcClauses, compileClauses, compileClauses, compileList_unsrc body, compileClauses_unsrc cs]
    cases compileList body with
    | ok b =>
      cases compileClauses cs with
      | ok r => rfl
      | err e => rfl
      | panic w => rfl
      | unmodelled w => rfl
    | err e => rfl
    | panic w => rfl
    | unmodelled w => rfl
end

theorem firstUnmodelledObj_unsrc : ∀ toks : List Token, firstUnmodelledObj (toks.map unsrc) = firstUnmodelledObj toks
  | [] => rfl
  | t :: ts => by
    simp only [List.map_cons, firstUnmodelledObj, unsrc_ty, unsrc_args, firstUnmodelledObj_unsrc ts]

/-- on token lists without a `raw` tag, compilation does not depend on the source text of tag and
    object tokens -/
theorem compileTokens_unsrc (toks : List Token) (ht : ∀ t ∈ toks, ¬ (t.ty = .tag ∧ t.name = rawName)) :
    compileTokens (toks.map unsrc) = compileTokens toks := by
  unfold compileTokens
  rw [firstUnmodelledObj_unsrc, parseTokens_unsrc stdGrammar objChk toks ht]
  cases firstUnmodelledObj toks with
  | some w => rfl
  | none =>
    cases parseTokens stdGrammar objChk toks with
    | ok ast => simp only [Res.mapOk, liftPErr, bind, Res.bind, compileList_unsrc]
    | err e => rfl
    | panic w => rfl
    | unmodelled w => rfl

/-- two token lists that agree up to the sources of tag and object tokens compile alike -/
theorem compileTokens_congr (a b : List Token) (h : a.map unsrc = b.map unsrc)
    (ha : ∀ t ∈ a, ¬ (t.ty = .tag ∧ t.name = rawName)) (hb : ∀ t ∈ b, ¬ (t.ty = .tag ∧ t.name = rawName)) :
    compileTokens a = compileTokens b := by
  rw [← compileTokens_unsrc a ha, h, compileTokens_unsrc b hb]
