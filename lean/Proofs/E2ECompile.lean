import Proofs.E2ERun
/-!
# Block parser and compiler do not look at the source text of tag and object tokens

`unsrc` erases the `source` field of tag and object tokens. Outside raw blocks (whose bodies are the
token sources) the block parser commutes with `unsrc`, and the compiler ignores it altogether.
-/

def unsrc (t : Token) : Token :=
  match t.ty with
  | .tag => { t with source := [] }
  | .obj => { t with source := [] }
  | _ => t

@[simp] theorem unsrc_ty (t : Token) : (unsrc t).ty = t.ty := by unfold unsrc; split <;> simp_all
@[simp] theorem unsrc_name (t : Token) : (unsrc t).name = t.name := by unfold unsrc; split <;> rfl
@[simp] theorem unsrc_args (t : Token) : (unsrc t).args = t.args := by unfold unsrc; split <;> rfl
@[simp] theorem unsrc_line (t : Token) : (unsrc t).line = t.line := by unfold unsrc; split <;> rfl
theorem unsrc_of_text {t : Token} (h : t.ty = .text) : unsrc t = t := by unfold unsrc; simp [h]
theorem unsrc_source_text {t : Token} (h : t.ty = .text) : (unsrc t).source = t.source := by rw [unsrc_of_text h]

mutual
def AST.unsrc : AST → AST
  | .text t => .text t
  | .obj t => .obj (_root_.unsrc t)
  | .tag t => .tag (_root_.unsrc t)
  | .trim l => .trim l
  | .raw sl => .raw sl
  | .block t body cls => .block (_root_.unsrc t) (unsrcList body) (unsrcClauses cls)
def unsrcList : List AST → List AST
  | [] => []
  | n :: ns => n.unsrc :: unsrcList ns
def unsrcClauses : List (Token × List AST) → List (Token × List AST)
  | [] => []
  | (t, b) :: cs => (_root_.unsrc t, unsrcList b) :: unsrcClauses cs
end

theorem unsrcList_append : ∀ (a b : List AST), unsrcList (a ++ b) = unsrcList a ++ unsrcList b
  | [], _ => rfl
  | x :: a, b => by simp [unsrcList, unsrcList_append a b]

theorem unsrcList_reverse : ∀ (a : List AST), unsrcList a.reverse = (unsrcList a).reverse
  | [] => rfl
  | x :: a => by simp [unsrcList, unsrcList_append, unsrcList_reverse a]

theorem unsrcClauses_append : ∀ (a b : List (Token × List AST)), unsrcClauses (a ++ b) = unsrcClauses a ++ unsrcClauses b
  | [], _ => rfl
  | (t, x) :: a, b => by simp [unsrcClauses, unsrcClauses_append a b]

theorem unsrcClauses_reverse : ∀ (a : List (Token × List AST)), unsrcClauses a.reverse = (unsrcClauses a).reverse
  | [] => rfl
  | (t, x) :: a => by simp [unsrcClauses, unsrcClauses_append, unsrcClauses_reverse a]

def Frame.unsrc (f : Frame) : Frame :=
  { tok := _root_.unsrc f.tok, outer := unsrcList f.outer, body := f.body.map unsrcList,
    clauses := unsrcClauses f.clauses, cur := f.cur.map _root_.unsrc }

def PMode.unsrc : PMode → PMode
  | .normal => .normal
  | .comment o => .comment (_root_.unsrc o)
  | .raw o sl => .raw (_root_.unsrc o) sl

def PState.unsrc (s : PState) : PState :=
  { cur := unsrcList s.cur, stack := s.stack.map Frame.unsrc, mode := s.mode.unsrc }

def Res.mapOk {ε α β} (f : α → β) : Res ε α → Res ε β
  | .ok a => .ok (f a)
  | .err e => .err e
  | .panic w => .panic w
  | .unmodelled w => .unmodelled w

def PMode.isRaw : PMode → Bool
  | .raw _ _ => true
  | _ => false

theorem closeFrame_unsrc (f : Frame) (cur : List AST) :
    closeFrame f.unsrc (unsrcList cur) = (closeFrame f cur).unsrc := by
  obtain ⟨tok, outer, body, clauses, fc⟩ := f
  cases fc with
  | none => simp [closeFrame, Frame.unsrc, AST.unsrc, unsrcList_reverse, unsrcClauses]
  | some c =>
    cases body with
    | none => simp [closeFrame, Frame.unsrc, AST.unsrc, unsrcList_reverse, unsrcClauses, unsrcClauses_append, unsrcClauses_reverse, unsrcList]
    | some b => simp [closeFrame, Frame.unsrc, AST.unsrc, unsrcList_reverse, unsrcClauses, unsrcClauses_append, unsrcClauses_reverse]

theorem parentOk_unsrc (cs : Syn) (st : List Frame) :
    parentOk cs (st.map Frame.unsrc).head? = parentOk cs st.head? := by
  cases st with
  | nil => rfl
  | cons f fs => cases cs <;> simp [parentOk, Frame.unsrc]

/-- a token whose source `unsrc` keeps -/
theorem unsrc_of_not_tag_obj {t : Token} (h1 : t.ty ≠ .tag) (h2 : t.ty ≠ .obj) : unsrc t = t := by
  unfold unsrc
  split
  · next h => exact absurd h h1
  · next h => exact absurd h h2
  · rfl

/-- one step of the block parser commutes with erasing the sources of tag and object tokens, provided that in
    raw mode the token is the `endraw` tag or neither a tag nor an object (a raw body keeps token SOURCES) -/
theorem parseStep_unsrc (g : Grammar) (chk : Bytes → Option Cause) (s : PState) (t : Token)
    (hraw : s.mode.isRaw = true → isEndRaw t = true ∨ (t.ty ≠ .tag ∧ t.ty ≠ .obj)) :
    parseStep g chk s.unsrc (unsrc t) = (parseStep g chk s t).mapOk PState.unsrc := by
  obtain ⟨cur, st, mode⟩ := s
  cases mode with
  | raw o sl =>
    rcases hraw rfl with he | ⟨h1, h2⟩
    · have he' := he
      unfold isEndRaw at he'
      simp only [parseStep, PState.unsrc, PMode.unsrc, unsrc_ty, unsrc_name, he', if_true, Res.mapOk, unsrcList, AST.unsrc]
    · have hne : (t.ty == TokTy.tag && t.name == endrawName) = false := by simp [h1]
      rw [unsrc_of_not_tag_obj h1 h2]
      simp only [parseStep, PState.unsrc, PMode.unsrc, hne, Bool.false_eq_true, if_false, Res.mapOk]
  | comment o =>
    simp only [parseStep, PState.unsrc, PMode.unsrc, unsrc_ty, unsrc_name]
    split <;> rfl
  | normal =>
    cases hty : t.ty with
    | text =>
      rw [unsrc_of_text hty]
      simp [parseStep, hty, PState.unsrc, PMode.unsrc, Res.mapOk, unsrcList, AST.unsrc]
    | trimL => simp [parseStep, hty, PState.unsrc, PMode.unsrc, Res.mapOk, unsrcList, AST.unsrc]
    | trimR => simp [parseStep, hty, PState.unsrc, PMode.unsrc, Res.mapOk, unsrcList, AST.unsrc]
    | obj =>
      simp only [parseStep, hty, PState.unsrc, PMode.unsrc, unsrc_ty, unsrc_args, unsrc_line]
      cases chk t.args <;> simp [Res.mapOk, PState.unsrc, PMode.unsrc, unsrcList, AST.unsrc]
    | tag =>
      simp only [parseStep, hty, PState.unsrc, PMode.unsrc, unsrc_ty, unsrc_name, unsrc_line]
      cases hsyn : g.syntaxOf t.name with
      | none => simp [Res.mapOk, PState.unsrc, PMode.unsrc, unsrcList, AST.unsrc]
      | some cs =>
        simp only
        split
        · simp [Res.mapOk, PState.unsrc, PMode.unsrc]
        · split
          · simp [Res.mapOk, PState.unsrc, PMode.unsrc]
          · simp only [parentOk_unsrc]
            split
            · rfl
            · cases cs with
              | start n => simp [Res.mapOk, PState.unsrc, PMode.unsrc, Frame.unsrc, unsrcList, unsrcClauses]
              | clause n ps =>
                cases st with
                | nil => rfl
                | cons f fs =>
                  obtain ⟨tok, outer, body, clauses, fc⟩ := f
                  cases fc <;>
                    simp [Res.mapOk, PState.unsrc, PMode.unsrc, Frame.unsrc, unsrcList, unsrcClauses, unsrcList_reverse]
              | end_ n sn =>
                cases st with
                | nil => rfl
                | cons f fs =>
                  simp only [List.map_cons, Res.mapOk, PState.unsrc, PMode.unsrc, unsrcList, ← closeFrame_unsrc]
                  rfl

/-- the parser is in raw mode after a step only if it was and the token is not `endraw`, or the token is a `raw` tag -/
theorem parseStep_raw_mode (g : Grammar) (chk : Bytes → Option Cause) (s s' : PState) (t : Token)
    (h : parseStep g chk s t = .ok s') (hm : s'.mode.isRaw = true) :
    (s.mode.isRaw = true ∧ isEndRaw t = false) ∨ (t.ty = .tag ∧ t.name = rawName) := by
  obtain ⟨cur, st, mode⟩ := s
  cases mode with
  | raw o sl =>
    left
    refine ⟨rfl, ?_⟩
    simp only [parseStep] at h
    unfold isEndRaw
    split at h
    · cases h; cases hm
    · next hne => simpa using hne
  | comment o =>
    simp only [parseStep] at h
    split at h <;> (cases h; cases hm)
  | normal =>
    cases hty : t.ty with
    | text => simp only [parseStep, hty] at h; cases h; cases hm
    | trimL => simp only [parseStep, hty] at h; cases h; cases hm
    | trimR => simp only [parseStep, hty] at h; cases h; cases hm
    | obj =>
      simp only [parseStep, hty] at h
      split at h
      · cases h
      · cases h; cases hm
    | tag =>
      simp only [parseStep, hty] at h
      split at h
      · cases h; cases hm
      · split at h
        · cases h; cases hm
        · split at h
          · next hr => exact .inr ⟨rfl, by simpa using hr⟩
          · split at h
            · cases h
            · split at h
              · cases h; cases hm
              · split at h <;> (cases h; cases hm)
              · cases h; cases hm
              · cases h

/-- a sufficient condition on a token list for the parser's raw mode to meet only tokens whose source `unsrc`
    keeps: from a tag named `raw` up to the next `endraw` tag there is no other tag and no object (`inRaw`: a
    `raw` tag has been passed) -/
def rawSafe : Bool → List Token → Bool
  | _, [] => true
  | false, t :: ts => rawSafe (t.ty == .tag && t.name == rawName) ts
  | true, t :: ts => if isEndRaw t then rawSafe false ts else (t.ty != .tag && t.ty != .obj) && rawSafe true ts

theorem parseLoop_unsrc (g : Grammar) (chk : Bytes → Option Cause) : ∀ (toks : List Token) (s : PState) (flag : Bool),
    (s.mode.isRaw = true → flag = true) → rawSafe flag toks = true →
    parseLoop g chk s.unsrc (toks.map unsrc) = (parseLoop g chk s toks).mapOk PState.unsrc
  | [], _, _, _, _ => rfl
  | t :: ts, s, flag, hinv, hs => by
    have hraw : s.mode.isRaw = true → isEndRaw t = true ∨ (t.ty ≠ .tag ∧ t.ty ≠ .obj) := by
      intro hm
      have := hinv hm
      subst this
      simp only [rawSafe] at hs
      split at hs
      · next he => exact .inl he
      · simp only [Bool.and_eq_true, bne_iff_ne, ne_eq] at hs
        exact .inr hs.1
    have h1 := parseStep_unsrc g chk s t hraw
    simp only [List.map_cons, parseLoop, h1]
    cases hst : parseStep g chk s t with
    | ok s1 =>
      simp only [Res.mapOk]
      cases flag with
      | false =>
        simp only [rawSafe] at hs
        refine parseLoop_unsrc g chk ts s1 _ ?_ hs
        intro hm
        rcases parseStep_raw_mode g chk s s1 t hst hm with ⟨h, _⟩ | ⟨h1, h2⟩
        · have := hinv h; cases this
        · simp [h1, h2]
      | true =>
        simp only [rawSafe] at hs
        split at hs
        · next he =>
          refine parseLoop_unsrc g chk ts s1 false ?_ hs
          intro hm
          rcases parseStep_raw_mode g chk s s1 t hst hm with ⟨_, h⟩ | ⟨h1, h2⟩
          · rw [he] at h; cases h
          · unfold isEndRaw at he
            simp only [h2, Bool.and_eq_true, beq_iff_eq] at he
            exact absurd he.2 (by decide)
        · simp only [Bool.and_eq_true] at hs
          exact parseLoop_unsrc g chk ts s1 true (fun _ => rfl) hs.2
    | err e => rfl
    | panic w => rfl
    | unmodelled w => rfl

/-- on token lists in which a `raw` tag is followed, up to the `endraw` tag, by texts and trim markers only, the
    block parser commutes with erasing tag/object sources -/
theorem parseTokens_unsrc (g : Grammar) (chk : Bytes → Option Cause) (toks : List Token)
    (ht : rawSafe false toks = true) :
    parseTokens g chk (toks.map unsrc) = (parseTokens g chk toks).mapOk unsrcList := by
  have hL : parseLoop g chk {} (toks.map unsrc) = (parseLoop g chk {} toks).mapOk PState.unsrc :=
    parseLoop_unsrc g chk toks {} false (fun h => by cases h) ht
  unfold parseTokens
  rw [hL]
  cases hl : parseLoop g chk {} toks with
  | ok s =>
    obtain ⟨cur, st, mode⟩ := s
    cases mode with
    | raw o sl => simp [Res.mapOk, PState.unsrc, PMode.unsrc]
    | comment o => simp [Res.mapOk, PState.unsrc, PMode.unsrc]
    | normal =>
      cases st with
      | nil => simp [Res.mapOk, PState.unsrc, PMode.unsrc, unsrcList_reverse]
      | cons f fs => simp [Res.mapOk, PState.unsrc, PMode.unsrc, Frame.unsrc]
  | err e => rfl
  | panic w => rfl
  | unmodelled w => rfl

/-! ## The compiler -/

def unsrcCl (cs : List (Token × List Node)) : List (Token × List Node) := cs.map (fun p => (unsrc p.1, p.2))

theorem ifTests_unsrc : ∀ cs, compileIfClauseTests (unsrcCl cs) = compileIfClauseTests cs
  | [] => rfl
  | (t, body) :: cs => by
    simp only [unsrcCl, List.map_cons, compileIfClauseTests, unsrc_name, unsrc_args, unsrc_line]
    have := ifTests_unsrc cs
    simp only [unsrcCl] at this
    rw [this]

theorem caseClauses_unsrc : ∀ cs, compileCaseClauses (unsrcCl cs) = compileCaseClauses cs
  | [] => rfl
  | (t, body) :: cs => by
    simp only [unsrcCl, List.map_cons, compileCaseClauses, unsrc_name, unsrc_args, unsrc_line]
    have := caseClauses_unsrc cs
    simp only [unsrcCl] at this
    rw [this]

theorem unsrcCl_snd (cs : List (Token × List Node)) : (unsrcCl cs).map (·.2) = cs.map (·.2) := by
  simp [unsrcCl]

mutual
theorem compileNode_unsrc : ∀ a : AST, compileNode a.unsrc = compileNode a
  | .text t => rfl
  | .obj t => by simp only [AST.unsrc, compileNode, unsrc_args, unsrc_line]
  | .trim l => rfl
  | .raw sl => rfl
  | .tag t => by simp only [AST.unsrc, compileNode, unsrc_name, unsrc_args, unsrc_line]
  | .block t body cls => by
    rw [AST.unsrc, compileNode, compileNode, compileList_unsrc body, compileClauses_unsrc cls]
    cases compileList body with
    | ok b =>
      cases compileClauses cls with
      | ok cs =>
        simp only [Res.mapOk, bind, Res.bind, unsrc_name, unsrc_args, unsrc_line, ifTests_unsrc, caseClauses_unsrc, unsrcCl_snd]
      | err e => rfl
      | panic w => rfl
      | unmodelled w => rfl
    | err e => rfl
    | panic w => rfl
    | unmodelled w => rfl
theorem compileList_unsrc : ∀ as : List AST, compileList (unsrcList as) = compileList as
  | [] => rfl
  | a :: as => by
    rw [unsrcList, compileList, compileList, compileNode_unsrc a, compileList_unsrc as]
theorem compileClauses_unsrc : ∀ cs : List (Token × List AST), compileClauses (unsrcClauses cs) = (compileClauses cs).mapOk unsrcCl
  | [] => rfl
  | (t, body) :: cs => by
    rw [unsrcClauses, compileClauses, compileClauses, compileList_unsrc body, compileClauses_unsrc cs]
    cases compileList body with
    | ok b =>
      cases compileClauses cs with
      | ok r => rfl
      | err e => rfl
      | panic w => rfl
      | unmodelled w => rfl
    | err e => rfl
    | panic w => rfl
    | unmodelled w => rfl
end

theorem firstUnmodelledObj_unsrc : ∀ toks : List Token, firstUnmodelledObj (toks.map unsrc) = firstUnmodelledObj toks
  | [] => rfl
  | t :: ts => by
    simp only [List.map_cons, firstUnmodelledObj, unsrc_ty, unsrc_args, firstUnmodelledObj_unsrc ts]

/-- on token lists whose raw blocks hold texts and trim markers only, compilation does not depend on the source
    text of tag and object tokens -/
theorem compileTokens_unsrc (toks : List Token) (ht : rawSafe false toks = true) :
    compileTokens (toks.map unsrc) = compileTokens toks := by
  unfold compileTokens
  rw [firstUnmodelledObj_unsrc, parseTokens_unsrc stdGrammar objChk toks ht]
  cases firstUnmodelledObj toks with
  | some w => rfl
  | none =>
    cases parseTokens stdGrammar objChk toks with
    | ok ast => simp only [Res.mapOk, liftPErr, bind, Res.bind, compileList_unsrc]
    | err e => rfl
    | panic w => rfl
    | unmodelled w => rfl

/-- two token lists that agree up to the sources of tag and object tokens compile alike -/
theorem compileTokens_congr (a b : List Token) (h : a.map unsrc = b.map unsrc)
    (ha : rawSafe false a = true) (hb : rawSafe false b = true) :
    compileTokens a = compileTokens b := by
  rw [← compileTokens_unsrc a ha, h, compileTokens_unsrc b hb]
