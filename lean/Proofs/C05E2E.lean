import Proofs.E2ERun
/-!
# C05, end to end — statements about `run` on source bytes and about `runTokens` on token lists

`run P O cfg fs fuel src line env` is the whole pipeline (tokenizer, block parser, compiler,
renderer, fault-free writer); `runTokens` is the pipeline after the tokenizer
(`run_eq_runTokens`). The theorems hold for every value layer `P O`, configuration, file
system, include fuel, start line and environment.

Side condition that is a boundary of the MODEL, not of the code: `compileSource` answers
`unmodelled` when the arguments of some object token — also one inside a comment or raw body —
contain a negative-zero literal (`firstUnmodelledObj`). The token-level theorems therefore assume
`firstUnmodelledObj body = none` for the body of the raw/comment block.
-/

/-- **C05, end to end (a source in which no tag or object opens renders to itself).** For every
    configuration (delimiters included), file system, fuel, start line and environment: if
    neither opening delimiter occurs in `src`, then the whole pipeline returns exactly `src` —
    the empty source included. -/
theorem source_without_open_delim_renders_itself (P : Prims) (O : OutPrims) (cfg : Cfg) (fs : FS) (fuel : Nat)
    (src : Bytes) (line : Nat) (env : Env)
    (hol : ¬ (Delims.ofList cfg.delims).ol <:+: src) (htl : ¬ (Delims.ofList cfg.delims).tl <:+: src) :
    run P O cfg fs fuel src line env = .ok src := by
  rw [run_eq_runTokens, scan_no_open_delim cfg.delims src line hol htl]
  cases src with
  | nil =>
    simp only [List.isEmpty_nil, if_true, runTokens]
    rw [compileTokens_of_parse (ast := []) rfl rfl]
    exact runRoot_nil P O cfg fs fuel env
  | cons b bs =>
    simp only [List.isEmpty_cons, Bool.false_eq_true, if_false, runTokens]
    rw [compileTokens_of_parse (firstUnmodelledObj_none_of_no_obj _ (by simp)) (parseTokens_text objChk _ rfl),
      compileList_text]
    exact runRoot_text P O cfg fs fuel line (b :: bs) env

/-- the same for the standard value layer -/
theorem source_without_open_delim_renders_itself_std (cfg : Cfg) (fs : FS) (fuel : Nat) (src : Bytes) (line : Nat) (env : Env)
    (hol : ¬ (Delims.ofList cfg.delims).ol <:+: src) (htl : ¬ (Delims.ofList cfg.delims).tl <:+: src) :
    run stdPrims stdOut cfg fs fuel src line env = .ok src :=
  source_without_open_delim_renders_itself stdPrims stdOut cfg fs fuel src line env hol htl

/-- "plain } % text" under the default delimiters; "{{ x }}" under the delimiters `< > [ ]` -/
example : run stdPrims stdOut {} (fsOfList []) 3 [112, 108, 97, 105, 110, 32, 125, 32, 37, 32, 116, 101, 120, 116] 1 []
    = .ok [112, 108, 97, 105, 110, 32, 125, 32, 37, 32, 116, 101, 120, 116] :=
  source_without_open_delim_renders_itself_std _ _ _ _ _ _ (by decide) (by decide)
example : run stdPrims stdOut { delims := [[60], [62], [91], [93]] } (fsOfList []) 3 [123, 123, 32, 120, 32, 125, 125] 1 []
    = .ok [123, 123, 32, 120, 32, 125, 125] :=
  source_without_open_delim_renders_itself_std _ _ _ _ _ _ (by decide) (by decide)
example : run stdPrims stdOut {} (fsOfList []) 0 [] 1 [] = .ok [] :=
  source_without_open_delim_renders_itself_std _ _ _ _ _ _ (by decide) (by decide)

/-- **C05, end to end (raw).** A token list `raw-tag, body…, endraw-tag` — the body arbitrary except
    that it contains no tag named `endraw` — renders to exactly the concatenated sources of the body
    tokens, whatever tag-like or object-like tokens the body contains: block parser, compiler and
    renderer composed. -/
theorem raw_block_renders_body_sources (P : Prims) (O : OutPrims) (cfg : Cfg) (fs : FS) (fuel : Nat) (env : Env)
    (o c : Token) (body : List Token)
    (ho : o.ty = .tag ∧ o.name = rawName) (hc : c.ty = .tag ∧ c.name = endrawName)
    (hb : ∀ t ∈ body, ¬ (t.ty = .tag ∧ t.name = endrawName))
    (hU : firstUnmodelledObj body = none) :
    runTokens P O cfg fs fuel (o :: (body ++ [c])) env = .ok (srcs body) := by
  have hc' : isEndRaw c = true := by simp [isEndRaw, hc.1, hc.2]
  have hb' : ∀ t ∈ body, isEndRaw t = false := by
    intro t ht
    have := hb t ht
    simp only [isEndRaw]
    cases h1 : t.ty == TokTy.tag <;> cases h2 : t.name == endrawName <;> simp_all
  have hU' : firstUnmodelledObj (o :: (body ++ [c])) = none := by
    rw [firstUnmodelledObj_tag _ _ ho.1, firstUnmodelledObj_append, hU]
    simp [firstUnmodelledObj, hc.1]
  unfold runTokens
  rw [compileTokens_of_parse hU' (parseTokens_raw_block objChk o c body (isRawOpen_std ho.1 ho.2) hc' hb'), compileList_raw]
  exact runRoot_raw P O cfg fs fuel _ env

/-- **C05, end to end (comment).** A token list `comment-tag, body…, endcomment-tag` renders to
    nothing and is never an error, whatever the body tokens are — objects whose arguments are not
    expressions, unknown tags, unbalanced block tags: the body is never parsed. -/
theorem comment_block_renders_nothing (P : Prims) (O : OutPrims) (cfg : Cfg) (fs : FS) (fuel : Nat) (env : Env)
    (o c : Token) (body : List Token)
    (ho : o.ty = .tag ∧ o.name = commentName) (hc : c.ty = .tag ∧ c.name = endcommentName)
    (hb : ∀ t ∈ body, ¬ (t.ty = .tag ∧ t.name = endcommentName))
    (hU : firstUnmodelledObj body = none) :
    runTokens P O cfg fs fuel (o :: (body ++ [c])) env = .ok [] := by
  have hc' : isEndComment c = true := by simp [isEndComment, hc.1, hc.2]
  have hb' : ∀ t ∈ body, isEndComment t = false := by
    intro t ht
    have := hb t ht
    simp only [isEndComment]
    cases h1 : t.ty == TokTy.tag <;> cases h2 : t.name == endcommentName <;> simp_all
  have hU' : firstUnmodelledObj (o :: (body ++ [c])) = none := by
    rw [firstUnmodelledObj_tag _ _ ho.1, firstUnmodelledObj_append, hU]
    simp [firstUnmodelledObj, hc.1]
  unfold runTokens
  rw [compileTokens_of_parse hU' (parseTokens_comment_block objChk o c body (isCommentOpen_std ho.1 ho.2) hc' hb')]
  exact runRoot_nil P O cfg fs fuel env

/-- **C05, end to end (a comment block anywhere is invisible).** After any prefix that the block
    parser leaves outside comment/raw (or rejects), deleting a whole comment block from the token
    list does not change the result of the pipeline — output or error. -/
theorem comment_block_erased (P : Prims) (O : OutPrims) (cfg : Cfg) (fs : FS) (fuel : Nat) (env : Env)
    (pre body post : List Token) (o c : Token)
    (hpre : ∀ s, parseLoop stdGrammar objChk {} pre = .ok s → s.mode = .normal)
    (ho : o.ty = .tag ∧ o.name = commentName) (hc : c.ty = .tag ∧ c.name = endcommentName)
    (hb : ∀ t ∈ body, ¬ (t.ty = .tag ∧ t.name = endcommentName))
    (hU : firstUnmodelledObj body = none) :
    runTokens P O cfg fs fuel (pre ++ o :: (body ++ c :: post)) env = runTokens P O cfg fs fuel (pre ++ post) env := by
  have hc' : isEndComment c = true := by simp [isEndComment, hc.1, hc.2]
  have hb' : ∀ t ∈ body, isEndComment t = false := by
    intro t ht
    have := hb t ht
    simp only [isEndComment]
    cases h1 : t.ty == TokTy.tag <;> cases h2 : t.name == endcommentName <;> simp_all
  have hU' : firstUnmodelledObj (pre ++ o :: (body ++ c :: post)) = firstUnmodelledObj (pre ++ post) := by
    rw [firstUnmodelledObj_append, firstUnmodelledObj_append pre post, firstUnmodelledObj_tag _ _ ho.1,
      firstUnmodelledObj_append, hU, firstUnmodelledObj_tag _ _ hc.1]
  unfold runTokens compileTokens
  rw [hU', parseTokens_comment_erased stdGrammar objChk pre body post o c hpre (isCommentOpen_std ho.1 ho.2) hc' hb']

/-! Non-vacuity. Tokens: `{% raw %}`, `{{ | }}` (not an expression), `{% endif %}` (unbalanced), text,
    `{% endraw %}`; the same body inside `{% comment %}…{% endcomment %}`. -/
example : runTokens stdPrims stdOut {} (fsOfList []) 1
    [{ ty := .tag, line := 1, name := rawName },
     { ty := .obj, line := 1, args := [124], source := [123, 123, 32, 124, 32, 125, 125] },
     { ty := .tag, line := 1, name := [101, 110, 100, 105, 102], source := [123, 37, 32, 101, 110, 100, 105, 102, 32, 37, 125] },
     { ty := .text, line := 1, source := [97] },
     { ty := .tag, line := 1, name := endrawName }] []
    = .ok [123, 123, 32, 124, 32, 125, 125, 123, 37, 32, 101, 110, 100, 105, 102, 32, 37, 125, 97] :=
  raw_block_renders_body_sources _ _ _ _ _ _ _ _
    [{ ty := .obj, line := 1, args := [124], source := [123, 123, 32, 124, 32, 125, 125] },
     { ty := .tag, line := 1, name := [101, 110, 100, 105, 102], source := [123, 37, 32, 101, 110, 100, 105, 102, 32, 37, 125] },
     { ty := .text, line := 1, source := [97] }]
    ⟨rfl, rfl⟩ ⟨rfl, rfl⟩ (by decide) (by rfl)

example : runTokens stdPrims stdOut {} (fsOfList []) 1
    [{ ty := .tag, line := 1, name := commentName },
     { ty := .obj, line := 1, args := [124], source := [123, 123, 32, 124, 32, 125, 125] },
     { ty := .tag, line := 1, name := [101, 110, 100, 105, 102], source := [123, 37, 32, 101, 110, 100, 105, 102, 32, 37, 125] },
     { ty := .tag, line := 1, name := endcommentName }] []
    = .ok [] :=
  comment_block_renders_nothing _ _ _ _ _ _ _ _
    [{ ty := .obj, line := 1, args := [124], source := [123, 123, 32, 124, 32, 125, 125] },
     { ty := .tag, line := 1, name := [101, 110, 100, 105, 102], source := [123, 37, 32, 101, 110, 100, 105, 102, 32, 37, 125] }]
    ⟨rfl, rfl⟩ ⟨rfl, rfl⟩ (by decide) (by rfl)

/-! The model-boundary side condition is needed in the model: `compileTokens` on `{% comment %}`, an object
    token with arguments `-0.0`, `{% endcomment %}` evaluates (`#eval`) to `unmodelled "negative zero literal"`
    (the literal's lexer uses rational arithmetic that the kernel cannot evaluate by `decide`, so this is
    recorded as a remark, not as an `example`). The Go code renders such a comment to nothing. -/
