import Liquid.Std
import Proofs.ToLiquidLemmas
import Proofs.C05
import Proofs.PostLemmas
import Proofs.RunLemmas
/-!
# C05 (render level) — text, raw bodies and string values reach the output byte for byte
-/

/-- what a fault-free writer has received when the program ends -/
def outputOf {α} (p : Prog α) : Bytes := p.runPure.1

def succeeded {α} (p : Prog α) : Bool :=
  match p.runPure.2 with
  | .ok _ => true
  | _ => false

/-- a run of verbatim writes followed by the final flush delivers the pending buffer and then the
    written chunks, in order, unchanged — whatever the trim flag was when there is a chunk -/
theorem writeAll_flush (cs : List Bytes) (env : Env) (buf : Bytes) :
    outputOf ((writeAllM cs >>= fun _ => flushM) { env := env, tw := { buf := buf, trim := false } }) = buf ++ cs.flatten ∧
    succeeded ((writeAllM cs >>= fun _ => flushM) { env := env, tw := { buf := buf, trim := false } }) = true := by
  induction cs generalizing buf with
  | nil =>
    simp only [writeAllM, bind, M.bind, pure, M.pure, Prog.bind, flushM, outputOf, succeeded]
    cases buf <;> simp [Prog.runPure]
  | cons c cs ih =>
    have h1 := writeVerbatim_runPure c env buf false
    have h2 := ih []
    simp only [writeAllM, bind, M.bind, Prog.bind_assoc, outputOf, succeeded] at h2 ⊢
    rw [Prog.runPure_bind, h1]
    simp only
    rcases hr : (Prog.bind (writeAllM cs { env := env, tw := { buf := [], trim := false } }) fun x => flushM x.2).runPure with ⟨o, r⟩
    rw [hr] at h2
    simp only [List.nil_append] at h2
    simp [h2.1, h2.2]

/-- wrapping failures does not change what reaches the writer, nor whether the run succeeds -/
theorem mapFail_bind_out {α β} (g : RawErr → RawErr) (p : Prog α) (f : α → Prog β) :
    outputOf ((p.mapFail g).bind f) = outputOf (p.bind f) ∧ succeeded ((p.mapFail g).bind f) = succeeded (p.bind f) := by
  induction p with
  | ret a => exact ⟨rfl, rfl⟩
  | fail e => exact ⟨rfl, rfl⟩
  | panic w => exact ⟨rfl, rfl⟩
  | unmodelled w => exact ⟨rfl, rfl⟩
  | call b k ih =>
    have := ih .ok
    simp only [outputOf, succeeded, Prog.mapFail, Prog.bind, Prog.runPure] at this ⊢
    exact ⟨by rw [this.1], this.2⟩

/-- a root made of one node: the node, then the final flush -/
theorem frender_single (P : Prims) (O : OutPrims) (cfg : Cfg) (fs : FS) (fuel : Nat) (n : Node) (env : Env) :
    frender P O cfg fs fuel [n] env =
      (renderNode (mkCtx P O cfg fs fuel) n { env := env, tw := {} }).bind fun r =>
        match r.1 with
        | .done => ((wrapFailAt cfg.path invalidLoc flushM) r.2).bind fun _ => .ret ()
        | .brk e => .fail (.located e)
        | .cont e => .fail (.located e) := by
  simp only [frender, renderRoot, renderList, bind, M.bind, pure, M.pure, Prog.bind_assoc, mkCtx]
  congr 1
  funext r
  obtain ⟨st, s⟩ := r
  cases st <;> simp [Prog.bind, statusToProg, Prog.bind_assoc, M.pure, pure]

/-- a node that is a program of writer operations, wrapped for failures, then the final flush: the
    output is that of the program followed by a flush -/
theorem prog_then_flush_out (path : Bytes) (loc : Loc) (m : M Unit) (env : Env) (out : Bytes)
    (h : outputOf ((m >>= fun _ => flushM) { env := env, tw := {} }) = out) :
    outputOf ((wrapFailAt path loc (do m; pure Status.done) { env := env, tw := {} }).bind fun r =>
        match r.1 with
        | .done => ((wrapFailAt path invalidLoc flushM) r.2).bind fun _ => (.ret () : Prog Unit)
        | .brk e => .fail (.located e)
        | .cont e => .fail (.located e)) = out := by
  unfold wrapFailAt M.mapFail
  rw [(mapFail_bind_out _ _ _).1]
  simp only [bind, M.bind, pure, M.pure, List.nil_append, Prog.bind_assoc] at h ⊢
  rw [← h]
  -- both sides: the writes, then a flush (wrapped or not), then no further output
  have key : ∀ (p : Prog (Unit × RS)),
      outputOf (p.bind fun a => ((Prog.ret (Status.done, a.2) : Prog (Status × RS))).bind fun r =>
        match r.1 with
        | .done => ((flushM r.2).mapFail fun e => RawErr.located (wrapError path e invalidLoc)).bind fun _ => (.ret () : Prog Unit)
        | .brk e => .fail (.located e)
        | .cont e => .fail (.located e)) = outputOf (p.bind fun a => flushM a.2) := by
    intro p
    induction p with
    | ret a =>
      simp only [Prog.bind]
      rw [(mapFail_bind_out _ _ _).1]
      unfold flushM
      split <;> simp [outputOf, Prog.bind, Prog.runPure]
    | fail e => rfl
    | panic w => rfl
    | unmodelled w => rfl
    | call b k ih =>
      have := ih .ok
      simp only [outputOf, Prog.bind, Prog.runPure] at this ⊢
      rw [this]
  exact key _

/-- a node that is a run of verbatim writes, wrapped for failures, then the final flush: the output is
    the written chunks, in order, unchanged -/
theorem writes_then_flush_out (path : Bytes) (loc : Loc) (cs : List Bytes) (env : Env) :
    outputOf ((wrapFailAt path loc (do writeAllM cs; pure Status.done) { env := env, tw := {} }).bind fun r =>
        match r.1 with
        | .done => ((wrapFailAt path invalidLoc flushM) r.2).bind fun _ => (.ret () : Prog Unit)
        | .brk e => .fail (.located e)
        | .cont e => .fail (.located e)) = cs.flatten := by
  apply prog_then_flush_out
  simpa using (writeAll_flush cs env []).1

/-- **C05 (text).** A template that is a single text node renders to exactly that text. -/
theorem text_renders_itself (P : Prims) (O : OutPrims) (cfg : Cfg) (fs : FS) (fuel line : Nat) (src : Bytes) (env : Env) :
    outputOf (frender P O cfg fs fuel [.text line src] env) = src := by
  rw [frender_single]
  have := prog_then_flush_out cfg.path ⟨line, true⟩ (writeM src) env src (by
    cases src <;> simp [bind, M.bind, Prog.bind, writeM, flushM, outputOf, Prog.runPure])
  simp only [renderNode, mkCtx]
  exact this

/-- **C05 (raw).** The body of a raw block is emitted exactly as written, whatever tag-like text
    it contains: the slices (token sources) of the body, concatenated. -/
theorem raw_verbatim (P : Prims) (O : OutPrims) (cfg : Cfg) (fs : FS) (fuel : Nat) (slices : List Bytes) (env : Env) :
    outputOf (frender P O cfg fs fuel [.raw slices] env) = slices.flatten := by
  rw [frender_single]
  rw [← writes_then_flush_out cfg.path invalidLoc slices env]
  simp only [renderNode, mkCtx]

/-- **C05 (comment).** Inside a comment block the parser skips every token that is not the
    `endcomment` tag: the body contributes nothing and is never handed to the expression parser. -/
theorem comment_body_skipped (g : Grammar) (chk : Bytes → Option Cause) (s : PState) (o tok : Token)
    (hm : s.mode = .comment o) (h : ¬ (tok.ty = .tag ∧ tok.name = endcommentName)) :
    parseStep g chk s tok = .ok s := by
  unfold parseStep
  simp only [hm]
  by_cases h1 : tok.ty = .tag
  · have h2 : tok.name ≠ endcommentName := fun hn => h ⟨h1, hn⟩
    simp [h1, h2]
  · simp [h1]

/-- inside a raw block every token that is not the `endraw` tag is kept as its source text -/
theorem raw_body_kept (g : Grammar) (chk : Bytes → Option Cause) (s : PState) (o tok : Token) (sl : List Bytes)
    (hm : s.mode = .raw o sl) (h : ¬ (tok.ty = .tag ∧ tok.name = endrawName)) :
    parseStep g chk s tok = .ok { s with mode := .raw o (tok.source :: sl) } := by
  unfold parseStep
  simp only [hm]
  by_cases h1 : tok.ty = .tag
  · have h2 : tok.name ≠ endrawName := fun hn => h ⟨h1, hn⟩
    simp [h1, h2]
  · simp [h1]

/-- **C05 (string values).** A string printed by an object is written exactly: one write of its
    bytes, no escaping, re-encoding or truncation. -/
theorem string_value_exact (s : Bytes) : stdChunks (.str s) = .ok [s] := by
  simp [stdChunks, GoVal.toLiquid, writeChunksL, writeObjectL, sprint, Res.bind]

theorem bytes_value_exact (s : Bytes) : stdChunks (.bytes s) = .ok [s] := by
  simp [stdChunks, GoVal.toLiquid, writeChunksL, writeObjectL, Res.bind]

theorem drop_string_value_exact (s : Bytes) : stdChunks (.drop (.str s)) = .ok [s] := by
  simp [stdChunks, GoVal.toLiquid, writeChunksL, writeObjectL, sprint, Res.bind]

/-- nil prints nothing at all (not even an empty write) -/
theorem nil_prints_nothing : stdChunks .nil = .ok [] := by
  simp [stdChunks, GoVal.toLiquid, writeChunksL]
