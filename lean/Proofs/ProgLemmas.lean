import Liquid.Render
/-!
# Interaction-tree lemmas: what a program does when the writer fails (used by C20)
-/

/-- the error carries the writer's failure as its cause -/
def IsIo : RawErr → Prop
  | .plain c => c = .io
  | .located e => e.cause = .io

theorem isIo_wrapError (path : Bytes) (e : RawErr) (loc : Loc) (h : IsIo e) :
    IsIo (.located (wrapError path e loc)) := by
  cases e with
  | plain c => simp only [IsIo] at h; subst h; simp [wrapError, IsIo]
  | located se =>
    simp only [IsIo] at h
    simp only [wrapError]
    split
    · simpa [IsIo] using h
    · simp [IsIo, h]

/-- **Stops on failure.** At every call on the success path, a failed write ends the program at
    once with an error that carries the failure: no further call, no result, no panic. -/
inductive Stops {α : Type} : Prog α → Prop where
  | ret (a) : Stops (.ret a)
  | fail (e) : Stops (.fail e)
  | panic (w) : Stops (.panic w)
  | unmodelled (w) : Stops (.unmodelled w)
  | call (b k) : (∀ n, ∃ e, k (.failed n) = .fail e ∧ IsIo e) → Stops (k .ok) → Stops (.call b k)

theorem Stops.bind {α β} {p : Prog α} {f : α → Prog β} (hp : Stops p) (hf : ∀ a, Stops (f a)) :
    Stops (p.bind f) := by
  induction hp with
  | ret a => exact hf a
  | fail e => exact .fail e
  | panic w => exact .panic w
  | unmodelled w => exact .unmodelled w
  | call b k hk _ ih =>
    refine .call _ _ ?_ ih
    intro n
    obtain ⟨e, he, hio⟩ := hk n
    exact ⟨e, by simp [Prog.bind, he], hio⟩

theorem Stops.mapFail {α} {p : Prog α} (g : RawErr → RawErr) (hg : ∀ e, IsIo e → IsIo (g e))
    (hp : Stops p) : Stops (p.mapFail g) := by
  induction hp with
  | ret a => exact .ret a
  | fail e => exact .fail _
  | panic w => exact .panic w
  | unmodelled w => exact .unmodelled w
  | call b k hk _ ih =>
    refine .call _ _ ?_ ih
    intro n
    obtain ⟨e, he, hio⟩ := hk n
    exact ⟨g e, by simp [Prog.mapFail, he], hg e hio⟩

/-- a program that makes no call at all -/
def NoCalls {α} : Prog α → Prop
  | .call _ _ => False
  | _ => True

theorem Stops.ofNoCalls {α} {p : Prog α} (h : NoCalls p) : Stops p := by
  cases p with
  | ret a => exact .ret a
  | fail e => exact .fail e
  | panic w => exact .panic w
  | unmodelled w => exact .unmodelled w
  | call b k => exact absurd h (by simp [NoCalls])

/-! ## Faulty writers -/

inductive Outcome where
  | ok | err (e : RawErr) | panic | unmodelled
  deriving Repr

/-- a writer that fails on its `k`-th call (counting from 0), accepting `acc` bytes of it, and
    succeeds on every other call ("fail once"). Returns the outcome, the bytes accepted over
    the whole run, and the number of calls made AFTER the failing one. -/
def runFaulty {α} : Prog α → Option Nat → Nat → Outcome × Bytes × Nat
  | .ret _, _, _ => (.ok, [], 0)
  | .fail e, _, _ => (.err e, [], 0)
  | .panic _, _, _ => (.panic, [], 0)
  | .unmodelled _, _, _ => (.unmodelled, [], 0)
  | .call b kont, some 0, acc =>
      let (o, rest, later) := runFaulty (kont (.failed acc)) none acc
      (o, b.take acc ++ rest, later + (kont (.failed acc)).calls.length)
  | .call b kont, some (k+1), acc =>
      let (o, rest, later) := runFaulty (kont .ok) (some k) acc
      (o, b ++ rest, later)
  | .call b kont, none, acc =>
      let (o, rest, later) := runFaulty (kont .ok) none acc
      (o, b ++ rest, later)

/-- For a program that stops on failure and a writer failing at any call `k` of its success
    path: the run ends with an error carrying the failure, what the writer accepted is the
    first `k` calls plus the accepted part of call `k`, and no call follows. -/
theorem faulty_spec {α} (p : Prog α) (hp : Stops p) : ∀ k acc, k < p.calls.length →
    (∃ e, (runFaulty p (some k) acc).1 = .err e ∧ IsIo e) ∧
    (runFaulty p (some k) acc).2.1 = (p.calls.take k).flatten ++ (p.calls.getD k []).take acc ∧
    (runFaulty p (some k) acc).2.2 = 0 := by
  induction hp with
  | ret a => intro k acc h; simp [Prog.calls] at h
  | fail e => intro k acc h; simp [Prog.calls] at h
  | panic w => intro k acc h; simp [Prog.calls] at h
  | unmodelled w => intro k acc h; simp [Prog.calls] at h
  | call b kont hk _ ih =>
    intro k acc h
    cases k with
    | zero =>
      obtain ⟨e, he, hio⟩ := hk acc
      simp only [runFaulty, he, Prog.calls]
      exact ⟨⟨e, rfl, hio⟩, by simp, by simp⟩
    | succ k =>
      simp only [Prog.calls, List.length_cons, Nat.add_lt_add_iff_right] at h
      obtain ⟨h1, h2, h3⟩ := ih k acc h
      simp only [runFaulty, Prog.calls]
      refine ⟨h1, ?_, h3⟩
      simp [h2]

/-- what the writer accepted is a prefix of the fault-free output -/
theorem faulty_prefix {α} (p : Prog α) (hp : Stops p) (k acc : Nat) (h : k < p.calls.length) :
    (runFaulty p (some k) acc).2.1 <+: p.calls.flatten := by
  rw [(faulty_spec p hp k acc h).2.1]
  have hsplit : p.calls = p.calls.take k ++ (p.calls.getD k [] :: p.calls.drop (k + 1)) := by
    have : p.calls.getD k [] = p.calls[k] := by simp [List.getD, h]
    rw [this, List.getElem_cons_drop, List.take_append_drop]
  conv => rhs; rw [hsplit]
  simp only [List.flatten_append, List.flatten_cons]
  refine List.prefix_append_right_inj _ |>.mpr ?_
  exact (List.take_prefix _ _).trans (List.prefix_append _ _)

/-- the fault-free run writes the concatenation of its calls -/
theorem runPure_calls {α} (p : Prog α) : p.runPure.1 = p.calls.flatten := by
  induction p with
  | ret a => rfl
  | fail e => rfl
  | panic w => rfl
  | unmodelled w => rfl
  | call b k ih => simp [Prog.runPure, Prog.calls, ih]
