import Proofs.C05
/-!
# C19 — custom delimiters are equivalent to the defaults, hyphens included
-/

/-- **C19 (empty selects the default).** `Delims("", "", "", "")` selects the four defaults… -/
theorem delims_all_empty : Delims.ofList [[], [], [], []] = Delims.default := by decide

/-- …position by position: an empty entry stands for the default of its position and a
    non-empty entry is taken as given. -/
theorem delims_default_per_position (a b c d : Bytes) :
    Delims.ofList [a, b, c, d] =
      ⟨if a = [] then Delims.default.ol else a, if b = [] then Delims.default.or else b,
       if c = [] then Delims.default.tl else c, if d = [] then Delims.default.tr else d⟩ := by
  cases a <;> cases b <;> cases c <;> cases d <;> simp [Delims.ofList]

/-- the empty list selects the defaults (the instance `Delims()` of `delims_wrong_arity`) -/
theorem delims_wrong_arity_nil : Delims.ofList [] = Delims.default := rfl

/-- **C19 (wrong arity).** EVERY list that does not have exactly four entries — none, one, two,
    three, five or more — selects the four defaults (`Scan`: `if len(delims) != 4 { delims = defaults }`). -/
theorem delims_wrong_arity (l : List Bytes) (h : l.length ≠ 4) : Delims.ofList l = Delims.default := by
  match l, h with
  | [], _ => rfl
  | [_], _ => rfl
  | [_, _], _ => rfl
  | [_, _, _], _ => rfl
  | [_, _, _, _], h => exact absurd rfl h
  | _ :: _ :: _ :: _ :: _ :: _, _ => rfl

example : Delims.ofList [[60], [62], [91]] = Delims.default := delims_wrong_arity _ (by decide)
example : Delims.ofList [[60], [62], [91], [93], [33]] = Delims.default := delims_wrong_arity _ (by decide)

/-- the delimiters actually used are never empty -/
theorem delims_nonempty (l : List Bytes) :
    (Delims.ofList l).ol ≠ [] ∧ (Delims.ofList l).or ≠ [] ∧ (Delims.ofList l).tl ≠ [] ∧ (Delims.ofList l).tr ≠ [] := by
  unfold Delims.ofList
  split
  · next a b c d =>
    refine ⟨?_, ?_, ?_, ?_⟩ <;> simp only <;> split <;> simp_all [Delims.default, List.isEmpty_iff]
  · simp [Delims.default]

/-- **C19 (hyphen detection is relative to the configured delimiter lengths).** For an object
    token, a left trim marker is emitted exactly when the byte just after the opening delimiter is
    a hyphen, and a right marker exactly when the byte just before the closing delimiter is —
    whatever the lengths of the delimiters. -/
theorem hyphen_detection_obj (d : Delims) (src : Bytes) (ts : Nat) (caps : Caps) (line : Nat)
    (h : isPrefixOfB d.ol src = true) :
    ((tokensOfMatch d src ts caps line).head?.map (·.ty) = some .trimL ↔ src[d.ol.length]? = some 45) ∧
    ((tokensOfMatch d src ts caps line).getLast?.map (·.ty) = some .trimR ↔ src[src.length - d.or.length - 1]? = some 45) := by
  simp only [tokensOfMatch, h, if_true, isHyphenAt]
  constructor
  · by_cases h1 : src[d.ol.length]? = some 45 <;> simp [h1]
  · by_cases h2 : src[src.length - d.or.length - 1]? = some 45 <;> simp [h2]

theorem hyphen_detection_tag (d : Delims) (src : Bytes) (ts : Nat) (caps : Caps) (line : Nat)
    (h0 : isPrefixOfB d.ol src = false) (h : isPrefixOfB d.tl src = true) :
    ((tokensOfMatch d src ts caps line).head?.map (·.ty) = some .trimL ↔ src[d.tl.length]? = some 45) ∧
    ((tokensOfMatch d src ts caps line).getLast?.map (·.ty) = some .trimR ↔ src[src.length - d.tr.length - 1]? = some 45) := by
  simp only [tokensOfMatch, h0, h, if_true, isHyphenAt, Bool.false_eq_true, if_false]
  constructor
  · by_cases h1 : src[d.tl.length]? = some 45 <;> simp [h1]
  · by_cases h2 : src[src.length - d.tr.length - 1]? = some 45 <;> simp [h2]

/-- tokenising with custom delimiters loses nothing either, and numbers lines the same way: the
    C05 theorems hold for every delimiter list (they are stated for arbitrary `delims`) -/
theorem custom_delims_partition (delims : List Bytes) (src : Bytes) (line : Nat) :
    ((scan delims src line).map Token.source).flatten = src ∧ linesOk line (scan delims src line) = true :=
  ⟨scan_partition delims src line, scan_lines delims src line⟩

/-- **C19 (the default delimiters become ordinary text).** Under custom delimiters a source that
    contains none of the *configured* opening delimiters is one text token — in particular a source
    made of default-delimiter tags. -/
theorem default_delims_are_text (delims : List Bytes) (src : Bytes) (line : Nat)
    (hol : ¬ (Delims.ofList delims).ol <:+: src) (htl : ¬ (Delims.ofList delims).tl <:+: src) :
    scan delims src line = if src.isEmpty then [] else [{ ty := .text, line := line, source := src }] :=
  scan_no_open_delim delims src line hol htl

/-! Non-vacuity: `<`, `>`, `[`, `]` as delimiters: "[- if x ]a< y ->{{z}}" -/
example : (scan [[60], [62], [91], [93]] [91, 45, 32, 105, 102, 32, 120, 32, 93, 97, 60, 32, 121, 32, 45, 62, 123, 123, 122, 125, 125] 1).map (·.ty)
    = [.trimL, .tag, .text, .obj, .trimR, .text] := by decide
