import Proofs.C08
import Proofs.PostLemmas
import Liquid.Call
import Liquid.Std
/-!
# A pipeline, one step at a time through `assign` (helper lemmas for `Proofs/C08Source.lean`)

* `Expr.mentions t e`: the variable `t` occurs in `e`; `eval_fresh`: binding a variable that does not occur
  changes nothing.
* `unwrap_toLiquid_unwrap`: what `assign` stores (`Evaluate` = the wrapper's `Interface()`) and what a
  variable reference reads back (`ToLiquid`, then the next filter's `Interface()`) is the same value.
* `obj_env_irrelevant`: an object node looks at the variables only through the value of its expression.
-/

open GoVal

/-! ## Occurrence of a variable -/

mutual
def Expr.mentions (t : Bytes) : Expr → Bool
  | .lit _ => false
  | .var x => x == t
  | .prop e _ => e.mentions t
  | .index e i => e.mentions t || i.mentions t
  | .range a b => a.mentions t || b.mentions t
  | .rel _ a b => a.mentions t || b.mentions t
  | .and_ a b => a.mentions t || b.mentions t
  | .or_ a b => a.mentions t || b.mentions t
  | .filter e _ args => e.mentions t || mentionsList t args
def mentionsList (t : Bytes) : List Expr → Bool
  | [] => false
  | e :: es => e.mentions t || mentionsList t es
end

mutual
/-- binding a variable that does not occur in `e` does not change its value -/
theorem eval_fresh (P : Prims) (env : Env) (t : Bytes) (w : GoVal) :
    ∀ e : Expr, e.mentions t = false → eval P (env.set t w) e = eval P env e
  | .lit v, _ => by rw [eval, eval]
  | .var x, h => by
    simp only [Expr.mentions, beq_eq_false_iff_ne, ne_eq] at h
    rw [eval, eval, Env.get_set_other _ _ _ _ h]
  | .prop e name, h => by
    simp only [Expr.mentions] at h
    rw [eval, eval, eval_fresh P env t w e h]
  | .index e i, h => by
    simp only [Expr.mentions, Bool.or_eq_false_iff] at h
    rw [eval, eval, eval_fresh P env t w e h.1, eval_fresh P env t w i h.2]
  | .range a b, h => by
    simp only [Expr.mentions, Bool.or_eq_false_iff] at h
    rw [eval, eval, eval_fresh P env t w a h.1, eval_fresh P env t w b h.2]
  | .rel op a b, h => by
    simp only [Expr.mentions, Bool.or_eq_false_iff] at h
    rw [eval, eval, eval_fresh P env t w a h.1, eval_fresh P env t w b h.2]
  | .and_ a b, h => by
    simp only [Expr.mentions, Bool.or_eq_false_iff] at h
    rw [eval, eval, eval_fresh P env t w a h.1, eval_fresh P env t w b h.2]
  | .or_ a b, h => by
    simp only [Expr.mentions, Bool.or_eq_false_iff] at h
    rw [eval, eval, eval_fresh P env t w a h.1, eval_fresh P env t w b h.2]
  | .filter e name args, h => by
    simp only [Expr.mentions, Bool.or_eq_false_iff] at h
    rw [eval, eval, eval_fresh P env t w e h.1, evalList_fresh P env t w args h.2]
theorem evalList_fresh (P : Prims) (env : Env) (t : Bytes) (w : GoVal) :
    ∀ es : List Expr, mentionsList t es = false → evalList P (env.set t w) es = evalList P env es
  | [], _ => by rw [evalList, evalList]
  | e :: es, h => by
    simp only [mentionsList, Bool.or_eq_false_iff] at h
    rw [evalList, evalList, eval_fresh P env t w e h.1, evalList_fresh P env t w es h.2]
end

/-! ## `Interface()` after `ToLiquid` after `Interface()` -/

/-- an unwrapped value is never a drop, a nil pointer, or a pointer to anything but a struct, a range or a time -/
def IsUnwrapped : GoVal → Prop
  | .drop _ => False
  | .nilPtr => False
  | .ptr (.struct _) => True
  | .ptr (.range _ _) => True
  | .ptr (.time _) => True
  | .ptr _ => False
  | _ => True

theorem unwrap_isUnwrapped (v : GoVal) : IsUnwrapped (unwrap v) := by
  induction v using GoVal.unwrap.induct <;> simp_all [unwrap, IsUnwrapped]

theorem unwrap_of_isUnwrapped (v : GoVal) (h : IsUnwrapped v) : unwrap v = v ∧ toLiquid v = v := by
  cases v with
  | drop v => exact absurd h id
  | nilPtr => exact absurd h id
  | ptr p => cases p <;> first | exact absurd h id | exact ⟨rfl, rfl⟩
  | _ => exact ⟨rfl, rfl⟩

/-- what `assign` stored is read back unchanged by a variable reference -/
theorem unwrap_toLiquid_unwrap (r : GoVal) : unwrap (toLiquid (unwrap r)) = unwrap r := by
  have h := unwrap_of_isUnwrapped _ (unwrap_isUnwrapped r)
  rw [h.2, h.1]

theorem unwrap_unwrap (r : GoVal) : unwrap (unwrap r) = unwrap r := (unwrap_of_isUnwrapped _ (unwrap_isUnwrapped r)).1

/-! ## Evaluation of a filter step through `evaluate` -/

theorem evaluate_eq_bind (P : Prims) (env : Env) (e : Expr) :
    evaluate P env e = (eval P env e).bind fun v => .ok v.unwrap := by
  unfold evaluate
  cases eval P env e <;> rfl

/-- a filter step looks at its receiver only through `evaluate` (the wrapper's `Interface()`) -/
theorem eval_filter_via_evaluate (P : Prims) (env : Env) (y : Expr) (g : Bytes) (b : List Expr) :
    eval P env (.filter y g b) =
      if !P.hasFilter g then .err (.undefinedFilter g) else
      (evaluate P env y).bind fun u => (evalList P env b).bind fun as => P.applyFilter g u (as.map GoVal.unwrap) := by
  rw [eval, evaluate_eq_bind]
  cases eval P env y <;> rfl

theorem evaluate_var_set (P : Prims) (env : Env) (t : Bytes) (r : GoVal) :
    evaluate P (env.set t (unwrap r)) (.var t) = .ok (unwrap r) := by
  simp only [evaluate, eval, Env.get_set_same, unwrap_toLiquid_unwrap]

/-- the arguments of the remaining steps do not mention `t` -/
def FreshFor (t : Bytes) (fs : List (Bytes × List Expr)) : Prop := ∀ fa ∈ fs, mentionsList t fa.2 = false

/-- two receivers with the same `evaluate`, in environments that differ in a fresh variable, give the same pipeline -/
theorem evaluate_pipeline_congr (P : Prims) (env : Env) (t : Bytes) (w : GoVal) (fs : List (Bytes × List Expr))
    (hfresh : FreshFor t fs) : ∀ (y z : Expr), evaluate P (env.set t w) y = evaluate P env z →
    evaluate P (env.set t w) (pipeline y fs) = evaluate P env (pipeline z fs) := by
  induction fs with
  | nil => intro y z h; exact h
  | cons fa rest ih =>
    intro y z h
    obtain ⟨g, b⟩ := fa
    simp only [pipeline]
    refine ih (fun fa hfa => hfresh fa (List.mem_cons_of_mem _ hfa)) _ _ ?_
    have hb : mentionsList t b = false := hfresh (g, b) (List.mem_cons_self ..)
    rw [evaluate_eq_bind, evaluate_eq_bind, eval_filter_via_evaluate, eval_filter_via_evaluate, h,
      evalList_fresh P env t w b hb]

/-- a pipeline that evaluates without error has a receiver that evaluates without error -/
theorem evaluate_pipeline_ok_head (P : Prims) (env : Env) (fs : List (Bytes × List Expr)) :
    ∀ (x : Expr) (v : GoVal), evaluate P env (pipeline x fs) = .ok v → ∃ v0, evaluate P env x = .ok v0 := by
  induction fs with
  | nil => intro x v h; exact ⟨v, h⟩
  | cons fa rest ih =>
    intro x v h
    obtain ⟨g, b⟩ := fa
    simp only [pipeline] at h
    obtain ⟨v1, h1⟩ := ih _ _ h
    rw [evaluate_eq_bind, eval_filter_via_evaluate] at h1
    cases hx : evaluate P env x with
    | ok v0 => exact ⟨v0, rfl⟩
    | err c => rw [hx] at h1; split at h1 <;> cases h1
    | panic w => rw [hx] at h1; split at h1 <;> cases h1
    | unmodelled w => rw [hx] at h1; split at h1 <;> cases h1

theorem evaluate_unwrapped (P : Prims) (env : Env) (e : Expr) (v : GoVal) (h : evaluate P env e = .ok v) :
    v = unwrap v := by
  rw [evaluate_eq_bind] at h
  cases he : eval P env e with
  | ok r => rw [he] at h; simp only [Res.bind_ok, Res.ok.injEq] at h; rw [← h, unwrap_unwrap]
  | err c => rw [he] at h; cases h
  | panic w => rw [he] at h; cases h
  | unmodelled w => rw [he] at h; cases h

theorem Env.set_set (env : Env) (t : Bytes) (a b : GoVal) : (env.set t a).set t b = env.set t b := by
  simp only [Env.set, List.filter_cons, bne_self_eq_false, Bool.false_eq_true, if_false, List.filter_filter, Bool.and_self]

/-! ## An object node looks at the variables only through the value of its expression -/

/-- replace the variables of the final state -/
def withEnv {α} (env : Env) (p : Prog (α × RS)) : Prog (α × RS) :=
  p.bind fun r => .ret (r.1, { r.2 with env := env })

theorem withEnv_withEnv {α} (e1 e2 : Env) (p : Prog (α × RS)) : withEnv e2 (withEnv e1 p) = withEnv e2 p := by
  unfold withEnv
  rw [Prog.bind_assoc]
  rfl

theorem writeM_env (b : Bytes) (env env' : Env) (tw : TW) :
    writeM b ⟨env', tw⟩ = withEnv env' (writeM b ⟨env, tw⟩) := by
  unfold writeM withEnv
  simp only
  split
  · rfl
  · simp only [Prog.bind]
    congr 1
    funext r
    cases r <;> rfl

theorem flushM_env (env env' : Env) (tw : TW) :
    flushM ⟨env', tw⟩ = withEnv env' (flushM ⟨env, tw⟩) := by
  unfold flushM withEnv
  simp only
  split
  · rfl
  · simp only [Prog.bind]
    congr 1
    funext r
    cases r <;> rfl

/-- programs that neither read nor change the variables compose -/
theorem bindM_env {α β} (m : M α) (f : α → M β)
    (hm : ∀ env env' tw, m ⟨env', tw⟩ = withEnv env' (m ⟨env, tw⟩))
    (hf : ∀ a env env' tw, f a ⟨env', tw⟩ = withEnv env' (f a ⟨env, tw⟩)) (env env' : Env) (tw : TW) :
    (m >>= f) ⟨env', tw⟩ = withEnv env' ((m >>= f) ⟨env, tw⟩) := by
  simp only [bind, M.bind]
  rw [hm env env' tw]
  unfold withEnv
  rw [Prog.bind_assoc, Prog.bind_assoc]
  congr 1
  funext r
  obtain ⟨u, s1⟩ := r
  obtain ⟨e1, tw1⟩ := s1
  simp only [Prog.bind]
  exact hf u e1 env' tw1

theorem writeVerbatimM_env (b : Bytes) (env env' : Env) (tw : TW) :
    writeVerbatimM b ⟨env', tw⟩ = withEnv env' (writeVerbatimM b ⟨env, tw⟩) := by
  unfold writeVerbatimM
  exact bindM_env _ _ (writeM_env _) (fun _ => bindM_env _ _ (writeM_env b) (fun _ => flushM_env)) env env' tw

theorem writeAllM_env (cs : List Bytes) (env env' : Env) (tw : TW) :
    writeAllM cs ⟨env', tw⟩ = withEnv env' (writeAllM cs ⟨env, tw⟩) := by
  induction cs generalizing tw env env' with
  | nil => rfl
  | cons c cs ih =>
    unfold writeAllM
    exact bindM_env _ _ (writeVerbatimM_env c) (fun _ env env' tw => ih env env' tw) env env' tw

/-- two object nodes whose expressions have the same value, run on the same trim writer with different
    variables, do the same (writes, failure, status); the final variables are those each started with -/
theorem obj_env_irrelevant (c : RCtx) (line : Nat) (e e' : Expr) (env env' : Env) (tw : TW)
    (h : evaluate c.P env' e' = evaluate c.P env e) :
    renderNode c (.obj line e') ⟨env', tw⟩ = withEnv env' (renderNode c (.obj line e) ⟨env, tw⟩) := by
  unfold renderNode
  cases hv : evaluate c.P env e with
  | err cause => simp only [wrapFailAt, M.mapFail, bind, M.bind, M.getEnv, Prog.bind, h, hv, M.ofRes, M.fail, Prog.mapFail, withEnv]
  | panic w => simp only [wrapFailAt, M.mapFail, bind, M.bind, M.getEnv, Prog.bind, h, hv, M.ofRes, Prog.mapFail, withEnv]
  | unmodelled w => simp only [wrapFailAt, M.mapFail, bind, M.bind, M.getEnv, Prog.bind, h, hv, M.ofRes, Prog.mapFail, withEnv]
  | ok v =>
    by_cases hstrict : (v.isNil && c.cfg.strict) = true
    · simp only [wrapFailAt, M.mapFail, bind, M.bind, M.getEnv, Prog.bind, h, hv, M.ofRes, pure, M.pure, hstrict, if_true,
        M.fail, Prog.mapFail, withEnv]
    · cases hc : c.O.chunks v with
      | err cause =>
        simp only [wrapFailAt, M.mapFail, bind, M.bind, M.getEnv, Prog.bind, h, hv, M.ofRes, pure, M.pure, hstrict,
          Bool.false_eq_true, if_false, hc, M.fail, Prog.mapFail, withEnv]
      | panic w =>
        simp only [wrapFailAt, M.mapFail, bind, M.bind, M.getEnv, Prog.bind, h, hv, M.ofRes, pure, M.pure, hstrict,
          Bool.false_eq_true, if_false, hc, Prog.mapFail, withEnv]
      | unmodelled w =>
        simp only [wrapFailAt, M.mapFail, bind, M.bind, M.getEnv, Prog.bind, h, hv, M.ofRes, pure, M.pure, hstrict,
          Bool.false_eq_true, if_false, hc, Prog.mapFail, withEnv]
      | ok chunks =>
        simp only [wrapFailAt, M.mapFail, bind, M.bind, M.getEnv, Prog.bind, h, hv, M.ofRes, pure, M.pure, hstrict,
          Bool.false_eq_true, if_false, hc]
        rw [writeAllM_env chunks env env' tw]
        generalize writeAllM chunks ⟨env, tw⟩ = p
        unfold withEnv
        induction p with
        | ret a => rfl
        | fail e => rfl
        | panic w => rfl
        | unmodelled w => rfl
        | call b k ih => simp only [Prog.bind, Prog.mapFail]; congr 1; funext r; exact ih r

theorem renderList_single (c : RCtx) (n : Node) (s : RS) :
    renderList c [n] s = (renderNode c n s).bind fun r => .ret r := by
  rw [renderList]
  simp only [bind, M.bind]
  congr 1
  funext r
  obtain ⟨st, s'⟩ := r
  cases st <;> simp [renderList, pure, M.pure]

theorem Prog.bind_ret {α} (p : Prog α) : (p.bind fun r => .ret r) = p := by
  induction p with
  | ret a => rfl
  | fail e => rfl
  | panic w => rfl
  | unmodelled w => rfl
  | call b k ih => simp only [Prog.bind]; congr 1; funext r; exact ih r

theorem renderList_obj_env (c : RCtx) (line : Nat) (e e' : Expr) (env env' : Env) (tw : TW)
    (h : evaluate c.P env' e' = evaluate c.P env e) :
    renderList c [.obj line e'] ⟨env', tw⟩ = withEnv env' (renderList c [.obj line e] ⟨env, tw⟩) := by
  rw [renderList_single, renderList_single, Prog.bind_ret, Prog.bind_ret]
  exact obj_env_irrelevant c line e e' env env' tw h

/-- the step `t | f: a`, with `t` bound to the value of `x`, is the step `x | f: a` -/
theorem evaluate_step_var (P : Prims) (env : Env) (t : Bytes) (x : Expr) (v0 : GoVal) (f : Bytes) (a : List Expr)
    (hx : evaluate P env x = .ok v0) (ha : mentionsList t a = false) :
    evaluate P (env.set t v0) (.filter (.var t) f a) = evaluate P env (.filter x f a) := by
  have hv0 := evaluate_unwrapped P env x v0 hx
  rw [evaluate_eq_bind, evaluate_eq_bind, eval_filter_via_evaluate, eval_filter_via_evaluate, hx, hv0,
    evaluate_var_set, evalList_fresh P env t _ a ha]

/-! ## When the first part fails -/

/-- the error of a pipeline whose receiver fails with `cause`: a filter is looked up before its receiver is
    evaluated, so the outermost unknown filter — if there is one — is reported instead -/
def pipeErr (P : Prims) (cause : Cause) (fs : List (Bytes × List Expr)) : Cause :=
  fs.foldl (fun c fa => if P.hasFilter fa.1 then c else .undefinedFilter fa.1) cause

theorem evaluate_pipeline_err (P : Prims) (env : Env) (fs : List (Bytes × List Expr)) :
    ∀ (e : Expr) (cause : Cause), evaluate P env e = .err cause →
      evaluate P env (pipeline e fs) = .err (pipeErr P cause fs) := by
  induction fs with
  | nil => intro e cause h; exact h
  | cons fa rest ih =>
    intro e cause h
    obtain ⟨g, b⟩ := fa
    simp only [pipeline, pipeErr, List.foldl_cons]
    refine ih _ _ ?_
    rw [evaluate_eq_bind, eval_filter_via_evaluate, h]
    cases P.hasFilter g <;> rfl

/-! ## Arguments -/

theorem evalList_length (P : Prims) (env : Env) : ∀ (es : List Expr) (vs : List GoVal),
    evalList P env es = .ok vs → vs.length = es.length
  | [], vs, h => by rw [evalList] at h; cases h; rfl
  | e :: es, vs, h => by
    rw [evalList] at h
    cases he : eval P env e with
    | ok v =>
      rw [he] at h
      cases hes : evalList P env es with
      | ok ws =>
        rw [hes] at h
        simp only [bind, Res.bind, Res.ok.injEq] at h
        subst h
        simp [evalList_length P env es ws hes]
      | err c => rw [hes] at h; cases h
      | panic w => rw [hes] at h; cases h
      | unmodelled w => rw [hes] at h; cases h
    | err c => rw [he] at h; cases h
    | panic w => rw [he] at h; cases h
    | unmodelled w => rw [he] at h; cases h

/-- what `values.Call` passes for a parameter without an argument: the type's zero value, or the identity
    function for a default-function parameter -/
def defaultArg : Param → Arg
  | .val t => .val t.zero
  | .fn _ => .fn none

theorem convertArgs_nil (ps : List Param) : convertArgs ps [] = .ok (ps.map defaultArg) := by
  induction ps with
  | nil => rfl
  | cons p ps ih => cases p <;> simp [convertArgs, ih, defaultArg]

theorem convertArgs_append (ps qs : List Param) : ∀ (args : List GoVal), args.length = ps.length →
    convertArgs (ps ++ qs) args = (convertArgs ps args).bind fun r => .ok (r ++ qs.map defaultArg) := by
  induction ps with
  | nil =>
    intro args h
    have : args = [] := List.eq_nil_of_length_eq_zero h
    subst this
    simp [convertArgs, convertArgs_nil]
  | cons p ps ih =>
    intro args h
    cases args with
    | nil => simp at h
    | cons a as =>
      simp only [List.length_cons, Nat.add_right_cancel_iff] at h
      cases p with
      | fn t =>
        simp only [List.cons_append, convertArgs, ih as h]
        cases convertArgs ps as <;> rfl
      | val t =>
        cases a <;> simp only [List.cons_append, convertArgs, ih as h] <;>
          first
          | (cases convertArgs ps as <;> rfl)
          | (cases convert _ t <;> simp only [Res.bind] <;> cases convertArgs ps as <;> rfl)

theorem stdOut_nil : stdOut.chunks .nil = .ok [] := rfl
