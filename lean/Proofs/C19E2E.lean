import Proofs.E2EEquiv
import Proofs.C05E2E
/-!
# C19, as a theorem over all templates — custom delimiters are equivalent to the defaults

A template is a list of abstract items (`Item`: text, object, tag, with their hyphens and inner
white space); `spell d items` writes it with the delimiter set `d`; `tokensOf d items line` is the
token list it denotes. For EVERY delimiter quadruple satisfying `GoodDelims` (non-empty strings of
ASCII punctuation other than `-` and `_`, neither opening delimiter a prefix of the other) and every
item list satisfying the decidable predicate `Clean d` the tokenizer — regular expression, backtracking
matcher, hyphen detection, line counting — reads the spelling back as exactly these tokens
(`scan_spell`, by induction over the matcher). Hence the token lists under two delimiter sets are
equal up to the `source` field of tags and objects, and (the block parser and the compiler do not
read that field; a raw block keeps the sources of its tokens, which since the repair
`fixes/raw-comment-lexical` are one text token of literal bytes) the compiled templates are EQUAL.

`Clean d items` (Proofs/E2ESpell.lean) says, in the words of `harness/tokitems.go`:
* texts are non-empty, not adjacent, and no opening delimiter begins inside a text (not even one
  completed by the bytes that follow);
* inner white space is white space; an object's arguments are non-empty, do not begin with white
  space (nor with `-` directly after the opening delimiter) and do not end with white space or `-`;
  a tag's name is `\w+`, its arguments (if any) are separated from the name by white space, do not
  begin with white space, do not end with white space or `-`, and do not end in a non-empty prefix of
  the tag-right delimiter;
* the closing delimiter does not occur between the arguments and its own position;
* after a tag named `raw` or `comment` a text item is the block's BODY: any bytes (delimiters included) in which
  no end tag of the block begins, followed by the end tag — or there is no end tag ahead at all and the items
  are read as usual;
* a tag WITHOUT arguments has at most one white-space byte before its closing delimiter, and none
  before a right hyphen — see the two `example`s at the end: the pattern of `formTokenMatcher`
  reads `{% else  %}` as a tag with arguments `" "` and `{% else -%}` as a tag with arguments `"-"`
  *and* a right trim marker (real behaviour of the Go code, reproduced by the model).
-/

/-- **C19 (the tokenizer inverts spelling), for all good delimiters and all clean templates.** -/
theorem scan_spell (delims : List Bytes) (items : List Item) (line : Nat)
    (hg : GoodDelims (Delims.ofList delims)) (hc : Clean (Delims.ofList delims) items) :
    scan delims (spell (Delims.ofList delims) items) line = tokensOf (Delims.ofList delims) items line :=
  scanWith_spell (Delims.ofList delims) hg items hc line

/-- `a{{- x | f }}{% if x -%}\n{% endif %}` spelled with `<< >> [ ]` -/
example : scan [[60, 60], [62, 62], [91], [93]] (spell exDelims exItems) 7 = tokensOf exDelims exItems 7 :=
  scan_spell [[60, 60], [62, 62], [91], [93]] exItems 7 (by decide) (by decide)
example : spell exDelims exItems = [97, 60, 60, 45, 32, 120, 32, 124, 32, 102, 32, 62, 62, 91, 32, 105, 102, 32, 120, 32, 45, 93, 10,
    91, 32, 101, 110, 100, 105, 102, 32, 93] := by decide
example : (tokensOf exDelims exItems 7).map (fun t => (t.ty, t.line)) =
    [(.text, 7), (.trimL, 0), (.obj, 7), (.tag, 7), (.trimR, 0), (.text, 7), (.tag, 8)] := by decide

/-- **C19 (the two token lists).** The tokens of the custom spelling and of the default spelling (any two
    good delimiter sets) are equal up to the `source` field of tag and object tokens: same kinds,
    names, arguments, trim markers, line numbers, and the same text tokens. -/
theorem tokens_equal_up_to_source (delims delims' : List Bytes) (items : List Item) (line : Nat)
    (hg : GoodDelims (Delims.ofList delims)) (hc : Clean (Delims.ofList delims) items)
    (hg' : GoodDelims (Delims.ofList delims')) (hc' : Clean (Delims.ofList delims') items) :
    (scan delims (spell (Delims.ofList delims) items) line).map unsrc =
      (scan delims' (spell (Delims.ofList delims') items) line).map unsrc := by
  rw [scan_spell delims items line hg hc, scan_spell delims' items line hg' hc']
  exact tokensOf_unsrc _ _ hg hg' items line

example : (scan [[60, 60], [62, 62], [91], [93]] (spell exDelims exItems) 1).map unsrc =
    (scan [] (spell Delims.default exItems) 1).map unsrc :=
  tokens_equal_up_to_source [[60, 60], [62, 62], [91], [93]] [] exItems 1 (by decide) (by decide) (by decide) (by decide)

/-- **C19, main theorem (custom delimiters are equivalent to the defaults, hyphens included).** For every
    template (item list) clean for both delimiter sets, whose raw blocks are closed (`RawClosed`: a `raw` tag
    is followed, at once or after ONE text item — the body, arbitrary bytes —, by an `endraw` tag): compiling the custom
    spelling with the custom delimiters and compiling the other spelling with the other delimiters (in
    particular the defaults) give the SAME result — the same compiled tree, or the same located error. -/
theorem spellings_compile_equal (delims delims' : List Bytes) (items : List Item) (line : Nat)
    (hg : GoodDelims (Delims.ofList delims)) (hc : Clean (Delims.ofList delims) items)
    (hg' : GoodDelims (Delims.ofList delims')) (hc' : Clean (Delims.ofList delims') items)
    (hnr : RawClosed items) :
    compileSource delims (spell (Delims.ofList delims) items) line =
      compileSource delims' (spell (Delims.ofList delims') items) line := by
  rw [compileSource_eq_compileTokens, compileSource_eq_compileTokens]
  refine compileTokens_congr _ _ (tokens_equal_up_to_source delims delims' items line hg hc hg' hc') ?_ ?_
  · rw [scan_spell delims items line hg hc]; exact tokensOf_rawSafe _ _ items line (Nat.le_refl _) hnr
  · rw [scan_spell delims' items line hg' hc']; exact tokensOf_rawSafe _ _ items line (Nat.le_refl _) hnr

/-- **C19 on `run`.** An engine configured with custom delimiters, run on the custom spelling, returns
    what the same engine returns for the template compiled from the default spelling with the default
    delimiters: same output or same located error, for every value layer, file system, fuel and
    environment. (Files reached through `include` are read with the engine's own delimiters on both
    sides; that is why the right-hand side keeps `cfg`.) -/
theorem run_custom_spelling_eq_default (P : Prims) (O : OutPrims) (cfg : Cfg) (fs : FS) (fuel : Nat) (items : List Item)
    (line : Nat) (env : Env)
    (hg : GoodDelims (Delims.ofList cfg.delims)) (hc : Clean (Delims.ofList cfg.delims) items)
    (hc' : Clean Delims.default items) (hnr : RawClosed items) :
    run P O cfg fs fuel (spell (Delims.ofList cfg.delims) items) line env =
      runCompiled P O cfg fs fuel (compileSource [] (spell Delims.default items) line) env := by
  rw [run_eq_runCompiled, spellings_compile_equal cfg.delims [] items line hg hc (by decide) hc' hnr]
  rfl

example : compileSource [[60, 60], [62, 62], [91], [93]] (spell exDelims exItems) 1 =
    compileSource [] (spell Delims.default exItems) 1 :=
  spellings_compile_equal [[60, 60], [62, 62], [91], [93]] [] exItems 1 (by decide) (by decide) (by decide) (by decide) (by decide)

/-! ## Raw blocks

Since the repair of the tokenizer (raw and comment are lexical) the body of a raw block is ONE text token: in the
item model it is a text item of arbitrary bytes, the same bytes under every delimiter set (it is literal text, not
something that is re-spelled), and the equivalence covers it: `p[ raw ]{{ x }} << y >> {% b[ endraw ]` and
`p{% raw %}{{ x }} << y >> {% b{% endraw %}` compile to the same tree. What the theorem still excludes
(`RawClosed`): a `raw` tag without its end tag followed by a tag named `endraw` that carries arguments (the
tokenizer does not take that for the end tag, the block parser does), where the parser collects the token
sources as spelled. -/
def exRawItems : List Item := [.text [112], .tag rawName [] false false [32] [] [32],
  .text [123, 123, 32, 120, 32, 125, 125, 32, 60, 60, 32, 121, 32, 62, 62, 32, 123, 37, 32, 98],
  .tag endrawName [] false false [32] [] [32]]

example : GoodDelims exDelims ∧ Clean exDelims exRawItems ∧ Clean Delims.default exRawItems ∧ RawClosed exRawItems := by decide
example : compileSource [[60, 60], [62, 62], [91], [93]] (spell exDelims exRawItems) 1 =
    compileSource [] (spell Delims.default exRawItems) 1 :=
  spellings_compile_equal [[60, 60], [62, 62], [91], [93]] [] exRawItems 1 (by decide) (by decide) (by decide) (by decide) (by decide)

/-- the excluded shape: `{% raw %}{{ x }}{% endraw y %}` — no lexical end tag, the parser ends the block at the tag
    named `endraw` and the raw body is the object's source as spelled -/
def exRawOpen : List Item := [.tag rawName [] false false [32] [] [32], .obj [120] false false [32] [32],
  .tag endrawName [121] false false [32] [32] [32]]
example : Clean exDelims exRawOpen ∧ Clean Delims.default exRawOpen ∧ ¬ RawClosed exRawOpen := by decide
example : runTokens stdPrims stdOut {} (fsOfList []) 1 (scan [[60, 60], [62, 62], [91], [93]] (spell exDelims exRawOpen) 1) []
    = .ok [60, 60, 32, 120, 32, 62, 62] := by
  have h : scan [[60, 60], [62, 62], [91], [93]] (spell exDelims exRawOpen) 1 = tokensOf exDelims exRawOpen 1 :=
    scan_spell [[60, 60], [62, 62], [91], [93]] exRawOpen 1 (by decide) (by decide)
  have e : tokensOf exDelims exRawOpen 1 =
      { ty := .tag, line := 1, name := rawName, source := [91, 32, 114, 97, 119, 32, 93] } ::
      ([{ ty := .obj, line := 1, args := [120], source := [60, 60, 32, 120, 32, 62, 62] }] ++
       [{ ty := .tag, line := 1, name := endrawName, args := [121], source := [91, 32, 101, 110, 100, 114, 97, 119, 32, 121, 32, 93] }]) := by decide
  rw [h, e]
  exact raw_block_renders_body_sources _ _ _ _ _ _ _ _ _ ⟨rfl, rfl⟩ ⟨rfl, rfl⟩ (by decide) (by rfl)
example : runTokens stdPrims stdOut {} (fsOfList []) 1 (scan [] (spell Delims.default exRawOpen) 1) []
    = .ok [123, 123, 32, 120, 32, 125, 125] := by
  have h : scan [] (spell Delims.default exRawOpen) 1 = tokensOf Delims.default exRawOpen 1 :=
    scan_spell [] exRawOpen 1 (by decide) (by decide)
  have e : tokensOf Delims.default exRawOpen 1 =
      { ty := .tag, line := 1, name := rawName, source := [123, 37, 32, 114, 97, 119, 32, 37, 125] } ::
      ([{ ty := .obj, line := 1, args := [120], source := [123, 123, 32, 120, 32, 125, 125] }] ++
       [{ ty := .tag, line := 1, name := endrawName, args := [121], source := [123, 37, 32, 101, 110, 100, 114, 97, 119, 32, 121, 32, 37, 125] }]) := by decide
  rw [h, e]
  exact raw_block_renders_body_sources _ _ _ _ _ _ _ _ _ ⟨rfl, rfl⟩ ⟨rfl, rfl⟩ (by decide) (by rfl)

/-! **a tag without arguments and white space before the closing delimiter.**
`{% else  %}` (two spaces): the optional argument group of the pattern matches the second space. -/
example : scan [] (spell Delims.default [.tag [101, 108, 115, 101] [] false false [32] [] [32, 32]]) 1 =
    [{ ty := .tag, line := 1, name := [101, 108, 115, 101], args := [32],
       source := [123, 37, 32, 101, 108, 115, 101, 32, 32, 37, 125] }] := by decide
example : ¬ Clean Delims.default [.tag [101, 108, 115, 101] [] false false [32] [] [32, 32]] := by decide
/-- `{% else -%}`: the hyphen is read as the tag's arguments AND as a right trim marker. -/
example : scan [] (spell Delims.default [.tag [101, 108, 115, 101] [] false true [32] [] [32]]) 1 =
    [{ ty := .tag, line := 1, name := [101, 108, 115, 101], args := [45],
       source := [123, 37, 32, 101, 108, 115, 101, 32, 45, 37, 125] }, { ty := .trimR }] := by decide
example : ¬ Clean Delims.default [.tag [101, 108, 115, 101] [] false true [32] [] [32]] := by decide
/-- `{% if x%%}` (arguments ending in a prefix of the closing delimiter) is not a tag at all. -/
example : scan [] (spell Delims.default [.tag [105, 102] [120, 37] false false [32] [32] []]) 1 =
    [{ ty := .text, line := 1, source := [123, 37, 32, 105, 102, 32, 120, 37, 37, 125] }] := by decide
example : ¬ Clean Delims.default [.tag [105, 102] [120, 37] false false [32] [32] []] := by decide
