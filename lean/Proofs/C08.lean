import Liquid.ExprParse
