import Liquid.Eval
import Proofs.ExprRoundTrip
import Proofs.ExprShowLex
import Proofs.ExprParseImage
/-!
# C08 — expressions: literals, variable/property/index lookup and filter pipelines
-/

open GoVal

/-! ## Literals and names -/

/-- a literal denotes itself -/
theorem eval_lit (P : Prims) (env : Env) (v : GoVal) : eval P env (.lit v) = .ok v := by
  rw [eval]

/-- a name denotes its binding (a drop presents as its `ToLiquid` value); an undefined name is nil -/
theorem eval_var (P : Prims) (env : Env) (x : Bytes) : eval P env (.var x) = .ok (env.get x).toLiquid := by
  rw [eval]

theorem eval_var_undefined (P : Prims) (env : Env) (x : Bytes) (h : env.find? (fun kv => kv.1 == x) = none) :
    eval P env (.var x) = .ok .nil := by
  rw [eval_var]; simp [Env.get, h, GoVal.toLiquid]

/-! ## Array indexing -/

/-- `a[i]` for `0 ≤ i < len` reads element `i` -/
theorem index_array (t : Ty) (xs : List GoVal) (i : Nat) (h : i < xs.length) :
    indexValue (.slice t xs) (.int .int i) = .val xs[i] := by
  have h1 : ¬ ((i : Int) < 0) := by omega
  have h2 : (0 : Int) ≤ i ∧ (i : Int) < xs.length := by omega
  simp [indexValue, indexValue.indexList, unwrap, h1, h2, List.getD, h]

/-- negative indices count from the end: `a[-k]` is `a[len-k]` -/
theorem index_neg (t : Ty) (xs : List GoVal) (k : Nat) (hk : 0 < k) (h : k ≤ xs.length) :
    indexValue (.slice t xs) (.int .int (-(k : Int))) = .val (xs.getD (xs.length - k) .nil) := by
  have h1 : (-(k : Int) < 0) := by omega
  have h2 : (0 : Int) ≤ -(k : Int) + xs.length ∧ -(k : Int) + xs.length < xs.length := by omega
  have h3 : (-(k : Int) + xs.length).toNat = xs.length - k := by omega
  simp [indexValue, indexValue.indexList, unwrap, hk, h2, h3]

/-- an out-of-range index yields nil -/
theorem index_oob (t : Ty) (xs : List GoVal) (n : Int) (h : n < -(xs.length : Int) ∨ (xs.length : Int) ≤ n) :
    indexValue (.slice t xs) (.int .int n) = .val .nil := by
  simp only [indexValue, indexValue.indexList, unwrap]
  by_cases hn : n < 0
  · have : ¬ (0 ≤ n + (xs.length : Int) ∧ n + (xs.length : Int) < xs.length) := by omega
    simp [hn, this]
  · have : ¬ (0 ≤ n ∧ n < (xs.length : Int)) := by omega
    simp [hn, this]

/-- a non-numeric index (string, bool, nil, array…) yields nil -/
theorem index_nonint_str (t : Ty) (xs : List GoVal) (s : Bytes) : indexValue (.slice t xs) (.str s) = .val .nil := by
  simp [indexValue, indexValue.indexList, unwrap]
theorem index_nonint_nil (t : Ty) (xs : List GoVal) : indexValue (.slice t xs) .nil = .val .nil := by
  simp [indexValue, indexValue.indexList, unwrap]
theorem index_nonint_bool (t : Ty) (xs : List GoVal) (b : Bool) : indexValue (.slice t xs) (.bool b) = .val .nil := by
  simp [indexValue, indexValue.indexList, unwrap]

/-- arrays offer `first`, `last` and `size` -/
theorem array_first (t : Ty) (xs : List GoVal) : propertyValue (.slice t xs) firstKey = .val (xs.head?.getD .nil) := by
  simp [propertyValue, propertyValue.propList, unwrap]
theorem array_last (t : Ty) (xs : List GoVal) : propertyValue (.slice t xs) lastKey = .val (xs.getLast?.getD .nil) := by
  simp [propertyValue, propertyValue.propList, unwrap, firstKey, lastKey]
theorem array_size (t : Ty) (xs : List GoVal) : propertyValue (.slice t xs) sizeKey = .val (.int .int xs.length) := by
  simp [propertyValue, propertyValue.propList, unwrap, firstKey, lastKey, sizeKey]

/-! ## Maps -/

/-- `m.k` and `m["k"]` read the same entry of a string-keyed map -/
theorem map_prop_eq_index (vt : Ty) (kvs : List (GoVal × GoVal)) (k : Bytes) (v : GoVal)
    (h : mapFind kvs (.str k) = some v) :
    propertyValue (.map .str vt kvs) k = .val v ∧ indexValue (.map .str vt kvs) (.str k) = .val v := by
  simp [propertyValue, indexValue, unwrap, convertKey, h]

/-- a missing key yields nil (through either spelling), except `size`… -/
theorem map_missing_key (vt : Ty) (kvs : List (GoVal × GoVal)) (k : Bytes)
    (h : mapFind kvs (.str k) = none) (hk : k ≠ sizeKey) :
    propertyValue (.map .str vt kvs) k = .val .nil ∧ indexValue (.map .str vt kvs) (.str k) = .val .nil := by
  simp [propertyValue, indexValue, unwrap, convertKey, h, hk]

/-- …`m.size` gives the entry count when the map has no such key… -/
theorem map_size_fallback (vt : Ty) (kvs : List (GoVal × GoVal)) (h : mapFind kvs (.str sizeKey) = none) :
    propertyValue (.map .str vt kvs) sizeKey = .val (.int .int kvs.length) := by
  simp [propertyValue, unwrap, h]

/-- …and the entry when it has -/
theorem map_size_shadowed (vt : Ty) (kvs : List (GoVal × GoVal)) (v : GoVal) (h : mapFind kvs (.str sizeKey) = some v) :
    propertyValue (.map .str vt kvs) sizeKey = .val v := by
  simp [propertyValue, unwrap, h]

/-! ## Steps that do not apply yield nil -/

theorem nil_prop (k : Bytes) : propertyValue .nil k = .val .nil := by simp [propertyValue, unwrap]
theorem nil_index (i : GoVal) : indexValue .nil i = .val .nil := by simp [indexValue, unwrap]
theorem int_prop (kd : IntKind) (n : Int) (k : Bytes) : propertyValue (.int kd n) k = .val .nil := by
  simp [propertyValue, unwrap]
theorem bool_prop (b : Bool) (k : Bytes) : propertyValue (.bool b) k = .val .nil := by simp [propertyValue, unwrap]
theorem flt_prop (kd : FltKind) (q : Rat) (k : Bytes) : propertyValue (.flt kd q) k = .val .nil := by
  simp [propertyValue, unwrap]
theorem int_index (kd : IntKind) (n : Int) (i : GoVal) : indexValue (.int kd n) i = .val .nil := by
  simp [indexValue, unwrap]
theorem str_prop (s k : Bytes) (hk : k ≠ sizeKey) : propertyValue (.str s) k = .val .nil := by
  simp [propertyValue, unwrap, hk]
theorem str_index (s : Bytes) (i : GoVal) : indexValue (.str s) i = .val .nil := by simp [indexValue, unwrap]

/-- a drop is looked through by every lookup -/
theorem drop_prop (v : GoVal) (k : Bytes) : propertyValue (.drop v) k = propertyValue v k := by
  simp [propertyValue, unwrap]
theorem drop_index (v i : GoVal) : indexValue (.drop v) i = indexValue v i := by
  simp [indexValue, unwrap]

/-! ## Pipelines -/

/-- one pipeline step: the filter is looked up first, then the receiver is evaluated, then the
    arguments left to right in the current bindings, then the filter is applied -/
theorem eval_filter_step (P : Prims) (env : Env) (e : Expr) (name : Bytes) (args : List Expr)
    (h : P.hasFilter name = true) :
    eval P env (.filter e name args) =
      (eval P env e).bind fun recv => (evalList P env args).bind fun as =>
        P.applyFilter name recv.unwrap (as.map GoVal.unwrap) := by
  rw [eval]; simp [h]

/-- an unknown filter is an error, whatever the receiver and the arguments are (they are not
    even evaluated) -/
theorem unknown_filter_err (P : Prims) (env : Env) (e : Expr) (name : Bytes) (args : List Expr)
    (h : P.hasFilter name = false) :
    eval P env (.filter e name args) = .err (.undefinedFilter name) := by
  rw [eval]; simp [h]

/-- a pipeline `x | f₁: a₁ | … | fₙ: aₙ` -/
def pipeline (x : Expr) : List (Bytes × List Expr) → Expr
  | [] => x
  | (f, as) :: rest => pipeline (.filter x f as) rest

/-- one step of the fold -/
def pipeStep (P : Prims) (env : Env) (acc : Res Cause GoVal) (fa : Bytes × List Expr) : Res Cause GoVal :=
  if !P.hasFilter fa.1 then .err (.undefinedFilter fa.1) else
  acc.bind fun recv => (evalList P env fa.2).bind fun as => P.applyFilter fa.1 recv.unwrap (as.map GoVal.unwrap)

/-- **C08 (pipelines).** A pipeline applies its filters left to right, each to the result of the
    previous one, with argument expressions evaluated in the current bindings — provided every
    filter exists (an unknown filter anywhere makes the whole pipeline fail, see
    `unknown_filter_err`). -/
theorem pipeline_fold (P : Prims) (env : Env) (x : Expr) (fs : List (Bytes × List Expr))
    (h : ∀ fa ∈ fs, P.hasFilter fa.1 = true) :
    eval P env (pipeline x fs) = fs.foldl (pipeStep P env) (eval P env x) := by
  induction fs generalizing x with
  | nil => rfl
  | cons fa rest ih =>
    obtain ⟨f, as⟩ := fa
    simp only [pipeline, List.foldl_cons]
    rw [ih _ (fun y hy => h y (by simp [hy]))]
    congr 1

/-! Non-vacuity -/
example : indexValue (.slice .any [.int .int 7, .int .int 8, .int .int 9]) (.int .int (-1)) = .val (.int .int 9) := by
  simp [indexValue, indexValue.indexList, unwrap]


/-! ## Printing an expression tree and parsing it again (`Liquid/ExprShow.lean`, `Proofs/ExprShowParse.lean`)

`'(' cond ')'` is a production of `expr` with the value of the condition (`expressions.y`: `$$ = $2`), `and`/`or`
are left associative with one precedence, so EVERY shape of tree has a spelling: `Expr.toks e 0` writes a
sub-tree between parentheses exactly where the grammar wants a higher level. What has no spelling are leaves
(`ETok.ok`, `Expr.printable`): literals other than nil / bool / Go int within int64 / float64 / a string that
does not contain both `"` and `'`; names that are not identifiers or are one of `true false nil and or contains in`. -/

/-- **C08 (round trip, tokens).** For every expression tree, the parser (with the fuel it gives itself) returns
    the tree on its canonical tokens followed by the closing `;`. No hypothesis: the statement is about the
    token list, so it holds for unprintable leaves too. -/
theorem parse_show (e : Expr) : parseTokensE (e.toks 0 ++ [.ch 59]) = some (.expr e) := parseTokensE_toks e

/-- … with any fuel from `e.cneed + 2` on (`cneed_le`: at most 8 per token), before any token that cannot
    continue a condition (`)`, `;`, `]`, `,`, `..`, a keyword of a loop …) -/
theorem parse_show_fuel (e : Expr) (F : Nat) (r : List ETok) (hF : e.cneed + 2 ≤ F) (hs : stopC r = true) :
    parseCond F (e.toks 0 ++ r) = some (e, r) ∧ e.cneed ≤ 8 * (e.toks 0).length :=
  ⟨parseCond_toks e F r hF hs, (bound e).c 0⟩

/-- **C08 (round trip, text).** When the scanner reads the printed text back as the canonical tokens
    (`Expr.lexesBack`; checked on every case of stream `eshow`, true by `rfl` on each example), parsing the printed
    text gives the tree. -/
theorem parse_show_source (e : Expr) (h : e.lexesBack) : parseExprSource e.show = .ok e := parse_show_of_lex e h

/-- **C08 (normalisation is idempotent).** Whatever token list parses to `e` - any spelling, redundant
    parentheses included - the canonical tokens of `e` parse to `e` again, and two trees with the same
    canonical tokens are equal. -/
theorem show_parse (ts : List ETok) (e : Expr) (_h : parseTokensE ts = some (.expr e)) :
    parseTokensE (e.toks 0 ++ [.ch 59]) = some (.expr e) ∧ ∀ e', e'.toks 0 = e.toks 0 → e' = e :=
  ⟨parseTokensE_toks e, fun e' h => toks_injective e' e h⟩

/-- **C08 (evaluation agrees).** Evaluating the re-parsed canonical tokens is evaluating the tree. -/
theorem eval_parse_show (P : Prims) (env : Env) (e : Expr) :
    evalTokens P env (e.toks 0 ++ [.ch 59]) = some (eval P env e) := evalTokens_toks P env e

/-! Non-vacuity on `a.b[1] | f: 'x"', -2 and (c or d.e contains "s")` (`rtExTree`, `rtExText`) -/

example : rtExTree.show = rtExText := by decide +kernel
example : rtExTree.printable = true := by decide +kernel
example : parseExprSource rtExText = .ok rtExTree := by
  have h : rtExTree.lexesBack := by unfold Expr.lexesBack; rfl
  have := parse_show_source rtExTree h
  rwa [show rtExTree.show = rtExText from by decide +kernel] at this
/-- the same tree from another spelling: `( a .b [ 01 ]|f:'x"',-02 )and(c or(d.e)contains's')` -/
example : parseExprSource [40, 32, 97, 32, 46, 98, 32, 91, 32, 48, 49, 32, 93, 124, 102, 58, 39, 120, 34, 39, 44, 45, 48, 50,
    32, 41, 97, 110, 100, 40, 99, 32, 111, 114, 40, 100, 46, 101, 41, 99, 111, 110, 116, 97, 105, 110, 115, 39, 115, 39,
    41] = .ok rtExTree := rfl
example : parseTokensE (rtExTree.toks 0 ++ [.ch 59]) = some (.expr rtExTree) := parse_show rtExTree

/-! ## The scanner on the printed text (`Proofs/ExprShowLex.lean`)

The canonical spelling of a token that has one is a complete lexeme of the scanner (`lexeme_of_ok`), and the layout
of the printer - one space between two lexemes, nothing after `(` `[` and before `.name` `[` `]` `,` `)` - never
lets two lexemes merge or split (`fits_ok`: a canonical lexeme is cut off before a break byte and before `.name`;
`a.b`, `(1..2)`, `1.0.b`, `(1.5..2)`, `x | in: 1`, `a.true`, `a[-1]` are instances). So `Expr.lexesBack` holds for
every printable tree and the byte-level round trip needs no hypothesis about the scanner. -/

/-- **C08 (the scanner reads the printed text back).** For every printable tree the longest-match scanner turns
    the printed text into exactly the canonical tokens (and the closing `;`), without a lexing error. -/
theorem show_lexes_back (e : Expr) (h : e.printable = true) : lex e.show = (e.toks 0 ++ [.ch 59], none) :=
  lexesBack_of_printable e h

/-- **C08 (round trip, text, unconditional).** Parsing the printed text of a printable tree gives the tree. -/
theorem parse_show_source_all (e : Expr) (h : e.printable = true) : parseExprSource e.show = .ok e :=
  parse_show_source e (lexesBack_of_printable e h)

/-- **C08 (the spacing of the printed text is irrelevant).** Write the canonical tokens of a printable tree with
    ANY white space (space, `\t \n \v \f \r`, any amount) before each of them and after the last one - none at
    all allowed exactly where the printer writes none (`SepsOK`: after `(`, `[`; before `.name`, `[`, `]`, `,`, `)`;
    before the first token): the text parses to the tree. The places where the scanner forbids white space are
    INSIDE a lexeme (between a filter name and its `:`, between `.` and the property name, inside `==` `..` …),
    never between two lexemes. -/
theorem show_spacing_irrelevant (e : Expr) (h : e.printable = true) (l : List (Bytes × ETok)) (w : Bytes)
    (hl : l.map (·.2) = e.toks 0) (hs : SepsOK none l) (hw : isSpaces w = true) :
    parseExprSource (spacedToks l ++ w) = .ok e := by
  have hok : ∀ x ∈ l, x.2.ok = true := by
    intro x hx
    have : x.2 ∈ e.toks 0 := hl ▸ List.mem_map.2 ⟨x, hx, rfl⟩
    exact List.all_eq_true.1 h _ this
  unfold parseExprSource parseSource
  rw [lex_spaced l w hok hs hw, hl]
  simp only [parseTokensE_toks e]

/-- … in the vocabulary of `whitespace_between_lexemes` (`Proofs/C08Source.lean`): the canonical lexemes of a
    printable tree, laid out with any family of separators `g` (white space, non-empty between two lexemes) and
    trailing white space `w`, parse to the tree. -/
theorem show_any_whitespace (e : Expr) (h : e.printable = true) (g : Nat → Bytes) (w : Bytes) (hg : Separators g)
    (hw : isSpaces w = true) : parseExprSource (spacedText g e.lexemes ++ w) = .ok e := by
  have hok : ∀ t ∈ e.toks 0, t.ok = true := fun t ht => List.all_eq_true.1 h t ht
  have hl : ∀ x ∈ e.lexemes, Lexeme x.1 x.2 := by
    intro x hx
    obtain ⟨t, ht, rfl⟩ := List.mem_map.1 hx
    exact (lexeme_of_ok t (hok t ht)).1
  have hws := wellSpaced_spacedText g e.lexemes w hl hg hw
  unfold parseExprSource spacedText
  rw [parseSource_pieces _ w hws, layoutFrom_lexemes]
  unfold Expr.lexemes
  rw [lexemeToks_toks _ hok]
  have h59 : lexemeToks [(Rule.rAny, [59])] = ([.ch 59], none) := rfl
  rw [h59]
  simp only [parseOfLex, parseTokensE_toks e]

/-! Non-vacuity -/

example : lex rtExText = (rtExTree.toks 0 ++ [.ch 59], none) := by
  have := show_lexes_back rtExTree (by decide +kernel)
  rwa [show rtExTree.show = rtExText from by decide +kernel] at this
example : parseExprSource rtExText = .ok rtExTree := by
  have := parse_show_source_all rtExTree (by decide +kernel)
  rwa [show rtExTree.show = rtExText from by decide +kernel] at this

/-- `(a.b[-1]..2.5)` written `\t( a\n.b [-1\r]  ..\v2.5 )\f`: white space before `.b`, `[`, `]`, `)` and after `(`,
    none after `[` -/
example : parseExprSource [9, 40, 32, 97, 10, 46, 98, 32, 91, 45, 49, 13, 93, 32, 32, 46, 46, 11, 50, 46, 53, 32, 41, 12] =
    .ok (.range (.index (.prop (.var [97]) [98]) (.lit (.int .int (-1)))) (.lit (.flt .f64 (5/2)))) := by
  have hp : (Expr.range (.index (.prop (.var [97]) [98]) (.lit (.int .int (-1)))) (.lit (.flt .f64 (5/2)))).printable = true := by
    decide +kernel
  have hs : SepsOK none [([9], ETok.ch 40), ([32], .ident [97]), ([10], .property [98]), ([32], .ch 91),
      ([], .lit (.int .int (-1))), ([13], .ch 93), ([32, 32], .dotdot), ([11], .lit (.flt .f64 (5/2))), ([32], .ch 41)] :=
    ⟨rfl, trivial, rfl, (fun h => by cases h), rfl, (fun h => by cases h), rfl, (fun h => by cases h), rfl, (fun _ => rfl),
     rfl, (fun h => by cases h), rfl, (fun h => by cases h), rfl, (fun h => by cases h), rfl, (fun h => by cases h), trivial⟩
  have := show_spacing_irrelevant _ hp _ [12] (by simp [Expr.toks]) hs rfl
  rwa [show spacedToks [([9], ETok.ch 40), ([32], .ident [97]), ([10], .property [98]), ([32], .ch 91),
      ([], .lit (.int .int (-1))), ([13], .ch 93), ([32, 32], .dotdot), ([11], .lit (.flt .f64 (5/2))), ([32], .ch 41)] ++ [12] =
    [9, 40, 32, 97, 10, 46, 98, 32, 91, 45, 49, 13, 93, 32, 32, 46, 46, 11, 50, 46, 53, 32, 41, 12] from by decide +kernel] at this

/-- `x | f: 1, "a b"` with a newline in front of every lexeme and a tab at the end -/
example : parseExprSource (spacedText (fun _ => [10]) (Expr.filter (.var [120]) [102] [.lit (.int .int 1), .lit (.str [97, 32, 98])]).lexemes ++ [9]) =
    .ok (.filter (.var [120]) [102] [.lit (.int .int 1), .lit (.str [97, 32, 98])]) :=
  show_any_whitespace _ (by decide +kernel) _ _ ⟨fun _ => rfl, fun _ _ => by simp⟩ rfl

/-! ## The parser's image (`Proofs/ExprScanImage.lean`, `Proofs/ExprParseImage.lean`)

Every token the scanner returns is well formed (`lex_scanOK`: identifier / keyword / property tokens carry the
text of an identifier, an identifier token is none of `true false nil and or contains in`, an integer literal is
within int64, a string literal does not contain its own quote), and every leaf of the tree the parser builds is
the content of one of its tokens (`parse_lvAll`). So a parsed tree is printable as soon as the values of its float
literals are (`floatOK`: the exact decimal expansion `showFloat q` reads back as `q`) - the `_partial` statements
below. That hypothesis holds for every token of the scanner (`float_token_printable`), so the statements hold for
every source text (`parse_image_printable`, `show_parse_source`). -/

/-- **C08 (the parser's image is printable, up to float values).** A tree parsed from a source text whose float
    literal tokens have printable values is printable. -/
theorem parse_image_printable_partial (s : Bytes) (e : Expr) (h : parseExprSource s = .ok e)
    (hf : (lex s).1.all floatOK = true) : e.printable = true := printable_of_parse s e h hf

/-- **C08 (normalisation is idempotent, text).** Whatever text parses to `e` - any spelling, any white space,
    redundant parentheses, leading zeros - the printed text of `e` parses to `e` again. -/
theorem show_parse_source_partial (s : Bytes) (e : Expr) (h : parseExprSource s = .ok e)
    (hf : (lex s).1.all floatOK = true) : parseExprSource e.show = .ok e :=
  parse_show_source_all e (printable_of_parse s e h hf)

/-- `( a .b [ 01 ]|f:'x"',-02 )and(c or(d.e)contains's')` parses to `rtExTree`, whose printed text is `rtExText` -/
example : parseExprSource rtExText = .ok rtExTree := by
  have := show_parse_source_partial [40, 32, 97, 32, 46, 98, 32, 91, 32, 48, 49, 32, 93, 124, 102, 58, 39, 120, 34, 39, 44,
    45, 48, 50, 32, 41, 97, 110, 100, 40, 99, 32, 111, 114, 40, 100, 46, 101, 41, 99, 111, 110, 116, 97, 105, 110, 115, 39,
    115, 39, 41] rtExTree rfl rfl
  rwa [show rtExTree.show = rtExText from by decide +kernel] at this
/-- the float hypothesis on `1.50 | f: 0.1`: both literal values (3/2 and the double nearest to 0.1) are printable -/
example : (lex [49, 46, 53, 48, 32, 124, 32, 102, 58, 32, 48, 46, 49]).1.all floatOK = true := by decide +kernel


/-! ## Float literals (`Proofs/F64Lemmas.lean`, `Proofs/ShowFloatLemmas.lean`)

The scanner's float rule is `'-'? digit+ ('.' digit+)?`: no exponent (`1e3` is the integer `1` followed by the
identifier `e3`), no `NaN`/`Inf` spelling; the value is `strconv.ParseFloat` of the text, i.e. the decimal rounded
to the nearest `float64` (`roundF64`, ties to even, gradual underflow); a literal that rounds to ±Inf is a syntax
error and gives no token; a literal that denotes −0 (`-0.0`, `-0.0000…01` below half the least subnormal) is
outside the model (`unmodelled`, no token). So the value of a float token is `±r` with `r` in the image of
`roundF64` on a non-negative rational, and `−0` does not occur.

* `roundF64` is a projection: the exponent it picks is the unique `e` with `2^52 ≤ a / 2^e < 2^53` (`fexp1_spec`,
  `fexp_unique`), a rounded value is `0` or `m · 2^e` with `0 < m < 2^53`, `−1074 ≤ e`, normalised unless
  `e = −1074` (`roundFloat_rep`), and such a value rounds to itself (`roundFloat_of_rep`).
* the denominator of `m · 2^e` is a power of two, `2^j` (`den_int_mul_pow2`); `showFloat` writes `max 1 j`
  fractional digits, and `N / 2^j = (N · 10^k / 2^j) / 10^k` exactly for `j ≤ k` (`dyadic_decimal`): the printed
  digits denote the value (`decimalOfDigits_showFloat`), whatever their number (up to 1074 for a subnormal). -/

/-- **C08 (a float literal's value is printable).** Whatever text the scanner's float rule has matched, the value it
    denotes (`strconv.ParseFloat`: the nearest `float64`, finite, not −0) has an exact decimal expansion
    `showFloat q` that the scanner reads back as the same value. -/
theorem float_value_printable (tok : Bytes) (q : Rat) (h : floatLitValue tok = some (some q)) :
    floatLitValue (showFloat q) = some (some q) := floatLitValue_showFloat_of_lit tok q h

/-- **C08 (every float literal token is printable).** For every source text, every float literal token the scanner
    returns satisfies `floatOK`: the hypothesis of the `_partial` statements holds unconditionally. -/
theorem float_token_printable (s : Bytes) : (lex s).1.all floatOK = true := lex_floatOK s

/-- **C08 (the parser's image is printable).** Every tree parsed from a source text is printable. -/
theorem parse_image_printable (s : Bytes) (e : Expr) (h : parseExprSource s = .ok e) : e.printable = true :=
  parse_image_printable_partial s e h (float_token_printable s)

/-- **C08 (normalisation is idempotent, text, unconditional).** Whatever text parses to `e` - any spelling, any white
    space, redundant parentheses, leading zeros, any number of digits in a float literal - the printed text of `e`
    parses to `e` again. -/
theorem show_parse_source (s : Bytes) (e : Expr) (h : parseExprSource s = .ok e) : parseExprSource e.show = .ok e :=
  show_parse_source_partial s e h (float_token_printable s)

/-! Non-vacuity -/

/-- the literal `0.1` denotes `tenthF64`, whose printed text is the 55-digit expansion … -/
example : floatLitValue [48, 46, 49] = some (some tenthF64) := by decide +kernel
example : showFloat tenthF64 = tenthText := by decide +kernel
/-- … which reads back as the same value (by the theorem, not by evaluation) -/
example : floatLitValue tenthText = some (some tenthF64) := by
  have := float_value_printable [48, 46, 49] tenthF64 (by decide +kernel)
  rwa [show showFloat tenthF64 = tenthText from by decide +kernel] at this
/-- `0.1` parses to a printable tree, and its printed text parses to the same tree -/
example : (Expr.lit (.flt .f64 tenthF64)).printable = true := parse_image_printable [48, 46, 49] _ parse_tenth
example : parseExprSource tenthText = .ok (.lit (.flt .f64 tenthF64)) := by
  have := show_parse_source [48, 46, 49] (.lit (.flt .f64 tenthF64)) parse_tenth
  rwa [show (Expr.lit (.flt .f64 tenthF64)).show = tenthText from by decide +kernel] at this
/-- the canonical lexemes of the tokens of `2.5 1e3 -0.1 007.250`: `1e3` is the integer `1` and the identifier `e3`
    (no exponent syntax); every float token is printable -/
example : (lex [50, 46, 53, 32, 49, 101, 51, 32, 45, 48, 46, 49, 32, 48, 48, 55, 46, 50, 53, 48]).1.map ETok.lexeme =
    [(.rFloat, [50, 46, 53]), (.rInt, [49]), (.rIdent, [101, 51]), (.rFloat, 45 :: tenthText), (.rFloat, [55, 46, 50, 53]),
     (.rAny, [59])] := by decide +kernel
example : (lex [50, 46, 53, 32, 49, 101, 51, 32, 45, 48, 46, 49, 32, 48, 48, 55, 46, 50, 53, 48]).1.all floatOK = true :=
  float_token_printable _
/-- `-0.0` has no value in the model (−0 is outside it); `1` followed by 309 zeros overflows: a syntax error, no token -/
example : floatLitValue [45, 48, 46, 48] = none := by decide +kernel
example : floatLitValue (49 :: List.replicate 309 48) = some none := by decide +kernel
