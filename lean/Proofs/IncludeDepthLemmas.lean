import Proofs.C14Source
import Proofs.SrcRelInclude
/-!
# Include nesting limit: helper lemmas

`rendererContext.RenderFile` refuses with a plain error when the render it is called from is already nested in
`maxIncludeDepth` include tags (`incFuel … 0`). These lemmas follow that error outward: the include node wraps
it at its tag, every enclosing include passes the located error on, and a file whose first construct (after
literal text) is an include of itself therefore fails at every fuel. Property theorems: `Proofs/C14Depth.lean`.
-/

/-- the depth error as the include tag at `line` reports it: located at the tag, the plain error as cause -/
def depthErrAt (line : Nat) : SErr := ⟨line, true, .includeDepth, .byCause⟩

/-- `ctx.RenderFile` once the source of the file is known (disk, or cache when the file does not exist) -/
theorem renderFileWith_of_fileSource (P : Prims) (O : OutPrims) (cfg : Cfg) (fs : FS)
    (inner : Nat → Bytes → Env → Prog (Status × Bytes)) (line : Nat) (f : Bytes) (env : Env) (src : Bytes)
    (h : fileSource fs f = some src) :
    renderFileWith P O cfg fs inner line f env = renderSrcWith P O cfg inner line src env := by
  rw [renderFileWith_eq]
  unfold fileSource at h
  cases hrd : fs.read f with
  | content b =>
    simp only [hrd, Option.some.injEq] at h
    subst h; rfl
  | notExist =>
    simp only [hrd] at h
    simp only [h]
  | otherError => simp [hrd] at h

/-- an include node whose handler fails, fails: with the handler's error wrapped at the tag -/
theorem incl_fails_of_handler_fails (c : RCtx) (line : Nat) (args : Bytes) (s : RS) (e : Expr) (rel : Bytes) (x : RawErr)
    (he : parseExprSource args = .ok e) (hv : evaluate c.P s.env e = .ok (.str rel))
    (hf : c.inc line (joinPath (dirPath c.cfg.path) rel) s.env = .fail x) :
    renderNode c (.incl line args) s = .fail (.located (wrapError c.cfg.path x ⟨line, true⟩)) := by
  rw [include_resolves c line args s e rel he hv]
  simp only [wrapAt, hf, Prog.bind, Prog.mapFail]

/-- a located error whose line is not above the line of the tag it passes is handed on unchanged
    (`WrapError` keeps an error that has a path or a line, and one that arrives at a zero location) -/
theorem wrapError_passes_below (path : Bytes) (L l : Nat) (c : Cause) (m : Msg) (h : l ≤ L) :
    wrapError path (.located ⟨L, true, c, m⟩) ⟨l, true⟩ = ⟨L, true, c, m⟩ := by
  unfold wrapError
  simp only
  split
  · rfl
  · next hn =>
    exfalso
    apply hn
    cases hp : path.isEmpty with
    | false => simp
    | true =>
      cases L with
      | zero =>
        have : l = 0 := by omega
        subst this
        simp [Loc.isZero, hp]
      | succ k => simp

/-- literal text, then a node that fails in every state: the sequence fails (the text already written is
    discarded by the caller) -/
theorem renderList_texts_then_fail (c : RCtx) (n : Node) (rest : List Node)
    (hn : ∀ s, ∃ x, renderNode c n s = .fail x) :
    ∀ (pre : List Node), (∀ t ∈ pre, ∃ tl b, t = Node.text tl b) → ∀ s : RS,
      ∃ out x, (renderList c (pre ++ n :: rest) s).runPure = (out, .err x)
  | [], _, s => by
    obtain ⟨x, hx⟩ := hn s
    refine ⟨[], x, ?_⟩
    simp only [List.nil_append, renderList, bind, M.bind, hx, Prog.bind, Prog.runPure]
  | t :: pre, h, s => by
    obtain ⟨tl, b, rfl⟩ := h t (List.mem_cons_self ..)
    have ht : (renderNode c (.text tl b) s).runPure =
        (s.tw.buf, .ok (.done, ⟨s.env, ⟨if s.tw.trim then trimLeftSpace b else b, false⟩⟩)) := by
      rw [renderNode]; exact write_done_run _ _ b s
    obtain ⟨out, x, ih⟩ := renderList_texts_then_fail c n rest hn pre (fun t ht => h t (List.mem_cons_of_mem _ ht))
      ⟨s.env, ⟨if s.tw.trim then trimLeftSpace b else b, false⟩⟩
    refine ⟨s.tw.buf ++ out, x, ?_⟩
    simp only [List.cons_append, renderList, bind, M.bind, Prog.runPure_bind, ht, ih]

/-- the same with the error known: the failing node fails with `x` in every state -/
theorem renderList_texts_then_fail_with (c : RCtx) (n : Node) (rest : List Node) (x : RawErr)
    (hn : ∀ s, renderNode c n s = .fail x) :
    ∀ (pre : List Node), (∀ t ∈ pre, ∃ tl b, t = Node.text tl b) → ∀ s : RS,
      ∃ out, (renderList c (pre ++ n :: rest) s).runPure = (out, .err x)
  | [], _, s => by
    refine ⟨[], ?_⟩
    simp only [List.nil_append, renderList, bind, M.bind, hn s, Prog.bind, Prog.runPure]
  | t :: pre, h, s => by
    obtain ⟨tl, b, rfl⟩ := h t (List.mem_cons_self ..)
    have ht : (renderNode c (.text tl b) s).runPure =
        (s.tw.buf, .ok (.done, ⟨s.env, ⟨if s.tw.trim then trimLeftSpace b else b, false⟩⟩)) := by
      rw [renderNode]; exact write_done_run _ _ b s
    obtain ⟨out, ih⟩ := renderList_texts_then_fail_with c n rest x hn pre (fun t ht => h t (List.mem_cons_of_mem _ ht))
      ⟨s.env, ⟨if s.tw.trim then trimLeftSpace b else b, false⟩⟩
    refine ⟨s.tw.buf ++ out, ?_⟩
    simp only [List.cons_append, renderList, bind, M.bind, Prog.runPure_bind, ht, ih]

/-- a root sequence that fails makes `renderRoot` fail with the same error -/
theorem renderRoot_err_of_list_err (c : RCtx) (root : List Node) (env : Env) (out : Bytes) (x : RawErr)
    (h : (renderList c root ⟨env, {}⟩).runPure = (out, .err x)) :
    (renderRoot c root env).runPure = (out, .err x) := by
  unfold renderRoot
  rw [Prog.runPure_bind, h]

/-- the handler on a source that compiles to a root whose sequence fails: it fails with that error -/
theorem renderSrcWith_err (P : Prims) (O : OutPrims) (cfg : Cfg) (inner : Nat → Bytes → Env → Prog (Status × Bytes))
    (line : Nat) (src : Bytes) (env : Env) (root : List Node) (out : Bytes) (x : RawErr)
    (hc : compileSource cfg.delims src line = .ok root)
    (h : (renderList { P := P, O := O, cfg := cfg, inc := inner } root ⟨env, {}⟩).runPure = (out, .err x)) :
    renderSrcWith P O cfg inner line src env = .fail x := by
  unfold renderSrcWith
  simp only [hc, renderRoot_err_of_list_err _ root env out x h]

/-- **a file that includes itself unconditionally fails at every fuel** (node level). The file `rel`, resolved
    from the includer's directory, has a source that compiles — at whatever line the including tag stands —
    to literal text followed by an include tag with the same argument `args`, a string that names the file in
    every environment. Then the include node fails under the engine's context of every fuel: at fuel 0 with the
    depth error, at fuel n+1 because the file's own include node fails at fuel n. No output, no `unmodelled`. -/
theorem incl_cycle_fails_nodes (P : Prims) (O : OutPrims) (cfg : Cfg) (fs : FS) (rel src args : Bytes) (e : Expr)
    (hfile : fileSource fs (joinPath (dirPath cfg.path) rel) = some src)
    (he : parseExprSource args = .ok e) (hv : ∀ env, evaluate P env e = .ok (.str rel))
    (hshape : ∀ l, ∃ pre l' rest, compileSource cfg.delims src l = .ok (pre ++ Node.incl l' args :: rest) ∧
      ∀ t ∈ pre, ∃ tl b, t = Node.text tl b) :
    ∀ (fuel l : Nat) (s : RS), ∃ x, renderNode (mkCtx P O cfg fs fuel) (.incl l args) s = .fail x := by
  intro fuel
  induction fuel with
  | zero =>
    intro l s
    exact ⟨_, incl_fails_of_handler_fails (mkCtx P O cfg fs 0) l args s e rel _ he (hv s.env) rfl⟩
  | succ n ih =>
    intro l s
    obtain ⟨pre, l', rest, hc, hpre⟩ := hshape l
    obtain ⟨out, x, hx⟩ := renderList_texts_then_fail (mkCtx P O cfg fs n) (.incl l' args) rest (fun s' => ih l' s') pre hpre
      ⟨s.env, {}⟩
    refine ⟨_, incl_fails_of_handler_fails (mkCtx P O cfg fs (n + 1)) l args s e rel x he (hv s.env) ?_⟩
    show renderFileWith P O cfg fs (incFuel P O cfg fs n) l (joinPath (dirPath cfg.path) rel) s.env = _
    rw [renderFileWith_of_fileSource P O cfg fs _ l _ s.env src hfile]
    exact renderSrcWith_err P O cfg _ l src s.env _ out x hc hx

/-- a root whose sequence fails with a located error: the render returns that error -/
theorem runRoot_err_of_list_err (P : Prims) (O : OutPrims) (cfg : Cfg) (fs : FS) (fuel : Nat) (root : List Node) (env : Env)
    (out : Bytes) (e : SErr)
    (h : (renderList (mkCtx P O cfg fs fuel) root ⟨env, {}⟩).runPure = (out, .err (.located e))) :
    runRoot P O cfg fs fuel root env = .err e := by
  unfold runRoot frender
  rw [Prog.runPure_bind, renderRoot_err_of_list_err _ root env out _ h]

/-- a root whose sequence fails: the render returns an error (never output, never `unmodelled`) -/
theorem runRoot_isErr_of_list_err (P : Prims) (O : OutPrims) (cfg : Cfg) (fs : FS) (fuel : Nat) (root : List Node) (env : Env)
    (out : Bytes) (x : RawErr)
    (h : (renderList (mkCtx P O cfg fs fuel) root ⟨env, {}⟩).runPure = (out, .err x)) :
    ∃ e, runRoot P O cfg fs fuel root env = .err e := by
  unfold runRoot frender
  rw [Prog.runPure_bind, renderRoot_err_of_list_err _ root env out _ h]
  cases x with
  | plain c => exact ⟨_, rfl⟩
  | located e => exact ⟨_, rfl⟩

/-- moving the start line of a source whose compiled root is literal text followed by an include tag keeps
    that shape -/
theorem shape_at_every_line (delims : List Bytes) (src args : Bytes) (pre rest : List Node) (l0 : Nat)
    (hc : compileSource delims src 0 = .ok (pre ++ Node.incl l0 args :: rest))
    (hpre : ∀ t ∈ pre, ∃ tl b, t = Node.text tl b) :
    ∀ l, ∃ pre' l' rest', compileSource delims src l = .ok (pre' ++ Node.incl l' args :: rest') ∧
      ∀ t ∈ pre', ∃ tl b, t = Node.text tl b := by
  intro l
  have h := compileSource_shift delims src 0 l
  rw [Nat.zero_add, hc] at h
  refine ⟨relNodes (· + l) pre, l0 + l, relNodes (· + l) rest, ?_, ?_⟩
  · rw [h]
    simp only [CRes.rel, relNodes_append, relNodes, Node.rel]
  · intro t ht
    clear h hc
    induction pre with
    | nil => simp [relNodes] at ht
    | cons p ps ih =>
      simp only [relNodes, List.mem_cons] at ht
      rcases ht with rfl | ht
      · obtain ⟨tl, b, rfl⟩ := hpre p (List.mem_cons_self ..)
        exact ⟨tl + l, b, by simp [Node.rel]⟩
      · exact ih (fun t ht => hpre t (List.mem_cons_of_mem _ ht)) ht

/-- the include node of `T{% include "a" %}`'s own tag, under the context of fuel `m`: the depth error, raised
    `m` levels further in, i.e. `m · (newlines of T)` lines further down -/
theorem self_include_node_err (P : Prims) (O : OutPrims) (cfg : Cfg) (fs : FS)
    (q : UInt8) (a : Bytes) (w : Ws) (T : Bytes) (hq : q = 34 ∨ q = 39) (hn : q ∉ a)
    (hg : GoodDelims (Delims.ofList cfg.delims))
    (hcf : Clean (Delims.ofList cfg.delims) [.text T, includeItem q a w])
    (hfile : fileSource fs (joinPath (dirPath cfg.path) a) = some (spell (Delims.ofList cfg.delims) [.text T, includeItem q a w])) :
    ∀ (m l : Nat) (s : RS), renderNode (mkCtx P O cfg fs m) (.incl l (q :: a ++ [q])) s =
      .fail (.located (depthErrAt (l + m * countNL T))) := by
  intro m
  induction m with
  | zero =>
    intro l s
    rw [Nat.zero_mul, Nat.add_zero]
    exact include_plain_err_located (mkCtx P O cfg fs 0) l _ s (.lit (.str a)) a _ (string_literal_denotes q a hq hn) rfl rfl
  | succ m ih =>
    intro l s
    have hcomp : compileSource cfg.delims (spell (Delims.ofList cfg.delims) [.text T, includeItem q a w]) l =
        .ok ([Node.text l T] ++ Node.incl (l + countNL T) (q :: a ++ [q]) :: []) := by
      rw [compileSource_spell cfg.delims _ l hg hcf]
      unfold includeItem
      have e : tokensOf (Delims.ofList cfg.delims) [.text T, tg nmInclude (q :: a ++ [q]) w] l =
          [{ ty := .text, line := l, source := T }] ++
            [tgTok (Delims.ofList cfg.delims) nmInclude (q :: a ++ [q]) w (l + countNL T)] := by
        rw [tokensOf, tokensOf_tg]; rfl
      rw [e]
      exact compiles_append (compiles_text _ rfl) (compile_include _ _ _ _)
    obtain ⟨out, hx⟩ := renderList_texts_then_fail_with (mkCtx P O cfg fs m) (.incl (l + countNL T) (q :: a ++ [q])) []
      (.located (depthErrAt (l + countNL T + m * countNL T))) (fun s' => ih (l + countNL T) s') [Node.text l T]
      (fun t ht => by simp only [List.mem_singleton] at ht; exact ⟨l, T, ht⟩) ⟨s.env, {}⟩
    have hf : (mkCtx P O cfg fs (m + 1)).inc l (joinPath (dirPath (mkCtx P O cfg fs (m + 1)).cfg.path) a) s.env =
        .fail (.located (depthErrAt (l + countNL T + m * countNL T))) := by
      show renderFileWith P O cfg fs (incFuel P O cfg fs m) l (joinPath (dirPath cfg.path) a) s.env = _
      rw [renderFileWith_of_fileSource P O cfg fs _ l _ s.env _ hfile]
      exact renderSrcWith_err P O cfg _ l _ s.env _ out _ hcomp hx
    rw [incl_fails_of_handler_fails (mkCtx P O cfg fs (m + 1)) l _ s (.lit (.str a)) a _ (string_literal_denotes q a hq hn) rfl hf]
    have harith : l + countNL T + m * countNL T = l + (m + 1) * countNL T := by rw [Nat.succ_mul]; omega
    rw [harith]
    unfold depthErrAt
    rw [show (mkCtx P O cfg fs (m + 1)).cfg.path = cfg.path from rfl,
      wrapError_passes_below cfg.path _ l _ _ (Nat.le_add_right _ _)]


/-- **where an `unmodelled` of the include handler comes from**: never from the nesting limit. If `RenderFile` with
    `n` levels left leaves the model, then `n = m + 1`, the file was found (disk, or cache) and either its source
    does not compile inside the model or the render of its root, with `m` levels left, left the model. -/
theorem incFuel_unmodelled_origin (P : Prims) (O : OutPrims) (cfg : Cfg) (fs : FS) (n line : Nat) (f : Bytes) (env : Env)
    (w : String) (h : incFuel P O cfg fs n line f env = .unmodelled w) :
    ∃ m src, n = m + 1 ∧ fileSource fs f = some src ∧
      (compileSource cfg.delims src line = .unmodelled w ∨
       ∃ root, compileSource cfg.delims src line = .ok root ∧
         ((renderRoot (mkCtx P O cfg fs m) root env).runPure).2 = .unmodelled w) := by
  cases n with
  | zero => cases h
  | succ m =>
    have h' : renderFileWith P O cfg fs (incFuel P O cfg fs m) line f env = .unmodelled w := h
    cases hsrc : fileSource fs f with
    | none =>
      exfalso
      rw [renderFileWith_eq] at h'
      unfold fileSource at hsrc
      cases hrd : fs.read f with
      | content b => simp [hrd] at hsrc
      | notExist =>
        simp only [hrd] at hsrc h'
        simp only [hsrc] at h'
        cases h'
      | otherError => simp only [hrd] at h'; cases h'
    | some src =>
      refine ⟨m, src, rfl, rfl, ?_⟩
      rw [renderFileWith_of_fileSource P O cfg fs _ line f env src hsrc] at h'
      unfold renderSrcWith at h'
      cases hc : compileSource cfg.delims src line with
      | err e => simp only [hc] at h'; cases h'
      | panic w' => simp only [hc] at h'; cases h'
      | unmodelled w' =>
        simp only [hc] at h'
        injection h' with h'
        exact Or.inl (by rw [h'])
      | ok root =>
        refine Or.inr ⟨root, rfl, ?_⟩
        simp only [hc] at h'
        show ((renderRoot { P := P, O := O, cfg := cfg, inc := incFuel P O cfg fs m } root env).runPure).2 = _
        rcases hr : (renderRoot { P := P, O := O, cfg := cfg, inc := incFuel P O cfg fs m } root env).runPure with ⟨out, o⟩
        rw [hr] at h'
        cases o with
        | ok st => cases st <;> cases h'
        | err e => cases h'
        | panic w' => cases h'
        | unmodelled w' => injection h' with h'; rw [h']
