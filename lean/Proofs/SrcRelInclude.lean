import Proofs.SrcRelRender
import Proofs.SrcShiftSource
/-!
# Rendering does not depend on the line numbers of the nodes, `include` tags included

`lineRel_renderNode` (Proofs/SrcRelRender.lean) excludes trees with an `include` node: the included file is compiled with the
line of the include tag as its start line, so its nodes move with the tag. Here that case is added. `IncRel inc`: the include
handler answers alike — same output, same status and failures up to the line of a located error — for two lines of the tag that
are zero together. It holds for the engine's handler at every fuel (`incRel_incFuel`), because compiling a source text at another
start line moves its lines and nothing else (`compileSource_shift`), and then the render of the moved tree is related by the very
statement being proved (induction on the fuel).
-/

/-- the include handler, called for an include tag at two lines that are zero together, answers alike up to the lines of errors -/
def IncRel (inc : Nat → Bytes → Env → Prog (Status × Bytes)) : Prop :=
  ∀ (l l' : Nat) (fn : Bytes) (env : Env), (l = 0 ↔ l' = 0) →
    ProgRel (fun r r' : Status × Bytes => StatusRel r.1 r'.1 ∧ r.2 = r'.2) (inc l fn env) (inc l' fn env)

mutual
theorem lineRelI_renderNode (c : RCtx) (hinc : IncRel c.inc) {g g' : Nat → Nat} (hz : ∀ x, g x = 0 ↔ g' x = 0) :
    ∀ n : Node, LineMRel StatusRel (renderNode c (n.rel g)) (renderNode c (n.rel g'))
  | .text line src => by
    simp only [Node.rel, renderNode]
    exact relM_wrapFailAt _ (locRel_lines hz line) (relM_refl StatusRel.refl _)
  | .obj line e => by
    simp only [Node.rel, renderNode]
    exact relM_wrapFailAt _ (locRel_lines hz line) (relM_refl StatusRel.refl _)
  | .raw slices => by
    simp only [Node.rel]
    exact relM_refl StatusRel.refl _
  | .trim l => by
    simp only [Node.rel]
    exact relM_refl StatusRel.refl _
  | .assign line x e => by
    simp only [Node.rel, renderNode]
    exact relM_wrapFailAt _ (locRel_lines hz line) (relM_refl StatusRel.refl _)
  | .capture line x body => by
    simp only [Node.rel, renderNode]
    have hb := lineRelI_renderList c hinc hz body
    refine relM_wrapAt _ (locRel_lines hz line) (relM_bind (relM_capture hb) (fun r r' hr => ?_))
    obtain ⟨st, out⟩ := r
    obtain ⟨st', out'⟩ := r'
    obtain ⟨hst, hout⟩ := hr
    simp only at hst hout
    subst hout
    cases st <;> cases st' <;> first | exact hst.elim | exact relM_refl StatusRel.refl _ | exact relM_pure _ _ hst
  | .ifB line branches => by
    simp only [Node.rel, renderNode]
    exact relM_wrapAt _ (locRel_lines hz line) (lineRelI_renderBranches c hinc hz branches)
  | .caseB line subject cases => by
    simp only [Node.rel, renderNode]
    refine relM_wrapAt _ (locRel_lines hz line) ?_
    refine relM_bind (relM_refl (R := fun a b : Env => a = b) (fun _ => rfl) _) (fun env env' h => ?_)
    subst h
    refine relM_bind (relM_refl (R := fun a b : GoVal => a = b) (fun _ => rfl) _) (fun sel sel' h => ?_)
    subst h
    exact lineRelI_renderCases c hinc hz sel cases
  | .loop line tablerow var e mods body clauses => by
    have hbody := lineRelI_renderBlockBody c hinc hz body
    cases clauses with
    | nil =>
      simp only [Node.rel, relNClauses, renderNode]
      exact relM_loopRun _ _ (locRel_lines hz line) _ _ _ _ hbody _ none none True.intro
    | cons els rest =>
      cases rest with
      | nil =>
        simp only [Node.rel, relNClauses, renderNode]
        exact relM_loopRun _ _ (locRel_lines hz line) _ _ _ _ hbody _ (some _) (some _) (lineRelI_renderBlockBody c hinc hz els)
      | cons e2 r2 =>
        simp only [Node.rel, relNClauses, renderNode]
        exact relM_loopRun _ _ (locRel_lines hz line) _ _ _ _ hbody _ none none True.intro
  | .cycle line group v0 rest => by
    simp only [Node.rel, renderNode]
    refine relM_wrapFailAt _ (locRel_lines hz line) ?_
    refine relM_bind (relM_refl (R := fun a b : GoVal => a = b) (fun _ => rfl) _) (fun lv lv' h => ?_)
    subst h
    split
    · exact relM_fail _ _ ⟨rfl, rfl, rfl, hz line⟩
    · exact relM_refl StatusRel.refl _
  | .brk line => by
    simp only [Node.rel, renderNode]
    exact relM_pure _ _ (wrapError_rel _ (locRel_lines hz line) (e := .located _) (e' := .located _)
      (wrapError_rel _ (locRel_lines hz line) (e := .plain _) (e' := .plain _) rfl))
  | .cont line => by
    simp only [Node.rel, renderNode]
    exact relM_pure _ _ (wrapError_rel _ (locRel_lines hz line) (e := .located _) (e' := .located _)
      (wrapError_rel _ (locRel_lines hz line) (e := .plain _) (e' := .plain _) rfl))
  | .incl line args => by
    simp only [Node.rel, renderNode]
    refine relM_wrapAt _ (locRel_lines hz line) ?_
    refine relM_bind (relM_refl (R := fun a b : Env => a = b) (fun _ => rfl) _) (fun env env' h => ?_)
    subst h
    refine relM_bind (relM_refl (R := fun a b : Expr => a = b) (fun _ => rfl) _) (fun ex ex' h => ?_)
    subst h
    refine relM_bind (relM_refl (R := fun a b : GoVal => a = b) (fun _ => rfl) _) (fun v v' h => ?_)
    subst h
    split
    · next rel =>
      refine relM_bind (R := fun r r' : Status × Bytes => StatusRel r.1 r'.1 ∧ r.2 = r'.2) ?_ (fun r r' hr => ?_)
      · intro s
        exact ProgRel.bind (hinc (g line) (g' line) _ env (hz line)) (fun r r' hr => .ret _ _ ⟨hr, rfl⟩)
      · obtain ⟨st, out⟩ := r
        obtain ⟨st', out'⟩ := r'
        obtain ⟨hst, hout⟩ := hr
        simp only at hst hout
        subst hout
        cases st <;> cases st' <;> first | exact hst.elim | exact relM_refl StatusRel.refl _ | exact relM_pure _ _ hst
    · exact relM_fail _ _ ⟨rfl, rfl, rfl, hz line⟩
theorem lineRelI_renderList (c : RCtx) (hinc : IncRel c.inc) {g g' : Nat → Nat} (hz : ∀ x, g x = 0 ↔ g' x = 0) :
    ∀ ns : List Node, LineMRel StatusRel (renderList c (relNodes g ns)) (renderList c (relNodes g' ns))
  | [] => by simp only [relNodes]; exact relM_refl StatusRel.refl _
  | n :: ns => by
    simp only [relNodes, renderList]
    refine relM_bind (lineRelI_renderNode c hinc hz n) (fun st st' hst => ?_)
    cases st <;> cases st' <;> first | exact False.elim hst | exact lineRelI_renderList c hinc hz ns | exact relM_pure _ _ hst
theorem lineRelI_renderBlockBody (c : RCtx) (hinc : IncRel c.inc) {g g' : Nat → Nat} (hz : ∀ x, g x = 0 ↔ g' x = 0) (body : List Node) :
    LineMRel StatusRel (renderBlockBody c (relNodes g body)) (renderBlockBody c (relNodes g' body)) := by
  unfold renderBlockBody
  refine relM_bind (lineRelI_renderList c hinc hz body) (fun st st' hst => ?_)
  cases st <;> cases st' <;> first | exact False.elim hst | exact relM_refl StatusRel.refl _ | exact relM_pure _ _ hst
theorem lineRelI_renderBranches (c : RCtx) (hinc : IncRel c.inc) {g g' : Nat → Nat} (hz : ∀ x, g x = 0 ↔ g' x = 0) :
    ∀ bs : List (CondT × List Node),
      LineMRel StatusRel (renderBranches c (relBranches g bs)) (renderBranches c (relBranches g' bs))
  | [] => by simp only [relBranches]; exact relM_refl StatusRel.refl _
  | (t, body) :: rest => by
    simp only [relBranches, renderBranches]
    refine relM_bind (relM_evalCond c.P c.cfg.path hz t) (fun b b' hb => ?_)
    subst hb
    split
    · exact lineRelI_renderBlockBody c hinc hz body
    · exact lineRelI_renderBranches c hinc hz rest
theorem lineRelI_renderCases (c : RCtx) (hinc : IncRel c.inc) {g g' : Nat → Nat} (hz : ∀ x, g x = 0 ↔ g' x = 0) (sel : GoVal) :
    ∀ cs : List (Option (Nat × List Expr) × List Node),
      LineMRel StatusRel (renderCases c sel (relCases g cs)) (renderCases c sel (relCases g' cs))
  | [] => by simp only [relCases]; exact relM_refl StatusRel.refl _
  | (none, body) :: rest => by
    simp only [relCases, renderCases]
    exact lineRelI_renderBlockBody c hinc hz body
  | (some (line, es), body) :: rest => by
    simp only [relCases, renderCases]
    refine relM_bind (relM_wrapFailAt _ (locRel_lines hz line) (relM_refl (R := fun a b : Bool => a = b) (fun _ => rfl) _))
      (fun hit hit' h => ?_)
    subst h
    split
    · exact lineRelI_renderBlockBody c hinc hz body
    · exact lineRelI_renderCases c hinc hz sel rest
end

/-! ## The engine's include handler -/

theorem lineRelI_renderRoot (c : RCtx) (hinc : IncRel c.inc) {g g' : Nat → Nat} (hz : ∀ x, g x = 0 ↔ g' x = 0) (root : List Node)
    (env : Env) : ProgRel StatusRel (renderRoot c (relNodes g root) env) (renderRoot c (relNodes g' root) env) := by
  unfold renderRoot
  refine ProgRel.bind (lineRelI_renderList c hinc hz root _) (fun r r' hr => ?_)
  obtain ⟨st, s⟩ := r
  obtain ⟨st', s'⟩ := r'
  obtain ⟨hst, hs⟩ := hr
  simp only at hst hs
  subst hs
  cases st <;> cases st' <;> first
    | exact False.elim hst
    | exact ProgRel.bind (ProgRel.refl (R := fun a b : Unit × RS => a = b) (fun _ => rfl) _) (fun _ _ _ => .ret _ _ True.intro)
    | exact .ret _ _ hst

/-- `renderFileWith` once the file has been read: compile at the line of the include tag, render into a private buffer -/
def renderSrcWith (P : Prims) (O : OutPrims) (cfg : Cfg) (inner : Nat → Bytes → Env → Prog (Status × Bytes)) (line : Nat)
    (src : Bytes) (env : Env) : Prog (Status × Bytes) :=
  match compileSource cfg.delims src line with
  | .err e => .fail (.located e)
  | .panic w => .panic w
  | .unmodelled w => .unmodelled w
  | .ok root =>
    let c : RCtx := { P := P, O := O, cfg := cfg, inc := inner }
    match (renderRoot c root env).runPure with
    | (out, .ok .done) => .ret (.done, out)
    | (_, .ok st) => .ret (st, [])
    | (_, .err e) => .fail e
    | (_, .panic w) => .panic w
    | (_, .unmodelled w) => .unmodelled w

theorem renderFileWith_eq (P : Prims) (O : OutPrims) (cfg : Cfg) (fs : FS) (inner : Nat → Bytes → Env → Prog (Status × Bytes))
    (line : Nat) (fn : Bytes) (env : Env) :
    renderFileWith P O cfg fs inner line fn env =
      match fs.read fn with
      | .content b => renderSrcWith P O cfg inner line b env
      | .notExist => (match fs.cache fn with
          | some b => renderSrcWith P O cfg inner line b env
          | none => .fail (.plain (.other "notExist")))
      | .otherError => .fail (.plain .io) := by
  unfold renderFileWith renderSrcWith
  cases fs.read fn with
  | content b => rfl
  | notExist => cases fs.cache fn <;> rfl
  | otherError => rfl

theorem rel_renderSrcWith (P : Prims) (O : OutPrims) (cfg : Cfg) (inner : Nat → Bytes → Env → Prog (Status × Bytes))
    (hin : IncRel inner) (l l' : Nat) (hll : l = 0 ↔ l' = 0) (src : Bytes) (env : Env) :
    ProgRel (fun r r' : Status × Bytes => StatusRel r.1 r'.1 ∧ r.2 = r'.2)
      (renderSrcWith P O cfg inner l src env) (renderSrcWith P O cfg inner l' src env) := by
  unfold renderSrcWith
  have hl : compileSource cfg.delims src l = CRes.rel (· + l) (relNodes (· + l)) (compileSource cfg.delims src 0) := by
    have := compileSource_shift cfg.delims src 0 l
    rwa [Nat.zero_add] at this
  have hl' : compileSource cfg.delims src l' = CRes.rel (· + l') (relNodes (· + l')) (compileSource cfg.delims src 0) := by
    have := compileSource_shift cfg.delims src 0 l'
    rwa [Nat.zero_add] at this
  rw [hl, hl']
  cases compileSource cfg.delims src 0 with
  | err e =>
    refine .fail _ _ ⟨rfl, rfl, rfl, ?_⟩
    show e.line + l = 0 ↔ e.line + l' = 0
    omega
  | panic w => exact .panic w
  | unmodelled w => exact .unmodelled w
  | ok root =>
    simp only [CRes.rel]
    have hz : ∀ x : Nat, x + l = 0 ↔ x + l' = 0 := fun x => by omega
    have hroot := lineRelI_renderRoot { P := P, O := O, cfg := cfg, inc := inner } hin hz root env
    obtain ⟨h1, h2⟩ := hroot.runPure
    rcases hp : (renderRoot { P := P, O := O, cfg := cfg, inc := inner } (relNodes (· + l) root) env).runPure with ⟨o, r⟩
    rcases hq : (renderRoot { P := P, O := O, cfg := cfg, inc := inner } (relNodes (· + l') root) env).runPure with ⟨o', r'⟩
    rw [hp, hq] at h1 h2
    simp only at h1 h2
    subst h1
    cases r <;> cases r' <;> simp only [OutRel] at h2
    · next st st' =>
      cases st <;> cases st' <;> first
        | exact False.elim h2
        | exact .ret _ _ ⟨True.intro, rfl⟩
        | exact .ret _ _ ⟨h2, rfl⟩
    · exact .fail _ _ h2
    · subst h2; exact .panic _
    · subst h2; exact .unmodelled _

/-- one level of include: if the handler used INSIDE the included file is line-independent, so is the handler built on it -/
theorem incRel_renderFileWith (P : Prims) (O : OutPrims) (cfg : Cfg) (fs : FS)
    (inner : Nat → Bytes → Env → Prog (Status × Bytes)) (hin : IncRel inner) : IncRel (renderFileWith P O cfg fs inner) := by
  intro l l' fn env hll
  rw [renderFileWith_eq, renderFileWith_eq]
  cases fs.read fn with
  | content b => exact rel_renderSrcWith P O cfg inner hin l l' hll b env
  | notExist =>
    cases fs.cache fn with
    | some b => exact rel_renderSrcWith P O cfg inner hin l l' hll b env
    | none => exact .fail (.plain _) (.plain _) rfl
  | otherError => exact .fail (.plain _) (.plain _) rfl

theorem incRel_incFuel (P : Prims) (O : OutPrims) (cfg : Cfg) (fs : FS) : ∀ fuel : Nat, IncRel (incFuel P O cfg fs fuel)
  | 0 => fun _ _ _ _ _ => .fail (.plain _) (.plain _) rfl
  | n+1 => incRel_renderFileWith P O cfg fs _ (incRel_incFuel P O cfg fs n)

/-- the engine's own context: the include handler is line-independent -/
theorem incRel_mkCtx (P : Prims) (O : OutPrims) (cfg : Cfg) (fs : FS) (fuel : Nat) : IncRel (mkCtx P O cfg fs fuel).inc :=
  incRel_incFuel P O cfg fs fuel

/-- **rendering depends on the line numbers of the nodes only in the line of an error**, for every compiled tree of the
    engine's own context — `include` tags at any depth included -/
theorem lineRel_renderBlockBody_engine (P : Prims) (O : OutPrims) (cfg : Cfg) (fs : FS) (fuel : Nat) {g g' : Nat → Nat}
    (hz : ∀ x, g x = 0 ↔ g' x = 0) (body : List Node) :
    LineMRel StatusRel (renderBlockBody (mkCtx P O cfg fs fuel) (relNodes g body))
      (renderBlockBody (mkCtx P O cfg fs fuel) (relNodes g' body)) :=
  lineRelI_renderBlockBody _ (incRel_mkCtx P O cfg fs fuel) hz body
