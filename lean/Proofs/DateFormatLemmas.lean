import Proofs.DateLemmas
import Proofs.ExprLitLemmas
import Proofs.Utf8Lemmas
/-!
# Helper lemmas about the texts `tuesday.Strftime`'s model prints (`Liquid/Filters/Date.lean`)

* `natDec` digit by digit; `%02d` / `%04d` of small numbers (`pad2`, `pad4`) and reading them back
  (`Cal.num2`, `Cal.num4`);
* a format as a list of tokens (`tokens`: the matches of the regexp and the bytes between them, a
  function of the format alone) and `strftime = render ∘ tokens`;
* the directives without flags or width that the theorems of `Proofs/DateFilter.lean` use.
-/

namespace DateF

/-- the ASCII digit of `k` -/
def dg (k : Nat) : UInt8 := (48 + k).toUInt8

theorem decDigitsAux_eq (fuel : Nat) : ∀ (n : Nat) (acc : Bytes), n < fuel → decDigitsAux fuel n acc = natDec n ++ acc := by
  induction fuel using Nat.strongRecOn with
  | _ fuel ih =>
    intro n acc h
    cases fuel with
    | zero => omega
    | succ f =>
      by_cases h10 : n < 10
      · simp [natDec, decDigitsAux, h10]
      · have e1 : decDigitsAux (f + 1) n acc = decDigitsAux f (n / 10) (dg (n % 10) :: acc) := by
          simp [decDigitsAux, h10, dg]
        have e2 : natDec n = decDigitsAux n (n / 10) [dg (n % 10)] := by
          simp [natDec, decDigitsAux, h10, dg]
        rw [e1, e2, ih f (Nat.lt_succ_self f) (n / 10) _ (by omega), ih n (by omega) (n / 10) _ (by omega)]
        simp

theorem natDec_lt10 (n : Nat) (h : n < 10) : natDec n = [dg n] := by
  simp [natDec, decDigitsAux, h, dg]

theorem natDec_step (n : Nat) (h : 10 ≤ n) : natDec n = natDec (n / 10) ++ [dg (n % 10)] := by
  have h10 : ¬ n < 10 := by omega
  have e2 : natDec n = decDigitsAux n (n / 10) [dg (n % 10)] := by
    simp [natDec, decDigitsAux, h10, dg]
  rw [e2, decDigitsAux_eq n (n / 10) _ (by omega)]

/-- `%02d` of a number below 100, `%04d` of a number below 10000 -/
def pad2 (n : Nat) : Bytes := [dg (n / 10), dg (n % 10)]
def pad4 (n : Nat) : Bytes := [dg (n / 1000), dg (n / 100 % 10), dg (n / 10 % 10), dg (n % 10)]

theorem fmtNum_zero2 (n : Nat) (h : n < 100) : fmtNum .zero 2 (n : Int) = pad2 n := by
  have hn : ¬ ((n : Int) < 0) := by omega
  simp only [fmtNum, hn, if_false, Int.natAbs_natCast]
  by_cases h10 : n < 10
  · rw [natDec_lt10 n h10]
    have e1 : n / 10 = 0 := by omega
    have e2 : n % 10 = n := by omega
    simp [pad2, zeros, e1, e2, dg]
  · rw [natDec_step n (by omega), natDec_lt10 (n / 10) (by omega)]
    simp [pad2, zeros]

theorem fmtNum_zero4 (n : Nat) (h : n < 10000) : fmtNum .zero 4 (n : Int) = pad4 n := by
  have hn : ¬ ((n : Int) < 0) := by omega
  simp only [fmtNum, hn, if_false, Int.natAbs_natCast]
  by_cases h10 : n < 10
  · rw [natDec_lt10 n h10]
    have e1 : n / 1000 = 0 := by omega
    have e2 : n / 100 % 10 = 0 := by omega
    have e3 : n / 10 % 10 = 0 := by omega
    have e4 : n % 10 = n := by omega
    simp [pad4, zeros, e1, e2, e3, e4, dg, List.replicate]
  · by_cases h100 : n < 100
    · rw [natDec_step n (by omega), natDec_lt10 (n / 10) (by omega)]
      have e1 : n / 1000 = 0 := by omega
      have e2 : n / 100 % 10 = 0 := by omega
      have e3 : n / 10 % 10 = n / 10 := by omega
      simp [pad4, zeros, e1, e2, e3, dg, List.replicate]
    · by_cases h1000 : n < 1000
      · rw [natDec_step n (by omega), natDec_step (n / 10) (by omega), natDec_lt10 (n / 10 / 10) (by omega)]
        have e1 : n / 1000 = 0 := by omega
        have e2 : n / 100 % 10 = n / 10 / 10 := by omega
        have e3 : n / 10 % 10 = n / 10 % 10 := rfl
        simp [pad4, zeros, e1, e2, dg, List.replicate]
      · rw [natDec_step n (by omega), natDec_step (n / 10) (by omega), natDec_step (n / 10 / 10) (by omega),
          natDec_lt10 (n / 10 / 10 / 10) (by omega)]
        have e1 : n / 1000 = n / 10 / 10 / 10 := by omega
        have e2 : n / 100 % 10 = n / 10 / 10 % 10 := by omega
        simp [pad4, zeros, e1, e2]

theorem digit?_dg (k : Nat) (h : k < 10) : Cal.digit? (dg k) = some k := by
  have hk : (dg k).toNat = 48 + k := by
    simp [dg, Nat.toUInt8, UInt8.toNat_ofNat']
    omega
  have hd : isDigit (dg k) = true := (isDigit_iff _).2 (by omega)
  simp only [Cal.digit?, hd, if_true, hk]
  congr 1; omega

theorem num2_pad2 (n : Nat) (h : n < 100) : ∃ a b, pad2 n = [a, b] ∧ Cal.num2 a b = some n := by
  refine ⟨_, _, rfl, ?_⟩
  simp only [Cal.num2, digit?_dg (n / 10) (by omega), digit?_dg (n % 10) (Nat.mod_lt _ (by decide))]
  congr 1; omega

theorem num4_pad4 (n : Nat) (h : n < 10000) : ∃ a b c d, pad4 n = [a, b, c, d] ∧ Cal.num4 a b c d = some n := by
  refine ⟨_, _, _, _, rfl, ?_⟩
  simp only [Cal.num4, Cal.num2, digit?_dg (n / 1000) (by omega), digit?_dg (n / 100 % 10) (Nat.mod_lt _ (by decide)),
    digit?_dg (n / 10 % 10) (Nat.mod_lt _ (by decide)), digit?_dg (n % 10) (Nat.mod_lt _ (by decide))]
  congr 1; omega

/-! ## a format as a list of tokens -/

inductive Tok where
  | lit (b : UInt8)
  | dir (d : Directive)
  deriving DecidableEq

/-- the matches of the regexp in a format, with the text between them -/
def tokens : Nat → Bytes → List Tok
  | 0, _ => []
  | _ + 1, [] => []
  | n + 1, b :: r =>
    if b == 37 then
      match matchDirective r with
      | some (d, rest) => .dir d :: tokens n rest
      | none => .lit b :: tokens n r
    else .lit b :: tokens n r

def render (t : Cal.Broken) : List Tok → R Bytes
  | [] => .ok []
  | .lit b :: ts => (render t ts).bind fun tl => .ok (b :: tl)
  | .dir d :: ts => (directive t d).bind fun out => (render t ts).bind fun tl => .ok (out ++ tl)

theorem strftimeAux_eq_render (t : Cal.Broken) : ∀ (n : Nat) (s : Bytes), strftimeAux t n s = render t (tokens n s)
  | 0, _ => by simp [strftimeAux, tokens, render]
  | _ + 1, [] => by simp [strftimeAux, tokens, render]
  | n + 1, b :: r => by
    rw [strftimeAux, tokens]
    split
    · cases hm : matchDirective r with
      | some p => simp only [render, strftimeAux_eq_render t n p.2]
      | none => simp only [render, strftimeAux_eq_render t n r]
    · simp only [render, strftimeAux_eq_render t n r]

theorem strftime_eq_render (t : Cal.Broken) (f : Bytes) : strftime t f = render t (tokens f.length f) :=
  strftimeAux_eq_render t _ _

/-- `%Y-%m-%d %H:%M:%S` -/
def fmtDateTime : Bytes := [37, 89, 45, 37, 109, 45, 37, 100, 32, 37, 72, 58, 37, 77, 58, 37, 83]

theorem tokens_dateTime : tokens fmtDateTime.length fmtDateTime =
    [.dir ⟨[], [], 89⟩, .lit 45, .dir ⟨[], [], 109⟩, .lit 45, .dir ⟨[], [], 100⟩, .lit 32,
     .dir ⟨[], [], 72⟩, .lit 58, .dir ⟨[], [], 77⟩, .lit 58, .dir ⟨[], [], 83⟩] := by decide +kernel

theorem directive_Y (t : Cal.Broken) : directive t ⟨[], [], 89⟩ = .ok (fmtNum .zero 4 t.year) := rfl
theorem directive_m (t : Cal.Broken) : directive t ⟨[], [], 109⟩ = .ok (fmtNum .zero 2 t.month) := rfl
theorem directive_d (t : Cal.Broken) : directive t ⟨[], [], 100⟩ = .ok (fmtNum .zero 2 t.day) := rfl
theorem directive_H (t : Cal.Broken) : directive t ⟨[], [], 72⟩ = .ok (fmtNum .zero 2 t.hour) := rfl
theorem directive_M (t : Cal.Broken) : directive t ⟨[], [], 77⟩ = .ok (fmtNum .zero 2 t.min) := rfl
theorem directive_S (t : Cal.Broken) : directive t ⟨[], [], 83⟩ = .ok (fmtNum .zero 2 t.sec) := rfl
theorem directive_s (t : Cal.Broken) : directive t ⟨[], [], 115⟩ = .ok (fmtNum .zero 2 t.unix) := rfl
theorem directive_pct (t : Cal.Broken) : directive t ⟨[], [], 37⟩ = .ok [37] := rfl

theorem parseDate_dateTime (y1 y2 y3 y4 m1 m2 d1 d2 h1 h2 i1 i2 s1 s2 : UInt8) :
    Cal.parseDate [y1, y2, y3, y4, 45, m1, m2, 45, d1, d2, 32, h1, h2, 58, i1, i2, 58, s1, s2] =
      Cal.ofFields (Cal.num4 y1 y2 y3 y4) (Cal.num2 m1 m2) (Cal.num2 d1 d2) (Cal.num2 h1 h2) (Cal.num2 i1 i2) (Cal.num2 s1 s2) := by
  rfl

theorem parseDate_date (y1 y2 y3 y4 m1 m2 d1 d2 : UInt8) :
    Cal.parseDate [y1, y2, y3, y4, 45, m1, m2, 45, d1, d2] =
      Cal.ofFields (Cal.num4 y1 y2 y3 y4) (Cal.num2 m1 m2) (Cal.num2 d1 d2) (some 0) (some 0) (some 0) := by
  rfl

/-- `%Y-%m-%d`, `%s`, `%%` -/
def fmtDate : Bytes := [37, 89, 45, 37, 109, 45, 37, 100]
def fmtUnix : Bytes := [37, 115]
def fmtPercent : Bytes := [37, 37]

theorem tokens_date : tokens fmtDate.length fmtDate =
    [.dir ⟨[], [], 89⟩, .lit 45, .dir ⟨[], [], 109⟩, .lit 45, .dir ⟨[], [], 100⟩] := by decide +kernel
theorem tokens_unix : tokens fmtUnix.length fmtUnix = [.dir ⟨[], [], 115⟩] := by decide +kernel
theorem tokens_percent : tokens fmtPercent.length fmtPercent = [.dir ⟨[], [], 37⟩] := by decide +kernel

/-! ## reading a printed integer back (`strconv.ParseInt`, `parseInt10` of `Liquid/Convert.lean`) -/

theorem digitsVal_eq_foldl : ∀ (ds : Bytes) (acc : Nat),
    digitsVal ds acc = ds.foldl (fun a d => a * 10 + (d.toNat - 48)) acc
  | [], _ => rfl
  | d :: ds, acc => by rw [digitsVal, List.foldl_cons]; exact digitsVal_eq_foldl ds _

theorem digitsVal_zeros_natDec (k n : Nat) : digitsVal (zeros k ++ natDec n) 0 = n := by
  rw [digitsVal_eq_foldl]
  have h := decVal_zeros_append k (natDec n)
  rw [decVal_natDec] at h
  exact h

theorem zeros_natDec_digits (k n : Nat) : (zeros k ++ natDec n).all isDigit = true := by
  rw [List.all_append, zeros_all_digits, natDec_all_digits]; rfl

theorem zeros_natDec_ne_nil (k n : Nat) : zeros k ++ natDec n ≠ [] := by
  intro h
  exact natDec_ne_nil n (List.append_eq_nil_iff.mp h).2

/-- a non-empty string of digits is read as its value (no sign) -/
theorem parseInt10_digits (ds : Bytes) (hne : ds ≠ []) (hd : ds.all isDigit = true) :
    parseInt10 ds = if inInt64 (digitsVal ds 0 : Nat) then some ((digitsVal ds 0 : Nat) : Int) else none := by
  cases ds with
  | nil => exact absurd rfl hne
  | cons c r =>
    have hc : isDigit c = true := by simp only [List.all_cons, Bool.and_eq_true] at hd; exact hd.1
    have hc' := (isDigit_iff c).1 hc
    have h43 : c ≠ 43 := by intro h; subst h; exact absurd hc'.1 (by decide)
    have h45 : c ≠ 45 := by intro h; subst h; exact absurd hc'.1 (by decide)
    unfold parseInt10
    split
    next neg ds heq =>
    split at heq
    · next h => exact absurd (List.cons.inj h).1 h43
    · next h => exact absurd (List.cons.inj h).1 h45
    · cases heq
      simp only [List.isEmpty_cons, hd, Bool.not_true, Bool.or_self, Bool.false_eq_true, if_false]

/-- a minus sign and a non-empty string of digits -/
theorem parseInt10_neg (ds : Bytes) (hne : ds ≠ []) (hd : ds.all isDigit = true) :
    parseInt10 (45 :: ds) = if inInt64 (-((digitsVal ds 0 : Nat) : Int)) then some (-((digitsVal ds 0 : Nat) : Int)) else none := by
  have he : ds.isEmpty = false := by cases ds with
    | nil => exact absurd rfl hne
    | cons _ _ => rfl
  unfold parseInt10
  split
  next neg ds' heq =>
  split at heq
  · next h => exact absurd (List.cons.inj h).1 (by decide)
  · next h =>
    cases (List.cons.inj h).2
    cases heq
    simp only [he, hd, Bool.not_true, Bool.or_self, Bool.false_eq_true, if_false]
    rfl
  · next h1 h2 => exact absurd rfl (h2 ds)

/-- **`%02d` of any integer reads back as that integer** -/
theorem parseInt10_fmtNum_zero (w : Nat) (n : Int) (h : inInt64 n = true) : parseInt10 (fmtNum .zero w n) = some n := by
  simp only [fmtNum]
  split
  · next hneg =>
    rw [parseInt10_neg _ (zeros_natDec_ne_nil _ _) (zeros_natDec_digits _ _), digitsVal_zeros_natDec]
    have : -((n.natAbs : Nat) : Int) = n := by omega
    rw [this, if_pos h]
  · next hpos =>
    rw [parseInt10_digits _ (zeros_natDec_ne_nil _ _) (zeros_natDec_digits _ _), digitsVal_zeros_natDec]
    have : ((n.natAbs : Nat) : Int) = n := by omega
    rw [this, if_pos h]

/-- the plain decimal text for every integer of two or more characters -/
theorem fmtNum_zero2_eq_intDec (n : Int) (h : n < 0 ∨ 10 ≤ n) : fmtNum .zero 2 n = intDec n := by
  simp only [fmtNum, intDec]
  have hl : 1 ≤ (natDec n.natAbs).length := by
    cases hd : natDec n.natAbs with
    | nil => exact absurd hd (natDec_ne_nil _)
    | cons _ _ => simp
  split
  · have : 2 - 1 - (natDec n.natAbs).length = 0 := by omega
    simp [this, zeros]
  · have h10 : 10 ≤ n.natAbs := by omega
    have : 2 ≤ (natDec n.natAbs).length := by
      rw [natDec_step _ h10]
      have : 1 ≤ (natDec (n.natAbs / 10)).length := by
        cases hd : natDec (n.natAbs / 10) with
        | nil => exact absurd hd (natDec_ne_nil _)
        | cons _ _ => simp
      simp; omega
    have : 2 - (natDec n.natAbs).length = 0 := by omega
    simp [this, zeros]

/-! ## reading digits back; parse, then format -/

theorem dg_of_digit? {a : UInt8} {x : Nat} (h : Cal.digit? a = some x) : a = dg x ∧ x < 10 := by
  unfold Cal.digit? at h
  split at h
  · next hd =>
    cases h
    have hb := (isDigit_iff a).1 hd
    refine ⟨?_, by omega⟩
    unfold dg
    have : 48 + (a.toNat - 48) = a.toNat := by omega
    rw [this]
    exact (toUInt8_eq_of a.toNat a rfl).symm
  · cases h

theorem pad2_of_num2 {a b : UInt8} {n : Nat} (h : Cal.num2 a b = some n) : [a, b] = pad2 n ∧ n < 100 := by
  unfold Cal.num2 at h
  split at h
  · next x y hx hy =>
    cases h
    obtain ⟨rfl, hx10⟩ := dg_of_digit? hx
    obtain ⟨rfl, hy10⟩ := dg_of_digit? hy
    refine ⟨?_, by omega⟩
    have e1 : (10 * x + y) / 10 = x := by omega
    have e2 : (10 * x + y) % 10 = y := by omega
    simp only [pad2, e1, e2]
  · cases h

theorem pad4_of_num4 {a b c d : UInt8} {n : Nat} (h : Cal.num4 a b c d = some n) : [a, b, c, d] = pad4 n ∧ n < 10000 := by
  unfold Cal.num4 at h
  split at h
  · next x y hx hy =>
    cases h
    obtain ⟨e1, h1⟩ := pad2_of_num2 hx
    obtain ⟨e2, h2⟩ := pad2_of_num2 hy
    simp only [pad2, List.cons.injEq, and_true] at e1 e2
    refine ⟨?_, by omega⟩
    have f1 : (100 * x + y) / 1000 = x / 10 := by omega
    have f2 : (100 * x + y) / 100 % 10 = x % 10 := by omega
    have f3 : (100 * x + y) / 10 % 10 = y / 10 := by omega
    have f4 : (100 * x + y) % 10 = y % 10 := by omega
    simp only [pad4, f1, f2, f3, f4, e1.1, e1.2, e2.1, e2.2]
  · cases h


/-- what `instant` returns when it returns a time -/
theorem instant_time {y mo d h mi s : Nat} {u : Int} (hi : Cal.instant y mo d h mi s = .time u) :
    1 ≤ mo ∧ mo ≤ 12 ∧ 1 ≤ d ∧ d ≤ Cal.daysInMonth (y : Int) mo ∧ h < 24 ∧ mi < 60 ∧ s < 60 ∧
    u = Cal.daysOfCivil (y : Int) mo d * 86400 + ((h * 3600 + mi * 60 + s : Nat) : Int) := by
  unfold Cal.instant at hi
  split at hi
  · next hv =>
    cases hi
    simp only [Bool.and_eq_true, decide_eq_true_eq] at hv
    obtain ⟨⟨⟨⟨⟨⟨a, b⟩, c⟩, e⟩, f⟩, g⟩, i⟩ := hv
    exact ⟨a, b, c, e, f, g, i, rfl⟩
  · cases hi

theorem ofFields_time {y mo d h mi s : Option Nat} {u : Int} (hf : Cal.ofFields y mo d h mi s = .time u) :
    ∃ y' mo' d' h' mi' s', y = some y' ∧ mo = some mo' ∧ d = some d' ∧ h = some h' ∧ mi = some mi' ∧ s = some s' ∧
      Cal.instant y' mo' d' h' mi' s' = .time u := by
  unfold Cal.ofFields at hf
  split at hf
  · exact ⟨_, _, _, _, _, _, rfl, rfl, rfl, rfl, rfl, rfl, hf⟩
  · cases hf

/-- the broken-down time of midnight of a valid civil date -/
theorem broken_of_civil (y : Int) (m d : Nat) (hm1 : 1 ≤ m) (hm : m ≤ 12) (hd1 : 1 ≤ d) (hd : d ≤ Cal.daysInMonth y m)
    (sod : Nat) (hs : sod < 86400) :
    (Cal.broken (Cal.daysOfCivil y m d * 86400 + (sod : Int))).year = y ∧
    (Cal.broken (Cal.daysOfCivil y m d * 86400 + (sod : Int))).month = m ∧
    (Cal.broken (Cal.daysOfCivil y m d * 86400 + (sod : Int))).day = d ∧
    (Cal.broken (Cal.daysOfCivil y m d * 86400 + (sod : Int))).hour = sod / 3600 ∧
    (Cal.broken (Cal.daysOfCivil y m d * 86400 + (sod : Int))).min = sod / 60 % 60 ∧
    (Cal.broken (Cal.daysOfCivil y m d * 86400 + (sod : Int))).sec = sod % 60 := by
  have e1 : (Cal.daysOfCivil y m d * 86400 + (sod : Int)) / 86400 = Cal.daysOfCivil y m d := by omega
  have e2 : Cal.secOfDay (Cal.daysOfCivil y m d * 86400 + (sod : Int)) = sod := by unfold Cal.secOfDay; omega
  have e3 := Cal.civilOfDays_daysOfCivil y m d hm1 hm hd1 hd
  simp only [Cal.broken, e1, e2, e3, and_self]

/-- **parse, then format.** A ten-byte string that `ParseDate` accepts (layout `2006-01-02`) is printed back
    unchanged by `%Y-%m-%d` of the instant it denotes. -/
theorem parseDate_then_strftime_date (s : Bytes) (u : Int) (hl : s.length = 10) (hp : Cal.parseDate s = .time u) :
    strftime (Cal.broken u) fmtDate = .ok s := by
  obtain ⟨y1, y2, y3, y4, c1, m1, m2, c2, d1, d2, rfl⟩ : ∃ a b c d e f g h i j, s = [a, b, c, d, e, f, g, h, i, j] := by
    match s, hl with
    | [a, b, c, d, e, f, g, h, i, j], _ => exact ⟨a, b, c, d, e, f, g, h, i, j, rfl⟩
  unfold Cal.parseDate at hp
  split at hp
  · next Y1 Y2 Y3 Y4 M1 M2 D1 D2 heq =>
    simp only [List.cons.injEq, and_true] at heq
    obtain ⟨rfl, rfl, rfl, rfl, rfl, rfl, rfl, rfl, rfl, rfl⟩ := heq
    obtain ⟨y, mo, d, h, mi, sc, hy, hmo, hd, hh, hmi, hsc, hi⟩ := ofFields_time hp
    cases hh; cases hmi; cases hsc
    obtain ⟨a, b, c, e, _, _, _, hu⟩ := instant_time hi
    obtain ⟨ey, hy4⟩ := pad4_of_num4 hy
    obtain ⟨em, _⟩ := pad2_of_num2 hmo
    obtain ⟨ed, _⟩ := pad2_of_num2 hd
    have hb := broken_of_civil (y : Int) mo d a b c e 0 (by decide)
    have hu' : u = Cal.daysOfCivil (y : Int) mo d * 86400 + ((0 : Nat) : Int) := by rw [hu]
    rw [← hu'] at hb
    rw [strftime_eq_render, tokens_date]
    simp only [render, directive_Y, directive_m, directive_d, Res.bind, hb.1, hb.2.1, hb.2.2.1,
      fmtNum_zero4 y hy4, fmtNum_zero2 mo (by omega), fmtNum_zero2 d (by
        have : d ≤ 31 := by
          refine Nat.le_trans e ?_
          unfold Cal.daysInMonth; split
          · split <;> decide
          · split <;> decide
        omega)]
    rw [← ey, ← em, ← ed]
    rfl
  all_goals first
    | (next heq => exact absurd (congrArg List.length heq) (by simp))
    | (split at hp <;> cases hp)


theorem directive_j (t : Cal.Broken) : directive t ⟨[], [], 106⟩ = .ok (fmtNum .zero 3 t.yday) := rfl

/-- `%j` -/
def fmtYday : Bytes := [37, 106]
theorem tokens_yday : tokens fmtYday.length fmtYday = [.dir ⟨[], [], 106⟩] := by decide +kernel

end DateF
