import Proofs.HyphenSourceRun
import Proofs.SrcRelRender
import Proofs.SrcCompileLines
/-!
# A hyphen that faces a literal text, on source text (helpers for `Proofs/C13Source.lean`)

The site `… X -}}u …` (an object or tag `X` with a right hyphen, then the text `u`) at the top level of a
template, between two self-contained pieces, and its mirror image `… u{{- X …`: how the two sources compile
(`compile_faceR_site`, `compile_faceL_site`) and how two trees that differ in the lines of their tail render
(`runRoot_shift_tail`).
-/

def Item.hl : Item → Bool
  | .text _ => false
  | .obj _ hl _ _ _ => hl
  | .tag _ _ hl _ _ _ _ => hl

def Item.hr : Item → Bool
  | .text _ => false
  | .obj _ _ hr _ _ => hr
  | .tag _ _ _ hr _ _ _ => hr

/-- the item without its right hyphen -/
def Item.clearR : Item → Item
  | .text s => .text s
  | .obj args hl _ wl wr => .obj args hl false wl wr
  | .tag name args hl _ wl wm wr => .tag name args hl false wl wm wr

/-- the item without its left hyphen -/
def Item.clearL : Item → Item
  | .text s => .text s
  | .obj args _ hr wl wr => .obj args false hr wl wr
  | .tag name args _ hr wl wm wr => .tag name args false hr wl wm wr

theorem Item.spell_clearR_nl (d : Delims) (it : Item) : countNL (it.clearR.spell d) = countNL (it.spell d) := by
  cases it with
  | text s => rfl
  | obj args hl hr wl wr => simp only [Item.clearR, Item.spell, countNL_append, countNL_hyB]
  | tag name args hl hr wl wm wr => simp only [Item.clearR, Item.spell, countNL_append, countNL_hyB]

theorem Item.spell_clearL_nl (d : Delims) (it : Item) : countNL (it.clearL.spell d) = countNL (it.spell d) := by
  cases it with
  | text s => rfl
  | obj args hl hr wl wr => simp only [Item.clearL, Item.spell, countNL_append, countNL_hyB]
  | tag name args hl hr wl wm wr => simp only [Item.clearL, Item.spell, countNL_append, countNL_hyB]

/-- the tokens of an item with a right hyphen: those of the item without it, then the trim marker -/
theorem Item.tokens_clearR (d : Delims) (l : Nat) (it : Item) (h : it.hr = true) :
    (it.tokens d l).map unsrc = (it.clearR.tokens d l ++ [({ ty := .trimR } : Token)]).map unsrc := by
  cases it with
  | text s => cases h
  | obj args hl hr wl wr =>
    simp only [Item.hr] at h; subst h
    cases hl <;> simp [Item.tokens, Item.clearR, unsrc]
  | tag name args hl hr wl wm wr =>
    simp only [Item.hr] at h; subst h
    cases hl <;> simp [Item.tokens, Item.clearR, unsrc]

/-- the tokens of an item with a left hyphen: the trim marker, then those of the item without it -/
theorem Item.tokens_clearL (d : Delims) (l : Nat) (it : Item) (h : it.hl = true) :
    (it.tokens d l).map unsrc = (({ ty := .trimL } : Token) :: it.clearL.tokens d l).map unsrc := by
  cases it with
  | text s => cases h
  | obj args hl hr wl wr =>
    simp only [Item.hl] at h; subst h
    cases hr <;> simp [Item.tokens, Item.clearL, unsrc]
  | tag name args hl hr wl wm wr =>
    simp only [Item.hl] at h; subst h
    cases hr <;> simp [Item.tokens, Item.clearL, unsrc]

theorem isEndRaw_unsrc (t : Token) : isEndRaw (unsrc t) = isEndRaw t := by
  unfold isEndRaw; rw [unsrc_ty, unsrc_name]

theorem rawSafe_map_unsrc : ∀ (b : Bool) (toks : List Token), rawSafe b (toks.map unsrc) = rawSafe b toks
  | _, [] => rfl
  | false, t :: ts => by simp only [List.map_cons, rawSafe, unsrc_ty, unsrc_name, rawSafe_map_unsrc _ ts]
  | true, t :: ts => by simp only [List.map_cons, rawSafe, unsrc_ty, isEndRaw_unsrc, rawSafe_map_unsrc _ ts]

theorem rawSafe_congr_unsrc {a b : List Token} (h : a.map unsrc = b.map unsrc) (f : Bool) : rawSafe f a = rawSafe f b := by
  rw [← rawSafe_map_unsrc f a, h, rawSafe_map_unsrc]

/-- token lists that agree up to the sources of tag and object tokens compile alike; one `rawSafe` suffices -/
theorem compileTokens_congr' (a b : List Token) (h : a.map unsrc = b.map unsrc) (ha : rawSafe false a = true) :
    compileTokens a = compileTokens b :=
  compileTokens_congr a b h ha (by rw [← rawSafe_congr_unsrc h]; exact ha)

theorem append_cons_eq {α} (A : List α) (x : α) (r : List α) : A ++ x :: r = (A ++ [x]) ++ r := by simp

/-! ## how the two sources of a right site compile -/

theorem Item.tokens_text (d : Delims) (l : Nat) (u : Bytes) :
    (Item.text u).tokens d l = [{ ty := .text, line := l, source := u }] := rfl
theorem Item.spell_text (d : Delims) (u : Bytes) : (Item.text u).spell d = u := rfl

theorem tokensOf_snoc (d : Delims) (A : List Item) (X : Item) (line : Nat) :
    tokensOf d (A ++ [X]) line = tokensOf d A line ++ X.tokens d (line + countNL (spell d A)) := by
  rw [tokensOf_append]
  simp only [tokensOf, List.append_nil]

/-- the tokens of `A X u B` -/
theorem tokensOf_site (d : Delims) (A : List Item) (X : Item) (u : Bytes) (B : List Item) (line : Nat) :
    tokensOf d (A ++ X :: .text u :: B) line =
      tokensOf d A line ++ (X.tokens d (line + countNL (spell d A)) ++
        (({ ty := .text, line := line + countNL (spell d (A ++ [X])), source := u } : Token) ::
          tokensOf d B (line + countNL (spell d (A ++ [X])) + countNL u))) := by
  rw [tokensOf_append]
  simp only [tokensOf, Item.tokens_text, Item.spell_text, spell_append, spell_single, countNL_append, List.singleton_append,
    Nat.add_assoc]

/-- `A X -}}u B`: `A X }}` compiles to `nP` on its own, `B` (placed at line 0) to `nB` -/
theorem compile_faceR_site (d : Delims) (A : List Item) (X : Item) (u : Bytes) (B : List Item) (line : Nat)
    (hX : X.hr = true) (hrc : RawClosed (A ++ X :: .text u :: B)) (nP nB : List Node)
    (hP : compileTokens (tokensOf d (A ++ [X.clearR]) line) = .ok nP)
    (hB : compileTokens (tokensOf d B 0) = .ok nB) :
    compileTokens (tokensOf d (A ++ X :: .text u :: B) line) =
      .ok (nP ++ .trim false :: .text (line + countNL (spell d (A ++ [X]))) u ::
        relNodes (· + (line + countNL (spell d (A ++ [X])) + countNL u)) nB) := by
  have hB' := compiles_any_line d B (line + countNL (spell d (A ++ [X])) + countNL u) hB
  -- the token list, up to the source of `X`
  have htok : (tokensOf d (A ++ X :: .text u :: B) line).map unsrc =
      (tokensOf d (A ++ [X.clearR]) line ++ ([({ ty := .trimR } : Token)] ++
        ([({ ty := .text, line := line + countNL (spell d (A ++ [X])), source := u } : Token)] ++
          tokensOf d B (line + countNL (spell d (A ++ [X])) + countNL u)))).map unsrc := by
    rw [tokensOf_site, tokensOf_snoc]
    simp only [List.map_append, Item.tokens_clearR d _ X hX, List.append_assoc, List.singleton_append, List.map_cons,
      List.map_nil, List.cons_append, List.nil_append]
  rw [compileTokens_congr' _ _ htok (tokensOf_rawSafe d _ _ line (Nat.le_refl _) hrc)]
  have h1 := compiles_append hP (compiles_append (compiles_trimR ({ ty := .trimR } : Token) rfl)
    (compiles_append (compiles_text ({ ty := .text, line := line + countNL (spell d (A ++ [X])), source := u } : Token) rfl) hB'))
  simpa using h1

/-- `A X }}u' B` -/
theorem compile_faceR_site0 (d : Delims) (A : List Item) (X : Item) (u' : Bytes) (B : List Item) (line : Nat)
    (nP nB : List Node)
    (hP : compileTokens (tokensOf d (A ++ [X.clearR]) line) = .ok nP)
    (hB : compileTokens (tokensOf d B 0) = .ok nB) :
    compileTokens (tokensOf d (A ++ X.clearR :: .text u' :: B) line) =
      .ok (nP ++ .text (line + countNL (spell d (A ++ [X]))) u' ::
        relNodes (· + (line + countNL (spell d (A ++ [X])) + countNL u')) nB) := by
  have hnl : countNL (spell d (A ++ [X.clearR])) = countNL (spell d (A ++ [X])) := by
    simp only [spell_append, spell_single, countNL_append, Item.spell_clearR_nl]
  have hB' := compiles_any_line d B (line + countNL (spell d (A ++ [X])) + countNL u') hB
  rw [tokensOf_site, hnl, ← List.append_assoc, ← tokensOf_snoc]
  have h1 := compiles_append hP
    (compiles_append (compiles_text ({ ty := .text, line := line + countNL (spell d (A ++ [X])), source := u' } : Token) rfl) hB')
  simpa using h1

/-! ## how the two sources of a left site compile -/

/-- `A u{{- X B`: `A` compiles to `nA` on its own, `{{ X B` (placed at line 0) to `nQ` -/
theorem compile_faceL_site (d : Delims) (A : List Item) (u : Bytes) (X : Item) (B : List Item) (line : Nat)
    (hX : X.hl = true) (hrc : RawClosed (A ++ .text u :: X :: B)) (nA nQ : List Node)
    (hA : compileTokens (tokensOf d A line) = .ok nA)
    (hQ : compileTokens (tokensOf d (X.clearL :: B) 0) = .ok nQ) :
    compileTokens (tokensOf d (A ++ .text u :: X :: B) line) =
      .ok (nA ++ .text (line + countNL (spell d A)) u :: .trim true ::
        relNodes (· + (line + countNL (spell d A) + countNL u)) nQ) := by
  have hQ' := compiles_any_line d (X.clearL :: B) (line + countNL (spell d A) + countNL u) hQ
  have htok : (tokensOf d (A ++ .text u :: X :: B) line).map unsrc =
      (tokensOf d A line ++ ([({ ty := .text, line := line + countNL (spell d A), source := u } : Token)] ++
        ([({ ty := .trimL } : Token)] ++ tokensOf d (X.clearL :: B) (line + countNL (spell d A) + countNL u)))).map unsrc := by
    rw [tokensOf_append]
    simp only [tokensOf, Item.tokens_text, Item.spell_text, List.map_append, Item.tokens_clearL d _ X hX, Item.spell_clearL_nl,
      List.append_assoc, List.singleton_append, List.map_cons, List.map_nil, List.cons_append, List.nil_append]
  rw [compileTokens_congr' _ _ htok (tokensOf_rawSafe d _ _ line (Nat.le_refl _) hrc)]
  have h1 := compiles_append hA
    (compiles_append (compiles_text ({ ty := .text, line := line + countNL (spell d A), source := u } : Token) rfl)
      (compiles_append (compiles_trimL ({ ty := .trimL } : Token) rfl) hQ'))
  simpa using h1

/-- `A u'{{ X B` -/
theorem compile_faceL_site0 (d : Delims) (A : List Item) (u' : Bytes) (X : Item) (B : List Item) (line : Nat)
    (nA nQ : List Node)
    (hA : compileTokens (tokensOf d A line) = .ok nA)
    (hQ : compileTokens (tokensOf d (X.clearL :: B) 0) = .ok nQ) :
    compileTokens (tokensOf d (A ++ .text u' :: X.clearL :: B) line) =
      .ok (nA ++ .text (line + countNL (spell d A)) u' ::
        relNodes (· + (line + countNL (spell d A) + countNL u')) nQ) := by
  have hQ' := compiles_any_line d (X.clearL :: B) (line + countNL (spell d A) + countNL u') hQ
  have htok : tokensOf d (A ++ .text u' :: X.clearL :: B) line =
      tokensOf d A line ++ ([({ ty := .text, line := line + countNL (spell d A), source := u' } : Token)] ++
        tokensOf d (X.clearL :: B) (line + countNL (spell d A) + countNL u')) := by
    rw [tokensOf_append]
    simp only [tokensOf, Item.tokens_text, Item.spell_text, List.singleton_append]
  rw [htok]
  have h1 := compiles_append hA
    (compiles_append (compiles_text ({ ty := .text, line := line + countNL (spell d A), source := u' } : Token) rfl) hQ')
  simpa using h1

/-! ## two trees that differ in the lines of their tail -/

theorem lineRel_renderList_append (c : RCtx) (pre : List Node) {a b : List Node}
    (h : LineMRel StatusRel (renderList c a) (renderList c b)) :
    LineMRel StatusRel (renderList c (pre ++ a)) (renderList c (pre ++ b)) := by
  induction pre with
  | nil => exact h
  | cons n pre ih =>
    simp only [List.cons_append, renderList]
    refine relM_bind (relM_refl StatusRel.refl (renderNode c n)) (fun st st' hst => ?_)
    cases st <;> cases st' <;> first | exact False.elim hst | exact ih | exact relM_pure _ _ hst

/-- the same prefix, then the same self-contained piece placed at two different lines (both ≥ 1, no `include`
    in the piece): the results agree up to the line of the error -/
theorem runRoot_shift_tail (P : Prims) (O : OutPrims) (cfg : Cfg) (fs : FS) (fuel : Nat) (pre nB : List Node) (a b : Nat)
    (ha : 1 ≤ a) (hb : 1 ≤ b) (hn : noInclList nB = true) (env : Env) :
    (runRoot P O cfg fs fuel (pre ++ relNodes (· + a) nB) env).sameUpToLine
      (runRoot P O cfg fs fuel (pre ++ relNodes (· + b) nB) env) := by
  rw [runRoot_eq_resultOf, runRoot_eq_resultOf]
  apply sameUpToLine_of_progRel
  unfold frender renderRoot
  have hrel := lineRel_renderList_append (mkCtx P O cfg fs fuel) pre
    (lineRel_renderList (mkCtx P O cfg fs fuel) (g := (· + a)) (g' := (· + b))
      (fun x => by constructor <;> intro h <;> omega) nB hn) { env := env, tw := {} }
  refine ProgRel.bind (R := StatusRel) (ProgRel.bind hrel (fun r r' hr => ?_)) (fun st st' hst => ?_)
  · obtain ⟨st, s⟩ := r
    obtain ⟨st', s'⟩ := r'
    obtain ⟨hst, hs⟩ := hr
    simp only at hst hs
    subst hs
    cases st <;> cases st' <;>
      first | exact False.elim hst | exact ProgRel.refl StatusRel.refl _ | exact .ret _ _ hst
  · cases st <;> cases st' <;>
      first | exact False.elim hst | exact .ret _ _ trivial | exact .fail (.located _) (.located _) hst

/-- equal outcomes, and equal outputs after a normal end, give equal results -/
theorem resOfRoot_congr_face (x y : Bytes × Prog.Outcome Status) (h2 : x.2 = y.2)
    (hd : ∀ out, x = (out, .ok .done) → y = (out, .ok .done)) : resOfRoot x = resOfRoot y := by
  obtain ⟨o, r⟩ := x
  cases r with
  | ok st =>
    cases st with
    | done => rw [hd o rfl]
    | brk e => exact resOfRoot_of_snd _ _ h2 (by simp)
    | cont e => exact resOfRoot_of_snd _ _ h2 (by simp)
  | err e => exact resOfRoot_of_snd _ _ h2 (by simp)
  | panic w => exact resOfRoot_of_snd _ _ h2 (by simp)
  | unmodelled w => exact resOfRoot_of_snd _ _ h2 (by simp)

/-- the right rule on `runRoot` -/
theorem runRoot_faceR (P : Prims) (O : OutPrims) (cfg : Cfg) (fs : FS) (fuel : Nat) (pre post : List Node) (l : Nat) (u : Bytes)
    (env : Env) :
    runRoot P O cfg fs fuel (pre ++ .trim false :: .text l u :: post) env =
      runRoot P O cfg fs fuel (pre ++ .text l (trimLeftSpace u) :: post) env := by
  rw [runRoot_eq_resOfRoot, runRoot_eq_resOfRoot,
    renderRoot_congr (mkCtx P O cfg fs fuel) (hyphen_faces_text_right (mkCtx P O cfg fs fuel) pre post l u) env]

/-- the left rule on `runRoot` -/
theorem runRoot_faceL (P : Prims) (O : OutPrims) (cfg : Cfg) (fs : FS) (fuel : Nat) (pre post : List Node) (l : Nat) (u : Bytes)
    (hu : TrimComm u) (env : Env) :
    runRoot P O cfg fs fuel (pre ++ .text l u :: .trim true :: post) env =
      runRoot P O cfg fs fuel (pre ++ .text l (trimRightSpace u) :: post) env := by
  rw [runRoot_eq_resOfRoot, runRoot_eq_resOfRoot]
  have hc := incQuiet_mkCtx P O cfg fs fuel
  have h := faceRel_root (mkCtx P O cfg fs fuel)
    (gpair_list_append_left faceRel_ok (fun op => faceRel_refl [op]) (mkCtx P O cfg fs fuel) hc pre
      (gpair_face_fuse (mkCtx P O cfg fs fuel) l u hu
        (refl_list faceRel_ok (fun op => faceRel_refl [op]) (mkCtx P O cfg fs fuel) hc post))) env
  exact resOfRoot_congr_face _ _ h.1 h.2
