import Liquid.Filters.Arr
import Liquid.Filters.Num
import Liquid.Std
import Proofs.CompareLemmas
import Proofs.InsertionSort
/-!
# Helper lemmas for C15 (array filters)
-/

open Cmp (toLiq lessTL less joinKind rkind)

/-! ## A. `mergeSort` sorts whenever the order is total and transitive *on the elements of the list* -/

theorem pairwise_mergeSort_of_mem {α : Type} (le : α → α → Bool) (l : List α)
    (trans : ∀ a ∈ l, ∀ b ∈ l, ∀ c ∈ l, le a b = true → le b c = true → le a c = true)
    (total : ∀ a ∈ l, ∀ b ∈ l, (le a b || le b a) = true) :
    (l.mergeSort le).Pairwise (fun a b => le a b = true) := by
  let le' : {x // x ∈ l} → {x // x ∈ l} → Bool := fun a b => le a.1 b.1
  have hmap : (l.attach.mergeSort le').map Subtype.val = l.mergeSort le := by
    have h := List.map_mergeSort (r := le') (s := le) (f := Subtype.val) (l := l.attach)
      (fun a _ b _ => rfl)
    rw [h, List.attach_map_subtype_val]
  have hs : (l.attach.mergeSort le').Pairwise (fun a b => le' a b = true) :=
    List.pairwise_mergeSort (le := le')
      (fun a b c => trans a.1 a.2 b.1 b.2 c.1 c.2) (fun a b => total a.1 a.2 b.1 b.2) l.attach
  rw [← hmap, List.pairwise_map]
  exact hs

/-- Sorting by "not greater" is sorted when `lt` is, on the list, the strict part of a total
preorder of keys. -/
theorem sorted_of_key {α κ : Type} (lt : α → α → Bool) (key : α → κ) (kle : κ → κ → Prop)
    (ktrans : ∀ a b c, kle a b → kle b c → kle a c) (ktotal : ∀ a b, kle a b ∨ kle b a)
    (l : List α) (h : ∀ a ∈ l, ∀ b ∈ l, (lt a b = true ↔ ¬ kle (key b) (key a))) :
    (l.mergeSort (fun a b => !lt b a)).Pairwise (fun a b => lt b a = false) := by
  have hle : ∀ a ∈ l, ∀ b ∈ l, ((!lt b a) = true ↔ kle (key a) (key b)) := by
    intro a ha b hb
    have := h b hb a ha
    constructor
    · intro hn
      apply Classical.byContradiction
      intro hk
      have := this.mpr hk
      simp [this] at hn
    · intro hk
      cases hlt : lt b a
      · rfl
      · exact absurd hk (this.mp hlt)
  have hp := pairwise_mergeSort_of_mem (fun a b => !lt b a) l
    (fun a ha b hb c hc hab hbc => (hle a ha c hc).mpr (ktrans _ _ _ ((hle a ha b hb).mp hab) ((hle b hb c hc).mp hbc)))
    (fun a ha b hb => by
      rcases ktotal (key a) (key b) with hk | hk
      · simp [(hle a ha b hb).mpr hk]
      · simp [(hle b hb a ha).mpr hk])
  exact hp.imp (by intro a b hab; simpa using hab)

/-- nil-first lift of a preorder of keys to optional keys -/
def optLe {κ : Type} (kle : κ → κ → Prop) : Option κ → Option κ → Prop
  | none, _ => True
  | some _, none => False
  | some a, some b => kle a b

theorem optLe_trans {κ : Type} {kle : κ → κ → Prop} (ktrans : ∀ a b c, kle a b → kle b c → kle a c) :
    ∀ a b c, optLe kle a b → optLe kle b c → optLe kle a c := by
  intro a b c hab hbc
  cases a <;> cases b <;> cases c <;> simp_all [optLe]
  exact ktrans _ _ _ hab hbc

theorem optLe_total {κ : Type} {kle : κ → κ → Prop} (ktotal : ∀ a b, kle a b ∨ kle b a) :
    ∀ a b, optLe kle a b ∨ optLe kle b a := by
  intro a b
  cases a <;> cases b <;> simp_all [optLe]

/-! ## B. `values.Less` on the homogeneous classes -/

namespace ArrF

def intKey (v : GoVal) : Int := match toLiq v with | .int _ n => n | _ => 0
def numKey (v : GoVal) : Rat := match toLiq v with | .int _ n => (n : Rat) | .flt _ q => q | _ => 0
def strKey (v : GoVal) : Bytes := match toLiq v with | .str s => s | _ => []
def boolKey (v : GoVal) : Bool := match toLiq v with | .bool b => b | _ => false

/-- an integer of an unsigned kind is not negative (true of every Go value) -/
def IntWF (v : GoVal) : Prop := match toLiq v with | .int k n => Cmp.intOK k n | _ => True

theorem f64OfInt_small {n : Int} (h : n.natAbs ≤ 2 ^ 53) : Cmp.f64OfInt n = n := by
  unfold Cmp.f64OfInt Cmp.roundF64Nat
  simp only [h, if_true]
  split <;> omega

theorem lessB_int {a b : GoVal} {k k' : IntKind} {n m : Int}
    (ha : toLiq a = .int k n) (hb : toLiq b = .int k' m) (wa : Cmp.intOK k n) (wb : Cmp.intOK k' m) :
    lessB a b = decide (n < m) := by
  simp only [lessB, less, ha, hb, lessTL, GoVal.isNil, rkind, Cmp.joinKind_int_int, Cmp.compareInts_eq,
    Cmp.cmpIntSpec_eq_compare wa wb]
  simp only [Bool.or_self, Bool.false_eq_true, if_false]
  show (compare n m == .lt) = decide (n < m)
  rcases Int.lt_trichotomy n m with h | h | h
  · simp [Int.compare_eq_lt.mpr h, h]
  · subst h; simp
  · have : ¬ n < m := by omega
    simp [Int.compare_eq_gt.mpr h, this]

theorem lessB_int_flt {a b : GoVal} {k : IntKind} {k' : FltKind} {n : Int} {q : Rat}
    (ha : toLiq a = .int k n) (hb : toLiq b = .flt k' q) (hn : n.natAbs ≤ 2 ^ 53) :
    lessB a b = decide ((n : Rat) < q) := by
  simp [lessB, less, ha, hb, lessTL, GoVal.isNil, rkind, Cmp.rFloat64, f64OfInt_small hn]

theorem lessB_flt_int {a b : GoVal} {k : FltKind} {k' : IntKind} {n : Int} {q : Rat}
    (ha : toLiq a = .flt k q) (hb : toLiq b = .int k' n) (hn : n.natAbs ≤ 2 ^ 53) :
    lessB a b = decide (q < (n : Rat)) := by
  simp [lessB, less, ha, hb, lessTL, GoVal.isNil, rkind, Cmp.rFloat64, f64OfInt_small hn]

theorem lessB_flt {a b : GoVal} {k k' : FltKind} {q r : Rat}
    (ha : toLiq a = .flt k q) (hb : toLiq b = .flt k' r) :
    lessB a b = decide (q < r) := by
  simp only [lessB, less, ha, hb, lessTL, GoVal.isNil, rkind, Cmp.joinKind_flt_flt]
  simp [Cmp.rFloat64]

theorem lessB_str {a b : GoVal} {s t : Bytes} (ha : toLiq a = .str s) (hb : toLiq b = .str t) :
    lessB a b = decide (s < t) := by
  simp [lessB, less, ha, hb, lessTL, GoVal.isNil, rkind, Cmp.rString, Cmp.bytesLt]

theorem lessB_bool {a b : GoVal} {x y : Bool} (ha : toLiq a = .bool x) (hb : toLiq b = .bool y) :
    lessB a b = (!x && y) := by
  simp [lessB, less, ha, hb, lessTL, GoVal.isNil, rkind, Cmp.rBool]

theorem lessB_nil_left {a b : GoVal} (ha : toLiq a = .nil) : lessB a b = false := by
  simp [lessB, less, ha, lessTL, GoVal.isNil]

theorem lessB_nil_right {a b : GoVal} (hb : toLiq b = .nil) : lessB a b = false := by
  simp [lessB, less, hb, lessTL, GoVal.isNil]

/-- `values.Less` always answers (`joinKind` selects an accessor only for operands it fits) -/
theorem lessTL_ok (a b : GoVal) : ∃ r, lessTL a b = .ok r := by
  unfold lessTL
  split
  · exact ⟨_, rfl⟩
  · cases a <;> cases b <;>
      (try simp only [rkind, Cmp.joinKind_int_int, Cmp.joinKind_flt_flt, Cmp.joinKind_int_flt, Cmp.joinKind_flt_int]) <;>
      simp_all [GoVal.isNil, joinKind, Cmp.RKind.isInt, Cmp.RKind.isFloat, Cmp.rBool, Cmp.rFloat64, Cmp.rString,
        Cmp.compareInts_eq, bind, Res.bind]

/-- … so the partial comparator the filters run is the total `lessB` the theorems speak about -/
theorem less_eq_lessB (a b : GoVal) : less a b = .ok (lessB a b) := by
  obtain ⟨r, h⟩ := lessTL_ok (toLiq a) (toLiq b)
  simp [lessB, less, h]

theorem lessByKeyM_eq (key : Bytes) (a b : GoVal) : lessByKeyM key a b = .ok (lessByKey key a b) := by
  unfold lessByKeyM lessByKey
  split <;> simp [less_eq_lessB]

end ArrF

namespace ArrF

/-- the kinds `Less` orders -/
def ordered : Cmp.RKind → Bool
  | .bool | .int _ | .flt _ | .str => true
  | _ => false

theorem joinKind_ordered (r r' : Cmp.RKind) (h : ordered (joinKind r r') = true) :
    ordered r = true ∧ ordered r' = true := by
  cases r <;> cases r' <;> simp_all [joinKind, ordered, Cmp.RKind.isInt, Cmp.RKind.isFloat] <;>
    (split at h <;> simp_all)

theorem lessTL_unordered (a b : GoVal) (h : ordered (joinKind (rkind a) (rkind b)) = false) :
    lessTL a b = .ok false := by
  unfold lessTL
  split
  · rfl
  · generalize joinKind (rkind a) (rkind b) = j at h
    cases j <;> simp_all [ordered]

theorem kclass_other_unordered {a : GoVal} (h : kclass a = .other) : ordered (rkind (toLiq a)) = false := by
  unfold kclass at h
  cases ht : toLiq a <;> simp_all [rkind, ordered]

theorem lessB_other_left {a b : GoVal} (h : kclass a = .other) : lessB a b = false := by
  have : lessTL (toLiq a) (toLiq b) = .ok false := by
    apply lessTL_unordered
    cases ho : ordered (joinKind (rkind (toLiq a)) (rkind (toLiq b)))
    · rfl
    · have := (joinKind_ordered _ _ ho).1
      rw [kclass_other_unordered h] at this
      exact absurd this (by simp)
  simp [lessB, less, this]

theorem lessB_other_right {a b : GoVal} (h : kclass b = .other) : lessB a b = false := by
  have : lessTL (toLiq a) (toLiq b) = .ok false := by
    apply lessTL_unordered
    cases ho : ordered (joinKind (rkind (toLiq a)) (rkind (toLiq b)))
    · rfl
    · have := (joinKind_ordered _ _ ho).2
      rw [kclass_other_unordered h] at this
      exact absurd this (by simp)
  simp [lessB, less, this]

theorem kclass_int {a : GoVal} (h : kclass a = .int) : ∃ k n, toLiq a = .int k n := by
  unfold kclass at h
  cases ht : toLiq a <;> simp_all
theorem kclass_str {a : GoVal} (h : kclass a = .str) : ∃ s, toLiq a = .str s := by
  unfold kclass at h
  cases ht : toLiq a <;> simp_all
theorem kclass_bool {a : GoVal} (h : kclass a = .bool) : ∃ b, toLiq a = .bool b := by
  unfold kclass at h
  cases ht : toLiq a <;> simp_all
theorem kclass_nil {a : GoVal} (h : kclass a = .nil) : toLiq a = .nil := by
  unfold kclass at h
  cases ht : toLiq a <;> simp_all

theorem smallNum_cases {a : GoVal} (h : smallNum a = true) :
    (∃ k n, toLiq a = .int k n ∧ n.natAbs ≤ 2 ^ 53) ∨ (∃ k q, toLiq a = .flt k q) := by
  unfold smallNum at h
  cases ht : toLiq a <;> simp_all
  exact ⟨_, _, ⟨rfl, rfl⟩, h⟩

theorem rat_le_total (a b : Rat) : a ≤ b ∨ b ≤ a := Rat.le_total
theorem rat_le_trans (a b c : Rat) (h1 : a ≤ b) (h2 : b ≤ c) : a ≤ c := Rat.le_trans h1 h2

theorem bytes_le_total (a b : Bytes) : a ≤ b ∨ b ≤ a := List.le_total a b
theorem bytes_le_trans (a b c : Bytes) (h1 : a ≤ b) (h2 : b ≤ c) : a ≤ c := List.le_trans h1 h2

end ArrF

namespace ArrF

/-- On a homogeneous list `Less` is the strict part of a total *order* of sort keys, and the
canonical key text of the `sortc` line is a function of that key. -/
theorem homog_keyOrder (ks : List GoVal) (h : homog ks = true) (hw : ∀ x ∈ ks, IntWF x) :
    ∃ (κ : Type) (key : GoVal → κ) (kle : κ → κ → Prop) (shw : κ → String),
      (∀ a b c, kle a b → kle b c → kle a c) ∧ (∀ a b, kle a b ∨ kle b a) ∧
      (∀ a b, kle a b → kle b a → a = b) ∧
      (∀ a ∈ ks, ∀ b ∈ ks, (lessB a b = true ↔ ¬ kle (key b) (key a))) ∧
      (∀ a ∈ ks, canonKey a = shw (key a)) := by
  simp only [homog, Bool.or_eq_true, List.all_eq_true] at h
  rcases h with ((((hi | hn) | hs) | hb) | hnil) | ho
  · -- all integers
    refine ⟨Int, intKey, (· ≤ ·), (fun n => ratText n 1), fun a b c => Int.le_trans, fun a b => Int.le_total a b,
      fun a b => Int.le_antisymm, ?_, ?_⟩
    · intro a ha b hb
      obtain ⟨k, n, ea⟩ := kclass_int (by simpa [isClass] using hi a ha)
      obtain ⟨k', m, eb⟩ := kclass_int (by simpa [isClass] using hi b hb)
      have wa : Cmp.intOK k n := by have := hw a ha; simpa [IntWF, ea] using this
      have wb : Cmp.intOK k' m := by have := hw b hb; simpa [IntWF, eb] using this
      rw [lessB_int ea eb wa wb]
      simp [intKey, ea, eb]
    · intro a ha
      obtain ⟨k, n, ea⟩ := kclass_int (by simpa [isClass] using hi a ha)
      simp [canonKey, intKey, ea]
  · -- numbers, integers inside ±2^53
    refine ⟨Rat, numKey, (· ≤ ·), (fun q => ratText q.num q.den), rat_le_trans, rat_le_total,
      fun a b => Rat.le_antisymm, ?_, ?_⟩
    · intro a ha b hb
      rcases smallNum_cases (hn a ha) with ⟨k, n, ea, sa⟩ | ⟨k, q, ea⟩ <;>
        rcases smallNum_cases (hn b hb) with ⟨k', m, eb, sb⟩ | ⟨k', r, eb⟩
      · have wa : Cmp.intOK k n := by have := hw a ha; simpa [IntWF, ea] using this
        have wb : Cmp.intOK k' m := by have := hw b hb; simpa [IntWF, eb] using this
        rw [lessB_int ea eb wa wb]
        simp [numKey, ea, eb, Rat.not_le, Rat.intCast_lt_intCast]
      · rw [lessB_int_flt ea eb sa]
        simp [numKey, ea, eb, Rat.not_le]
      · rw [lessB_flt_int ea eb sb]
        simp [numKey, ea, eb, Rat.not_le]
      · rw [lessB_flt ea eb]
        simp [numKey, ea, eb, Rat.not_le]
    · intro a ha
      rcases smallNum_cases (hn a ha) with ⟨k, n, ea, _⟩ | ⟨k, q, ea⟩
      · simp [canonKey, numKey, ea]
      · simp [canonKey, numKey, ea]
  · -- all strings
    refine ⟨Bytes, strKey, (· ≤ ·), (fun s => "s" ++ hexEncode s), bytes_le_trans, bytes_le_total,
      fun a b => List.le_antisymm, ?_, ?_⟩
    · intro a ha b hb
      obtain ⟨s, ea⟩ := kclass_str (by simpa [isClass] using hs a ha)
      obtain ⟨t, eb⟩ := kclass_str (by simpa [isClass] using hs b hb)
      rw [lessB_str ea eb]
      simp [strKey, ea, eb, List.not_le]
    · intro a ha
      obtain ⟨s, ea⟩ := kclass_str (by simpa [isClass] using hs a ha)
      simp [canonKey, strKey, ea]
  · -- all booleans
    refine ⟨Bool, boolKey, (fun x y => x = true → y = true), (fun b => if b then "t" else "f"),
      fun a b c h1 h2 h => h2 (h1 h), ?_, ?_, ?_, ?_⟩
    · intro a b; cases a <;> cases b <;> simp
    · intro a b; cases a <;> cases b <;> simp
    · intro a ha b hb'
      obtain ⟨x, ea⟩ := kclass_bool (by simpa [isClass] using hb a ha)
      obtain ⟨y, eb⟩ := kclass_bool (by simpa [isClass] using hb b hb')
      rw [lessB_bool ea eb]
      cases x <;> cases y <;> simp [boolKey, ea, eb]
    · intro a ha
      obtain ⟨x, ea⟩ := kclass_bool (by simpa [isClass] using hb a ha)
      cases x <;> simp [canonKey, boolKey, ea]
  · -- all nil
    refine ⟨Unit, fun _ => (), fun _ _ => True, (fun _ => "n"), fun _ _ _ _ _ => trivial, fun _ _ => Or.inl trivial,
      fun _ _ _ _ => rfl, ?_, ?_⟩
    · intro a ha b _
      have := kclass_nil (by simpa [isClass] using hnil a ha)
      simp [lessB_nil_left this]
    · intro a ha
      have := kclass_nil (by simpa [isClass] using hnil a ha)
      simp [canonKey, this]
  · -- all unordered values
    refine ⟨Unit, fun _ => (), fun _ _ => True, (fun _ => "?"), fun _ _ _ _ _ => trivial, fun _ _ => Or.inl trivial,
      fun _ _ _ _ => rfl, ?_, ?_⟩
    · intro a ha b _
      have : kclass a = .other := by simpa [isClass] using ho a ha
      simp [lessB_other_left this]
    · intro a ha
      have hk : kclass a = .other := by simpa [isClass] using ho a ha
      unfold kclass at hk
      unfold canonKey
      cases ht : toLiq a <;> simp_all

theorem sortF_perm (xs : List GoVal) : (sortF xs).Perm xs := by
  unfold sortF
  split
  · exact insertionSort_perm' lessB xs
  · exact List.mergeSort_perm xs sortLe

theorem sortByF_perm (key : Bytes) (xs : List GoVal) : (sortByF key xs).Perm xs := by
  unfold sortByF
  split
  · exact insertionSort_perm' (lessByKey key) xs
  · exact List.mergeSort_perm xs (sortByLe key)

/-- `sort` without a key: sorted with respect to `Less` on every homogeneous array -/
theorem sortF_sorted (xs : List GoVal) (h : homog xs = true) (hw : ∀ x ∈ xs, IntWF x) :
    (sortF xs).Pairwise (fun a b => lessB b a = false) := by
  obtain ⟨κ, key, kle, _, tr, to, _, spec, _⟩ := homog_keyOrder xs h hw
  unfold sortF
  split
  · exact insertionSort_sorted_of_key lessB key kle tr to xs spec
  · exact sorted_of_key lessB key kle tr to xs spec

/-- "not greater" is transitive and total on a list on which `lt` is the strict part of a total
preorder of keys: the hypotheses of `insertionSort_eq_mergeSort_of_mem` -/
theorem le_of_key {α κ : Type} (lt : α → α → Bool) (key : α → κ) (kle : κ → κ → Prop)
    (ktrans : ∀ a b c, kle a b → kle b c → kle a c) (ktotal : ∀ a b, kle a b ∨ kle b a)
    (l : List α) (h : ∀ a ∈ l, ∀ b ∈ l, (lt a b = true ↔ ¬ kle (key b) (key a))) :
    (∀ a ∈ l, ∀ b ∈ l, ∀ c ∈ l, lt b a = false → lt c b = false → lt c a = false) ∧
    (∀ a ∈ l, ∀ b ∈ l, lt b a = false ∨ lt a b = false) := by
  have hf : ∀ a ∈ l, ∀ b ∈ l, (lt a b = false ↔ kle (key b) (key a)) := by
    intro a ha b hb
    have := h a ha b hb
    constructor
    · intro hn
      apply Classical.byContradiction
      intro hk
      rw [this.mpr hk] at hn
      cases hn
    · intro hk
      cases hlt : lt a b
      · rfl
      · exact absurd hk (this.mp hlt)
  refine ⟨?_, ?_⟩
  · intro a ha b hb c hc hba hcb
    exact (hf c hc a ha).mpr (ktrans _ _ _ ((hf b hb a ha).mp hba) ((hf c hc b hb).mp hcb))
  · intro a ha b hb
    rcases ktotal (key a) (key b) with hk | hk
    · exact Or.inl ((hf b hb a ha).mpr hk)
    · exact Or.inr ((hf a ha b hb).mpr hk)

/-- on a homogeneous array Go's insertion sort and `mergeSort` agree, so `sortF` is `mergeSort` for
every length -/
theorem sortF_eq_mergeSort (xs : List GoVal) (h : homog xs = true) (hw : ∀ x ∈ xs, IntWF x) :
    sortF xs = xs.mergeSort sortLe := by
  obtain ⟨κ, key, kle, _, tr, to, _, spec, _⟩ := homog_keyOrder xs h hw
  obtain ⟨h1, h2⟩ := le_of_key lessB key kle tr to xs spec
  unfold sortF
  split
  · exact insertionSort_eq_mergeSort_of_mem lessB xs h1 h2
  · rfl

/-- the model's `values.Sort` answers `sortF` whenever it answers, and it answers on every array of at
most 12 elements and on every homogeneous array -/
theorem sortM_eq (xs : List GoVal) :
    (∀ ys, sortM xs = .ok ys → ys = sortF xs) ∧
    (xs.length ≤ maxInsertion ∨ homog xs = true → sortM xs = .ok (sortF xs)) := by
  have hi : insertionSortM less xs = .ok (insertionSort lessB xs) :=
    insertionSortM_eq (fun a _ b _ => less_eq_lessB a b)
  unfold sortM sortF
  by_cases hl : xs.length ≤ maxInsertion
  · simp only [hl, if_true, hi, Res.ok.injEq]
    exact ⟨fun ys h => h.symm, fun _ => trivial⟩
  · simp only [hl, if_false]
    cases hh : homog xs
    · simp [notSWO]
    · simp

theorem mem_keys_of_nonNil {key : Bytes} {xs : List GoVal} {x : GoVal} (hx : x ∈ xs)
    (hn : (keyIndex key x).isNil = false) :
    keyIndex key x ∈ (xs.map (keyIndex key)).filter nonNil := by
  simp only [List.mem_filter, List.mem_map, nonNil]
  exact ⟨⟨x, hx, rfl⟩, by simp [hn]⟩

/-- `sort: key` on an array whose non-nil keys are homogeneous: `lessByKey` is the strict part of a
total preorder of optional keys, nil (none) first -/
theorem homogBy_keyOrder (key : Bytes) (xs : List GoVal) (h : homogBy key xs = true)
    (hw : ∀ x ∈ xs, IntWF (keyIndex key x)) :
    ∃ (κ : Type) (okey : GoVal → κ) (okle : κ → κ → Prop),
      (∀ a b c, okle a b → okle b c → okle a c) ∧ (∀ a b, okle a b ∨ okle b a) ∧
      (∀ a ∈ xs, ∀ b ∈ xs, (lessByKey key a b = true ↔ ¬ okle (okey b) (okey a))) := by
  have hw' : ∀ k ∈ (xs.map (keyIndex key)).filter nonNil, IntWF k := by
    intro k hk
    simp only [List.mem_filter, List.mem_map] at hk
    obtain ⟨⟨x, hx, rfl⟩, _⟩ := hk
    exact hw x hx
  obtain ⟨κ, kf, kle, _, tr, to, _, spec, _⟩ := homog_keyOrder _ h hw'
  let okey : GoVal → Option κ := fun x => if (keyIndex key x).isNil then none else some (kf (keyIndex key x))
  refine ⟨Option κ, okey, optLe kle, optLe_trans tr, optLe_total to, ?_⟩
  intro a ha b hb
  cases na : (keyIndex key a).isNil <;> cases nb : (keyIndex key b).isNil <;>
    simp only [lessByKey, na, nb, okey, optLe, if_true, if_false, Bool.false_eq_true]
  · exact spec _ (mem_keys_of_nonNil ha na) _ (mem_keys_of_nonNil hb nb)
  · simp
  · simp
  · simp

/-- `sort: key`: sorted with respect to the key order, nil keys first -/
theorem sortByF_sorted (key : Bytes) (xs : List GoVal) (h : homogBy key xs = true)
    (hw : ∀ x ∈ xs, IntWF (keyIndex key x)) :
    (sortByF key xs).Pairwise (fun a b => lessByKey key b a = false) := by
  obtain ⟨κ, okey, okle, tr, to, spec⟩ := homogBy_keyOrder key xs h hw
  unfold sortByF
  split
  · exact insertionSort_sorted_of_key (lessByKey key) okey okle tr to xs spec
  · exact sorted_of_key (lessByKey key) okey okle tr to xs spec

theorem sortByF_eq_mergeSort (key : Bytes) (xs : List GoVal) (h : homogBy key xs = true)
    (hw : ∀ x ∈ xs, IntWF (keyIndex key x)) : sortByF key xs = xs.mergeSort (sortByLe key) := by
  obtain ⟨κ, okey, okle, tr, to, spec⟩ := homogBy_keyOrder key xs h hw
  obtain ⟨h1, h2⟩ := le_of_key (lessByKey key) okey okle tr to xs spec
  unfold sortByF
  split
  · exact insertionSort_eq_mergeSort_of_mem (lessByKey key) xs h1 h2
  · rfl

theorem sortByM_eq (key : Bytes) (xs : List GoVal) :
    (∀ ys, sortByM key xs = .ok ys → ys = sortByF key xs) ∧
    (xs.length ≤ maxInsertion ∨ homogBy key xs = true → sortByM key xs = .ok (sortByF key xs)) := by
  have hi : insertionSortM (lessByKeyM key) xs = .ok (insertionSort (lessByKey key) xs) :=
    insertionSortM_eq (fun a _ b _ => lessByKeyM_eq key a b)
  unfold sortByM sortByF
  by_cases hl : xs.length ≤ maxInsertion
  · simp only [hl, if_true, hi, Res.ok.injEq]
    exact ⟨fun ys h => h.symm, fun _ => trivial⟩
  · simp only [hl, if_false]
    cases hh : homogBy key xs
    · simp [notSWO]
    · simp

end ArrF

/-! ## B'. `sort_natural` -/

namespace ArrF

theorem decorate_eq_map {f : GoVal → R Bytes} {k : GoVal → Bytes} :
    ∀ {xs : List GoVal}, (∀ x ∈ xs, f x = .ok (k x)) → decorate f xs = .ok (xs.map fun x => (k x, x))
  | [], _ => rfl
  | x :: xs, h => by
    have ih := decorate_eq_map (f := f) (k := k) (xs := xs) (fun y hy => h y (List.mem_cons_of_mem _ hy))
    simp [decorate, h x List.mem_cons_self, ih, Res.bind]

/-- the elements of a decorated list are the list -/
theorem decorate_snd {f : GoVal → R Bytes} :
    ∀ {xs : List GoVal} {ds : List (Bytes × GoVal)}, decorate f xs = .ok ds → ds.map (·.2) = xs
  | [], ds, h => by simp only [decorate, Res.ok.injEq] at h; subst h; rfl
  | x :: xs, ds, h => by
    unfold decorate at h
    cases hx : f x with
    | ok kx =>
      rw [hx] at h
      simp only [Res.bind] at h
      cases hr : decorate f xs with
      | ok r =>
        rw [hr] at h
        simp only [Res.ok.injEq] at h
        subst h
        simp [decorate_snd hr]
      | err e => rw [hr] at h; cases h
      | panic w => rw [hr] at h; cases h
      | unmodelled w => rw [hr] at h; cases h
    | err e => rw [hx] at h; cases h
    | panic w => rw [hx] at h; cases h
    | unmodelled w => rw [hx] at h; cases h

theorem natLessM_eq {f : GoVal → R Bytes} {k : GoVal → Bytes} {a b : GoVal}
    (ha : f a = .ok (k a)) (hb : f b = .ok (k b)) : natLessM f a b = .ok (Cmp.bytesLt (k a) (k b)) := by
  simp [natLessM, ha, hb, Res.bind]

theorem sortNatF_perm (k : GoVal → Bytes) (xs : List GoVal) : (sortNatF k xs).Perm xs := by
  unfold sortNatF
  split
  · exact insertionSort_perm' _ xs
  · have h := (List.mergeSort_perm (xs.map fun x => (k x, x)) textLe).map (·.2)
    simpa [List.map_map, Function.comp_def] using h

theorem textLe_trans (a b c : Bytes × GoVal) (hab : textLe a b = true) (hbc : textLe b c = true) :
    textLe a c = true := by
  simp only [textLe, textLt, Cmp.bytesLt, Bool.not_eq_true', decide_eq_false_iff_not] at *
  exact bytes_le_trans _ _ _ hab hbc

theorem textLe_total (a b : Bytes × GoVal) : (textLe a b || textLe b a) = true := by
  simp only [textLe, textLt, Cmp.bytesLt, Bool.or_eq_true, Bool.not_eq_true', decide_eq_false_iff_not]
  exact bytes_le_total _ _

theorem sortNatF_sorted (k : GoVal → Bytes) (xs : List GoVal) :
    (sortNatF k xs).Pairwise (fun a b => k a ≤ k b) := by
  unfold sortNatF
  split
  · have h := insertionSort_sorted_of_key (fun a b => Cmp.bytesLt (k a) (k b)) k (· ≤ ·)
      bytes_le_trans bytes_le_total xs (fun a _ b _ => by simp [Cmp.bytesLt, List.not_le])
    exact h.imp (by intro a b hab; simpa [Cmp.bytesLt] using hab)
  · have h := List.pairwise_mergeSort (le := textLe) textLe_trans textLe_total (xs.map fun x => (k x, x))
    have hk : ∀ p ∈ (xs.map fun x => (k x, x)).mergeSort textLe, p.1 = k p.2 := by
      intro p hp
      rw [List.mem_mergeSort, List.mem_map] at hp
      obtain ⟨x, _, rfl⟩ := hp
      rfl
    rw [List.pairwise_map]
    refine h.imp_of_mem ?_
    intro p q hp hq hpq
    rw [← hk p hp, ← hk q hq]
    simpa [textLe, textLt, Cmp.bytesLt] using hpq

/-- the model's `sort.Sort(keySortable{…})`: a permutation whenever it answers (whatever the key
function does); `sortNatF k` when the sort text of every element is `k` of it -/
theorem sortNatM_perm {strict : Bool} {f : GoVal → R Bytes} {xs ys : List GoVal}
    (h : sortNatM strict f xs = .ok ys) : ys.Perm xs := by
  unfold sortNatM at h
  split at h
  · exact insertionSortM_perm h
  · cases hd : decorate f xs with
    | ok ds =>
      rw [hd] at h
      simp only [Res.bind] at h
      split at h
      · cases h
      · simp only [Res.ok.injEq] at h
        subst h
        have := (List.mergeSort_perm ds textLe).map (·.2)
        rwa [decorate_snd hd] at this
    | err e => rw [hd] at h; cases h
    | panic w => rw [hd] at h; cases h
    | unmodelled w => rw [hd] at h; cases h

theorem sortNatM_eq {f : GoVal → R Bytes} {k : GoVal → Bytes} {xs : List GoVal}
    (hf : ∀ x ∈ xs, f x = .ok (k x)) :
    (∀ strict ys, sortNatM strict f xs = .ok ys → ys = sortNatF k xs) ∧
    sortNatM false f xs = .ok (sortNatF k xs) ∧
    (xs.length ≤ maxInsertion → sortNatM true f xs = .ok (sortNatF k xs)) := by
  have hi : insertionSortM (natLessM f) xs = .ok (insertionSort (fun a b => Cmp.bytesLt (k a) (k b)) xs) :=
    insertionSortM_eq (fun a ha b hb => natLessM_eq (hf a ha) (hf b hb))
  unfold sortNatM sortNatF
  by_cases hl : xs.length ≤ maxInsertion
  · simp only [hl, if_true, hi, Res.ok.injEq]
    exact ⟨fun _ ys h => h.symm, trivial, fun _ => trivial⟩
  · simp only [hl, if_false, decorate_eq_map hf, Res.bind]
    refine ⟨?_, by simp, fun h => h.elim⟩
    intro strict ys h
    split at h
    · cases h
    · simp only [Res.ok.injEq] at h
      exact h.symm

end ArrF

/-! ## C. `uniq`: first occurrences -/

namespace ArrF

section Uniq
variable {α κ : Type} [BEq κ] [LawfulBEq κ] (key : α → κ)
set_option linter.unusedSectionVars false

theorem uniqOn_sublist (seen : List κ) (xs : List α) : (uniqOn key seen xs).Sublist xs := by
  induction xs generalizing seen with
  | nil => simp [uniqOn]
  | cons x xs ih =>
    unfold uniqOn
    split
    · exact (ih seen).cons x
    · exact (ih _).cons_cons x

/-- no kept element has a key that was already seen -/
theorem uniqOn_not_seen (seen : List κ) (xs : List α) :
    ∀ y ∈ uniqOn key seen xs, seen.contains (key y) = false := by
  induction xs generalizing seen with
  | nil => simp [uniqOn]
  | cons x xs ih =>
    unfold uniqOn
    split
    · exact ih seen
    · rename_i hx
      intro y hy
      rcases List.mem_cons.mp hy with rfl | hy
      · simpa using hx
      · have := ih _ y hy
        simp only [List.contains_cons, Bool.or_eq_false_iff] at this
        exact this.2

/-- the kept elements have pairwise different keys -/
theorem uniqOn_pairwise (seen : List κ) (xs : List α) :
    (uniqOn key seen xs).Pairwise (fun a b => key a ≠ key b) := by
  induction xs generalizing seen with
  | nil => simp [uniqOn]
  | cons x xs ih =>
    unfold uniqOn
    split
    · exact ih seen
    · refine List.Pairwise.cons ?_ (ih _)
      intro y hy
      have := uniqOn_not_seen key _ xs y hy
      simp only [List.contains_cons, Bool.or_eq_false_iff] at this
      intro h
      have h1 := this.1
      rw [h] at h1
      simp at h1

/-- every element is represented: its key was seen before, or a kept element has it -/
theorem uniqOn_support (seen : List κ) (xs : List α) :
    ∀ x ∈ xs, seen.contains (key x) = true ∨ ∃ y ∈ uniqOn key seen xs, key y = key x := by
  induction xs generalizing seen with
  | nil => simp
  | cons z xs ih =>
    intro x hx
    unfold uniqOn
    rcases List.mem_cons.mp hx with rfl | hx
    · split
      · rename_i h; exact Or.inl h
      · exact Or.inr ⟨x, List.mem_cons_self, rfl⟩
    · split
      · exact ih seen x hx
      · rcases ih (key z :: seen) x hx with h | ⟨y, hy, hk⟩
        · simp only [List.contains_cons, Bool.or_eq_true] at h
          rcases h with h | h
          · exact Or.inr ⟨z, List.mem_cons_self, (eq_of_beq h).symm⟩
          · exact Or.inl h
        · exact Or.inr ⟨y, List.mem_cons_of_mem _ hy, hk⟩

/-- order kept, first occurrences: appending an element adds it iff its key is new -/
theorem uniqOn_append_singleton (seen : List κ) (xs : List α) (x : α) :
    uniqOn key seen (xs ++ [x]) =
      uniqOn key seen xs ++ (if seen.contains (key x) || (xs.map key).contains (key x) then [] else [x]) := by
  induction xs generalizing seen with
  | nil =>
    simp only [List.nil_append, uniqOn, List.map_nil, List.contains_nil, Bool.or_false]
  | cons z xs ih =>
    have hc : ((z :: xs).map key).contains (key x) = ((key x == key z) || (xs.map key).contains (key x)) := by
      rw [List.map_cons, List.contains_cons]
    rw [List.cons_append, hc]
    unfold uniqOn
    by_cases hz : seen.contains (key z) = true
    · simp only [hz, if_true]
      rw [ih seen]
      congr 1
      by_cases hx : key x = key z
      · rw [hx, hz]; simp
      · have hb : (key x == key z) = false := by simpa using hx
        rw [hb, Bool.false_or]
    · simp only [hz, if_false, Bool.false_eq_true]
      rw [ih (key z :: seen), List.contains_cons, List.cons_append]
      congr 2
      generalize (key x == key z) = p
      generalize seen.contains (key x) = q
      generalize (xs.map key).contains (key x) = r
      cases p <;> cases q <;> cases r <;> rfl

end Uniq

end ArrF

/-! ## D. the simple filters -/

namespace ArrF

theorem isNil_iff (x : GoVal) : x.isNil = true ↔ x = .nil := by
  cases x <;> simp [GoVal.isNil]

theorem compactF_eq_filter (xs : List GoVal) : compactF xs = xs.filter (fun x => !x.isNil) := by
  induction xs with
  | nil => rfl
  | cons x xs ih =>
    unfold compactF
    cases h : x.isNil <;> simp [h, ih]

theorem foldl_cons_eq (xs acc : List GoVal) :
    xs.foldl (fun acc x => x :: acc) acc = xs.reverse ++ acc := by
  induction xs generalizing acc with
  | nil => rfl
  | cons x xs ih => simp [List.foldl, ih]

theorem reverseF_eq (xs : List GoVal) : reverseF xs = xs.reverse := by
  rw [reverseF, foldl_cons_eq, List.append_nil]

theorem firstF_eq (xs : List GoVal) : firstF xs = xs[0]?.getD .nil := by
  cases xs <;> rfl

theorem lastF_eq (xs : List GoVal) : lastF xs = xs.getLast?.getD .nil := by
  induction xs with
  | nil => rfl
  | cons x xs ih =>
    cases xs with
    | nil => rfl
    | cons y r => simpa [lastF, List.getLast?_cons_cons] using ih

theorem lastF_eq_getD (xs : List GoVal) : lastF xs = xs.getD (xs.length - 1) .nil := by
  induction xs with
  | nil => rfl
  | cons x xs ih =>
    cases xs with
    | nil => rfl
    | cons y r => simpa [lastF] using ih

theorem joinBytes_eq_intercalate (sep : Bytes) (ss : List Bytes) :
    joinBytes sep ss = sep.intercalate ss := by
  induction ss with
  | nil => rfl
  | cons a rest ih =>
    cases rest with
    | nil => simp [joinBytes, List.intercalate]
    | cons b r =>
      rw [joinBytes, ih]
      simp [List.intercalate, List.intersperse]

theorem sprintNonNil_eq (xs : List GoVal) :
    sprintNonNil xs = sprintAll ((xs.filter (fun x => !x.isNil)).map GoVal.resolveDrops) := by
  induction xs with
  | nil => simp [sprintNonNil, sprintAll]
  | cons x xs ih =>
    unfold sprintNonNil
    cases h : x.isNil
    · simp [h, sprintAll, sprintR, ih]
    · simp [h, ih]

/-- the total version of `propOf`: nil where the lookup is outside the model -/
def propOfD (x : GoVal) (k : Bytes) : GoVal :=
  match GoVal.propertyValue x k with
  | .val v => v.unwrap
  | _ => .nil

theorem mapF_eq_map (k : Bytes) (xs : List GoVal)
    (h : ∀ x ∈ xs, ∃ v, GoVal.propertyValue x k = .val v) :
    mapF k xs = .ok (xs.map (propOfD · k)) := by
  induction xs with
  | nil => rfl
  | cons x xs ih =>
    obtain ⟨v, hv⟩ := h x List.mem_cons_self
    have ih' := ih (fun y hy => h y (List.mem_cons_of_mem _ hy))
    simp [mapF, propOf, propOfD, hv, ih', Res.bind]

theorem map_toLiquid_of_noDrop (xs : List GoVal) (h : ∀ x ∈ xs, x.toLiquid = x) :
    xs.map GoVal.toLiquid = xs := by
  induction xs with
  | nil => rfl
  | cons x xs ih =>
    simp [h x List.mem_cons_self, ih (fun y hy => h y (List.mem_cons_of_mem _ hy))]

end ArrF

/-! ## E. the call layer (`applyFilter` with the standard table) on array filters -/

namespace ArrF

theorem impl_compact : lookupImpl stdFilterImpls (bn "compact") = some (eager compact) := by with_unfolding_all rfl
theorem impl_reverse : lookupImpl stdFilterImpls (bn "reverse") = some (eager reverse) := by with_unfolding_all rfl
theorem impl_first : lookupImpl stdFilterImpls (bn "first") = some (eager first) := by with_unfolding_all rfl
theorem impl_last : lookupImpl stdFilterImpls (bn "last") = some (eager last) := by with_unfolding_all rfl
theorem impl_uniq : lookupImpl stdFilterImpls (bn "uniq") = some (eager uniq) := by with_unfolding_all rfl
theorem impl_concat : lookupImpl stdFilterImpls (bn "concat") = some (eager concat) := by with_unfolding_all rfl
theorem impl_sort : lookupImpl stdFilterImpls (bn "sort") = some (eager sort) := by with_unfolding_all rfl
theorem impl_size : lookupImpl stdFilterImpls (bn "size") = some Num.size := by with_unfolding_all rfl

/-- every filter body of `ArrF.impls` is registered in `stdFilters` -/
theorem arr_impls_registered : impls.all (fun p => (lookupSig p.1).isSome) = true := by decide +kernel

/-- the names the one-parameter array filters are registered under -/
def unaryNames : List Bytes := ["compact", "reverse", "first", "last", "uniq"].map bn

def isUnaryAnys (name : Bytes) : Bool :=
  match lookupSig name with
  | some sg => sg.params == [.val .anys]
  | none => false

theorem unary_sig : ∀ name ∈ unaryNames, isUnaryAnys name = true := by
  have h : unaryNames.all isUnaryAnys = true := by decide +kernel
  exact List.all_eq_true.mp h

theorem eager_ok {f : List GoVal → R GoVal} {vs : List GoVal} {v : GoVal} (h : f vs = .ok v) :
    eager f (vs.map Arg.val) = ret v := by
  have hc : ∀ ws : List GoVal, FilterImpl.ofEager.collect (ws.map Arg.val) = .ok ws := by
    intro ws
    induction ws with
    | nil => rfl
    | cons w ws ih => simp [FilterImpl.ofEager.collect, ih, Res.bind]
  simp [eager, FilterImpl.ofEager, hc, Res.bind, h]

/-- A one-parameter array filter applied to a non-nil receiver: the receiver is converted to a
`[]any` and handed to the body. -/
theorem applyFilter_unary {name : Bytes} {f : List GoVal → R GoVal} {recv v : GoVal} {ys : List GoVal}
    (hs : isUnaryAnys name = true) (hi : lookupImpl stdFilterImpls name = some (eager f))
    (hn : recv ≠ .nil) (hc : convert recv .anys = .ok (.slice .any ys))
    (hf : f [.slice .any ys] = .ok v) :
    applyFilter (lookupImpl stdFilterImpls) name recv [] = .ok (bytesToString v) := by
  unfold isUnaryAnys at hs
  split at hs
  · rename_i sg hsg
    have hp : sg.params = [.val .anys] := by simpa using hs
    unfold applyFilter
    simp only [hsg, hp, List.length_cons, List.length_nil]
    have hca : convertArgs [.val .anys] [recv] = .ok [.val (.slice .any ys)] := by
      cases recv <;> simp_all [convertArgs, Res.bind]
    have he := eager_ok (f := f) (vs := [.slice .any ys]) hf
    simp only [List.map] at he
    simp [hca, hi, Res.bind, he, ret]
  · simp at hs

/-- the same for a nil receiver: the zero value of `[]any` -/
theorem applyFilter_unary_nil {name : Bytes} {f : List GoVal → R GoVal} {v : GoVal}
    (hs : isUnaryAnys name = true) (hi : lookupImpl stdFilterImpls name = some (eager f))
    (hf : f [.slice .any []] = .ok v) :
    applyFilter (lookupImpl stdFilterImpls) name .nil [] = .ok (bytesToString v) := by
  unfold isUnaryAnys at hs
  split at hs
  · rename_i sg hsg
    have hp : sg.params = [.val .anys] := by simpa using hs
    unfold applyFilter
    simp only [hsg, hp, List.length_cons, List.length_nil]
    have hca : convertArgs [.val .anys] [.nil] = .ok [.val (.slice .any [])] := by
      simp [convertArgs, Res.bind, ParamTy.zero]
    have he := eager_ok (f := f) (vs := [.slice .any []]) hf
    simp only [List.map] at he
    simp [hca, hi, Res.bind, he, ret]
  · simp at hs

end ArrF

namespace ArrF

theorem sig_sort : lookupSig (bn "sort") = some ⟨bn "sort", [.val .anys, .val .any], false⟩ := by decide +kernel
theorem sig_concat : lookupSig (bn "concat") = some ⟨bn "concat", [.val .anys, .val .anys], false⟩ := by decide +kernel

/-- `{{ a | sort }}` through the call layer: the missing key argument is the zero value nil -/
theorem applyFilter_sort {recv : GoVal} {ys : List GoVal} (hn : recv ≠ .nil)
    (hc : convert recv .anys = .ok (.slice .any ys)) (hl : ys.length ≤ 12) :
    applyFilter (lookupImpl stdFilterImpls) (bn "sort") recv [] = .ok (.slice .any (sortF ys)) := by
  unfold applyFilter
  simp only [sig_sort, List.length_cons, List.length_nil]
  have hca : convertArgs [.val .anys, .val .any] [recv] = .ok [.val (.slice .any ys), .val .nil] := by
    cases recv <;> simp_all [convertArgs, Res.bind, ParamTy.zero]
  have hlen : (sortF ys).length ≤ 12 := by rw [(sortF_perm ys).length_eq]; exact hl
  have hf : sort [.slice .any ys, .nil] = .ok (.slice .any (sortF ys)) := by
    simp [sort, sortWith, (sortM_eq ys).2 (Or.inl hl), Res.bind, stableEnough, maxInsertion, hlen]
  have he := eager_ok (f := sort) (vs := [.slice .any ys, .nil]) hf
  simp only [List.map] at he
  simp [hca, impl_sort, Res.bind, he, ret, bytesToString]

/-- `{{ a | concat: b }}` through the call layer -/
theorem applyFilter_concat {recv arg : GoVal} {xs ys : List GoVal} (hn : recv ≠ .nil) (hn' : arg ≠ .nil)
    (hc : convert recv .anys = .ok (.slice .any xs)) (hc' : convert arg .anys = .ok (.slice .any ys)) :
    applyFilter (lookupImpl stdFilterImpls) (bn "concat") recv [arg] = .ok (.slice .any (xs ++ ys)) := by
  unfold applyFilter
  simp only [sig_concat, List.length_cons, List.length_nil]
  have hca : convertArgs [.val .anys, .val .anys] [recv, arg] = .ok [.val (.slice .any xs), .val (.slice .any ys)] := by
    cases recv <;> cases arg <;> simp_all [convertArgs, Res.bind]
  have hf : concat [.slice .any xs, .slice .any ys] = .ok (.slice .any (xs ++ ys)) := rfl
  have he := eager_ok (f := concat) (vs := [.slice .any xs, .slice .any ys]) hf
  simp only [List.map] at he
  simp [hca, impl_concat, Res.bind, he, ret, bytesToString]

end ArrF
