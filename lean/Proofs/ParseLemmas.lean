import Proofs.NestLemmas
/-!
# Lemmas relating the block-parser machine (`Liquid/Parse.lean`) to the nesting grammar
(`Liquid/Nest.lean`). Property theorems are in `Proofs/C06.lean`.
-/

/-! ## `syntaxOf` against the table predicates -/

theorem syntaxOf_of_isBlock {g : Grammar} {n : Bytes} (h : g.isBlock n = true) :
    g.syntaxOf n = some (.start n) := by
  unfold Grammar.isBlock at h
  simp only [Grammar.syntaxOf, h, if_true]

theorem endPrefix_cancel {a b : Bytes} : (endPrefix ++ a == endPrefix ++ b) = (a == b) := by
  simp [endPrefix]

theorem syntaxOf_end {g : Grammar} {b : Bytes} (hb : g.isBlock b = true)
    (hn : g.isBlock (endPrefix ++ b) = false) :
    g.syntaxOf (endPrefix ++ b) = some (.end_ (endPrefix ++ b) b) := by
  unfold Grammar.isBlock at hn hb
  simp only [Grammar.syntaxOf, hn]
  have : ∃ d, g.find? (fun d => endPrefix ++ d.name == endPrefix ++ b) = some d ∧ d.name = b := by
    clear hn
    induction g with
    | nil => simp at hb
    | cons d ds ih =>
      simp only [List.any_cons, Bool.or_eq_true] at hb
      simp only [List.find?_cons, endPrefix_cancel]
      by_cases hd : (d.name == b) = true
      · exact ⟨d, by simp [hd], by simpa using hd⟩
      · have hd' : (d.name == b) = false := by simpa using hd
        rcases hb with hb | hb
        · exact absurd hb hd
        · obtain ⟨d', h1, h2⟩ := ih hb
          exact ⟨d', by simpa [hd', endPrefix_cancel] using h1, h2⟩
  obtain ⟨d, h1, h2⟩ := this
  simp [h1, h2]

theorem find_end_none {g : Grammar} {n : Bytes} (h : g.isEnd n = false) :
    g.find? (fun b => endPrefix ++ b.name == n) = none := by
  unfold Grammar.isEnd at h
  induction g with
  | nil => rfl
  | cons d ds ih =>
    simp only [List.any_cons, Bool.or_eq_false_iff] at h
    simp only [List.find?_cons, h.1]
    exact ih h.2

theorem parents_contains {g : Grammar} {b c : Bytes} :
    ((g.filter (fun d => d.clauses.contains c)).map (·.name)).contains b = g.admits b c := by
  unfold Grammar.admits
  induction g with
  | nil => rfl
  | cons d ds ih =>
    simp only [List.filter_cons, List.any_cons]
    cases hc : d.clauses.contains c
    · simpa using ih
    · simp only [if_true, List.map_cons, List.contains_cons, ih, Bool.and_true]
      rw [Bool.beq_comm]

theorem admits_isClause {g : Grammar} {b c : Bytes} (h : g.admits b c = true) : g.isClause c = true := by
  unfold Grammar.admits at h
  unfold Grammar.isClause
  simp only [List.any_eq_true, Bool.and_eq_true] at *
  obtain ⟨d, hd, _, h2⟩ := h
  exact ⟨d, hd, h2⟩

theorem syntaxOf_clause {g : Grammar} {b c : Bytes} (hb : g.isBlock c = false) (he : g.isEnd c = false)
    (h : g.admits b c = true) :
    ∃ ps, g.syntaxOf c = some (.clause c ps) ∧ ps.contains b = true := by
  refine ⟨(g.filter (fun d => d.clauses.contains c)).map (·.name), ?_, by rw [parents_contains]; exact h⟩
  have hne : ((g.filter (fun d => d.clauses.contains c)).map (·.name)).isEmpty = false := by
    have := (parents_contains (g := g) (b := b) (c := c)).trans h
    cases hl : (g.filter (fun d => d.clauses.contains c)).map (·.name) with
    | nil => rw [hl] at this; simp at this
    | cons _ _ => rfl
  unfold Grammar.isBlock at hb
  simp only [Grammar.syntaxOf, hb, find_end_none he, hne, Bool.false_eq_true, if_false]

theorem syntaxOf_unknown {g : Grammar} {n : Bytes} (h : g.known n = false) : g.syntaxOf n = none := by
  simp only [Grammar.known, Bool.or_eq_false_iff] at h
  obtain ⟨⟨h1, h2⟩, h3⟩ := h
  have h1' := h1
  unfold Grammar.isBlock at h1'
  simp only [Grammar.syntaxOf, h1', find_end_none h2]
  have : (g.filter (fun d => d.clauses.contains n)) = [] := by
    unfold Grammar.isClause at h3
    clear h1 h1' h2
    induction g with
    | nil => rfl
    | cons d ds ih =>
      simp only [List.any_cons, Bool.or_eq_false_iff] at h3
      simp only [List.filter_cons, h3.1, ih h3.2, Bool.false_eq_true, if_false]
  simp only [this, List.map_nil, List.isEmpty_nil, if_true, Bool.false_eq_true, if_false]

/-- what `syntaxOf` answers, read back in terms of the table -/
theorem syntaxOf_some {g : Grammar} {n : Bytes} {cs : Syn} (h : g.syntaxOf n = some cs) :
    g.known n = true ∧
    match cs with
    | .start _ => g.isBlock n = true
    | .end_ _ sn => n = endPrefix ++ sn
    | .clause _ ps => ∀ b, ps.contains b = true → g.admits b n = true := by
  cases hk : g.known n with
  | false => rw [syntaxOf_unknown hk] at h; cases h
  | true =>
    refine ⟨rfl, ?_⟩
    unfold Grammar.syntaxOf at h
    by_cases hb : (g.any fun b => b.name == n) = true
    · rw [if_pos hb] at h; cases h; exact hb
    · rw [if_neg hb] at h
      cases hf : g.find? (fun b => endPrefix ++ b.name == n) with
      | some d =>
        rw [hf] at h; cases h
        have := List.find?_some hf
        exact (by simpa using this : endPrefix ++ d.name = n).symm
      | none =>
        rw [hf] at h
        dsimp only at h
        split at h
        · cases h
        · cases h
          intro b hb
          rw [parents_contains] at hb; exact hb

theorem syntaxOf_known {g : Grammar} {n : Bytes} (h : g.known n = true) : ∃ cs, g.syntaxOf n = some cs := by
  cases hb : g.isBlock n with
  | true => exact ⟨_, syntaxOf_of_isBlock hb⟩
  | false =>
    have hb' := hb
    unfold Grammar.isBlock at hb'
    simp only [Grammar.syntaxOf, hb', Bool.false_eq_true, if_false]
    cases hf : g.find? (fun b => endPrefix ++ b.name == n) with
    | some d => exact ⟨_, rfl⟩
    | none =>
      have he : g.isEnd n = false := by
        unfold Grammar.isEnd
        cases ha : g.any (fun b => endPrefix ++ b.name == n) with
        | false => rfl
        | true =>
          rw [List.any_eq_true] at ha
          obtain ⟨d, hd, hd2⟩ := ha
          have := List.find?_eq_none.mp hf d hd
          exact absurd hd2 this
      have hc : g.isClause n = true := by simpa [Grammar.known, hb, he] using h
      unfold Grammar.isClause at hc
      rw [List.any_eq_true] at hc
      obtain ⟨d, hd, hd2⟩ := hc
      have hadm : g.admits d.name n = true := by
        unfold Grammar.admits
        rw [List.any_eq_true]
        exact ⟨d, hd, by simp only [beq_self_eq_true, hd2, Bool.and_self]⟩
      rw [← parents_contains] at hadm
      dsimp only
      cases hl : (g.filter (fun d => d.clauses.contains n)).map (·.name) with
      | nil => rw [hl] at hadm; simp at hadm
      | cons a as => exact ⟨.clause n (a :: as), by simp only [List.isEmpty_cons, Bool.false_eq_true, if_false]⟩

/-! ## One step of the machine on a classified token -/

section steps
variable {g : Grammar} {chk : Bytes → Option Cause}

theorem step_text {cur : List AST} {st : List Frame} {t : Token} (ht : t.ty = .text) :
    parseStep g chk ⟨cur, st, .normal⟩ t = .ok ⟨.text t :: cur, st, .normal⟩ := by
  simp only [parseStep, ht]

theorem step_obj {cur : List AST} {st : List Frame} {t : Token} (ht : t.ty = .obj) (hc : chk t.args = none) :
    parseStep g chk ⟨cur, st, .normal⟩ t = .ok ⟨.obj t :: cur, st, .normal⟩ := by
  simp only [parseStep, ht, hc]

theorem step_obj_err {cur : List AST} {st : List Frame} {t : Token} {c : Cause} (ht : t.ty = .obj)
    (hc : chk t.args = some c) :
    parseStep g chk ⟨cur, st, .normal⟩ t = .err ⟨.objSyntax c, t.line⟩ := by
  simp only [parseStep, ht, hc]

theorem step_trimL {cur : List AST} {st : List Frame} {t : Token} (ht : t.ty = .trimL) :
    parseStep g chk ⟨cur, st, .normal⟩ t = .ok ⟨.trim true :: cur, st, .normal⟩ := by
  simp only [parseStep, ht]

theorem step_trimR {cur : List AST} {st : List Frame} {t : Token} (ht : t.ty = .trimR) :
    parseStep g chk ⟨cur, st, .normal⟩ t = .ok ⟨.trim false :: cur, st, .normal⟩ := by
  simp only [parseStep, ht]

theorem step_plain {cur : List AST} {st : List Frame} {t : Token} (h : g.isPlain t = true) :
    parseStep g chk ⟨cur, st, .normal⟩ t = .ok ⟨.tag t :: cur, st, .normal⟩ := by
  simp only [Grammar.isPlain, Bool.and_eq_true, beq_iff_eq, Bool.not_eq_true'] at h
  simp only [parseStep, h.1, syntaxOf_unknown h.2]

theorem step_commentOpen {cur : List AST} {st : List Frame} {t : Token} (h : g.isCommentOpen t = true) :
    parseStep g chk ⟨cur, st, .normal⟩ t = .ok ⟨cur, st, .comment t⟩ := by
  simp only [Grammar.isCommentOpen, Bool.and_eq_true, beq_iff_eq] at h
  obtain ⟨⟨h1, h2⟩, h3⟩ := h
  obtain ⟨cs, hs⟩ := syntaxOf_known h3
  simp only [parseStep, h1, h2, hs, beq_self_eq_true, if_true]

theorem rawName_ne_commentName : (rawName == commentName) = false := by decide

theorem step_rawOpen {cur : List AST} {st : List Frame} {t : Token} (h : g.isRawOpen t = true) :
    parseStep g chk ⟨cur, st, .normal⟩ t = .ok ⟨cur, st, .raw t []⟩ := by
  simp only [Grammar.isRawOpen, Bool.and_eq_true, beq_iff_eq] at h
  obtain ⟨⟨h1, h2⟩, h3⟩ := h
  obtain ⟨cs, hs⟩ := syntaxOf_known h3
  simp only [parseStep, h1, h2, hs, rawName_ne_commentName, beq_self_eq_true, if_true, Bool.false_eq_true, if_false]

theorem step_inComment_end {cur : List AST} {st : List Frame} {o t : Token} (h : isEndComment t = true) :
    parseStep g chk ⟨cur, st, .comment o⟩ t = .ok ⟨cur, st, .normal⟩ := by
  unfold isEndComment at h
  simp only [parseStep, h, if_true]

theorem step_inComment_other {cur : List AST} {st : List Frame} {o t : Token} (h : isEndComment t = false) :
    parseStep g chk ⟨cur, st, .comment o⟩ t = .ok ⟨cur, st, .comment o⟩ := by
  unfold isEndComment at h
  simp only [parseStep, h, Bool.false_eq_true, if_false]

theorem step_inRaw_end {cur : List AST} {st : List Frame} {o t : Token} {sl : List Bytes} (h : isEndRaw t = true) :
    parseStep g chk ⟨cur, st, .raw o sl⟩ t = .ok ⟨.raw sl.reverse :: cur, st, .normal⟩ := by
  unfold isEndRaw at h
  simp only [parseStep, h, if_true]

theorem step_inRaw_other {cur : List AST} {st : List Frame} {o t : Token} {sl : List Bytes} (h : isEndRaw t = false) :
    parseStep g chk ⟨cur, st, .raw o sl⟩ t = .ok ⟨cur, st, .raw o (t.source :: sl)⟩ := by
  unfold isEndRaw at h
  simp only [parseStep, h, Bool.false_eq_true, if_false]

theorem step_open {cur : List AST} {st : List Frame} {t : Token} (h : g.isOpen t = true) :
    parseStep g chk ⟨cur, st, .normal⟩ t =
      .ok ⟨[], { tok := t, outer := cur, body := none, clauses := [], cur := none } :: st, .normal⟩ := by
  simp only [Grammar.isOpen, Bool.and_eq_true, beq_iff_eq, bne_iff_ne, ne_eq] at h
  obtain ⟨⟨⟨h1, h2⟩, h3⟩, h4⟩ := h
  have h3' : (t.name == commentName) = false := by simpa using h3
  have h4' : (t.name == rawName) = false := by simpa using h4
  simp only [parseStep, h1, syntaxOf_of_isBlock h2, h3', h4', parentOk, Bool.not_true, Bool.false_eq_true, if_false]

theorem step_clause (ok : g.OK = true) {cur : List AST} {f : Frame} {fs : List Frame} {c : Token}
    (h : g.isClauseOf f.tok c = true) :
    parseStep g chk ⟨cur, f :: fs, .normal⟩ c =
      .ok ⟨[], (match f.cur with
                | none => { f with body := some cur.reverse, cur := some c }
                | some c0 => { f with clauses := (c0, cur.reverse) :: f.clauses, cur := some c }) :: fs, .normal⟩ := by
  simp only [Grammar.isClauseOf, Bool.and_eq_true, beq_iff_eq, bne_iff_ne, ne_eq] at h
  obtain ⟨⟨⟨h1, h2⟩, h3⟩, h4⟩ := h
  have h3' : (c.name == commentName) = false := by simpa using h3
  have h4' : (c.name == rawName) = false := by simpa using h4
  obtain ⟨hb, he⟩ := OK_clause ok h2
  obtain ⟨ps, hs, hp⟩ := syntaxOf_clause hb he h2
  simp only [parseStep, h1, hs, h3', h4', parentOk, List.head?_cons, hp, Bool.not_true, Bool.false_eq_true, if_false]
  cases f.cur <;> rfl

theorem step_end (ok : g.OK = true) {cur : List AST} {f : Frame} {fs : List Frame} {e : Token}
    (ho : g.isOpen f.tok = true) (h : isEndOf f.tok e = true) :
    parseStep g chk ⟨cur, f :: fs, .normal⟩ e = .ok ⟨closeFrame f cur :: f.outer, fs, .normal⟩ := by
  simp only [isEndOf, Bool.and_eq_true, beq_iff_eq] at h
  obtain ⟨h1, h2⟩ := h
  simp only [Grammar.isOpen, Bool.and_eq_true, beq_iff_eq, bne_iff_ne, ne_eq] at ho
  obtain ⟨⟨⟨_, hb⟩, _⟩, _⟩ := ho
  have h3' : (e.name == commentName) = false := by rw [h2]; simp [endPrefix, commentName]
  have h4' : (e.name == rawName) = false := by rw [h2]; simp [endPrefix, rawName]
  have hs := syntaxOf_end hb (OK_end ok hb)
  rw [← h2] at hs
  simp only [parseStep, h1, hs, h3', h4', parentOk, List.head?_cons, beq_self_eq_true, Bool.not_true, Bool.false_eq_true, if_false]

end steps

/-! ## Soundness of the grammar: the machine follows a derivation -/

section sound
variable {g : Grammar} {chk : Bytes → Option Cause}

theorem loop_cons_ok {s s' : PState} {t : Token} {ts : List Token} (h : parseStep g chk s t = .ok s') :
    parseLoop g chk s (t :: ts) = parseLoop g chk s' ts := by
  simp only [parseLoop, h]

theorem loop_comment_interior {cur : List AST} {st : List Frame} {o : Token} (k : List Token) :
    ∀ interior : List Token, (∀ t ∈ interior, isEndComment t = false) →
    parseLoop g chk ⟨cur, st, .comment o⟩ (interior ++ k) = parseLoop g chk ⟨cur, st, .comment o⟩ k
  | [], _ => rfl
  | t :: ts, h => by
    rw [List.cons_append, loop_cons_ok (step_inComment_other (h t (List.mem_cons_self ..)))]
    exact loop_comment_interior k ts (fun x hx => h x (List.mem_cons_of_mem _ hx))

theorem loop_raw_interior {cur : List AST} {st : List Frame} {o : Token} (k : List Token) :
    ∀ (interior : List Token) (sl : List Bytes), (∀ t ∈ interior, isEndRaw t = false) →
    parseLoop g chk ⟨cur, st, .raw o sl⟩ (interior ++ k) =
      parseLoop g chk ⟨cur, st, .raw o ((interior.map (·.source)).reverse ++ sl)⟩ k
  | [], _, _ => rfl
  | t :: ts, sl, h => by
    rw [List.cons_append, loop_cons_ok (step_inRaw_other (h t (List.mem_cons_self ..))),
      loop_raw_interior k ts _ (fun x hx => h x (List.mem_cons_of_mem _ hx))]
    simp

/-- inside block `o` with finished clauses `done` (reversed) and current clause `c` filled with `cb` -/
theorem loop_clauses (ok : g.OK = true) {o e : Token} (ho : g.isOpen o = true) (he : isEndOf o e = true)
    (body outer : List AST) (fs : List Frame) :
    ∀ (segs : List Seg), (∀ sg ∈ segs, g.isClauseOf o sg.1 = true) →
    (∀ sg ∈ segs, ∀ cur st k, parseLoop g chk ⟨cur, st, .normal⟩ (sg.2.1 ++ k) =
        parseLoop g chk ⟨sg.2.2.reverse ++ cur, st, .normal⟩ k) →
    ∀ (c : Token) (cb : List AST) (done : List (Token × List AST)) (k : List Token),
    parseLoop g chk ⟨cb.reverse, { tok := o, outer := outer, body := some body, clauses := done, cur := some c } :: fs, .normal⟩
        (segToks segs ++ e :: k) =
      parseLoop g chk ⟨.block o body (done.reverse ++ (c, cb) :: segASTs segs) :: outer, fs, .normal⟩ k
  | [], _, _, c, cb, done, k => by
    simp only [segToks, List.nil_append, segASTs]
    rw [loop_cons_ok (step_end ok (f := { tok := o, outer := outer, body := some body, clauses := done, cur := some c }) ho he)]
    simp [closeFrame]
  | (c', ts, cns) :: r, hc, ih, c, cb, done, k => by
    simp only [segToks, List.cons_append, List.append_assoc, segASTs]
    rw [loop_cons_ok (step_clause ok (f := { tok := o, outer := outer, body := some body, clauses := done, cur := some c })
        (hc _ (List.mem_cons_self ..)))]
    rw [ih _ (List.mem_cons_self ..)]
    have := loop_clauses ok ho he body outer fs r (fun sg hsg => hc sg (List.mem_cons_of_mem _ hsg))
      (fun sg hsg => ih sg (List.mem_cons_of_mem _ hsg)) c' cns ((c, cb) :: done) k
    simp only [List.append_nil, List.reverse_reverse] at this ⊢
    rw [this]
    simp

theorem loop_derives (ok : g.OK = true) {toks : List Token} {ns : List AST} (h : Derives g chk toks ns) :
    ∀ (cur : List AST) (st : List Frame) (k : List Token),
    parseLoop g chk ⟨cur, st, .normal⟩ (toks ++ k) = parseLoop g chk ⟨ns.reverse ++ cur, st, .normal⟩ k := by
  induction h with
  | nil => intros; rfl
  | text t rest ns ht _ ih => intro cur st k; rw [List.cons_append, loop_cons_ok (step_text ht), ih]; simp
  | obj t rest ns ht hc _ ih => intro cur st k; rw [List.cons_append, loop_cons_ok (step_obj ht hc), ih]; simp
  | trimL t rest ns ht _ ih => intro cur st k; rw [List.cons_append, loop_cons_ok (step_trimL ht), ih]; simp
  | trimR t rest ns ht _ ih => intro cur st k; rw [List.cons_append, loop_cons_ok (step_trimR ht), ih]; simp
  | tag t rest ns ht _ ih => intro cur st k; rw [List.cons_append, loop_cons_ok (step_plain ht), ih]; simp
  | comment o c interior rest ns ho hi hc _ ih =>
    intro cur st k
    rw [List.cons_append, loop_cons_ok (step_commentOpen ho), List.append_assoc, loop_comment_interior _ _ hi,
      List.cons_append, loop_cons_ok (step_inComment_end hc), ih]
  | raw o c interior rest ns ho hi hc _ ih =>
    intro cur st k
    rw [List.cons_append, loop_cons_ok (step_rawOpen ho), List.append_assoc, loop_raw_interior _ _ _ hi,
      List.cons_append, loop_cons_ok (step_inRaw_end hc), ih]
    simp
  | block o e body bns segs rest ns ho _ hcl _ he _ ihb ihs ihr =>
    intro cur st k
    rw [List.cons_append, loop_cons_ok (step_open ho), List.append_assoc, ihb]
    cases segs with
    | nil =>
      simp only [segToks, List.nil_append, List.cons_append, segASTs]
      rw [loop_cons_ok (step_end ok (f := { tok := o, outer := cur, body := none, clauses := [], cur := none }) ho he), ihr]
      simp [closeFrame]
    | cons sg r =>
      obtain ⟨c, ts, cns⟩ := sg
      simp only [segToks, List.cons_append, List.append_assoc, segASTs]
      rw [loop_cons_ok (step_clause ok (f := { tok := o, outer := cur, body := none, clauses := [], cur := none })
        (hcl _ (List.mem_cons_self ..)))]
      rw [ihs _ (List.mem_cons_self ..)]
      have := loop_clauses (chk := chk) ok ho he bns cur st r (fun sg hsg => hcl sg (List.mem_cons_of_mem _ hsg))
        (fun sg hsg => ihs sg (List.mem_cons_of_mem _ hsg)) c cns [] (rest ++ k)
      simp only [List.append_nil, List.reverse_reverse, List.reverse_nil, List.nil_append] at this ⊢
      rw [this, ihr]
      simp
end sound

/-! ## Facts about derivations -/

section derives
variable {g : Grammar} {chk : Bytes → Option Cause}

theorem Derives.append {a b : List Token} {ns ms : List AST} (h : Derives g chk a ns) (hb : Derives g chk b ms) :
    Derives g chk (a ++ b) (ns ++ ms) := by
  induction h with
  | nil => exact hb
  | text t rest ns ht _ ih => exact Derives.text t _ _ ht ih
  | obj t rest ns ht hc _ ih => exact Derives.obj t _ _ ht hc ih
  | trimL t rest ns ht _ ih => exact Derives.trimL t _ _ ht ih
  | trimR t rest ns ht _ ih => exact Derives.trimR t _ _ ht ih
  | tag t rest ns ht _ ih => exact Derives.tag t _ _ ht ih
  | comment o c interior rest ns ho hi hc _ ih =>
    have := Derives.comment o c interior _ _ ho hi hc ih
    simpa using this
  | raw o c interior rest ns ho hi hc _ ih =>
    have := Derives.raw o c interior _ _ ho hi hc ih
    simpa using this
  | block o e body bns segs rest ns ho hbd hcl hsg he _ _ _ ihr =>
    have := Derives.block o e body bns segs _ _ ho hbd hcl hsg he ihr
    simpa using this

theorem segToks_append (a b : List Seg) : segToks (a ++ b) = segToks a ++ segToks b := by
  induction a with
  | nil => rfl
  | cons x xs ih => obtain ⟨c, ts, ns⟩ := x; simp [segToks, ih]

theorem segASTs_append (a b : List Seg) : segASTs (a ++ b) = segASTs a ++ segASTs b := by
  induction a with
  | nil => rfl
  | cons x xs ih => obtain ⟨c, ts, ns⟩ := x; simp [segASTs, ih]
end derives

/-! ## Completeness: what the machine has consumed is derivable, piecewise, from what it has built -/

section complete
variable (g : Grammar) (chk : Bytes → Option Cause)

/-- the tokens consumed for frame `f`: the items of the enclosing level, the open tag, and — once
    a clause has started — the body, the finished clauses and the header of the current clause -/
def FrameInv (f : Frame) (outerT ft : List Token) : Prop :=
  g.isOpen f.tok = true ∧ Derives g chk outerT f.outer.reverse ∧
    match f.cur with
    | none => ft = outerT ++ [f.tok] ∧ f.clauses = []
    | some c => g.isClauseOf f.tok c = true ∧ ∃ (bodyT : List Token) (body : List AST) (segs : List Seg),
        f.body = some body ∧ Derives g chk bodyT body ∧
        (∀ sg ∈ segs, g.isClauseOf f.tok sg.1 = true) ∧ (∀ sg ∈ segs, Derives g chk sg.2.1 sg.2.2) ∧
        f.clauses.reverse = segASTs segs ∧
        ft = outerT ++ f.tok :: (bodyT ++ (segToks segs ++ [c]))

def StackInv : List Frame → List Token → Prop
  | [], t => t = []
  | f :: fs, t => ∃ t1 outerT t2, t = t1 ++ t2 ∧ StackInv fs t1 ∧ FrameInv g chk f outerT t2 ∧
      -- the machine reaches the enclosing level on the tokens before the open tag
      parseLoop g chk {} (t1 ++ outerT) = .ok ⟨f.outer, fs, .normal⟩

def ModeInv : PMode → List Token → Prop
  | .normal, t => t = []
  | .comment o, t => ∃ interior, t = o :: interior ∧ g.isCommentOpen o = true ∧ ∀ x ∈ interior, isEndComment x = false
  | .raw o sl, t => ∃ interior, t = o :: interior ∧ g.isRawOpen o = true ∧ (∀ x ∈ interior, isEndRaw x = false) ∧
      sl.reverse = interior.map (·.source)

/-- the invariant of the token loop -/
def ParseInv (s : PState) (toks : List Token) : Prop :=
  ∃ t1 t2 t3, toks = t1 ++ (t2 ++ t3) ∧ StackInv g chk s.stack t1 ∧ Derives g chk t2 s.cur.reverse ∧ ModeInv g s.mode t3 ∧
    -- inside comment/raw: the machine reaches the surrounding normal state on the tokens before the open tag
    (t3 ≠ [] → parseLoop g chk {} (t1 ++ t2) = .ok ⟨s.cur, s.stack, .normal⟩)

variable {g chk}

theorem isOpen_of_start {t : Token} {n : Bytes} (ht : t.ty = .tag) (hs : g.syntaxOf t.name = some (.start n))
    (hc : (t.name == commentName) = false) (hr : (t.name == rawName) = false) : g.isOpen t = true := by
  have := (syntaxOf_some hs).2
  simp only at this
  have hc' : t.name ≠ commentName := by simpa using hc
  have hr' : t.name ≠ rawName := by simpa using hr
  simp [Grammar.isOpen, ht, this, hc', hr']

theorem step_inv {s s' : PState} {t : Token} {toks : List Token} (h0 : parseLoop g chk {} toks = .ok s)
    (hi : ParseInv g chk s toks) (h : parseStep g chk s t = .ok s') : ParseInv g chk s' (toks ++ [t]) := by
  obtain ⟨cur, st, mode⟩ := s
  obtain ⟨t1, t2, t3, rfl, hs, hd, hm, hrun⟩ := hi
  cases mode with
  | comment o =>
    obtain ⟨interior, rfl, ho, hint⟩ := hm
    cases he : isEndComment t with
    | true =>
      rw [step_inComment_end he] at h; cases h
      refine ⟨t1, t2 ++ (o :: (interior ++ [t])), [], by simp, hs, ?_, rfl, fun hne => absurd rfl hne⟩
      have := hd.append (Derives.comment o t interior [] [] ho hint he .nil)
      simpa using this
    | false =>
      rw [step_inComment_other he] at h; cases h
      refine ⟨t1, t2, o :: (interior ++ [t]), by simp, hs, hd, ⟨interior ++ [t], rfl, ho, ?_⟩, fun _ => hrun (by simp)⟩
      intro x hx
      rcases List.mem_append.mp hx with hx | hx
      · exact hint x hx
      · simp only [List.mem_singleton] at hx; rw [hx]; exact he
  | raw o sl =>
    obtain ⟨interior, rfl, ho, hint, hsl⟩ := hm
    cases he : isEndRaw t with
    | true =>
      rw [step_inRaw_end he] at h; cases h
      refine ⟨t1, t2 ++ (o :: (interior ++ [t])), [], by simp, hs, ?_, rfl, fun hne => absurd rfl hne⟩
      have := hd.append (Derives.raw o t interior [] [] ho hint he .nil)
      simpa [hsl] using this
    | false =>
      rw [step_inRaw_other he] at h; cases h
      refine ⟨t1, t2, o :: (interior ++ [t]), by simp, hs, hd, ⟨interior ++ [t], rfl, ho, ?_, by simp [hsl]⟩, fun _ => hrun (by simp)⟩
      intro x hx
      rcases List.mem_append.mp hx with hx | hx
      · exact hint x hx
      · simp only [List.mem_singleton] at hx; rw [hx]; exact he
  | normal =>
    simp only [ModeInv] at hm
    subst hm
    cases ht : t.ty with
    | text =>
      rw [step_text ht] at h; cases h
      exact ⟨t1, t2 ++ [t], [], by simp, hs, by simpa using hd.append (Derives.text t [] [] ht .nil), rfl, fun hne => absurd rfl hne⟩
    | trimL =>
      rw [step_trimL ht] at h; cases h
      exact ⟨t1, t2 ++ [t], [], by simp, hs, by simpa using hd.append (Derives.trimL t [] [] ht .nil), rfl, fun hne => absurd rfl hne⟩
    | trimR =>
      rw [step_trimR ht] at h; cases h
      exact ⟨t1, t2 ++ [t], [], by simp, hs, by simpa using hd.append (Derives.trimR t [] [] ht .nil), rfl, fun hne => absurd rfl hne⟩
    | obj =>
      cases hc : chk t.args with
      | some c => rw [step_obj_err ht hc] at h; cases h
      | none =>
        rw [step_obj ht hc] at h; cases h
        exact ⟨t1, t2 ++ [t], [], by simp, hs, by simpa using hd.append (Derives.obj t [] [] ht hc .nil), rfl, fun hne => absurd rfl hne⟩
    | tag =>
      cases hk : g.known t.name with
      | false =>
        have hp : g.isPlain t = true := by simp [Grammar.isPlain, ht, hk]
        rw [step_plain hp] at h; cases h
        exact ⟨t1, t2 ++ [t], [], by simp, hs, by simpa using hd.append (Derives.tag t [] [] hp .nil), rfl, fun hne => absurd rfl hne⟩
      | true =>
        obtain ⟨cs, hsyn⟩ := syntaxOf_known hk
        cases hc : t.name == commentName with
        | true =>
          have ho : g.isCommentOpen t = true := by
            have : t.name = commentName := by simpa using hc
            rw [this] at hk
            simp [Grammar.isCommentOpen, ht, this, hk]
          rw [step_commentOpen ho] at h; cases h
          exact ⟨t1, t2, [t], by simp, hs, hd, ⟨[], rfl, ho, by simp⟩, fun _ => by simpa using h0⟩
        | false =>
        cases hr : t.name == rawName with
        | true =>
          have ho : g.isRawOpen t = true := by
            have : t.name = rawName := by simpa using hr
            rw [this] at hk
            simp [Grammar.isRawOpen, ht, this, hk]
          rw [step_rawOpen ho] at h; cases h
          exact ⟨t1, t2, [t], by simp, hs, hd, ⟨[], rfl, ho, by simp, by simp⟩, fun _ => by simpa using h0⟩
        | false =>
          simp only [parseStep, ht, hsyn, hc, hr, Bool.false_eq_true, if_false] at h
          cases hp : parentOk cs st.head? with
          | false => simp only [hp, Bool.not_false, if_true] at h; cases h
          | true =>
          simp only [hp, Bool.not_true, Bool.false_eq_true, if_false] at h
          cases cs with
          | start n =>
            simp only at h; cases h
            have ho := isOpen_of_start ht hsyn hc hr
            exact ⟨t1 ++ (t2 ++ [t]), [], [], by simp, ⟨t1, t2, t2 ++ [t], rfl, hs, ⟨ho, hd, rfl, rfl⟩, by simpa using h0⟩, .nil, rfl,
              fun hne => absurd rfl hne⟩
          | clause n ps =>
            cases st with
            | nil => simp [parentOk] at hp
            | cons f fs =>
              obtain ⟨u1, outerT, u2, rfl, hfs, ⟨hof, hout, hf⟩, hfr⟩ := hs
              have hcl : g.isClauseOf f.tok t = true := by
                have := (syntaxOf_some hsyn).2
                simp only at this
                have hc' : t.name ≠ commentName := by simpa using hc
                have hr' : t.name ≠ rawName := by simpa using hr
                simp only [parentOk, List.head?_cons] at hp
                simp [Grammar.isClauseOf, ht, this _ hp, hc', hr']
              simp only at h
              cases hfc : f.cur with
              | none =>
                rw [hfc] at h hf
                simp only at h hf; cases h
                obtain ⟨rfl, hcl0⟩ := hf
                refine ⟨u1 ++ (outerT ++ f.tok :: (t2 ++ [t])), [], [], by simp, ⟨u1, outerT, _, rfl, hfs, ⟨hof, hout, ?_⟩, hfr⟩, .nil, rfl,
                  fun hne => absurd rfl hne⟩
                exact ⟨hcl, t2, cur.reverse, [], rfl, hd, by simp, by simp, by simp [hcl0, segASTs], by simp [segToks]⟩
              | some c0 =>
                rw [hfc] at h hf
                simp only at h hf; cases h
                obtain ⟨hc0, bodyT, body, segs, hbody, hbd, hsc, hsd, hcls, rfl⟩ := hf
                refine ⟨u1 ++ (outerT ++ f.tok :: (bodyT ++ (segToks (segs ++ [(c0, t2, cur.reverse)]) ++ [t]))), [], [],
                  by simp [segToks_append, segToks], ⟨u1, outerT, _, rfl, hfs, ⟨hof, hout, ?_⟩, hfr⟩, .nil, rfl,
                  fun hne => absurd rfl hne⟩
                refine ⟨hcl, bodyT, body, segs ++ [(c0, t2, cur.reverse)], hbody, hbd, ?_, ?_, ?_, rfl⟩
                · intro sg hsg
                  rcases List.mem_append.mp hsg with hsg | hsg
                  · exact hsc sg hsg
                  · simp only [List.mem_singleton] at hsg; rw [hsg]; exact hc0
                · intro sg hsg
                  rcases List.mem_append.mp hsg with hsg | hsg
                  · exact hsd sg hsg
                  · simp only [List.mem_singleton] at hsg; rw [hsg]; exact hd
                · simp [segASTs_append, segASTs, hcls]
          | end_ n sn =>
            cases st with
            | nil => simp [parentOk] at hp
            | cons f fs =>
              obtain ⟨u1, outerT, u2, rfl, hfs, ⟨hof, hout, hf⟩, hfr⟩ := hs
              have hen : isEndOf f.tok t = true := by
                have := (syntaxOf_some hsyn).2
                simp only at this
                simp only [parentOk, List.head?_cons, beq_iff_eq] at hp
                simp [isEndOf, ht, this, hp]
              simp only at h; cases h
              cases hfc : f.cur with
              | none =>
                rw [hfc] at hf
                simp only at hf
                obtain ⟨rfl, _⟩ := hf
                refine ⟨u1, outerT ++ (f.tok :: (t2 ++ (segToks [] ++ t :: []))), [], by simp [segToks], hfs, ?_, rfl,
                  fun hne => absurd rfl hne⟩
                have := hout.append (Derives.block f.tok t t2 cur.reverse [] [] [] hof hd (by simp) (by simp) hen .nil)
                simpa [closeFrame, hfc, segASTs] using this
              | some c =>
                rw [hfc] at hf
                simp only at hf
                obtain ⟨hc0, bodyT, body, segs, hbody, hbd, hsc, hsd, hcls, rfl⟩ := hf
                refine ⟨u1, outerT ++ (f.tok :: (bodyT ++ (segToks (segs ++ [(c, t2, cur.reverse)]) ++ t :: []))), [],
                  by simp [segToks_append, segToks], hfs, ?_, rfl, fun hne => absurd rfl hne⟩
                have := hout.append (Derives.block f.tok t bodyT body (segs ++ [(c, t2, cur.reverse)]) [] [] hof hbd
                  (by
                    intro sg hsg
                    rcases List.mem_append.mp hsg with hsg | hsg
                    · exact hsc sg hsg
                    · simp only [List.mem_singleton] at hsg; rw [hsg]; exact hc0)
                  (by
                    intro sg hsg
                    rcases List.mem_append.mp hsg with hsg | hsg
                    · exact hsd sg hsg
                    · simp only [List.mem_singleton] at hsg; rw [hsg]; exact hd)
                  hen .nil)
                simpa [closeFrame, hfc, hbody, segASTs_append, segASTs, hcls] using this
end complete

section loops
variable {g : Grammar} {chk : Bytes → Option Cause}

theorem loop_append {s s' : PState} {a : List Token} (b : List Token) (h : parseLoop g chk s a = .ok s') :
    parseLoop g chk s (a ++ b) = parseLoop g chk s' b := by
  induction a generalizing s with
  | nil => simp only [parseLoop] at h; cases h; rfl
  | cons t ts ih =>
    simp only [parseLoop, List.cons_append] at h ⊢
    cases hst : parseStep g chk s t with
    | ok s1 => rw [hst] at h; exact ih h
    | err e => rw [hst] at h; cases h
    | panic w => rw [hst] at h; cases h
    | unmodelled w => rw [hst] at h; cases h

theorem loop_inv : ∀ (ts : List Token) {s s' : PState} {toks : List Token}, parseLoop g chk {} toks = .ok s →
    ParseInv g chk s toks → parseLoop g chk s ts = .ok s' → ParseInv g chk s' (toks ++ ts)
  | [], s, s', toks, _, hi, h => by
    simp only [parseLoop] at h; cases h; simpa using hi
  | t :: ts, s, s', toks, h0, hi, h => by
    simp only [parseLoop] at h
    cases hst : parseStep g chk s t with
    | ok s1 =>
      rw [hst] at h
      have h1 : parseLoop g chk {} (toks ++ [t]) = .ok s1 := by
        rw [loop_append _ h0]; simp only [parseLoop, hst]
      have := loop_inv ts h1 (step_inv h0 hi hst) h
      simpa using this
    | err e => rw [hst] at h; cases h
    | panic w => rw [hst] at h; cases h
    | unmodelled w => rw [hst] at h; cases h

theorem inv_init : ParseInv g chk {} [] := ⟨[], [], [], rfl, rfl, .nil, rfl, fun h => absurd rfl h⟩

/-- the invariant holds of whatever the loop reaches from the initial state -/
theorem inv_of_loop {toks : List Token} {s : PState} (h : parseLoop g chk {} toks = .ok s) : ParseInv g chk s toks := by
  simpa using loop_inv toks (toks := []) rfl inv_init h

/-- (⇒) an accepted token list derives the returned tree -/
theorem derives_of_parse {toks : List Token} {ast : List AST} (h : parseTokens g chk toks = .ok ast) :
    Derives g chk toks ast := by
  unfold parseTokens at h
  cases hl : parseLoop g chk {} toks with
  | ok s =>
    rw [hl] at h
    obtain ⟨t1, t2, t3, heq, hs, hd, hm, _⟩ := inv_of_loop hl
    obtain ⟨cur, st, mode⟩ := s
    cases mode with
    | comment o => cases h
    | raw o sl => cases h
    | normal =>
      cases st with
      | cons f fs => cases h
      | nil =>
        simp only at h; cases h
        simp only [StackInv] at hs
        simp only [ModeInv] at hm
        subst hs hm
        simp only [List.nil_append, List.append_nil] at heq
        rw [heq]; exact hd
  | err e => rw [hl] at h; cases h
  | panic w => rw [hl] at h; cases h
  | unmodelled w => rw [hl] at h; cases h

/-- (⇐) a derivable token list is accepted, with the derived tree -/
theorem parse_of_derives (ok : g.OK = true) {toks : List Token} {ast : List AST} (h : Derives g chk toks ast) :
    parseTokens g chk toks = .ok ast := by
  have := loop_derives ok h [] [] []
  simp only [List.append_nil] at this
  unfold parseTokens
  have e : ({} : PState) = ⟨[], [], .normal⟩ := rfl
  rw [e, this]
  simp [parseLoop]

/-! ## The pop is guarded; the only errors of a step are `objSyntax` and `notInside`, at the token -/

/-- the result of a step on `t` is a state, or one of the two step errors located at `t` -/
def stepGood (t : Token) : Res PErr PState → Bool
  | .ok _ => true
  | .err e => e.line == t.line && (match e.kind with | .notInside => true | .objSyntax _ => true | _ => false)
  | _ => false

theorem step_good (s : PState) (t : Token) : stepGood t (parseStep g chk s t) = true := by
  obtain ⟨cur, st, mode⟩ := s
  cases mode with
  | comment o => simp only [parseStep]; split <;> rfl
  | raw o sl => simp only [parseStep]; split <;> rfl
  | normal =>
    simp only [parseStep]
    split
    · split
      · simp [stepGood]
      · rfl
    · rfl
    · rfl
    · rfl
    · split
      · rfl
      · next cs hcs =>
        split
        · rfl
        · split
          · rfl
          · split
            · simp [stepGood]
            · next hp =>
              cases cs with
              | start n => rfl
              | clause n ps =>
                cases st with
                | nil => simp [parentOk] at hp
                | cons f fs => simp only; split <;> rfl
              | end_ n sn =>
                cases st with
                | nil => simp [parentOk] at hp
                | cons f fs => rfl

theorem step_no_panic (s : PState) (t : Token) : (parseStep g chk s t).isPanic = false := by
  have := step_good (g := g) (chk := chk) s t
  cases h : parseStep g chk s t <;> simp_all [stepGood, Res.isPanic]

/-- the result of the loop is a state or a step error -/
def loopGood : Res PErr PState → Bool
  | .ok _ => true
  | .err e => (match e.kind with | .notInside => true | .objSyntax _ => true | _ => false)
  | _ => false

theorem loop_good : ∀ (ts : List Token) (s : PState), loopGood (parseLoop g chk s ts) = true
  | [], _ => rfl
  | t :: ts, s => by
    simp only [parseLoop]
    have := step_good (g := g) (chk := chk) s t
    cases hst : parseStep g chk s t with
    | ok s1 => exact loop_good ts s1
    | err e => rw [hst] at this; simp only [stepGood, Bool.and_eq_true] at this; exact this.2
    | panic w => rw [hst] at this; cases this
    | unmodelled w => rw [hst] at this; cases this
end loops

/-! ## End of input inside a block / comment / raw; the first error -/

section unterminated
variable {g : Grammar} {chk : Bytes → Option Cause}

/-- the interior of a block that has not been closed: a body and clauses, all well nested -/
def BlockInterior (g : Grammar) (chk : Bytes → Option Cause) (o : Token) (inner : List Token) : Prop :=
  ∃ (body : List Token) (bns : List AST) (segs : List Seg), Derives g chk body bns ∧
    (∀ sg ∈ segs, g.isClauseOf o sg.1 = true) ∧ (∀ sg ∈ segs, Derives g chk sg.2.1 sg.2.2) ∧
    inner = body ++ segToks segs

/-- a prefix the parser has consumed without error, ending outside comment/raw -/
def Viable (g : Grammar) (chk : Bytes → Option Cause) (pre : List Token) : Prop :=
  ∃ s, parseLoop g chk {} pre = .ok s ∧ s.mode = .normal

/-- a failing loop fails at one definite token, after a prefix it has consumed -/
theorem loop_err_split : ∀ (ts : List Token) (s : PState) (e : PErr), parseLoop g chk s ts = .err e →
    ∃ pre t rest s1, ts = pre ++ t :: rest ∧ parseLoop g chk s pre = .ok s1 ∧ parseStep g chk s1 t = .err e
  | [], _, _, h => by simp only [parseLoop] at h; cases h
  | t :: ts, s, e, h => by
    simp only [parseLoop] at h
    cases hst : parseStep g chk s t with
    | ok s1 =>
      rw [hst] at h
      obtain ⟨pre, t', rest, s2, h1, h2, h3⟩ := loop_err_split ts s1 e h
      exact ⟨t :: pre, t', rest, s2, by simp [h1], by simp only [parseLoop, hst]; exact h2, h3⟩
    | err e' => rw [hst] at h; cases h; exact ⟨[], t, ts, s, rfl, rfl, hst⟩
    | panic w => rw [hst] at h; cases h
    | unmodelled w => rw [hst] at h; cases h

/-- a step fails only outside comment/raw, on an object that `chk` rejects or on a tag -/
theorem step_err_cases {s : PState} {t : Token} {e : PErr} (h : parseStep g chk s t = .err e) :
    s.mode = .normal ∧ e.line = t.line ∧
      ((t.ty = .obj ∧ ∃ c, chk t.args = some c ∧ e.kind = .objSyntax c) ∨ (t.ty = .tag ∧ e.kind = .notInside)) := by
  obtain ⟨cur, st, mode⟩ := s
  cases mode with
  | comment o => simp only [parseStep] at h; split at h <;> cases h
  | raw o sl => simp only [parseStep] at h; split at h <;> cases h
  | normal =>
    refine ⟨rfl, ?_⟩
    cases ht : t.ty with
    | text => rw [step_text ht] at h; cases h
    | trimL => rw [step_trimL ht] at h; cases h
    | trimR => rw [step_trimR ht] at h; cases h
    | obj =>
      cases hc : chk t.args with
      | none => rw [step_obj ht hc] at h; cases h
      | some c => rw [step_obj_err ht hc] at h; cases h; exact ⟨rfl, .inl ⟨rfl, c, rfl, rfl⟩⟩
    | tag =>
      have hg := step_good (g := g) (chk := chk) ⟨cur, st, .normal⟩ t
      rw [h] at hg
      simp only [stepGood, Bool.and_eq_true, beq_iff_eq] at hg
      refine ⟨hg.1, .inr ⟨rfl, ?_⟩⟩
      obtain ⟨k, l⟩ := e
      cases k with
      | notInside => rfl
      | objSyntax c =>
        exfalso
        simp only [parseStep, ht] at h
        split at h
        · cases h
        · split at h
          · cases h
          · split at h
            · cases h
            · split at h
              · cases h
              · split at h <;> first | cases h | (split at h <;> cases h)
      | unterminated => cases hg.2
      | tagSyntax c => cases hg.2
      | undefinedTag => cases hg.2

theorem loop_open_clauses (ok : g.OK = true) {o : Token} (fs : List Frame) :
    ∀ (segs : List Seg), (∀ sg ∈ segs, g.isClauseOf o sg.1 = true) → (∀ sg ∈ segs, Derives g chk sg.2.1 sg.2.2) →
    ∀ (f : Frame) (cur : List AST), f.tok = o →
    ∃ (f' : Frame) (cur' : List AST), f'.tok = o ∧
      parseLoop g chk ⟨cur, f :: fs, .normal⟩ (segToks segs) = .ok ⟨cur', f' :: fs, .normal⟩
  | [], _, _, f, cur, hf => ⟨f, cur, hf, rfl⟩
  | (c, ts, ns) :: r, hc, hd, f, cur, hf => by
    have hcl := hc _ (List.mem_cons_self ..)
    rw [← hf] at hcl
    simp only [segToks]
    rw [loop_cons_ok (step_clause ok hcl)]
    have h1 := loop_derives ok (hd _ (List.mem_cons_self ..)) [] (
      (match f.cur with
        | none => { f with body := some cur.reverse, cur := some c }
        | some c0 => { f with clauses := (c0, cur.reverse) :: f.clauses, cur := some c }) :: fs) (segToks r)
    rw [h1]
    apply loop_open_clauses ok fs r (fun sg h => hc sg (List.mem_cons_of_mem _ h)) (fun sg h => hd sg (List.mem_cons_of_mem _ h))
    cases f.cur <;> exact hf
end unterminated
