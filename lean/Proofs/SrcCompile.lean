import Proofs.C19E2E
import Proofs.C05Spell
/-!
# Source-level helpers: how `compileTokens` composes

`compileTokens toks = .ok ns` ("the token list is a self-contained template compiling to `ns`") is the
predicate the source-level theorems (`Proofs/C10Source.lean` …) put on the pieces of a template: it says
that the piece is well nested on its own (every block opened in it is closed in it), every object holds
an expression, every tag compiles. This file proves that such pieces compose: sequences, and the bodies
of `if`/`unless`/`capture`/`for` blocks.
-/

theorem compileTokens_ok {toks : List Token} {ns : List Node} (h : compileTokens toks = .ok ns) :
    firstUnmodelledObj toks = none ∧ ∃ ast, Derives stdGrammar objChk toks ast ∧ compileList ast = .ok ns := by
  unfold compileTokens at h
  split at h
  · cases h
  · next hU =>
    refine ⟨hU, ?_⟩
    cases hp : parseTokens stdGrammar objChk toks with
    | ok ast =>
      rw [hp] at h
      exact ⟨ast, derives_of_parse hp, by simpa [liftPErr, bind, Res.bind] using h⟩
    | err e => rw [hp] at h; simp [liftPErr, bind, Res.bind] at h
    | panic w => rw [hp] at h; simp [liftPErr, bind, Res.bind] at h
    | unmodelled w => rw [hp] at h; simp [liftPErr, bind, Res.bind] at h

theorem compileTokens_of_derives {toks : List Token} {ast : List AST} (hU : firstUnmodelledObj toks = none)
    (h : Derives stdGrammar objChk toks ast) : compileTokens toks = compileList ast :=
  compileTokens_of_parse hU (parse_of_derives stdGrammar_OK h)

theorem compileList_append : ∀ (a b : List AST),
    compileList (a ++ b) = (do let x ← compileList a; let y ← compileList b; pure (x ++ y))
  | [], b => by
    simp only [List.nil_append, compileList, bind, Res.bind, pure]
    cases compileList b <;> simp []
  | n :: ns, b => by
    simp only [List.cons_append, compileList, compileList_append ns b, bind, Res.bind, pure]
    cases compileNode n with
    | ok x =>
      simp only
      cases compileList ns with
      | ok y =>
        simp only
        cases compileList b <;> simp []
      | err e => rfl
      | panic w => rfl
      | unmodelled w => rfl
    | err e => rfl
    | panic w => rfl
    | unmodelled w => rfl

theorem compileList_single (n : AST) : compileList [n] = compileNode n := by
  simp only [compileList, bind, Res.bind, pure]
  cases compileNode n <;> simp []

/-- sequences of self-contained pieces compile to the concatenation -/
theorem compiles_append {a b : List Token} {na nb : List Node}
    (ha : compileTokens a = .ok na) (hb : compileTokens b = .ok nb) : compileTokens (a ++ b) = .ok (na ++ nb) := by
  obtain ⟨hUa, astA, hdA, hcA⟩ := compileTokens_ok ha
  obtain ⟨hUb, astB, hdB, hcB⟩ := compileTokens_ok hb
  have hU : firstUnmodelledObj (a ++ b) = none := by rw [firstUnmodelledObj_append, hUa, hUb]
  rw [compileTokens_of_derives hU (hdA.append hdB), compileList_append, hcA, hcB]
  rfl

theorem compiles_nil : compileTokens [] = .ok [] := by
  rw [compileTokens_of_derives rfl .nil]; rfl

/-! ## Leaves -/

theorem compiles_text (t : Token) (h : t.ty = .text) : compileTokens [t] = .ok [.text t.line t.source] := by
  rw [compileTokens_of_derives (firstUnmodelledObj_none_of_no_obj _ (by simp [h])) (.text t [] [] h .nil), compileList_text]

theorem compiles_trimL (t : Token) (h : t.ty = .trimL) : compileTokens [t] = .ok [.trim true] := by
  rw [compileTokens_of_derives (firstUnmodelledObj_none_of_no_obj _ (by simp [h])) (.trimL t [] [] h .nil)]
  simp [compileList, compileNode, bind, Res.bind, pure]

theorem compiles_trimR (t : Token) (h : t.ty = .trimR) : compileTokens [t] = .ok [.trim false] := by
  rw [compileTokens_of_derives (firstUnmodelledObj_none_of_no_obj _ (by simp [h])) (.trimR t [] [] h .nil)]
  simp [compileList, compileNode, bind, Res.bind, pure]

theorem compiles_obj (t : Token) (e : Expr) (h : t.ty = .obj) (he : parseExprSource t.args = .ok e) :
    compileTokens [t] = .ok [.obj t.line e] := by
  have hU : firstUnmodelledObj [t] = none := by simp [firstUnmodelledObj, h, he]
  rw [compileTokens_of_derives hU (.obj t [] [] h (by simp [objChk, he]) .nil), compileList_single]
  simp [compileNode, he]

theorem isPlain_of_name {t : Token} (h : t.ty = .tag) (hk : stdGrammar.known t.name = false) : stdGrammar.isPlain t = true := by
  simp [Grammar.isPlain, h, hk]

/-- a plain (non-block) tag: its compilation is that of the tag node -/
theorem compileTokens_plain (t : Token) (h : t.ty = .tag) (hk : stdGrammar.known t.name = false) :
    compileTokens [t] = compileNode (.tag t) := by
  rw [compileTokens_of_derives (firstUnmodelledObj_none_of_no_obj _ (by simp [h])) (.tag t [] [] (isPlain_of_name h hk) .nil),
    compileList_single]

/-! ## Blocks -/

theorem isOpen_of_name {o : Token} (h : o.ty = .tag) (hb : stdGrammar.isBlock o.name = true)
    (h1 : o.name ≠ commentName) (h2 : o.name ≠ rawName) : stdGrammar.isOpen o = true := by
  simp [Grammar.isOpen, h, hb, h1, h2]

theorem isEndOf_of_name {o e : Token} (h : e.ty = .tag) (hn : e.name = endPrefix ++ o.name) : isEndOf o e = true := by
  simp [isEndOf, h, hn]

/-- a block without clauses around a self-contained body -/
theorem compileTokens_block0 (o e : Token) (body : List Token) (nb : List Node)
    (ho : stdGrammar.isOpen o = true) (he : isEndOf o e = true) (hoty : o.ty = .tag) (hety : e.ty = .tag)
    (hb : compileTokens body = .ok nb) :
    ∃ ast, compileList ast = .ok nb ∧
      compileTokens (o :: (body ++ [e])) = compileNode (.block o ast []) := by
  obtain ⟨hUb, ast, hd, hc⟩ := compileTokens_ok hb
  refine ⟨ast, hc, ?_⟩
  have hU : firstUnmodelledObj (o :: (body ++ [e])) = none := by
    rw [firstUnmodelledObj_tag _ _ hoty, firstUnmodelledObj_append, hUb]
    simp [firstUnmodelledObj, hety]
  have hder := Derives.block (g := stdGrammar) (chk := objChk) o e body ast [] [] [] ho hd (by simp) (by simp) he .nil
  simp only [segToks, segASTs, List.nil_append] at hder
  rw [compileTokens_of_derives hU hder, compileList_single]

/-- a block with one clause (`else`) -/
theorem compileTokens_block1 (o c e : Token) (body cbody : List Token) (nb nc : List Node)
    (ho : stdGrammar.isOpen o = true) (hc : stdGrammar.isClauseOf o c = true) (he : isEndOf o e = true)
    (hoty : o.ty = .tag) (hcty : c.ty = .tag) (hety : e.ty = .tag)
    (hb : compileTokens body = .ok nb) (hcb : compileTokens cbody = .ok nc) :
    ∃ ast cast, compileList ast = .ok nb ∧ compileList cast = .ok nc ∧
      compileTokens (o :: (body ++ (c :: (cbody ++ [e])))) = compileNode (.block o ast [(c, cast)]) := by
  obtain ⟨hUb, ast, hd, hcm⟩ := compileTokens_ok hb
  obtain ⟨hUc, cast, hdc, hcc⟩ := compileTokens_ok hcb
  refine ⟨ast, cast, hcm, hcc, ?_⟩
  have hU : firstUnmodelledObj (o :: (body ++ (c :: (cbody ++ [e])))) = none := by
    rw [firstUnmodelledObj_tag _ _ hoty, firstUnmodelledObj_append, hUb]
    simp only
    rw [firstUnmodelledObj_tag _ _ hcty, firstUnmodelledObj_append, hUc]
    simp [firstUnmodelledObj, hety]
  have hder := Derives.block (g := stdGrammar) (chk := objChk) o e body ast [(c, cbody, cast)] [] [] ho hd
    (by intro sg hsg; simp only [List.mem_singleton] at hsg; subst hsg; exact hc)
    (by intro sg hsg; simp only [List.mem_singleton] at hsg; subst hsg; exact hdc) he .nil
  simp only [segToks, segASTs, List.append_nil] at hder
  have e1 : c :: cbody ++ [e] = c :: (cbody ++ [e]) := rfl
  rw [e1] at hder
  rw [compileTokens_of_derives hU hder, compileList_single]

/-! ## The compiled node of `if`/`unless` blocks -/

theorem compileClauses_one (c : Token) (cast : List AST) (nc : List Node) (h : compileList cast = .ok nc) :
    compileClauses [(c, cast)] = .ok [(c, nc)] := by
  simp [compileClauses, h, bind, Res.bind, pure]

theorem compileNode_if0 (o : Token) (ast : List AST) (nb : List Node) (hn : o.name = nmIf ∨ o.name = nmUnless)
    (hb : compileList ast = .ok nb) :
    compileNode (.block o ast []) =
      (liftParse o.line true (parseExprSource o.args)).bind fun ex =>
        .ok [.ifB o.line [(if o.name == nmIf then .expr o.line ex else .notExpr o.line ex, nb)]] := by
  have hh : (o.name == nmIf || o.name == nmUnless) = true := by rcases hn with h | h <;> simp [h]
  simp only [compileNode, hb, compileClauses, bind, Res.bind, hh, if_true]
  cases liftParse o.line true (parseExprSource o.args) <;> simp [compileIfClauseTests, pure]

theorem compileNode_if1 (o c : Token) (ast cast : List AST) (nb nc : List Node) (hn : o.name = nmIf ∨ o.name = nmUnless)
    (hcn : c.name = nmElse) (hb : compileList ast = .ok nb) (hc : compileList cast = .ok nc) :
    compileNode (.block o ast [(c, cast)]) =
      (liftParse o.line true (parseExprSource o.args)).bind fun ex =>
        .ok [.ifB o.line [(if o.name == nmIf then .expr o.line ex else .notExpr o.line ex, nb), (.always, nc)]] := by
  have hh : (o.name == nmIf || o.name == nmUnless) = true := by rcases hn with h | h <;> simp [h]
  have hne : (c.name == nmElsif) = false := by rw [hcn]; decide
  simp only [compileNode, hb, compileClauses_one c cast nc hc, bind, Res.bind, hh, if_true]
  cases liftParse o.line true (parseExprSource o.args) <;>
    simp [compileIfClauseTests, hne, pure, bind, Res.bind]

/-! ## Rendering a root made of one node: only the node's interaction tree matters -/

theorem runRoot_single_congr (P : Prims) (O : OutPrims) (cfg : Cfg) (fs : FS) (fuel : Nat) (n m : Node) (env : Env)
    (h : renderNode (mkCtx P O cfg fs fuel) n { env := env, tw := {} } =
         renderNode (mkCtx P O cfg fs fuel) m { env := env, tw := {} }) :
    runRoot P O cfg fs fuel [n] env = runRoot P O cfg fs fuel [m] env := by
  unfold runRoot
  rw [frender_single, frender_single, h]
