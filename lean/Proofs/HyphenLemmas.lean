import Proofs.HyphenTrace
/-!
# Hyphens at template level: definitions and the paired-trace calculus (helpers for C13)

A whitespace-control hyphen is a `.trim` node of the compiled tree (`Node.trim true` = `{{-`/`{%-`,
`Node.trim false` = `-}}`/`-%}`). `stripTrims` removes every such node at every depth of one
source (an included file is a separate source and is not touched).

The render of a tree does not look at the trim writer (`Proofs/RunLemmas.lean`, `Traced`): from
given variables it performs a fixed list of trim-writer operations and ends with a fixed result.
`GPair R m m'` says that two renders `m`, `m'` end, from every variable map, with the SAME result
after operation lists related by `R`. The combinators below build such pairs along the structure
of the renderer; `Proofs/HyphenLemmas2.lean` instantiates them with
`R ops ops' := ops' = eraseTrims ops` for a tree and its hyphen-free version.
-/

/-! ## The hyphen-free tree -/

mutual
/-- the node with the hyphens of its bodies removed (a `.trim` node itself is removed by `stripTrims`) -/
def stripNode : Node → Node
  | .text l s => .text l s
  | .obj l e => .obj l e
  | .raw sl => .raw sl
  | .trim b => .trim b
  | .assign l x e => .assign l x e
  | .capture l x body => .capture l x (stripTrims body)
  | .ifB l bs => .ifB l (stripBranches bs)
  | .caseB l s cs => .caseB l s (stripCases cs)
  | .loop l t v e m body cls => .loop l t v e m (stripTrims body) (stripClauses cls)
  | .cycle l g v0 r => .cycle l g v0 r
  | .brk l => .brk l
  | .cont l => .cont l
  | .incl l a => .incl l a
/-- remove every `.trim` node, at every depth -/
def stripTrims : List Node → List Node
  | [] => []
  | n :: ns =>
    match n with
    | .trim _ => stripTrims ns
    | n => stripNode n :: stripTrims ns
def stripBranches : List (CondT × List Node) → List (CondT × List Node)
  | [] => []
  | (t, body) :: rest => (t, stripTrims body) :: stripBranches rest
def stripCases : List (Option (Nat × List Expr) × List Node) → List (Option (Nat × List Expr) × List Node)
  | [] => []
  | (w, body) :: rest => (w, stripTrims body) :: stripCases rest
def stripClauses : List (List Node) → List (List Node)
  | [] => []
  | body :: rest => stripTrims body :: stripClauses rest
end

mutual
/-- does a `.trim` node occur, at any depth? -/
def hasTrimNode : Node → Bool
  | .text _ _ => false
  | .obj _ _ => false
  | .raw _ => false
  | .trim _ => true
  | .assign _ _ _ => false
  | .capture _ _ body => hasTrim body
  | .ifB _ bs => hasTrimBranches bs
  | .caseB _ _ cs => hasTrimCases cs
  | .loop _ _ _ _ _ body cls => hasTrim body || hasTrimClauses cls
  | .cycle _ _ _ _ => false
  | .brk _ => false
  | .cont _ => false
  | .incl _ _ => false
def hasTrim : List Node → Bool
  | [] => false
  | n :: ns => hasTrimNode n || hasTrim ns
def hasTrimBranches : List (CondT × List Node) → Bool
  | [] => false
  | (_, body) :: rest => hasTrim body || hasTrimBranches rest
def hasTrimCases : List (Option (Nat × List Expr) × List Node) → Bool
  | [] => false
  | (_, body) :: rest => hasTrim body || hasTrimCases rest
def hasTrimClauses : List (List Node) → Bool
  | [] => false
  | body :: rest => hasTrim body || hasTrimClauses rest
end

mutual
/-- no `.trim` node occurs inside the body of a `capture` block (at any depth) -/
def capTrimFreeNode : Node → Bool
  | .text _ _ => true
  | .obj _ _ => true
  | .raw _ => true
  | .trim _ => true
  | .assign _ _ _ => true
  | .capture _ _ body => !hasTrim body
  | .ifB _ bs => capTrimFreeBranches bs
  | .caseB _ _ cs => capTrimFreeCases cs
  | .loop _ _ _ _ _ body cls => capTrimFree body && capTrimFreeClauses cls
  | .cycle _ _ _ _ => true
  | .brk _ => true
  | .cont _ => true
  | .incl _ _ => true
def capTrimFree : List Node → Bool
  | [] => true
  | n :: ns => capTrimFreeNode n && capTrimFree ns
def capTrimFreeBranches : List (CondT × List Node) → Bool
  | [] => true
  | (_, body) :: rest => capTrimFree body && capTrimFreeBranches rest
def capTrimFreeCases : List (Option (Nat × List Expr) × List Node) → Bool
  | [] => true
  | (_, body) :: rest => capTrimFree body && capTrimFreeCases rest
def capTrimFreeClauses : List (List Node) → Bool
  | [] => true
  | body :: rest => capTrimFree body && capTrimFreeClauses rest
end

mutual
/-- the literal chunks a tree can write: texts, raw slices, the values of `cycle` tags -/
def litNode : Node → List Bytes
  | .text _ s => [s]
  | .obj _ _ => []
  | .raw sl => sl
  | .trim _ => []
  | .assign _ _ _ => []
  | .capture _ _ body => litChunks body
  | .ifB _ bs => litBranches bs
  | .caseB _ _ cs => litCases cs
  | .loop _ _ _ _ _ body cls => litChunks body ++ litClauses cls
  | .cycle _ _ v0 r => v0 :: r
  | .brk _ => []
  | .cont _ => []
  | .incl _ _ => []
def litChunks : List Node → List Bytes
  | [] => []
  | n :: ns => litNode n ++ litChunks ns
def litBranches : List (CondT × List Node) → List Bytes
  | [] => []
  | (_, body) :: rest => litChunks body ++ litBranches rest
def litCases : List (Option (Nat × List Expr) × List Node) → List Bytes
  | [] => []
  | (_, body) :: rest => litChunks body ++ litCases rest
def litClauses : List (List Node) → List Bytes
  | [] => []
  | body :: rest => litChunks body ++ litClauses rest
end

/-- the chunks a `tablerow` loop writes around its cells -/
def DecoChunk (b : Bytes) : Prop :=
  (∃ n, b = bs "<tr class=\"row" ++ natBytes n ++ bs "\">") ∨ (∃ n, b = bs "<td class=\"col" ++ natBytes n ++ bs "\">") ∨
  b = bs "</td>" ∨ b = bs "</tr>"

/-- every chunk the context can contribute to the output satisfies `W`: the chunks of printed
    values, the text an `include` hands back, the decoration of `tablerow` — and the empty chunk
    (the empty `Write` with which `WriteVerbatim` drops a pending right trim before a value or a raw
    body) -/
structure CtxChunks (W : Bytes → Prop) (c : RCtx) : Prop where
  emp : W []
  obj : ∀ v cs, c.O.chunks v = .ok cs → ∀ b ∈ cs, W b
  inc : ∀ line f env out, c.inc line f env = .ret (.done, out) → W out
  deco : ∀ b, DecoChunk b → W b

/-! ## a tree without hyphens is its own hyphen-free version -/

mutual
theorem stripNode_of_noTrim : ∀ n : Node, hasTrimNode n = false → stripNode n = n
  | .text _ _, _ => by simp [stripNode]
  | .obj _ _, _ => by simp [stripNode]
  | .raw _, _ => by simp [stripNode]
  | .trim _, _ => by simp [stripNode]
  | .assign _ _ _, _ => by simp [stripNode]
  | .capture _ _ body, h => by
    simp only [hasTrimNode] at h
    simp [stripNode, stripTrims_of_noTrim body h]
  | .ifB _ bs, h => by
    simp only [hasTrimNode] at h
    simp [stripNode, stripBranches_of_noTrim bs h]
  | .caseB _ _ cs, h => by
    simp only [hasTrimNode] at h
    simp [stripNode, stripCases_of_noTrim cs h]
  | .loop _ _ _ _ _ body cls, h => by
    simp only [hasTrimNode, Bool.or_eq_false_iff] at h
    simp [stripNode, stripTrims_of_noTrim body h.1, stripClauses_of_noTrim cls h.2]
  | .cycle _ _ _ _, _ => by simp [stripNode]
  | .brk _, _ => by simp [stripNode]
  | .cont _, _ => by simp [stripNode]
  | .incl _ _, _ => by simp [stripNode]
theorem stripTrims_of_noTrim : ∀ ns : List Node, hasTrim ns = false → stripTrims ns = ns
  | [], _ => by simp [stripTrims]
  | n :: ns, h => by
    simp only [hasTrim, Bool.or_eq_false_iff] at h
    have h1 := stripNode_of_noTrim n h.1
    have h2 := stripTrims_of_noTrim ns h.2
    cases n with
    | trim b => simp [hasTrimNode] at h
    | _ => simp only [stripTrims, h2]; rw [h1]
theorem stripBranches_of_noTrim : ∀ bs : List (CondT × List Node), hasTrimBranches bs = false → stripBranches bs = bs
  | [], _ => by simp [stripBranches]
  | (t, body) :: rest, h => by
    simp only [hasTrimBranches, Bool.or_eq_false_iff] at h
    simp [stripBranches, stripTrims_of_noTrim body h.1, stripBranches_of_noTrim rest h.2]
theorem stripCases_of_noTrim : ∀ cs : List (Option (Nat × List Expr) × List Node), hasTrimCases cs = false →
    stripCases cs = cs
  | [], _ => by simp [stripCases]
  | (w, body) :: rest, h => by
    simp only [hasTrimCases, Bool.or_eq_false_iff] at h
    simp [stripCases, stripTrims_of_noTrim body h.1, stripCases_of_noTrim rest h.2]
theorem stripClauses_of_noTrim : ∀ cls : List (List Node), hasTrimClauses cls = false → stripClauses cls = cls
  | [], _ => by simp [stripClauses]
  | body :: rest, h => by
    simp only [hasTrimClauses, Bool.or_eq_false_iff] at h
    simp [stripClauses, stripTrims_of_noTrim body h.1, stripClauses_of_noTrim rest h.2]
end

/-! ## Quiet actions: no trim-writer operation at all -/

/-- `m` performs no trim-writer operation, whatever the variables -/
def Quiet {α} (m : M α) : Prop := ∀ env, ∃ o, TracedAtL m env [] o

theorem quiet_bind {α β} {m : M α} {f : α → M β} (hm : Quiet m) (hf : ∀ a, Quiet (f a)) : Quiet (m >>= f) := by
  intro env
  obtain ⟨o1, h1⟩ := hm env
  cases o1 with
  | ok a env1 =>
    obtain ⟨o2, h2⟩ := hf a env1
    exact ⟨o2, by simpa using tracedAtL_bind_ok h1 h2⟩
  | err e => exact ⟨.err e, tracedAtL_bind_err h1⟩
  | panic w => exact ⟨.panic w, tracedAtL_bind_panic h1⟩
  | unmodelled w => exact ⟨.unmodelled w, tracedAtL_bind_unmodelled h1⟩

theorem quiet_pure {α} (a : α) : Quiet (pure a : M α) := fun env => ⟨.ok a env, fun _ => rfl⟩
theorem quiet_fail {α} (e : RawErr) : Quiet (M.fail e : M α) := fun _ => ⟨.err e, fun _ => rfl⟩
theorem quiet_getEnv : Quiet M.getEnv := fun env => ⟨.ok env env, fun _ => rfl⟩
theorem quiet_setVar (x : Bytes) (v : GoVal) : Quiet (M.setVar x v) := fun env => ⟨.ok () (env.set x v), fun _ => rfl⟩
theorem quiet_getVar (x : Bytes) : Quiet (M.getVar x) := fun env => ⟨.ok (env.get x) env, fun _ => rfl⟩

theorem quiet_ofRes {α} (r : Res Cause α) : Quiet (M.ofRes r) := by
  intro env
  cases r with
  | ok a => exact ⟨.ok a env, fun _ => rfl⟩
  | err c => exact ⟨.err (.plain c), fun _ => rfl⟩
  | panic w => exact ⟨.panic w, fun _ => rfl⟩
  | unmodelled w => exact ⟨.unmodelled w, fun _ => rfl⟩

theorem quiet_mapFail {α} {m : M α} (g : RawErr → RawErr) (hm : Quiet m) : Quiet (M.mapFail g m) := by
  intro env
  obtain ⟨o, h⟩ := hm env
  exact ⟨o.mapErr g, tracedAtL_mapFail g h⟩

theorem quiet_wrapFailAt {α} (path : Bytes) (loc : Loc) {m : M α} (hm : Quiet m) : Quiet (wrapFailAt path loc m) :=
  quiet_mapFail _ hm

theorem quiet_wrapAt (path : Bytes) (loc : Loc) {m : M Status} (hm : Quiet m) : Quiet (wrapAt path loc m) := by
  rw [wrapAt_eq]
  exact quiet_bind (quiet_mapFail _ hm) (fun _ => quiet_pure _)

/-- a capture runs on a private writer: the outer trim writer sees nothing -/
theorem quiet_capture {α} (m : M α) : Quiet (captureM m) := by
  intro env
  rcases h : ((m { env := env, tw := {} }).bind
      (fun (a, s1) => (flushM s1).bind (fun (_, s2) => .ret (a, s2)))).runPure with ⟨out, o⟩
  cases o with
  | ok r =>
    obtain ⟨a, s2⟩ := r
    refine ⟨.ok (a, out) s2.env, fun tw => ?_⟩
    simp only [captureM, h]; rfl
  | err e =>
    refine ⟨.err e, fun tw => ?_⟩
    simp only [captureM, h]; rfl
  | panic w =>
    refine ⟨.panic w, fun tw => ?_⟩
    simp only [captureM, h]; rfl
  | unmodelled w =>
    refine ⟨.unmodelled w, fun tw => ?_⟩
    simp only [captureM, h]; rfl

theorem quiet_evalCond (P : Prims) (path : Bytes) (t : CondT) : Quiet (evalCond P path t) := by
  unfold evalCond
  refine quiet_bind quiet_getEnv (fun env => ?_)
  cases t with
  | always => exact quiet_pure _
  | expr line e => exact quiet_wrapFailAt _ _ (quiet_bind (quiet_ofRes _) (fun _ => quiet_pure _))
  | notExpr line e => exact quiet_wrapFailAt _ _ (quiet_bind (quiet_ofRes _) (fun _ => quiet_pure _))

theorem quiet_intModifier (P : Prims) (e : Option Expr) (loc : Loc) : Quiet (intModifier P e loc) := by
  unfold intModifier
  cases e with
  | none => exact quiet_pure _
  | some ex =>
    refine quiet_bind quiet_getEnv (fun env => quiet_bind (quiet_ofRes _) (fun v => ?_))
    split
    · exact quiet_pure _
    · exact quiet_fail _

theorem quiet_restore (var : Bytes) (a b : GoVal) : Quiet (restoreLoopVars var a b) := by
  unfold restoreLoopVars
  exact quiet_bind (quiet_setVar _ _) (fun _ => quiet_setVar _ _)

theorem quiet_tablerowCols (P : Prims) (tr : Bool) (cols : Option Expr) (loc : Loc) :
    Quiet (tablerowCols P tr cols loc) := by
  unfold tablerowCols
  split
  · refine quiet_bind (quiet_intModifier _ _ _) (fun cv => ?_)
    cases cv <;> exact quiet_pure _
  · exact quiet_pure _

theorem quiet_whenMatches (c : RCtx) (sel : GoVal) : ∀ es : List Expr, Quiet (whenMatches c sel es)
  | [] => by unfold whenMatches; exact quiet_pure _
  | e :: es => by
    unfold whenMatches
    refine quiet_bind quiet_getEnv (fun env => quiet_bind (quiet_ofRes _) (fun v => quiet_bind (quiet_ofRes _) (fun eq => ?_)))
    split
    · exact quiet_pure _
    · exact quiet_whenMatches c sel es

/-! ## Paired traces -/

/-- from every variable map, `m` and `m'` end with the same result, after operation lists related by `R` -/
def GPair {α} (R : List WOp → List WOp → Prop) (m m' : M α) : Prop :=
  ∀ env, ∃ ops ops' o, TracedAtL m env ops o ∧ TracedAtL m' env ops' o ∧ R ops ops'

/-- what the calculus needs of the relation: it holds of empty lists, is compatible with
    concatenation, and relates a write of an allowed chunk (`W`) / a flush to itself -/
structure RelOK (W : Bytes → Prop) (R : List WOp → List WOp → Prop) : Prop where
  nil : R [] []
  app : ∀ {a a' b b'}, R a a' → R b b' → R (a ++ b) (a' ++ b')
  write : ∀ b, W b → R [.write b] [.write b]
  flush : R [.flush] [.flush]

section pair
variable {W : Bytes → Prop} {R : List WOp → List WOp → Prop}

theorem gpair_quiet {α} (hR : RelOK W R) {m : M α} (hq : Quiet m) : GPair R m m := by
  intro env
  obtain ⟨o, h⟩ := hq env
  exact ⟨[], [], o, h, h, hR.nil⟩

theorem gpair_bind {α β} (hR : RelOK W R) {m m' : M α} {f f' : α → M β} (hm : GPair R m m')
    (hf : ∀ a, GPair R (f a) (f' a)) : GPair R (m >>= f) (m' >>= f') := by
  intro env
  obtain ⟨ops1, ops1', o1, h1, h1', r1⟩ := hm env
  cases o1 with
  | ok a env1 =>
    obtain ⟨ops2, ops2', o2, h2, h2', r2⟩ := hf a env1
    exact ⟨ops1 ++ ops2, ops1' ++ ops2', o2, tracedAtL_bind_ok h1 h2, tracedAtL_bind_ok h1' h2', hR.app r1 r2⟩
  | err e => exact ⟨ops1, ops1', .err e, tracedAtL_bind_err h1, tracedAtL_bind_err h1', r1⟩
  | panic w => exact ⟨ops1, ops1', .panic w, tracedAtL_bind_panic h1, tracedAtL_bind_panic h1', r1⟩
  | unmodelled w => exact ⟨ops1, ops1', .unmodelled w, tracedAtL_bind_unmodelled h1, tracedAtL_bind_unmodelled h1', r1⟩

theorem gpair_mapFail {α} {m m' : M α} (g : RawErr → RawErr) (hm : GPair R m m') :
    GPair R (M.mapFail g m) (M.mapFail g m') := by
  intro env
  obtain ⟨ops, ops', o, h, h', r⟩ := hm env
  exact ⟨ops, ops', o.mapErr g, tracedAtL_mapFail g h, tracedAtL_mapFail g h', r⟩

theorem gpair_wrapFailAt {α} (path : Bytes) (loc : Loc) {m m' : M α} (hm : GPair R m m') :
    GPair R (wrapFailAt path loc m) (wrapFailAt path loc m') := gpair_mapFail _ hm

theorem gpair_wrapAt (hR : RelOK W R) (path : Bytes) (loc : Loc) {m m' : M Status} (hm : GPair R m m') :
    GPair R (wrapAt path loc m) (wrapAt path loc m') := by
  rw [wrapAt_eq, wrapAt_eq]
  exact gpair_bind hR (gpair_mapFail _ hm) (fun _ => gpair_quiet hR (quiet_pure _))

theorem gpair_write (hR : RelOK W R) (b : Bytes) (hb : W b) : GPair R (writeM b) (writeM b) :=
  fun env => ⟨_, _, _, tracedAtL_write b env, tracedAtL_write b env, hR.write b hb⟩

theorem gpair_flush (hR : RelOK W R) : GPair R flushM flushM :=
  fun env => ⟨_, _, _, tracedAtL_flush env, tracedAtL_flush env, hR.flush⟩

theorem gpair_writeVerbatim (hR : RelOK W R) (h0 : W []) (b : Bytes) (hb : W b) :
    GPair R (writeVerbatimM b) (writeVerbatimM b) := by
  unfold writeVerbatimM
  exact gpair_bind hR (gpair_write hR [] h0) (fun _ => gpair_bind hR (gpair_write hR b hb) (fun _ => gpair_flush hR))

theorem gpair_writeAll (hR : RelOK W R) (h0 : W []) : ∀ cs : List Bytes, (∀ b ∈ cs, W b) → GPair R (writeAllM cs) (writeAllM cs)
  | [], _ => gpair_quiet hR (quiet_pure ())
  | c :: cs, h => by
    unfold writeAllM
    exact gpair_bind hR (gpair_writeVerbatim hR h0 c (h c (by simp))) (fun _ => gpair_writeAll hR h0 cs (fun b hb => h b (by simp [hb])))

theorem gpair_tablerowBefore (hR : RelOK W R) (hd : ∀ b, DecoChunk b → W b) (cols i : Nat) :
    GPair R (tablerowBefore cols i) (tablerowBefore cols i) := by
  unfold tablerowBefore
  dsimp only
  split
  · exact gpair_bind hR (gpair_write hR _ (hd _ (.inl ⟨_, rfl⟩))) (fun _ => gpair_write hR _ (hd _ (.inr (.inl ⟨_, rfl⟩))))
  · exact gpair_bind hR (gpair_quiet hR (quiet_pure _)) (fun _ => gpair_write hR _ (hd _ (.inr (.inl ⟨_, rfl⟩))))

theorem gpair_tablerowAfter (hR : RelOK W R) (hd : ∀ b, DecoChunk b → W b) (cols i l : Nat) :
    GPair R (tablerowAfter cols i l) (tablerowAfter cols i l) := by
  unfold tablerowAfter
  refine gpair_bind hR (gpair_write hR _ (hd _ (.inr (.inr (.inl rfl))))) (fun _ => ?_)
  split
  · exact gpair_write hR _ (hd _ (.inr (.inr (.inr rfl))))
  · exact gpair_quiet hR (quiet_pure _)

theorem gpair_iterate (hR : RelOK W R) (hd : ∀ b, DecoChunk b → W b) (var : Bytes) (cols : Option Nat)
    {body body' : M Status} (hb : GPair R body body') (n : Nat) :
    ∀ xs i cyc, GPair R (iterateM var cols body n xs i cyc) (iterateM var cols body' n xs i cyc) := by
  intro xs
  induction xs with
  | nil => intro i cyc; exact gpair_quiet hR (quiet_pure _)
  | cons x xs ih =>
    intro i cyc
    unfold iterateM
    refine gpair_bind hR (gpair_quiet hR (quiet_setVar _ _)) (fun _ =>
      gpair_bind hR (gpair_quiet hR (quiet_setVar _ _)) (fun _ => ?_))
    refine gpair_bind hR ?_ (fun _ => gpair_bind hR hb (fun st => gpair_bind hR ?_ (fun _ =>
      gpair_bind hR (gpair_quiet hR (quiet_getVar _)) (fun cur => ?_))))
    · cases cols with
      | none => exact gpair_quiet hR (quiet_pure _)
      | some c => exact gpair_tablerowBefore hR hd c i
    · cases cols with
      | none => exact gpair_quiet hR (quiet_pure _)
      | some c => exact gpair_tablerowAfter hR hd c i n
    · cases st with
      | brk e => exact gpair_quiet hR (quiet_pure _)
      | done => exact ih _ _
      | cont e => exact ih _ _

theorem gpair_loopRun {budget : Int} (hR : RelOK W R) (hd : ∀ b, DecoChunk b → W b) (P : Prims) (path : Bytes) (loc : Loc) (tr : Bool)
    (var : Bytes) (e : Expr) (mods : LoopMods) {bodyM bodyM' : M Status} (hb : GPair R bodyM bodyM') (tooMany : Bool)
    (elseM elseM' : Option (M Status))
    (he : match elseM, elseM' with
      | none, none => True
      | some m, some m' => GPair R m m'
      | _, _ => False) :
    GPair R (loopRun budget P path loc tr var e mods bodyM tooMany elseM) (loopRun budget P path loc tr var e mods bodyM' tooMany elseM') := by
  unfold loopRun
  refine gpair_wrapAt hR _ _ (gpair_bind hR (gpair_quiet hR quiet_getEnv) (fun env =>
    gpair_bind hR (gpair_quiet hR (quiet_ofRes _)) (fun v =>
    gpair_bind hR (gpair_quiet hR (quiet_ofRes _)) (fun items0 =>
    gpair_bind hR (gpair_quiet hR (quiet_intModifier _ _ _)) (fun off =>
    gpair_bind hR (gpair_quiet hR (quiet_intModifier _ _ _)) (fun lim => ?_))))))
  split
  · exact gpair_quiet hR (quiet_fail _)
  · have hit : ∀ items, GPair R (loopIterate P loc tr var mods.cols bodyM items) (loopIterate P loc tr var mods.cols bodyM' items) := by
      intro items
      unfold loopIterate
      exact gpair_bind hR (gpair_quiet hR (quiet_tablerowCols _ _ _ _)) (fun cols =>
        gpair_bind hR (gpair_quiet hR (quiet_getVar _)) (fun pl =>
        gpair_bind hR (gpair_quiet hR (quiet_getVar _)) (fun pv =>
        gpair_bind hR (gpair_iterate hR hd _ _ hb _ _ _ _) (fun st =>
        gpair_bind hR (gpair_quiet hR (quiet_restore _ _ _)) (fun _ => gpair_quiet hR (quiet_pure _))))))
    generalize selectItems mods.reversed off lim items0 = items
    cases elseM with
    | none =>
      cases elseM' with
      | none =>
        have e1 : ∀ b, loopDispatch P loc tr var mods.cols b none items = loopIterate P loc tr var mods.cols b items := by
          intro b; unfold loopDispatch; cases items <;> rfl
        rw [e1, e1]; exact hit items
      | some m' => exact absurd he (by simp)
    | some m =>
      cases elseM' with
      | none => exact absurd he (by simp)
      | some m' =>
        cases items with
        | nil => exact he
        | cons x xs => exact hit (x :: xs)

/-- the include handler's result does not touch the trim writer; a normal end writes the text -/
theorem quiet_inc (c : RCtx) (hc : IncQuiet c) (line : Nat) (f : Bytes) (env0 : Env) :
    Quiet (fun s => (c.inc line f env0).bind (fun r => .ret (r, s)) : M (Status × Bytes)) := by
  intro env
  have hq := hc line f env0
  cases h : c.inc line f env0 with
  | ret r => exact ⟨.ok r env, fun tw => by simp [Prog.bind, Prog.runLog, TW.run, EOut.withTw]⟩
  | fail e => exact ⟨.err e, fun tw => by simp [Prog.bind, Prog.runLog, TW.run, EOut.withTw]⟩
  | panic w => exact ⟨.panic w, fun tw => by simp [Prog.bind, Prog.runLog, TW.run, EOut.withTw]⟩
  | unmodelled w => exact ⟨.unmodelled w, fun tw => by simp [Prog.bind, Prog.runLog, TW.run, EOut.withTw]⟩
  | call b k => rw [h] at hq; exact absurd hq (by simp [NoCalls])

end pair
