import Proofs.MapOrderLemmas
import Proofs.PostLemmas
import Proofs.LoopLemmas
import Proofs.Budget
/-!
# C11 — loops visit exactly the selected items with consistent forloop state

Statements about the compiled tree and the loop machinery of `Liquid/Render.lean`, for every
`Prims`, state and item list.
-/

/-! ## What a loop iterates over -/

/-- **C11 (ranges).** `(a..b)` yields none when `b < a`… -/
theorem rangeItems_empty (a b : Int) (h : b < a) : rangeItems a b = [] := by
  simp [rangeItems, h]

/-- …and otherwise the integers `a, a+1, …, b` in order. -/
theorem rangeItems_length (a b : Int) (h : a ≤ b) : (rangeItems a b).length = (b - a + 1).toNat := by
  have : ¬ b < a := by omega
  simp [rangeItems, this]

theorem rangeItems_get (a b : Int) (i : Nat) (h : a ≤ b) (hi : i < (b - a + 1).toNat) :
    (rangeItems a b)[i]? = some (.int .int (a + i)) := by
  have : ¬ b < a := by omega
  simp [rangeItems, this, hi]

/-- a loop over `(a..b)` visits `rangeItems a b` under EVERY budget of the executable model that is at least `b - a`
    (the Go code iterates lazily and has no limit; the budget has no counterpart in it) -/
theorem loopItems_range (budget a b : Int) (h : b - a ≤ budget) : loopItems budget (.range a b) = .ok (rangeItems a b) := by
  simp only [loopItems]
  rw [if_neg (by omega)]

/-- arrays, typed slices and fixed arrays are visited element by element, in order -/
theorem loopItems_slice (budget : Int) (t : Ty) (xs : List GoVal) : loopItems budget (.slice t xs) = .ok xs := rfl
theorem loopItems_array (budget : Int) (t : Ty) (xs : List GoVal) : loopItems budget (.array t xs) = .ok xs := rfl
/-- a map is visited as `[key, value]` pairs, one per entry, in the order of `values.SortedMapKeys`
    (`MapOrder.sortedEntries`: whatever the order of the entry list `kvs`; `Proofs/MapOrder.lean`
    proves that order independent of it). The only map without an answer has several keys that are
    neither booleans, numbers nor strings (`MapOrder.manyClass4`: ordered by `fmt.Sprint`). -/
theorem loopItems_map (budget : Int) (k v : Ty) (kvs : List (GoVal × GoVal)) (h : MapOrder.manyClass4 kvs = false) :
    loopItems budget (.map k v kvs) = .ok ((MapOrder.sortedEntries kvs).map fun kv => mkPair kv.1 kv.2) := by
  simp [loopItems, MapOrder.sortedMapEntries, h]
theorem loopItems_map_length (budget : Int) (k v : Ty) (kvs : List (GoVal × GoVal)) (xs : List GoVal)
    (h : loopItems budget (.map k v kvs) = .ok xs) : xs.length = kvs.length := by
  simp only [loopItems] at h
  rcases MapOrder.sortedMapEntries_cases (ε := Cause) kvs with ⟨_, h1⟩ | ⟨_, w, h1⟩
  · rw [h1] at h
    simp only [Res.bind_ok, Res.ok.injEq] at h
    subst h
    simp [MapOrder.sortedEntries_length]
  · rw [h1] at h; cases h
/-- nil selects nothing -/
theorem loopItems_nil (budget : Int) : loopItems budget .nil = .ok [] := rfl

/-! ## reversed, offset, limit -/

/-- **C11 (selection).** `reversed`, `offset: o`, `limit: n` select: reverse, then skip `o`, then
    take `n`; an absent or non-positive offset skips nothing and an absent or negative limit
    takes everything. -/
theorem select_spec (r : Bool) (off lim : Option Int) (xs : List GoVal) :
    selectItems r off lim xs =
      let a := if r then xs.reverse else xs
      let b := a.drop (off.getD 0).toNat
      match lim with
      | some l => if l ≥ 0 then b.take l.toNat else b
      | none => b := by
  unfold selectItems
  cases off with
  | none => cases lim <;> simp
  | some o =>
    by_cases ho : o > 0
    · cases lim <;> simp [ho]
    · have : o.toNat = 0 := by omega
      cases lim <;> simp [ho, this]

theorem select_plain (xs : List GoVal) : selectItems false none none xs = xs := by simp [selectItems]

theorem select_offset_limit (xs : List GoVal) (o l : Nat) :
    selectItems false (some o) (some l) xs = (xs.drop o).take l := by
  rw [select_spec]; simp

theorem select_reversed (xs : List GoVal) : selectItems true none none xs = xs.reverse := by simp [selectItems]

theorem select_length_le (r : Bool) (off lim : Option Int) (xs : List GoVal) :
    (selectItems r off lim xs).length ≤ xs.length := by
  rw [select_spec]
  simp only
  have h1 : ((if r then xs.reverse else xs).drop (off.getD 0).toNat).length ≤ xs.length := by
    cases r <;> simp
  cases lim with
  | none => exact h1
  | some l =>
    simp only
    split
    · exact Nat.le_trans (by simp [List.length_take]; omega) h1
    · exact h1

/-! ## else -/

/-- **C11 (else).** With an `else` clause, the clause renders exactly when nothing is selected… -/
theorem else_when_empty (P : Prims) (loc : Loc) (tr : Bool) (var : Bytes) (colsE : Option Expr) (bodyM els : M Status) :
    loopDispatch P loc tr var colsE bodyM (some els) [] = els := rfl

/-- …and the loop iterates (and the `else` clause is not rendered) when something is. -/
theorem no_else_when_nonempty (P : Prims) (loc : Loc) (tr : Bool) (var : Bytes) (colsE : Option Expr)
    (bodyM : M Status) (elseM : Option (M Status)) (x : GoVal) (xs : List GoVal) :
    loopDispatch P loc tr var colsE bodyM elseM (x :: xs) = loopIterate P loc tr var colsE bodyM (x :: xs) := by
  unfold loopDispatch; rfl

theorem no_else_clause (P : Prims) (loc : Loc) (tr : Bool) (var : Bytes) (colsE : Option Expr)
    (bodyM : M Status) (items : List GoVal) :
    loopDispatch P loc tr var colsE bodyM none items = loopIterate P loc tr var colsE bodyM items := by
  unfold loopDispatch; cases items <;> rfl

/-! ## forloop -/

def fieldOf (v : GoVal) (name : String) : GoVal.LRes := v.propertyValue name.toUTF8.toList

/-- **C11 (forloop).** In iteration `i` (0-based) of `n`: `index = i+1`, `index0 = i`,
    `rindex = n-i`, `rindex0 = n-i-1`, `length = n`, `first ⇔ i = 0`, `last ⇔ i+1 = n`. -/
theorem forloop_index (i n : Nat) (cyc) : (forloopRec i n cyc).propertyValue [105, 110, 100, 101, 120] = .val (.int .int (i + 1)) := by
  simp [forloopRec, GoVal.propertyValue, GoVal.unwrap, GoVal.mapFind, GoVal.ifaceEq, dotCycles]
theorem forloop_index0 (i n : Nat) (cyc) : (forloopRec i n cyc).propertyValue [105, 110, 100, 101, 120, 48] = .val (.int .int i) := by
  simp [forloopRec, GoVal.propertyValue, GoVal.unwrap, GoVal.mapFind, GoVal.ifaceEq, dotCycles]
theorem forloop_rindex (i n : Nat) (cyc) : (forloopRec i n cyc).propertyValue [114, 105, 110, 100, 101, 120] = .val (.int .int (n - i)) := by
  simp [forloopRec, GoVal.propertyValue, GoVal.unwrap, GoVal.mapFind, GoVal.ifaceEq, dotCycles]
theorem forloop_rindex0 (i n : Nat) (cyc) : (forloopRec i n cyc).propertyValue [114, 105, 110, 100, 101, 120, 48] = .val (.int .int ((n : Int) - i - 1)) := by
  simp [forloopRec, GoVal.propertyValue, GoVal.unwrap, GoVal.mapFind, GoVal.ifaceEq, dotCycles]
theorem forloop_length (i n : Nat) (cyc) : (forloopRec i n cyc).propertyValue [108, 101, 110, 103, 116, 104] = .val (.int .int n) := by
  simp [forloopRec, GoVal.propertyValue, GoVal.unwrap, GoVal.mapFind, GoVal.ifaceEq, dotCycles]
theorem forloop_first (i n : Nat) (cyc) : (forloopRec i n cyc).propertyValue [102, 105, 114, 115, 116] = .val (.bool (i == 0)) := by
  simp [forloopRec, GoVal.propertyValue, GoVal.unwrap, GoVal.mapFind, GoVal.ifaceEq, dotCycles]
theorem forloop_last (i n : Nat) (cyc) : (forloopRec i n cyc).propertyValue [108, 97, 115, 116] = .val (.bool (i + 1 == n)) := by
  simp [forloopRec, GoVal.propertyValue, GoVal.unwrap, GoVal.mapFind, GoVal.ifaceEq, dotCycles]

/-! ## break / continue -/

/-- a program all of whose results carry the status `done` -/
def ReturnsDone (p : Prog (Status × RS)) : Prop := AllRet (fun r => r.1 = .done) p

/-- **C11 (innermost loop only).** Whatever its body does, a loop execution never passes a
    `break` or `continue` on: the sentinel is consumed by the loop that encloses it directly. -/
theorem iterate_consumes (var : Bytes) (cols : Option Nat) (body : M Status) (n : Nat) :
    ∀ xs i cyc s, ReturnsDone (iterateM var cols body n xs i cyc s) := by
  intro xs
  induction xs with
  | nil => intro i cyc s; exact .ret _ rfl
  | cons x xs ih =>
    intro i cyc s
    unfold iterateM
    simp only [bind, M.bind]
    refine AllRet.bind (AllRet.trivial _) (fun _ _ => AllRet.bind (AllRet.trivial _) (fun _ _ =>
      AllRet.bind (AllRet.trivial _) (fun _ _ => AllRet.bind (AllRet.trivial _) (fun r _ =>
      AllRet.bind (AllRet.trivial _) (fun _ _ => AllRet.bind (AllRet.trivial _) (fun _ _ => ?_))))))
    obtain ⟨st, s'⟩ := r
    cases st with
    | brk e => exact .ret _ rfl
    | done => exact ih _ _ _
    | cont e => exact ih _ _ _

/-- **C11 (break).** When the body of an iteration ends with `break`, no further item is visited. -/
theorem iterate_break (var : Bytes) (body : M Status) (n : Nat) (x : GoVal) (xs : List GoVal) (i : Nat) (cyc) (s : RS)
    (e : SErr) (s' : RS)
    (hb : body { s with env := (s.env.set var x).set nmForloop (forloopRec i n cyc) } = .ret (.brk e, s')) :
    iterateM var none body n (x :: xs) i cyc s = .ret (.done, s') := by
  unfold iterateM
  simp only [bind, M.bind, M.setVar, M.getVar, Prog.bind, pure, M.pure, hb]

/-- **C11 (continue / normal end).** When the body ends normally or with `continue`, the loop goes
    on with the next item, index `i+1`, and the cycle counters the body left behind. -/
theorem iterate_next (var : Bytes) (body : M Status) (n : Nat) (x : GoVal) (xs : List GoVal) (i : Nat) (cyc) (s : RS)
    (st : Status) (s' : RS) (hst : ∀ e, st ≠ .brk e)
    (hb : body { s with env := (s.env.set var x).set nmForloop (forloopRec i n cyc) } = .ret (st, s')) :
    iterateM var none body n (x :: xs) i cyc s =
      iterateM var none body n xs (i + 1)
        (match cyclesOf (s'.env.get nmForloop) with | some (c, _) => c | none => cyc) s' := by
  conv => lhs; unfold iterateM
  simp only [bind, M.bind, M.setVar, M.getVar, Prog.bind, pure, M.pure, hb]
  cases st with
  | brk e => exact absurd rfl (hst e)
  | done => rfl
  | cont e => rfl

/-! ## cycle -/

/-- **C11 (cycle).** Per loop execution and group, the counter a cycle tag reads is the number of
    times a cycle tag of that group has run: reading after writing `n` gives `n`… -/
theorem cycleGet_set_same (cyc : List (GoVal × GoVal)) (g : Bytes) (n : Nat)
    (h : ∀ kv ∈ cyc, ∃ k v, kv = (GoVal.str k, v)) : cycleGet (cycleSet cyc g n) g = n := by
  induction cyc with
  | nil => simp [cycleSet, cycleGet]
  | cons kv cyc ih =>
    obtain ⟨k, v, rfl⟩ := h kv (by simp)
    simp only [cycleSet]
    split
    · next hk => simp [cycleGet, hk]
    · next hk =>
      split
      · simp [cycleGet]
      · have hne : (k == g) = false := by simpa using hk
        have := ih (fun x hx => h x (by simp [hx]))
        simpa [cycleGet, List.find?_cons, hne] using this

/-- the counter of a fresh loop execution is zero for every group, so the first value is emitted first -/
theorem cycleGet_fresh (g : Bytes) : cycleGet [] g = 0 := rfl

/-! ## tablerow -/

/-- **C11 (tablerow).** Before item `i` (0-based) a tablerow with `cols` columns opens a row
    `<tr class="rowR">` when `i` is a multiple of `cols`, then the cell `<td class="colC">`. -/
theorem tablerow_before (cols i : Nat) :
    tablerowBefore cols i = (do
      if i % cols == 0 then writeM (bs "<tr class=\"row" ++ natBytes (i / cols + 1) ++ bs "\">")
      writeM (bs "<td class=\"col" ++ natBytes (i % cols + 1) ++ bs "\">")) := rfl

/-- after the item the cell is closed, and the row when it is full or the item is the last -/
theorem tablerow_after (cols i l : Nat) :
    tablerowAfter cols i l = (do
      writeM (bs "</td>")
      if (i + 1) % cols == 0 || i + 1 == l then writeM (bs "</tr>")) := rfl

/-! ## The whole loop in one equation -/

/-- in the state where the body of iteration `i` of `n` over item `x` starts, `forloop` is bound to
    the record of the `forloop_*` formulas and the loop variable to the item -/
theorem iterStart_forloop (var : Bytes) (s : RS) (x : GoVal) (i n : Nat) (cyc) :
    (iterStart var s x i n cyc).env.get nmForloop = forloopRec i n cyc ∧ (iterStart var s x i n cyc).tw = s.tw :=
  ⟨Env.get_set_same _ _ _, rfl⟩

theorem iterStart_var (var : Bytes) (s : RS) (x : GoVal) (i n : Nat) (cyc) (h : var ≠ nmForloop) :
    (iterStart var s x i n cyc).env.get var = x := by
  simp only [iterStart]
  rw [Env.get_set_other _ _ _ _ h, Env.get_set_same]

/-- every other variable is what it was before the iteration -/
theorem iterStart_other (var : Bytes) (s : RS) (x : GoVal) (i n : Nat) (cyc) (y : Bytes) (h1 : y ≠ var) (h2 : y ≠ nmForloop) :
    (iterStart var s x i n cyc).env.get y = s.env.get y := by
  simp only [iterStart]
  rw [Env.get_set_other _ _ _ _ h2, Env.get_set_other _ _ _ _ h1]

/-- **C11 (loop_denotation).** A `for` or `tablerow` node on a writer that does not fail, once its
    collection evaluates to `v` with items `items0`, and `offset`, `limit` (and `cols`) evaluate to
    `off`, `lim` (`cols`): let `items = selectItems reversed off lim items0` (by `select_spec`:
    reverse, skip, take).
    * If nothing is selected and there is an `else` clause, the node renders that clause.
    * Otherwise the bytes written and the final state are those of the **left fold of `iterStep`
      over `items`**, started with index 0, empty cycle counters and the current state: step `i`
      binds the loop variable to the item and `forloop` to `forloopRec i items.length cyc`
      (`iterStart`; fields by `forloop_index` … `forloop_last`), renders the body (`iterBody`: for a
      tablerow between `tablerowBefore`/`tablerowAfter`, see `tablerow_before`/`tablerow_after`) and
      appends its bytes; a body ending with `break` stops the fold (`LoopSt.broke`: later items
      change nothing, `iterStep_foldl_broke`), one ending normally or with `continue` (which has
      skipped the rest of that iteration's body) goes on with index `i+1` and the cycle counters
      the body left; a failing body abandons the render, the error being located at the loop tag.
      At the end the status is `done` (sentinels are consumed) and `forloop` and the loop variable
      have the values they had before the loop (`restoreFrom`).
    Composes `select_spec`, `iterate_consumes`/`iterate_break`/`iterate_next`, `forloop_*`,
    `tablerow_before/after` and `loop_restores` (C12). -/
theorem loop_denotation (c : RCtx) (line : Nat) (tr : Bool) (var : Bytes) (e : Expr) (mods : LoopMods) (body : List Node)
    (clauses : List (List Node)) (s : RS) (v : GoVal) (items0 : List GoVal) (off lim : Option Int) (cols : Option Nat)
    (hcl : clauses.length ≤ 1)
    (hv : evaluate c.P s.env e = .ok v) (hitems : loopItems c.cfg.budget v = .ok items0)
    (hoff : intModifier c.P mods.offset ⟨line, true⟩ s = .ret (off, s))
    (hlim : intModifier c.P mods.limit ⟨line, true⟩ s = .ret (lim, s))
    (hcols : tablerowCols c.P tr mods.cols ⟨line, true⟩ s = .ret (cols, s)) :
    (renderNode c (.loop line tr var e mods body clauses) s).runPure =
      match selectItems mods.reversed off lim items0, clauses with
      | [], [els] => (wrapAt c.cfg.path ⟨line, true⟩ (renderBlockBody c els) s).runPure
      | items, _ =>
        loopResult (fun e => .located (wrapError c.cfg.path e ⟨line, true⟩)) var s
          (items.foldl (iterStep var cols (renderBlockBody c body) items.length) (LoopAcc.start s)) := by
  -- the iterations, wrapped at the tag
  have hiter : ∀ items : List GoVal,
      (wrapAt c.cfg.path ⟨line, true⟩ (loopIterate c.P ⟨line, true⟩ tr var mods.cols (renderBlockBody c body) items) s).runPure =
        loopResult (fun e => .located (wrapError c.cfg.path e ⟨line, true⟩)) var s
          (items.foldl (iterStep var cols (renderBlockBody c body) items.length) (LoopAcc.start s)) := by
    intro items
    rw [runPure_wrapAt, loopIterate_run c.P ⟨line, true⟩ tr var mods.cols _ items s cols hcols]
    simp only [loopResult]
    rcases (items.foldl (iterStep var cols (renderBlockBody c body) items.length) (LoopAcc.start s)) with ⟨out, i, cyc, st⟩
    cases st with
    | running s' => rfl
    | broke s' => rfl
    | halted h => cases h <;> rfl
  match clauses, hcl with
  | [], _ =>
    rw [renderNode]
    rw [loopRun_eq c.P c.cfg.path ⟨line, true⟩ tr var e mods _ none s v items0 off lim hv hitems hoff hlim, no_else_clause]
    rw [hiter]
    split
    · simp_all
    · rfl
  | [els], _ =>
    rw [renderNode]
    rw [loopRun_eq c.P c.cfg.path ⟨line, true⟩ tr var e mods _ (some _) s v items0 off lim hv hitems hoff hlim]
    cases hsel : selectItems mods.reversed off lim items0 with
    | nil => rw [else_when_empty]
    | cons x xs => rw [no_else_when_nonempty, hiter]
  | _ :: _ :: _, h => simp at h

/-- **C11 (for_denotation).** `loop_denotation` for `{% for %}`: no decoration — an iteration
    renders just the body (`iterBody none body i n = body`, up to the monad laws). -/
theorem for_denotation (c : RCtx) (line : Nat) (var : Bytes) (e : Expr) (mods : LoopMods) (body : List Node)
    (clauses : List (List Node)) (s : RS) (v : GoVal) (items0 : List GoVal) (off lim : Option Int)
    (hcl : clauses.length ≤ 1)
    (hv : evaluate c.P s.env e = .ok v) (hitems : loopItems c.cfg.budget v = .ok items0)
    (hoff : intModifier c.P mods.offset ⟨line, true⟩ s = .ret (off, s))
    (hlim : intModifier c.P mods.limit ⟨line, true⟩ s = .ret (lim, s)) :
    (renderNode c (.loop line false var e mods body clauses) s).runPure =
      match selectItems mods.reversed off lim items0, clauses with
      | [], [els] => (wrapAt c.cfg.path ⟨line, true⟩ (renderBlockBody c els) s).runPure
      | items, _ =>
        loopResult (fun e => .located (wrapError c.cfg.path e ⟨line, true⟩)) var s
          (items.foldl (iterStep var none (renderBlockBody c body) items.length) (LoopAcc.start s)) :=
  loop_denotation c line false var e mods body clauses s v items0 off lim none hcl hv hitems hoff hlim
    (tablerowCols_for _ _ _ _)

/-- the body of a `for` iteration is the block body itself -/
theorem iterBody_for (body : M Status) (i n : Nat) (s : RS) :
    (iterBody none body i n s).runPure = (body s).runPure := by
  simp only [iterBody, bind, M.bind, pure, M.pure, Prog.bind, Prog.runPure_bind]
  rcases (body s).runPure with ⟨o, r⟩
  cases r with
  | ok r => obtain ⟨st, s'⟩ := r; simp [Prog.runPure]
  | err e => rfl
  | panic w => rfl
  | unmodelled w => rfl

/-- **C11 (tablerow_denotation).** `loop_denotation` for `{% tablerow %}` with `cols` columns
    (`cols` absent or not positive: unbounded, `tablerowCols_none`/`tablerowCols_int`): iteration `i`
    renders `tablerowBefore cols i`, the body, `tablerowAfter cols i n` (`tablerow_before`,
    `tablerow_after`: `<tr class="rowR">` before every `cols`-th item, `<td class="colC">` … `</td>`
    around each, `</tr>` after every `cols`-th and after the last). -/
theorem tablerow_denotation (c : RCtx) (line : Nat) (var : Bytes) (e : Expr) (mods : LoopMods) (body : List Node)
    (clauses : List (List Node)) (s : RS) (v : GoVal) (items0 : List GoVal) (off lim : Option Int) (cols : Nat)
    (hcl : clauses.length ≤ 1)
    (hv : evaluate c.P s.env e = .ok v) (hitems : loopItems c.cfg.budget v = .ok items0)
    (hoff : intModifier c.P mods.offset ⟨line, true⟩ s = .ret (off, s))
    (hlim : intModifier c.P mods.limit ⟨line, true⟩ s = .ret (lim, s))
    (hcols : tablerowCols c.P true mods.cols ⟨line, true⟩ s = .ret (some cols, s)) :
    (renderNode c (.loop line true var e mods body clauses) s).runPure =
      match selectItems mods.reversed off lim items0, clauses with
      | [], [els] => (wrapAt c.cfg.path ⟨line, true⟩ (renderBlockBody c els) s).runPure
      | items, _ =>
        loopResult (fun e => .located (wrapError c.cfg.path e ⟨line, true⟩)) var s
          (items.foldl (iterStep var (some cols) (renderBlockBody c body) items.length) (LoopAcc.start s)) :=
  loop_denotation c line true var e mods body clauses s v items0 off lim (some cols) hcl hv hitems hoff hlim hcols

theorem iterBody_tablerow (cols : Nat) (body : M Status) (i n : Nat) :
    iterBody (some cols) body i n = (do
      tablerowBefore cols i
      let st ← body
      tablerowAfter cols i n
      pure st) := rfl

/-! ### Non-vacuity of the denotation theorems

A minimal context (strings print as themselves), the loop `{% for x in ["a","b","c"] %}…{% endfor %}`. -/

def c11Prims : Prims :=
  { equal := fun _ _ => .ok false, less := fun _ _ => .ok false, contains := fun _ _ => .ok false,
    equalFn := fun _ _ => .ok false, applyFilter := fun _ v _ => .ok v, hasFilter := fun _ => false }
def c11Out : OutPrims := { chunks := fun v => match v with | .str b => .ok [b] | _ => .ok [] }
def c11Ctx : RCtx := { P := c11Prims, O := c11Out, cfg := {}, inc := fun _ _ _ => .unmodelled "no include" }
def c11Abc : List GoVal := [.str [97], .str [98], .str [99]]

/-- all hypotheses of `for_denotation` hold for the literal array, `offset: 1`, no limit, any body -/
example (body : List Node) :
    (renderNode c11Ctx (.loop 1 false [120] (.lit (.slice .any c11Abc)) { offset := some (.lit (.int .int 1)) } body [])
        ⟨[], {}⟩).runPure =
      loopResult (fun e => .located (wrapError [] e ⟨1, true⟩)) [120] ⟨[], {}⟩
        ([GoVal.str [98], .str [99]].foldl (iterStep [120] none (renderBlockBody c11Ctx body) 2) (LoopAcc.start ⟨[], {}⟩)) :=
  for_denotation c11Ctx 1 [120] (.lit (.slice .any c11Abc)) { offset := some (.lit (.int .int 1)) } body []
    ⟨[], {}⟩ (.slice .any c11Abc) c11Abc (some 1) none (by decide) rfl rfl rfl rfl

/-- the fold on a body that prints the item: `abc`, index 3, still running -/
example :
    (c11Abc.foldl (iterStep [120] none (renderBlockBody c11Ctx [.obj 1 (.var [120])]) 3) (LoopAcc.start ⟨[], {}⟩)).out =
      [97, 98, 99] := by
  simp [c11Abc, List.foldl, iterStep, LoopAcc.start, iterBody, iterStart, renderBlockBody, renderList, renderNode,
    wrapFailAt, M.mapFail, M.bind, M.pure, writeM, flushM, Prog.bind, Prog.mapFail, Prog.runPure, bind, pure, c11Ctx,
    M.getEnv, M.ofRes, evaluate, eval, Env.set, Env.get, GoVal.toLiquid, GoVal.unwrap, GoVal.isNil, c11Out, writeAllM, writeVerbatimM,
    nmForloop]

/-- the fold on a body `{{ x }}{% break %}`: the first item only (a value is written through
    `WriteVerbatim`: it has reached the writer, nothing is pending), then the loop is over — the
    items `b`, `c` change nothing -/
example :
    ∃ s', (c11Abc.foldl (iterStep [120] none (renderBlockBody c11Ctx [.obj 1 (.var [120]), .brk 1]) 3)
        (LoopAcc.start ⟨[], {}⟩)).st = .broke s' ∧ s'.tw = { buf := [], trim := false } ∧
      (c11Abc.foldl (iterStep [120] none (renderBlockBody c11Ctx [.obj 1 (.var [120]), .brk 1]) 3)
        (LoopAcc.start ⟨[], {}⟩)).out = [97] := by
  simp [c11Abc, List.foldl, iterStep, LoopAcc.start, iterBody, iterStart, renderBlockBody, renderList, renderNode,
    wrapFailAt, M.mapFail, M.bind, M.pure, writeM, flushM, Prog.bind, Prog.mapFail, Prog.runPure, bind, pure, c11Ctx,
    M.getEnv, M.ofRes, evaluate, eval, Env.set, Env.get, GoVal.toLiquid, GoVal.unwrap, GoVal.isNil, c11Out, writeAllM, writeVerbatimM,
    nmForloop]

/-- `{% continue %}` first: every item is visited (index reaches 3), nothing is printed -/
example :
    (c11Abc.foldl (iterStep [120] none (renderBlockBody c11Ctx [.cont 1, .obj 1 (.var [120])]) 3)
        (LoopAcc.start ⟨[], {}⟩)).i = 3 ∧
    (c11Abc.foldl (iterStep [120] none (renderBlockBody c11Ctx [.cont 1, .obj 1 (.var [120])]) 3)
        (LoopAcc.start ⟨[], {}⟩)).out = [] := by
  simp [c11Abc, List.foldl, iterStep, LoopAcc.start, iterBody, iterStart, renderBlockBody, renderList, renderNode,
    M.bind, M.pure, Prog.bind, Prog.runPure, bind, pure, nextCyc]

/-! ## The budgets of the executable model are not part of the semantics -/

/-- **C11 (a range loop of any size).** The Go code iterates `(a..b)` lazily, without a limit; the model does the same
    under a sufficient budget, and the budget is arbitrary. For every `a ≤ b` — no bound on `b - a` — there is a budget
    (any `budget ≥ b - a`), and in every context with such a budget a `for` loop whose collection evaluates to `(a..b)`
    visits exactly `rangeItems a b`: `b - a + 1` items, the `i`-th being `a + i`, in this order — what the node renders
    is the left fold of its body over them (`for_denotation`; the modifiers select from them as `select_spec` says). -/
theorem range_loop_any_size (a b : Int) (hab : a ≤ b) :
    (∃ budget : Int, b - a ≤ budget) ∧
    ∀ c : RCtx, b - a ≤ c.cfg.budget →
      loopItems c.cfg.budget (.range a b) = .ok (rangeItems a b) ∧
      (rangeItems a b).length = (b - a + 1).toNat ∧
      (∀ i : Nat, i < (b - a + 1).toNat → (rangeItems a b)[i]? = some (.int .int (a + i))) ∧
      ∀ (line : Nat) (var : Bytes) (e : Expr) (body : List Node) (s : RS), evaluate c.P s.env e = .ok (.range a b) →
        (renderNode c (.loop line false var e {} body []) s).runPure =
          loopResult (fun e => .located (wrapError c.cfg.path e ⟨line, true⟩)) var s
            ((rangeItems a b).foldl (iterStep var none (renderBlockBody c body) (rangeItems a b).length) (LoopAcc.start s)) := by
  refine ⟨⟨b - a, Int.le_refl _⟩, fun c hc => ⟨loopItems_range _ a b hc, rangeItems_length a b hab,
    fun i hi => rangeItems_get a b i hab hi, ?_⟩⟩
  intro line var e body s hv
  have h := for_denotation c line var e {} body [] s (.range a b) (rangeItems a b) none none (by simp) hv
    (loopItems_range _ a b hc) rfl rfl
  rw [h]
  have hs : selectItems ({} : LoopMods).reversed none none (rangeItems a b) = rangeItems a b := by simp [selectItems]
  rw [hs]
  cases rangeItems a b <;> rfl

/-- **C11 (the budget is not part of the semantics: the items of a loop).** Raising the budget never changes the items:
    what `loopItems` answers under `n` (items, or the `unmodelled` of a map with several unordered keys — which does not
    depend on the budget either) it answers under every `m ≥ n`, unless it was the `unmodelled` of the budget itself. -/
theorem budget_monotone_loopItems (n m : Int) (h : n ≤ m) (v : GoVal) (hn : ∀ w, loopItems n v ≠ .unmodelled w) :
    loopItems m v = loopItems n v :=
  (loopItems_le h v).eq hn

/-- **C11, C12, C01 (the budgets are not part of the semantics: a whole render).** `budget_monotone`: for every value layer,
    output layer, configuration, file system, include depth, source and environment — a render that gives an answer
    (output, or a located error, or even a panic) under the loop budget `cfg.budget` gives the SAME answer under every larger
    one. Through `for`/`tablerow` nodes, their bodies and `else` clauses, captures, conditions, and included files at
    every depth (`Proofs/Budget.lean`: `renderNode_le`, `incFuel_le`, `run_le`). -/
theorem budget_monotone (P : Prims) (O : OutPrims) (cfg : Cfg) (fs : FS) (fuel : Nat) (src : Bytes) (line : Nat) (env : Env)
    (m : Int) (hm : cfg.budget ≤ m) (hn : ∀ w, run P O cfg fs fuel src line env ≠ .unmodelled w) :
    run P O { cfg with budget := m } fs fuel src line env = run P O cfg fs fuel src line env := by
  rcases run_le (PrimsLe.refl P) O cfg hm fs fuel src line env with ⟨w, h⟩ | h
  · exact absurd h (hn w)
  · exact h

/-- **C11, C15 (both budgets, the standard engine).** The standard value layer with the budget `n` for the array conversion
    of a range (`stdPrimsB n`; the driver's `stdPrims` is `stdPrimsB 1000000`) and the loop budget `cfg.budget`: a render
    that gives an answer gives the same answer when either budget, or both, are raised. In particular what `runStd` (the
    function the model binary computes, and every theorem about it) answers is the answer under ALL larger budgets. -/
theorem budget_monotone_std (cfg : Cfg) (fs : FS) (fuel : Nat) (src : Bytes) (line : Nat) (env : Env) (n n' m : Int)
    (hn' : n ≤ n') (hm : cfg.budget ≤ m) (hn : ∀ w, run (stdPrimsB n) stdOut cfg fs fuel src line env ≠ .unmodelled w) :
    run (stdPrimsB n') stdOut { cfg with budget := m } fs fuel src line env = run (stdPrimsB n) stdOut cfg fs fuel src line env := by
  rcases run_le (stdPrimsB_le hn') stdOut cfg hm fs fuel src line env with ⟨w, h⟩ | h
  · exact absurd h (hn w)
  · exact h

/-- **C11, C15 (what the driver computes).** `runStd` — the function behind every `render` case line, with the two default
    budgets — when it gives an answer, gives the answer of every run with larger budgets: the defaults limit which inputs
    the model binary answers, never what the answer is. -/
theorem budget_monotone_runStd (cfg : Cfg) (fs : FS) (src : Bytes) (line : Nat) (env : Env) (n' m : Int)
    (hn' : 1000000 ≤ n') (hm : cfg.budget ≤ m) (hn : ∀ w, runStd cfg fs src line env ≠ .unmodelled w) :
    run (stdPrimsB n') stdOut { cfg with budget := m } fs maxIncludeDepth src line env = runStd cfg fs src line env :=
  budget_monotone_std cfg fs maxIncludeDepth src line env 1000000 n' m hn' hm hn

/-- a loop node in isolation: the same, for the interaction tree (every answer of the writer), with the order
    `PLe` = "does the same up to the point, if any, where the smaller budget gave up" -/
theorem budget_monotone_loop_node (c : RCtx) (m : Int) (hm : c.cfg.budget ≤ m) (line : Nat) (tr : Bool) (var : Bytes) (e : Expr)
    (mods : LoopMods) (body : List Node) (clauses : List (List Node)) (s : RS) :
    PLe (renderNode c (.loop line tr var e mods body clauses) s)
      (renderNode { c with cfg := { c.cfg with budget := m } } (.loop line tr var e mods body clauses) s) :=
  renderNode_le c c.P m c.inc (PrimsLe.refl _) hm (fun _ _ _ => PLe.refl _) _ s

/-- non-vacuity: under the default budget the loop over `(0..100001)` has no answer; under 100001 it visits 100002 items,
    and so under every larger budget -/
example : loopItems ({} : Cfg).budget (.range 0 100001) = .unmodelled "huge range" := rfl
example (m : Int) (h : 100001 ≤ m) : loopItems m (.range 0 100001) = .ok (rangeItems 0 100001) :=
  loopItems_range m 0 100001 (by omega)
-- (`budget_monotone` on source bytes: the last example of `Proofs/C11Source.lean`)

/-! Non-vacuity -/
example : selectItems true (some 1) (some 2) [.int .int 1, .int .int 2, .int .int 3, .int .int 4]
    = [.int .int 3, .int .int 2] := by simp [selectItems]
example : rangeItems 2 4 = [.int .int 2, .int .int 3, .int .int 4] := by simp [rangeItems, List.range, List.range.loop]
