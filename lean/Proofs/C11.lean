import Proofs.PostLemmas
/-!
# C11 — loops visit exactly the selected items with consistent forloop state

Statements about the compiled tree and the loop machinery of `Liquid/Render.lean`, for every
`Prims`, state and item list.
-/

/-! ## What a loop iterates over -/

/-- **C11 (ranges).** `(a..b)` yields none when `b < a`… -/
theorem rangeItems_empty (a b : Int) (h : b < a) : rangeItems a b = [] := by
  simp [rangeItems, h]

/-- …and otherwise the integers `a, a+1, …, b` in order. -/
theorem rangeItems_length (a b : Int) (h : a ≤ b) : (rangeItems a b).length = (b - a + 1).toNat := by
  have : ¬ b < a := by omega
  simp [rangeItems, this]

theorem rangeItems_get (a b : Int) (i : Nat) (h : a ≤ b) (hi : i < (b - a + 1).toNat) :
    (rangeItems a b)[i]? = some (.int .int (a + i)) := by
  have : ¬ b < a := by omega
  simp [rangeItems, this, hi]

/-- arrays, typed slices and fixed arrays are visited element by element, in order -/
theorem loopItems_slice (t : Ty) (xs : List GoVal) : loopItems (.slice t xs) = .ok xs := rfl
theorem loopItems_array (t : Ty) (xs : List GoVal) : loopItems (.array t xs) = .ok xs := rfl
/-- a map is visited as `[key, value]` pairs, one per entry, in the (sorted) entry order -/
theorem loopItems_map (k v : Ty) (kvs : List (GoVal × GoVal)) :
    loopItems (.map k v kvs) = .ok (kvs.map fun kv => mkPair kv.1 kv.2) := rfl
theorem loopItems_map_length (k v : Ty) (kvs : List (GoVal × GoVal)) (xs : List GoVal)
    (h : loopItems (.map k v kvs) = .ok xs) : xs.length = kvs.length := by
  simp only [loopItems_map, Res.ok.injEq] at h; subst h; simp
/-- nil selects nothing -/
theorem loopItems_nil : loopItems .nil = .ok [] := rfl

/-! ## reversed, offset, limit -/

/-- **C11 (selection).** `reversed`, `offset: o`, `limit: n` select: reverse, then skip `o`, then
    take `n`; an absent or non-positive offset skips nothing and an absent or negative limit
    takes everything. -/
theorem select_spec (r : Bool) (off lim : Option Int) (xs : List GoVal) :
    selectItems r off lim xs =
      let a := if r then xs.reverse else xs
      let b := a.drop (off.getD 0).toNat
      match lim with
      | some l => if l ≥ 0 then b.take l.toNat else b
      | none => b := by
  unfold selectItems
  cases off with
  | none => cases lim <;> simp
  | some o =>
    by_cases ho : o > 0
    · cases lim <;> simp [ho]
    · have : o.toNat = 0 := by omega
      cases lim <;> simp [ho, this]

theorem select_plain (xs : List GoVal) : selectItems false none none xs = xs := by simp [selectItems]

theorem select_offset_limit (xs : List GoVal) (o l : Nat) :
    selectItems false (some o) (some l) xs = (xs.drop o).take l := by
  rw [select_spec]; simp

theorem select_reversed (xs : List GoVal) : selectItems true none none xs = xs.reverse := by simp [selectItems]

theorem select_length_le (r : Bool) (off lim : Option Int) (xs : List GoVal) :
    (selectItems r off lim xs).length ≤ xs.length := by
  rw [select_spec]
  simp only
  have h1 : ((if r then xs.reverse else xs).drop (off.getD 0).toNat).length ≤ xs.length := by
    cases r <;> simp
  cases lim with
  | none => exact h1
  | some l =>
    simp only
    split
    · exact Nat.le_trans (by simp [List.length_take]; omega) h1
    · exact h1

/-! ## else -/

/-- **C11 (else).** With an `else` clause, the clause renders exactly when nothing is selected… -/
theorem else_when_empty (P : Prims) (loc : Loc) (tr : Bool) (var : Bytes) (colsE : Option Expr) (bodyM els : M Status) :
    loopDispatch P loc tr var colsE bodyM (some els) [] = els := rfl

/-- …and the loop iterates (and the `else` clause is not rendered) when something is. -/
theorem no_else_when_nonempty (P : Prims) (loc : Loc) (tr : Bool) (var : Bytes) (colsE : Option Expr)
    (bodyM : M Status) (elseM : Option (M Status)) (x : GoVal) (xs : List GoVal) :
    loopDispatch P loc tr var colsE bodyM elseM (x :: xs) = loopIterate P loc tr var colsE bodyM (x :: xs) := by
  unfold loopDispatch; rfl

theorem no_else_clause (P : Prims) (loc : Loc) (tr : Bool) (var : Bytes) (colsE : Option Expr)
    (bodyM : M Status) (items : List GoVal) :
    loopDispatch P loc tr var colsE bodyM none items = loopIterate P loc tr var colsE bodyM items := by
  unfold loopDispatch; cases items <;> rfl

/-! ## forloop -/

def fieldOf (v : GoVal) (name : String) : GoVal.LRes := v.propertyValue name.toUTF8.toList

/-- **C11 (forloop).** In iteration `i` (0-based) of `n`: `index = i+1`, `index0 = i`,
    `rindex = n-i`, `rindex0 = n-i-1`, `length = n`, `first ⇔ i = 0`, `last ⇔ i+1 = n`. -/
theorem forloop_index (i n : Nat) (cyc) : (forloopRec i n cyc).propertyValue [105, 110, 100, 101, 120] = .val (.int .int (i + 1)) := by
  simp [forloopRec, GoVal.propertyValue, GoVal.unwrap, GoVal.mapFind, GoVal.ifaceEq, dotCycles]
theorem forloop_index0 (i n : Nat) (cyc) : (forloopRec i n cyc).propertyValue [105, 110, 100, 101, 120, 48] = .val (.int .int i) := by
  simp [forloopRec, GoVal.propertyValue, GoVal.unwrap, GoVal.mapFind, GoVal.ifaceEq, dotCycles]
theorem forloop_rindex (i n : Nat) (cyc) : (forloopRec i n cyc).propertyValue [114, 105, 110, 100, 101, 120] = .val (.int .int (n - i)) := by
  simp [forloopRec, GoVal.propertyValue, GoVal.unwrap, GoVal.mapFind, GoVal.ifaceEq, dotCycles]
theorem forloop_rindex0 (i n : Nat) (cyc) : (forloopRec i n cyc).propertyValue [114, 105, 110, 100, 101, 120, 48] = .val (.int .int ((n : Int) - i - 1)) := by
  simp [forloopRec, GoVal.propertyValue, GoVal.unwrap, GoVal.mapFind, GoVal.ifaceEq, dotCycles]
theorem forloop_length (i n : Nat) (cyc) : (forloopRec i n cyc).propertyValue [108, 101, 110, 103, 116, 104] = .val (.int .int n) := by
  simp [forloopRec, GoVal.propertyValue, GoVal.unwrap, GoVal.mapFind, GoVal.ifaceEq, dotCycles]
theorem forloop_first (i n : Nat) (cyc) : (forloopRec i n cyc).propertyValue [102, 105, 114, 115, 116] = .val (.bool (i == 0)) := by
  simp [forloopRec, GoVal.propertyValue, GoVal.unwrap, GoVal.mapFind, GoVal.ifaceEq, dotCycles]
theorem forloop_last (i n : Nat) (cyc) : (forloopRec i n cyc).propertyValue [108, 97, 115, 116] = .val (.bool (i + 1 == n)) := by
  simp [forloopRec, GoVal.propertyValue, GoVal.unwrap, GoVal.mapFind, GoVal.ifaceEq, dotCycles]

/-! ## break / continue -/

/-- a program all of whose results carry the status `done` -/
def ReturnsDone (p : Prog (Status × RS)) : Prop := AllRet (fun r => r.1 = .done) p

/-- **C11 (innermost loop only).** Whatever its body does, a loop execution never passes a
    `break` or `continue` on: the sentinel is consumed by the loop that encloses it directly. -/
theorem iterate_consumes (var : Bytes) (cols : Option Nat) (body : M Status) (n : Nat) :
    ∀ xs i cyc s, ReturnsDone (iterateM var cols body n xs i cyc s) := by
  intro xs
  induction xs with
  | nil => intro i cyc s; exact .ret _ rfl
  | cons x xs ih =>
    intro i cyc s
    unfold iterateM
    simp only [bind, M.bind]
    refine AllRet.bind (AllRet.trivial _) (fun _ _ => AllRet.bind (AllRet.trivial _) (fun _ _ =>
      AllRet.bind (AllRet.trivial _) (fun _ _ => AllRet.bind (AllRet.trivial _) (fun r _ =>
      AllRet.bind (AllRet.trivial _) (fun _ _ => AllRet.bind (AllRet.trivial _) (fun _ _ => ?_))))))
    obtain ⟨st, s'⟩ := r
    cases st with
    | brk e => exact .ret _ rfl
    | done => exact ih _ _ _
    | cont e => exact ih _ _ _

/-- **C11 (break).** When the body of an iteration ends with `break`, no further item is visited. -/
theorem iterate_break (var : Bytes) (body : M Status) (n : Nat) (x : GoVal) (xs : List GoVal) (i : Nat) (cyc) (s : RS)
    (e : SErr) (s' : RS)
    (hb : body { s with env := (s.env.set var x).set nmForloop (forloopRec i n cyc) } = .ret (.brk e, s')) :
    iterateM var none body n (x :: xs) i cyc s = .ret (.done, s') := by
  unfold iterateM
  simp only [bind, M.bind, M.setVar, M.getVar, Prog.bind, pure, M.pure, hb]

/-- **C11 (continue / normal end).** When the body ends normally or with `continue`, the loop goes
    on with the next item, index `i+1`, and the cycle counters the body left behind. -/
theorem iterate_next (var : Bytes) (body : M Status) (n : Nat) (x : GoVal) (xs : List GoVal) (i : Nat) (cyc) (s : RS)
    (st : Status) (s' : RS) (hst : ∀ e, st ≠ .brk e)
    (hb : body { s with env := (s.env.set var x).set nmForloop (forloopRec i n cyc) } = .ret (st, s')) :
    iterateM var none body n (x :: xs) i cyc s =
      iterateM var none body n xs (i + 1)
        (match cyclesOf (s'.env.get nmForloop) with | some (c, _) => c | none => cyc) s' := by
  conv => lhs; unfold iterateM
  simp only [bind, M.bind, M.setVar, M.getVar, Prog.bind, pure, M.pure, hb]
  cases st with
  | brk e => exact absurd rfl (hst e)
  | done => rfl
  | cont e => rfl

/-! ## cycle -/

/-- **C11 (cycle).** Per loop execution and group, the counter a cycle tag reads is the number of
    times a cycle tag of that group has run: reading after writing `n` gives `n`… -/
theorem cycleGet_set_same (cyc : List (GoVal × GoVal)) (g : Bytes) (n : Nat)
    (h : ∀ kv ∈ cyc, ∃ k v, kv = (GoVal.str k, v)) : cycleGet (cycleSet cyc g n) g = n := by
  induction cyc with
  | nil => simp [cycleSet, cycleGet]
  | cons kv cyc ih =>
    obtain ⟨k, v, rfl⟩ := h kv (by simp)
    simp only [cycleSet]
    split
    · next hk => simp [cycleGet, hk]
    · next hk =>
      split
      · simp [cycleGet]
      · have hne : (k == g) = false := by simpa using hk
        have := ih (fun x hx => h x (by simp [hx]))
        simpa [cycleGet, List.find?_cons, hne] using this

/-- the counter of a fresh loop execution is zero for every group, so the first value is emitted first -/
theorem cycleGet_fresh (g : Bytes) : cycleGet [] g = 0 := rfl

/-! ## tablerow -/

/-- **C11 (tablerow).** Before item `i` (0-based) a tablerow with `cols` columns opens a row
    `<tr class="rowR">` when `i` is a multiple of `cols`, then the cell `<td class="colC">`. -/
theorem tablerow_before (cols i : Nat) :
    tablerowBefore cols i = (do
      if i % cols == 0 then writeM (bs "<tr class=\"row" ++ natBytes (i / cols + 1) ++ bs "\">")
      writeM (bs "<td class=\"col" ++ natBytes (i % cols + 1) ++ bs "\">")) := rfl

/-- after the item the cell is closed, and the row when it is full or the item is the last -/
theorem tablerow_after (cols i l : Nat) :
    tablerowAfter cols i l = (do
      writeM (bs "</td>")
      if (i + 1) % cols == 0 || i + 1 == l then writeM (bs "</tr>")) := rfl

/-! Non-vacuity -/
example : selectItems true (some 1) (some 2) [.int .int 1, .int .int 2, .int .int 3, .int .int 4]
    = [.int .int 3, .int .int 2] := by simp [selectItems]
example : rangeItems 2 4 = [.int .int 2, .int .int 3, .int .int 4] := by simp [rangeItems, List.range, List.range.loop]
