import Liquid.Std
import Proofs.CompareLemmas
import Proofs.RepEqRender
/-!
# The standard configuration and representation equivalence (helper lemmas for C18)

With `d = false` (typed vs generic containers, fixed arrays vs slices, typed maps; drops and
pointers at the top of a binding or of an expression result), the standard printing
(`stdChunks`) and the standard comparisons respect the equivalence.
-/

open GoVal

/-! ## Printing -/

mutual
theorem sprint_norm : ∀ v : GoVal, sprint (v.norm false) = sprint v
  | .drop v => by rw [norm_drop_false]
  | .slice _ xs => by simp only [norm, sprint, sprintAll_norm xs]
  | .array _ xs => by simp only [norm, sprint, sprintAll_norm xs]
  | .map kt vt kvs => by
    cases h : isRec (.map kt vt kvs) with
    | true => rw [norm_of_isRec h]
    | false => rw [norm_map_nonrec h]; simp only [sprint, sprintKVs_norm kvs]
  | .nil | .bool _ | .int _ _ | .flt _ _ | .str _ | .bytes _
  | .mapSlice _ | .keyedMap _ | .range _ _ | .ptr _ | .nilPtr
  | .struct _ | .time _ => by simp [norm]
theorem sprintAll_norm : ∀ xs : List GoVal, sprintAll (normList false xs) = sprintAll xs
  | [] => rfl
  | x :: xs => by simp only [normList, sprintAll, sprint_norm x, sprintAll_norm xs]
theorem sprintKVs_norm : ∀ kvs : List (GoVal × GoVal), sprintKVs (normKVs false kvs) = sprintKVs kvs
  | [] => rfl
  | (k, v) :: r => by simp only [normKVs, sprintKVs, sprint_norm v, sprintKVs_norm r]
end

mutual
/-- printing in Go syntax after `values.ResolveDrops` does not see the representation, drops nested in
    containers included (`d = true`): the repair `fixes/nested-drops-resolved` -/
theorem sprintR_norm (d : Bool) : ∀ v : GoVal, sprint (v.norm d).resolveDrops = sprint v.resolveDrops
  | .drop v => by
    rw [norm]; split
    · rfl
    · rw [resolveDrops_drop]; exact sprintR_norm d v
  | .slice _ xs => by simp only [norm, resolveDrops_slice, sprint, sprintAllR_norm d xs]
  | .array _ xs => by simp only [norm, resolveDrops_slice, resolveDrops_array, sprint, sprintAllR_norm d xs]
  | .map kt vt kvs => by
    cases h : isRec (.map kt vt kvs) with
    | true => rw [norm_of_isRec h]
    | false => rw [norm_map_nonrec h]; simp only [resolveDrops_map, sprint, sprintKVsR_norm d kvs]
  | .nil | .bool _ | .int _ _ | .flt _ _ | .str _ | .bytes _
  | .mapSlice _ | .keyedMap _ | .range _ _ | .ptr _ | .nilPtr
  | .struct _ | .time _ => by simp [norm]
theorem sprintAllR_norm (d : Bool) : ∀ xs : List GoVal,
    sprintAll (resolveDropsList (normList d xs)) = sprintAll (resolveDropsList xs)
  | [] => rfl
  | x :: xs => by simp only [normList, resolveDropsList, sprintAll, sprintR_norm d x, sprintAllR_norm d xs]
theorem sprintKVsR_norm (d : Bool) : ∀ kvs : List (GoVal × GoVal),
    sprintKVs (resolveDropsVals (normKVs d kvs)) = sprintKVs (resolveDropsVals kvs)
  | [] => rfl
  | (k, v) :: r => by simp only [normKVs, resolveDropsVals, sprintKVs, sprintR_norm d v, sprintKVsR_norm d r]
end

theorem writeObjectL_map_norm (kt vt : Ty) (kvs : List (GoVal × GoVal)) :
    writeObjectL ((GoVal.map kt vt kvs).norm false) = writeObjectL (.map kt vt kvs) := by
  have h := sprintR_norm false (.map kt vt kvs)
  cases hr : isRec (.map kt vt kvs) with
  | true => rw [norm_of_isRec hr]
  | false =>
    rw [norm_map_nonrec hr] at h ⊢
    simpa [writeObjectL, sprintR] using h

theorem writeObjectL_map_normD (d : Bool) (kt vt : Ty) (kvs : List (GoVal × GoVal)) :
    writeObjectL ((GoVal.map kt vt kvs).norm d) = writeObjectL (.map kt vt kvs) := by
  have h := sprintR_norm d (.map kt vt kvs)
  cases hr : isRec (.map kt vt kvs) with
  | true => rw [norm_of_isRec hr]
  | false =>
    rw [norm_map_nonrec hr] at h ⊢
    simpa [writeObjectL, sprintR] using h

/-- the element step of `writeChunksList` is `writeChunksL` (which follows a chain of drops itself) -/
theorem writeChunksList_consL (x : GoVal) (xs : List GoVal) :
    writeChunksList (x :: xs) = (writeChunksL x).bind fun a => (writeChunksList xs).bind fun b => .ok (a ++ b) := by
  cases x with
  | ptr w => cases w <;> simp only [writeChunksList, writeChunksL_ptr_drop]
  | _ => simp only [writeChunksList, writeChunksL_drop]

mutual
/-- the writes of an object node do not see the representation — for `d = true` too: a drop nested in an
    array or in a printed map is written as its value (`fixes/nested-drops-resolved`) -/
theorem writeChunksL_norm (d : Bool) : ∀ v : GoVal, writeChunksL (v.norm d) = writeChunksL v
  | .drop v => by
    rw [norm]; split
    · rfl
    · rw [writeChunksL_drop]; exact writeChunksL_norm d v
  | .slice _ xs => by simp only [norm, writeChunksL, writeChunksList_norm d xs]
  | .array _ xs => by simp only [norm, writeChunksL, writeChunksList_norm d xs]
  | .map kt vt kvs => by
    cases hr : isRec (.map kt vt kvs) with
    | true => rw [norm_of_isRec hr]
    | false =>
      have h := writeObjectL_map_normD d kt vt kvs
      rw [norm_map_nonrec hr] at h ⊢
      simp only [writeChunksL, h]
  | .nil | .bool _ | .int _ _ | .flt _ _ | .str _ | .bytes _
  | .mapSlice _ | .keyedMap _ | .range _ _ | .ptr _ | .nilPtr
  | .struct _ | .time _ => by simp [norm]
theorem writeChunksList_norm (d : Bool) : ∀ xs : List GoVal, writeChunksList (normList d xs) = writeChunksList xs
  | [] => rfl
  | x :: xs => by
    rw [normList, writeChunksList_consL, writeChunksList_consL, writeChunksL_norm d x, writeChunksList_norm d xs]
end

theorem stdChunks_norm (d : Bool) (v : GoVal) : stdChunks (v.norm d) = stdChunks v := by
  rw [stdChunks_eq_writeChunksL, stdChunks_eq_writeChunksL]; exact writeChunksL_norm d v

/-- the standard output layer prints representation-equivalent values alike — with drops nested in
    containers too (`d = true`), since `fixes/nested-drops-resolved` -/
theorem stdOut_respects (t d : Bool) : OutRespect t d stdOut :=
  { chunks := fun v v' h => by
      apply RRel.of_eq (fun _ => rfl)
      show stdChunks v = stdChunks v'
      rw [← stdChunks_norm d v, ← stdChunks_norm d v', h.2.2] }
