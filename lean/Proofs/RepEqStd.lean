import Liquid.Std
import Proofs.CompareLemmas
import Proofs.RepEqRender
/-!
# The standard configuration and representation equivalence (helper lemmas for C18)

With `d = false` (typed vs generic containers, fixed arrays vs slices, typed maps; drops and
pointers at the top of a binding or of an expression result), the standard printing
(`stdChunks`) and the standard comparisons respect the equivalence.
-/

open GoVal

/-! ## Printing -/

mutual
theorem sprint_norm : ∀ v : GoVal, sprint (v.norm false) = sprint v
  | .drop v => by rw [norm_drop_false]
  | .slice _ xs => by simp only [norm, sprint, sprintAll_norm xs]
  | .array _ xs => by simp only [norm, sprint, sprintAll_norm xs]
  | .map kt vt kvs => by
    cases h : isRec (.map kt vt kvs) with
    | true => rw [norm_of_isRec h]
    | false => rw [norm_map_nonrec h]; simp only [sprint, sprintKVs_norm kvs]
  | .nil | .bool _ | .int _ _ | .flt _ _ | .str _ | .bytes _
  | .mapSlice _ | .keyedMap _ | .range _ _ | .ptr _ | .nilPtr
  | .struct _ | .time _ => by simp [norm]
theorem sprintAll_norm : ∀ xs : List GoVal, sprintAll (normList false xs) = sprintAll xs
  | [] => rfl
  | x :: xs => by simp only [normList, sprintAll, sprint_norm x, sprintAll_norm xs]
theorem sprintKVs_norm : ∀ kvs : List (GoVal × GoVal), sprintKVs (normKVs false kvs) = sprintKVs kvs
  | [] => rfl
  | (k, v) :: r => by simp only [normKVs, sprintKVs, sprint_norm v, sprintKVs_norm r]
end

mutual
/-- printing in Go syntax after `values.ResolveDrops` does not see the representation, drops nested in
    containers included (`d = true`): the repair `fixes/nested-drops-resolved` -/
theorem sprintR_norm (d : Bool) : ∀ v : GoVal, sprint (v.norm d).resolveDrops = sprint v.resolveDrops
  | .drop v => by
    rw [norm]; split
    · rfl
    · rw [resolveDrops_drop]; exact sprintR_norm d v
  | .slice _ xs => by simp only [norm, resolveDrops_slice, sprint, sprintAllR_norm d xs]
  | .array _ xs => by simp only [norm, resolveDrops_slice, resolveDrops_array, sprint, sprintAllR_norm d xs]
  | .map kt vt kvs => by
    cases h : isRec (.map kt vt kvs) with
    | true => rw [norm_of_isRec h]
    | false => rw [norm_map_nonrec h]; simp only [resolveDrops_map, sprint, sprintKVsR_norm d kvs]
  | .nil | .bool _ | .int _ _ | .flt _ _ | .str _ | .bytes _
  | .mapSlice _ | .keyedMap _ | .range _ _ | .ptr _ | .nilPtr
  | .struct _ | .time _ => by simp [norm]
theorem sprintAllR_norm (d : Bool) : ∀ xs : List GoVal,
    sprintAll (resolveDropsList (normList d xs)) = sprintAll (resolveDropsList xs)
  | [] => rfl
  | x :: xs => by simp only [normList, resolveDropsList, sprintAll, sprintR_norm d x, sprintAllR_norm d xs]
theorem sprintKVsR_norm (d : Bool) : ∀ kvs : List (GoVal × GoVal),
    sprintKVs (resolveDropsVals (normKVs d kvs)) = sprintKVs (resolveDropsVals kvs)
  | [] => rfl
  | (k, v) :: r => by simp only [normKVs, resolveDropsVals, sprintKVs, sprintR_norm d v, sprintKVsR_norm d r]
end

theorem writeObjectL_map_norm (kt vt : Ty) (kvs : List (GoVal × GoVal)) :
    writeObjectL ((GoVal.map kt vt kvs).norm false) = writeObjectL (.map kt vt kvs) := by
  have h := sprintR_norm false (.map kt vt kvs)
  cases hr : isRec (.map kt vt kvs) with
  | true => rw [norm_of_isRec hr]
  | false =>
    rw [norm_map_nonrec hr] at h ⊢
    simpa [writeObjectL, sprintR] using h

mutual
theorem writeChunksL_norm : ∀ v : GoVal, writeChunksL (v.norm false) = writeChunksL v
  | .drop v => by rw [norm_drop_false]
  | .slice _ xs => by simp only [norm, writeChunksL, writeChunksList_norm xs]
  | .array _ xs => by simp only [norm, writeChunksL, writeChunksList_norm xs]
  | .map kt vt kvs => by
    cases hr : isRec (.map kt vt kvs) with
    | true => rw [norm_of_isRec hr]
    | false =>
      have h := writeObjectL_map_norm kt vt kvs
      rw [norm_map_nonrec hr] at h ⊢
      simp only [writeChunksL, h]
  | .nil | .bool _ | .int _ _ | .flt _ _ | .str _ | .bytes _
  | .mapSlice _ | .keyedMap _ | .range _ _ | .ptr _ | .nilPtr
  | .struct _ | .time _ => by simp [norm]
theorem writeChunksList_norm : ∀ xs : List GoVal, writeChunksList (normList false xs) = writeChunksList xs
  | [] => rfl
  | x :: xs => by
    have ih := writeChunksList_norm xs
    have hx := writeChunksL_norm x
    cases x with
    | drop v => simp only [normList, norm_drop_false, writeChunksList, ih]
    | ptr v => cases v <;> simp only [normList, norm, writeChunksList, ih]
    | slice t ys =>
      simp only [norm] at hx
      simp only [normList, norm, writeChunksList, ih, hx]
    | array t ys =>
      simp only [norm] at hx
      simp only [normList, norm, writeChunksList, ih, hx]
    | map kt vt kvs =>
      cases hr : isRec (.map kt vt kvs) with
      | true => simp only [normList, norm_of_isRec hr, writeChunksList, ih]
      | false =>
        rw [norm_map_nonrec hr] at hx
        simp only [normList, norm_map_nonrec hr, writeChunksList, ih, hx]
    | _ => simp only [normList, norm, writeChunksList, ih]
end

theorem stdChunks_norm (v : GoVal) : stdChunks (v.norm false) = stdChunks v := by
  unfold stdChunks
  cases v with
  | drop w => rw [norm_drop_false]
  | ptr w => simp [norm]
  | slice t xs => simpa [toLiquid, norm] using writeChunksL_norm (.slice t xs)
  | array t xs => simpa [toLiquid, norm] using writeChunksL_norm (.array t xs)
  | map kt vt kvs =>
    cases hr : isRec (.map kt vt kvs) with
    | true => rw [norm_of_isRec hr]
    | false =>
      have h := writeChunksL_norm (.map kt vt kvs)
      rw [norm_map_nonrec hr] at h ⊢
      simpa [toLiquid] using h
  | _ => simp [norm]

/-- the standard output layer prints representation-equivalent values alike (`d = false`) -/
theorem stdOut_respects (t : Bool) : OutRespect t false stdOut :=
  { chunks := fun v v' h => by
      apply RRel.of_eq (fun _ => rfl)
      show stdChunks v = stdChunks v'
      rw [← stdChunks_norm v, ← stdChunks_norm v', h.2.2] }
