import Liquid.Generated.TokenRe
import Proofs.TokenReLemmas
/-!
# Obligation of translator T4: the model's token expression is the pattern the source builds

`translate/tokenre` (go/ast, nothing executed) writes `genTokenReSrc`: the string-building expressions of
`parser.formTokenMatcher` — the `fmt.Sprintf` format literal, its arguments, the `range` loop that fills
the exclusion alternatives — as data. `TokenReSrc.pattern` evaluates them for a delimiter list: the text
`regexp.MustCompile` receives. `Re.toGoSyntax` writes the model's `tokenRe` (`Liquid/Scan.lean`) in Go
syntax, in the normal form documented in `Liquid/TokenReSrc.lean`; the source differs from that normal
form in one spelling, `(?s:.+?)` for `(?s:.)+?` (scope of the flag `s`), which `TokenReSrc.normalized`
rewrites in the format literal before evaluation.

* `token_re_is_source` — THE OBLIGATION, re-checked by kernel evaluation on every run: for the default
  delimiters `{{ }} {% %}` the text built by the extracted expressions is the printed model expression.
* `token_re_src_is_standard` — re-checked on every run: the extracted structure is `stdTokenReSrc`.
* `token_re_is_source_all` — for EVERY delimiter quadruple whose tag-right delimiter is ASCII (the loop
  of the source ranges over runes; `pattern` is `none` otherwise) the same equality, by proof about the
  printer (no evaluation); `token_re_of_scan_delims` instantiates it to the list `Scan` passes after its
  defaulting.
* `tokenRe_groupOrder` — for every quadruple the model's groups 1, 2, 3 are, in this order, the opening
  parentheses of the printed text: `m[2:4]`, `m[4:6]`, `m[6:8]` of `Scan` are the model's captures 1, 2, 3.

What this does not say: that Go's `regexp` reads the printed text as the model's matcher reads the
expression. That is the business of the correspondence streams (`scan`, `delims`: `Scan` itself on
both sides).
-/

/-- **T4, structure.** `formTokenMatcher` as extracted is the structure the theorems below are proved
for: this format literal, these five `Sprintf` arguments, the loop over `delims[3]` appending
`QuoteMeta(delims[3][0:idx]) + "[^" + QuoteMeta(string(val)) + "]"`. -/
theorem token_re_src_is_standard : genTokenReSrc = stdTokenReSrc := by decide

/-- **T4 obligation.** For the default delimiters, the text the source hands to `regexp.MustCompile`
(flag scope normalised) is the model's `tokenRe` printed in Go syntax:
``\{\{-?\s*((?s:.)+?)\s*-?\}\}|\{%-?\s*(\w+)(?:\s+((?:[^%]|%[^\}])+?))?\s*-?%\}``. -/
theorem token_re_is_source :
    genTokenReSrc.normalized.pattern Delims.default.toList = some (tokenRe Delims.default).toGoSyntax := by decide

/-- the normalisation rewrites one place of the format literal: `(?s:.+?)` becomes `(?s:.)+?` between an
unchanged prefix ``%s-?\s*(`` and an unchanged rest -/
theorem token_re_normalisation_is_flag_scope :
    ∃ pre post : Bytes,
      genTokenReSrc.format = pre ++ [40, 63, 115, 58, 46, 43, 63, 41] ++ post ∧
      genTokenReSrc.normalized.format = pre ++ [40, 63, 115, 58, 46, 41, 43, 63] ++ post :=
  ⟨[37, 115, 45, 63, 92, 115, 42, 40],
   [41, 92, 115, 42, 45, 63, 37, 115, 124, 37, 115, 45, 63, 92, 115, 42, 40, 92, 119, 43, 41, 40, 63, 58, 92, 115, 43, 40,
    40, 63, 58, 37, 115, 41, 43, 63, 41, 41, 63, 92, 115, 42, 45, 63, 37, 115], by decide, by decide⟩

/-- **T4, all delimiters.** For every delimiter quadruple with an ASCII tag-right delimiter, the text
`formTokenMatcher` builds (flag scope normalised) is the printed `tokenRe`.

Satisfiable and non-trivial: see the examples below (`<`, `>`, `[`, `]`; `<<`, `>>`, `(%`, `%)]`). -/
theorem token_re_is_source_all (d : Delims) (h : isAscii d.tr = true) :
    genTokenReSrc.normalized.pattern d.toList = some (tokenRe d).toGoSyntax := by
  rw [token_re_src_is_standard, tokenRe_toGoSyntax]
  exact pattern_std d.ol d.or d.tl d.tr h

/-- the same for the delimiters `Scan` uses for ANY configured list (after its defaulting of a list that
is not four entries, and of empty entries) -/
theorem token_re_of_scan_delims (l : List Bytes) (h : isAscii (Delims.ofList l).tr = true) :
    genTokenReSrc.normalized.pattern (Delims.ofList l).toList = some (tokenRe (Delims.ofList l)).toGoSyntax :=
  token_re_is_source_all _ h

/-- outside the fragment the source side answers `none` rather than a wrong text: a non-ASCII tag-right
delimiter (the `range` loop of the source then iterates over runes, not bytes) -/
theorem token_re_pattern_none_of_nonAscii (d : Delims) (h : isAscii d.tr = false) :
    genTokenReSrc.normalized.pattern d.toList = none := by
  rw [token_re_src_is_standard]
  unfold TokenReSrc.pattern
  have h3 : (d.toList)[stdTokenReSrc.normalized.exclOver]? = some d.tr := rfl
  rw [h3]; simp [h]

/-- the capture groups of the printed text are the model's groups 1, 2, 3, in this order, whatever the
delimiters: object arguments, tag name, tag arguments -/
theorem tokenRe_groupOrder (d : Delims) : (tokenRe d).groupOrder = [1, 2, 3] := tokenRe_groupOrder_eq d

/-! ## Examples -/

/-- one-byte delimiters `<` `>` `[` `]`: ``<-?\s*((?s:.)+?)\s*-?>|\[-?\s*(\w+)(?:\s+((?:[^\]])+?))?\s*-?\]`` —
the single alternative keeps the source's redundant group -/
example : genTokenReSrc.normalized.pattern [[60], [62], [91], [93]] = some
    [60, 45, 63, 92, 115, 42, 40, 40, 63, 115, 58, 46, 41, 43, 63, 41, 92, 115, 42, 45, 63, 62, 124,
     92, 91, 45, 63, 92, 115, 42, 40, 92, 119, 43, 41, 40, 63, 58, 92, 115, 43, 40, 40, 63, 58, 91, 94, 92, 93, 93, 41,
     43, 63, 41, 41, 63, 92, 115, 42, 45, 63, 92, 93] := by decide
example : (tokenRe ⟨[60], [62], [91], [93]⟩).toGoSyntax =
    [60, 45, 63, 92, 115, 42, 40, 40, 63, 115, 58, 46, 41, 43, 63, 41, 92, 115, 42, 45, 63, 62, 124,
     92, 91, 45, 63, 92, 115, 42, 40, 92, 119, 43, 41, 40, 63, 58, 92, 115, 43, 40, 40, 63, 58, 91, 94, 92, 93, 93, 41,
     43, 63, 41, 41, 63, 92, 115, 42, 45, 63, 92, 93] := by decide

/-- the hypothesis of `token_re_is_source_all` holds for `<<` `>>` `(%` `%)]` (three exclusion alternatives,
every delimiter needs quoting somewhere) and the conclusion is a genuine text -/
example : isAscii (Delims.mk [60, 60] [62, 62] [40, 37] [37, 41, 93]).tr = true := by decide
example : (genTokenReSrc.normalized.pattern (Delims.mk [60, 60] [62, 62] [40, 37] [37, 41, 93]).toList).isSome = true := by decide

/-- `Scan`'s defaulting: `Delims("", "", "[[", "")` keeps `%}` as tag-right delimiter -/
example : isAscii (Delims.ofList [[], [], [91, 91], []]).tr = true := by decide

/-- a non-ASCII tag-right delimiter (`»`, C2 BB) is outside the fragment -/
example : genTokenReSrc.normalized.pattern [[123, 123], [125, 125], [123, 37], [194, 187]] = none := by decide

/-- the printer on small expressions: `a|b` is wrapped under concatenation and under `*`; `a?`, `a+?`, `(a)` -/
example : (Re.seq (.alt (.chr (.eq 97)) (.chr (.eq 98))) (.chr (.eq 99))).toGoSyntax = [40, 63, 58, 97, 124, 98, 41, 99] := by decide
example : (Re.star true (.alt (.chr (.eq 97)) (.chr (.eq 98)))).toGoSyntax = [40, 63, 58, 97, 124, 98, 41, 42] := by decide
example : (Re.opt (.chr (.eq 97))).toGoSyntax = [97, 63] := by decide
example : (Re.plusLazy (.chr (.eq 46))).toGoSyntax = [92, 46, 43, 63] := by decide
example : (Re.group 1 (.chr .anyNoNL)).toGoSyntax = [40, 46, 41] := by decide
