import Proofs.E2EScan
import Proofs.E2ECompile
/-!
# Two spellings of one template: the token lists agree up to the source text of tags and objects
-/

theorem countNL_delim {l : Bytes} (h : ∀ b ∈ l, delimByte b = true) : countNL l = 0 := by
  unfold countNL
  rw [List.count_eq_zero]
  intro hm
  have := h 10 hm
  revert this; decide

/-- the newlines of an item's spelling do not depend on the delimiters -/
def Item.nl : Item → Nat
  | .text s => countNL s
  | .obj args hl hr wl wr => countNL (hyB hl ++ (wl ++ (args ++ (wr ++ hyB hr))))
  | .tag name args hl hr wl wm wr => countNL (hyB hl ++ (wl ++ (name ++ (tagArgPart args wm ++ (wr ++ hyB hr)))))

theorem Item.spell_nl (d : Delims) (hg : GoodDelims d) (it : Item) : countNL (it.spell d) = it.nl := by
  obtain ⟨_, _, _, _, h1, h2, h3, h4, _, _⟩ := hg
  cases it with
  | text s => rfl
  | obj args hl hr wl wr =>
    simp only [Item.spell, Item.nl, countNL_append, countNL_delim h1, countNL_delim h2]
    omega
  | tag name args hl hr wl wm wr =>
    simp only [Item.spell, Item.nl, countNL_append, countNL_delim h3, countNL_delim h4]
    omega

theorem Item.tokens_unsrc (d d' : Delims) (line : Nat) (it : Item) :
    (it.tokens d line).map unsrc = (it.tokens d' line).map unsrc := by
  cases it with
  | text s => rfl
  | obj args hl hr wl wr => cases hl <;> cases hr <;> simp [Item.tokens, unsrc]
  | tag name args hl hr wl wm wr => cases hl <;> cases hr <;> simp [Item.tokens, unsrc]

theorem tokensOf_unsrc (d d' : Delims) (hg : GoodDelims d) (hg' : GoodDelims d') : ∀ (items : List Item) (line : Nat),
    (tokensOf d items line).map unsrc = (tokensOf d' items line).map unsrc
  | [], _ => rfl
  | it :: r, line => by
    simp only [tokensOf, List.map_append, Item.spell_nl d hg, Item.spell_nl d' hg', Item.tokens_unsrc d d' line it,
      tokensOf_unsrc d d' hg hg' r]

def Item.isTagNamed (n : Bytes) : Item → Bool
  | .tag name _ _ _ _ _ _ => name == n
  | _ => false

/-- every tag named `raw` is followed — at once, or after ONE text item (the body) — by a tag named `endraw` -/
def rawClosed : List Item → Bool
  | [] => true
  | it :: r =>
    if it.isTagNamed rawName then
      match r with
      | [] => false
      | e :: r' =>
        if e.isTagNamed endrawName then rawClosed r'
        else match e, r' with
          | .text _, e' :: r'' => e'.isTagNamed endrawName && rawClosed r''
          | _, _ => false
    else rawClosed r

/-- the raw blocks of the template are closed and their bodies are texts (`rawClosed`) -/
def RawClosed (items : List Item) : Prop := rawClosed items = true

instance (items : List Item) : Decidable (RawClosed items) := by unfold RawClosed; infer_instance

theorem rawSafe_trimL (b : Bool) (ts : List Token) : rawSafe b (({ ty := .trimL } : Token) :: ts) = rawSafe b ts := by
  cases b <;> rfl

theorem rawSafe_trimR (b : Bool) (ts : List Token) : rawSafe b (({ ty := .trimR } : Token) :: ts) = rawSafe b ts := by
  cases b <;> rfl

theorem rawSafe_tag_false (t : Token) (ts : List Token) (h : t.ty = .tag) :
    rawSafe false (t :: ts) = rawSafe (t.name == rawName) ts := by simp [rawSafe, h]

theorem rawSafe_obj_false (t : Token) (ts : List Token) (h : t.ty = .obj) :
    rawSafe false (t :: ts) = rawSafe false ts := by
  have : (TokTy.obj == TokTy.tag) = false := rfl
  simp [rawSafe, h, this]

theorem rawSafe_endraw_tok (t : Token) (ts : List Token) (h : isEndRaw t = true) :
    rawSafe true (t :: ts) = rawSafe false ts := by simp [rawSafe, h]

/-- an item's tokens outside a raw block: the flag afterwards says whether the item is a `raw` tag -/
theorem rawSafe_item_false (d : Delims) (l : Nat) (it : Item) (ts : List Token) :
    rawSafe false (it.tokens d l ++ ts) = rawSafe (it.isTagNamed rawName) ts := by
  cases it with
  | text s => rfl
  | obj args hl hr wl wr =>
    cases hl <;> cases hr <;>
      simp only [Item.tokens, if_true, Bool.false_eq_true, if_false, List.nil_append, List.append_nil, List.cons_append,
        rawSafe_trimL] <;>
      rw [rawSafe_obj_false _ _ rfl] <;> simp only [rawSafe_trimR, Item.isTagNamed]
  | tag name args hl hr wl wm wr =>
    cases hl <;> cases hr <;>
      simp only [Item.tokens, if_true, Bool.false_eq_true, if_false, List.nil_append, List.append_nil, List.cons_append,
        rawSafe_trimL] <;>
      rw [rawSafe_tag_false _ _ rfl] <;> simp only [rawSafe_trimR, Item.isTagNamed]

/-- inside a raw block: a text keeps the block open, the `endraw` tag closes it -/
theorem rawSafe_text_true (d : Delims) (l : Nat) (s : Bytes) (ts : List Token) :
    rawSafe true ((Item.text s).tokens d l ++ ts) = rawSafe true ts := rfl

theorem rawSafe_endraw_true (d : Delims) (l : Nat) (it : Item) (h : it.isTagNamed endrawName = true) (ts : List Token) :
    rawSafe true (it.tokens d l ++ ts) = rawSafe false ts := by
  cases it with
  | text s => cases h
  | obj args hl hr wl wr => cases h
  | tag name args hl hr wl wm wr =>
    have hn : name = endrawName := by simpa [Item.isTagNamed] using h
    subst hn
    cases hl <;> cases hr <;>
      simp only [Item.tokens, if_true, Bool.false_eq_true, if_false, List.nil_append, List.append_nil, List.cons_append,
        rawSafe_trimL] <;>
      rw [rawSafe_endraw_tok _ _ (by simp [isEndRaw])] <;> simp only [rawSafe_trimR]

theorem tokensOf_rawSafe (d : Delims) : ∀ (k : Nat) (items : List Item) (line : Nat), items.length ≤ k → RawClosed items →
    rawSafe false (tokensOf d items line) = true := by
  intro k
  induction k with
  | zero =>
    intro items line hk _
    have : items = [] := List.eq_nil_of_length_eq_zero (Nat.le_zero.mp hk)
    subst this; rfl
  | succ k ih =>
    intro items line hk h
    cases items with
    | nil => rfl
    | cons it r =>
      unfold RawClosed at h
      simp only [tokensOf, rawSafe_item_false]
      simp only [List.length_cons] at hk
      cases hraw : it.isTagNamed rawName with
      | false =>
        unfold rawClosed at h
        simp only [hraw, Bool.false_eq_true, if_false] at h
        exact ih r _ (by omega) h
      | true =>
        unfold rawClosed at h
        simp only [hraw, if_true] at h
        cases r with
        | nil => cases h
        | cons e r' =>
          simp only at h
          simp only [tokensOf]
          cases he : e.isTagNamed endrawName with
          | true =>
            simp only [he, if_true] at h
            rw [rawSafe_endraw_true d _ e he]
            exact ih r' _ (by simp only [List.length_cons] at hk; omega) h
          | false =>
            simp only [he, Bool.false_eq_true, if_false] at h
            cases e with
            | obj args hl hr wl wr => cases h
            | tag name args hl hr wl wm wr => cases h
            | text s =>
              cases r' with
              | nil => cases h
              | cons e' r'' =>
                simp only [Bool.and_eq_true] at h
                simp only [tokensOf]
                rw [rawSafe_text_true, rawSafe_endraw_true d _ e' h.1]
                exact ih r'' _ (by simp only [List.length_cons] at hk; omega) h.2

/-! ## Tokens of a template, item by item -/

/-- the located token of an item -/
def Item.mainTok (d : Delims) (line : Nat) : Item → Token
  | .text s => { ty := .text, line := line, source := s }
  | .obj args hl hr wl wr => { ty := .obj, line := line, args := args, source := (Item.obj args hl hr wl wr).spell d }
  | .tag name args hl hr wl wm wr =>
    { ty := .tag, line := line, name := name, args := args, source := (Item.tag name args hl hr wl wm wr).spell d }

theorem Item.tokens_mem (d : Delims) (line : Nat) (it : Item) (t : Token) (h : t ∈ it.tokens d line) :
    t = { ty := .trimL } ∨ t = { ty := .trimR } ∨ t = it.mainTok d line := by
  cases it with
  | text s => simp only [Item.tokens, List.mem_singleton] at h; exact .inr (.inr h)
  | obj args hl hr wl wr =>
    simp only [Item.tokens, List.mem_append, List.mem_singleton] at h
    rcases h with (h | h) | h
    · split at h
      · exact .inl (List.mem_singleton.mp h)
      · cases h
    · exact .inr (.inr h)
    · split at h
      · exact .inr (.inl (List.mem_singleton.mp h))
      · cases h
  | tag name args hl hr wl wm wr =>
    simp only [Item.tokens, List.mem_append, List.mem_singleton] at h
    rcases h with (h | h) | h
    · split at h
      · exact .inl (List.mem_singleton.mp h)
      · cases h
    · exact .inr (.inr h)
    · split at h
      · exact .inr (.inl (List.mem_singleton.mp h))
      · cases h

theorem tokensOf_forall (d : Delims) (Q : Token → Prop) (hL : Q { ty := .trimL }) (hR : Q { ty := .trimR }) :
    ∀ (items : List Item) (line : Nat), (∀ it ∈ items, ∀ l, Q (it.mainTok d l)) → ∀ t ∈ tokensOf d items line, Q t
  | [], _, _, t, ht => by simp [tokensOf] at ht
  | it :: r, line, h, t, ht => by
    simp only [tokensOf, List.mem_append] at ht
    rcases ht with ht | ht
    · rcases Item.tokens_mem d line it t ht with rfl | rfl | rfl
      · exact hL
      · exact hR
      · exact h it (List.mem_cons_self ..) line
    · exact tokensOf_forall d Q hL hR r _ (fun x hx => h x (List.mem_cons_of_mem _ hx)) t ht

theorem tokensOf_append (d : Delims) : ∀ (a b : List Item) (line : Nat),
    tokensOf d (a ++ b) line = tokensOf d a line ++ tokensOf d b (line + countNL (spell d a))
  | [], b, line => by simp [tokensOf, spell, countNL]
  | it :: a, b, line => by
    simp only [List.cons_append, tokensOf, spell, tokensOf_append d a b, countNL_append, List.append_assoc, Nat.add_assoc]

theorem spell_append (d : Delims) : ∀ (a b : List Item), spell d (a ++ b) = spell d a ++ spell d b
  | [], b => rfl
  | it :: a, b => by simp only [List.cons_append, spell, spell_append d a b, List.append_assoc]

theorem Item.tokens_srcs (d : Delims) (line : Nat) (it : Item) : srcs (it.tokens d line) = it.spell d := by
  cases it with
  | text s => simp [Item.tokens, Item.spell]
  | obj args hl hr wl wr => cases hl <;> cases hr <;> simp [Item.tokens]
  | tag name args hl hr wl wm wr => cases hl <;> cases hr <;> simp [Item.tokens]

theorem tokensOf_srcs (d : Delims) : ∀ (items : List Item) (line : Nat), srcs (tokensOf d items line) = spell d items
  | [], _ => rfl
  | it :: r, line => by simp only [tokensOf, srcs_append, Item.tokens_srcs, tokensOf_srcs d r, spell]

theorem firstUnmodelledObj_none_of_forall : ∀ (toks : List Token),
    (∀ t ∈ toks, t.ty = .obj → ∀ w, parseExprSource t.args ≠ .unmodelled w) → firstUnmodelledObj toks = none
  | [], _ => rfl
  | t :: ts, h => by
    have ih := firstUnmodelledObj_none_of_forall ts (fun x hx => h x (List.mem_cons_of_mem _ hx))
    simp only [firstUnmodelledObj]
    split
    · next ht =>
      split
      · next w hw => exact absurd hw (h t (List.mem_cons_self ..) (by simpa using ht) w)
      · exact ih
    · exact ih
