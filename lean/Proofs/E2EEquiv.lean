import Proofs.E2EScan
import Proofs.E2ECompile
/-!
# Two spellings of one template: the token lists agree up to the source text of tags and objects
-/

theorem countNL_delim {l : Bytes} (h : ∀ b ∈ l, delimByte b = true) : countNL l = 0 := by
  unfold countNL
  rw [List.count_eq_zero]
  intro hm
  have := h 10 hm
  revert this; decide

/-- the newlines of an item's spelling do not depend on the delimiters -/
def Item.nl : Item → Nat
  | .text s => countNL s
  | .obj args hl hr wl wr => countNL (hyB hl ++ (wl ++ (args ++ (wr ++ hyB hr))))
  | .tag name args hl hr wl wm wr => countNL (hyB hl ++ (wl ++ (name ++ (tagArgPart args wm ++ (wr ++ hyB hr)))))

theorem Item.spell_nl (d : Delims) (hg : GoodDelims d) (it : Item) : countNL (it.spell d) = it.nl := by
  obtain ⟨_, _, _, _, h1, h2, h3, h4, _, _⟩ := hg
  cases it with
  | text s => rfl
  | obj args hl hr wl wr =>
    simp only [Item.spell, Item.nl, countNL_append, countNL_delim h1, countNL_delim h2]
    omega
  | tag name args hl hr wl wm wr =>
    simp only [Item.spell, Item.nl, countNL_append, countNL_delim h3, countNL_delim h4]
    omega

theorem Item.tokens_unsrc (d d' : Delims) (line : Nat) (it : Item) :
    (it.tokens d line).map unsrc = (it.tokens d' line).map unsrc := by
  cases it with
  | text s => rfl
  | obj args hl hr wl wr => cases hl <;> cases hr <;> simp [Item.tokens, unsrc]
  | tag name args hl hr wl wm wr => cases hl <;> cases hr <;> simp [Item.tokens, unsrc]

theorem tokensOf_unsrc (d d' : Delims) (hg : GoodDelims d) (hg' : GoodDelims d') : ∀ (items : List Item) (line : Nat),
    (tokensOf d items line).map unsrc = (tokensOf d' items line).map unsrc
  | [], _ => rfl
  | it :: r, line => by
    simp only [tokensOf, List.map_append, Item.spell_nl d hg, Item.spell_nl d' hg', Item.tokens_unsrc d d' line it,
      tokensOf_unsrc d d' hg hg' r]

def Item.isRawTag : Item → Bool
  | .tag name _ _ _ _ _ _ => name == rawName
  | _ => false

/-- no tag of the template is named `raw` -/
def NoRawTag (items : List Item) : Prop := ∀ it ∈ items, it.isRawTag = false

instance (items : List Item) : Decidable (NoRawTag items) := by unfold NoRawTag; infer_instance

theorem tokensOf_noRaw (d : Delims) : ∀ (items : List Item) (line : Nat), NoRawTag items →
    ∀ t ∈ tokensOf d items line, ¬ (t.ty = .tag ∧ t.name = rawName)
  | [], _, _, t, ht => by simp [tokensOf] at ht
  | it :: r, line, h, t, ht => by
    simp only [tokensOf, List.mem_append] at ht
    rcases ht with ht | ht
    · have hit := h it (List.mem_cons_self ..)
      cases it with
      | text s =>
        simp only [Item.tokens, List.mem_singleton] at ht
        subst ht; intro hx; cases hx.1
      | obj args hl hr wl wr =>
        simp only [Item.tokens, List.mem_append, List.mem_singleton] at ht
        rcases ht with (ht | ht) | ht
        · split at ht
          · simp only [List.mem_singleton] at ht; subst ht; intro hx; cases hx.1
          · cases ht
        · subst ht; intro hx; cases hx.1
        · split at ht
          · simp only [List.mem_singleton] at ht; subst ht; intro hx; cases hx.1
          · cases ht
      | tag name args hl hr wl wm wr =>
        simp only [Item.tokens, List.mem_append, List.mem_singleton] at ht
        rcases ht with (ht | ht) | ht
        · split at ht
          · simp only [List.mem_singleton] at ht; subst ht; intro hx; cases hx.1
          · cases ht
        · subst ht; intro hx; simp only [Item.isRawTag, beq_eq_false_iff_ne] at hit; exact hit hx.2
        · split at ht
          · simp only [List.mem_singleton] at ht; subst ht; intro hx; cases hx.1
          · cases ht
    · exact tokensOf_noRaw d r _ (fun x hx => h x (List.mem_cons_of_mem _ hx)) t ht

/-! ## Tokens of a template, item by item -/

/-- the located token of an item -/
def Item.mainTok (d : Delims) (line : Nat) : Item → Token
  | .text s => { ty := .text, line := line, source := s }
  | .obj args hl hr wl wr => { ty := .obj, line := line, args := args, source := (Item.obj args hl hr wl wr).spell d }
  | .tag name args hl hr wl wm wr =>
    { ty := .tag, line := line, name := name, args := args, source := (Item.tag name args hl hr wl wm wr).spell d }

theorem Item.tokens_mem (d : Delims) (line : Nat) (it : Item) (t : Token) (h : t ∈ it.tokens d line) :
    t = { ty := .trimL } ∨ t = { ty := .trimR } ∨ t = it.mainTok d line := by
  cases it with
  | text s => simp only [Item.tokens, List.mem_singleton] at h; exact .inr (.inr h)
  | obj args hl hr wl wr =>
    simp only [Item.tokens, List.mem_append, List.mem_singleton] at h
    rcases h with (h | h) | h
    · split at h
      · exact .inl (List.mem_singleton.mp h)
      · cases h
    · exact .inr (.inr h)
    · split at h
      · exact .inr (.inl (List.mem_singleton.mp h))
      · cases h
  | tag name args hl hr wl wm wr =>
    simp only [Item.tokens, List.mem_append, List.mem_singleton] at h
    rcases h with (h | h) | h
    · split at h
      · exact .inl (List.mem_singleton.mp h)
      · cases h
    · exact .inr (.inr h)
    · split at h
      · exact .inr (.inl (List.mem_singleton.mp h))
      · cases h

theorem tokensOf_forall (d : Delims) (Q : Token → Prop) (hL : Q { ty := .trimL }) (hR : Q { ty := .trimR }) :
    ∀ (items : List Item) (line : Nat), (∀ it ∈ items, ∀ l, Q (it.mainTok d l)) → ∀ t ∈ tokensOf d items line, Q t
  | [], _, _, t, ht => by simp [tokensOf] at ht
  | it :: r, line, h, t, ht => by
    simp only [tokensOf, List.mem_append] at ht
    rcases ht with ht | ht
    · rcases Item.tokens_mem d line it t ht with rfl | rfl | rfl
      · exact hL
      · exact hR
      · exact h it (List.mem_cons_self ..) line
    · exact tokensOf_forall d Q hL hR r _ (fun x hx => h x (List.mem_cons_of_mem _ hx)) t ht

theorem tokensOf_append (d : Delims) : ∀ (a b : List Item) (line : Nat),
    tokensOf d (a ++ b) line = tokensOf d a line ++ tokensOf d b (line + countNL (spell d a))
  | [], b, line => by simp [tokensOf, spell, countNL]
  | it :: a, b, line => by
    simp only [List.cons_append, tokensOf, spell, tokensOf_append d a b, countNL_append, List.append_assoc, Nat.add_assoc]

theorem spell_append (d : Delims) : ∀ (a b : List Item), spell d (a ++ b) = spell d a ++ spell d b
  | [], b => rfl
  | it :: a, b => by simp only [List.cons_append, spell, spell_append d a b, List.append_assoc]

theorem Item.tokens_srcs (d : Delims) (line : Nat) (it : Item) : srcs (it.tokens d line) = it.spell d := by
  cases it with
  | text s => simp [Item.tokens, Item.spell]
  | obj args hl hr wl wr => cases hl <;> cases hr <;> simp [Item.tokens]
  | tag name args hl hr wl wm wr => cases hl <;> cases hr <;> simp [Item.tokens]

theorem tokensOf_srcs (d : Delims) : ∀ (items : List Item) (line : Nat), srcs (tokensOf d items line) = spell d items
  | [], _ => rfl
  | it :: r, line => by simp only [tokensOf, srcs_append, Item.tokens_srcs, tokensOf_srcs d r, spell]

theorem firstUnmodelledObj_none_of_forall : ∀ (toks : List Token),
    (∀ t ∈ toks, t.ty = .obj → ∀ w, parseExprSource t.args ≠ .unmodelled w) → firstUnmodelledObj toks = none
  | [], _ => rfl
  | t :: ts, h => by
    have ih := firstUnmodelledObj_none_of_forall ts (fun x hx => h x (List.mem_cons_of_mem _ hx))
    simp only [firstUnmodelledObj]
    split
    · next ht =>
      split
      · next w hw => exact absurd hw (h t (List.mem_cons_self ..) (by simpa using ht) w)
      · exact ih
    · exact ih
