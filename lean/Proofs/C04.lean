import Liquid.Conc
import Liquid.ConcFacts
import Liquid.Generated.Writes
import Proofs.ConcLemmas
/-!
# C04 — concurrent parse/render on a shared engine is race-free and equals sequential

Three parts (DESIGN 6, C04):

* `conc_race_free`, `conc_eq_sequential` (and `conc_prefix_sequential`, `conc_shared_unchanged`,
  `conc_enough_turns_finishes`): theorems about the interleaving machine of `Liquid/Conc.lean`
  for **all schedules** (induction on the schedule), under the ownership discipline "every
  write of a thread targets a location that thread allocated; no thread reads another
  thread's allocations".
* `no_shared_writes`: the static premise for the *code*, re-proved by `decide` on every run over
  the table that translator T3 regenerates from the Go source: no closure that outlives its
  creator writes a variable it captured (a compile-time variable written at render time), no
  package-level variable is written outside `init`. Reintroducing such a write makes this
  theorem fail to build.
* The `conc` correspondence stream runs the real code under the race detector for sampled
  schedules (N ∈ {2,…,32} goroutines × GOMAXPROCS ∈ {1,2,4,16}); it is sampling, labelled so.
-/

open Conc

/-- **Race freedom, all schedules.** If every write of every thread targets a location owned
by that thread, and no thread reads another thread's allocations, then no schedule produces a
trace with two conflicting accesses (different threads, same location, one a write). -/
theorem conc_race_free (ts : List Thread) (σ₀ : Store) (hw : WritesOwned ts) (hr : ReadsVisible ts) :
    ∀ sched : Schedule, ¬ HasRace (run sched σ₀ ts).trace := by
  intro sched
  have hc := confined_of ts hw hr
  exact no_race_of_inv hc (inv_run σ₀ hc sched)

/-- **Prefix form of sequential equivalence, all schedules.** At every point of every
schedule, the observations of thread `i` are those of a sequential run, alone from the initial
store, of the steps it has performed so far; and every location it can see holds what that
sequential run would have left there. -/
theorem conc_prefix_sequential (ts : List Thread) (σ₀ : Store) (hw : WritesOwned ts) (hr : ReadsVisible ts)
    (sched : Schedule) (i : Tid) (st : TState) (h : (run sched σ₀ ts).threads[i]? = some st) :
    ∃ done, ts[i]? = some (done ++ st.rest) ∧ st.out = (seqRun done σ₀ []).2 ∧
      ∀ l, Visible i l → (run sched σ₀ ts).store l = (seqRun done σ₀ []).1 l :=
  (inv_run σ₀ (confined_of ts hw hr) sched).thr i st h

/-- **Concurrent = sequential, all schedules.** Under the same hypothesis, whenever thread `i`
has finished under a schedule, its result is exactly its result when run alone. -/
theorem conc_eq_sequential (ts : List Thread) (σ₀ : Store) (hw : WritesOwned ts) (hr : ReadsVisible ts)
    (sched : Schedule) (i : Tid) (t : Thread) (ht : ts[i]? = some t)
    (hfin : (run sched σ₀ ts).finished i = true) :
    (run sched σ₀ ts).result i = some (runAlone σ₀ t) := by
  unfold Config.finished at hfin
  cases hst : (run sched σ₀ ts).threads[i]? with
  | none => rw [hst] at hfin; cases hfin
  | some st =>
    rw [hst] at hfin
    have hrest : st.rest = [] := by simpa using hfin
    obtain ⟨done, h1, h2, _⟩ := conc_prefix_sequential ts σ₀ hw hr sched i st hst
    rw [hrest, List.append_nil, ht] at h1
    have hd : t = done := Option.some.inj h1
    simp only [Config.result, hst, Option.map_some, runAlone, hd, h2]

/-- The shared region (engine configuration, compiled templates, bindings) is never modified,
under any schedule. -/
theorem conc_shared_unchanged (ts : List Thread) (σ₀ : Store) (hw : WritesOwned ts) (hr : ReadsVisible ts)
    (sched : Schedule) (l : Loc) (hl : l.owner = none) : (run sched σ₀ ts).store l = σ₀ l :=
  (inv_run σ₀ (confined_of ts hw hr) sched).shared l hl

/-- The hypothesis `finished` of `conc_eq_sequential` is reached by every schedule that gives
the thread at least as many turns as it has steps (no hypothesis on ownership needed). -/
theorem conc_enough_turns_finishes (ts : List Thread) (σ₀ : Store) (sched : Schedule) (i : Tid) (t : Thread)
    (ht : ts[i]? = some t) (hturns : t.length ≤ sched.count i) :
    (run sched σ₀ ts).finished i = true := by
  have hrem := remaining_runFrom sched i (init σ₀ ts)
  have h0 : (init σ₀ ts).remaining i = t.length := by
    simp [Config.remaining, init, List.getElem?_map, ht]
  rw [h0] at hrem
  have hz : (runFrom sched (init σ₀ ts)).remaining i = 0 := by omega
  have hlen : (runFrom sched (init σ₀ ts)).threads.length = ts.length := by
    have : ∀ (s : Schedule) (c : Config), (runFrom s c).threads.length = c.threads.length := by
      intro s
      induction s with
      | nil => intro c; rfl
      | cons j s ih =>
        intro c
        show (runFrom s (step c j)).threads.length = _
        rw [ih, step_threads_length]
    rw [this]; simp [init]
  have hi : i < ts.length := by
    cases hlt : decide (i < ts.length) with
    | true => exact of_decide_eq_true hlt
    | false =>
      have : ts[i]? = none := List.getElem?_eq_none (Nat.le_of_not_lt (of_decide_eq_false hlt))
      rw [this] at ht; cases ht
  unfold run Config.finished
  unfold Config.remaining at hz
  cases hst : (runFrom sched (init σ₀ ts)).threads[i]? with
  | none =>
    have hge := List.getElem?_eq_none_iff.mp hst
    rw [hlen] at hge
    exact absurd hi (Nat.not_lt.mpr hge)
  | some st =>
    rw [hst] at hz
    simp only [List.isEmpty_iff]
    exact List.eq_nil_of_length_eq_zero hz

/-- **The static premise for the code** (translator T3, regenerated on every run): among all
stores to captured or package-level variables in the library packages there is no store by a
closure that outlives its creator (a compile-time variable written at render time) and no
store to a package-level variable outside `init`. -/
theorem no_shared_writes :
    (sharedWrites.filter (fun w => w.cls = .capturedEscaping ∨ (w.cls = .global ∧ !w.inInit))) = [] := by
  decide

/-- The table is not empty and not trivially clean: it contains captured-variable writes that
are *not* offending (closures that stay local) and package-level writes inside `init`. (A sanity
check of the translator, with thresholds far below the counts of the current source - 14 and 50 - so
that a refactoring that removes a few local closures does not trip it.) -/
theorem shared_writes_nontrivial :
    (sharedWrites.filter (fun w => w.cls = .capturedLocal)).length ≥ 2 ∧
    (sharedWrites.filter (fun w => w.cls = .global ∧ w.inInit)).length ≥ 10 := by
  decide

/-! ## Non-vacuity

A concrete two-thread system that satisfies the hypotheses: both threads read the shared
location `x`, copy it (plus a thread-specific constant) into a location of their own, read that
back and compute an output. Under an interleaved schedule both finish with the results of
their sequential runs and the trace has no race. -/

def c04Shared : Loc := ⟨none, 0⟩
def c04Own (i : Tid) : Loc := ⟨some i, 0⟩
def c04Store : Store := fun l => if l = c04Shared then 7 else 0

def c04Good : List Thread :=
  [ [.read c04Shared, .write (c04Own 0) (fun o => o.sum + 1), .read (c04Own 0), .pure (fun o => o.sum)],
    [.read c04Shared, .write (c04Own 1) (fun o => o.sum + 2), .read (c04Own 1), .pure (fun o => o.length)] ]

example : WritesOwned c04Good ∧ ReadsVisible c04Good :=
  have h := confinedB_confined c04Good (by decide)
  ⟨confined_writesOwned _ h, confined_readsVisible _ h⟩

example : (run [0, 1, 1, 0, 1, 0, 0, 1] c04Store c04Good).result 0 = some [7, 8, 15] := by decide
example : (run [0, 1, 1, 0, 1, 0, 0, 1] c04Store c04Good).result 1 = some [7, 9, 2] := by decide
example : runAlone c04Store [.read c04Shared, .write (c04Own 0) (fun o => o.sum + 1), .read (c04Own 0),
    .pure (fun o => o.sum)] = [7, 8, 15] := by decide
example : (run [0, 1, 1, 0, 1, 0, 0, 1] c04Store c04Good).finished 0 = true := by decide
example : hasRace (run [0, 1, 1, 0, 1, 0, 0, 1] c04Store c04Good).trace = false := by decide
example : (run [0, 1, 1, 0, 1, 0, 0, 1] c04Store c04Good).trace.length = 6 := by decide

/-! A racy system — the shape of defect D10: both threads write one *shared* location (the
`err` variable captured at compile time) and read it back. The hypothesis fails, the trace of
an interleaved schedule has a race, and thread 0 returns a value it never returns alone. -/

def c04Racy : List Thread :=
  [ [.write c04Shared (fun _ => 1), .read c04Shared],
    [.write c04Shared (fun _ => 2), .read c04Shared] ]

example : confinedB c04Racy = false := by decide
example : ¬ WritesOwned c04Racy := by
  intro h
  have := h 0 _ rfl c04Shared (fun _ => 1) (by simp)
  simp [c04Shared] at this
example : HasRace (run [0, 1, 0, 1] c04Store c04Racy).trace :=
  (hasRace_iff _).mp (by decide)
example : (run [0, 1, 0, 1] c04Store c04Racy).finished 0 = true := by decide
example : (run [0, 1, 0, 1] c04Store c04Racy).result 0 = some [2] := by decide
example : runAlone c04Store [.write c04Shared (fun _ => 1), .read c04Shared] = [1] := by decide
