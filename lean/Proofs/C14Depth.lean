import Proofs.IncludeDepthLemmas
/-!
# C14 / C01 — the include nesting limit: cyclic layouts end in an error

`rendererContext.RenderFile` (`render/context.go`) refuses with the plain error
`include nesting too deep (more than 100 levels) at <filename>` when the render it is called from is already
nested in `maxIncludeDepth` (= 100) include tags; the test comes BEFORE the file is read. In the model the
remaining levels are the fuel of `incFuel` (`fuel = maxIncludeDepth - depth`): at fuel 0 the handler fails with
`Cause.includeDepth`, and the include node wraps that error at its tag like every other handler failure.
No theorem here has an acyclicity hypothesis on the file layout.
-/

/-- **C14 (depth limit).** At fuel 0 — the render is nested in `maxIncludeDepth` include tags — every include
    tag whose argument evaluates to a string fails with the depth error located at that tag (its line, the
    including template's path; cause: the plain error of `RenderFile`), whatever the file system holds: a file
    that is missing, unreadable, does not compile or would render is not even looked at. (The ARGUMENT is
    evaluated first: a tag whose argument fails or is not a string reports that, see `include_nonstring_err`.) -/
theorem include_depth_error (P : Prims) (O : OutPrims) (cfg : Cfg) (fs : FS) (line : Nat) (args : Bytes) (s : RS)
    (e : Expr) (rel : Bytes) (he : parseExprSource args = .ok e) (hv : evaluate P s.env e = .ok (.str rel)) :
    renderNode (mkCtx P O cfg fs 0) (.incl line args) s = .fail (.located ⟨line, true, .includeDepth, .byCause⟩) :=
  include_plain_err_located (mkCtx P O cfg fs 0) line args s e rel _ he hv rfl

/-- `{% include "f" %}` at line 4 of `d/t` at the limit: the depth error at line 4, on a file system that has the
    file … -/
example (P : Prims) (O : OutPrims) :
    renderNode (mkCtx P O { path := [100, 47, 116] } ⟨fun _ => .content [104, 105], fun _ => none⟩ 0) (.incl 4 [34, 102, 34]) ⟨[], {}⟩ =
      .fail (.located ⟨4, true, .includeDepth, .byCause⟩) :=
  include_depth_error P O { path := [100, 47, 116] } ⟨fun _ => .content [104, 105], fun _ => none⟩ 4 [34, 102, 34] ⟨[], {}⟩
    (.lit (.str [102])) [102] rfl rfl
/-- … and on one that does not: the depth test comes before the read (one level higher the same tag reports
    not-exist, `include_missing_located`) -/
example (P : Prims) (O : OutPrims) :
    renderNode (mkCtx P O { path := [100, 47, 116] } ⟨fun _ => .notExist, fun _ => none⟩ 0) (.incl 4 [34, 102, 34]) ⟨[], {}⟩ =
      .fail (.located ⟨4, true, .includeDepth, .byCause⟩) :=
  include_depth_error P O { path := [100, 47, 116] } ⟨fun _ => .notExist, fun _ => none⟩ 4 [34, 102, 34] ⟨[], {}⟩
    (.lit (.str [102])) [102] rfl rfl

/-- **C14/C01 (a file that includes itself fails, at every fuel).** The template `{% include "a" %}` (either quote,
    any white space, any good delimiters) on a layout where `dir(path)/a` holds a source that compiles to literal
    text (possibly none) followed by an include tag with the same literal argument — the file includes itself
    unconditionally; what follows the tag is arbitrary — returns an ERROR for every fuel, start line and
    environment: never output, never `unmodelled`, never a panic. The recursion ends because the handler of
    fuel 0 is the depth error; no acyclicity is assumed (the layout IS cyclic). -/
theorem include_cycle_fails (P : Prims) (O : OutPrims) (cfg : Cfg) (fs : FS) (fuel : Nat) (line : Nat) (env : Env)
    (q : UInt8) (a : Bytes) (w : Ws) (hq : q = 34 ∨ q = 39) (hn : q ∉ a)
    (hg : GoodDelims (Delims.ofList cfg.delims)) (hc : Clean (Delims.ofList cfg.delims) [includeItem q a w])
    (body : Bytes) (pre rest : List Node) (l0 : Nat)
    (hfile : fileSource fs (joinPath (dirPath cfg.path) a) = some body)
    (hbody : compileSource cfg.delims body 0 = .ok (pre ++ Node.incl l0 (q :: a ++ [q]) :: rest))
    (hpre : ∀ t ∈ pre, ∃ tl b, t = Node.text tl b) :
    ∃ e, run P O cfg fs fuel (spell (Delims.ofList cfg.delims) [includeItem q a w]) line env = .err e := by
  unfold includeItem at hc ⊢
  rw [run_spell P O cfg fs fuel _ line env hg hc, tokensOf_tg, tokensOf_nil, compile_include]
  show ∃ e, runRoot P O cfg fs fuel [.incl line (q :: a ++ [q])] env = .err e
  have hnode := incl_cycle_fails_nodes P O cfg fs a body (q :: a ++ [q]) (.lit (.str a)) hfile
    (string_literal_denotes q a hq hn) (fun _ => rfl)
    (shape_at_every_line cfg.delims body _ pre rest l0 hbody hpre) fuel
  obtain ⟨out, x, hx⟩ := renderList_texts_then_fail (mkCtx P O cfg fs fuel) (.incl line (q :: a ++ [q])) []
    (fun s => hnode line s) [] (fun _ h => by cases h) ⟨env, {}⟩
  exact runRoot_isErr_of_list_err P O cfg fs fuel _ env out x hx

/-! ### The self-including file of the defect: `a ↦ T{% include "a" %}` -/

/-- **C01/C14 (the defect's input, closed form).** The file `a` holds `T{% include "a" %}` (literal text `T`,
    then an include of itself) and the template is `{% include "a" %}` at `line`. For EVERY fuel `n` the render
    is the depth error, and it comes from exactly `n` nested levels: its line is `line + n · (newlines of T)`,
    the line of the include tag of the `n`-th nested copy of the file, where `RenderFile` refused. With the
    standard fuel `maxIncludeDepth` that is the 100th nested copy (`self_include_fails_at_100`). -/
theorem self_include_depth_error (P : Prims) (O : OutPrims) (cfg : Cfg) (fs : FS) (n : Nat) (line : Nat) (env : Env)
    (q : UInt8) (a : Bytes) (w w' : Ws) (T : Bytes) (hq : q = 34 ∨ q = 39) (hn : q ∉ a)
    (hg : GoodDelims (Delims.ofList cfg.delims)) (hc : Clean (Delims.ofList cfg.delims) [includeItem q a w])
    (hcf : Clean (Delims.ofList cfg.delims) [.text T, includeItem q a w'])
    (hfile : fileSource fs (joinPath (dirPath cfg.path) a) = some (spell (Delims.ofList cfg.delims) [.text T, includeItem q a w'])) :
    run P O cfg fs n (spell (Delims.ofList cfg.delims) [includeItem q a w]) line env =
      .err ⟨line + n * countNL T, true, .includeDepth, .byCause⟩ := by
  unfold includeItem at hc ⊢
  rw [run_spell P O cfg fs n _ line env hg hc, tokensOf_tg, tokensOf_nil, compile_include]
  show runRoot P O cfg fs n [.incl line (q :: a ++ [q])] env = _
  obtain ⟨out, hx⟩ := renderList_texts_then_fail_with (mkCtx P O cfg fs n) (.incl line (q :: a ++ [q])) []
    (.located (depthErrAt (line + n * countNL T)))
    (fun s => self_include_node_err P O cfg fs q a w' T hq hn hg hcf hfile n line s) [] (fun _ h => by cases h) ⟨env, {}⟩
  exact runRoot_err_of_list_err P O cfg fs n _ env out _ hx

/-! ## Non-vacuity, on concrete bytes -/

/-- the layout of the defect: `a` holds `x⏎{% include "a" %}` -/
def selfFs : FS := ⟨fun p => if p = [97] then .content [120, 10, 123, 37, 32, 105, 110, 99, 108, 117, 100, 101, 32, 34, 97, 34, 32, 37, 125] else .notExist, fun _ => none⟩

example : spell Delims.default [.text [120, 10], includeItem 34 [97] Ws.std] =
    [120, 10, 123, 37, 32, 105, 110, 99, 108, 117, 100, 101, 32, 34, 97, 34, 32, 37, 125] := by decide

/-- `{% include "a" %}` at line 1 with `a ↦ x⏎{% include "a" %}`, every value layer, every fuel `n`: the depth error
    at line `1 + n` -/
example (P : Prims) (O : OutPrims) (n : Nat) (env : Env) :
    run P O {} selfFs n [123, 37, 32, 105, 110, 99, 108, 117, 100, 101, 32, 34, 97, 34, 32, 37, 125] 1 env =
      .err ⟨1 + n * 1, true, .includeDepth, .byCause⟩ :=
  self_include_depth_error P O {} selfFs n 1 env 34 [97] Ws.std Ws.std [120, 10] (.inl rfl) (by decide) (by decide) (by decide)
    (by decide) rfl

/-- the same evaluated for the standard value layer at the small fuel 3: the error is reported at line 4, the tag
    of the third nested copy -/
example : run stdPrims stdOut {} selfFs 3 [123, 37, 32, 105, 110, 99, 108, 117, 100, 101, 32, 34, 97, 34, 32, 37, 125] 1 [] =
      .err ⟨4, true, .includeDepth, .byCause⟩ :=
  self_include_depth_error stdPrims stdOut {} selfFs 3 1 [] 34 [97] Ws.std Ws.std [120, 10] (.inl rfl) (by decide) (by decide)
    (by decide) (by decide) rfl

/-- `include_cycle_fails` on the same layout: the file compiles (at line 0) to the text `x⏎` and the include tag -/
example (P : Prims) (O : OutPrims) (fuel : Nat) (env : Env) :
    ∃ e, run P O {} selfFs fuel [123, 37, 32, 105, 110, 99, 108, 117, 100, 101, 32, 34, 97, 34, 32, 37, 125] 1 env = .err e :=
  include_cycle_fails P O {} selfFs fuel 1 env 34 [97] Ws.std (.inl rfl) (by decide) (by decide) (by decide)
    [120, 10, 123, 37, 32, 105, 110, 99, 108, 117, 100, 101, 32, 34, 97, 34, 32, 37, 125]
    [.text 0 [120, 10]] [] 1 rfl
    (by
      have h := compileSource_spell [] [.text [120, 10], includeItem 34 [97] Ws.std] 0 (by decide) (by decide)
      exact h.trans (compiles_append (compiles_text _ rfl) (compile_include _ _ _ _)))
    (fun t ht => by simp only [List.mem_singleton] at ht; exact ⟨0, _, ht⟩)
