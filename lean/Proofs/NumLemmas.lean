import Liquid.Filters.Num
/-!
# Helper lemmas for C17 (numeric filters)
-/

/-- a `float64` argument as `values.Call` hands it to a filter body -/
abbrev fv (q : Rat) : Arg := .val (.flt .f64 q)

theorem f64Round_of_representable {q : Rat} (h : Representable q) (nz : Bool) (hz : q = 0 → nz = false) :
    f64Round q nz = .ok q := by
  unfold Representable at h
  unfold f64Round
  rw [h]
  by_cases hq : q = 0
  · simp [hz hq]
  · simp [hq]

theorem f64Round_of_round {q r : Rat} (h : roundF64 q = some r) (nz : Bool) (hz : r = 0 → nz = false) :
    f64Round q nz = .ok r := by
  unfold f64Round
  rw [h]
  by_cases hr : r = 0
  · simp [hz hr]
  · simp [hr]

theorem roundF64_zero : roundF64 0 = some 0 := by
  simp [roundF64, roundFloat]

theorem representable_zero : Representable 0 := roundF64_zero

theorem inInt64_iff {n : Int} : inInt64 n = true ↔ -(2 ^ 63) ≤ n ∧ n ≤ 2 ^ 63 - 1 := by
  simp only [inInt64, minInt64, maxInt64, Bool.and_eq_true]
  constructor
  · intro h; exact ⟨of_decide_eq_true h.1, of_decide_eq_true h.2⟩
  · intro h; exact ⟨decide_eq_true h.1, decide_eq_true h.2⟩

theorem wrapInt64_of_inRange {n : Int} (h : inInt64 n = true) : wrapInt64 n = n := by
  have ⟨h1, h2⟩ := inInt64_iff.mp h
  simp only [wrapInt64]
  split <;> omega

/-! ## the call layer on a `float64` receiver parameter -/

theorem convertArgs_val_cons {t : ParamTy} {ps : List Param} {a : GoVal} {as : List GoVal} (h : a ≠ .nil) :
    convertArgs (.val t :: ps) (a :: as) =
      (convert a t).bind fun c => (convertArgs ps as).bind fun r => .ok (.val c :: r) := by
  cases a <;> simp_all [convertArgs]

theorem convert_str_f64 {s : Bytes} {q r : Rat} (hn : readNumber s = .num q) (hr : roundF64 q = some r)
    (hz : r = 0 → s.head? ≠ some 45) : convert (.str s) .f64 = .ok (.flt .f64 r) := by
  simp only [convert, GoVal.toLiquid, parseFloatStr, hn, hr]
  by_cases h0 : r = 0
  · simp [h0, hz h0]
  · simp [h0]

theorem convert_str_f64_bad {s : Bytes} (hn : readNumber s = .bad) : convert (.str s) .f64 = .err .typeErr := by
  simp [convert, GoVal.toLiquid, parseFloatStr, hn]

theorem convert_flt_f64 (k : FltKind) (r : Rat) : convert (.flt k r) .f64 = .ok (.flt .f64 r) := by
  simp [convert, GoVal.toLiquid]

/-- the nine numeric filters -/
def numericNames : List Bytes :=
  ["abs", "ceil", "floor", "plus", "minus", "times", "divided_by", "modulo", "round"].map Num.bn

def headIsF64 (name : Bytes) : Bool :=
  match lookupSig name with
  | some sg => sg.params.head? == some (.val .f64)
  | none => false

theorem numeric_sig_head : ∀ name ∈ numericNames, headIsF64 name = true := by
  have h : numericNames.all headIsF64 = true := by decide +kernel
  exact List.all_eq_true.mp h

theorem headIsF64_elim {name : Bytes} (h : headIsF64 name = true) :
    ∃ sg ps, lookupSig name = some sg ∧ sg.params = .val .f64 :: ps := by
  unfold headIsF64 at h
  split at h
  · rename_i sg hs
    refine ⟨sg, sg.params.tail, hs, ?_⟩
    cases hp : sg.params with
    | nil => simp [hp] at h
    | cons p ps => simp [hp] at h; simp [h]
  · simp at h

/-- the binary arithmetic filters, whose operand is also a `float64` parameter -/
def binaryNames : List Bytes := ["plus", "minus", "times", "modulo"].map Num.bn

def isBinaryF64 (name : Bytes) : Bool :=
  match lookupSig name with
  | some sg => sg.params == [.val .f64, .val .f64]
  | none => false

theorem binary_sig : ∀ name ∈ binaryNames, isBinaryF64 name = true := by
  have h : binaryNames.all isBinaryF64 = true := by decide +kernel
  exact List.all_eq_true.mp h

theorem isBinaryF64_elim {name : Bytes} (h : isBinaryF64 name = true) :
    ∃ sg, lookupSig name = some sg ∧ sg.params = [.val .f64, .val .f64] := by
  unfold isBinaryF64 at h
  split at h
  · rename_i sg hs
    exact ⟨sg, hs, by simpa using h⟩
  · simp at h

/-! ## round -/

/-- `10ᵖ` as a rational -/
def p10 (p : Nat) : Rat := ((10 ^ p : Nat) : Rat)

theorem p10_pos (p : Nat) : 0 < p10 p := Rat.natCast_pos.mpr (Nat.pow_pos (by decide))

/-- `⌊x·e + 1/2⌋ / e` -/
def roundHalfUpE (x e : Rat) : Rat := ((x * e + 1 / 2).floor : Rat) / e

theorem pow10Go_small (p : Nat) (hp : p ≤ 22) : Num.pow10Go (p : Int) = .ok (p10 p) := by
  have h1 : (0 : Int) ≤ (p : Int) := by omega
  have h2 : (p : Int) ≤ 22 := by omega
  simp [Num.pow10Go, h1, h2, p10]

theorem roundTo_exact (x e : Rat) (p : Int) (hpow : Num.pow10Go p = .ok e) (he : e ≠ 0)
    (h1 : Representable (x * e)) (h2 : Representable (x * e + 1 / 2)) (h3 : Representable (roundHalfUpE x e)) :
    Num.roundTo x p = ret (.flt .f64 (roundHalfUpE x e)) := by
  have hhalf : mkRat 1 2 = 1 / 2 := by decide +kernel
  have e1 : f64Round (x * e) (decide (x < 0)) = .ok (x * e) := by
    apply f64Round_of_representable h1
    intro h0
    rcases Rat.mul_eq_zero.mp h0 with hx | hx
    · simp [hx, Rat.lt_irrefl]
    · exact absurd hx he
  have e2 : f64Round (x * e + 1 / 2) false = .ok (x * e + 1 / 2) :=
    f64Round_of_representable h2 false (fun _ => rfl)
  have e3 : f64Round (roundHalfUpE x e) false = .ok (roundHalfUpE x e) :=
    f64Round_of_representable h3 false (fun _ => rfl)
  unfold roundHalfUpE at e3
  simp [Num.roundTo, hpow, he, e1, hhalf, e2, Num.fltResult, e3, ret, roundHalfUpE]

theorem roundHalfUpE_err (x e : Rat) (he : 0 < e) :
    roundHalfUpE x e - x ≤ (1 / 2) / e ∧ -(1 / 2) / e < roundHalfUpE x e - x := by
  have hne : e ≠ 0 := Rat.ne_of_gt he
  have hf1 := Rat.floor_le (x * e + 1 / 2)
  have hf2 := Rat.lt_floor_add_one (x * e + 1 / 2)
  rw [Rat.intCast_add] at hf2
  have hmul : (roundHalfUpE x e - x) * e = ((x * e + 1 / 2).floor : Rat) - x * e := by
    unfold roundHalfUpE
    rw [Rat.sub_eq_add_neg, Rat.add_mul, Rat.div_mul_cancel hne, Rat.neg_mul, ← Rat.sub_eq_add_neg]
  generalize ((x * e + 1 / 2).floor : Rat) = f at *
  constructor
  · apply Rat.not_lt.mp
    intro h
    have := (Rat.div_lt_iff he).mp h
    grind
  · apply (Rat.div_lt_iff he).mpr
    grind

/-! ## truncation and `math.Mod` -/

theorem ratTrunc_of_nonneg {q : Rat} (h : 0 ≤ q) : ratTrunc q = q.floor := by
  unfold ratTrunc
  rw [Rat.floor_def, Int.tdiv_eq_ediv_of_nonneg (Rat.num_nonneg.mpr h)]

theorem ratTrunc_neg (q : Rat) : ratTrunc (-q) = -ratTrunc q := by
  simp [ratTrunc, Int.neg_tdiv]

theorem rat_inv_neg {b : Rat} (hb : b ≠ 0) : (-b)⁻¹ = -(b⁻¹) := by
  apply Rat.inv_eq_of_mul_eq_one
  rw [Rat.neg_mul, Rat.mul_neg, Rat.neg_neg, Rat.mul_inv_cancel b hb]

theorem ratMod_neg_left (a b : Rat) : Num.ratMod (-a) b = -(Num.ratMod a b) := by
  unfold Num.ratMod
  rw [Rat.div_def, Rat.neg_mul, ← Rat.div_def, ratTrunc_neg, Rat.intCast_neg]
  grind

theorem ratMod_neg_right (a b : Rat) (hb : b ≠ 0) : Num.ratMod a (-b) = Num.ratMod a b := by
  unfold Num.ratMod
  rw [Rat.div_def, rat_inv_neg hb, Rat.mul_neg, ← Rat.div_def, ratTrunc_neg, Rat.intCast_neg]
  grind

/-- first quadrant: `0 ≤ a`, `0 < b` ⇒ `0 ≤ a mod b < b` -/
theorem ratMod_pos (a b : Rat) (ha : 0 ≤ a) (hb : 0 < b) : 0 ≤ Num.ratMod a b ∧ Num.ratMod a b < b := by
  have hbne : b ≠ 0 := Rat.ne_of_gt hb
  have hq : 0 ≤ a / b := by
    rw [Rat.div_def]
    exact Rat.mul_nonneg ha (Rat.le_of_lt (Rat.inv_pos.mpr hb))
  have hqb : a / b * b = a := Rat.div_mul_cancel hbne
  unfold Num.ratMod
  rw [ratTrunc_of_nonneg hq]
  have h1 := Rat.floor_le (a / b)
  have h2 := Rat.lt_floor_add_one (a / b)
  rw [Rat.intCast_add] at h2
  have h1' := Rat.mul_le_mul_of_nonneg_right h1 (Rat.le_of_lt hb)
  have h2' := Rat.mul_lt_mul_of_pos_right h2 hb
  rw [hqb] at h1' h2'
  generalize ((a / b).floor : Rat) = t at *
  constructor <;> grind

theorem ratMod_abs_right (a b : Rat) (hb : b ≠ 0) : Num.ratMod a b = Num.ratMod a (Num.ratAbs b) := by
  unfold Num.ratAbs
  split
  · exact (ratMod_neg_right a b hb).symm
  · rfl

theorem ratAbs_pos {b : Rat} (hb : b ≠ 0) : 0 < Num.ratAbs b := by
  unfold Num.ratAbs
  split
  · rename_i h; grind
  · rename_i h
    exact Rat.lt_of_le_of_ne (Rat.not_lt.mp h) (Ne.symm hb)


/-! ## the numeric filter table -/

theorem numImpl_divided_by : lookupImpl Num.impls (Num.bn "divided_by") = some Num.dividedBy := by
  with_unfolding_all rfl
theorem numImpl_modulo : lookupImpl Num.impls (Num.bn "modulo") = some Num.modulo := by
  with_unfolding_all rfl


/-- every filter body of `Num.impls` is registered in `stdFilters` -/
theorem num_impls_registered : Num.impls.all (fun p => (lookupSig p.1).isSome) = true := by decide +kernel
