import Proofs.NoPanic
import Proofs.StdNoPanic
/-!
# C01 — parsing and rendering never panic: the result is output or a located error

`run` is the model of `ParseTemplateLocation` + `Render`. For every configuration, source,
start line, environment, file system and fuel, it never ends in `panic` — provided the value
layer (`Prims`: comparison and filters; `OutPrims`: printing) never panics, which is proved
separately for the standard configuration layer by layer (C09 `ops_no_panic` for the
comparison operators; see `std_noPanic` (`Proofs/StdNoPanic.lean`) for what is assembled here).
Termination: every definition of the model is accepted by Lean's structural/well-founded
checker (no `partial`), `include` recursion is bounded by explicit fuel.
-/

/-! ## The tokenizer and the block parser -/

/-- the tokenizer is total: it is a plain function to token lists (no failure mode at all) -/
theorem scan_total (delims : List Bytes) (src : Bytes) (line : Nat) : ∃ toks, scan delims src line = toks := ⟨_, rfl⟩

theorem parseStep_noPanic (g : Grammar) (chk : Bytes → Option Cause) (s : PState) (tok : Token) :
    NoPanicRes (parseStep g chk s tok) := by
  unfold parseStep
  cases hm : s.mode with
  | comment o => simp only; split <;> trivial
  | raw o sl => simp only; split <;> trivial
  | normal =>
    simp only
    cases ht : tok.ty with
    | obj => simp only; split <;> trivial
    | text => trivial
    | trimL => trivial
    | trimR => trivial
    | tag =>
      simp only
      cases hs : g.syntaxOf tok.name with
      | none => trivial
      | some cs =>
        simp only
        split
        · trivial
        · split
          · trivial
          · split
            · trivial
            · next hpo =>
              -- the pop is guarded: a clause or end tag passes `parentOk` only with an open block
              cases cs with
              | start n => trivial
              | clause n ps =>
                cases hst : s.stack with
                | nil => simp [parentOk, hst] at hpo
                | cons f fs => simp only; split <;> trivial
              | end_ n sn =>
                cases hst : s.stack with
                | nil => simp [parentOk, hst] at hpo
                | cons f fs => trivial

theorem parseLoop_noPanic (g : Grammar) (chk : Bytes → Option Cause) : ∀ (toks : List Token) (s : PState),
    NoPanicRes (parseLoop g chk s toks) := by
  intro toks
  induction toks with
  | nil => intro s; trivial
  | cons t ts ih =>
    intro s
    unfold parseLoop
    have := parseStep_noPanic g chk s t
    cases hp : parseStep g chk s t with
    | ok s' => exact ih s'
    | err e => trivial
    | panic w => rw [hp] at this; exact this
    | unmodelled w => trivial

/-- **C01 (block parser).** Every stack pop is preceded by a guard that makes the stack non-empty. -/
theorem parseTokens_noPanic (g : Grammar) (chk : Bytes → Option Cause) (toks : List Token) :
    NoPanicRes (parseTokens g chk toks) := by
  unfold parseTokens
  have := parseLoop_noPanic g chk toks {}
  cases hp : parseLoop g chk {} toks with
  | ok s =>
    simp only
    split <;> try trivial
    split <;> trivial
  | err e => trivial
  | panic w => rw [hp] at this; exact this
  | unmodelled w => trivial

/-! ## Compilation -/

theorem parseSource_noPanic (src : Bytes) : NoPanicRes (parseSource src) := by
  unfold parseSource
  have hl : ∀ w, (lex src).2 ≠ some (.panic w) := fun w => lexAux_noPanic _ _ _ w
  rcases hlex : lex src with ⟨toks, o⟩
  cases o with
  | none =>
    simp only
    cases parseTokensE toks <;> trivial
  | some r =>
    cases r with
    | ok _ => trivial
    | err _ => trivial
    | panic w => exact absurd (by rw [hlex]) (hl w)
    | unmodelled _ => trivial

theorem liftParse_noPanic {α} (line : Nat) (k : Bool) (r : Res ParseErr α) (h : NoPanicRes r) :
    NoPanicRes (liftParse line k r) := by
  cases r <;> simp_all [liftParse, NoPanicRes]

theorem compileIfClauseTests_noPanic : ∀ cs, NoPanicRes (compileIfClauseTests cs)
  | [] => trivial
  | (t, body) :: cs => by
    unfold compileIfClauseTests
    refine NoPanicRes.bind ?_ (fun _ => NoPanicRes.bind (compileIfClauseTests_noPanic cs) (fun _ => trivial))
    split
    · exact NoPanicRes.bind (liftParse_noPanic _ _ _ (parseExprSource_noPanic _)) (fun _ => trivial)
    · trivial

theorem compileCaseClauses_noPanic : ∀ cs, NoPanicRes (compileCaseClauses cs)
  | [] => trivial
  | (t, body) :: cs => by
    unfold compileCaseClauses
    refine NoPanicRes.bind ?_ (fun _ => NoPanicRes.bind (compileCaseClauses_noPanic cs) (fun _ => trivial))
    split
    · refine NoPanicRes.bind (liftParse_noPanic _ _ _ (parseSource_noPanic _)) (fun st => ?_)
      split <;> trivial
    · trivial

mutual
theorem compileNode_noPanic : ∀ n : AST, NoPanicRes (compileNode n)
  | .text t => by unfold compileNode; trivial
  | .obj t => by
    unfold compileNode
    have := parseExprSource_noPanic t.args
    cases h : parseExprSource t.args <;> simp_all [NoPanicRes]
  | .trim l => by unfold compileNode; trivial
  | .raw sl => by unfold compileNode; trivial
  | .tag t => by
    unfold compileNode
    split
    · refine NoPanicRes.bind (liftParse_noPanic _ _ _ (parseSource_noPanic _)) (fun st => ?_)
      split <;> trivial
    · split
      · trivial
      · split
        · trivial
        · split
          · trivial
          · split
            · refine NoPanicRes.bind (liftParse_noPanic _ _ _ (parseSource_noPanic _)) (fun st => ?_)
              split <;> trivial
            · trivial
  | .block t body clauses => by
    unfold compileNode
    refine NoPanicRes.bind (compileList_noPanic body) (fun b => NoPanicRes.bind (compileClauses_noPanic clauses) (fun cs => ?_))
    split
    · exact NoPanicRes.bind (liftParse_noPanic _ _ _ (parseExprSource_noPanic _)) (fun e =>
        NoPanicRes.bind (compileIfClauseTests_noPanic cs) (fun _ => trivial))
    · split
      · exact NoPanicRes.bind (liftParse_noPanic _ _ _ (parseExprSource_noPanic _)) (fun e =>
          NoPanicRes.bind (compileCaseClauses_noPanic cs) (fun _ => trivial))
      · split
        · refine NoPanicRes.bind (liftParse_noPanic _ _ _ (parseSource_noPanic _)) (fun st => ?_)
          split <;> trivial
        · split <;> trivial
theorem compileList_noPanic : ∀ ns : List AST, NoPanicRes (compileList ns)
  | [] => by unfold compileList; trivial
  | n :: ns => by
    unfold compileList
    exact NoPanicRes.bind (compileNode_noPanic n) (fun _ => NoPanicRes.bind (compileList_noPanic ns) (fun _ => trivial))
theorem compileClauses_noPanic : ∀ cs : List (Token × List AST), NoPanicRes (compileClauses cs)
  | [] => by unfold compileClauses; trivial
  | (t, body) :: cs => by
    unfold compileClauses
    exact NoPanicRes.bind (compileList_noPanic body) (fun _ => NoPanicRes.bind (compileClauses_noPanic cs) (fun _ => trivial))
end

/-- **C01 (parsing).** Compiling any byte string, with any delimiters and start line, never panics:
    the result is a tree, a located error, or `unmodelled` (a literal outside the lexer model). -/
theorem compileSource_noPanic (delims : List Bytes) (src : Bytes) (line : Nat) :
    NoPanicRes (compileSource delims src line) := by
  unfold compileSource
  simp only
  split
  · trivial
  · refine NoPanicRes.bind ?_ (fun ast => compileList_noPanic ast)
    have := parseTokens_noPanic stdGrammar objChk (scan delims src line)
    cases h : parseTokens stdGrammar objChk (scan delims src line) <;> simp_all [liftPErr, NoPanicRes]

/-! ## Rendering -/

theorem renderRoot_noPanic (c : RCtx) (h : PrimsNoPanic c.P c.O) (hc : IncNoPanic c) (root : List Node) (env : Env) :
    NoPanicProg (renderRoot c root env) := by
  unfold renderRoot
  refine NoPanicProg.bind (np_renderList c h hc root _) (fun ⟨st, s⟩ => ?_)
  cases st with
  | done => exact NoPanicProg.bind (npm_wrapFailAt _ _ npm_flush s) (fun _ => .ret _)
  | brk e => exact .ret _
  | cont e => exact .ret _

theorem incFuel_noPanic (P : Prims) (O : OutPrims) (h : PrimsNoPanic P O) (cfg : Cfg) (fs : FS) :
    ∀ fuel, IncNoPanic (mkCtx P O cfg fs fuel) := by
  intro fuel
  induction fuel with
  | zero => intro line f env; exact .fail _
  | succ n ih =>
    intro line f env
    show NoPanicProg (renderFileWith P O cfg fs (incFuel P O cfg fs n) line f env)
    unfold renderFileWith
    simp only
    split
    · exact .fail _
    · next src _ =>
      have hcs := compileSource_noPanic cfg.delims src line
      split
      · exact .fail _
      · next w heq => rw [heq] at hcs; exact absurd hcs (by simp [NoPanicRes])
      · exact .unmodelled _
      · next root heq =>
        have hr : NoPanicProg (renderRoot { P := P, O := O, cfg := cfg, inc := incFuel P O cfg fs n } root env) :=
          renderRoot_noPanic _ h ih root env
        split
        · exact .ret _
        · exact .ret _
        · exact .fail _
        · next w heq2 => exact absurd heq2 (by intro hx; exact runPure_noPanic hr w (by rw [hx]))
        · exact .unmodelled _

/-- **C01 (rendering).** `FRender` never panics, whatever the writer answers. -/
theorem frender_noPanic (P : Prims) (O : OutPrims) (h : PrimsNoPanic P O) (cfg : Cfg) (fs : FS) (fuel : Nat)
    (root : List Node) (env : Env) : NoPanicProg (frender P O cfg fs fuel root env) := by
  unfold frender
  refine NoPanicProg.bind (renderRoot_noPanic _ h (incFuel_noPanic P O h cfg fs fuel) root env) (fun st => ?_)
  cases st <;> simp [statusToProg] <;> first | exact .ret _ | exact .fail _

/-- **C01 (main theorem).** Parsing and rendering any source with any environment, configuration,
    file system and include fuel gives output or a located error (or leaves the model's scope):
    never a panic. -/
theorem run_noPanic (P : Prims) (O : OutPrims) (h : PrimsNoPanic P O) (cfg : Cfg) (fs : FS) (fuel : Nat)
    (src : Bytes) (line : Nat) (env : Env) : ∀ w, run P O cfg fs fuel src line env ≠ .panic w := by
  intro w
  unfold run
  have hc := compileSource_noPanic cfg.delims src line
  split
  · simp
  · next w' heq => rw [heq] at hc; exact absurd hc (by simp [NoPanicRes])
  · simp
  · next root heq =>
    have hr := frender_noPanic P O h cfg fs fuel root env
    split <;> try simp
    next w' heq2 => exact absurd heq2 (by intro hx; exact runPure_noPanic hr w' (by rw [hx]))

/-- a failing render returns a located error: `run` never returns a bare (plain) error together
    with a meaningful location — every failure of `frender` is wrapped by the node it arose in -/
theorem run_result (P : Prims) (O : OutPrims) (h : PrimsNoPanic P O) (cfg : Cfg) (fs : FS) (fuel : Nat)
    (src : Bytes) (line : Nat) (env : Env) :
    (∃ out, run P O cfg fs fuel src line env = .ok out) ∨ (∃ e, run P O cfg fs fuel src line env = .err e) ∨
    (∃ w, run P O cfg fs fuel src line env = .unmodelled w) := by
  cases hr : run P O cfg fs fuel src line env with
  | ok out => exact Or.inl ⟨out, rfl⟩
  | err e => exact Or.inr (Or.inl ⟨e, rfl⟩)
  | panic w => exact absurd hr (run_noPanic P O h cfg fs fuel src line env w)
  | unmodelled w => exact Or.inr (Or.inr ⟨w, rfl⟩)

/-- **C01 for the standard configuration.** With the standard value layer (`stdPrims`: comparison,
    `values.Call`, every modelled filter body; `stdOut`: `writeObject`) the hypothesis of
    `run_noPanic` is a theorem (`std_noPanic`, `Proofs/StdNoPanic.lean`): parsing and rendering
    never panic, unconditionally. -/
theorem run_std_noPanic (cfg : Cfg) (fs : FS) (fuel : Nat) (src : Bytes) (line : Nat) (env : Env) :
    ∀ w, run stdPrims stdOut cfg fs fuel src line env ≠ .panic w :=
  run_noPanic stdPrims stdOut std_noPanic cfg fs fuel src line env

/-- **The value filters `json`, `inspect`, `type` never panic** (`Liquid/Filters/Json.lean`): for every
    receiver and every argument list, `x | json: …`, `x | inspect: …` and `x | type: …` evaluated through
    `ApplyFilter` + `values.Call` end in a value, an error (wrong argument count, a drop yielding
    nil) or the explicit `unmodelled` marker — the model of `json.Marshal` (floats, strings, base64,
    sorted maps, structs, pointers, times) and of `%T` has no reachable panic site
    (`jsonImpls_noPanic`, a component of `std_noPanic` and hence of `run_std_noPanic`). -/
theorem json_inspect_type_noPanic (name : Bytes) (hn : name ∈ [JsonF.bn "json", JsonF.bn "inspect", JsonF.bn "type"])
    (recv : GoVal) (args : List GoVal) :
    ∀ w, applyFilter (lookupImpl JsonF.impls) name recv args ≠ .panic w ∧ stdPrims.applyFilter name recv args ≠ .panic w := by
  intro w
  have h1 := applyFilter_noPanic jsonImpls_noPanic name recv args
  have h2 := std_noPanic.applyFilter name recv args
  constructor
  · intro h; rw [h] at h1; exact h1
  · intro h; rw [h] at h2; exact h2

-- the theorem is about calls that reach the bodies: `[1.5, "<"] | json` marshals, `nil | type` prints `<nil>`
example : (applyFilter (lookupImpl JsonF.impls) (JsonF.bn "json") (.slice .any [.flt .f64 (3/2), .str [60]]) []).isOk = true := by
  decide +kernel
example : (applyFilter (lookupImpl JsonF.impls) (JsonF.bn "type") .nil []).isOk = true := by decide +kernel

/-- **The filter `date` never panics** (`Liquid/Filters/Date.lean`): for every receiver (a time, a date
    string, nil, anything else) and every argument list, `x | date: …` evaluated through `ApplyFilter` +
    `values.Call` ends in a text, an error (a receiver that is no time, too many arguments, a format that
    does not convert) or the explicit `unmodelled` marker — the model of `tuesday.Strftime` (regexp,
    conversions, flags, widths), of the calendar and of `ParseDate` has no reachable panic site
    (`dateImpls_noPanic`, a component of `std_noPanic` and hence of `run_std_noPanic`). -/
theorem date_noPanic (recv : GoVal) (args : List GoVal) :
    ∀ w, applyFilter (lookupImpl DateF.impls) [100, 97, 116, 101] recv args ≠ .panic w ∧
      stdPrims.applyFilter [100, 97, 116, 101] recv args ≠ .panic w := by
  intro w
  have h1 := applyFilter_noPanic dateImpls_noPanic [100, 97, 116, 101] recv args
  have h2 := std_noPanic.applyFilter [100, 97, 116, 101] recv args
  constructor
  · intro h; rw [h] at h1; exact h1
  · intro h; rw [h] at h2; exact h2

-- the theorem is about calls that reach the body: `"2020-01-02" | date: "%s"` prints the unix time
example : (match applyFilter (lookupImpl DateF.impls) [100, 97, 116, 101] (.str [50, 48, 50, 48, 45, 48, 49, 45, 48, 50]) [.str [37, 115]] with
    | .ok (.str s) => s == [49, 53, 55, 55, 57, 50, 51, 50, 48, 48]
    | _ => false) = true := by decide +kernel

/-- **every registered filter has a modelled body**: the table `stdFilterImpls` the no-panic theorem
    covers has an entry for each of the 48 names of the registry `stdFilters` (= the table translator T2
    extracts from `filters.AddStandardFilters`, `filter_sigs_are_standard`), so `applyFilter` never answers
    "filter body not modelled". -/
theorem every_registered_filter_modelled :
    stdFilters.length = 48 ∧ ∀ sg ∈ stdFilters, (lookupImpl stdFilterImpls sg.name).isSome = true := by
  constructor
  · decide +kernel
  · have h : stdFilters.all (fun sg => (lookupImpl stdFilterImpls sg.name).isSome) = true := by decide +kernel
    exact fun sg hsg => List.all_eq_true.mp h sg hsg
