import Proofs.RepEqEval
/-!
# Rendering respects representation equivalence (helper lemmas for C18)

The same mutual induction over the compiled tree as `keeps_renderNode` (`Proofs/ScopeLemmas.lean`),
with the two-run relation `MRel` in place of a one-run postcondition.
-/

open GoVal

variable {t d : Bool}

/-- what the congruence theorem needs from the output layer: related values print alike -/
structure OutRespect (t d : Bool) (O : OutPrims) : Prop where
  chunks : ∀ v v', URel d v v' → RRel t Eq (O.chunks v) (O.chunks v')

/-- the include handler gives the same result for related variables -/
def IncRespect (t d : Bool) (c : RCtx) : Prop :=
  ∀ line f env env', EnvRel d env env' → PRel t Eq (c.inc line f env) (c.inc line f env')

theorem all2_of_normList : ∀ {xs xs' : List GoVal}, normList d xs = normList d xs' → All2 (RepEq d) xs xs'
  | [], [], _ => .nil
  | [], _ :: _, h => by simp [normList] at h
  | _ :: _, [], h => by simp [normList] at h
  | x :: xs, x' :: xs', h => by
    simp only [normList, List.cons.injEq] at h
    exact .cons h.1 (all2_of_normList h.2)

theorem All2.length_eq {α} {R : α → α → Prop} {xs xs' : List α} (h : All2 R xs xs') : xs.length = xs'.length := by
  induction h with
  | nil => rfl
  | cons _ _ ih => simp [ih]

theorem urel_cases {v v' : GoVal} (h : URel d v v') : v' = v ∨ (rigidHead v = false ∧ rigidHead v' = false) :=
  unw_rel_cases h.1 h.2.1 h.2.2

/-- read the variables and evaluate an expression -/
theorem mrel_evaluate (P : Prims) (hP : PrimsRespect t d P) (e : Expr) {β} {S : β → β → Prop} {f f' : GoVal → M β}
    (hf : ∀ v v', URel d v v' → MRel t d S (f v) (f' v')) :
    MRel t d S (do let env ← M.getEnv; let v ← M.ofRes (evaluate P env e); f v)
           (do let env ← M.getEnv; let v ← M.ofRes (evaluate P env e); f' v) :=
  mrel_bind mrel_getEnv (fun _ _ he => mrel_bind (mrel_ofRes (evaluate_rel P hP he e)) hf)

theorem urel_test {v v' : GoVal} (h : URel d v v') : v.test = v'.test := test_rel h.2.2.unwrap

theorem mrel_evalCond (P : Prims) (hP : PrimsRespect t d P) (path : Bytes) (ct : CondT) :
    MRel t d Eq (evalCond P path ct) (evalCond P path ct) := by
  unfold evalCond
  refine mrel_bind mrel_getEnv (fun env env' he => ?_)
  cases ct with
  | always => exact mrel_pure rfl
  | expr line e =>
    exact mrel_wrapFailAt _ _ (mrel_bind (mrel_ofRes (evaluate_rel P hP he e)) (fun v v' hv => mrel_pure (urel_test hv)))
  | notExpr line e =>
    exact mrel_wrapFailAt _ _ (mrel_bind (mrel_ofRes (evaluate_rel P hP he e))
      (fun v v' hv => mrel_pure (by rw [urel_test hv])))

theorem mrel_intModifier (P : Prims) (hP : PrimsRespect t d P) (e : Option Expr) (loc : Loc) :
    MRel t d Eq (intModifier P e loc) (intModifier P e loc) := by
  unfold intModifier
  cases e with
  | none => exact mrel_pure rfl
  | some ex =>
    refine mrel_evaluate P hP ex (fun v v' hv => ?_)
    rcases urel_cases hv with rfl | ⟨h1, h2⟩
    · split
      · exact mrel_pure rfl
      · exact mrel_fail _
    · cases v <;> simp [rigidHead] at h1 <;> cases v' <;> simp [rigidHead] at h2 <;> exact mrel_fail _

theorem mrel_tablerowCols (P : Prims) (hP : PrimsRespect t d P) (tr : Bool) (cols : Option Expr) (loc : Loc) :
    MRel t d Eq (tablerowCols P tr cols loc) (tablerowCols P tr cols loc) := by
  unfold tablerowCols
  split
  · refine mrel_bind (mrel_intModifier P hP _ _) (fun cv cv' h => ?_)
    subst h
    cases cv <;> exact mrel_pure rfl
  · exact mrel_pure rfl

theorem mrel_iterate (var : Bytes) (cols : Option Nat) {body : M Status} (hb : MRel t d Eq body body) (n : Nat) :
    ∀ {xs xs' : List GoVal}, All2 (RepEq d) xs xs' → ∀ i cyc,
      MRel t d Eq (iterateM var cols body n xs i cyc) (iterateM var cols body n xs' i cyc) := by
  intro xs xs' h
  induction h with
  | nil => intro i cyc; exact mrel_pure rfl
  | @cons x x' ys ys' hx _ ih =>
    intro i cyc
    unfold iterateM
    refine mrel_bind (mrel_setVar _ hx.erel) (fun _ _ _ => mrel_bind (mrel_setVar _ (ERel.refl _)) (fun _ _ _ => ?_))
    refine mrel_bind (R := fun _ _ => True) ?_ (fun _ _ _ => mrel_bind hb (fun st st' hst => mrel_bind (R := fun _ _ => True) ?_ (fun _ _ _ =>
      mrel_bind (mrel_getVar _) (fun cur cur' hc => ?_))))
    · cases cols with
      | none => exact mrel_pure trivial
      | some c => exact (mrel_tablerowBefore c i).mono_rel (fun _ _ _ => trivial)
    · cases cols with
      | none => exact mrel_pure trivial
      | some c => exact (mrel_tablerowAfter c i n).mono_rel (fun _ _ _ => trivial)
    · subst hst
      have key : ∀ c1 c2 : List (GoVal × GoVal), c1 = c2 →
          MRel t d Eq (match st with | .brk _ => pure .done | _ => iterateM var cols body n ys (i + 1) c1)
                  (match st with | .brk _ => pure .done | _ => iterateM var cols body n ys' (i + 1) c2) := by
        intro c1 c2 h12
        subst h12
        cases st with
        | brk e => exact mrel_pure rfl
        | done => exact ih _ _
        | cont e => exact ih _ _
      rcases cyclesOf_erel hc with rfl | ⟨h1, h2⟩
      · exact key _ _ rfl
      · simp only [h1, h2]
        exact key _ _ rfl

theorem mrel_loopIterate (P : Prims) (hP : PrimsRespect t d P) (loc : Loc) (tr : Bool) (var : Bytes) (colsE : Option Expr)
    {bodyM : M Status} (hb : MRel t d Eq bodyM bodyM) {items items' : List GoVal} (h : All2 (RepEq d) items items') :
    MRel t d Eq (loopIterate P loc tr var colsE bodyM items) (loopIterate P loc tr var colsE bodyM items') := by
  unfold loopIterate
  refine mrel_bind (mrel_tablerowCols P hP _ _ _) (fun cols cols' hc => ?_)
  subst hc
  refine mrel_bind (mrel_getVar _) (fun pl pl' hpl => mrel_bind (mrel_getVar _) (fun pv pv' hpv => ?_))
  rw [h.length_eq]
  refine mrel_bind (mrel_iterate var cols hb _ h 0 []) (fun st st' hst => ?_)
  subst hst
  refine mrel_bind (R := fun _ _ => True) ?_ (fun _ _ _ => mrel_pure rfl)
  unfold restoreLoopVars
  exact mrel_bind (mrel_setVar _ hpl) (fun _ _ _ => mrel_setVar _ hpv)

theorem mrel_loopDispatch (P : Prims) (hP : PrimsRespect t d P) (loc : Loc) (tr : Bool) (var : Bytes) (colsE : Option Expr)
    {bodyM : M Status} (hb : MRel t d Eq bodyM bodyM) (elseM : Option (M Status)) (he : ∀ m, elseM = some m → MRel t d Eq m m)
    {items items' : List GoVal} (h : All2 (RepEq d) items items') :
    MRel t d Eq (loopDispatch P loc tr var colsE bodyM elseM items) (loopDispatch P loc tr var colsE bodyM elseM items') := by
  cases h with
  | nil =>
    unfold loopDispatch
    split
    · next els _ => exact he _ rfl
    · exact mrel_loopIterate P hP loc tr var colsE hb .nil
  | cons hx hxs =>
    unfold loopDispatch
    exact mrel_loopIterate P hP loc tr var colsE hb (.cons hx hxs)

theorem loopItems_rel {budget : Int} {v v' : GoVal} (h : URel d v v') : RRel t (All2 (RepEq d)) (loopItems budget v) (loopItems budget v') := by
  rcases loopItems_unw_rel h.1 h.2.1 h.2.2 with ⟨xs, xs', h1, h2, hn⟩ | ⟨h1, h2⟩
  · rw [h1, h2]; exact all2_of_normList hn
  · rw [← h1]
    cases hl : loopItems budget v with
    | ok xs => exact absurd hl (h2 xs)
    | _ => simp [RRel]

theorem all2_selectItems {xs xs' : List GoVal} (h : All2 (RepEq d) xs xs') (rev : Bool) (off lim : Option Int) :
    All2 (RepEq d) (selectItems rev off lim xs) (selectItems rev off lim xs') := by
  apply all2_of_normList
  apply selectItems_rel
  induction h with
  | nil => rfl
  | cons hx _ ih => simp only [normList, ih]; rw [hx]

theorem mrel_loopRun {budget : Int} (P : Prims) (hP : PrimsRespect t d P) (path : Bytes) (loc : Loc) (tr : Bool) (var : Bytes) (e : Expr)
    (mods : LoopMods) {bodyM : M Status} (hb : MRel t d Eq bodyM bodyM) (tooMany : Bool)
    (elseM : Option (M Status)) (he : ∀ m, elseM = some m → MRel t d Eq m m) :
    MRel t d Eq (loopRun budget P path loc tr var e mods bodyM tooMany elseM) (loopRun budget P path loc tr var e mods bodyM tooMany elseM) := by
  unfold loopRun
  refine mrel_wrapAt _ _ (mrel_evaluate P hP e (fun v v' hv => ?_))
  refine mrel_bind (mrel_ofRes (loopItems_rel hv)) (fun items items' hi => ?_)
  refine mrel_bind (mrel_intModifier P hP _ _) (fun off off' ho => ?_)
  subst ho
  refine mrel_bind (mrel_intModifier P hP _ _) (fun lim lim' hl => ?_)
  subst hl
  split
  · exact mrel_fail _
  · exact mrel_loopDispatch P hP loc tr var mods.cols hb elseM he (all2_selectItems hi _ _ _)

theorem mrel_inc (c : RCtx) (hI : IncRespect t d c) (line : Nat) (f : Bytes) {env env' : Env} (he : EnvRel d env env') :
    MRel t d Eq (fun s => (c.inc line f env).bind (fun r => .ret (r, s)) : M (Status × Bytes))
            (fun s => (c.inc line f env').bind (fun r => .ret (r, s)) : M (Status × Bytes)) :=
  fun _ _ hs => PRel.bind (hI line f env env' he) (fun _ _ h => .ret ⟨h, hs⟩)

/-! ## The congruence: a fragment rendered from related states -/

mutual
theorem rel_renderNode (c : RCtx) (hP : PrimsRespect t d c.P) (hO : OutRespect t d c.O) (hI : IncRespect t d c) :
    ∀ n : Node, MRel t d Eq (renderNode c n) (renderNode c n)
  | .text line src => by
    unfold renderNode
    exact mrel_wrapFailAt _ _ (mrel_bind (mrel_write _) (fun _ _ _ => mrel_pure rfl))
  | .obj line e => by
    unfold renderNode
    refine mrel_wrapFailAt _ _ (mrel_evaluate c.P hP e (fun v v' hv => ?_))
    rw [isNil_rel hv.1 hv.2.1 hv.2.2]
    split
    · exact mrel_fail _
    · exact mrel_bind (mrel_ofRes (hO.chunks v v' hv)) (fun cs cs' h => by
        subst h; exact mrel_bind (mrel_writeAll _) (fun _ _ _ => mrel_pure rfl))
  | .raw slices => by
    unfold renderNode
    exact mrel_wrapFailAt _ _ (mrel_bind (mrel_writeAll _) (fun _ _ _ => mrel_pure rfl))
  | .trim true => by
    unfold renderNode
    exact mrel_wrapFailAt _ _ (mrel_bind mrel_trimLeft (fun _ _ _ => mrel_pure rfl))
  | .trim false => by
    unfold renderNode
    exact mrel_bind mrel_trimRight (fun _ _ _ => mrel_pure rfl)
  | .assign line x e => by
    unfold renderNode
    exact mrel_wrapFailAt _ _ (mrel_evaluate c.P hP e (fun v v' hv =>
      mrel_bind (mrel_setVar _ hv.2.2.erel) (fun _ _ _ => mrel_pure rfl)))
  | .capture line x body => by
    unfold renderNode
    refine mrel_wrapAt _ _ (mrel_bind (mrel_capture (rel_renderList c hP hO hI body)) (fun r r' h => ?_))
    obtain ⟨st, out⟩ := r
    obtain ⟨st', out'⟩ := r'
    obtain ⟨h1, h2⟩ := h
    simp only at h1 h2
    subst h1 h2
    cases st with
    | done => exact mrel_bind (mrel_setVar _ (ERel.refl _)) (fun _ _ _ => mrel_pure rfl)
    | brk e => exact mrel_pure rfl
    | cont e => exact mrel_pure rfl
  | .ifB line branches => by
    unfold renderNode
    exact mrel_wrapAt _ _ (rel_renderBranches c hP hO hI branches)
  | .caseB line subject cases => by
    unfold renderNode
    exact mrel_wrapAt _ _ (mrel_evaluate c.P hP subject (fun sel sel' hs => rel_renderCases c hP hO hI hs cases))
  | .loop line tablerow var e mods body clauses => by
    have hb := rel_renderBlockBody c hP hO hI body
    unfold renderNode
    simp only
    split
    · exact mrel_loopRun _ hP _ _ _ _ _ _ hb _ none (fun _ h => by cases h)
    · next els =>
      exact mrel_loopRun _ hP _ _ _ _ _ _ hb _ (some _)
        (fun m h => by cases h; exact rel_renderBlockBody c hP hO hI els)
    · exact mrel_loopRun _ hP _ _ _ _ _ _ hb _ none (fun _ h => by cases h)
  | .cycle line group v0 rest => by
    unfold renderNode
    refine mrel_wrapFailAt _ _ (mrel_bind (mrel_getVar _) (fun lv lv' hl => ?_))
    rcases cyclesOf_erel hl with rfl | ⟨h1, h2⟩
    · split
      · exact mrel_fail _
      · exact mrel_bind (mrel_setVar _ (ERel.refl _)) (fun _ _ _ => mrel_bind (mrel_writeVerbatim _) (fun _ _ _ => mrel_pure rfl))
    · simp only [h1, h2]
      exact mrel_fail _
  | .brk line => by unfold renderNode; exact mrel_pure rfl
  | .cont line => by unfold renderNode; exact mrel_pure rfl
  | .incl line args => by
    unfold renderNode
    refine mrel_wrapAt _ _ (mrel_bind mrel_getEnv (fun env env' he => mrel_bind (mrel_ofRes (RRel.of_eq (R := Eq) (fun _ => rfl) rfl)) (fun e e' hee => ?_)))
    subst hee
    refine mrel_bind (mrel_ofRes (evaluate_rel c.P hP he e)) (fun v v' hv => ?_)
    rcases urel_cases hv with rfl | ⟨h1, h2⟩
    · split
      · next rel =>
        refine mrel_bind (mrel_inc c hI _ _ he) (fun r r' h => ?_)
        subst h
        obtain ⟨st, out⟩ := r
        cases st with
        | done => exact mrel_bind (mrel_writeVerbatim _) (fun _ _ _ => mrel_pure rfl)
        | brk e => exact mrel_pure rfl
        | cont e => exact mrel_pure rfl
      · exact mrel_fail _
    · cases v <;> simp [rigidHead] at h1 <;> cases v' <;> simp [rigidHead] at h2 <;> exact mrel_fail _
theorem rel_renderList (c : RCtx) (hP : PrimsRespect t d c.P) (hO : OutRespect t d c.O) (hI : IncRespect t d c) :
    ∀ ns : List Node, MRel t d Eq (renderList c ns) (renderList c ns)
  | [] => by unfold renderList; exact mrel_pure rfl
  | n :: ns => by
    unfold renderList
    refine mrel_bind (rel_renderNode c hP hO hI n) (fun st st' h => ?_)
    subst h
    cases st with
    | done => exact rel_renderList c hP hO hI ns
    | brk e => exact mrel_pure rfl
    | cont e => exact mrel_pure rfl
theorem rel_renderBlockBody (c : RCtx) (hP : PrimsRespect t d c.P) (hO : OutRespect t d c.O) (hI : IncRespect t d c) (body : List Node) :
    MRel t d Eq (renderBlockBody c body) (renderBlockBody c body) := by
  unfold renderBlockBody
  refine mrel_bind (rel_renderList c hP hO hI body) (fun st st' h => ?_)
  subst h
  cases st with
  | done => exact mrel_bind (mrel_wrapFailAt _ _ mrel_flush) (fun _ _ _ => mrel_pure rfl)
  | brk e => exact mrel_pure rfl
  | cont e => exact mrel_pure rfl
theorem rel_renderBranches (c : RCtx) (hP : PrimsRespect t d c.P) (hO : OutRespect t d c.O) (hI : IncRespect t d c) :
    ∀ bs : List (CondT × List Node), MRel t d Eq (renderBranches c bs) (renderBranches c bs)
  | [] => by unfold renderBranches; exact mrel_pure rfl
  | (t, body) :: rest => by
    unfold renderBranches
    refine mrel_bind (mrel_evalCond _ hP _ _) (fun b b' h => ?_)
    subst h
    split
    · exact rel_renderBlockBody c hP hO hI body
    · exact rel_renderBranches c hP hO hI rest
theorem rel_renderCases (c : RCtx) (hP : PrimsRespect t d c.P) (hO : OutRespect t d c.O) (hI : IncRespect t d c)
    {sel sel' : GoVal} (hs : URel d sel sel') :
    ∀ cs : List (Option (Nat × List Expr) × List Node), MRel t d Eq (renderCases c sel cs) (renderCases c sel' cs)
  | [] => by unfold renderCases; exact mrel_pure rfl
  | (none, body) :: rest => by
    unfold renderCases
    exact rel_renderBlockBody c hP hO hI body
  | (some (line, es), body) :: rest => by
    unfold renderCases
    refine mrel_bind (mrel_wrapFailAt _ _ (rel_whenMatches c hP hs es)) (fun hit hit' h => ?_)
    subst h
    split
    · exact rel_renderBlockBody c hP hO hI body
    · exact rel_renderCases c hP hO hI hs rest
theorem rel_whenMatches (c : RCtx) (hP : PrimsRespect t d c.P) {sel sel' : GoVal} (hs : URel d sel sel') :
    ∀ es : List Expr, MRel t d Eq (whenMatches c sel es) (whenMatches c sel' es)
  | [] => by unfold whenMatches; exact mrel_pure rfl
  | e :: es => by
    unfold whenMatches
    refine mrel_evaluate c.P hP e (fun v v' hv => ?_)
    refine mrel_bind (mrel_ofRes (hP.equalFn sel sel' v v' hs hv)) (fun eq eq' h => ?_)
    subst h
    split
    · exact mrel_pure rfl
    · exact rel_whenMatches c hP hs es
end

/-! ## Whole renders -/

theorem rel_renderRoot (c : RCtx) (hP : PrimsRespect t d c.P) (hO : OutRespect t d c.O) (hI : IncRespect t d c)
    (root : List Node) {env env' : Env} (he : EnvRel d env env') :
    PRel t Eq (renderRoot c root env) (renderRoot c root env') := by
  unfold renderRoot
  refine PRel.bind (rel_renderList c hP hO hI root _ _ ⟨he, rfl⟩) (fun ⟨st, s⟩ ⟨st', s'⟩ h => ?_)
  obtain ⟨h1, h2⟩ := h
  simp only at h1 h2
  subst h1
  cases st with
  | done => exact PRel.bind (mrel_wrapFailAt _ _ mrel_flush s s' h2) (fun _ _ _ => .ret rfl)
  | brk e => exact .ret rfl
  | cont e => exact .ret rfl

theorem renderFileWith_rel (P : Prims) (O : OutPrims) (cfg : Cfg) (fs : FS)
    (inner : Nat → Bytes → Env → Prog (Status × Bytes)) (hP : PrimsRespect t d P) (hO : OutRespect t d O)
    (hI : IncRespect t d { P := P, O := O, cfg := cfg, inc := inner }) (line : Nat) (filename : Bytes)
    {env env' : Env} (he : EnvRel d env env') :
    PRel t Eq (renderFileWith P O cfg fs inner line filename env) (renderFileWith P O cfg fs inner line filename env') := by
  unfold renderFileWith
  simp only
  split
  · exact .fail _
  · split
    · exact .fail _
    · exact .panic _
    · exact .unmodelled _
    · next root _ =>
      have hr := (rel_renderRoot { P := P, O := O, cfg := cfg, inc := inner } hP hO hI root he).runPure
      revert hr
      generalize (renderRoot { P := P, O := O, cfg := cfg, inc := inner } root env).runPure = q
      generalize (renderRoot { P := P, O := O, cfg := cfg, inc := inner } root env').runPure = q'
      obtain ⟨out, o⟩ := q
      obtain ⟨out', o'⟩ := q'
      intro hr
      simp only at hr
      obtain ⟨h2, h1⟩ := hr
      cases o <;> cases o' <;> simp only [ORel] at h2 <;> first
        | (next st st' =>
            subst h2
            have := h1 _ _ rfl rfl
            subst this
            cases st <;> exact .ret rfl)
        | (subst h2; first | exact .fail _ | exact .panic _)
        | exact .unmL h2 _ _
        | exact .unmR h2 _ _
        | (rcases h2 with h2 | h2
           · exact .unmL h2 _ _
           · subst h2; exact .unmodelled _)

theorem incRespect_mkCtx (P : Prims) (O : OutPrims) (cfg : Cfg) (fs : FS) (hP : PrimsRespect t d P) (hO : OutRespect t d O) :
    ∀ fuel, IncRespect t d (mkCtx P O cfg fs fuel)
  | 0 => fun _ _ _ _ _ => PRel.refl (fun _ => rfl) _
  | n + 1 => by
    intro line f env env' he
    have ih := incRespect_mkCtx P O cfg fs hP hO n
    exact renderFileWith_rel P O cfg fs _ hP hO ih line f he

/-- rendering a compiled template against related variables: the same writes, the same outcome -/
theorem frender_rel (P : Prims) (O : OutPrims) (cfg : Cfg) (fs : FS) (fuel : Nat) (hP : PrimsRespect t d P) (hO : OutRespect t d O)
    (root : List Node) {env env' : Env} (he : EnvRel d env env') :
    PRel t Eq (frender P O cfg fs fuel root env) (frender P O cfg fs fuel root env') := by
  unfold frender
  exact PRel.bind (rel_renderRoot (mkCtx P O cfg fs fuel) hP hO (incRespect_mkCtx P O cfg fs hP hO fuel) root he)
    (fun st st' h => by subst h; exact PRel.refl (fun _ => rfl) _)

/-- two results of a whole render agree: the same output or the same error; with `t = true`
    a result outside the model agrees with everything -/
def RunAgree (t : Bool) : RunResult → RunResult → Prop
  | .ok out, .ok out' => out = out'
  | .err e, .err e' => e = e'
  | .panic w, .panic w' => w = w'
  | .unmodelled w, .unmodelled w' => t = true ∨ w = w'
  | .unmodelled _, _ => t = true
  | _, .unmodelled _ => t = true
  | _, _ => False

theorem RunAgree.eq {r r' : RunResult} (h : RunAgree false r r') : r = r' := by
  cases r <;> cases r' <;> simp_all [RunAgree]

theorem RunAgree.refl (r : RunResult) : RunAgree t r r := by
  cases r <;> simp [RunAgree]

theorem RunAgree.unmL (ht : t = true) (w : String) (r : RunResult) : RunAgree t (.unmodelled w) r := by
  cases r <;> simp [RunAgree, ht]

theorem RunAgree.unmR (ht : t = true) (r : RunResult) (w : String) : RunAgree t r (.unmodelled w) := by
  cases r <;> simp [RunAgree, ht]

theorem run_rel (P : Prims) (O : OutPrims) (cfg : Cfg) (fs : FS) (fuel : Nat) (hP : PrimsRespect t d P) (hO : OutRespect t d O)
    (src : Bytes) (line : Nat) {env env' : Env} (he : EnvRel d env env') :
    RunAgree t (run P O cfg fs fuel src line env) (run P O cfg fs fuel src line env') := by
  unfold run
  split
  · exact RunAgree.refl _
  · exact RunAgree.refl _
  · exact RunAgree.refl _
  · next root _ =>
    have hr := (frender_rel P O cfg fs fuel hP hO root he).runPure
    revert hr
    generalize (frender P O cfg fs fuel root env).runPure = q
    generalize (frender P O cfg fs fuel root env').runPure = q'
    obtain ⟨out, o⟩ := q
    obtain ⟨out', o'⟩ := q'
    intro hr
    simp only at hr
    obtain ⟨h2, h1⟩ := hr
    cases o with
    | ok a =>
      cases o' with
      | ok a' => have := h1 _ _ rfl rfl; subst this; exact RunAgree.refl _
      | unmodelled w => exact RunAgree.unmR h2 _ _
      | err e => exact absurd h2 id
      | panic w => exact absurd h2 id
    | err e =>
      cases o' with
      | err e' => simp only [ORel] at h2; subst h2; cases e <;> exact RunAgree.refl _
      | unmodelled w => exact RunAgree.unmR h2 _ _
      | ok a => exact absurd h2 id
      | panic w => exact absurd h2 id
    | panic w =>
      cases o' with
      | panic w' => simp only [ORel] at h2; subst h2; exact RunAgree.refl _
      | unmodelled w => exact RunAgree.unmR h2 _ _
      | ok a => exact absurd h2 id
      | err e => exact absurd h2 id
    | unmodelled w =>
      cases o' with
      | unmodelled w' =>
        rcases h2 with h3 | h3
        · exact RunAgree.unmL h3 _ _
        · subst h3; exact RunAgree.refl _
      | ok a => exact RunAgree.unmL h2 _ _
      | err e => exact RunAgree.unmL h2 _ _
      | panic w => exact RunAgree.unmL h2 _ _
