/-!
# The trim writer over a generic alphabet

The same machine as `Liquid/TrimWriter.lean` (`render/trimwriter.go`), but over `List α` with
a whitespace predicate `sp : α → Bool` instead of bytes with `unicode.IsSpace` on decoded
runes. `GTW.step` has the same shape as `TW.step`, underlying write calls included, so that
the byte machine on valid UTF-8 is the image of this one under `encodeRunes`
(`Proofs/TwBridge.lean`). The C13 laws are proved on this machine for every operation list.
-/

namespace Gen

variable {α : Type}

inductive GOp (α : Type) where
  | write (b : List α)
  | trimLeft
  | trimRight
  | flush
  deriving Repr, DecidableEq

structure GTW (α : Type) where
  buf : List α := []
  trim : Bool := false
  deriving Repr, DecidableEq

/-- `bytes.TrimLeftFunc(b, sp)` -/
def lstrip (sp : α → Bool) (b : List α) : List α := b.dropWhile sp
/-- `bytes.TrimRightFunc(b, sp)` -/
def rstrip (sp : α → Bool) (b : List α) : List α := (b.reverse.dropWhile sp).reverse
/-- delete every whitespace character -/
def stripWS (sp : α → Bool) (b : List α) : List α := b.filter (fun c => !sp c)

/-- one operation on the success path: new state and the underlying writes it issues
    (clause by clause the same as `TW.step`) -/
def GTW.step (sp : α → Bool) (t : GTW α) : GOp α → GTW α × List (List α)
  | .write b =>
    ({ buf := if t.trim then lstrip sp b else b, trim := false }, if t.buf.isEmpty then [] else [t.buf])
  | .trimLeft => ({ t with buf := [] }, [rstrip sp t.buf])
  | .trimRight => ({ t with trim := true }, [])
  | .flush => ({ t with buf := [] }, if t.buf.isEmpty then [] else [t.buf])

def GTW.run (sp : α → Bool) (t : GTW α) : List (GOp α) → GTW α × List (List α)
  | [] => (t, [])
  | op :: ops =>
    let (t1, w1) := t.step sp op
    let (t2, w2) := GTW.run sp t1 ops
    (t2, w1 ++ w2)

/-- everything the underlying writer receives when `ops` and then the final flush are run from state `t` -/
def GTW.outFrom (sp : α → Bool) (t : GTW α) (ops : List (GOp α)) : List α :=
  (GTW.run sp t (ops ++ [.flush])).2.flatten

/-- the output of an operation list (from the initial state, with the final flush of `Render`) -/
def out (sp : α → Bool) (ops : List (GOp α)) : List α := GTW.outFrom sp {} ops

/-- the trim flag after `ops` (from the initial state) -/
def flagAfter (sp : α → Bool) (ops : List (GOp α)) : Bool := (GTW.run sp {} ops).1.trim

/-- delete the trim operations (= the operation list of the same template without hyphens) -/
def eraseTrims (ops : List (GOp α)) : List (GOp α) :=
  ops.filter fun | .trimLeft | .trimRight => false | _ => true

/-- the concatenation of everything written -/
def writes : List (GOp α) → List α
  | [] => []
  | .write b :: ops => b ++ writes ops
  | _ :: ops => writes ops

/-- `WsDeletion sp a b`: `b` is obtained from `a` by deleting whitespace characters only -/
inductive WsDeletion (sp : α → Bool) : List α → List α → Prop
  | nil : WsDeletion sp [] []
  | keep (c : α) {a b : List α} : WsDeletion sp a b → WsDeletion sp (c :: a) (c :: b)
  | drop (c : α) {a b : List α} : sp c = true → WsDeletion sp a b → WsDeletion sp (c :: a) b

/-- the text has a character that is not whitespace -/
def hasInk (sp : α → Bool) (b : List α) : Bool := b.any (fun c => !sp c)

end Gen
