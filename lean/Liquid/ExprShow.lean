import Liquid.ExprParse
import Liquid.Sprint
/-!
# A printer for expression trees: the canonical concrete syntax of an `Expr`

The grammar of `expressions/expressions.y` has four levels

```
expr:     LITERAL | IDENT | expr PROPERTY | expr '[' expr ']' | '(' expr DOTDOT expr ')' | '(' cond ')'
filtered: expr | filtered '|' IDENT | filtered '|' KEYWORD expr (',' expr)*
rel:      filtered | expr RELOP expr
cond:     rel | cond AND rel | cond OR rel
```

and `'(' cond ')'` is transparent (`$$ = $2`), so every SHAPE of tree has a spelling: a sub-tree that stands
where the grammar wants a higher level is put between parentheses (`Expr.toks e lvl`, `lvl` = 0 cond,
1 rel, 2 filtered, 3 expr). `and`/`or` are left associative with equal precedence, so the left operand of
`and`/`or` is printed at level 0 and the right one at level 1; the operands of a comparison, of `[ ]`, of a
range and the arguments of a filter are printed at level 3.

What restricts printability is the LEAVES (`ETok.ok`): a literal must be one of the five kinds with a
syntax (nil, bool, Go `int` within int64, `float64` with a finite decimal expansion that reads back, a string
that does not contain both quote characters - there is no escape syntax), a variable must be an identifier that
is not one of the words `true false nil and or contains in`, a property and the name of a filter with
arguments any identifier (`a.true`, `x | in: 1` are accepted by the scanner: `.identifier` and `identifier:`
are longer matches than the word).

The printer works on tokens: `Expr.toks` is the canonical token list, `ETok.lexeme` the canonical spelling of
one token, `Expr.show` writes the lexemes with one space between two of them, except that nothing is written
before `.name`, `[`, `]`, `,`, `)` and after `(`, `[` (`a.b[1]`, `(1 .. n)`, `x | f: 1, 2`).
-/

/-- exact decimal expansion of a rational whose denominator is a power of two (every finite float64):
    `-?d+.d+` with `max 1 (log2 den)` fractional digits -/
def showFloat (q : Rat) : Bytes :=
  let k := max 1 (Nat.log2 q.den)
  let n := q.num.natAbs * 10 ^ k / q.den
  let fp := natDec (n % 10 ^ k)
  (if q < 0 then [45] else []) ++ natDec (n / 10 ^ k) ++ 46 :: (zeros (k - fp.length) ++ fp)

/-- the canonical quote of a string: `"` unless the string contains one -/
def showStr (s : Bytes) : Bytes := if s.contains 34 then 39 :: s ++ [39] else 34 :: s ++ [34]

/-- the text of an identifier: `(alpha|_)(alnum|_|-)*\??` -/
def isIdentBytes : Bytes → Bool
  | [] => false
  | c :: t => isIdStart c && (if t.getLast? == some 63 then t.dropLast.all isIdCont else t.all isIdCont)

/-- the words the scanner does not return as identifiers -/
def reservedWords : List Bytes := [kwTrue, kwFalse, kwNil, kwAnd, kwOr, kwContains, kwIn]

/-- the single-byte tokens the printer writes: `( ) [ ] | , < > ;` -/
def printedCh (b : UInt8) : Bool :=
  b == 40 || b == 41 || b == 91 || b == 93 || b == 124 || b == 44 || b == 60 || b == 62 || b == 59

/-- **which tokens have a spelling** that the scanner reads back as that token -/
def ETok.ok : ETok → Bool
  | .lit .nil => true
  | .lit (.bool _) => true
  | .lit (.int .int n) => IntKind.i64.inRange n
  | .lit (.flt .f64 q) => floatLitValue (showFloat q) == some (some q)
  | .lit (.str s) => !(s.contains 34 && s.contains 39)
  | .lit _ => false
  | .ident x => isIdentBytes x && !reservedWords.contains x
  | .keyword x => isIdentBytes x
  | .property x => isIdentBytes x
  | .ch b => printedCh b
  | .assign | .cycle | .loop | .when => false
  | _ => true

/-- the canonical spelling of a token, with the scanner rule that reads it -/
def ETok.lexeme : ETok → Rule × Bytes
  | .lit .nil => (.rNil, kwNil)
  | .lit (.bool b) => (.rBool, if b then kwTrue else kwFalse)
  | .lit (.int _ n) => (.rInt, intDec n)
  | .lit (.flt _ q) => (.rFloat, showFloat q)
  | .lit (.str s) => (.rString, showStr s)
  | .lit _ => (.rAny, [63])
  | .ident x => (.rIdent, x)
  | .keyword x => (.rKeyword, x ++ [58])
  | .property x => (.rProperty, 46 :: x)
  | .assign => (.rAssign, kwAssign) | .cycle => (.rCycle, kwCycle) | .loop => (.rLoop, kwLoop) | .when => (.rWhen, kwWhen)
  | .eq => (.rEq, [61, 61]) | .neq => (.rNeq, [33, 61]) | .ge => (.rGe, [62, 61]) | .le => (.rLe, [60, 61])
  | .and_ => (.rAnd, kwAnd) | .or_ => (.rOr, kwOr) | .contains => (.rContains, kwContains) | .in_ => (.rIn, kwIn)
  | .dotdot => (.rDotdot, [46, 46])
  | .ch b => (.rAny, [b])

def relOpTok : RelOp → ETok
  | .eq => .eq | .ne => .neq | .gt => .ch 62 | .lt => .ch 60 | .ge => .ge | .le => .le | .contains => .contains

/-- `( … )` when the tree stands where the grammar wants a higher level -/
def parenIf (b : Bool) (ts : List ETok) : List ETok := if b then .ch 40 :: (ts ++ [.ch 41]) else ts

mutual
/-- **the canonical tokens** of `e` at grammar level `lvl` (0 cond, 1 rel, 2 filtered, 3 expr) -/
def Expr.toks : Expr → Nat → List ETok
  | .lit v, _ => [.lit v]
  | .var x, _ => [.ident x]
  | .prop e n, _ => e.toks 3 ++ [.property n]
  | .index e i, _ => e.toks 3 ++ .ch 91 :: (i.toks 3 ++ [.ch 93])
  | .range a b, _ => .ch 40 :: (a.toks 3 ++ .dotdot :: (b.toks 3 ++ [.ch 41]))
  | .rel op a b, lvl => parenIf (decide (1 < lvl)) (a.toks 3 ++ relOpTok op :: b.toks 3)
  | .and_ a b, lvl => parenIf (decide (0 < lvl)) (a.toks 0 ++ .and_ :: b.toks 1)
  | .or_ a b, lvl => parenIf (decide (0 < lvl)) (a.toks 0 ++ .or_ :: b.toks 1)
  | .filter e n args, lvl =>
    parenIf (decide (2 < lvl))
      (e.toks 2 ++ .ch 124 :: (if args.isEmpty then [.ident n] else .keyword n :: (Expr.argsToks args).drop 1))
/-- `, a1 , a2 …` (the filter drops the first comma) -/
def Expr.argsToks : List Expr → List ETok
  | [] => []
  | a :: as => .ch 44 :: (a.toks 3 ++ Expr.argsToks as)
end

/-- **printable**: every token of the canonical token list has a spelling. The shape of the tree is never an
    obstacle (parentheses); the leaves are (see `ETok.ok`). -/
def Expr.printable (e : Expr) : Bool := (e.toks 0).all ETok.ok

/-- the canonical lexemes of an expression -/
def Expr.lexemes (e : Expr) : List (Rule × Bytes) := (e.toks 0).map ETok.lexeme

/-- no blank is written before `.name`, `[`, `]`, `,`, `)` -/
def tightBefore : ETok → Bool
  | .property _ => true
  | .ch b => b == 91 || b == 93 || b == 44 || b == 41
  | _ => false

/-- no blank is written after `(`, `[` -/
def tightAfter : ETok → Bool
  | .ch b => b == 40 || b == 91
  | _ => false

/-- the lexemes of the tokens, one space between two of them unless `tightAfter` the left or `tightBefore`
    the right one (`prev`: the token written before, `none` at the start) -/
def showToks : Option ETok → List ETok → Bytes
  | _, [] => []
  | prev, t :: ts =>
    (match prev with
     | none => []
     | some p => if tightAfter p || tightBefore t then [] else [32]) ++ t.lexeme.2 ++ showToks (some t) ts

/-- **the printer** -/
def Expr.show (e : Expr) : Bytes := showToks none (e.toks 0)
