import Liquid.ExprParse
import Liquid.Lookup
/-!
# Expression evaluation: model of the closures built by `expressions.y` / `builders.go`

`Prims` are the operations that live in other layers (comparison in `Compare.lean`, filters in
`Call.lean`); the evaluator and every theorem about rendering are generic in them.
Typed panics (`TypeError`, `InterpreterError`, `UndefinedFilter`, `FilterError`) are what
`Expression.Evaluate` recovers and returns as errors; any other panic propagates.
-/

structure Prims where
  equal : GoVal → GoVal → Res Cause Bool
  less : GoVal → GoVal → Res Cause Bool
  contains : GoVal → GoVal → Res Cause Bool
  /-- `values.Equal(a, b)` (the function the case tag calls; the operators go through the wrappers) -/
  equalFn : GoVal → GoVal → Res Cause Bool
  /-- `ctx.ApplyFilter(name, receiver, args)` with already evaluated receiver and arguments -/
  applyFilter : Bytes → GoVal → List GoVal → Res Cause GoVal
  /-- is the filter defined? (checked before the receiver is evaluated) -/
  hasFilter : Bytes → Bool

/-- variable bindings: the per-render flat map (`nodeContext.bindings`) -/
abbrev Env := List (Bytes × GoVal)

def Env.get (env : Env) (x : Bytes) : GoVal :=
  match env.find? (fun kv => kv.1 == x) with
  | some kv => kv.2
  | none => .nil

def Env.set (env : Env) (x : Bytes) (v : GoVal) : Env :=
  (x, v) :: env.filter (fun kv => kv.1 != x)

def liftL : GoVal.LRes → Res Cause GoVal
  | .val v => .ok v
  | .unmodelled w => .unmodelled w

mutual
def eval (P : Prims) (env : Env) : Expr → Res Cause GoVal
  | .lit v => .ok v
  | .var x => .ok (env.get x).toLiquid
  | .prop e name => do
      let v ← eval P env e
      liftL (v.propertyValue name)
  | .index e i => do
      let v ← eval P env e
      let iv ← eval P env i
      liftL (v.indexValue iv)
  | .range a b => do
      let va ← eval P env a
      match va.intOf with
      | none => .err .typeErr
      | some x =>
        let vb ← eval P env b
        match vb.intOf with
        | none => .err .typeErr
        | some y => .ok (.range x y)
  | .rel op a b => do
      let va ← eval P env a
      let vb ← eval P env b
      match op with
      | .eq => do let r ← P.equal va vb; .ok (.bool r)
      | .ne => do let r ← P.equal va vb; .ok (.bool !r)
      | .gt => do let r ← P.less vb va; .ok (.bool r)
      | .lt => do let r ← P.less va vb; .ok (.bool r)
      | .ge => do
          let l ← P.less vb va
          if l then .ok (.bool true) else do let r ← P.equal va vb; .ok (.bool r)
      | .le => do
          let l ← P.less va vb
          if l then .ok (.bool true) else do let r ← P.equal va vb; .ok (.bool r)
      | .contains => do let r ← P.contains va vb; .ok (.bool r)
  | .and_ a b => do
      let va ← eval P env a
      if va.test then do let vb ← eval P env b; .ok (.bool vb.test) else .ok (.bool false)
  | .or_ a b => do
      let va ← eval P env a
      if va.test then .ok (.bool true) else do let vb ← eval P env b; .ok (.bool vb.test)
  | .filter e name args =>
      if !P.hasFilter name then .err (.undefinedFilter name) else do
      let recv ← eval P env e
      let as ← evalList P env args
      P.applyFilter name recv.unwrap (as.map GoVal.unwrap)
def evalList (P : Prims) (env : Env) : List Expr → Res Cause (List GoVal)
  | [] => .ok []
  | e :: es => do
      let v ← eval P env e
      let vs ← evalList P env es
      .ok (v :: vs)
end

/-- `Expression.Evaluate`: the result is the wrapper's `Interface()` -/
def evaluate (P : Prims) (env : Env) (e : Expr) : Res Cause GoVal :=
  match eval P env e with
  | .ok v => .ok v.unwrap
  | r => r
