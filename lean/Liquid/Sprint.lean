import Liquid.Value
import Liquid.F64
import Liquid.Time
/-!
# `fmt.Sprint` and `render.writeObject` (DESIGN §4.3, Appendix A.4/A.7)

`sprint v` is the text Go's `fmt.Sprint(v)` (= `%v`) produces for the value `v`:

* `nil` `<nil>`, booleans, integers in decimal, strings raw, `[]byte` as `[97 98]`;
* floats as `strconv` `'g'` with the shortest round-trip precision (`%v`): a model float is an
  exact rational `q`; `shortestDigits` finds the decimal with the fewest significant digits
  (1..17, float32: 1..9) that `roundF64` (`roundF32`) maps back to `q`, closest to `q` among those —
  the specification of `strconv`'s shortest formatting. Scientific form is chosen exactly as
  `strconv/ftoa.go` does for `%g` with the shortest precision (`eprec = 6`): decimal exponent
  `x < -4 || x >= 6` (so `1000000.0` prints `1e+06`; the threshold 21 belongs to encoding/json);
* slices/arrays `[a b c]`, maps `map[k:v k:v]` with the keys sorted as `internal/fmtsort` does
  (same dynamic key type: by value; mixed dynamic key types are ordered by type *address* and are
  `unmodelled`), `yaml.MapSlice` `[{k v} {k v}]`, `Range` `{a b}`, structs `{f1 f2}`, the harness's
  drop type `struct{ v any }` `{inner}`; a nil pointer `<nil>`; non-nil pointers (an address) are
  `unmodelled`;
* `time.Time` is a `fmt.Stringer`: `Time.String()` = `Format("2006-01-02 15:04:05.999999999 -0700 MST")`
  plus the monotonic reading. The model's times are `time.Unix(u, 0).UTC()`: no fraction, no
  monotonic reading, offset `+0000`, zone `UTC` (`timeString`; `$GOROOT/src/time/format.go`).

`writeObject v` models `render/render.go:writeObject` *after* the D23 repair (whole floats below
10^21 are written in plain decimal instead of `%v`'s exponent form); a `time.Time` is written as
`value.Format("2006-01-02 15:04:05 -0700")` (`timeObjectText`). `Format` prints the year with
`appendInt(b, year, 4)`: a minus sign for a negative year, then at least four digits (`-0001`,
`0000`, `10000`), so the text is modelled for every year, not only 0..9999.
-/

/-! ## decimal digits -/

def decDigitsAux : Nat → Nat → Bytes → Bytes
  | 0, _, acc => acc
  | fuel + 1, n, acc =>
    if n < 10 then (48 + n).toUInt8 :: acc
    else decDigitsAux fuel (n / 10) ((48 + n % 10).toUInt8 :: acc)

/-- decimal representation of a natural number (ASCII digits, no leading zeros, `0` for zero) -/
def natDec (n : Nat) : Bytes := decDigitsAux (n + 1) n []

/-- `strconv.Itoa` / `%d` -/
def intDec (n : Int) : Bytes :=
  if n < 0 then 45 :: natDec n.natAbs else natDec n.natAbs

/-- drop trailing ASCII zeros -/
def stripTrailingZeros (ds : Bytes) : Bytes :=
  (ds.reverse.dropWhile (· == 48)).reverse

def zeros (n : Nat) : Bytes := List.replicate n 48

/-- `k` with `d = 2^k`, if `d` is a power of two -/
def log2Exact (d : Nat) : Option Nat :=
  let k := Nat.log2 d
  if 2 ^ k == d then some k else none

/-- The digits of a dyadic rational as `strconv`'s `decimalSlice`: `(neg, digits, dp)` with
`|q| = 0.d₁d₂… × 10^dp`, digits without trailing zeros (empty for 0). `none`: not dyadic. -/
def decimalOf (q : Rat) : Option (Bool × Bytes × Int) :=
  match log2Exact q.den with
  | none => none
  | some k =>
    let n := q.num.natAbs * 5 ^ k
    if n == 0 then some (false, [], 0) else
    let ds := natDec n
    some (q.num < 0, stripTrailingZeros ds, (ds.length : Int) - (k : Int))

/-- `%e` part of `strconv.fmtE` with the shortest precision: `d[.ddd]e±XX` -/
def fmtE (ds : Bytes) (x : Int) : Bytes :=
  let mant := match ds with
    | [] => [48]
    | [d] => [d]
    | d :: rest => d :: 46 :: rest
  let ex := natDec x.natAbs
  let ex := if ex.length < 2 then 48 :: ex else ex
  mant ++ [101, if x < 0 then 45 else 43] ++ ex

/-- `%f` part of `strconv.fmtF` with the shortest precision -/
def fmtF (ds : Bytes) (dp : Int) : Bytes :=
  if dp ≤ 0 then
    [48, 46] ++ zeros (-dp).toNat ++ ds
  else
    let p := dp.toNat
    if p ≥ ds.length then ds ++ zeros (p - ds.length)
    else ds.take p ++ [46] ++ ds.drop p

/-- value of the digit string `ds` scaled so that it has `dp` digits before the point -/
def digitsValue (ds : Bytes) (dp : Int) : Rat :=
  let n : Nat := ds.foldl (fun acc d => acc * 10 + (d.toNat - 48)) 0
  let e : Int := dp - ds.length
  if e ≥ 0 then ((n * 10 ^ e.toNat : Nat) : Rat) else mkRat n (10 ^ (-e).toNat)

/-- add one unit in the last place to a digit string (most significant first); `true` = carried out
of the first digit (the result is then `1` followed by zeros, one digit longer) -/
def incDigits (ds : Bytes) : Bytes × Bool :=
  let r := ds.foldr (fun d (acc : Bytes × Bool) =>
    if acc.2 then (if d == 57 then (48 :: acc.1, true) else ((d + 1) :: acc.1, false)) else (d :: acc.1, false))
    ([], true)
  if r.2 then (49 :: r.1, true) else (r.1, false)

/-- the two `n`-digit decimals around the exact digits `(ds, dp)`: truncation and its successor,
ordered so that the one nearer to the exact value comes first (ties: even last digit first) -/
def nDigitCandidates (ds : Bytes) (dp : Int) (n : Nat) : List (Bytes × Int) :=
  let hd := ds.take n
  let hd := hd ++ zeros (n - hd.length)
  let tl := ds.drop n
  let lo : Bytes × Int := (hd, dp)
  let (up, carried) := incDigits hd
  let hi : Bytes × Int := if carried then (up.take n, dp + 1) else (up, dp)
  -- compare the tail with one half
  let cmp : Ordering := match tl with
    | [] => .lt
    | d :: rest => if d < 53 then .lt else if d > 53 then .gt else if rest.all (· == 48) then .eq else .gt
  if tl.all (· == 48) then [lo] else
  match cmp with
  | .lt => [lo, hi]
  | .gt => [hi, lo]
  | .eq => if (hd.getLast?.getD 48) % 2 == 0 then [lo, hi] else [hi, lo]

/-- `strconv`'s shortest decimal for the positive float `q` of a format with rounding function
`rnd`: fewest digits that round back to `q`. Result `(digits without trailing zeros, dp)`. -/
def shortestAux (rnd : Rat → Option Rat) (q : Rat) (ds : Bytes) (dp : Int) : Nat → Nat → Option (Bytes × Int)
  | 0, _ => none
  | fuel + 1, n =>
    match (nDigitCandidates ds dp n).find? (fun c => rnd (digitsValue c.1 c.2) == some q) with
    | some c => some (stripTrailingZeros c.1, c.2)
    | none => shortestAux rnd q ds dp fuel (n + 1)

/-- `(neg, digits, dp)` of `strconv`'s shortest formatting of the float holding `q`
(`maxDigits` = 17 for float64, 9 for float32); `none` when `q` is not a value of the format -/
def shortestDigits (rnd : Rat → Option Rat) (maxDigits : Nat) (q : Rat) : Option (Bool × Bytes × Int) :=
  match decimalOf q with
  | none => none
  | some (_, [], _) => some (false, [], 0)
  | some (neg, ds, dp) =>
    if rnd q != some q then none else
    let a := if q < 0 then -q else q
    (shortestAux rnd a ds dp maxDigits 1).map fun (d, p) => (neg, d, p)

def FltKind.rnd : FltKind → Rat → Option Rat
  | .f32 => roundF32
  | .f64 => roundF64

def FltKind.maxDigits : FltKind → Nat
  | .f32 => 9
  | .f64 => 17

/-- `strconv.FormatFloat(q, 'g', -1, bits)` for a float holding exactly `q` -/
def fmtFloatG (k : FltKind) (q : Rat) : Res Cause Bytes :=
  match shortestDigits k.rnd k.maxDigits q with
  | none => .unmodelled "float: not a value of the format"
  | some (_, [], _) => .ok [48]
  | some (neg, ds, dp) =>
    let x := dp - 1
    let body := if x < -4 || x ≥ 6 then fmtE ds x else fmtF ds dp
    .ok (if neg then 45 :: body else body)

/-- `strconv.FormatFloat(q, 'f', -1, bits)` (used by the repaired `writeObject` for whole floats) -/
def fmtFloatF (k : FltKind) (q : Rat) : Res Cause Bytes :=
  match shortestDigits k.rnd k.maxDigits q with
  | none => .unmodelled "float: not a value of the format"
  | some (_, [], _) => .ok [48]
  | some (neg, ds, dp) =>
    let body := fmtF ds dp
    .ok (if neg then 45 :: body else body)

/-! ## `time.Time.Format` for a UTC time with whole seconds -/

/-- `time.appendInt(b, x, width)`: sign, then the decimal digits zero-padded to `width` -/
def appendInt (x : Int) (width : Nat) : Bytes :=
  let ds := natDec x.natAbs
  (if x < 0 then [45] else []) ++ zeros (width - ds.length) ++ ds

/-- `2006-01-02 15:04:05` -/
def timeDateClock (t : Cal.Broken) : Bytes :=
  appendInt t.year 4 ++ 45 :: appendInt t.month 2 ++ 45 :: appendInt t.day 2 ++ 32 ::
    appendInt t.hour 2 ++ 58 :: appendInt t.min 2 ++ 58 :: appendInt t.sec 2

def notModelledTime : String := "time.Time: instant beyond ±2^62 s (Go's int64 arithmetic wraps near the ends)"

/-- `t.Format("2006-01-02 15:04:05 -0700")` for `t = time.Unix(u, 0).UTC()` -/
def timeObjectText (u : Int) : Res Cause Bytes :=
  if Cal.timeModelled u then .ok (timeDateClock (Cal.broken u) ++ [32, 43, 48, 48, 48, 48])
  else .unmodelled notModelledTime

/-- `t.String()` for `t = time.Unix(u, 0).UTC()`: `2006-01-02 15:04:05 +0000 UTC` -/
def timeString (u : Int) : Res Cause Bytes :=
  if Cal.timeModelled u then .ok (timeDateClock (Cal.broken u) ++ [32, 43, 48, 48, 48, 48, 32, 85, 84, 67])
  else .unmodelled notModelledTime

/-! ## map key order of `internal/fmtsort` -/

/-- `some (a < b)` when fmtsort's order of two keys is determined by their values -/
def fmtKeyLess : GoVal → GoVal → Option Bool
  | .int k a, .int k' b => if k = k' then some (a < b) else none
  | .flt k a, .flt k' b => if k = k' then some (a < b) else none
  | .str a, .str b => some (a < b)
  | .bool a, .bool b => some (!a && b)
  | _, _ => none

/-- insertion of a printed entry into a list sorted by key; `none` if some comparison is undetermined -/
def insertEntry (e : GoVal × Bytes) : List (GoVal × Bytes) → Option (List (GoVal × Bytes))
  | [] => some [e]
  | f :: rest =>
    match fmtKeyLess e.1 f.1 with
    | none => none
    | some true => some (e :: f :: rest)
    | some false => (insertEntry e rest).map (f :: ·)

def sortEntries : List (GoVal × Bytes) → Option (List (GoVal × Bytes))
  | [] => some []
  | e :: rest => (sortEntries rest).bind (insertEntry e)

def joinSp : List Bytes → Bytes
  | [] => []
  | [a] => a
  | a :: rest => a ++ 32 :: joinSp rest

def bracket (l r : UInt8) (body : Bytes) : Bytes := l :: (body ++ [r])

def mapText (entries : List (GoVal × Bytes)) : Res Cause Bytes :=
  match sortEntries entries with
  | none => .unmodelled "fmt: map keys of mixed dynamic type are ordered by type address"
  | some es => .ok ([109, 97, 112, 91] ++ joinSp (es.map (·.2)) ++ [93])

/-! ## `fmt.Sprint` -/

mutual
/-- a `time.Time` occurs somewhere in the value -/
def GoVal.hasTime : GoVal → Bool
  | .time _ => true
  | .slice _ xs => hasTimeList xs
  | .array _ xs => hasTimeList xs
  | .map _ _ kvs => hasTimeKVs kvs
  | .mapSlice kvs => hasTimeKVs kvs
  | .keyedMap kvs => hasTimeFields kvs
  | .struct fs => hasTimeFields fs
  | .ptr v => v.hasTime
  | .drop v => v.hasTime
  | _ => false
def hasTimeList : List GoVal → Bool
  | [] => false
  | x :: xs => x.hasTime || hasTimeList xs
def hasTimeKVs : List (GoVal × GoVal) → Bool
  | [] => false
  | (k, v) :: r => k.hasTime || v.hasTime || hasTimeKVs r
def hasTimeFields : List (Bytes × GoVal) → Bool
  | [] => false
  | (_, v) :: r => v.hasTime || hasTimeFields r
end

mutual
def sprint : GoVal → Res Cause Bytes
  | .nil => .ok [60, 110, 105, 108, 62]
  | .bool true => .ok [116, 114, 117, 101]
  | .bool false => .ok [102, 97, 108, 115, 101]
  | .int _ n => .ok (intDec n)
  | .flt k q => fmtFloatG k q
  | .str s => .ok s
  | .bytes s => .ok (bracket 91 93 (joinSp (s.map fun b => natDec b.toNat)))
  | .slice _ xs => (sprintAll xs).bind fun bs => .ok (bracket 91 93 (joinSp bs))
  | .array _ xs => (sprintAll xs).bind fun bs => .ok (bracket 91 93 (joinSp bs))
  | .map _ _ kvs => (sprintKVs kvs).bind mapText
  | .mapSlice kvs => (sprintItems kvs).bind fun bs => .ok (bracket 91 93 (joinSp bs))
  | .keyedMap kvs => (sprintFields kvs).bind fun es => mapText (es.map fun (k, b) => (.str k, k ++ 58 :: b))
  | .range a b => .ok (bracket 123 125 (intDec a ++ 32 :: intDec b))
  | .ptr _ => .unmodelled "fmt: a pointer prints as an address"
  | .nilPtr => .ok [60, 110, 105, 108, 62]
  | .drop v =>
    -- the harness's drop type has one *unexported* field: below it `fmt` may not call methods, so a
    -- `time.Time` there is printed as the struct `{wall ext loc}`, not through `String()`
    if v.hasTime then .unmodelled "fmt: a time.Time below an unexported field prints as a struct"
    else (sprint v).bind fun b => .ok (bracket 123 125 b)
  | .struct fs => (sprintFields fs).bind fun es => .ok (bracket 123 125 (joinSp (es.map (·.2))))
  | .time u => timeString u
def sprintAll : List GoVal → Res Cause (List Bytes)
  | [] => .ok []
  | x :: xs => (sprint x).bind fun b => (sprintAll xs).bind fun bs => .ok (b :: bs)
/-- map entries: the key with the printed `k:v` -/
def sprintKVs : List (GoVal × GoVal) → Res Cause (List (GoVal × Bytes))
  | [] => .ok []
  | (k, v) :: r => (sprint k).bind fun kb => (sprint v).bind fun vb => (sprintKVs r).bind fun es =>
      .ok ((k, kb ++ 58 :: vb) :: es)
/-- `yaml.MapItem`s: `{k v}` -/
def sprintItems : List (GoVal × GoVal) → Res Cause (List Bytes)
  | [] => .ok []
  | (k, v) :: r => (sprint k).bind fun kb => (sprint v).bind fun vb => (sprintItems r).bind fun es =>
      .ok (bracket 123 125 (kb ++ 32 :: vb) :: es)
def sprintFields : List (Bytes × GoVal) → Res Cause (List (Bytes × Bytes))
  | [] => .ok []
  | (k, v) :: r => (sprint v).bind fun vb => (sprintFields r).bind fun es => .ok ((k, vb) :: es)
end

/-! ## `values.ResolveDrops` -/

mutual
/-- `values.ResolveDrops` (`fixes/nested-drops-resolved`): `ToLiquid` at every depth of a value that is about
    to be printed. A drop is the value it yields; the elements of slices and arrays, the values of maps and
    of the items of a `yaml.MapSlice` are resolved in turn (keys are not, nor the fields of a struct, nor what
    a pointer points to). The code rebuilds a container that holds a drop as `[]any` / `map[K]any` and returns
    any other value itself; `fmt` prints a container without its type, so the model keeps the type. -/
def GoVal.resolveDrops : GoVal → GoVal
  | .drop v => v.resolveDrops
  | .ptr (.drop v) => v.resolveDrops
  | .slice t xs => .slice t (resolveDropsList xs)
  | .array t xs => .array t (resolveDropsList xs)
  | .map k t kvs => .map k t (resolveDropsVals kvs)
  | .mapSlice kvs => .mapSlice (resolveDropsVals kvs)
  | .keyedMap fs => .keyedMap (resolveDropsFields fs)
  | v => v
def resolveDropsList : List GoVal → List GoVal
  | [] => []
  | x :: xs => x.resolveDrops :: resolveDropsList xs
def resolveDropsVals : List (GoVal × GoVal) → List (GoVal × GoVal)
  | [] => []
  | (k, v) :: r => (k, v.resolveDrops) :: resolveDropsVals r
def resolveDropsFields : List (Bytes × GoVal) → List (Bytes × GoVal)
  | [] => []
  | (k, v) :: r => (k, v.resolveDrops) :: resolveDropsFields r
end

/-- `fmt.Sprint(values.ResolveDrops(v))`: how the library prints a value in Go syntax (the fallback of
    `writeObject`, `Convert` to a string, `join`, the key of `sort_natural`) -/
def sprintR (v : GoVal) : Res Cause Bytes := sprint v.resolveDrops

/-! ## `render.writeObject` -/

/-- the float case added by the D23 repair: a whole float below 10^21 in plain decimal -/
def isWholeSmall (q : Rat) : Bool := q.den == 1 && q.num.natAbs < 10 ^ 21

mutual
/-- `writeObject` after its `ToLiquid` step -/
def writeObjectL : GoVal → Res Cause Bytes
  | .nil => .ok []
  | .time u => timeObjectText u
  | .bytes s => .ok s
  | .flt k q => if isWholeSmall q then fmtFloatF k q else fmtFloatG k q
  | .slice _ xs => writeObjects xs
  | .array _ xs => writeObjects xs
  | .mapSlice kvs => (sprintItems (resolveDropsVals kvs)).bind fun bs => .ok bs.flatten     -- a slice of MapItem structs
  | .drop v => writeObjectL v          -- not reached from `writeObject`: `ToLiquid` leaves no drop
  | .ptr (.drop v) => writeObjectL v
  | .ptr (.ptr _) => .unmodelled "fmt: pointer to pointer"
  | .ptr .nilPtr => .unmodelled "fmt: pointer to pointer"
  | .ptr v => sprint v        -- writeObject(reflect.Value) ⇒ Sprint prints the value it holds
  | .nilPtr => .ok [60, 105, 110, 118, 97, 108, 105, 100, 32, 114, 101, 102, 108, 101, 99, 116, 46, 86, 97, 108, 117, 101, 62]
  | v => sprintR v
/-- the elements of an array, each through `writeObject` (`ToLiquid`, then `writeObjectL`) -/
def writeObjects : List GoVal → Res Cause Bytes
  | [] => .ok []
  | .drop v :: xs => (writeObjectL v).bind fun a => (writeObjects xs).bind fun b => .ok (a ++ b)
  | .ptr (.drop v) :: xs => (writeObjectL v).bind fun a => (writeObjects xs).bind fun b => .ok (a ++ b)
  | x :: xs => (writeObjectL x).bind fun a => (writeObjects xs).bind fun b => .ok (a ++ b)
end

/-- `render/render.go:writeObject` -/
def writeObject (v : GoVal) : Res Cause Bytes := writeObjectL v.toLiquid
