import Liquid.Call
import Liquid.Filters.Num
import Liquid.Filters.Arr
/-!
# A memory model for Go slices, and the array filters at that level (DESIGN §6 C15, C03)

`GoVal` values are immutable mathematical values, so "the filter does not WRITE into the caller's
backing array" cannot be said about `Filters/Arr.lean`. This file says it.

## Memory

* `Store := List (List GoVal)` — the backing arrays that exist, each with its full length (the spare
  capacity behind a slice is part of the array). Arrays are never freed; a new array gets the index
  `st.length`. The *elements* are immutable values: a nested slice or map inside an element is a value
  here (no array filter writes through an element: they read elements — comparison, printing, property
  lookup — and copy them).
* `SliceRef := { arr, off, len, cap }` — a Go slice header: elements `arr[off .. off+len)`, capacity
  up to `arr[off+cap)`. `Slice := Option SliceRef`, `none` = the nil slice (len 0, cap 0, no array).
* `Prog α` — a program over the memory: `read a i`, `write a i v`, `alloc row`, `halt`. The ONLY way
  to change the store is `write`; `run` interprets a program, returns the final store and the LOG of
  the locations `(array, index)` written, in order (`Proofs/HeapLemmas.run_frame`: a location that is
  not in the log holds what it held).

## Go's slice operations (`index`, `setIndex`, `reslice`, `make`, `append`, `copy`)

with Go's panics (`index out of range`, `slice bounds out of range`, `makeslice`) and Go's aliasing:
`append(s, vs...)` writes IN PLACE into the spare capacity of `s`'s backing array when
`len(s)+len(vs) ≤ cap(s)` and allocates otherwise (the capacity of the new array is `growCap`; Go's
size classes are not modelled — no statement below depends on the capacity of an array the call
allocated itself). `copy` and `append(dst, src...)` read the source completely before they write
(`memmove`).

## The filters, after `values.Call` converted the arguments

* `convertAnys` — `values.Convert(v, []any)` as `convertCallArguments` uses it: a `nil` argument is the
  nil slice; a `[]any` WITHOUT a drop among its elements is returned AS IS — the same backing array,
  offset, length and capacity (`rv.Convert(typ)` of identical types); a `[]any` holding a drop, a typed
  slice, a fixed array, a range, a `MapSlice`, a map allocate (`MakeSlice(typ, 0, n)` + `Append`).
* `compactH concatH reverseH firstH lastH joinH mapH uniqH sortH sizeH defaultH` — line by line from
  `filters/standard_filters.go`, `filters/sort_filters.go` (the Go text is quoted at each). `sort` and
  `sort_natural` copy first (`make` + `copy`) and sort the COPY in place: `sort.Sort` reaches the slice
  only through `Len`/`Less`/`Swap(i, j)` with `i, j < Len()`, so its writes are modelled as a write of
  every index of the copy with the sorted contents (`ArrF.sortWith` decides the contents).
* `stageF` — one filter application `x | name: args` as `expressions.ApplyFilter` + `values.Call` run it
  (arity check, conversion left to right, body, result through `ValueOf(..).Interface()`); `runChain`
  — a pipeline. `default` is included because it RETURNS its receiver (or its argument) uncopied: the
  next filter of a pipeline then works on the caller's array.

A value flowing between stages is an `HVal`: a slice header into the store (`sl`) or an immutable
value (`val`). An element that is itself a slice (`first` of `[[1,2]]`) is a value; when such a value
becomes a receiver, `convertAnys` *discovers* its backing array (`alloc` of its contents with
`cap = len`: it is memory of the caller that the flat store did not list yet) and passes it through like
any other `[]any`.
-/

namespace Heap

abbrev Store := List (List GoVal)

/-- a Go slice header -/
structure SliceRef where
  arr : Nat
  off : Nat
  len : Nat
  cap : Nat
  deriving Repr, DecidableEq, Inhabited

/-- `none` is the nil slice -/
abbrev Slice := Option SliceRef

def lenS : Slice → Nat
  | none => 0
  | some r => r.len

def capS : Slice → Nat
  | none => 0
  | some r => r.cap

/-- a location: (backing array, index in it) -/
abbrev Loc := Nat × Nat
abbrev WriteLog := List Loc

/-! ## Programs over the memory -/

inductive Halt where
  | err (c : Cause)
  | panic (w : String)
  | unmodelled (w : String)

def Halt.toRes {α : Type} : Halt → Res Cause α
  | .err c => .err c
  | .panic w => .panic w
  | .unmodelled w => .unmodelled w

inductive Prog (α : Type) where
  | ret (a : α)
  | halt (h : Halt)
  /-- load `arr[i]` -/
  | read (a i : Nat) (k : GoVal → Prog α)
  /-- store `arr[i] = v` -/
  | write (a i : Nat) (v : GoVal) (k : Prog α)
  /-- a new backing array with these contents; the continuation receives its index -/
  | alloc (row : List GoVal) (k : Nat → Prog α)

def Prog.bind {α β : Type} : Prog α → (α → Prog β) → Prog β
  | .ret a, f => f a
  | .halt h, _ => .halt h
  | .read a i k, f => .read a i fun v => (k v).bind f
  | .write a i v k, f => .write a i v (k.bind f)
  | .alloc row k, f => .alloc row fun n => (k n).bind f

/-- a pure computation of the value layer inside a program -/
def liftR {α : Type} : Res Cause α → Prog α
  | .ok a => .ret a
  | .err c => .halt (.err c)
  | .panic w => .halt (.panic w)
  | .unmodelled w => .halt (.unmodelled w)

def readAt (st : Store) (a i : Nat) : Option GoVal :=
  match st[a]? with
  | some row => row[i]?
  | none => none

def writeAt (st : Store) (a i : Nat) (v : GoVal) : Option Store :=
  match st[a]? with
  | some row => if i < row.length then some (st.set a (row.set i v)) else none
  | none => none

/-- what a program leaves behind: its value, the store, the locations it wrote (in order) -/
structure Out (α : Type) where
  val : α
  st : Store
  log : WriteLog

def logged {α : Type} (l : Loc) : Res Cause (Out α) → Res Cause (Out α)
  | .ok o => .ok { o with log := l :: o.log }
  | r => r

/-- The interpreter. A load or store outside every backing array cannot be written in Go (a slice
header always lies inside its array); it ends the run with `panic`, never silently. -/
def run {α : Type} : Prog α → Store → Res Cause (Out α)
  | .ret a, st => .ok ⟨a, st, []⟩
  | .halt h, _ => h.toRes
  | .read a i k, st =>
    match readAt st a i with
    | some v => run (k v) st
    | none => .panic "load outside every backing array"
  | .write a i v k, st =>
    match writeAt st a i v with
    | some st' => logged (a, i) (run k st')
    | none => .panic "store outside every backing array"
  | .alloc row k, st => run (k st.length) (st ++ [row])

/-! ## Go's slice operations -/

/-- `s[i]` -/
def index (s : Slice) (i : Nat) : Prog GoVal :=
  match s with
  | some r => if i < r.len then .read r.arr (r.off + i) .ret else .halt (.panic "index out of range")
  | none => .halt (.panic "index out of range")

/-- `s[i] = v`: a WRITE to `arr[off+i]` -/
def setIndex (s : Slice) (i : Nat) (v : GoVal) : Prog Unit :=
  match s with
  | some r => if i < r.len then .write r.arr (r.off + i) v (.ret ()) else .halt (.panic "index out of range")
  | none => .halt (.panic "index out of range")

/-- `s[lo:hi]`: the same backing array; no load, no store -/
def reslice (s : Slice) (lo hi : Nat) : Prog Slice :=
  if lo ≤ hi ∧ hi ≤ capS s then
    match s with
    | none => .ret none
    | some r => .ret (some { arr := r.arr, off := r.off + lo, len := hi - lo, cap := r.cap - lo })
  else .halt (.panic "slice bounds out of range")

/-- `n` consecutive loads -/
def readRange (a : Nat) : Nat → Nat → Prog (List GoVal)
  | _, 0 => .ret []
  | off, n + 1 => .read a off fun v => (readRange a (off + 1) n).bind fun vs => .ret (v :: vs)

/-- consecutive stores -/
def writeRange (a : Nat) : Nat → List GoVal → Prog Unit
  | _, [] => .ret ()
  | off, v :: vs => .write a off v (writeRange a (off + 1) vs)

/-- the elements `s[0], …, s[len-1]`, loaded -/
def elems : Slice → Prog (List GoVal)
  | none => .ret []
  | some r => readRange r.arr r.off r.len

/-- `make([]T, len, cap)`: a new zeroed array -/
def make (len cap : Nat) : Prog Slice :=
  if len ≤ cap then .alloc (List.replicate cap .nil) fun a => .ret (some ⟨a, 0, len, cap⟩)
  else .halt (.panic "makeslice: cap out of range")

/-- capacity of the array `append` allocates when it must grow (at least what is needed) -/
def growCap (old need : Nat) : Nat := max need (2 * old)

/-- `append(s, vs...)`. THE aliasing hazard: when the spare capacity suffices, the elements are
written into `s`'s own backing array. -/
def append (s : Slice) (vs : List GoVal) : Prog Slice :=
  if lenS s + vs.length ≤ capS s then
    match s with
    | none => .ret none
    | some r => (writeRange r.arr (r.off + r.len) vs).bind fun _ => .ret (some { r with len := r.len + vs.length })
  else
    (elems s).bind fun old =>
      .alloc (old ++ vs ++ List.replicate (growCap (capS s) (lenS s + vs.length) - (lenS s + vs.length)) .nil) fun a =>
        .ret (some ⟨a, 0, lenS s + vs.length, growCap (capS s) (lenS s + vs.length)⟩)

/-- `copy(dst, src)`: `min(len(dst), len(src))` elements, loaded before any is stored -/
def copy (dst src : Slice) : Prog Nat :=
  match dst, src with
  | some d, some s =>
    (readRange s.arr s.off (min d.len s.len)).bind fun vs =>
      (writeRange d.arr d.off vs).bind fun _ => .ret (min d.len s.len)
  | _, _ => .ret 0

/-- every index of `s` stored anew (`ys` has `len(s)` elements where it is used) -/
def overwrite (s : Slice) (ys : List GoVal) : Prog Unit :=
  match s with
  | none => .ret ()
  | some r => writeRange r.arr r.off ys

/-! ## Reading a store (for statements and for the driver; programs use `read`) -/

/-- the elements of a slice as the store holds them -/
def view (st : Store) : Slice → List GoVal
  | none => []
  | some r => (((st[r.arr]?).getD []).drop r.off).take r.len

/-- a header that lies inside its backing array -/
def SliceRef.wf (st : Store) (r : SliceRef) : Prop :=
  r.len ≤ r.cap ∧ ∃ row, st[r.arr]? = some row ∧ r.off + r.cap ≤ row.length

def Slice.wf (st : Store) : Slice → Prop
  | none => True
  | some r => r.wf st

/-- a value between two filters of a pipeline: a slice header (element type `t`) or an immutable value -/
inductive HVal where
  | sl (t : Ty) (s : Slice)
  | val (v : GoVal)

/-- the pure value an `HVal` stands for in a store -/
def HVal.abs (st : Store) : HVal → GoVal
  | .sl t s => .slice t (view st s)
  | .val v => v

def HVal.wf (st : Store) : HVal → Prop
  | .sl _ s => Slice.wf st s
  | .val _ => True

/-! ## Loops -/

/-- `for _, item := range a { …; if keep { result = append(result, v) } }` with a loop state `σ`:
`item` is loaded from the store as it is in that iteration (`range` evaluates the header once). -/
def collectFrom {σ : Type} (a : Slice) (step : σ → GoVal → Res Cause (σ × Option GoVal)) :
    Nat → Nat → σ → Slice → Prog Slice
  | 0, _, _, res => .ret res
  | n + 1, i, s, res =>
    (index a i).bind fun item =>
      (liftR (step s item)).bind fun p =>
        match p.2 with
        | none => collectFrom a step n (i + 1) p.1 res
        | some v => (append res [v]).bind fun res' => collectFrom a step n (i + 1) p.1 res'

def collect {σ : Type} (a : Slice) (step : σ → GoVal → Res Cause (σ × Option GoVal)) (s0 : σ) (res0 : Slice) :
    Prog Slice :=
  collectFrom a step (lenS a) 0 s0 res0

/-- the same loop over a list of values (the pure counterpart) -/
def collectP {σ : Type} (step : σ → GoVal → Res Cause (σ × Option GoVal)) : σ → List GoVal → Res Cause (List GoVal)
  | _, [] => .ok []
  | s, x :: xs =>
    (step s x).bind fun p => (collectP step p.1 xs).bind fun r =>
      .ok (match p.2 with
        | none => r
        | some v => v :: r)

/-- one `append(result, x)` per element -/
def appendEach : Slice → List GoVal → Prog Slice
  | res, [] => .ret res
  | res, x :: xs => (append res [x]).bind fun res' => appendEach res' xs

/-! ## `values.Convert(v, []any)` -/

/-- `rv.Index(i).Interface().(drop)`: the element implements `ToLiquid()` -/
def isDropTok : GoVal → Bool
  | .drop _ => true
  | .ptr (.drop _) => true
  | _ => false

/-- `result := reflect.MakeSlice(typ, 0, rv.Len()); for i := range rv.Len() { item := convertElement(rv.Index(i)…);
result = reflect.Append(result, item) }` — `convertElement(·, any)` is `ToLiquid`, a nil stays nil -/
def convElemwise (s : Slice) : Prog Slice :=
  (make 0 (lenS s)).bind fun result => collect s (fun (_ : Unit) x => .ok ((), some x.toLiquid)) () result

/-- `Convert` of a slice with element type `t`: `rv.Type().ConvertibleTo([]any)` holds for `[]any` only, and then
`!(… && holdsDrop(rv))` decides: without a drop `rv.Convert(typ).Interface()` — THE SAME HEADER. -/
def convSlice (t : Ty) (s : Slice) : Prog Slice :=
  match t with
  | .any => (elems s).bind fun xs => if xs.any isDropTok then convElemwise s else .ret s
  | _ => convElemwise s

/-- a freshly allocated `[]any` with these elements: `MakeSlice(typ, 0, n)` / `make([]any, 0, n)` and one append each
(fixed arrays, ranges — `Range.AsArray` —, `MapSlice`, maps in sorted key order, `[]byte`) -/
def freshSlice (ys : List GoVal) : Prog Slice :=
  (make 0 ys.length).bind fun r => appendEach r ys

/-- the receiver (or `concat`'s argument) as `convertCallArguments` hands it to a `[]any` parameter -/
def convertAnys : HVal → Prog Slice
  | .sl t s => convSlice t s
  | .val .nil => .ret none                       -- `arg == nil` ⇒ `reflect.Zero(typ)`
  | .val v =>
    match v.toLiquid with
    | .slice t xs =>                              -- a slice met as a value: its array is the caller's, listed now
      .alloc xs fun a => convSlice t (some ⟨a, 0, xs.length, xs.length⟩)
    | _ =>
      match convert v .anys with
      | .ok (.slice .any ys) => freshSlice ys
      | .ok _ => .halt (.panic "Convert: the result is not a []any")
      | .err c => .halt (.err c)
      | .panic w => .halt (.panic w)
      | .unmodelled w => .halt (.unmodelled w)

/-! ## The filter bodies -/

/-- ```go
func(a []any) (result []any) {
	for _, item := range a { if item != nil { result = append(result, item) } }
	return
}``` -/
def compactStep (_ : Unit) (x : GoVal) : Res Cause (Unit × Option GoVal) :=
  .ok ((), if x.isNil then none else some x)

def compactH (a : Slice) : Prog Slice := collect a compactStep () none

/-- ```go
func(a, b []any) (result []any) {
	result = make([]any, 0, len(a)+len(b))
	return append(append(result, a...), b...)
}``` -/
def concatH (a b : Slice) : Prog Slice :=
  (make 0 (lenS a + lenS b)).bind fun result =>
    (elems a).bind fun xs => (append result xs).bind fun r1 =>
      (elems b).bind fun ys => append r1 ys

/-- `for i, x := range a { result[len(result)-1-i] = x }` -/
def reverseLoop (a result : Slice) : Nat → Nat → Prog Unit
  | 0, _ => .ret ()
  | n + 1, i => (index a i).bind fun x => (setIndex result (lenS result - 1 - i) x).bind fun _ => reverseLoop a result n (i + 1)

/-- ```go
func reverseFilter(a []any) any {
	result := make([]any, len(a))
	for i, x := range a { result[len(result)-1-i] = x }
	return result
}``` -/
def reverseH (a : Slice) : Prog Slice :=
  (make (lenS a) (lenS a)).bind fun result => (reverseLoop a result (lenS a) 0).bind fun _ => .ret result

/-- `if len(a) == 0 { return nil }; return a[0]` -/
def firstH (a : Slice) : Prog GoVal := if lenS a = 0 then .ret .nil else index a 0

/-- `if len(a) == 0 { return nil }; return a[len(a)-1]` -/
def lastH (a : Slice) : Prog GoVal := if lenS a = 0 then .ret .nil else index a (lenS a - 1)

def joinStep (_ : Unit) (v : GoVal) : Res Cause (Unit × Option GoVal) :=
  if v.isNil then .ok ((), none) else (sprintR v).bind fun b => .ok ((), some (.str b))

def strOf : GoVal → Bytes
  | .str s => s
  | _ => []

/-- ```go
func joinFilter(a []any, sep func(string) string) any {
	ss := make([]string, 0, len(a))
	s := sep(" ")                                   // evaluated by the caller of joinH
	for _, v := range a { if v != nil { ss = append(ss, fmt.Sprint(v)) } }
	return strings.Join(ss, s)
}``` — `ss` is a local `[]string`; its array holds the strings as `GoVal.str`. -/
def joinH (a : Slice) (sep : Bytes) : Prog GoVal :=
  (make 0 (lenS a)).bind fun ss0 => (collect a joinStep () ss0).bind fun ss =>
    (elems ss).bind fun strs => .ret (.str (ArrF.joinBytes sep (strs.map strOf)))

def mapStep (k : Bytes) (_ : Unit) (x : GoVal) : Res Cause (Unit × Option GoVal) :=
  (ArrF.propOf x k).bind fun v => .ok ((), some v)

/-- ```go
func(a []any, key string) (result []any) {
	keyValue := values.ValueOf(key)
	for _, obj := range a { value := values.ValueOf(obj); result = append(result, value.PropertyValue(keyValue).Interface()) }
	return result
}``` -/
def mapH (a : Slice) (k : Bytes) : Prog Slice := collect a (mapStep k) () none

/-- `seen(item)` of `uniqFilter`: the loop state is the list of the keys of `result` (`ArrF.uniqOn`) -/
def uniqStep (seen : List String) (x : GoVal) : Res Cause (List String × Option GoVal) :=
  if ArrF.hasPtr x then .unmodelled "uniq: pointer identity"
  else if seen.contains (ArrF.uniqKey x) then .ok (seen, none) else .ok (ArrF.uniqKey x :: seen, some x)

/-- `for _, item := range a { if !seen(item) { result = append(result, item) } }` -/
def uniqH (a : Slice) : Prog Slice := collect a uniqStep [] none

/-- what `values.Sort` / `values.SortByProperty` / `sort.Sort(keySortable{…})` leave in the slice they are given -/
def sortedList (strict natural : Bool) (xs : List GoVal) (key : GoVal) : Res Cause (List GoVal) :=
  match (if natural then ArrF.sortNaturalWith strict [.slice .any xs, key] else ArrF.sortWith strict [.slice .any xs, key]) with
  | .ok (.slice .any ys) => .ok ys
  | .ok _ => .panic "sort: the result is not a []any"
  | .err c => .err c
  | .panic w => .panic w
  | .unmodelled w => .unmodelled w

/-- ```go
func sortFilter(array []any, key any) []any {
	result := make([]any, len(array))
	copy(result, array)
	if key == nil { values.Sort(result) } else { values.SortByProperty(result, fmt.Sprint(key), true) }
	return result
}``` and `sortNaturalFilter` alike (`sort.Sort(keySortable{result, …})`). The sort works IN PLACE on `result`. -/
def sortH (strict natural : Bool) (a : Slice) (key : GoVal) : Prog Slice :=
  (make (lenS a) (lenS a)).bind fun result =>
    (copy result a).bind fun _ =>
      (elems result).bind fun xs =>
        (liftR (sortedList strict natural xs key)).bind fun ys =>
          (overwrite result ys).bind fun _ => .ret result

/-! ## One filter application -/

inductive FName where
  | compact | concat | join | map | reverse | sort | sortNatural | first | last | uniq | size | default
  deriving Repr, DecidableEq, Inhabited

def FName.name : FName → Bytes
  | .compact => ArrF.bn "compact" | .concat => ArrF.bn "concat" | .join => ArrF.bn "join" | .map => ArrF.bn "map"
  | .reverse => ArrF.bn "reverse" | .sort => ArrF.bn "sort" | .sortNatural => ArrF.bn "sort_natural"
  | .first => ArrF.bn "first" | .last => ArrF.bn "last" | .uniq => ArrF.bn "uniq" | .size => ArrF.bn "size"
  | .default => ArrF.bn "default"

def FName.all : List FName :=
  [.compact, .concat, .join, .map, .reverse, .sort, .sortNatural, .first, .last, .uniq, .size, .default]

def FName.ofBytes (name : Bytes) : Option FName := FName.all.find? (fun f => f.name == name)

/-- number of parameters of the Go function, the receiver included (`Call.stdFilters`) -/
def FName.arity : FName → Nat
  | .compact | .reverse | .first | .last | .uniq | .size => 1
  | .concat | .join | .map | .sort | .sortNatural | .default => 2

/-- `values.ValueOf(x).Interface()` leaves a slice header alone -/
def HVal.via : HVal → HVal
  | .val v => .val (viaValue v)
  | h => h

/-- the value of a parameter that is not `[]any`: such a parameter is only ever read -/
def freeze : HVal → Prog GoVal
  | .val v => .ret v
  | .sl t s => (elems s).bind fun xs => .ret (.slice t xs)

/-- `convertCallArguments` for a parameter of type `t` (not `[]any`, not a default function) -/
def convArgVal (t : ParamTy) : Option GoVal → Res Cause GoVal
  | none => .ok t.zero
  | some .nil => .ok t.zero
  | some v => convert v t

/-- a parameter of type `any`: slices are passed BY REFERENCE -/
def convAnyH : Option HVal → Res Cause HVal
  | none => .ok (.val .nil)
  | some (.sl t s) => .ok (.sl t s)
  | some (.val .nil) => .ok (.val .nil)
  | some (.val v) => (convAny v).bind fun w => .ok (.val w)

/-- `sep(" ")` of `joinFilter` -/
def sepOf : Option HVal → Prog Bytes
  | none => .ret [32]
  | some h => (freeze h).bind fun g => (liftR (convert g .str)).bind fun
    | .str s => .ret s
    | _ => .halt (.panic "filter called with arguments of the wrong type")

def freezeOpt : Option HVal → Prog (Option GoVal)
  | none => .ret none
  | some h => (freeze h).bind fun g => .ret (some g)

def strArg (a : Option HVal) : Prog Bytes :=
  (freezeOpt a).bind fun og =>
    (liftR (convArgVal .str og)).bind fun
      | .str s => .ret s
      | _ => .halt (.panic "filter called with arguments of the wrong type")

def anyArg (a : Option HVal) : Prog GoVal :=
  (freezeOpt a).bind fun og => liftR (convArgVal .any og)

/-- `values.Length`: the header's length, no element is loaded -/
def sizeH (recv : HVal) : Prog GoVal :=
  match recv with
  | .sl _ s => .ret (.int .int (lenS s))
  | .val v =>
    (liftR (convArgVal .any (some v))).bind fun c =>
      match Num.size [.val c] with
      | .ok (.ok r) => .ret r
      | .ok (.error e) => .halt (.err (.filterErr (ArrF.bn "size") e))
      | .err c => .halt (.err c)
      | .panic w => .halt (.panic w)
      | .unmodelled w => .halt (.unmodelled w)

/-- ```go
func(value, defaultValue any) any {
	if value == nil || value == false || values.IsEmpty(value) { value = defaultValue }
	return value
}``` — whichever it returns, it returns it UNCOPIED. -/
def defaultH (recv arg : HVal) : HVal :=
  let empty := match recv with
    | .sl _ s => lenS s == 0
    | .val .nil => true
    | .val (.bool false) => true
    | .val w => Num.isEmpty w.toLiquid
  if empty then arg else recv

/-- `ApplyFilter`'s `[]byte` ⇒ `string` and `makeFilter`'s `ValueOf(..).Interface()` on the result -/
def HVal.post : HVal → HVal
  | .val v => .val (viaValue (bytesToString v))
  | h => h

/-- the body of filter `f` applied to receiver and arguments (conversion left to right, then the Go function) -/
def bodyF (strict : Bool) : FName → HVal → List HVal → Prog HVal
  | .compact, recv, _ => (convertAnys recv).bind fun a => (compactH a).bind fun r => .ret (.sl .any r)
  | .concat, recv, args =>
    (convertAnys recv).bind fun a => (convertAnys (args.headD (.val .nil))).bind fun b =>
      (concatH a b).bind fun r => .ret (.sl .any r)
  | .join, recv, args =>
    (convertAnys recv).bind fun a => (sepOf args.head?).bind fun sep => (joinH a sep).bind fun r => .ret (.val r)
  | .map, recv, args =>
    (convertAnys recv).bind fun a => (strArg args.head?).bind fun k => (mapH a k).bind fun r => .ret (.sl .any r)
  | .reverse, recv, _ => (convertAnys recv).bind fun a => (reverseH a).bind fun r => .ret (.sl .any r)
  | .sort, recv, args =>
    (convertAnys recv).bind fun a => (anyArg args.head?).bind fun key => (sortH strict false a key).bind fun r => .ret (.sl .any r)
  | .sortNatural, recv, args =>
    (convertAnys recv).bind fun a => (anyArg args.head?).bind fun key => (sortH strict true a key).bind fun r => .ret (.sl .any r)
  | .first, recv, _ => (convertAnys recv).bind fun a => (firstH a).bind fun r => .ret (.val r)
  | .last, recv, _ => (convertAnys recv).bind fun a => (lastH a).bind fun r => .ret (.val r)
  | .uniq, recv, _ => (convertAnys recv).bind fun a => (uniqH a).bind fun r => .ret (.sl .any r)
  | .size, recv, _ => (sizeH recv).bind fun r => .ret (.val r)
  | .default, recv, args =>
    (liftR (convAnyH (some recv))).bind fun v => (liftR (convAnyH args.head?)).bind fun d => .ret (defaultH v d)

/-- `x | f: args` as the expression evaluator runs it -/
def stageF (strict : Bool) (f : FName) (recv : HVal) (args : List HVal) : Prog HVal :=
  if (recv :: args).length > f.arity then .halt (.err (.filterErr f.name .parity)) else
  (bodyF strict f recv.via (args.map HVal.via)).bind fun r => .ret r.post

def stage (strict : Bool) (name : Bytes) (recv : HVal) (args : List HVal) : Prog HVal :=
  match FName.ofBytes name with
  | some f => stageF strict f recv args
  | none => .halt (.unmodelled "alias: not one of the array filters")

/-- a pipeline `x | f1: a1 | f2: a2 | …` -/
def runChainF (strict : Bool) : HVal → List (FName × List HVal) → Prog HVal
  | v, [] => .ret v
  | v, (f, args) :: rest => (stageF strict f v args).bind fun r => runChainF strict r rest

def runChain (strict : Bool) : HVal → List (Bytes × List HVal) → Prog HVal
  | v, [] => .ret v
  | v, (name, args) :: rest => (stage strict name v args).bind fun r => runChain strict r rest

/-! ## Driver op `alias` (stream `alias`, `harness/stream_alias.go`)

`alias <off>:<spare> <recv> (<namehex> <arg|->)+` — the receiver, when it is a slice, is realised as
`backing[off : off+len]` of a backing array of `off+len+spare` elements whose other elements hold a
sentinel; a slice argument of step `i` is bound to `a<i>` with two spare elements behind it. Answer:
`ok <result> alias=<0|1> changed=<-|name:index,…>`: the result's contents, whether the result is a slice
into the receiver's backing array, and the locations of the caller's arrays whose contents differ
afterwards (`x` = the receiver's array, `a<i>` = the argument's). -/

def sentinel : GoVal := .str [0, 83, 80, 65, 82, 69, 0]

/-- a caller's value placed in the store -/
def place (st : Store) (v : GoVal) (off spare : Nat) : Store × HVal :=
  match v with
  | .slice t xs =>
    (st ++ [List.replicate off sentinel ++ xs ++ List.replicate spare sentinel],
      .sl t (some ⟨st.length, off, xs.length, xs.length + spare⟩))
  | v => (st, .val v)

def changedIn (name : String) (before after : List GoVal) : List String :=
  (List.range before.length).filterMap fun i =>
    match before[i]?, after[i]? with
    | some b, some a => if b.enc == a.enc then none else some s!"{name}:{i}"
    | _, _ => some s!"{name}:{i}"

def changedAll (names : List String) (before after : Store) : List String :=
  ((List.range before.length).map fun a =>
    changedIn (names.getD a "?") (before.getD a []) (after.getD a [])).flatten

def aliasFlag (recv res : HVal) : Bool :=
  match recv, res with
  | .sl _ (some r0), .sl _ (some r) => decide (0 < r.cap) && decide (0 < r0.cap) && r.arr == r0.arr
  | _, _ => false

def parseSteps : Nat → List String → Option (List (Bytes × Option GoVal))
  | _, [] => some []
  | i, name :: arg :: rest =>
    let a : Option (Option GoVal) := if arg == "-" then some none else (GoVal.parse arg).map some
    match a, parseSteps (i + 1) rest with
    | some a, some r => some ((hexDecode name, a) :: r)
    | _, _ => none
  | _, [_] => none

/-- place the arguments (step `i`'s is named `a<i>`) -/
def placeArgs : Nat → Store → List String → List (Bytes × Option GoVal) → Store × List String × List (Bytes × List HVal)
  | _, st, names, [] => (st, names, [])
  | i, st, names, (nm, none) :: rest =>
    let (st', names', r) := placeArgs (i + 1) st names rest
    (st', names', (nm, []) :: r)
  | i, st, names, (nm, some v) :: rest =>
    let (st1, h) := place st v 0 2
    let names1 := if st1.length > st.length then names ++ [s!"a{i}"] else names
    let (st', names', r) := placeArgs (i + 1) st1 names1 rest
    (st', names', (nm, [h]) :: r)

def runAlias (spec : String) (recvF : String) (stepsF : List String) : String :=
  match spec.splitOn ":", GoVal.parse recvF, parseSteps 0 stepsF with
  | [offF, spareF], some recv, some steps =>
    let (st0, h) := place [] recv offF.toNat! spareF.toNat!
    let names0 := if st0.length > 0 then ["x"] else []
    let (st, names, chain) := placeArgs 0 st0 names0 steps
    match run (runChain true h chain) st with
    | .ok o =>
      let ch := changedAll names st o.st
      "ok " ++ (o.val.abs o.st).enc ++ " alias=" ++ (if aliasFlag h o.val then "1" else "0") ++
        " changed=" ++ (if ch.isEmpty then "-" else ",".intercalate ch)
    | .err c => "err " ++ c.kind
    | .panic _ => "panic"
    | .unmodelled w => "unmodelled " ++ w
  | _, _, _ => "unmodelled parse"

end Heap
